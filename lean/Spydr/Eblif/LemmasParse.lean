/-
  Comment lines in the line parser: a `#` line only extends the comment list.
-/
import Spydr.Eblif.LemmasLex

namespace Spydr.Eblif

theorem fail_setC (s : PSt) (c : List String) (e : Err) : (s.setC c).fail e = (s.fail e).setC c := by
  cases s with | mk mode comments done cur err => cases err <;> rfl

theorem pushStmt_setC (s : PSt) (c : List String) (x : Stmt) (m : Mode) :
    (s.setC c).pushStmt x m = (s.pushStmt x m).setC c := by
  cases s with | mk mode comments done cur err => cases cur <;> rfl

theorem pushHdr_setC (s : PSt) (c : List String) (x : Hdr) :
    (s.setC c).pushHdr x = (s.pushHdr x).setC c := by
  cases s with | mk mode comments done cur err => cases cur <;> rfl

theorem modLast_setC (s : PSt) (c : List String) (f : Stmt → Stmt) :
    (s.setC c).modLast f = (s.modLast f).setC c := by
  cases s with | mk mode comments done cur err => cases cur <;> rfl

@[simp] theorem fail_comments (s : PSt) (e : Err) : (s.fail e).comments = s.comments := by
  cases s with | mk mode comments done cur err => cases err <;> rfl
@[simp] theorem pushStmt_comments (s : PSt) (x : Stmt) (m : Mode) : (s.pushStmt x m).comments = s.comments := by
  cases s with | mk mode comments done cur err => cases cur <;> rfl
@[simp] theorem pushHdr_comments (s : PSt) (x : Hdr) : (s.pushHdr x).comments = s.comments := by
  cases s with | mk mode comments done cur err => cases cur <;> rfl
@[simp] theorem modLast_comments (s : PSt) (f : Stmt → Stmt) : (s.modLast f).comments = s.comments := by
  cases s with | mk mode comments done cur err => cases cur <;> rfl

/-- the steps never read the comment list, they only append to it -/
def PrefixInv (f : PSt → PSt) : Prop :=
  ∀ (s : PSt) (p : List String), f (s.setC (p ++ s.comments)) = (f s).setC (p ++ (f s).comments)

theorem setC_setMode (s : PSt) (c : List String) (m : Mode) :
    ({ (s.setC c) with mode := m } : PSt) = ({ s with mode := m } : PSt).setC c := rfl

theorem stepBody_prefix (line : List String) : PrefixInv (fun s => stepBody s line) := by
  intro s p
  cases line with
  | nil => rfl
  | cons kw args =>
    simp only [stepBody]
    split
    · simp [PSt.setC]
    split
    · cases args with
      | nil => simp [fail_setC]
      | cons m cs =>
        simp only []
        cases parseConns cs <;> simp [fail_setC, pushStmt_setC]
    split
    · simp [pushStmt_setC]
    split
    · simp [pushStmt_setC]
    split
    · cases args with
      | nil => simp [fail_setC]
      | cons a r =>
        cases r with
        | nil => simp [fail_setC]
        | cons b r => simp [pushStmt_setC]
    split
    · simp [pushStmt_setC]
    split
    · cases s with | mk mode comments done cur err => cases cur <;> simp [PSt.setC]
    · rfl

theorem stepInfo_prefix (line : List String) : PrefixInv (fun s => stepInfo s line) := by
  intro s p
  cases line with
  | nil => rfl
  | cons kw args =>
    simp only [stepInfo]
    split
    · simp [PSt.setC]
    split
    · cases args with
      | nil => simp [fail_setC]
      | cons n r => simp [modLast_setC]
    split
    · cases args with
      | nil => simp [fail_setC]
      | cons a r =>
        cases r with
        | nil => simp [fail_setC]
        | cons b r => simp [modLast_setC]
    split
    · cases args with
      | nil => simp [fail_setC]
      | cons a r =>
        cases r with
        | nil => simp [fail_setC]
        | cons b r => simp [modLast_setC]
    · exact stepBody_prefix (kw :: args) s p

theorem stepCovers_prefix (line : List String) : PrefixInv (fun s => stepCovers s line) := by
  intro s p
  cases line with
  | nil => rfl
  | cons kw args =>
    simp only [stepCovers]
    split
    · simp [modLast_setC]
    · exact stepInfo_prefix (kw :: args) { s with mode := Mode.info } p

theorem stepHeader_prefix (line : List String) : PrefixInv (fun s => stepHeader s line) := by
  intro s p
  cases line with
  | nil => rfl
  | cons kw args =>
    simp only [stepHeader]
    split
    · simp [PSt.setC]
    split
    · simp [pushHdr_setC]
    split
    · simp [pushHdr_setC]
    split
    · simp [pushHdr_setC]
    · exact stepBody_prefix (kw :: args) { s with mode := Mode.body } p

theorem stepOutside_prefix (line : List String) : PrefixInv (fun s => stepOutside s line) := by
  intro s p
  cases line with
  | nil => rfl
  | cons kw args =>
    simp only [stepOutside]
    split
    · simp [PSt.setC]
    split
    · cases args with
      | nil => simp [fail_setC]
      | cons n r => rfl
    · rfl

theorem pstep_prefix (line : List String) : PrefixInv (fun s => pstep s line) := by
  intro s p
  cases s with
  | mk mode comments done cur err =>
    cases mode
    · exact stepOutside_prefix line _ p
    · exact stepHeader_prefix line _ p
    · exact stepBody_prefix line _ p
    · exact stepCovers_prefix line _ p
    · exact stepInfo_prefix line _ p

theorem foldl_prefix (ls : List (List String)) :
    ∀ (s : PSt) (p : List String),
      ls.foldl pstep (s.setC (p ++ s.comments)) =
        (ls.foldl pstep s).setC (p ++ (ls.foldl pstep s).comments) := by
  induction ls with
  | nil => intro s p; rfl
  | cons l r ih =>
    intro s p
    simp only [List.foldl_cons]
    have e : pstep (s.setC (p ++ s.comments)) l = (pstep s l).setC (p ++ (pstep s l).comments) :=
      pstep_prefix l s p
    rw [e]
    exact ih (pstep s l) p

/-- a `#` line met in any mode but `covers` (i.e. not between the rows of a truth table)
    changes nothing but the comment list -/
theorem pstep_comment (s : PSt) (ws : List String) (h : s.mode ≠ Mode.covers) :
    pstep s ("#" :: ws) = s.setC (s.comments ++ [commentText ws]) := by
  cases s with
  | mk mode comments done cur err =>
    cases mode
    · simp [pstep, stepOutside, PSt.setC]
    · simp [pstep, stepHeader, PSt.setC]
    · simp [pstep, stepBody, PSt.setC]
    · exact absurd rfl h
    · simp [pstep, stepInfo, PSt.setC]

theorem finish_setC (s : PSt) (c : List String) :
    (s.setC c).finish = (s.finish).map (fun a => { a with comments := c }) := by
  cases s with
  | mk mode comments done cur err => cases err <;> rfl

theorem parseLines_comment (l1 l2 : List (List String)) (ws : List String)
    (h : (l1.foldl pstep {}).mode ≠ Mode.covers) :
    parseLines (l1 ++ ("#" :: ws) :: l2) =
      (parseLines (l1 ++ l2)).map (fun a =>
        { a with comments := a.comments.take (l1.foldl pstep {}).comments.length
                              ++ commentText ws :: a.comments.drop (l1.foldl pstep {}).comments.length }) := by
  unfold parseLines
  simp only [List.foldl_append, List.foldl_cons]
  generalize hs1 : l1.foldl pstep {} = s1 at h ⊢
  rw [pstep_comment s1 ws h]
  have e1 := foldl_prefix l2 (s1.setC []) (s1.comments ++ [commentText ws])
  have e2 := foldl_prefix l2 (s1.setC []) s1.comments
  simp only [PSt.setC, List.append_nil] at e1 e2
  have hs : ({ s1 with comments := s1.comments } : PSt) = s1 := rfl
  rw [hs] at e2
  simp only [PSt.setC] at *
  rw [e1, e2]
  generalize (List.foldl pstep { s1 with comments := [] } l2) = F
  cases F with
  | mk mode comments done cur err =>
    cases err with
    | some e => rfl
    | none =>
      simp [PSt.finish, Except.map, List.take_left', List.drop_left']

end Spydr.Eblif
