/-
  Comment lines in the line parser: a `#` line only extends the comment list.
-/
import Spydr.Eblif.LemmasLex

namespace Spydr.Eblif

theorem fail_setC (s : PSt) (c : List String) (e : Err) : (s.setC c).fail e = (s.fail e).setC c := by
  cases s with | mk mode comments done cur err => cases err <;> rfl

theorem pushStmt_setC (s : PSt) (c : List String) (x : Stmt) (m : Mode) :
    (s.setC c).pushStmt x m = (s.pushStmt x m).setC c := by
  cases s with | mk mode comments done cur err => cases cur <;> rfl

theorem pushHdr_setC (s : PSt) (c : List String) (x : Hdr) :
    (s.setC c).pushHdr x = (s.pushHdr x).setC c := by
  cases s with | mk mode comments done cur err => cases cur <;> rfl

theorem modLast_setC (s : PSt) (c : List String) (f : Stmt → Stmt) :
    (s.setC c).modLast f = (s.modLast f).setC c := by
  cases s with | mk mode comments done cur err => cases cur <;> rfl

@[simp] theorem fail_comments (s : PSt) (e : Err) : (s.fail e).comments = s.comments := by
  cases s with | mk mode comments done cur err => cases err <;> rfl
@[simp] theorem pushStmt_comments (s : PSt) (x : Stmt) (m : Mode) : (s.pushStmt x m).comments = s.comments := by
  cases s with | mk mode comments done cur err => cases cur <;> rfl
@[simp] theorem pushHdr_comments (s : PSt) (x : Hdr) : (s.pushHdr x).comments = s.comments := by
  cases s with | mk mode comments done cur err => cases cur <;> rfl
@[simp] theorem modLast_comments (s : PSt) (f : Stmt → Stmt) : (s.modLast f).comments = s.comments := by
  cases s with | mk mode comments done cur err => cases cur <;> rfl

/-- the steps never read the comment list, they only append to it -/
def PrefixInv (f : PSt → PSt) : Prop :=
  ∀ (s : PSt) (p : List String), f (s.setC (p ++ s.comments)) = (f s).setC (p ++ (f s).comments)

theorem setC_setMode (s : PSt) (c : List String) (m : Mode) :
    ({ (s.setC c) with mode := m } : PSt) = ({ s with mode := m } : PSt).setC c := rfl

theorem stepBody_prefix (line : List String) : PrefixInv (fun s => stepBody s line) := by
  intro s p
  cases line with
  | nil => rfl
  | cons kw args =>
    simp only [stepBody]
    split
    · simp [PSt.setC]
    split
    · cases args with
      | nil => simp [fail_setC]
      | cons m cs =>
        simp only []
        cases parseConns cs <;> simp [fail_setC, pushStmt_setC]
    split
    · simp [pushStmt_setC]
    split
    · simp [pushStmt_setC]
    split
    · cases args with
      | nil => simp [fail_setC]
      | cons a r =>
        cases r with
        | nil => simp [fail_setC]
        | cons b r => simp [pushStmt_setC]
    split
    · simp [pushStmt_setC]
    split
    · cases s with | mk mode comments done cur err => cases cur <;> simp [PSt.setC]
    · rfl

end Spydr.Eblif
