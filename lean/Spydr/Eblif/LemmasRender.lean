/-
  Parser half of the reader specification for instance statements: the lines an independent
  writer renders for a `.subckt`/`.gate` with its `.cname/.attr/.param` lines parse back to
  exactly that statement.
-/
import Spydr.Eblif.LemmasParse

namespace Spydr.Eblif

theorem splitEqGo_append (l r : List Char) (h : '=' ∉ l) :
    ∀ acc : List Char, splitEqGo acc (l ++ '=' :: r) = some (acc ++ l, r) := by
  induction l with
  | nil => intro acc; simp [splitEqGo]
  | cons c l ih =>
    intro acc
    have hc : c ≠ '=' := fun e => h (by simp [e])
    have hl : '=' ∉ l := fun e => h (by simp [e])
    simp only [List.cons_append, splitEqGo, hc, if_false]
    rw [ih hl]
    simp

theorem splitEq_connWord (c : String × String) (h : '=' ∉ c.1.toList) : splitEq (connWord c) = some c := by
  unfold splitEq connWord
  have : (c.1 ++ "=" ++ c.2).toList = c.1.toList ++ '=' :: c.2.toList := by
    simp [String.toList_append]
  rw [this, splitEqGo_append _ _ h]
  simp [String.ofList_toList]

theorem parseConns_connWords (cs : List (String × String)) (h : ∀ c ∈ cs, '=' ∉ c.1.toList) :
    parseConns (cs.map connWord) = some cs := by
  induction cs with
  | nil => rfl
  | cons c r ih =>
    simp only [List.map_cons, parseConns]
    rw [splitEq_connWord c (h c (by simp)), ih (fun x hx => h x (by simp [hx]))]

theorem modifyLast_append_singleton {α : Type} (f : α → α) (l : List α) (a : α) :
    modifyLast f (l ++ [a]) = l ++ [f a] := by
  induction l with
  | nil => rfl
  | cons x r ih =>
    cases r with
    | nil => simp [modifyLast]
    | cons y r => simp only [List.cons_append] at ih ⊢; simp only [modifyLast]; rw [ih]

/-- a state in which a model is open and the last statement is the instance statement `x` -/
def afterStmt (s : PSt) (c : Model) (x : Stmt) : PSt :=
  { s with cur := some { c with body := c.body ++ [x] }, mode := Mode.info }

theorem info_lines_fold (info : List InfoStmt) :
    ∀ (s : PSt) (c : Model) (gate : Bool) (m : String) (conns : List (String × String)) (done : List InfoStmt),
      (info.map infoLine).foldl pstep (afterStmt s c (Stmt.subckt gate m conns done)) =
        afterStmt s c (Stmt.subckt gate m conns (done ++ info)) := by
  induction info with
  | nil => intro s c gate m conns done; simp
  | cons x r ih =>
    intro s c gate m conns done
    simp only [List.map_cons, List.foldl_cons]
    have step : pstep (afterStmt s c (Stmt.subckt gate m conns done)) (infoLine x) =
        afterStmt s c (Stmt.subckt gate m conns (done ++ [x])) := by
      cases x <;>
        simp [pstep, afterStmt, stepInfo, infoLine, PSt.modLast, modifyLast_append_singleton, addInfoStmt]
    rw [step, ih]
    simp

/-- the rendered lines of an instance statement, met while a model is open (after the header,
    after another statement or its info lines), are parsed to exactly that statement -/
theorem parse_subckt_lines (s : PSt) (c : Model) (hc : s.cur = some c) (he : s.err = none)
    (hm : s.mode = Mode.body ∨ s.mode = Mode.info ∨ s.mode = Mode.header)
    (gate : Bool) (m : String) (conns : List (String × String)) (info : List InfoStmt)
    (hcs : ∀ x ∈ conns, '=' ∉ x.1.toList) :
    (subcktLines gate m conns info).foldl pstep s = afterStmt s c (Stmt.subckt gate m conns info) := by
  unfold subcktLines
  simp only [List.foldl_cons]
  have first : pstep s ([subcktKw gate, m] ++ conns.map connWord) = afterStmt s c (Stmt.subckt gate m conns []) := by
    have hb : ∀ s' : PSt, s'.cur = some c →
        stepBody s' (subcktKw gate :: m :: conns.map connWord) =
          { s' with cur := some { c with body := c.body ++ [Stmt.subckt gate m conns []] }, mode := Mode.info } := by
      intro s' hc'
      cases gate <;>
        simp [stepBody, subcktKw, parseConns_connWords conns hcs, PSt.pushStmt, hc']
    cases s with
    | mk mode comments done cur err =>
      simp only at hc he hm
      subst hc
      rcases hm with rfl | rfl | rfl
      · simpa [pstep, afterStmt] using hb _ rfl
      · have : stepInfo { mode := Mode.info, comments := comments, done := done, cur := some c, err := err }
            (subcktKw gate :: m :: conns.map connWord) =
              stepBody { mode := Mode.info, comments := comments, done := done, cur := some c, err := err }
                (subcktKw gate :: m :: conns.map connWord) := by
          cases gate <;> simp [stepInfo, subcktKw]
        simp only [pstep, List.cons_append, List.nil_append]
        rw [this]
        simpa [afterStmt] using hb _ rfl
      · have : stepHeader { mode := Mode.header, comments := comments, done := done, cur := some c, err := err }
            (subcktKw gate :: m :: conns.map connWord) =
              stepBody { mode := Mode.body, comments := comments, done := done, cur := some c, err := err }
                (subcktKw gate :: m :: conns.map connWord) := by
          cases gate <;> simp [stepHeader, subcktKw]
        simp only [pstep, List.cons_append, List.nil_append]
        rw [this]
        simpa [afterStmt] using hb _ rfl
  rw [first]
  have := info_lines_fold info s c gate m conns []
  simpa using this

end Spydr.Eblif
