/-
  Statement-level facts of the EBLIF elaborator.
-/
import Spydr.Eblif.LemmasElab

namespace Spydr.Eblif

theorem dictSet_fresh (l : List (String × String)) (k v : String) (h : ∀ p ∈ l, p.1 ≠ k) :
    dictSet l k v = l ++ [(k, v)] := by
  unfold dictSet
  have : l.find? (fun p => p.1 = k) = none := by
    simp only [List.find?_eq_none, decide_eq_true_eq]
    exact h
  simp [this]

theorem foldl_dictSet_nodup (conns : List (String × String)) :
    ∀ acc : List (String × String), (conns.map (·.1)).Nodup → (∀ p ∈ acc, ∀ q ∈ conns, p.1 ≠ q.1) →
      conns.foldl (fun l fa => dictSet l fa.1 fa.2) acc = acc ++ conns := by
  induction conns with
  | nil => intro acc _ _; simp
  | cons c r ih =>
    intro acc hn hd
    simp only [List.map_cons, List.nodup_cons] at hn
    simp only [List.foldl_cons]
    rw [dictSet_fresh acc c.1 c.2 (fun p hp => hd p hp c (by simp))]
    rw [ih (acc ++ [(c.1, c.2)]) hn.2]
    · simp
    · intro p hp q hq
      rcases List.mem_append.mp hp with hp | hp
      · exact hd p hp q (by simp [hq])
      · simp only [List.mem_singleton] at hp
        subst hp
        intro he
        exact hn.1 (List.mem_map.mpr ⟨q, hq, he.symm⟩)

/-- with pairwise different formals the dict is the list itself -/
theorem infoMapOf_nodup (conns : List (String × String)) (h : (conns.map (·.1)).Nodup) :
    infoMapOf conns = conns := by
  unfold infoMapOf
  rw [foldl_dictSet_nodup conns [] h (fun p hp => by cases hp)]
  simp

theorem newInst_snd (st : St) (p m t : String) : (newInst st p m t).2 = st.insts.length := rfl

theorem elabStmt_subckt {st st' : St} {cur : String} {gate : Bool} {model : String}
    {conns : List (String × String)} {info : List InfoStmt}
    (h : elabStmt st cur (Stmt.subckt gate model conns info) = Except.ok st') :
    Ext st st' ∧
    ∀ fa ∈ infoMapOf conns, ∀ cn ci pn pi, splitIdx fa.2 = Except.ok (cn, ci) →
      splitIdx fa.1 = Except.ok (pn, pi) → cn ≠ "unconn" →
      Joined st' (Pin.inst st.insts.length pn pi) (cur, cn, ci) ∧ Live st' (cur, cn, ci) := by
  unfold elabStmt at h
  simp only [] at h
  obtain ⟨s1, h1, h⟩ := bind_ok h
  obtain ⟨s2, h2, h⟩ := bind_ok h
  have hlen : s1.insts.length = st.insts.length := by
    rw [len_declFormals conns h1]; simp
  have e01 : Ext st s1 := Ext.of_fields (by rw [nf_declFormals conns h1]; simp)
  have e12 : Ext s1 s2 :=
    Ext.trans (Ext.of_fields ((nf_assignDefault _ _ _ _).trans (nf_newInst _ _ _ _))) (ext_connectAll _ h2)
  rw [newInst_snd] at h2 h
  have e23 : Ext s2 st' := Ext.of_fields (nf_applyInfo info h)
  refine ⟨Ext.trans e01 (Ext.trans e12 e23), ?_⟩
  intro fa hfa cn ci pn pi x1 x2 hu
  have hj := connectAll_joins _ h2 fa hfa cn ci pn pi x1 x2 hu
  rw [hlen] at hj
  exact ⟨e23.joined _ _ hj.1, e23.live _ hj.2⟩

theorem ext_elabStmt {st st' : St} {cur : String} {s : Stmt} (hs : s ≠ Stmt.blackbox)
    (h : elabStmt st cur s = Except.ok st') : Ext st st' := by
  cases s with
  | subckt gate model conns info => exact (elabStmt_subckt h).1
  | names nets covers info =>
    unfold elabStmt at h
    simp only [] at h
    split at h
    · cases h
    · simp only [newInst] at h
      obtain ⟨s1, h1, h⟩ := bind_ok h
      obtain ⟨s2, h2, h⟩ := bind_ok h
      have e01 : Ext st s1 := by
        split at h1
        · cases h1
          exact Ext.of_fields ((nf_addNamesPorts _ _ _).trans (nf_ensureDef _ _))
        · exact Ext.of_fields (by
            rw [nf_rename h1]
            exact (nf_addNamesPorts _ _ _).trans (nf_ensureDef _ _))
      exact Ext.trans e01 (Ext.trans (ext_connectAll _ h2) (Ext.of_fields (nf_applyInfo info h)))
  | latch toks info =>
    unfold elabStmt at h
    simp only [newInst] at h
    split at h
    · cases h
    · obtain ⟨s1, h1, h⟩ := bind_ok h
      obtain ⟨s2, h2, h⟩ := bind_ok h
      have e01 : Ext st s1 := Ext.of_fields (by
        rw [nf_rename h1]
        exact (nf_addLatchPorts _ _).trans (nf_ensureDef _ _))
      exact Ext.trans e01 (Ext.trans (ext_connectAll _ h2) (Ext.of_fields (nf_applyInfo info h)))
  | conn a b =>
    unfold elabStmt at h
    obtain ⟨⟨n1, i1⟩, _, h⟩ := bind_ok h
    obtain ⟨⟨n2, i2⟩, _, h⟩ := bind_ok h
    simp only [] at h
    cases h
    exact Ext.trans (ext_ensureWire _ _ _ _) (Ext.trans (ext_ensureWire _ _ _ _) (ext_mergeKeys _ _ _))
  | blackbox => exact absurd rfl hs

theorem ext_elabStmts {cur : String} (l : List Stmt) (hl : ∀ s ∈ l, s ≠ Stmt.blackbox) :
    ∀ {st st' : St}, elabStmts st cur l = Except.ok st' → Ext st st' := by
  induction l with
  | nil => intro st st' h; cases h; exact Ext.refl _
  | cons s r ih =>
    intro st st' h
    unfold elabStmts at h
    obtain ⟨s1, h1, h⟩ := bind_ok h
    exact Ext.trans (ext_elabStmt (hl s (by simp)) h1) (ih (fun x hx => hl x (by simp [hx])) h)

theorem elabStmts_append {cur : String} (a b : List Stmt) :
    ∀ st : St, elabStmts st cur (a ++ b) = (elabStmts st cur a >>= fun s => elabStmts s cur b) := by
  induction a with
  | nil => intro st; rfl
  | cons x r ih =>
    intro st
    simp only [List.cons_append, elabStmts]
    cases elabStmt st cur x with
    | error e => rfl
    | ok s1 => simp [bind, Except.bind, ih s1] 

theorem elabStmt_conn {st st' : St} {cur a b : String} (h : elabStmt st cur (Stmt.conn a b) = Except.ok st') :
    ∃ n1 i1 n2 i2, splitIdx a = Except.ok (n1, i1) ∧ splitIdx b = Except.ok (n2, i2) ∧
      st'.alias (cur, n1, i1) = st'.alias (cur, n2, i2) ∧ Live st' (cur, n1, i1) ∧ Live st' (cur, n2, i2) := by
  unfold elabStmt at h
  obtain ⟨⟨n1, i1⟩, e1, h⟩ := bind_ok h
  obtain ⟨⟨n2, i2⟩, e2, h⟩ := bind_ok h
  simp only [] at h
  cases h
  refine ⟨n1, i1, n2, i2, e1, e2, mergeKeys_alias _ _ _, ?_, ?_⟩
  · exact (ext_mergeKeys _ _ _).live _ ((ext_ensureWire _ _ _ _).live _ (ensureWire_live _ _ _ _))
  · exact (ext_mergeKeys _ _ _).live _ (ensureWire_live _ _ _ _)

end Spydr.Eblif
