/-
  Pins sit on live wires only, for every input: so the materialised netlist (`St.toNet`) shows
  exactly the pins of the wire table, and exactness holds at the level of the `BNet`.
-/
import Spydr.Eblif.SelfContained3

namespace Spydr.Eblif

structure LInv (st : St) : Prop where
  wf : WF st
  pl : PinsLive st

theorem LInv.init : LInv ({} : St) := ⟨WF.init, PinsLive.init⟩

theorem LInv.of_fields {st st' : St} (h : netFields st' = netFields st) (r : LInv st) : LInv st' :=
  ⟨WF.of_fields h r.wf, PinsLive.of_fields h r.pl⟩

theorem linv_connect {st : St} (r : LInv st) (p : Pin) (o n : String) (i : Nat) : LInv (connect st p o n i) :=
  ⟨wf_connect r.wf p o n i, pinsLive_connect r.wf r.pl p o n i⟩

theorem pinsLive_ensureWire {st : St} (pl : PinsLive st) (o n : String) (i : Nat) : PinsLive (ensureWire st o n i) := by
  intro k hk
  have hpa := pa_ensureWire st o n i
  simp only [paFields, Prod.mk.injEq] at hpa
  rw [hpa.1] at hk
  exact (ext_ensureWire st o n i).live k (pl k hk)

theorem linv_connectOne {st st' : St} {idx : Nat} {parent model : String} {fa : String × String}
    (r : LInv st) (h : connectOne st idx parent model fa = Except.ok st') : LInv st' := by
  obtain ⟨cn, ci, pn, pi, _, _, hc⟩ := connectOne_cases h
  rcases hc with ⟨_, hf⟩ | ⟨_, hs⟩
  · exact LInv.of_fields hf r
  · subst hs
    exact linv_connect (LInv.of_fields (by simp) r) _ _ _ _

theorem linv_connectAll {idx : Nat} {parent model : String} (l : List (String × String)) :
    ∀ {st st' : St}, LInv st → connectAll st idx parent model l = Except.ok st' → LInv st' := by
  induction l with
  | nil => intro st st' r h; cases h; exact r
  | cons fa t ih =>
    intro st st' r h
    unfold connectAll at h
    obtain ⟨s1, h1, h2⟩ := bind_ok h
    exact ih (linv_connectOne r h1) h2

theorem linv_elabStmt {st st' : St} {cur : String} {s : Stmt} (r : LInv st)
    (h : elabStmt st cur s = Except.ok st') : LInv st' := by
  cases s with
  | subckt gate model conns info =>
    unfold elabStmt at h
    simp only [] at h
    obtain ⟨s1, h1, h⟩ := bind_ok h
    obtain ⟨s2, h2, h⟩ := bind_ok h
    have r1 : LInv s1 := LInv.of_fields (by rw [nf_declFormals conns h1]; simp) r
    have r2 : LInv s2 := linv_connectAll _ (LInv.of_fields ((nf_assignDefault _ _ _ _).trans (nf_newInst _ _ _ _)) r1) h2
    exact LInv.of_fields (nf_applyInfo info h) r2
  | names nets covers info =>
    unfold elabStmt at h
    simp only [] at h
    split at h
    · cases h
    · simp only [newInst] at h
      obtain ⟨s1, h1, h⟩ := bind_ok h
      obtain ⟨s2, h2, h⟩ := bind_ok h
      have r1 : LInv s1 := by
        split at h1
        · cases h1
          exact LInv.of_fields ((nf_addNamesPorts _ _ _).trans (nf_ensureDef _ _)) r
        · exact LInv.of_fields (by
            rw [nf_rename h1]
            exact (nf_addNamesPorts _ _ _).trans (nf_ensureDef _ _)) r
      exact LInv.of_fields (nf_applyInfo info h) (linv_connectAll _ r1 h2)
  | latch toks info =>
    unfold elabStmt at h
    simp only [newInst] at h
    split at h
    · cases h
    · obtain ⟨s1, h1, h⟩ := bind_ok h
      obtain ⟨s2, h2, h⟩ := bind_ok h
      have r1 : LInv s1 := LInv.of_fields (by
        rw [nf_rename h1]
        exact (nf_addLatchPorts _ _).trans (nf_ensureDef _ _)) r
      exact LInv.of_fields (nf_applyInfo info h) (linv_connectAll _ r1 h2)
  | conn a b =>
    unfold elabStmt at h
    obtain ⟨⟨n1, i1⟩, _, h⟩ := bind_ok h
    obtain ⟨⟨n2, i2⟩, _, h⟩ := bind_ok h
    simp only [] at h
    cases h
    have w1 := wf_ensureWire r.wf cur n1 i1
    have w2 := wf_ensureWire w1 cur n2 i2
    have p2 := pinsLive_ensureWire (pinsLive_ensureWire r.pl cur n1 i1) cur n2 i2
    have la : Live (ensureWire (ensureWire st cur n1 i1) cur n2 i2) (cur, n1, i1) :=
      (ext_ensureWire _ _ _ _).live _ (ensureWire_live _ _ _ _)
    exact ⟨wf_mergeKeys w2 _ _ la (ensureWire_live _ _ _ _) rfl, pinsLive_mergeKeys w2 p2 _ _ la⟩
  | blackbox =>
    unfold elabStmt at h
    cases h
    exact LInv.of_fields (nf_updDef _ _ _) ⟨wf_clearOwner r.wf cur, pinsLive_clearOwner r.pl cur⟩

theorem linv_elabStmts {cur : String} (l : List Stmt) :
    ∀ {st st' : St}, LInv st → elabStmts st cur l = Except.ok st' → LInv st' := by
  induction l with
  | nil => intro st st' r h; cases h; exact r
  | cons s t ih =>
    intro st st' r h
    unfold elabStmts at h
    obtain ⟨s1, h1, h2⟩ := bind_ok h
    exact ih (linv_elabStmt r h1) h2

theorem linv_elabInput {st st' : St} {cur tok : String} (r : LInv st) (h : elabInput st cur tok = Except.ok st') : LInv st' := by
  unfold elabInput at h
  obtain ⟨⟨pn, pi⟩, _, h⟩ := bind_ok h
  simp only [] at h
  cases h
  refine linv_connect (LInv.of_fields ?_ r) _ _ _ _
  rw [nf_growPort]
  split <;> simp

theorem linv_elabOutput {st st' : St} {cur tok : String} (r : LInv st) (h : elabOutput st cur tok = Except.ok st') : LInv st' := by
  unfold elabOutput at h
  obtain ⟨⟨pn, pi⟩, _, h⟩ := bind_ok h
  simp only [] at h
  split at h
  · cases h; exact LInv.of_fields (by simp) r
  · cases h; exact linv_connect (LInv.of_fields (by simp) r) _ _ _ _

theorem linv_elabToks (f : St → String → String → Except Err St)
    (hf : ∀ {st st' : St} {cur tok : String}, LInv st → f st cur tok = Except.ok st' → LInv st')
    {cur : String} (l : List String) :
    ∀ {st st' : St}, LInv st → elabToks f st cur l = Except.ok st' → LInv st' := by
  induction l with
  | nil => intro st st' r h; cases h; exact r
  | cons t r ih =>
    intro st st' w h
    unfold elabToks at h
    obtain ⟨s1, h1, h2⟩ := bind_ok h
    exact ih (hf w h1) h2

theorem linv_elabHdrs {cur : String} (l : List Hdr) :
    ∀ {st st' : St}, LInv st → elabHdrs st cur l = Except.ok st' → LInv st' := by
  induction l with
  | nil => intro st st' r h; cases h; exact r
  | cons x r ih =>
    intro st st' w h
    unfold elabHdrs at h
    obtain ⟨s1, h1, h2⟩ := bind_ok h
    refine ih ?_ h2
    cases x with
    | inputs l => exact linv_elabToks elabInput (fun w h => linv_elabInput w h) l w h1
    | outputs l => exact linv_elabToks elabOutput (fun w h => linv_elabOutput w h) l w h1
    | clock l => unfold elabHdr at h1; cases h1; exact LInv.of_fields (nf_updDef _ _ _) w

theorem linv_elabModels (ms : List Model) :
    ∀ {st st' : St}, LInv st → elabModels st ms = Except.ok st' → LInv st' := by
  induction ms with
  | nil => intro st st' r h; cases h; exact r
  | cons m r ih =>
    intro st st' w h
    unfold elabModels at h
    obtain ⟨s1, h1, h2⟩ := bind_ok h
    refine ih ?_ h2
    unfold elabModel at h1
    obtain ⟨sh, g1, g2⟩ := bind_ok h1
    exact linv_elabStmts _ (linv_elabHdrs _ (LInv.of_fields (nf_beginModel _ _) w) g1) g2

end Spydr.Eblif
