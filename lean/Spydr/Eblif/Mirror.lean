/-
  Pin mirror: every instance carries exactly one pin per port bit of its definition.
  Core: the invariant, the view it depends on, the three steps that change it.
-/
import Spydr.Eblif.Props.C18GenDefs

namespace Spydr.Eblif

/-- (name, width) of the ports of a definition -/
def nwOf (d : DefD) : List (String × Nat) := d.ports.map (fun p => (p.name, p.width))

def pinsOfNW (l : List (String × Nat)) : List (String × Nat) := l.flatMap (fun p => bitsFrom p.1 0 p.2)

theorem allPins_nw (d : DefD) : allPins d = pinsOfNW (nwOf d) := by
  unfold allPins pinsOfNW nwOf
  rw [List.flatMap_map]

/-- what the mirror property looks at -/
def mview (st : St) : List (String × List (String × Nat)) × List (String × List (String × Nat)) :=
  (st.defs.map (fun d => (d.name, nwOf d)), st.insts.map (fun i => (i.model, i.pins)))

/-- definition names pairwise different, port names pairwise different inside a definition, and every
    instance's pin list is a permutation of the port bits of its definition -/
structure Mirror (st : St) : Prop where
  dn : (st.defs.map (·.name)).Nodup
  pn : ∀ d ∈ st.defs, ((nwOf d).map (·.1)).Nodup
  mir : ∀ i ∈ st.insts, ∃ d ∈ st.defs, d.name = i.model ∧ i.pins.Perm (pinsOfNW (nwOf d))

theorem Mirror.init : Mirror ({} : St) := by
  refine ⟨by simp, ?_, ?_⟩
  · intro d h; simp at h
  · intro i h; simp at h

theorem Mirror.of_view {st st' : St} (h : mview st' = mview st) (m : Mirror st) : Mirror st' := by
  simp only [mview, Prod.mk.injEq] at h
  obtain ⟨hd, hi⟩ := h
  have hmem : ∀ d' ∈ st'.defs, ∃ d ∈ st.defs, d.name = d'.name ∧ nwOf d = nwOf d' := by
    intro d' hd'
    have : (d'.name, nwOf d') ∈ st'.defs.map (fun d => (d.name, nwOf d)) := List.mem_map.mpr ⟨d', hd', rfl⟩
    rw [hd] at this
    obtain ⟨d, hdm, he⟩ := List.mem_map.mp this
    simp only [Prod.mk.injEq] at he
    exact ⟨d, hdm, he.1, he.2⟩
  have hmem' : ∀ d ∈ st.defs, ∃ d' ∈ st'.defs, d'.name = d.name ∧ nwOf d' = nwOf d := by
    intro d hdm
    have : (d.name, nwOf d) ∈ st.defs.map (fun d => (d.name, nwOf d)) := List.mem_map.mpr ⟨d, hdm, rfl⟩
    rw [← hd] at this
    obtain ⟨d', hdm', he⟩ := List.mem_map.mp this
    simp only [Prod.mk.injEq] at he
    exact ⟨d', hdm', he.1, he.2⟩
  refine ⟨?_, ?_, ?_⟩
  · have e : st'.defs.map (·.name) = st.defs.map (·.name) := by
      have := congrArg (List.map Prod.fst) hd
      simp only [List.map_map] at this
      exact this
    rw [e]; exact m.dn
  · intro d' hd'
    obtain ⟨d, hdm, _, hnw⟩ := hmem d' hd'
    rw [← hnw]; exact m.pn d hdm
  · intro i' hi'
    have : (i'.model, i'.pins) ∈ st'.insts.map (fun i => (i.model, i.pins)) := List.mem_map.mpr ⟨i', hi', rfl⟩
    rw [hi] at this
    obtain ⟨i, him, he⟩ := List.mem_map.mp this
    simp only [Prod.mk.injEq] at he
    obtain ⟨d, hdm, hn, hp⟩ := m.mir i him
    obtain ⟨d', hdm', hn', hnw'⟩ := hmem' d hdm
    exact ⟨d', hdm', by rw [hn', hn, he.1], by rw [hnw', ← he.2]; exact hp⟩

/-! ### pure list facts -/

theorem bitsFrom_split (pn : String) (old w : Nat) (h : old ≤ w) :
    bitsFrom pn 0 w = bitsFrom pn 0 old ++ bitsFrom pn old w := by
  unfold bitsFrom
  have hw : w - 0 = (old - 0) + (w - old) := by omega
  rw [hw, List.range_add, List.map_append, List.map_map]
  congr 1
  apply List.map_congr_left
  intro k _
  simp only [Function.comp]
  congr 1
  omega

/-- widening the one port named `pn` adds exactly the new bits (up to order) -/
theorem pins_widen (l : List (String × Nat)) (pn : String) (old w : Nat) (hnd : (l.map (·.1)).Nodup)
    (hin : (pn, old) ∈ l) (hle : old ≤ w) :
    (pinsOfNW (l.map (fun p => if p.1 = pn then (p.1, w) else p))).Perm (pinsOfNW l ++ bitsFrom pn old w) := by
  induction l with
  | nil => cases hin
  | cons a r ih =>
    simp only [List.map_cons, List.nodup_cons, List.mem_map, not_exists, not_and] at hnd
    have hcons : ∀ (x : String × Nat) (xs : List (String × Nat)), pinsOfNW (x :: xs) = bitsFrom x.1 0 x.2 ++ pinsOfNW xs := by
      intro x xs; simp [pinsOfNW]
    rcases List.mem_cons.mp hin with he | hm
    · -- the head is the port
      have hrest : r.map (fun p => if p.1 = pn then (p.1, w) else p) = r := by
        rw [List.map_congr_left (g := id)]
        · simp
        · intro p hp
          have : p.1 ≠ pn := by
            intro h
            exact hnd.1 p hp (by rw [h, ← he])
          simp [this]
      subst he
      simp only [List.map_cons, if_true, hrest, hcons]
      rw [bitsFrom_split pn old w hle, List.append_assoc]
      have : (bitsFrom pn old w ++ pinsOfNW r).Perm (pinsOfNW r ++ bitsFrom pn old w) := List.perm_append_comm
      rw [List.append_assoc]
      exact List.Perm.append_left _ this
    · have hne : a.1 ≠ pn := by
        intro h
        exact hnd.1 (pn, old) hm (by rw [h])
      simp only [List.map_cons, hne, if_false, hcons, List.append_assoc]
      exact List.Perm.append_left _ (ih hnd.2 hm)

theorem pins_append (l : List (String × Nat)) (pn : String) (w : Nat) :
    pinsOfNW (l ++ [(pn, w)]) = pinsOfNW l ++ bitsFrom pn 0 w := by
  simp [pinsOfNW]

end Spydr.Eblif
