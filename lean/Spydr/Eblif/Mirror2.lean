/-
  Pin mirror: the steps that change definitions' ports or instances' pins.
-/
import Spydr.Eblif.Mirror

namespace Spydr.Eblif

theorem findDef_mem {st : St} {n : String} {d : DefD} (h : findDef st n = some d) : d ∈ st.defs ∧ d.name = n := by
  unfold findDef at h
  exact ⟨List.mem_of_find?_eq_some h, by simpa using List.find?_some h⟩

theorem findDef_of_mem {st : St} (hnd : (st.defs.map (·.name)).Nodup) {d : DefD} (hd : d ∈ st.defs) :
    findDef st d.name = some d := by
  unfold findDef
  generalize st.defs = l at hnd hd
  induction l with
  | nil => cases hd
  | cons a r ih =>
    simp only [List.map_cons, List.nodup_cons, List.mem_map, not_exists, not_and] at hnd
    rcases List.mem_cons.mp hd with rfl | hm
    · simp
    · have : ¬ a.name = d.name := fun e => hnd.1 d hm e.symm
      simp only [List.find?_cons, this, decide_false]
      exact ih hnd.2 hm

theorem hasPort_iff_mem {st : St} (hnd : (st.defs.map (·.name)).Nodup) {d : DefD} (hd : d ∈ st.defs) (pn : String) :
    hasPort st d.name pn = true ↔ pn ∈ (nwOf d).map (·.1) := by
  unfold hasPort
  rw [findDef_of_mem hnd hd]
  simp only [findPort, nwOf, List.map_map]
  constructor
  · intro h
    cases hf : d.ports.find? (fun q => q.name = pn) with
    | none => rw [hf] at h; cases h
    | some p =>
      have hm := List.mem_of_find?_eq_some hf
      have hn : p.name = pn := by simpa using List.find?_some hf
      exact List.mem_map.mpr ⟨p, hm, hn⟩
  · intro h
    obtain ⟨p, hp, hn⟩ := List.mem_map.mp h
    cases hf : d.ports.find? (fun q => q.name = pn) with
    | some q => rfl
    | none =>
      rw [List.find?_eq_none] at hf
      exact absurd (by simpa using hn) (hf p hp)

theorem mirror_ensureDef {st : St} (m : Mirror st) (n : String) : Mirror (ensureDef st n) := by
  unfold ensureDef
  cases h : findDef st n with
  | some d => exact m
  | none =>
    simp only
    have hno : ∀ d ∈ st.defs, d.name ≠ n := by
      unfold findDef at h
      rw [List.find?_eq_none] at h
      intro d hd; simpa using h d hd
    refine ⟨?_, ?_, ?_⟩
    · simp only [List.map_append, List.map_cons, List.map_nil]
      rw [List.nodup_append]
      refine ⟨m.dn, by simp, ?_⟩
      intro a ha b hb
      simp only [List.mem_singleton] at hb
      subst hb
      obtain ⟨d, hd, rfl⟩ := List.mem_map.mp ha
      exact hno d hd
    · intro d hd
      rcases List.mem_append.mp hd with h1 | h1
      · exact m.pn d h1
      · simp only [List.mem_singleton] at h1; subst h1; simp [nwOf]
    · intro i hi
      obtain ⟨d, hd, hn, hp⟩ := m.mir i hi
      exact ⟨d, List.mem_append.mpr (Or.inl hd), hn, hp⟩

theorem mirror_addPort {st : St} (m : Mirror st) (dn pn : String) (dir : Dir) (w : Nat) : Mirror (addPort st dn pn dir w) := by
  unfold addPort
  split
  · exact m
  · rename_i hh
    have hf : hasPort st dn pn = false := by simpa using hh
    simp only [appendPins, updDef]
    refine ⟨?_, ?_, ?_⟩
    · rw [List.map_map]
      have : ((fun x : DefD => x.name) ∘ fun d => if d.name = dn then { d with ports := d.ports ++ [{ name := pn, dir := dir, width := w }] } else d) = (·.name) := by
        funext d; simp only [Function.comp]; split <;> rfl
      rw [this]; exact m.dn
    · intro d' hd'
      obtain ⟨d, hd, rfl⟩ := List.mem_map.mp hd'
      split
      · rename_i hn
        have hnot : pn ∉ (nwOf d).map (·.1) := by
          intro hmem
          have := (hasPort_iff_mem m.dn hd pn).mpr hmem
          rw [hn, hf] at this; cases this
        simp only [nwOf, List.map_append, List.map_cons, List.map_nil, List.map_map] at hnot ⊢
        rw [List.nodup_append]
        refine ⟨by simpa [nwOf, List.map_map] using m.pn d hd, by simp, ?_⟩
        intro a ha b hb
        simp only [List.mem_singleton] at hb
        subst hb
        intro e; subst e; exact hnot ha
      · exact m.pn d hd
    · intro i' hi'
      obtain ⟨i, hi, rfl⟩ := List.mem_map.mp hi'
      obtain ⟨d, hd, hn, hp⟩ := m.mir i hi
      refine ⟨if d.name = dn then { d with ports := d.ports ++ [{ name := pn, dir := dir, width := w }] } else d,
        List.mem_map.mpr ⟨d, hd, rfl⟩, ?_, ?_⟩
      · split <;> (split <;> exact hn)
      · by_cases hm : i.model = dn
        · have hdn : d.name = dn := hn.trans hm
          rw [if_pos hm, if_pos hdn]
          have : nwOf ({ d with ports := d.ports ++ [{ name := pn, dir := dir, width := w }] } : DefD) = nwOf d ++ [(pn, w)] := by
            simp [nwOf]
          rw [this, pins_append]
          exact List.Perm.append_right _ hp
        · have hdn : ¬ d.name = dn := fun e => hm (hn.symm.trans e)
          rw [if_neg hm, if_neg hdn]
          exact hp

theorem mirror_growPort {st : St} (m : Mirror st) (dn pn : String) (w : Nat) (hh : hasPort st dn pn = true) :
    Mirror (growPort st dn pn w) := by
  unfold growPort
  simp only []
  split
  · exact m
  · rename_i hlt
    have hlt' : portWidth st dn pn < w := by omega
    -- the definition and its port
    have hfd : ∃ d, findDef st dn = some d := by
      unfold hasPort at hh
      cases h : findDef st dn with
      | none => rw [h] at hh; cases hh
      | some d => exact ⟨d, rfl⟩
    obtain ⟨d0, hd0⟩ := hfd
    obtain ⟨hd0m, hd0n⟩ := findDef_mem hd0
    have hold : (pn, portWidth st dn pn) ∈ nwOf d0 := by
      unfold portWidth hasPort at *
      rw [hd0] at hh ⊢
      simp only at hh ⊢
      cases hf : findPort d0 pn with
      | none => rw [hf] at hh; cases hh
      | some p =>
        simp only
        unfold findPort at hf
        have hm := List.mem_of_find?_eq_some hf
        have hn : p.name = pn := by simpa using List.find?_some hf
        exact List.mem_map.mpr ⟨p, hm, by rw [hn]⟩
    simp only [appendPins, updDef]
    have hnw : ∀ d : DefD, nwOf ({ d with ports := d.ports.map (fun p => if p.name = pn then { p with width := w } else p) } : DefD) =
        (nwOf d).map (fun p => if p.1 = pn then (p.1, w) else p) := by
      intro d
      simp only [nwOf, List.map_map]
      apply List.map_congr_left
      intro p _
      simp only [Function.comp]
      split <;> rfl
    refine ⟨?_, ?_, ?_⟩
    · rw [List.map_map]
      have : ((fun x : DefD => x.name) ∘ fun d => if d.name = dn then { d with ports := d.ports.map (fun p => if p.name = pn then { p with width := w } else p) } else d) = (·.name) := by
        funext d; simp only [Function.comp]; split <;> rfl
      rw [this]; exact m.dn
    · intro d' hd'
      obtain ⟨d, hd, rfl⟩ := List.mem_map.mp hd'
      split
      · rw [hnw, List.map_map]
        have : ((fun x : String × Nat => x.1) ∘ fun p => if p.1 = pn then (p.1, w) else p) = (·.1) := by
          funext p; simp only [Function.comp]; split <;> rfl
        rw [this]; exact m.pn d hd
      · exact m.pn d hd
    · intro i' hi'
      obtain ⟨i, hi, rfl⟩ := List.mem_map.mp hi'
      obtain ⟨d, hd, hn, hp⟩ := m.mir i hi
      refine ⟨if d.name = dn then { d with ports := d.ports.map (fun p => if p.name = pn then { p with width := w } else p) } else d,
        List.mem_map.mpr ⟨d, hd, rfl⟩, ?_, ?_⟩
      · split <;> (split <;> exact hn)
      · by_cases hm : i.model = dn
        · have hdn : d.name = dn := hn.trans hm
          have hdd : d = d0 := by
            have := findDef_of_mem m.dn hd
            rw [hdn, hd0] at this
            exact (Option.some.inj this).symm
          subst hdd
          rw [if_pos hm, if_pos hdn]
          rw [hnw]
          exact (List.Perm.append_right _ hp).trans
            (pins_widen (nwOf d) pn (portWidth st dn pn) w (m.pn d hd) hold (by omega)).symm
        · have hdn : ¬ d.name = dn := fun e => hm (hn.symm.trans e)
          rw [if_neg hm, if_neg hdn]
          exact hp

theorem mirror_newInst {st : St} (m : Mirror st) (parent model typ : String) (hd : (findDef st model).isSome = true) :
    Mirror (newInst st parent model typ).1 := by
  cases hf : findDef st model with
  | none => rw [hf] at hd; cases hd
  | some d =>
    obtain ⟨hdm, hdn⟩ := findDef_mem hf
    refine ⟨m.dn, m.pn, ?_⟩
    intro i hi
    simp only [newInst, List.mem_append, List.mem_singleton] at hi
    rcases hi with hi | hi
    · exact m.mir i hi
    · subst hi
      refine ⟨d, hdm, hdn, ?_⟩
      simp only [hf]
      rw [allPins_nw]

end Spydr.Eblif
