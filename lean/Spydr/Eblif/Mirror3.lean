/-
  Pin mirror, lifted through the elaborator.
-/
import Spydr.Eblif.Mirror2

namespace Spydr.Eblif

theorem defEx_iff (st : St) (t : String) : DefEx st t ↔ t ∈ defNames st := by
  unfold DefEx findDef
  rw [List.find?_isSome]
  simp [defNames, defsView]

theorem defEx_of_dv {a b : St} (h : defsView b = defsView a) {t : String} (hd : DefEx a t) : DefEx b t := by
  rw [defEx_iff] at hd ⊢
  exact mem_defNames_of_dv h hd

/-! ### the view is kept -/

theorem mv_of {a b : St} (hd : b.defs = a.defs) (hi : b.insts = a.insts) : mview b = mview a := by
  simp [mview, hd, hi]

theorem mv_updDef (st : St) (n : String) (f : DefD → DefD) (hf : ∀ d, (f d).name = d.name ∧ nwOf (f d) = nwOf d) :
    mview (updDef st n f) = mview st := by
  simp only [mview, updDef, List.map_map]
  congr 1
  apply List.map_congr_left
  intro d _
  simp only [Function.comp]
  split
  · rw [(hf d).1, (hf d).2]
  · rfl

theorem mv_updInst (st : St) (idx : Nat) (f : Inst → Inst) (hf : ∀ x, (f x).model = x.model ∧ (f x).pins = x.pins) :
    mview (updInst st idx f) = mview st := by
  simp only [mview, updInst]
  congr 1
  exact map_updIdx_gen (fun i => (i.model, i.pins)) st.insts idx f (fun i => by rw [(hf i).1, (hf i).2])

theorem mv_assignDefault (st : St) (i : Nat) (p m : String) : mview (assignDefault st i p m) = mview st := by
  unfold assignDefault
  simp only []
  exact mv_updInst _ _ _ (fun _ => ⟨rfl, rfl⟩)

theorem mv_rename {st st' : St} {i : Nat} {p n : String} (h : rename st i p n = Except.ok st') : mview st' = mview st := by
  unfold rename at h
  split at h
  · cases h; exact mv_assignDefault _ _ _ _
  · cases h; exact mv_updInst _ _ _ (fun _ => ⟨rfl, rfl⟩)

theorem mv_renameStrict {st st' : St} {i : Nat} {p n : String} (h : renameStrict st i p n = Except.ok st') :
    mview st' = mview st := by
  unfold renameStrict at h
  split at h
  · cases h
  · cases h; exact mv_updInst _ _ _ (fun _ => ⟨rfl, rfl⟩)

theorem mv_ensureWire (st : St) (o n : String) (i : Nat) : mview (ensureWire st o n i) = mview st := by
  unfold ensureWire ensureCable; simp only []; split <;> split <;> rfl

theorem mv_connect (st : St) (p : Pin) (o n : String) (i : Nat) : mview (connect st p o n i) = mview st := by
  unfold connect
  simp only []
  exact (mv_of rfl rfl).trans (mv_ensureWire st o n i)

theorem mv_mergeKeys (st : St) (a b : Key) : mview (mergeKeys st a b) = mview st := by
  unfold mergeKeys; simp only []; split <;> rfl

theorem mv_checkHierarchy (st : St) (c d : String) : mview (checkHierarchy st c d) = mview st := by
  unfold checkHierarchy; split <;> rfl

theorem mv_setDir (st : St) (dn pn : String) (d : Dir) : mview (setDir st dn pn d) = mview st := by
  unfold setDir
  apply mv_updDef
  intro x
  refine ⟨rfl, ?_⟩
  simp only [nwOf, List.map_map]
  apply List.map_congr_left
  intro p _
  simp only [Function.comp]
  split <;> rfl

/-! ### instance statements -/

theorem mirror_connectOne {st st' : St} {idx : Nat} {parent model : String} {fa : String × String}
    (m : Mirror st) (h : connectOne st idx parent model fa = Except.ok st') : Mirror st' := by
  unfold connectOne at h
  obtain ⟨⟨cn, ci⟩, _, h⟩ := bind_ok h
  obtain ⟨⟨pn, pi⟩, _, h⟩ := bind_ok h
  simp only [] at h
  split at h
  · cases h
    exact Mirror.of_view (mv_updInst _ _ _ (fun _ => ⟨rfl, rfl⟩)) m
  · split at h
    · cases h
    · rename_i hh
      cases h
      have hp : hasPort st model pn = true := by simpa using hh
      exact Mirror.of_view (mv_connect _ _ _ _ _) (mirror_growPort m model pn (pi + 1) hp)

theorem mirror_connectAll {idx : Nat} {parent model : String} (l : List (String × String)) :
    ∀ {st st' : St}, Mirror st → connectAll st idx parent model l = Except.ok st' → Mirror st' := by
  induction l with
  | nil => intro st st' m h; cases h; exact m
  | cons fa r ih =>
    intro st st' m h
    unfold connectAll at h
    obtain ⟨s1, h1, h2⟩ := bind_ok h
    exact ih (mirror_connectOne m h1) h2

theorem mirror_declFormal {st st' : St} {model : String} {fa : String × String}
    (m : Mirror st) (hd : DefEx st model) (h : declFormal st model fa = Except.ok st') : Mirror st' := by
  unfold declFormal at h
  obtain ⟨⟨pn, pi⟩, _, h⟩ := bind_ok h
  simp only [] at h
  cases h
  have m1 := mirror_addPort m model pn Dir.undef 0
  obtain ⟨hh, _⟩ := addPort_has st model pn Dir.undef 0 hd
  split
  · exact m1
  · exact mirror_growPort m1 model pn _ hh

theorem mirror_declFormals {model : String} (l : List (String × String)) :
    ∀ {st st' : St}, Mirror st → DefEx st model → declFormals st model l = Except.ok st' → Mirror st' := by
  induction l with
  | nil => intro st st' m _ h; cases h; exact m
  | cons fa r ih =>
    intro st st' m hd h
    unfold declFormals at h
    obtain ⟨s1, h1, h2⟩ := bind_ok h
    have hd1 : DefEx s1 model := by
      refine defEx_of_dv (dv_declFormals (model := model) [fa] (st' := s1) ?_) hd
      unfold declFormals
      rw [h1]; rfl
    exact ih (mirror_declFormal m hd h1) hd1 h2

theorem mirror_applyInfo {idx : Nat} {parent : String} (l : List InfoStmt) :
    ∀ {st st' : St}, Mirror st → applyInfo st idx parent l = Except.ok st' → Mirror st' := by
  induction l with
  | nil => intro st st' m h; cases h; exact m
  | cons x r ih =>
    intro st st' m h
    cases x with
    | cname n =>
      unfold applyInfo at h
      obtain ⟨s1, h1, h2⟩ := bind_ok h
      refine ih (Mirror.of_view (mv_renameStrict h1) ?_) h2
      exact Mirror.of_view (mv_updInst _ _ _ (fun _ => ⟨rfl, rfl⟩)) m
    | attr k v =>
      unfold applyInfo at h
      exact ih (Mirror.of_view (mv_updInst st idx (fun i => { i with attrs := dictSet i.attrs k v }) (fun _ => ⟨rfl, rfl⟩)) m) h
    | param k v =>
      unfold applyInfo at h
      exact ih (Mirror.of_view (mv_updInst st idx (fun i => { i with params := dictSet i.params k v }) (fun _ => ⟨rfl, rfl⟩)) m) h

theorem mirror_addLatchPorts (l : List String) : ∀ {st : St}, Mirror st → Mirror (addLatchPorts st l) := by
  induction l with
  | nil => intro st m; exact m
  | cons o r ih => intro st m; unfold addLatchPorts; exact ih (mirror_addPort m _ _ _ _)

theorem mirror_addNamesPorts {st : St} (m : Mirror st) (dn : String) (k : Nat) : Mirror (addNamesPorts st dn k) := by
  unfold addNamesPorts
  simp only []
  apply mirror_addPort
  generalize List.range k = l
  induction l generalizing st with
  | nil => exact m
  | cons o r ih => rw [List.foldl_cons]; exact ih (mirror_addPort m _ _ _ _)

theorem mirror_elabStmt {st st' : St} {cur : String} {s : Stmt} (m : Mirror st)
    (h : elabStmt st cur s = Except.ok st') : Mirror st' := by
  cases s with
  | subckt gate model conns info =>
    unfold elabStmt at h
    simp only [] at h
    obtain ⟨s1, h1, h⟩ := bind_ok h
    obtain ⟨s2, h2, h⟩ := bind_ok h
    rw [newInst_snd] at h2 h
    have a0 : Mirror (checkHierarchy st cur model) := Mirror.of_view (mv_checkHierarchy _ _ _) m
    have a1 := mirror_ensureDef a0 model
    have d1 := defEx_ensureDef (checkHierarchy st cur model) model
    have a2 := mirror_declFormals conns a1 d1 h1
    have d2 : DefEx s1 model := defEx_of_dv (dv_declFormals conns h1) d1
    have a3 := mirror_newInst a2 cur model (if gate then "EBLIF.gate" else "EBLIF.subckt") d2
    have a4 : Mirror (assignDefault (newInst s1 cur model (if gate then "EBLIF.gate" else "EBLIF.subckt")).1 s1.insts.length cur model) :=
      Mirror.of_view (mv_assignDefault _ _ _ _) a3
    exact mirror_applyInfo info (mirror_connectAll _ a4 h2) h
  | names nets covers info =>
    unfold elabStmt at h
    simp only [] at h
    split at h
    · cases h
    · obtain ⟨s1, h1, h⟩ := bind_ok h
      obtain ⟨s2, h2, h⟩ := bind_ok h
      rw [newInst_snd] at h1 h2 h
      have a1 := mirror_ensureDef m ("logic-gate_" ++ natStr (nets.length - 1))
      have d1 := defEx_ensureDef st ("logic-gate_" ++ natStr (nets.length - 1))
      have a2 := mirror_addNamesPorts a1 ("logic-gate_" ++ natStr (nets.length - 1)) (nets.length - 1)
      have d2 := defEx_of_dv (dv_addNamesPorts (ensureDef st ("logic-gate_" ++ natStr (nets.length - 1))) ("logic-gate_" ++ natStr (nets.length - 1)) (nets.length - 1)) d1
      have a3 := mirror_newInst a2 cur ("logic-gate_" ++ natStr (nets.length - 1)) "EBLIF.names" d2
      have a4 := Mirror.of_view (st' := updInst (newInst (addNamesPorts (ensureDef st ("logic-gate_" ++ natStr (nets.length - 1))) ("logic-gate_" ++ natStr (nets.length - 1)) (nets.length - 1)) cur ("logic-gate_" ++ natStr (nets.length - 1)) "EBLIF.names").1
          (addNamesPorts (ensureDef st ("logic-gate_" ++ natStr (nets.length - 1))) ("logic-gate_" ++ natStr (nets.length - 1)) (nets.length - 1)).insts.length (fun i => { i with covers := some covers }))
        (mv_updInst _ _ _ (fun _ => ⟨rfl, rfl⟩)) a3
      have a5 : Mirror s1 := by
        split at h1
        · cases h1
          exact Mirror.of_view (mv_assignDefault _ _ _ _) a4
        · exact Mirror.of_view (mv_rename h1) a4
      exact mirror_applyInfo info (mirror_connectAll _ a5 h2) h
  | latch toks info =>
    unfold elabStmt at h
    simp only [] at h
    split at h
    · cases h
    · obtain ⟨s1, h1, h⟩ := bind_ok h
      obtain ⟨s2, h2, h⟩ := bind_ok h
      rw [newInst_snd] at h1 h2 h
      have a1 := mirror_ensureDef m "generic-latch"
      have d1 := defEx_ensureDef st "generic-latch"
      have a2 := mirror_addLatchPorts (List.map (·.1) (latchOrder.zip toks)) a1
      have d2 := defEx_of_dv (dv_addLatchPorts (List.map (·.1) (latchOrder.zip toks)) (ensureDef st "generic-latch")) d1
      have a3 := mirror_newInst a2 cur "generic-latch" "EBLIF.latch" d2
      have a5 : Mirror s1 := Mirror.of_view (mv_rename h1) a3
      exact mirror_applyInfo info (mirror_connectAll _ a5 h2) h
  | conn a b =>
    unfold elabStmt at h
    obtain ⟨⟨n1, i1⟩, _, h⟩ := bind_ok h
    obtain ⟨⟨n2, i2⟩, _, h⟩ := bind_ok h
    simp only [] at h
    cases h
    refine Mirror.of_view ?_ m
    rw [mv_mergeKeys, mv_ensureWire, mv_ensureWire]
  | blackbox =>
    unfold elabStmt at h
    cases h
    refine Mirror.of_view ?_ m
    exact (mv_updDef (clearOwner st cur) cur (fun d => { d with blackbox := true }) (fun _ => ⟨rfl, rfl⟩)).trans rfl

theorem mirror_elabStmts {cur : String} (l : List Stmt) :
    ∀ {st st' : St}, Mirror st → elabStmts st cur l = Except.ok st' → Mirror st' := by
  induction l with
  | nil => intro st st' s h; cases h; exact s
  | cons x r ih =>
    intro st st' s h
    unfold elabStmts at h
    obtain ⟨s1, h1, h2⟩ := bind_ok h
    exact ih (mirror_elabStmt s h1) h2

/-! ### headers and models -/

theorem mirror_elabInput {st st' : St} {cur tok : String} (m : Mirror st) (hd : DefEx st cur)
    (h : elabInput st cur tok = Except.ok st') : Mirror st' ∧ DefEx st' cur := by
  unfold elabInput at h
  obtain ⟨⟨pn, pi⟩, _, h⟩ := bind_ok h
  simp only [] at h
  cases h
  refine ⟨Mirror.of_view (mv_connect _ _ _ _ _) ?_, defEx_of_dv ?_ hd⟩
  · by_cases hh : hasPort st cur pn = true
    · simp only [hh, if_true]
      obtain ⟨_, h2, _⟩ := setDir_port st cur pn Dir.inp hd hh
      exact mirror_growPort (Mirror.of_view (mv_setDir _ _ _ _) m) cur pn _ h2
    · simp only [hh]
      obtain ⟨h2, _⟩ := addPort_has st cur pn Dir.inp 0 hd
      exact mirror_growPort (mirror_addPort m _ _ _ _) cur pn _ h2
  · rw [dv_connect, dv_growPort]; split <;> simp

theorem mirror_elabOutput {st st' : St} {cur tok : String} (m : Mirror st) (hd : DefEx st cur)
    (h : elabOutput st cur tok = Except.ok st') : Mirror st' ∧ DefEx st' cur := by
  unfold elabOutput at h
  obtain ⟨⟨pn, pi⟩, _, h⟩ := bind_ok h
  simp only [] at h
  have m1 := mirror_addPort m cur pn Dir.out 0
  obtain ⟨hh1, hd1⟩ := addPort_has st cur pn Dir.out 0 hd
  split at h
  · cases h
    obtain ⟨_, h2, _⟩ := setDir_port _ cur pn Dir.inout hd1 hh1
    exact ⟨mirror_growPort (Mirror.of_view (mv_setDir _ _ _ _) m1) cur pn _ h2, defEx_of_dv (by simp) hd⟩
  · cases h
    obtain ⟨_, h2, _⟩ := setDir_port _ cur pn Dir.out hd1 hh1
    exact ⟨Mirror.of_view (mv_connect _ _ _ _ _) (mirror_growPort (Mirror.of_view (mv_setDir _ _ _ _) m1) cur pn _ h2),
      defEx_of_dv (by simp) hd⟩

theorem mirror_elabToks (f : St → String → String → Except Err St)
    (hf : ∀ {st st' : St} {cur tok : String}, Mirror st → DefEx st cur → f st cur tok = Except.ok st' → Mirror st' ∧ DefEx st' cur)
    {cur : String} (l : List String) :
    ∀ {st st' : St}, Mirror st → DefEx st cur → elabToks f st cur l = Except.ok st' → Mirror st' ∧ DefEx st' cur := by
  induction l with
  | nil => intro st st' s d h; cases h; exact ⟨s, d⟩
  | cons t r ih =>
    intro st st' s d h
    unfold elabToks at h
    obtain ⟨s1, h1, h2⟩ := bind_ok h
    obtain ⟨a, b⟩ := hf s d h1
    exact ih a b h2

theorem mirror_elabHdrs {cur : String} (l : List Hdr) :
    ∀ {st st' : St}, Mirror st → DefEx st cur → elabHdrs st cur l = Except.ok st' → Mirror st' := by
  induction l with
  | nil => intro st st' s _ h; cases h; exact s
  | cons x r ih =>
    intro st st' s d h
    unfold elabHdrs at h
    obtain ⟨s1, h1, h2⟩ := bind_ok h
    have : Mirror s1 ∧ DefEx s1 cur := by
      cases x with
      | inputs l => exact mirror_elabToks elabInput (fun s d h => mirror_elabInput s d h) l s d h1
      | outputs l => exact mirror_elabToks elabOutput (fun s d h => mirror_elabOutput s d h) l s d h1
      | clock l =>
        unfold elabHdr at h1
        cases h1
        exact ⟨Mirror.of_view (mv_updDef st cur (fun d => { d with clock := some ((match d.clock with | some c => c | none => []) ++ l) }) (fun _ => ⟨rfl, rfl⟩)) s,
          defEx_of_dv (dv_updDef st cur (fun d => { d with clock := some ((match d.clock with | some c => c | none => []) ++ l) }) (fun _ => ⟨rfl, rfl⟩)) d⟩
    exact ih this.1 this.2 h2

theorem mirror_beginModel {st : St} (m : Mirror st) (n : String) : Mirror (beginModel st n) ∧ DefEx (beginModel st n) n := by
  have hv : mview (beginModel st n) = mview (updDef (ensureDef st n) n (fun d => { d with declared := true })) := by
    unfold beginModel; simp only []; split <;> rfl
  have hdv : (beginModel st n).defs = (updDef (ensureDef st n) n (fun d => { d with declared := true })).defs := by
    unfold beginModel; simp only []; split <;> rfl
  refine ⟨Mirror.of_view (hv.trans (mv_updDef _ _ _ (fun _ => ⟨rfl, rfl⟩))) (mirror_ensureDef m n), ?_⟩
  unfold DefEx
  rw [findDef_of_defs hdv]
  exact isSome_updDef _ _ _ (fun _ => rfl) (defEx_ensureDef st n)

theorem mirror_elabModels (ms : List Model) :
    ∀ {st st' : St}, Mirror st → elabModels st ms = Except.ok st' → Mirror st' := by
  induction ms with
  | nil => intro st st' s h; cases h; exact s
  | cons m r ih =>
    intro st st' s h
    unfold elabModels at h
    obtain ⟨s1, h1, h2⟩ := bind_ok h
    unfold elabModel at h1
    obtain ⟨s0, h0, h1⟩ := bind_ok h1
    obtain ⟨a, b⟩ := mirror_beginModel s m.name
    exact ih (mirror_elabStmts _ (mirror_elabHdrs _ a b h0) h1) h2

end Spydr.Eblif
