/-
  EBLIF engine, part 1: characters -> tokens -> lines -> BAst.

  `lexB` models `spydrnet/parsers/eblif/eblif_tokenizer.py`:
    * the file is iterated line by line, every line is `str.split()` into words and followed by
      one "\n" token (also the last line when it lacks the newline character);
    * `Tokenizer.next()` swallows a word that is exactly `\` together with the token after it
      (line continuation) -- `joinCont`.
  `parseB` models the statement recognition of `eblif_parser.py` (`parse_eblif`,
  `parse_model_helper`, `parse_model_ports`, `parse_instance_info`, the cover loop of `parse_name`)
  as a line-driven state machine.  `#` is a comment only as the first word of a line, as in the code.
  No Mathlib.
-/
namespace Spydr.Eblif

inductive Tok where
  | word (s : String)
  | nl
deriving DecidableEq, Repr, Inhabited

/-- blanks inside a line: what `str.split()` without argument splits on (`str.isspace`), except
    the line terminators '\n' and '\r', which the text-mode file iteration turns into line ends. -/
def isWs (c : Char) : Bool :=
  c = ' ' || c = '\t' || c = '\x0b' || c = '\x0c' || c = '\x1c' || c = '\x1d' || c = '\x1e' || c = '\x1f'
  || c = '\u0085' || c = '\u00a0' || c = '\u1680' || (0x2000 ≤ c.toNat && c.toNat ≤ 0x200a)
  || c = '\u2028' || c = '\u2029' || c = '\u202f' || c = '\u205f' || c = '\u3000'

def flushW (cur : List Char) : List Tok :=
  if cur = [] then [] else [Tok.word (String.ofList cur)]

/-- `cur` = word being read, `dirty` = the current line has at least one character. -/
def lexGo : List Char → Bool → List Char → List Tok
  | cur, dirty, [] => flushW cur ++ (if dirty then [Tok.nl] else [])
  | cur, dirty, c :: cs =>
      if c = '\n' then flushW cur ++ Tok.nl :: lexGo [] false cs
      else if c = '\r' then
        -- universal newlines: "\r\n" is one line end, a lone '\r' is a line end
        (if cs.head? = some '\n' then lexGo cur dirty cs else flushW cur ++ Tok.nl :: lexGo [] false cs)
      else if isWs c then flushW cur ++ lexGo [] true cs
      else lexGo (cur ++ [c]) true cs

def bsl : Tok := Tok.word "\\"

/-- `Tokenizer.next()`: a word `\` and the token that follows it are skipped. -/
def joinCont : List Tok → List Tok
  | [] => []
  | [t] => [t]
  | t :: u :: rest => if t = bsl then joinCont rest else t :: joinCont (u :: rest)

def lexB (text : List Char) : List Tok := joinCont (lexGo [] false text)

/-- The printer used in the token round-trip theorem and by `composeB`'s text form:
    every word is followed by one blank, every line end is '\n'. -/
def printB : List Tok → List Char
  | [] => []
  | Tok.word s :: r => s.toList ++ ' ' :: printB r
  | Tok.nl :: r => '\n' :: printB r

/-- tokens -> lines of words (a last unterminated line counts). -/
def toLinesGo : List String → List Tok → List (List String)
  | cur, [] => if cur = [] then [] else [cur]
  | cur, Tok.nl :: r => cur :: toLinesGo [] r
  | cur, Tok.word s :: r => toLinesGo (cur ++ [s]) r

def toLines (ts : List Tok) : List (List String) := toLinesGo [] ts

/-! ### AST -/

inductive InfoStmt where
  | cname (n : String)
  | attr (k v : String)
  | param (k v : String)
deriving DecidableEq, Repr, Inhabited

inductive Stmt where
  | subckt (gate : Bool) (model : String) (conns : List (String × String)) (info : List InfoStmt)
  | names (nets : List String) (covers : List String) (info : List InfoStmt)
  | latch (toks : List String) (info : List InfoStmt)
  | conn (a b : String)
  | blackbox
deriving DecidableEq, Repr, Inhabited

inductive Hdr where
  | inputs (l : List String)
  | outputs (l : List String)
  | clock (l : List String)
deriving DecidableEq, Repr, Inhabited

structure Model where
  name : String
  hdr : List Hdr := []
  body : List Stmt := []
deriving DecidableEq, Repr, Inhabited

structure BAst where
  comments : List String := []
  models : List Model := []
deriving DecidableEq, Repr, Inhabited

inductive Err where
  | syntax (what : String)
  | value (what : String)     -- ValueError family (name conflict, bad index)
  | key (what : String)       -- KeyError family (.latch without output)
  | index (what : String)     -- IndexError family (.names without nets)
deriving DecidableEq, Repr, Inhabited

/-! ### Parser -/

inductive Mode where
  | outside | header | body | covers | info
deriving DecidableEq, Repr, Inhabited

structure PSt where
  mode : Mode := Mode.outside
  comments : List String := []
  done : List Model := []
  cur : Option Model := none
  err : Option Err := none
deriving Repr, Inhabited

/-- `formal=actual`: split at the first '='. -/
def splitEqGo : List Char → List Char → Option (List Char × List Char)
  | _, [] => none
  | acc, c :: cs => if c = '=' then some (acc, cs) else splitEqGo (acc ++ [c]) cs

def splitEq (s : String) : Option (String × String) :=
  match splitEqGo [] s.toList with
  | some (a, b) => some (String.ofList a, String.ofList b)
  | none => none

def isCoverChar (c : Char) : Bool := c = '1' || c = '0' || c = '-'

/-- `check_if_init_values` -/
def isCoverWord (s : String) : Bool := s.toList.all isCoverChar

def commentText (ws : List String) : String :=
  ws.foldl (fun acc w => acc ++ w ++ " ") ""

def PSt.fail (s : PSt) (e : Err) : PSt :=
  match s.err with
  | some _ => s
  | none => { s with err := some e }

def PSt.pushStmt (s : PSt) (x : Stmt) (m : Mode) : PSt :=
  match s.cur with
  | some c => { s with cur := some { c with body := c.body ++ [x] }, mode := m }
  | none => s

def PSt.pushHdr (s : PSt) (x : Hdr) : PSt :=
  match s.cur with
  | some c => { s with cur := some { c with hdr := c.hdr ++ [x] } }
  | none => s

def addInfoStmt (x : InfoStmt) : Stmt → Stmt
  | Stmt.subckt g m c i => Stmt.subckt g m c (i ++ [x])
  | Stmt.names n c i => Stmt.names n c (i ++ [x])
  | Stmt.latch t i => Stmt.latch t (i ++ [x])
  | s => s

def addCoverStmt (x : String) : Stmt → Stmt
  | Stmt.names n c i => Stmt.names n (c ++ [x]) i
  | s => s

def modifyLast {α : Type} (f : α → α) : List α → List α
  | [] => []
  | [a] => [f a]
  | a :: b :: r => a :: modifyLast f (b :: r)

def PSt.modLast (s : PSt) (f : Stmt → Stmt) : PSt :=
  match s.cur with
  | some c => { s with cur := some { c with body := modifyLast f c.body } }
  | none => s

def parseConns : List String → Option (List (String × String))
  | [] => some []
  | w :: r =>
      match splitEq w, parseConns r with
      | some p, some l => some (p :: l)
      | _, _ => none

/-- a body-level line (the modes `covers`/`info` fall back to this). -/
def stepBody (s : PSt) (line : List String) : PSt :=
  match line with
  | [] => { s with mode := Mode.body }
  | kw :: args =>
    if kw = "#" then { s with comments := s.comments ++ [commentText args], mode := Mode.body }
    else if kw = ".subckt" || kw = ".gate" then
      match args with
      | [] => s.fail (Err.syntax "subckt without model")
      | m :: cs =>
        match parseConns cs with
        | some l => s.pushStmt (Stmt.subckt (kw = ".gate") m l []) Mode.info
        | none => s.fail (Err.syntax "formal without =")
    else if kw = ".names" then s.pushStmt (Stmt.names args [] []) Mode.covers
    else if kw = ".latch" then s.pushStmt (Stmt.latch args []) Mode.info
    else if kw = ".conn" then
      match args with
      | a :: b :: _ => s.pushStmt (Stmt.conn a b) Mode.body
      | _ => s.fail (Err.syntax "conn needs two nets")
    else if kw = ".blackbox" then s.pushStmt Stmt.blackbox Mode.body
    else if kw = ".end" then
      match s.cur with
      | some c => { s with done := s.done ++ [c], cur := none, mode := Mode.outside }
      | none => s
    else { s with mode := Mode.body }

def stepInfo (s : PSt) (line : List String) : PSt :=
  match line with
  | [] => s
  | kw :: args =>
    if kw = "#" then { s with comments := s.comments ++ [commentText args] }
    else if kw = ".cname" then
      match args with
      | n :: _ => s.modLast (addInfoStmt (InfoStmt.cname n))
      | _ => s.fail (Err.syntax "cname without name")
    else if kw = ".attr" then
      match args with
      | k :: v :: _ => s.modLast (addInfoStmt (InfoStmt.attr k v))
      | _ => s.fail (Err.syntax "attr needs key and value")
    else if kw = ".param" then
      match args with
      | k :: v :: _ => s.modLast (addInfoStmt (InfoStmt.param k v))
      | _ => s.fail (Err.syntax "param needs key and value")
    else stepBody s line

def coverText : List String → String
  | [] => ""
  | [a] => a ++ " "
  | a :: b :: _ => a ++ " " ++ b

def stepCovers (s : PSt) (line : List String) : PSt :=
  match line with
  | [] => { s with mode := Mode.info }
  | kw :: _ =>
    if isCoverWord kw then s.modLast (addCoverStmt (coverText line))
    else stepInfo { s with mode := Mode.info } line

def stepHeader (s : PSt) (line : List String) : PSt :=
  match line with
  | [] => s
  | kw :: args =>
    if kw = "#" then { s with comments := s.comments ++ [commentText args] }
    else if kw = ".inputs" then s.pushHdr (Hdr.inputs args)
    else if kw = ".outputs" then s.pushHdr (Hdr.outputs args)
    else if kw = ".clock" then s.pushHdr (Hdr.clock args)
    else stepBody { s with mode := Mode.body } line

def stepOutside (s : PSt) (line : List String) : PSt :=
  match line with
  | [] => s
  | kw :: args =>
    if kw = "#" then { s with comments := s.comments ++ [commentText args] }
    else if kw = ".model" then
      match args with
      | n :: _ => { s with cur := some { name := n }, mode := Mode.header }
      | [] => s.fail (Err.syntax "model without name")
    else s

def pstep (s : PSt) (line : List String) : PSt :=
  match s.mode with
  | Mode.outside => stepOutside s line
  | Mode.header => stepHeader s line
  | Mode.body => stepBody s line
  | Mode.covers => stepCovers s line
  | Mode.info => stepInfo s line

def PSt.finish (s : PSt) : Except Err BAst :=
  match s.err with
  | some e => Except.error e
  | none =>
    Except.ok { comments := s.comments,
                models := s.done ++ (match s.cur with | some c => [c] | none => []) }

def parseLines (ls : List (List String)) : Except Err BAst :=
  (ls.foldl pstep {}).finish

def parseB (ts : List Tok) : Except Err BAst := parseLines (toLines ts)

end Spydr.Eblif
