/-
  EBLIF engine, part 3: BNet -> lines of words (`composeB`), the model of `EBLIFComposer` for flat
  designs (top model + leaf primitives), as repaired by docs/fixes/eblif_conn.diff (a top-level
  port pin that sits on a differently named net is written as `.conn net port`).
  The long-line continuation (`\` + newline when an instance has more than five pins) is not
  produced: `lexB` removes it, and texts are compared after `lexB`.
  No Mathlib.
-/
import Spydr.Eblif.ModelElab

namespace Spydr.Eblif

structure Opts where
  writeBlackbox : Bool := true
  writeCname : Bool := true
deriving DecidableEq, Repr, Inhabited

def BNet.findDef (n : BNet) (dn : String) : DefD :=
  match n.defs.find? (fun d => d.name = dn) with
  | some d => d
  | none => { name := dn }

/-- `cable.name` plus `[index]` when the cable has more than one wire; `unconn` without wire. -/
def netText (n : BNet) (p : Pin) : String :=
  match n.wireOf p with
  | some (c, wi, len) => if len > 1 then c.2 ++ "[" ++ natStr wi ++ "]" else c.2
  | none => "unconn"

def portBits (p : PortD) : List String :=
  if p.width > 1 then (List.range p.width).map (fun i => p.name ++ "[" ++ natStr i ++ "]") else [p.name]

def isLeaf (n : BNet) (dn : String) : Bool :=
  !(n.insts.any (fun i => i.parent = dn)) && !(n.cables.any (fun c => c.1.1 = dn))

def infoLines (o : Opts) (i : Inst) : List (List String) :=
  (if o.writeCname then [[".cname", i.name]] else [])
  ++ i.attrs.map (fun kv => [".attr", kv.1, kv.2])
  ++ i.params.map (fun kv => [".param", kv.1, kv.2])

def subcktLine (n : BNet) (idx : Nat) (i : Inst) (gate : Bool) : List String :=
  let d := n.findDef i.model
  [if gate then ".gate" else ".subckt", i.model] ++
  d.ports.flatMap (fun p =>
    (i.pins.reverse.filter (fun q => q.1 = p.name)).map (fun q =>
      (if p.width > 1 then p.name ++ "[" ++ natStr q.2 ++ "]" else p.name) ++ "=" ++ netText n (Pin.inst idx q.1 q.2)))

def splitOnBlank (l : List Char) : List String :=
  (toLinesGo [] (lexGo [] false l)).flatten

def namesLines (n : BNet) (idx : Nat) (i : Inst) : List (List String) :=
  let ins := i.pins.filter (fun q => n.portDir i.model q.1 = Dir.inp)
  let outs := i.pins.reverse.filter (fun q => n.portDir i.model q.1 = Dir.out)
  [[".names"] ++ (ins ++ outs).map (fun q => netText n (Pin.inst idx q.1 q.2))]
  ++ (match i.covers with
      | some cs => cs.map (fun c => splitOnBlank c.toList)
      | none => [])

def latchLine (n : BNet) (idx : Nat) (i : Inst) : List String :=
  [".latch"] ++ latchOrder.flatMap (fun pt =>
    (i.pins.reverse.filter (fun q => q.1 = pt)).map (fun q => netText n (Pin.inst idx q.1 q.2)))

def instLines (o : Opts) (n : BNet) (p : Inst × Nat) : List (List String) :=
  let (i, idx) := p
  if i.typ = "EBLIF.subckt" || i.typ = "EBLIF.other" then [subcktLine n idx i false] ++ infoLines o i
  else if i.typ = "EBLIF.gate" then [subcktLine n idx i true] ++ infoLines o i
  else if i.typ = "EBLIF.names" then namesLines n idx i ++ infoLines o i
  else if i.typ = "EBLIF.latch" then [latchLine n idx i] ++ infoLines o i
  else []

/-- `.conn net port` for every top-level port pin whose net is not the bit named after it. -/
def connLines (n : BNet) (d : DefD) : List (List String) :=
  d.ports.flatMap (fun p =>
    (List.range p.width).flatMap (fun b =>
      match n.wireOf (Pin.top d.name p.name b) with
      | some (c, wi, _) =>
          if c.2 = p.name && wi = b then []
          else [[".conn", netText n (Pin.top d.name p.name b),
                 if p.width > 1 then p.name ++ "[" ++ natStr b ++ "]" else p.name]]
      | none => []))

def modelLines (o : Opts) (n : BNet) (dn : String) : List (List String) :=
  let d := n.findDef dn
  let kids := n.insts.zipIdx.filter (fun (p : Inst × Nat) => p.1.parent = dn)
  let cat (t : String) := kids.filter (fun (p : Inst × Nat) => p.1.typ = t)
  [[".model", dn],
   [".inputs"] ++ (d.ports.filter (fun p => p.dir = Dir.inp || p.dir = Dir.inout)).flatMap portBits,
   [".outputs"] ++ (d.ports.filter (fun p => p.dir = Dir.out || p.dir = Dir.inout)).flatMap portBits]
  ++ (match d.clock with | some c => [[".clock"] ++ c] | none => [])
  ++ (cat "EBLIF.subckt" ++ cat "EBLIF.gate" ++ cat "EBLIF.other" ++ cat "EBLIF.names" ++ cat "EBLIF.latch").flatMap (instLines o n)
  ++ connLines n d
  ++ [[".end"], []]

def blackboxLines (n : BNet) (top : String) : List (List String) :=
  let used := ((n.insts.filter (fun i => i.parent = top &&
                  (i.typ = "EBLIF.subckt" || i.typ = "EBLIF.gate" || i.typ = "EBLIF.other") && isLeaf n i.model)).map (·.model))
  (n.defs.filter (fun d => !d.inWork && d.name ∈ used && !containsSub d.name.toList "logic-gate".toList)).flatMap (fun d =>
    [[".model", d.name],
     [".inputs"] ++ (d.ports.filter (fun p => p.dir = Dir.inp)).map (·.name),
     [".outputs"] ++ (d.ports.filter (fun p => p.dir = Dir.out)).map (·.name),
     [".blackbox"], [".end"], []])

def composeLines (o : Opts) (n : BNet) : List (List String) :=
  n.comments.map (fun c => ["#"] ++ splitOnBlank c.toList)
  ++ [["#", "Generated", "by", "'BYU", "spydrnet", "tool'"], []]
  ++ (match n.top with
      | some t =>
          if (n.findDef t).inWork then
            modelLines o n t ++ (if o.writeBlackbox then blackboxLines n t else [])
          else []
      | none => [])

def linesToToks (ls : List (List String)) : List Tok :=
  ls.flatMap (fun l => l.map Tok.word ++ [Tok.nl])

def composeB (o : Opts) (n : BNet) : List Tok := linesToToks (composeLines o n)

def composeText (o : Opts) (n : BNet) : List Char := printB (composeB o n)

end Spydr.Eblif
