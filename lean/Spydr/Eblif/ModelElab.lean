/-
  EBLIF engine, part 2: BAst -> BNet (`elabB`), the model of what `EBLIFParser` builds.

  The model follows the code *as repaired* by docs/fixes/eblif_*.diff:
    * `.conn a b` moves the pins of b's wire onto a's wire and remembers b as an alias of a
      (one-step alias table), so earlier and later `formal=actual` references to either net meet;
    * `.blackbox` disconnects the pins before it drops the model's cables;
    * the provisional instance name `<model>_instance_<k>` skips names already taken; a net-derived
      name (`.names`/`.latch` output, driven net of a `.subckt`) that another instance already
      carries is not applied (the instance keeps / gets the provisional name);
    * a formal that widens a port of an already instanced model gives every instance the new pin;
    * `.latch` adds the ports it needs to `generic-latch` when an earlier latch had fewer fields;
    * a `formal[i]=actual` gives the port pins up to index i also when the actual is `unconn`.
  No Mathlib.
-/
import Spydr.Eblif.Model

namespace Spydr.Eblif

inductive Dir where
  | inp | out | inout | undef
deriving DecidableEq, Repr, Inhabited

structure PortD where
  name : String
  dir : Dir
  width : Nat
deriving DecidableEq, Repr, Inhabited

structure DefD where
  name : String
  ports : List PortD := []
  declared : Bool := false
  blackbox : Bool := false
  clock : Option (List String) := none
deriving DecidableEq, Repr, Inhabited

/-- library of a definition: `work` iff it had a `.model` header without `.blackbox`. -/
def DefD.inWork (d : DefD) : Bool := d.declared && !d.blackbox

inductive Pin where
  | top (owner port : String) (bit : Nat)
  | inst (i : Nat) (port : String) (bit : Nat)    -- i = creation index of the instance
deriving DecidableEq, Repr, Inhabited

structure Inst where
  parent : String
  name : String
  model : String
  typ : String
  covers : Option (List String) := none
  unconn : List String := []
  cname : Option String := none
  attrs : List (String × String) := []
  params : List (String × String) := []
  pins : List (String × Nat) := []          -- order of `Instance._pins`
deriving DecidableEq, Repr, Inhabited

abbrev CKey := String × String            -- owner model, cable name
abbrev Key := String × String × Nat       -- owner model, cable name, wire index

def upd {α β : Type} [DecidableEq α] (f : α → β) (a : α) (b : β) : α → β :=
  fun x => if x = a then b else f x

structure St where
  defs : List DefD := []
  insts : List Inst := []
  cables : List CKey := []
  width : CKey → Nat := fun _ => 0
  pins : Key → List Pin := fun _ => []
  alias : Key → Key := id
  comments : List String := []
  counters : List (String × Nat) := []
  top : Option String := none
  nlName : Option String := none

/-! ### names and indices -/

def isDigit (c : Char) : Bool := '0' ≤ c && c ≤ '9'

def digitsToNat (l : List Char) : Nat :=
  l.foldl (fun n c => 10 * n + (c.toNat - '0'.toNat)) 0

/-- position of the last '[' -/
def rfindOpen (l : List Char) : Option Nat :=
  let n := (l.reverse.takeWhile (fun c => c ≠ '[')).length
  if n = l.length then none else some (l.length - n - 1)

/-- `get_port_name_and_index`.  Only non-negative decimal indices are in the model
    (`int()` also takes signs, blanks and underscores; those are not generated). -/
def splitIdx (s : String) : Except Err (String × Nat) :=
  let l := s.toList
  match l.getLast? with
  | none => Except.error (Err.index "empty name")
  | some c =>
    if c ≠ ']' then Except.ok (s, 0) else
    match rfindOpen l with
    | none => Except.ok (s, 0)
    | some o =>
      let name := l.take o
      let inside := (l.drop (o + 1)).takeWhile (fun c => c ≠ ']')
      let inside := inside.takeWhile (fun c => c ≠ ':')
      if inside ≠ [] && inside.all isDigit then Except.ok (String.ofList name, digitsToNat inside)
      else Except.error (Err.value "index is not a number")

def natStr (n : Nat) : String := toString n

/-! ### definitions and ports -/

def findDef (st : St) (n : String) : Option DefD := st.defs.find? (fun d => d.name = n)

def ensureDef (st : St) (n : String) : St :=
  match findDef st n with
  | some _ => st
  | none => { st with defs := st.defs ++ [{ name := n }] }

def updDef (st : St) (n : String) (f : DefD → DefD) : St :=
  { st with defs := st.defs.map (fun d => if d.name = n then f d else d) }

def findPort (d : DefD) (p : String) : Option PortD := d.ports.find? (fun q => q.name = p)

def portWidth (st : St) (dn pn : String) : Nat :=
  match findDef st dn with
  | some d => match findPort d pn with | some p => p.width | none => 0
  | none => 0

def portDir (st : St) (dn pn : String) : Dir :=
  match findDef st dn with
  | some d => match findPort d pn with | some p => p.dir | none => Dir.undef
  | none => Dir.undef

def hasPort (st : St) (dn pn : String) : Bool :=
  match findDef st dn with
  | some d => (findPort d pn).isSome
  | none => false

def bitsFrom (pn : String) (lo hi : Nat) : List (String × Nat) :=
  (List.range (hi - lo)).map (fun k => (pn, lo + k))

/-- every instance of `dn` receives the pins `l` (appended, as `Instance._pins` is a dict). -/
def appendPins (st : St) (dn : String) (l : List (String × Nat)) : St :=
  { st with insts := st.insts.map (fun i => if i.model = dn then { i with pins := i.pins ++ l } else i) }

/-- add a port if it is missing (with `w` pins); existing instances get the pins. -/
def addPort (st : St) (dn pn : String) (dir : Dir) (w : Nat) : St :=
  if hasPort st dn pn then st else
  appendPins (updDef st dn (fun d => { d with ports := d.ports ++ [{ name := pn, dir := dir, width := w }] }))
    dn (bitsFrom pn 0 w)

def setDir (st : St) (dn pn : String) (dir : Dir) : St :=
  updDef st dn (fun d => { d with ports := d.ports.map (fun p => if p.name = pn then { p with dir := dir } else p) })

/-- `while len(port.pins) < w: port.create_pin()` -/
def growPort (st : St) (dn pn : String) (w : Nat) : St :=
  let old := portWidth st dn pn
  if w ≤ old then st else
  appendPins (updDef st dn (fun d => { d with ports := d.ports.map (fun p => if p.name = pn then { p with width := w } else p) }))
    dn (bitsFrom pn old w)

/-! ### cables, wires, aliases -/

def ensureCable (st : St) (o n : String) : St :=
  if (o, n) ∈ st.cables then st else { st with cables := st.cables ++ [(o, n)] }

def ensureWire (st : St) (o n : String) (i : Nat) : St :=
  let st := ensureCable st o n
  if i + 1 ≤ st.width (o, n) then st else { st with width := upd st.width (o, n) (i + 1) }

/-- `connect_pin_to_wire`: the cable and its wires are created on demand, the pin goes on the
    wire that bit `(n, i)` currently stands for. -/
def connect (st : St) (p : Pin) (o n : String) (i : Nat) : St :=
  let st := ensureWire st o n i
  let k := st.alias (o, n, i)
  { st with pins := upd st.pins k (st.pins k ++ [p]) }

/-- `.conn a b` (repaired `merge_wires`). -/
def mergeKeys (st : St) (ka kb : Key) : St :=
  let ra := st.alias ka
  let rb := st.alias kb
  if ra = rb then st else
  { st with pins := upd (upd st.pins ra (st.pins ra ++ st.pins rb)) rb [],
            alias := fun k => if st.alias k = rb then ra else st.alias k }

def clearOwner (st : St) (o : String) : St :=
  { st with cables := st.cables.filter (fun c => c.1 ≠ o),
            width := fun c => if c.1 = o then 0 else st.width c,
            pins := fun k => if k.1 = o then [] else st.pins k,
            alias := fun k => if k.1 = o then k else st.alias k }

/-! ### instances -/

def siblingNames (st : St) (parent : String) (except : Nat) : List String :=
  (st.insts.zipIdx.filter (fun (p : Inst × Nat) => p.1.parent = parent && p.2 ≠ except)).map (fun p => p.1.name)

def updInst (st : St) (idx : Nat) (f : Inst → Inst) : St :=
  { st with insts := st.insts.zipIdx.map (fun (p : Inst × Nat) => if p.2 = idx then f p.1 else p.1) }

/-- `.cname`: a name another instance of the model already carries is a `ValueError` -/
def renameStrict (st : St) (idx : Nat) (parent n : String) : Except Err St :=
  if n ∈ siblingNames st parent idx then Except.error (Err.value "naming conflict")
  else Except.ok (updInst st idx (fun i => { i with name := n }))

def lookupCounter (l : List (String × Nat)) (n : String) : Option Nat :=
  match l.find? (fun p => p.1 = n) with
  | some p => some p.2
  | none => none

def setCounter (l : List (String × Nat)) (n : String) (v : Nat) : List (String × Nat) :=
  if (l.find? (fun p => p.1 = n)).isSome then l.map (fun p => if p.1 = n then (n, v) else p) else l ++ [(n, v)]

/-- first k ≥ start (within `fuel` tries) such that `mk k` is free. -/
def firstFree (taken : List String) (mk : Nat → String) : Nat → Nat → Nat
  | 0, k => k
  | fuel + 1, k => if mk k ∈ taken then firstFree taken mk fuel (k + 1) else k

def defaultName (m : String) (k : Nat) : String := m ++ "_instance_" ++ natStr k

/-- `assign_instance_a_default_name` (repaired: skips names that are taken). -/
def assignDefault (st : St) (idx : Nat) (parent model : String) : St :=
  let start := match lookupCounter st.counters model with | some k => k + 1 | none => 0
  let taken := siblingNames st parent idx
  let k := firstFree taken (defaultName model) (taken.length + 1) start
  let st := { st with counters := setCounter st.counters model k }
  updInst st idx (fun i => { i with name := defaultName model k })

/-- net-derived name of a `.names` / `.latch` instance (repaired: when another instance already
    carries it -- two drivers on one net -- the instance gets the provisional name instead) -/
def rename (st : St) (idx : Nat) (parent n : String) : Except Err St :=
  if n ∈ siblingNames st parent idx then
    Except.ok (assignDefault st idx parent (match st.insts[idx]? with | some i => i.model | none => ""))
  else Except.ok (updInst st idx (fun i => { i with name := n }))

def allPins (d : DefD) : List (String × Nat) :=
  d.ports.flatMap (fun p => bitsFrom p.name 0 p.width)

def newInst (st : St) (parent model typ : String) : St × Nat :=
  let d := match findDef st model with | some d => d | none => { name := model }
  ({ st with insts := st.insts ++ [{ parent := parent, name := "", model := model, typ := typ, pins := allPins d }] },
   st.insts.length)

def dictSet (l : List (String × String)) (k v : String) : List (String × String) :=
  if (l.find? (fun p => p.1 = k)).isSome then l.map (fun p => if p.1 = k then (k, v) else p) else l ++ [(k, v)]

/-- `connect_instance_pins` for one `formal -> actual` entry. -/
def connectOne (st : St) (idx : Nat) (parent model : String) (fa : String × String) : Except Err St := do
  let (cn, ci) ← splitIdx fa.2
  let (pn, pi) ← splitIdx fa.1
  if cn = "unconn" then
    pure (updInst st idx (fun i => { i with unconn := i.unconn ++ [pn ++ "[" ++ natStr pi ++ "]"] }))
  else if !hasPort st model pn then Except.error (Err.syntax "no such port")
  else
    let st := growPort st model pn (pi + 1)
    pure (connect st (Pin.inst idx pn pi) parent cn ci)

def connectAll (st : St) (idx : Nat) (parent model : String) : List (String × String) → Except Err St
  | [] => pure st
  | fa :: r => do
      let st ← connectOne st idx parent model fa
      connectAll st idx parent model r

def applyInfo (st : St) (idx : Nat) (parent : String) : List InfoStmt → Except Err St
  | [] => pure st
  | InfoStmt.cname n :: r => do
      let st := updInst st idx (fun i => { i with cname := some n })
      let st ← renameStrict st idx parent n
      applyInfo st idx parent r
  | InfoStmt.attr k v :: r => applyInfo (updInst st idx (fun i => { i with attrs := dictSet i.attrs k v })) idx parent r
  | InfoStmt.param k v :: r => applyInfo (updInst st idx (fun i => { i with params := dictSet i.params k v })) idx parent r

/-- `parse_subcircuit_port` (repaired: the port is created on demand and gets pins up to the formal's
    index, also when the actual is `unconn`; the original gave it at most one more pin, so upper bus
    bits that are `unconn` on every instance were lost). -/
def declFormal (st : St) (model : String) (fa : String × String) : Except Err St := do
  let (pn, pi) ← splitIdx fa.1
  let st := addPort st model pn Dir.undef 0
  let w := portWidth st model pn
  pure (if pi + 1 ≤ w then st else growPort st model pn (pi + 1))

def declFormals (st : St) (model : String) : List (String × String) → Except Err St
  | [] => pure st
  | fa :: r => do
      let st ← declFormal st model fa
      declFormals st model r

/-- `check_hierarchy` (flat case: the current model is not instanced itself). -/
def checkHierarchy (st : St) (cur child : String) : St :=
  if st.top = some child then { st with top := some cur, nlName := some cur } else st

def latchOrder : List String := ["input", "output", "type", "control", "init-val"]

def addLatchPorts (st : St) : List String → St
  | [] => st
  | o :: r => addLatchPorts (addPort st "generic-latch" o (if o = "output" then Dir.out else Dir.inp) 1) r

def addNamesPorts (st : St) (dn : String) (k : Nat) : St :=
  let st := (List.range k).foldl (fun st i => addPort st dn ("in_" ++ natStr i) Dir.inp 1) st
  addPort st dn "out" Dir.out 1

def containsSub (s sub : List Char) : Bool :=
  match s with
  | [] => sub.isEmpty
  | c :: r => sub.isPrefixOf (c :: r) || containsSub r sub

def elabStmt (st : St) (cur : String) : Stmt → Except Err St
  | Stmt.subckt gate model conns info => do
      let st := checkHierarchy st cur model
      let st := ensureDef st model
      let st ← declFormals st model conns
      let infoMap := conns.foldl (fun l fa => dictSet l fa.1 fa.2) []
      let (st, idx) := newInst st cur model (if gate then "EBLIF.gate" else "EBLIF.subckt")
      let st := assignDefault st idx cur model
      let st ← connectAll st idx cur model infoMap
      applyInfo st idx cur info
  | Stmt.names nets covers info => do
      match nets.getLast? with
      | none => Except.error (Err.index "names without nets")
      | some outNet =>
        let k := nets.length - 1
        let dn := "logic-gate_" ++ natStr k
        let st := ensureDef st dn
        let st := addNamesPorts st dn k
        let (st, idx) := newInst st cur dn "EBLIF.names"
        let st := updInst st idx (fun i => { i with covers := some covers })
        let d := match findDef st dn with | some d => d | none => { name := dn }
        let infoMap := (d.ports.zip nets).foldl (fun l pn => dictSet l pn.1.name pn.2) []
        let st ← (if containsSub outNet.toList "unconn".toList then pure (assignDefault st idx cur dn)
                  else rename st idx cur outNet)
        let st ← connectAll st idx cur dn infoMap
        applyInfo st idx cur info
  | Stmt.latch toks info => do
      let portInfo := latchOrder.zip toks
      let st := ensureDef st "generic-latch"
      let st := addLatchPorts st (portInfo.map (·.1))
      let (st, idx) := newInst st cur "generic-latch" "EBLIF.latch"
      match portInfo.find? (fun p => p.1 = "output") with
      | none => Except.error (Err.key "latch without output")
      | some o =>
        let st ← rename st idx cur o.2
        let st ← connectAll st idx cur "generic-latch" portInfo
        applyInfo st idx cur info
  | Stmt.conn a b => do
      let (n1, i1) ← splitIdx a
      let (n2, i2) ← splitIdx b
      let st := ensureWire st cur n1 i1
      let st := ensureWire st cur n2 i2
      pure (mergeKeys st (cur, n1, i1) (cur, n2, i2))
  | Stmt.blackbox => pure (updDef (clearOwner st cur) cur (fun d => { d with blackbox := true }))

def elabStmts (st : St) (cur : String) : List Stmt → Except Err St
  | [] => pure st
  | s :: r => do
      let st ← elabStmt st cur s
      elabStmts st cur r

def elabInput (st : St) (cur : String) (tok : String) : Except Err St := do
  let (pn, pi) ← splitIdx tok
  let st := if hasPort st cur pn then setDir st cur pn Dir.inp else addPort st cur pn Dir.inp 0
  let st := growPort st cur pn (pi + 1)
  pure (connect st (Pin.top cur pn pi) cur pn pi)

def elabOutput (st : St) (cur : String) (tok : String) : Except Err St := do
  let (pn, pi) ← splitIdx tok
  let st := addPort st cur pn Dir.out 0
  let d := portDir st cur pn
  if d = Dir.inp || d = Dir.inout then
    pure (growPort (setDir st cur pn Dir.inout) cur pn (pi + 1))
  else
    let st := growPort (setDir st cur pn Dir.out) cur pn (pi + 1)
    pure (connect st (Pin.top cur pn pi) cur pn pi)

def elabToks (f : St → String → String → Except Err St) (st : St) (cur : String) : List String → Except Err St
  | [] => pure st
  | t :: r => do
      let st ← f st cur t
      elabToks f st cur r

def elabHdr (st : St) (cur : String) : Hdr → Except Err St
  | Hdr.inputs l => elabToks elabInput st cur l
  | Hdr.outputs l => elabToks elabOutput st cur l
  | Hdr.clock l =>
      pure (updDef st cur (fun d => { d with clock := some ((match d.clock with | some c => c | none => []) ++ l) }))

def elabHdrs (st : St) (cur : String) : List Hdr → Except Err St
  | [] => pure st
  | h :: r => do
      let st ← elabHdr st cur h
      elabHdrs st cur r

/-- `parse_model_header`: the model's definition is created on demand and marked declared, the
    first model becomes the top, the provisional-name counters restart. -/
def beginModel (st : St) (n : String) : St :=
  let st := updDef (ensureDef st n) n (fun d => { d with declared := true })
  let st := if st.top.isNone then { st with top := some n, nlName := some n } else st
  { st with counters := [] }

def elabModel (st : St) (m : Model) : Except Err St := do
  let st ← elabHdrs (beginModel st m.name) m.name m.hdr
  elabStmts st m.name m.body

def elabModels (st : St) : List Model → Except Err St
  | [] => pure st
  | m :: r => do
      let st ← elabModel st m
      elabModels st r

/-! ### the value-level result -/

structure BNet where
  name : Option String := none
  top : Option String := none
  comments : List String := []
  defs : List DefD := []
  insts : List Inst := []
  cables : List (CKey × List (List Pin)) := []
deriving DecidableEq, Repr, Inhabited

def wiresOf (st : St) (c : CKey) : List (List Pin) :=
  (List.range (st.width c)).map (fun i => st.pins (c.1, c.2, i))

def St.toNet (st : St) : BNet :=
  { name := st.nlName, top := st.top, comments := st.comments, defs := st.defs, insts := st.insts,
    cables := st.cables.map (fun c => (c, wiresOf st c)) }

/-- the wire (cable key, index) a pin is on, by scanning the materialised cables. -/
def findInWires (p : Pin) : List (List Pin) → Nat → Option Nat
  | [], _ => none
  | w :: r, i => if p ∈ w then some i else findInWires p r (i + 1)

def BNet.wireOf (n : BNet) (p : Pin) : Option (CKey × Nat × Nat) :=
  n.cables.findSome? (fun c => match findInWires p c.2 0 with
                               | some i => some (c.1, i, c.2.length)
                               | none => none)

def BNet.portDir (n : BNet) (dn pn : String) : Dir :=
  match n.defs.find? (fun d => d.name = dn) with
  | some d => match findPort d pn with | some p => p.dir | none => Dir.undef
  | none => Dir.undef

/-- `set_subcircuit_names_by_convention`: name of the net driven by the last wired OUT pin. -/
def conventionName (n : BNet) (idx : Nat) (i : Inst) : Option String :=
  if i.typ ≠ "EBLIF.subckt" && i.typ ≠ "EBLIF.gate" then none
  else if i.cname.isSome then none
  else
    (i.pins.reverse.filter (fun p => n.portDir i.model p.1 = Dir.out)).findSome? (fun p =>
      match n.wireOf (Pin.inst idx p.1 p.2) with
      | some (c, wi, len) => some (if len > 1 then c.2 ++ "_" ++ natStr wi else c.2)
      | none => none)

def renameNet (n : BNet) (idx : Nat) (nm : String) : Except Err BNet :=
  match n.insts[idx]? with
  | none => pure n
  | some me =>
    let others := (n.insts.zipIdx.filter (fun (p : Inst × Nat) => p.1.parent = me.parent && p.2 ≠ idx)).map (fun p => p.1.name)
    if nm ∈ others then pure n      -- repaired: the net-derived name is taken, keep the old name
    else pure { n with insts := n.insts.zipIdx.map (fun (p : Inst × Nat) => if p.2 = idx then { p.1 with name := nm } else p.1) }

def applyConvention (n : BNet) : List Nat → Except Err BNet
  | [] => pure n
  | idx :: r =>
      match n.insts[idx]? with
      | none => applyConvention n r
      | some i =>
        match conventionName n idx i with
        | none => applyConvention n r
        | some nm => do
            let n ← renameNet n idx nm
            applyConvention n r

def elabSt (a : BAst) : Except Err St := do
  let st ← elabModels {} a.models
  pure { st with comments := a.comments }

def elabB (a : BAst) : Except Err BNet := do
  let st ← elabSt a
  let n := st.toNet
  applyConvention n (List.range n.insts.length)

def readB (text : List Char) : Except Err BNet := do
  let a ← parseB (lexB text)
  elabB a

end Spydr.Eblif
