/-
  The port list of the model being read, computed exactly from the header words.
-/
import Spydr.Eblif.Props.C18ReadOk

namespace Spydr.Eblif

def widthL (ps : List PortD) (pn : String) : Nat := match findIn ps pn with | some p => p.width | none => 0

def setDirL (ps : List PortD) (pn : String) (d : Dir) : List PortD :=
  ps.map (fun p => if p.name = pn then { p with dir := d } else p)

def growL (ps : List PortD) (pn : String) (w : Nat) : List PortD :=
  if w ≤ widthL ps pn then ps else ps.map (fun p => if p.name = pn then { p with width := w } else p)

def addL (ps : List PortD) (pn : String) (d : Dir) : List PortD :=
  if (findIn ps pn).isSome then ps else ps ++ [{ name := pn, dir := d, width := 0 }]

theorem portsOf_setDir (st : St) (t pn : String) (d : Dir) (hd : DefEx st t) :
    portsOf (setDir st t pn d) t = setDirL (portsOf st t) pn d := by
  unfold setDir setDirL
  exact portsOf_updPorts st t (fun ps => ps.map (fun p => if p.name = pn then { p with dir := d } else p)) hd

theorem portsOf_growPort (st : St) (t pn : String) (w : Nat) (hd : DefEx st t) :
    portsOf (growPort st t pn w) t = growL (portsOf st t) pn w := by
  unfold growPort growL
  simp only []
  have hw : portWidth st t pn = widthL (portsOf st t) pn := by rw [portWidth_eq]; rfl
  rw [hw]
  split
  · rfl
  · rw [portsOf_of_defs (defs_appendPins _ _ _)]
    exact portsOf_updPorts st t (fun ps => ps.map (fun p => if p.name = pn then { p with width := w } else p)) hd

theorem portsOf_addPort0 (st : St) (t pn : String) (d : Dir) (hd : DefEx st t) :
    portsOf (addPort st t pn d 0) t = addL (portsOf st t) pn d := by
  unfold addPort addL
  rw [hasPort_eq]
  split
  · rfl
  · rw [portsOf_of_defs (defs_appendPins _ _ _)]
    exact portsOf_updPorts st t (fun ps => ps ++ [({ name := pn, dir := d, width := 0 } : PortD)]) hd

theorem portsOf_connect (st : St) (p : Pin) (o n t : String) (i : Nat) : portsOf (connect st p o n i) t = portsOf st t :=
  portsOf_of_defs (defs_connect _ _ _ _ _) t

/-- exact port list after `.inputs word` -/
theorem portsOf_elabInput {st st' : St} {t tok pn : String} {pi : Nat} (hd : DefEx st t)
    (hs : splitIdx tok = Except.ok (pn, pi)) (h : elabInput st t tok = Except.ok st') :
    portsOf st' t = growL (if (findIn (portsOf st t) pn).isSome then setDirL (portsOf st t) pn Dir.inp
                           else addL (portsOf st t) pn Dir.inp) pn (pi + 1) := by
  unfold elabInput at h
  rw [hs] at h
  simp only [bind, Except.bind, pure, Except.pure] at h
  cases h
  rw [portsOf_connect]
  by_cases hh : hasPort st t pn = true
  · have hf : (findIn (portsOf st t) pn).isSome = true := by rw [← hasPort_eq]; exact hh
    simp only [hh, hf, if_true]
    obtain ⟨_, _, h3⟩ := setDir_port st t pn Dir.inp hd hh
    rw [portsOf_growPort _ _ _ _ h3, portsOf_setDir _ _ _ _ hd]
  · have hf' : hasPort st t pn = false := by simpa using hh
    have hf : (findIn (portsOf st t) pn).isSome = false := by rw [← hasPort_eq]; exact hf'
    simp only [hf', hf, Bool.false_eq_true, if_false]
    obtain ⟨_, _, h3⟩ := addPort_port st t pn Dir.inp 0 hd hf'
    rw [portsOf_growPort _ _ _ _ h3, portsOf_addPort0 _ _ _ _ hd]

/-- exact port list after `.outputs word` that does not name an input port -/
theorem portsOf_elabOutput {st st' : St} {t tok pn : String} {pi : Nat} (hd : DefEx st t)
    (hs : splitIdx tok = Except.ok (pn, pi)) (hdir : portDir (addPort st t pn Dir.out 0) t pn = Dir.out)
    (h : elabOutput st t tok = Except.ok st') :
    portsOf st' t = growL (setDirL (addL (portsOf st t) pn Dir.out) pn Dir.out) pn (pi + 1) := by
  unfold elabOutput at h
  rw [hs] at h
  simp only [bind, Except.bind, pure, Except.pure, hdir] at h
  simp only [show (Dir.out = Dir.inp) = False by simp, show (Dir.out = Dir.inout) = False by simp,
    decide_false, Bool.or_self, Bool.false_eq_true, if_false] at h
  cases h
  obtain ⟨hh0, hd0⟩ := addPort_has st t pn Dir.out 0 hd
  obtain ⟨_, _, h3⟩ := setDir_port _ t pn Dir.out hd0 hh0
  rw [portsOf_connect, portsOf_growPort _ _ _ _ h3, portsOf_setDir _ _ _ _ hd0, portsOf_addPort0 _ _ _ _ hd]

/-! ### pure list facts -/

theorem findIn_append_new (ps : List PortD) (q : PortD) (hn : ∀ p ∈ ps, p.name ≠ q.name) :
    findIn (ps ++ [q]) q.name = some q := by
  unfold findIn
  rw [List.find?_append]
  have : ps.find? (fun x => x.name = q.name) = none := by
    rw [List.find?_eq_none]; intro p hp; simpa using hn p hp
  rw [this]; simp

theorem findIn_none_of (ps : List PortD) (pn : String) (hn : ∀ p ∈ ps, p.name ≠ pn) : findIn ps pn = none := by
  unfold findIn
  rw [List.find?_eq_none]; intro p hp; simpa using hn p hp

theorem map_other (ps : List PortD) (pn : String) (g : PortD → PortD) (hn : ∀ p ∈ ps, p.name ≠ pn) :
    ps.map (fun p => if p.name = pn then g p else p) = ps := by
  induction ps with
  | nil => rfl
  | cons a r ih =>
    simp only [List.map_cons, hn a (by simp), if_false]
    rw [ih (fun p hp => hn p (by simp [hp]))]

/-- the first word of a new port `pn` (bit 0) appends the port with one pin -/
theorem first_bit (ps : List PortD) (pn : String) (d : Dir) (hn : ∀ p ∈ ps, p.name ≠ pn) :
    growL (setDirL (addL ps pn d) pn d) pn 1 = ps ++ [{ name := pn, dir := d, width := 1 }] := by
  have ha : addL ps pn d = ps ++ [{ name := pn, dir := d, width := 0 }] := by
    unfold addL; rw [findIn_none_of ps pn hn]; rfl
  have hs : setDirL (ps ++ [{ name := pn, dir := d, width := 0 }]) pn d = ps ++ [{ name := pn, dir := d, width := 0 }] := by
    unfold setDirL
    rw [List.map_append, map_other ps pn _ hn]
    simp
  rw [ha, hs]
  unfold growL
  have hw : widthL (ps ++ [{ name := pn, dir := d, width := 0 }]) pn = 0 := by
    unfold widthL
    rw [findIn_append_new ps { name := pn, dir := d, width := 0 } hn]
  rw [hw]
  simp only [Nat.le_zero_eq, Nat.succ_ne_zero, if_false]
  rw [List.map_append, map_other ps pn _ hn]
  simp

/-- a further word of the same port (bit b on a port of width b) widens it by one -/
theorem next_bit (ps : List PortD) (pn : String) (d : Dir) (b : Nat) (hn : ∀ p ∈ ps, p.name ≠ pn) :
    growL (setDirL (ps ++ [{ name := pn, dir := d, width := b }]) pn d) pn (b + 1) =
      ps ++ [{ name := pn, dir := d, width := b + 1 }] := by
  have hs : setDirL (ps ++ [{ name := pn, dir := d, width := b }]) pn d = ps ++ [{ name := pn, dir := d, width := b }] := by
    unfold setDirL
    rw [List.map_append, map_other ps pn _ hn]
    simp
  rw [hs]
  unfold growL
  have hw : widthL (ps ++ [{ name := pn, dir := d, width := b }]) pn = b := by
    unfold widthL
    rw [findIn_append_new ps { name := pn, dir := d, width := b } hn]
  rw [hw]
  simp only [show ¬ (b + 1 ≤ b) by omega, if_false]
  rw [List.map_append, map_other ps pn _ hn]
  simp

end Spydr.Eblif
