/-
  The words of one port, of a port list; the body of instance statements of other models leaves
  the port list of the model alone.
-/
import Spydr.Eblif.PortList

namespace Spydr.Eblif

theorem portBits_spec (p : PortD) (hp : plainName p.name) (hne : p.name.toList ≠ []) (hw : 1 ≤ p.width) :
    (portBits p).length = p.width ∧ ∀ j (hj : j < (portBits p).length), splitIdx ((portBits p)[j]) = Except.ok (p.name, j) := by
  unfold portBits
  split
  · refine ⟨by simp, ?_⟩
    intro j hj
    simp only [List.getElem_map, List.getElem_range]
    exact splitIdx_idx _ _
  · have : p.width = 1 := by omega
    refine ⟨by simp [this], ?_⟩
    intro j hj
    have : j = 0 := by simpa using hj
    subst this
    simpa using splitIdx_plain p.name hp hne

theorem defEx_elabInput {st st' : St} {t tok : String} (hd : DefEx st t) (h : elabInput st t tok = Except.ok st') : DefEx st' t := by
  unfold elabInput at h
  obtain ⟨⟨pn, pi⟩, hs, h'⟩ := bind_ok h
  exact (elabInput_frame hd hs h).1

theorem more_bits_in (t name : String) (ps : List PortD) (hn : ∀ p ∈ ps, p.name ≠ name) (ws : List String) :
    ∀ (b : Nat) (st st' : St), DefEx st t → portsOf st t = ps ++ [{ name := name, dir := Dir.inp, width := b }] →
      (∀ j (hj : j < ws.length), splitIdx ws[j] = Except.ok (name, b + j)) →
      elabToks elabInput st t ws = Except.ok st' →
      portsOf st' t = ps ++ [{ name := name, dir := Dir.inp, width := b + ws.length }] ∧ DefEx st' t := by
  induction ws with
  | nil => intro b st st' hd hp _ h; cases h; exact ⟨by simpa using hp, hd⟩
  | cons w r ih =>
    intro b st st' hd hp hs h
    unfold elabToks at h
    obtain ⟨s1, h1, h2⟩ := bind_ok h
    have hs0 : splitIdx w = Except.ok (name, b) := by
      have := hs 0 (by simp)
      simpa only [List.getElem_cons_zero, Nat.add_zero] using this
    have hp1 := portsOf_elabInput hd hs0 h1
    rw [hp] at hp1
    have hf : (findIn (ps ++ [{ name := name, dir := Dir.inp, width := b }]) name).isSome = true := by
      rw [findIn_append_new ps { name := name, dir := Dir.inp, width := b } hn]; rfl
    simp only [hf, if_true] at hp1
    rw [next_bit ps name Dir.inp b hn] at hp1
    have := ih (b + 1) s1 st' (defEx_elabInput hd h1) hp1 (by
      intro j hj
      have := hs (j + 1) (by simp; omega)
      simpa [Nat.add_assoc, Nat.add_comm 1 j] using this) h2
    simpa [Nat.add_assoc, Nat.add_comm 1 r.length] using this

/-- all words of one new input port -/
theorem port_words_in (t : String) (p : PortD) (hpl : plainName p.name) (hne : p.name.toList ≠ []) (hw : 1 ≤ p.width)
    (ps : List PortD) (hn : ∀ q ∈ ps, q.name ≠ p.name) (st st' : St) (hd : DefEx st t) (hp : portsOf st t = ps)
    (h : elabToks elabInput st t (portBits p) = Except.ok st') :
    portsOf st' t = ps ++ [{ name := p.name, dir := Dir.inp, width := p.width }] ∧ DefEx st' t := by
  obtain ⟨hlen, hsp⟩ := portBits_spec p hpl hne hw
  cases hws : portBits p with
  | nil => rw [hws] at hlen; simp at hlen; omega
  | cons w r =>
    rw [hws] at h hlen hsp
    unfold elabToks at h
    obtain ⟨s1, h1, h2⟩ := bind_ok h
    have hs0 : splitIdx w = Except.ok (p.name, 0) := by
      have := hsp 0 (by simp)
      simpa only [List.getElem_cons_zero] using this
    have hp1 := portsOf_elabInput hd hs0 h1
    rw [hp] at hp1
    have hf : (findIn ps p.name).isSome = false := by rw [findIn_none_of ps p.name hn]; rfl
    simp only [hf, Bool.false_eq_true, if_false] at hp1
    have hadd : addL ps p.name Dir.inp = setDirL (addL ps p.name Dir.inp) p.name Dir.inp := by
      have ha : addL ps p.name Dir.inp = ps ++ [{ name := p.name, dir := Dir.inp, width := 0 }] := by
        unfold addL; rw [findIn_none_of ps p.name hn]; rfl
      rw [ha]
      unfold setDirL
      rw [List.map_append, map_other ps p.name _ hn]
      simp
    rw [hadd, first_bit ps p.name Dir.inp hn] at hp1
    have := more_bits_in t p.name ps hn r 1 s1 st' (defEx_elabInput hd h1) hp1 (by
      intro j hj
      have := hsp (j + 1) (by simp; omega)
      simpa [Nat.add_comm 1 j] using this) h2
    have hl : 1 + r.length = p.width := by simp at hlen; omega
    rw [hl] at this
    exact this

theorem elabToks_append (f : St → String → String → Except Err St) (cur : String) (a b : List String) :
    ∀ st, elabToks f st cur (a ++ b) = (elabToks f st cur a >>= fun s => elabToks f s cur b) := by
  induction a with
  | nil => intro st; rfl
  | cons x r ih =>
    intro st
    simp only [List.cons_append, elabToks]
    cases f st cur x with
    | error e => rfl
    | ok s1 => simp [bind, Except.bind, ih s1]

/-- all words of a list of new input ports (pairwise different names, none present yet) -/
theorem ports_words_in (t : String) (P : List PortD)
    (hP : ∀ p ∈ P, plainName p.name ∧ p.name.toList ≠ [] ∧ 1 ≤ p.width ∧ p.dir = Dir.inp) :
    ∀ (ps : List PortD) (st st' : St), (∀ q ∈ ps, ∀ p ∈ P, q.name ≠ p.name) → ((P.map (·.name)).Nodup) →
      DefEx st t → portsOf st t = ps → elabToks elabInput st t (P.flatMap portBits) = Except.ok st' →
      portsOf st' t = ps ++ P ∧ DefEx st' t := by
  induction P with
  | nil => intro ps st st' _ _ hd hp h; cases h; exact ⟨by simpa using hp, hd⟩
  | cons p r ih =>
    intro ps st st' hdis hnd hd hp h
    simp only [List.flatMap_cons] at h
    rw [elabToks_append] at h
    obtain ⟨s1, h1, h2⟩ := bind_ok h
    obtain ⟨hpl, hne, hw, hdir⟩ := hP p (by simp)
    obtain ⟨hp1, hd1⟩ := port_words_in t p hpl hne hw ps (fun q hq => hdis q hq p (by simp)) st s1 hd hp h1
    simp only [List.map_cons, List.nodup_cons, List.mem_map, not_exists, not_and] at hnd
    have hrec : ({ name := p.name, dir := Dir.inp, width := p.width } : PortD) = p := by
      cases p; simp_all
    rw [hrec] at hp1
    have := ih (fun x hx => hP x (by simp [hx])) (ps ++ [p]) s1 st' (by
      intro q hq x hx
      rcases List.mem_append.mp hq with h' | h'
      · exact hdis q h' x (by simp [hx])
      · simp only [List.mem_singleton] at h'
        subst h'
        exact fun e => hnd.1 x hx e.symm) hnd.2 hd1 hp1 h2
    simpa [List.append_assoc] using this

end Spydr.Eblif
