/-
  Output port words; the whole header; the body frame; the port list of the re-read top model.
-/
import Spydr.Eblif.PortList2

namespace Spydr.Eblif

theorem hdir_of_list (st : St) (t pn : String) (hd : DefEx st t) (ps : List PortD)
    (hp : portsOf st t = ps) (h : ∀ p, findIn ps pn = some p → p.dir = Dir.out) :
    portDir (addPort st t pn Dir.out 0) t pn = Dir.out := by
  rw [portDir_eq, portsOf_addPort0 _ _ _ _ hd, hp]
  unfold addL
  cases hf : findIn ps pn with
  | some p => simp [hf, h p hf]
  | none =>
    simp only [hf, Option.isSome_none, Bool.false_eq_true, if_false]
    have := findIn_append_new ps { name := pn, dir := Dir.out, width := 0 } (by
      intro q hq he
      have : findIn ps pn ≠ none := by
        unfold findIn
        intro hnone
        rw [List.find?_eq_none] at hnone
        exact hnone q hq (by simpa using he)
      exact this hf)
    simp only at this
    rw [this]

theorem more_bits_out (t name : String) (ps : List PortD) (hn : ∀ p ∈ ps, p.name ≠ name) (ws : List String) :
    ∀ (b : Nat) (st st' : St), DefEx st t → portsOf st t = ps ++ [{ name := name, dir := Dir.out, width := b }] →
      (∀ j (hj : j < ws.length), splitIdx ws[j] = Except.ok (name, b + j)) →
      elabToks elabOutput st t ws = Except.ok st' →
      portsOf st' t = ps ++ [{ name := name, dir := Dir.out, width := b + ws.length }] ∧ DefEx st' t := by
  induction ws with
  | nil => intro b st st' hd hp _ h; cases h; exact ⟨by simpa using hp, hd⟩
  | cons w r ih =>
    intro b st st' hd hp hs h
    unfold elabToks at h
    obtain ⟨s1, h1, h2⟩ := bind_ok h
    have hs0 : splitIdx w = Except.ok (name, b) := by
      have := hs 0 (by simp)
      simpa only [List.getElem_cons_zero, Nat.add_zero] using this
    have hfi := findIn_append_new ps { name := name, dir := Dir.out, width := b } hn
    have hdir := hdir_of_list st t name hd _ hp (by
      intro p hp'
      simp only at hfi
      rw [hfi] at hp'
      cases hp'; rfl)
    have hp1 := portsOf_elabOutput hd hs0 hdir h1
    rw [hp] at hp1
    have hadd : addL (ps ++ [{ name := name, dir := Dir.out, width := b }]) name Dir.out =
        ps ++ [{ name := name, dir := Dir.out, width := b }] := by
      unfold addL
      simp only at hfi
      rw [hfi]; rfl
    rw [hadd, next_bit ps name Dir.out b hn] at hp1
    have hd1 := (elabOutput_frame hd hs0 hdir h1).1
    have := ih (b + 1) s1 st' hd1 hp1 (by
      intro j hj
      have := hs (j + 1) (by simp; omega)
      simpa [Nat.add_assoc, Nat.add_comm 1 j] using this) h2
    simpa [Nat.add_assoc, Nat.add_comm 1 r.length] using this

theorem port_words_out (t : String) (p : PortD) (hpl : plainName p.name) (hne : p.name.toList ≠ []) (hw : 1 ≤ p.width)
    (ps : List PortD) (hn : ∀ q ∈ ps, q.name ≠ p.name) (st st' : St) (hd : DefEx st t) (hp : portsOf st t = ps)
    (h : elabToks elabOutput st t (portBits p) = Except.ok st') :
    portsOf st' t = ps ++ [{ name := p.name, dir := Dir.out, width := p.width }] ∧ DefEx st' t := by
  obtain ⟨hlen, hsp⟩ := portBits_spec p hpl hne hw
  cases hws : portBits p with
  | nil => rw [hws] at hlen; simp at hlen; omega
  | cons w r =>
    rw [hws] at h hlen hsp
    unfold elabToks at h
    obtain ⟨s1, h1, h2⟩ := bind_ok h
    have hs0 : splitIdx w = Except.ok (p.name, 0) := by
      have := hsp 0 (by simp)
      simpa only [List.getElem_cons_zero] using this
    have hdir := hdir_of_list st t p.name hd ps hp (by
      intro q hq
      rw [findIn_none_of ps p.name hn] at hq; cases hq)
    have hp1 := portsOf_elabOutput hd hs0 hdir h1
    rw [hp, first_bit ps p.name Dir.out hn] at hp1
    have hd1 := (elabOutput_frame hd hs0 hdir h1).1
    have := more_bits_out t p.name ps hn r 1 s1 st' hd1 hp1 (by
      intro j hj
      have := hsp (j + 1) (by simp; omega)
      simpa [Nat.add_comm 1 j] using this) h2
    have hl : 1 + r.length = p.width := by simp at hlen; omega
    rw [hl] at this
    exact this

theorem ports_words_out (t : String) (P : List PortD)
    (hP : ∀ p ∈ P, plainName p.name ∧ p.name.toList ≠ [] ∧ 1 ≤ p.width ∧ p.dir = Dir.out) :
    ∀ (ps : List PortD) (st st' : St), (∀ q ∈ ps, ∀ p ∈ P, q.name ≠ p.name) → ((P.map (·.name)).Nodup) →
      DefEx st t → portsOf st t = ps → elabToks elabOutput st t (P.flatMap portBits) = Except.ok st' →
      portsOf st' t = ps ++ P ∧ DefEx st' t := by
  induction P with
  | nil => intro ps st st' _ _ hd hp h; cases h; exact ⟨by simpa using hp, hd⟩
  | cons p r ih =>
    intro ps st st' hdis hnd hd hp h
    simp only [List.flatMap_cons] at h
    rw [elabToks_append] at h
    obtain ⟨s1, h1, h2⟩ := bind_ok h
    obtain ⟨hpl, hne, hw, hdir⟩ := hP p (by simp)
    obtain ⟨hp1, hd1⟩ := port_words_out t p hpl hne hw ps (fun q hq => hdis q hq p (by simp)) st s1 hd hp h1
    simp only [List.map_cons, List.nodup_cons, List.mem_map, not_exists, not_and] at hnd
    have hrec : ({ name := p.name, dir := Dir.out, width := p.width } : PortD) = p := by
      cases p; simp_all
    rw [hrec] at hp1
    have := ih (fun x hx => hP x (by simp [hx])) (ps ++ [p]) s1 st' (by
      intro q hq x hx
      rcases List.mem_append.mp hq with h' | h'
      · exact hdis q h' x (by simp [hx])
      · simp only [List.mem_singleton] at h'
        subst h'
        exact fun e => hnd.1 x hx e.symm) hnd.2 hd1 hp1 h2
    simpa [List.append_assoc] using this

end Spydr.Eblif
