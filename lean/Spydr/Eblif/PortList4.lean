/-
  Instance statements of other models leave the port list of the model alone; the port list of the
  re-read top model.
-/
import Spydr.Eblif.PortList3

namespace Spydr.Eblif

/-- `b` has the same port list for `t` as `a`, and `t` still exists -/
def Fr (t : String) (a b : St) : Prop := portsOf b t = portsOf a t ∧ DefEx b t

theorem Fr.trans {t : String} {a b c : St} (h1 : Fr t a b) (h2 : Fr t b c) : Fr t a c :=
  ⟨h2.1.trans h1.1, h2.2⟩

theorem fr_of_defs {t : String} {a b : St} (hd : DefEx a t) (h : b.defs = a.defs) : Fr t a b :=
  ⟨portsOf_of_defs h t, by unfold DefEx at *; rw [findDef_of_defs h]; exact hd⟩

theorem fr_ensureDef {t : String} {st : St} (hd : DefEx st t) (n : String) : Fr t st (ensureDef st n) := by
  refine ⟨?_, defEx_mono_ensureDef st n t hd⟩
  unfold ensureDef
  cases hn : findDef st n with
  | some d => rfl
  | none =>
    simp only
    unfold portsOf findDef
    simp only [List.find?_append]
    unfold DefEx findDef at hd
    cases hf : st.defs.find? (fun d => d.name = t) with
    | none => rw [hf] at hd; cases hd
    | some d => simp

theorem fr_updDef_other {t : String} {st : St} (hd : DefEx st t) (n : String) (f : DefD → DefD)
    (hf : ∀ d, (f d).name = d.name) (hne : t ≠ n) : Fr t st (updDef st n f) := by
  refine ⟨portsOf_updDef_other st n t f hf hne, ?_⟩
  unfold DefEx at *
  rw [findDef_updDef st n f hf t]
  cases h : findDef st t with
  | none => rw [h] at hd; cases hd
  | some d => rfl

theorem fr_addPort {t : String} {st : St} (hd : DefEx st t) (dn pn : String) (d : Dir) (w : Nat) (hne : t ≠ dn) :
    Fr t st (addPort st dn pn d w) := by
  unfold addPort
  split
  · exact ⟨rfl, hd⟩
  · have h1 := fr_updDef_other hd dn (fun x => { x with ports := x.ports ++ [{ name := pn, dir := d, width := w }] }) (fun _ => rfl) hne
    exact Fr.trans h1 (fr_of_defs h1.2 rfl)

theorem fr_growPort {t : String} {st : St} (hd : DefEx st t) (dn pn : String) (w : Nat) (hne : t ≠ dn) :
    Fr t st (growPort st dn pn w) := by
  unfold growPort
  simp only []
  split
  · exact ⟨rfl, hd⟩
  · have h1 := fr_updDef_other hd dn (fun x => { x with ports := x.ports.map (fun p => if p.name = pn then { p with width := w } else p) }) (fun _ => rfl) hne
    exact Fr.trans h1 (fr_of_defs h1.2 rfl)

theorem fr_declFormals {t model : String} (hne : t ≠ model) (l : List (String × String)) :
    ∀ {st st' : St}, DefEx st t → declFormals st model l = Except.ok st' → Fr t st st' := by
  induction l with
  | nil => intro st st' hd h; cases h; exact ⟨rfl, hd⟩
  | cons fa r ih =>
    intro st st' hd h
    unfold declFormals at h
    obtain ⟨s1, h1, h2⟩ := bind_ok h
    have f1 : Fr t st s1 := by
      unfold declFormal at h1
      obtain ⟨⟨pn, pi⟩, _, h1⟩ := bind_ok h1
      simp only [] at h1
      cases h1
      have a1 := fr_addPort hd model pn Dir.undef 0 hne
      split
      · exact a1
      · exact Fr.trans a1 (fr_growPort a1.2 model pn _ hne)
    exact Fr.trans f1 (ih f1.2 h2)

theorem fr_connectAll {t model parent : String} {idx : Nat} (hne : t ≠ model) (l : List (String × String)) :
    ∀ {st st' : St}, DefEx st t → connectAll st idx parent model l = Except.ok st' → Fr t st st' := by
  induction l with
  | nil => intro st st' hd h; cases h; exact ⟨rfl, hd⟩
  | cons fa r ih =>
    intro st st' hd h
    unfold connectAll at h
    obtain ⟨s1, h1, h2⟩ := bind_ok h
    have f1 : Fr t st s1 := by
      unfold connectOne at h1
      obtain ⟨⟨cn, ci⟩, _, h1⟩ := bind_ok h1
      obtain ⟨⟨pn, pi⟩, _, h1⟩ := bind_ok h1
      simp only [] at h1
      split at h1
      · cases h1; exact fr_of_defs hd rfl
      · split at h1
        · cases h1
        · cases h1
          have a1 := fr_growPort hd model pn (pi + 1) hne
          exact Fr.trans a1 (fr_of_defs a1.2 (defs_connect _ _ _ _ _))
    exact Fr.trans f1 (ih f1.2 h2)

theorem fr_applyInfo {t parent : String} {idx : Nat} (l : List InfoStmt) :
    ∀ {st st' : St}, DefEx st t → applyInfo st idx parent l = Except.ok st' → Fr t st st' := by
  induction l with
  | nil => intro st st' hd h; cases h; exact ⟨rfl, hd⟩
  | cons x r ih =>
    intro st st' hd h
    cases x with
    | cname n =>
      unfold applyInfo at h
      obtain ⟨s1, h1, h2⟩ := bind_ok h
      have f1 : Fr t st s1 := by
        unfold renameStrict at h1
        split at h1
        · cases h1
        · cases h1; exact fr_of_defs hd rfl
      exact Fr.trans f1 (ih f1.2 h2)
    | attr k v =>
      unfold applyInfo at h
      have f1 : Fr t st (updInst st idx (fun i => { i with attrs := dictSet i.attrs k v })) := fr_of_defs hd rfl
      exact Fr.trans f1 (ih f1.2 h)
    | param k v =>
      unfold applyInfo at h
      have f1 : Fr t st (updInst st idx (fun i => { i with params := dictSet i.params k v })) := fr_of_defs hd rfl
      exact Fr.trans f1 (ih f1.2 h)

theorem fr_elabStmt_subckt {t cur : String} {st st' : St} {gate : Bool} {model : String}
    {conns : List (String × String)} {info : List InfoStmt} (hd : DefEx st t) (hne : t ≠ model)
    (h : elabStmt st cur (Stmt.subckt gate model conns info) = Except.ok st') : Fr t st st' := by
  unfold elabStmt at h
  simp only [] at h
  obtain ⟨s1, h1, h⟩ := bind_ok h
  obtain ⟨s2, h2, h⟩ := bind_ok h
  have a0 : Fr t st (checkHierarchy st cur model) := fr_of_defs hd (by unfold checkHierarchy; split <;> rfl)
  have a1 := Fr.trans a0 (fr_ensureDef a0.2 model)
  have a2 := Fr.trans a1 (fr_declFormals hne conns a1.2 h1)
  have a3 : Fr t s1 (assignDefault (newInst s1 cur model (if gate then "EBLIF.gate" else "EBLIF.subckt")).1
      (newInst s1 cur model (if gate then "EBLIF.gate" else "EBLIF.subckt")).2 cur model) := fr_of_defs a2.2 rfl
  have a4 := Fr.trans a3 (fr_connectAll hne _ a3.2 h2)
  exact Fr.trans a2 (Fr.trans a4 (fr_applyInfo info a4.2 h))

theorem fr_ks (o : Opts) (n : BNet) (t : String) (ks : List (Inst × Nat)) (hne : ∀ k ∈ ks, t ≠ k.1.model) :
    ∀ {st st' : St}, DefEx st t → elabStmts st t (ks.map (stmtOf o n)) = Except.ok st' → Fr t st st' := by
  induction ks with
  | nil => intro st st' hd h; cases h; exact ⟨rfl, hd⟩
  | cons k r ih =>
    intro st st' hd h
    simp only [List.map_cons] at h
    unfold elabStmts at h
    obtain ⟨s1, h1, h2⟩ := bind_ok h
    have f1 := fr_elabStmt_subckt hd (hne k (by simp)) h1
    exact Fr.trans f1 (ih (fun x hx => hne x (by simp [hx])) f1.2 h2)

end Spydr.Eblif
