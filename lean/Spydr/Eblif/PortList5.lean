/-
  The port list of the re-read top model.
-/
import Spydr.Eblif.PortList4

namespace Spydr.Eblif

theorem portsOf_beginModel_empty (t : String) : portsOf (beginModel {} t) t = [] := by
  simp [portsOf, beginModel, ensureDef, findDef, updDef]

theorem nodup_filter_names (ps : List PortD) (f : PortD → Bool) (h : (ps.map (·.name)).Nodup) :
    ((ps.filter f).map (·.name)).Nodup :=
  h.sublist (List.filter_sublist.map _)

/-- **Round trip, port list.**  For the fragment (and no child instantiating the top model itself)
    the top model of the re-read netlist has exactly the ports of `n`'s top model -- same names,
    directions and widths -- the inputs first (in their order), then the outputs (in their order);
    hence the identical list when `n` lists its inputs before its outputs. -/
theorem roundtrip_ports (o : Opts) (n : BNet) (t : String) (hw : WellNamed n) (hf : FragP o n t) (hn : NetOK n t)
    (hself : ∀ i ∈ n.insts, t ≠ i.model) (n' : BNet) (h : readB (composeText o n) = Except.ok n') :
    (n'.findDef t).ports = insPorts (n.findDef t) ++ outsPorts (n.findDef t) ∧
    ((n.findDef t).ports = insPorts (n.findDef t) ++ outsPorts (n.findDef t) → (n'.findDef t).ports = (n.findDef t).ports) := by
  have ht : okWord t = true := hw.2.2.2.2 t hf.top
  rw [read_composeText o n hw, parse_composeLines o n t hf] at h
  simp only [bind, Except.bind] at h
  unfold elabB at h
  obtain ⟨st, hst, hconv⟩ := bind_ok h
  unfold elabSt at hst
  obtain ⟨s0, hs0, hst⟩ := bind_ok hst
  cases hst
  simp only [astOf, elabModels] at hs0
  obtain ⟨s1, hm, hs0⟩ := bind_ok hs0
  cases hs0
  obtain ⟨_, c2, _, _⟩ := applyConvention_pres _ hconv
  -- the model
  unfold elabModel at hm
  obtain ⟨sh, hhdr, hbody⟩ := bind_ok hm
  simp only [hdrOf] at hhdr hbody
  unfold elabHdrs at hhdr
  obtain ⟨sa, hin, hhdr⟩ := bind_ok hhdr
  unfold elabHdrs at hhdr
  obtain ⟨sb, hout, hhdr⟩ := bind_ok hhdr
  unfold elabHdrs at hhdr
  cases hhdr
  simp only [elabHdr] at hin hout
  obtain ⟨_, hp, hnd, _, _⟩ := hn
  obtain ⟨_, hpn, _⟩ := findDef_ok hw ht
  have hIn : ∀ p ∈ insPorts (n.findDef t), plainName p.name ∧ p.name.toList ≠ [] ∧ 1 ≤ p.width ∧ p.dir = Dir.inp := by
    intro p hpm
    simp only [insPorts, List.mem_filter, Bool.or_eq_true, decide_eq_true_eq] at hpm
    obtain ⟨hd, hpl, hwd, _⟩ := hp p hpm.1
    refine ⟨hpl, okWord_nonempty (hpn p hpm.1), hwd, ?_⟩
    rcases hpm.2 with h1 | h1
    · exact h1
    · rcases hd with h2 | h2 <;> simp [h1] at h2
  have hOut : ∀ p ∈ outsPorts (n.findDef t), plainName p.name ∧ p.name.toList ≠ [] ∧ 1 ≤ p.width ∧ p.dir = Dir.out := by
    intro p hpm
    simp only [outsPorts, List.mem_filter, Bool.or_eq_true, decide_eq_true_eq] at hpm
    obtain ⟨hd, hpl, hwd, _⟩ := hp p hpm.1
    refine ⟨hpl, okWord_nonempty (hpn p hpm.1), hwd, ?_⟩
    rcases hpm.2 with h1 | h1
    · exact h1
    · rcases hd with h2 | h2 <;> simp [h1] at h2
  obtain ⟨pa, da⟩ := ports_words_in t (insPorts (n.findDef t)) hIn [] (beginModel {} t) sa
    (fun q hq => by cases hq) (nodup_filter_names _ _ hnd) (beginModel_defEx t) (portsOf_beginModel_empty t) hin
  obtain ⟨pb, db⟩ := ports_words_out t (outsPorts (n.findDef t)) hOut ([] ++ insPorts (n.findDef t)) sa sh
    (by
      intro q hq p hpm he
      simp only [List.nil_append] at hq
      have hq' := (List.mem_filter.mp hq).1
      have hp' := (List.mem_filter.mp hpm).1
      have := eq_of_nodup_name hnd hq' hp' he
      subst this
      have h1 := (hIn q hq).2.2.2
      have h2 := (hOut q hpm).2.2.2
      rw [h1] at h2; cases h2)
    (nodup_filter_names _ _ hnd) da pa hout
  -- body
  have hfr := fr_ks o n t (kidsOrd n t) (fun k hk => by
      have : k ∈ n.insts.zipIdx := by
        unfold kidsOrd at hk
        simp only [List.mem_append, List.mem_filter] at hk
        rcases hk with h1 | h1 <;> exact h1.1.1
      exact hself k.1 (mem_zipIdx_fst this)) db hbody
  have hports : portsOf s0 t = insPorts (n.findDef t) ++ outsPorts (n.findDef t) := by
    rw [hfr.1, pb]; simp
  have hfind : (n'.findDef t).ports = portsOf s0 t := by
    unfold BNet.findDef portsOf findDef
    rw [c2]
    show (match (s0.defs.find? fun (d : DefD) => d.name = t) with | some d => d | none => ({ name := t } : DefD)).ports = _
    cases s0.defs.find? (fun (d : DefD) => d.name = t) <;> rfl
  refine ⟨by rw [hfind, hports], fun hs => by rw [hfind, hports, ← hs]⟩

end Spydr.Eblif
