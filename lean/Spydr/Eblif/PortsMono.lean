/-
  Ports never disappear and never get narrower: for every definition name and port name, a port
  found in a state is found in every later state, at least as wide.
-/
import Spydr.Eblif.Props.C18RoundTrip

namespace Spydr.Eblif

def PMono (a b : St) : Prop :=
  ∀ dn pn p, findIn (portsOf a dn) pn = some p → ∃ p', findIn (portsOf b dn) pn = some p' ∧ p.width ≤ p'.width

theorem PMono.refl (a : St) : PMono a a := fun _ _ p h => ⟨p, h, Nat.le_refl _⟩

theorem PMono.trans {a b c : St} (h1 : PMono a b) (h2 : PMono b c) : PMono a c := by
  intro dn pn p h
  obtain ⟨p1, g1, l1⟩ := h1 dn pn p h
  obtain ⟨p2, g2, l2⟩ := h2 dn pn p1 g1
  exact ⟨p2, g2, Nat.le_trans l1 l2⟩

theorem PMono.of_defs {a b : St} (h : b.defs = a.defs) : PMono a b := by
  intro dn pn p hp
  rw [portsOf_of_defs h]
  exact ⟨p, hp, Nat.le_refl _⟩

theorem findDef_updDef (st : St) (n : String) (f : DefD → DefD) (hf : ∀ d, (f d).name = d.name) (m : String) :
    findDef (updDef st n f) m = (findDef st m).map (fun d => if d.name = n then f d else d) := by
  unfold findDef updDef
  simp only [List.find?_map]
  have hp : ((fun d : DefD => decide (d.name = m)) ∘ fun d => if d.name = n then f d else d) =
      (fun d : DefD => decide (d.name = m)) := by
    funext d
    simp only [Function.comp]
    split
    · simp [hf]
    · rfl
  rw [hp]

theorem portsOf_updDef_other (st : St) (n m : String) (f : DefD → DefD) (hf : ∀ d, (f d).name = d.name) (h : m ≠ n) :
    portsOf (updDef st n f) m = portsOf st m := by
  unfold portsOf
  rw [findDef_updDef st n f hf m]
  cases hfd : findDef st m with
  | none => rfl
  | some d =>
    have hn : d.name = m := by
      have := List.find?_some hfd
      simpa using this
    have : ¬ d.name = n := by rw [hn]; exact h
    simp [this]

theorem portsOf_updDef_self (st : St) (n : String) (g : List PortD → List PortD) :
    portsOf (updDef st n (fun d => { d with ports := g d.ports })) n =
      (match findDef st n with | some d => g d.ports | none => []) := by
  unfold portsOf
  have e := findDef_updDef_self st n (fun d => { d with ports := g d.ports }) (fun _ => rfl)
  rw [e]
  cases findDef st n <;> rfl

/-- changing the ports of one definition by a function that keeps every found port at least as wide -/
theorem pmono_updPorts (st : St) (n : String) (g : List PortD → List PortD)
    (hg : ∀ pn p, findIn (portsOf st n) pn = some p → ∃ p', findIn (g (portsOf st n)) pn = some p' ∧ p.width ≤ p'.width) :
    PMono st (updDef st n (fun d => { d with ports := g d.ports })) := by
  intro dn pn p hp
  by_cases h : dn = n
  · subst h
    rw [portsOf_updDef_self]
    have := hg pn p hp
    unfold portsOf at hp this
    cases hfd : findDef st dn with
    | none => rw [hfd] at hp; simp [findIn] at hp
    | some d => rw [hfd] at this; exact this
  · have e := portsOf_updDef_other st n dn (fun d => { d with ports := g d.ports }) (fun _ => rfl) h
    rw [e]
    exact ⟨p, hp, Nat.le_refl _⟩

theorem pmono_updDef_keep (st : St) (n : String) (f : DefD → DefD) (hf : ∀ d, (f d).name = d.name ∧ (f d).ports = d.ports) :
    PMono st (updDef st n f) := by
  intro dn pn p hp
  refine ⟨p, ?_, Nat.le_refl _⟩
  unfold portsOf at hp ⊢
  rw [findDef_updDef st n f (fun d => (hf d).1) dn]
  cases hfd : findDef st dn with
  | none => rw [hfd] at hp; simp [findIn] at hp
  | some d =>
    rw [hfd] at hp
    simp only [Option.map_some]
    split
    · rw [(hf d).2]; exact hp
    · exact hp

theorem pmono_ensureDef (st : St) (n : String) : PMono st (ensureDef st n) := by
  unfold ensureDef
  cases h : findDef st n with
  | some d => exact PMono.refl st
  | none =>
    intro dn pn p hp
    refine ⟨p, ?_, Nat.le_refl _⟩
    unfold portsOf findDef at hp ⊢
    simp only [List.find?_append]
    cases hf : st.defs.find? (fun d => d.name = dn) with
    | none => rw [hf] at hp; simp [findIn] at hp
    | some d => rw [hf] at hp; simpa using hp

theorem pmono_appendPins (st : St) (n : String) (l) : PMono st (appendPins st n l) := PMono.of_defs rfl

theorem pmono_addPort (st : St) (dn pn : String) (d : Dir) (w : Nat) : PMono st (addPort st dn pn d w) := by
  unfold addPort
  split
  · exact PMono.refl st
  · refine PMono.trans (pmono_updPorts st dn (fun ps => ps ++ [{ name := pn, dir := d, width := w }]) ?_) (pmono_appendPins _ _ _)
    intro q p hp
    refine ⟨p, ?_, Nat.le_refl _⟩
    unfold findIn at hp ⊢
    rw [List.find?_append, hp]; rfl

theorem pmono_setDir (st : St) (dn pn : String) (d : Dir) : PMono st (setDir st dn pn d) := by
  unfold setDir
  apply pmono_updPorts
  intro q p hp
  rw [findIn_map_same _ q _ (by intro p; split <;> rfl), hp]
  simp only [Option.map_some]
  refine ⟨_, rfl, ?_⟩
  split <;> exact Nat.le_refl _

theorem pmono_growPort (st : St) (dn pn : String) (w : Nat) : PMono st (growPort st dn pn w) := by
  unfold growPort
  simp only []
  split
  · exact PMono.refl st
  · rename_i hlt
    refine PMono.trans (pmono_updPorts st dn (fun ps => ps.map (fun p => if p.name = pn then { p with width := w } else p)) ?_)
      (pmono_appendPins _ _ _)
    intro q p hp
    rw [findIn_map_same _ q _ (by intro p; split <;> rfl), hp]
    simp only [Option.map_some]
    refine ⟨_, rfl, ?_⟩
    split
    · rename_i hn
      have hq : p.name = q := by
        have := List.find?_some hp
        simpa using this
      have hw : portWidth st dn pn = p.width := by
        rw [portWidth_eq, ← hn, hq, hp]
      simp only
      omega
    · exact Nat.le_refl _

end Spydr.Eblif
