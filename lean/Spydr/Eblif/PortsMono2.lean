/-
  Port monotonicity lifted through the elaborator.
-/
import Spydr.Eblif.PortsMono

namespace Spydr.Eblif

theorem pm_connect (st : St) (p : Pin) (o n : String) (i : Nat) : PMono st (connect st p o n i) :=
  PMono.of_defs (defs_connect _ _ _ _ _)

theorem pm_rename {st st' : St} {i : Nat} {p n : String} (h : rename st i p n = Except.ok st') : PMono st st' := by
  unfold rename at h; split at h <;> (cases h; exact PMono.of_defs rfl)

theorem pm_renameStrict {st st' : St} {i : Nat} {p n : String} (h : renameStrict st i p n = Except.ok st') : PMono st st' := by
  unfold renameStrict at h; split at h
  · cases h
  · cases h; exact PMono.of_defs rfl

theorem pm_connectOne {st st' : St} {idx : Nat} {parent model : String} {fa : String × String}
    (h : connectOne st idx parent model fa = Except.ok st') : PMono st st' := by
  unfold connectOne at h
  obtain ⟨⟨cn, ci⟩, _, h⟩ := bind_ok h
  obtain ⟨⟨pn, pi⟩, _, h⟩ := bind_ok h
  simp only [] at h
  split at h
  · cases h; exact PMono.of_defs rfl
  · split at h
    · cases h
    · cases h; exact PMono.trans (pmono_growPort _ _ _ _) (pm_connect _ _ _ _ _)

theorem pm_connectAll {idx : Nat} {parent model : String} (l : List (String × String)) :
    ∀ {st st' : St}, connectAll st idx parent model l = Except.ok st' → PMono st st' := by
  induction l with
  | nil => intro st st' h; cases h; exact PMono.refl _
  | cons fa r ih =>
    intro st st' h
    unfold connectAll at h
    obtain ⟨s1, h1, h2⟩ := bind_ok h
    exact PMono.trans (pm_connectOne h1) (ih h2)

theorem pm_declFormal {st st' : St} {model : String} {fa : String × String}
    (h : declFormal st model fa = Except.ok st') : PMono st st' := by
  unfold declFormal at h
  obtain ⟨⟨pn, pi⟩, _, h⟩ := bind_ok h
  simp only [] at h
  cases h
  split
  · exact pmono_addPort _ _ _ _ _
  · exact PMono.trans (pmono_addPort _ _ _ _ _) (pmono_growPort _ _ _ _)

theorem pm_declFormals {model : String} (l : List (String × String)) :
    ∀ {st st' : St}, declFormals st model l = Except.ok st' → PMono st st' := by
  induction l with
  | nil => intro st st' h; cases h; exact PMono.refl _
  | cons fa r ih =>
    intro st st' h
    unfold declFormals at h
    obtain ⟨s1, h1, h2⟩ := bind_ok h
    exact PMono.trans (pm_declFormal h1) (ih h2)

theorem pm_applyInfo {idx : Nat} {parent : String} (l : List InfoStmt) :
    ∀ {st st' : St}, applyInfo st idx parent l = Except.ok st' → PMono st st' := by
  induction l with
  | nil => intro st st' h; cases h; exact PMono.refl _
  | cons x r ih =>
    intro st st' h
    cases x with
    | cname n =>
      unfold applyInfo at h
      obtain ⟨s1, h1, h2⟩ := bind_ok h
      refine PMono.trans (PMono.trans ?_ (pm_renameStrict h1)) (ih h2)
      exact PMono.of_defs rfl
    | attr k v =>
      unfold applyInfo at h
      refine PMono.trans ?_ (ih h)
      exact PMono.of_defs rfl
    | param k v =>
      unfold applyInfo at h
      refine PMono.trans ?_ (ih h)
      exact PMono.of_defs rfl

theorem pm_addLatchPorts (l : List String) : ∀ st : St, PMono st (addLatchPorts st l) := by
  induction l with
  | nil => intro st; exact PMono.refl _
  | cons o r ih => intro st; exact PMono.trans (pmono_addPort _ _ _ _ _) (ih _)

theorem pm_addNamesPorts (st : St) (dn : String) (k : Nat) : PMono st (addNamesPorts st dn k) := by
  unfold addNamesPorts
  refine PMono.trans ?_ (pmono_addPort _ _ _ _ _)
  generalize List.range k = l
  induction l generalizing st with
  | nil => exact PMono.refl _
  | cons o r ih => exact PMono.trans (pmono_addPort _ _ _ _ _) (ih _)

theorem pm_checkHierarchy (st : St) (c d : String) : PMono st (checkHierarchy st c d) := by
  unfold checkHierarchy; split <;> exact PMono.of_defs rfl

theorem pm_ensureWire (st : St) (o n : String) (i : Nat) : PMono st (ensureWire st o n i) := by
  apply PMono.of_defs
  unfold ensureWire ensureCable; simp only []; split <;> split <;> rfl

theorem pm_elabStmt {st st' : St} {cur : String} {s : Stmt} (h : elabStmt st cur s = Except.ok st') : PMono st st' := by
  cases s with
  | subckt gate model conns info =>
    unfold elabStmt at h
    simp only [] at h
    obtain ⟨s1, h1, h⟩ := bind_ok h
    obtain ⟨s2, h2, h⟩ := bind_ok h
    refine PMono.trans (pm_checkHierarchy _ _ _) (PMono.trans (pmono_ensureDef _ _) (PMono.trans (pm_declFormals conns h1) ?_))
    refine PMono.trans ?_ (PMono.trans (pm_connectAll _ h2) (pm_applyInfo info h))
    exact PMono.of_defs rfl
  | names nets covers info =>
    unfold elabStmt at h
    simp only [] at h
    split at h
    · cases h
    · obtain ⟨s1, h1, h⟩ := bind_ok h
      obtain ⟨s2, h2, h⟩ := bind_ok h
      refine PMono.trans (pmono_ensureDef st ("logic-gate_" ++ natStr (nets.length - 1)))
        (PMono.trans (pm_addNamesPorts _ ("logic-gate_" ++ natStr (nets.length - 1)) (nets.length - 1)) ?_)
      have e1 : PMono (addNamesPorts (ensureDef st ("logic-gate_" ++ natStr (nets.length - 1))) ("logic-gate_" ++ natStr (nets.length - 1)) (nets.length - 1)) s1 := by
        split at h1
        · cases h1; exact PMono.of_defs rfl
        · refine PMono.trans ?_ (pm_rename h1)
          exact PMono.of_defs rfl
      exact PMono.trans e1 (PMono.trans (pm_connectAll _ h2) (pm_applyInfo info h))
  | latch toks info =>
    unfold elabStmt at h
    simp only [] at h
    split at h
    · cases h
    · obtain ⟨s1, h1, h⟩ := bind_ok h
      obtain ⟨s2, h2, h⟩ := bind_ok h
      refine PMono.trans (pmono_ensureDef st "generic-latch")
        (PMono.trans (pm_addLatchPorts (List.map (·.1) (latchOrder.zip toks)) _) ?_)
      refine PMono.trans (PMono.trans ?_ (pm_rename h1)) (PMono.trans (pm_connectAll _ h2) (pm_applyInfo info h))
      exact PMono.of_defs rfl
  | conn a b =>
    unfold elabStmt at h
    obtain ⟨⟨n1, i1⟩, _, h⟩ := bind_ok h
    obtain ⟨⟨n2, i2⟩, _, h⟩ := bind_ok h
    simp only [] at h
    cases h
    refine PMono.trans (pm_ensureWire st cur n1 i1) (PMono.trans (pm_ensureWire _ cur n2 i2) (PMono.of_defs ?_))
    unfold mergeKeys; simp only []; split <;> rfl
  | blackbox =>
    unfold elabStmt at h
    cases h
    exact PMono.trans (PMono.of_defs (b := clearOwner st cur) rfl)
      (pmono_updDef_keep _ _ _ (fun _ => ⟨rfl, rfl⟩))

theorem pm_elabStmts {cur : String} (l : List Stmt) :
    ∀ {st st' : St}, elabStmts st cur l = Except.ok st' → PMono st st' := by
  induction l with
  | nil => intro st st' h; cases h; exact PMono.refl _
  | cons s r ih =>
    intro st st' h
    unfold elabStmts at h
    obtain ⟨s1, h1, h2⟩ := bind_ok h
    exact PMono.trans (pm_elabStmt h1) (ih h2)

theorem pm_elabInput {st st' : St} {cur tok : String} (h : elabInput st cur tok = Except.ok st') : PMono st st' := by
  unfold elabInput at h
  obtain ⟨⟨pn, pi⟩, _, h⟩ := bind_ok h
  simp only [] at h
  cases h
  refine PMono.trans ?_ (PMono.trans (pmono_growPort _ _ _ _) (pm_connect _ _ _ _ _))
  split
  · exact pmono_setDir _ _ _ _
  · exact pmono_addPort _ _ _ _ _

theorem pm_elabOutput {st st' : St} {cur tok : String} (h : elabOutput st cur tok = Except.ok st') : PMono st st' := by
  unfold elabOutput at h
  obtain ⟨⟨pn, pi⟩, _, h⟩ := bind_ok h
  simp only [] at h
  split at h
  · cases h
    exact PMono.trans (pmono_addPort _ _ _ _ _) (PMono.trans (pmono_setDir _ _ _ _) (pmono_growPort _ _ _ _))
  · cases h
    exact PMono.trans (pmono_addPort _ _ _ _ _) (PMono.trans (pmono_setDir _ _ _ _)
      (PMono.trans (pmono_growPort _ _ _ _) (pm_connect _ _ _ _ _)))

theorem pm_elabToks (f : St → String → String → Except Err St)
    (hf : ∀ {st st' : St} {cur tok : String}, f st cur tok = Except.ok st' → PMono st st')
    {cur : String} (l : List String) :
    ∀ {st st' : St}, elabToks f st cur l = Except.ok st' → PMono st st' := by
  induction l with
  | nil => intro st st' h; cases h; exact PMono.refl _
  | cons t r ih =>
    intro st st' h
    unfold elabToks at h
    obtain ⟨s1, h1, h2⟩ := bind_ok h
    exact PMono.trans (hf h1) (ih h2)

theorem pm_elabHdrs {cur : String} (l : List Hdr) :
    ∀ {st st' : St}, elabHdrs st cur l = Except.ok st' → PMono st st' := by
  induction l with
  | nil => intro st st' h; cases h; exact PMono.refl _
  | cons x r ih =>
    intro st st' h
    unfold elabHdrs at h
    obtain ⟨s1, h1, h2⟩ := bind_ok h
    refine PMono.trans ?_ (ih h2)
    cases x with
    | inputs l => exact pm_elabToks elabInput (fun h => pm_elabInput h) l h1
    | outputs l => exact pm_elabToks elabOutput (fun h => pm_elabOutput h) l h1
    | clock l => unfold elabHdr at h1; cases h1; exact pmono_updDef_keep _ _ _ (fun _ => ⟨rfl, rfl⟩)

theorem pm_beginModel (st : St) (n : String) : PMono st (beginModel st n) := by
  have e : PMono st (updDef (ensureDef st n) n (fun d => { d with declared := true })) :=
    PMono.trans (pmono_ensureDef _ _) (pmono_updDef_keep _ _ _ (fun _ => ⟨rfl, rfl⟩))
  unfold beginModel
  simp only []
  split
  · exact PMono.trans e (PMono.of_defs rfl)
  · exact PMono.trans e (PMono.of_defs rfl)

theorem pm_elabModels (ms : List Model) :
    ∀ {st st' : St}, elabModels st ms = Except.ok st' → PMono st st' := by
  induction ms with
  | nil => intro st st' h; cases h; exact PMono.refl _
  | cons m r ih =>
    intro st st' h
    unfold elabModels at h
    obtain ⟨s1, h1, h2⟩ := bind_ok h
    refine PMono.trans ?_ (ih h2)
    unfold elabModel at h1
    obtain ⟨sh, g1, g2⟩ := bind_ok h1
    exact PMono.trans (pm_beginModel _ _) (PMono.trans (pm_elabHdrs _ g1) (pm_elabStmts _ g2))

end Spydr.Eblif
