/-
  C18 -- EBLIF files are read faithfully and survive write-then-read.
  Property theorems over the model (`Spydr/Eblif/Model*.lean`).  All are for ALL inputs/states;
  none bounds sizes.  `Joined st p k` = pin p is on the wire that net bit k = (model, name, index)
  stands for; `Live st k` = the cable of k exists with more than `index` wires; `Ext a b` = what is
  joined / merged / live in a stays so in b.
-/
import Spydr.Eblif.LemmasParse
import Spydr.Eblif.LemmasRender
import Spydr.Eblif.LemmasInst
import Spydr.Eblif.LemmasLive
import Spydr.Eblif.LemmasHdr
import Spydr.Eblif.ModelCompose

namespace Spydr.Eblif

/-! ## tokenizer -/

/-- printing a token list (words without blanks, no lone backslash, last line terminated) and
    lexing it gives the tokens back -/
theorem lexB_printB (ts : List Tok) (hg : ∀ t ∈ ts, GoodTok t) (hb : ∀ t ∈ ts, t ≠ bsl)
    (ht : Terminated ts) : lexB (printB ts) = ts := by
  unfold lexB
  rw [lexGo_printB ts hg ht false (fun _ => rfl), joinCont_id ts hb]

example : lexB (printB [Tok.word ".model", Tok.word "top", Tok.nl, Tok.word ".inputs", Tok.word "a[0]", Tok.nl])
    = [Tok.word ".model", Tok.word "top", Tok.nl, Tok.word ".inputs", Tok.word "a[0]", Tok.nl] := by decide

theorem terminated_append_nl (a b : List Tok) (hb : Terminated b) : Terminated (a ++ Tok.nl :: b) := by
  intro t ht
  rw [List.getLast?_append] at ht
  cases b with
  | nil => simp at ht; exact ht.symm
  | cons x r =>
    have : (Tok.nl :: x :: r).getLast? = (x :: r).getLast? := by simp [List.getLast?_cons_cons]
    rw [this] at ht
    cases hx : (x :: r).getLast? with
    | none => simp at hx
    | some y => rw [hx] at ht; simp at ht; subst ht; exact hb y hx

/-- line continuation: a `\` at the end of a line joins it with the next one -/
theorem lexB_continuation (a b : List Tok) (ha : ∀ t ∈ a, GoodTok t ∧ t ≠ bsl) (hb : ∀ t ∈ b, GoodTok t)
    (hab : Terminated (a ++ b)) (htb : Terminated b) :
    lexB (printB (a ++ bsl :: Tok.nl :: b)) = lexB (printB (a ++ b)) := by
  unfold lexB
  have hgood : ∀ t ∈ a ++ bsl :: Tok.nl :: b, GoodTok t := by
    intro t ht
    simp only [List.mem_append, List.mem_cons] at ht
    rcases ht with h | h | h | h
    · exact (ha t h).1
    · subst h; exact goodWord_bsl
    · subst h; trivial
    · exact hb t h
  have hterm : Terminated (a ++ bsl :: Tok.nl :: b) := by
    have := terminated_append_nl (a ++ [bsl]) b htb
    simpa using this
  rw [lexGo_printB _ hgood hterm false (fun h => by simp at h)]
  rw [lexGo_printB (a ++ b) (fun t ht => by
        rcases List.mem_append.mp ht with h | h
        · exact (ha t h).1
        · exact hb t h) hab false (fun h => rfl)]
  exact joinCont_skip a b (fun t ht => (ha t ht).2) Tok.nl

example : lexB ".subckt B I=a \\\nO=y\n".toList = lexB ".subckt B I=a O=y\n".toList := by decide

/-- a comment line (first word `#`) anywhere but between the rows of a truth table adds its text
    to the comment list and changes nothing else of what is parsed -/
theorem parse_comment_line (l1 l2 : List (List String)) (ws : List String)
    (h : (l1.foldl pstep {}).mode ≠ Mode.covers) :
    parseLines (l1 ++ ("#" :: ws) :: l2) =
      (parseLines (l1 ++ l2)).map (fun a =>
        { a with comments := a.comments.take (l1.foldl pstep {}).comments.length
                              ++ commentText ws :: a.comments.drop (l1.foldl pstep {}).comments.length }) :=
  parseLines_comment l1 l2 ws h

example : (match parseB (lexB ".model t\n.subckt B I=a\n# note\n.cname u1\n.end\n".toList) with
           | Except.ok a => some (a.comments, a.models) | _ => none)
    = (match parseB (lexB ".model t\n.subckt B I=a\n.cname u1\n.end\n".toList) with
       | Except.ok a => some (["note "], a.models) | _ => none) := by decide

/-! ## reader -/

/-- Every `formal=actual` of a `.subckt`/`.gate` (actual not `unconn`) joins that pin of the new
    instance to net bit (name, index); the cable exists with enough wires (created on demand);
    and this still holds after every later statement of the model that is not `.blackbox`. -/
theorem formal_actual (st st' : St) (cur : String) (pre post : List Stmt) (gate : Bool) (model : String)
    (conns : List (String × String)) (info : List InfoStmt)
    (hpost : ∀ s ∈ post, s ≠ Stmt.blackbox)
    (h : elabStmts st cur (pre ++ Stmt.subckt gate model conns info :: post) = Except.ok st') :
    ∃ stm, elabStmts st cur pre = Except.ok stm ∧
      ∀ fa ∈ infoMapOf conns, ∀ cn ci pn pi, splitIdx fa.2 = Except.ok (cn, ci) →
        splitIdx fa.1 = Except.ok (pn, pi) → cn ≠ "unconn" →
        Joined st' (Pin.inst stm.insts.length pn pi) (cur, cn, ci) ∧ Live st' (cur, cn, ci) := by
  rw [elabStmts_append] at h
  obtain ⟨stm, hpre, h⟩ := bind_ok h
  refine ⟨stm, hpre, ?_⟩
  unfold elabStmts at h
  obtain ⟨s1, h1, h⟩ := bind_ok h
  have hx := ext_elabStmts post hpost h
  intro fa hfa cn ci pn pi e1 e2 hu
  have hj := (elabStmt_subckt h1).2 fa hfa cn ci pn pi e1 e2 hu
  exact ⟨hx.joined _ _ hj.1, hx.live _ hj.2⟩

/-- `formal_actual` read off the materialised netlist (`St.toNet`, what the driver prints and the
    harness compares): the pin is a member of a wire of a cable of the model, namely the wire bit
    (name, index) stands for.  `WF` (the alias table points at live wires) holds for the empty
    state and is kept by every statement (`wf_elabStmts`). -/
theorem formal_actual_net (st st' : St) (cur : String) (pre post : List Stmt) (gate : Bool) (model : String)
    (conns : List (String × String)) (info : List InfoStmt) (w : WF st)
    (hpost : ∀ s ∈ post, s ≠ Stmt.blackbox)
    (h : elabStmts st cur (pre ++ Stmt.subckt gate model conns info :: post) = Except.ok st') :
    ∃ stm, elabStmts st cur pre = Except.ok stm ∧
      ∀ fa ∈ infoMapOf conns, ∀ cn ci pn pi, splitIdx fa.2 = Except.ok (cn, ci) →
        splitIdx fa.1 = Except.ok (pn, pi) → cn ≠ "unconn" →
        ∃ ws wire, (((st'.alias (cur, cn, ci)).1, (st'.alias (cur, cn, ci)).2.1), ws) ∈ st'.toNet.cables ∧
          (st'.alias (cur, cn, ci)).1 = cur ∧
          ws[(st'.alias (cur, cn, ci)).2.2]? = some wire ∧ Pin.inst stm.insts.length pn pi ∈ wire := by
  obtain ⟨stm, hpre, hall⟩ := formal_actual st st' cur pre post gate model conns info hpost h
  have w' : WF st' := wf_elabStmts _ w h
  refine ⟨stm, hpre, ?_⟩
  intro fa hfa cn ci pn pi e1 e2 hu
  obtain ⟨hj, hl⟩ := hall fa hfa cn ci pn pi e1 e2 hu
  obtain ⟨ws, wire, h1, h2, h3⟩ := joined_toNet w' hj hl
  exact ⟨ws, wire, h1, w'.own _, h2, h3⟩

/-- with pairwise different formals, "every formal=actual" is literally every pair of the statement -/
theorem formal_actual_pairs (conns : List (String × String)) (h : (conns.map (·.1)).Nodup) :
    infoMapOf conns = conns := infoMapOf_nodup conns h

def isOk {ε α : Type} : Except ε α → Bool
  | Except.ok _ => true
  | Except.error _ => false

set_option maxRecDepth 20000 in
example : isOk (elabStmts {} "t" ([Stmt.names ["a", "n"] ["1 1"] []] ++
    Stmt.subckt false "B" [("I[1]", "n"), ("O", "y[2]")] [InfoStmt.cname "u1"] :: [Stmt.conn "y[2]" "z"])) = true := by
  decide

/-- `.conn a b`: from then on both bits stand for the same wire, every pin that was on either
    net is on it, and (because of `formal_actual`) so is every pin a later statement joins to
    either name -- until a `.blackbox` strips the model. -/
theorem conn_merges (st st' : St) (cur : String) (pre post : List Stmt) (a b : String)
    (hpost : ∀ s ∈ post, s ≠ Stmt.blackbox)
    (h : elabStmts st cur (pre ++ Stmt.conn a b :: post) = Except.ok st') :
    ∃ n1 i1 n2 i2 stm, splitIdx a = Except.ok (n1, i1) ∧ splitIdx b = Except.ok (n2, i2) ∧
      elabStmts st cur pre = Except.ok stm ∧
      st'.alias (cur, n1, i1) = st'.alias (cur, n2, i2) ∧
      (∀ p, Joined st' p (cur, n1, i1) ↔ Joined st' p (cur, n2, i2)) ∧
      (∀ p, Joined stm p (cur, n1, i1) ∨ Joined stm p (cur, n2, i2) → Joined st' p (cur, n1, i1)) ∧
      Live st' (cur, n1, i1) ∧ Live st' (cur, n2, i2) := by
  rw [elabStmts_append] at h
  obtain ⟨stm, hpre, h⟩ := bind_ok h
  unfold elabStmts at h
  obtain ⟨s1, h1, h⟩ := bind_ok h
  have hx := ext_elabStmts post hpost h
  have hc := ext_elabStmt (by intro hh; cases hh) h1
  obtain ⟨n1, i1, n2, i2, e1, e2, hal, l1, l2⟩ := elabStmt_conn h1
  have hal' := hx.same _ _ hal
  refine ⟨n1, i1, n2, i2, stm, e1, e2, hpre, hal', ?_, ?_, hx.live _ l1, hx.live _ l2⟩
  · intro p; simp only [Joined, hal']
  · intro p hp
    rcases hp with hp | hp
    · exact hx.joined _ _ (hc.joined _ _ hp)
    · have := hx.joined _ _ (hc.joined _ _ hp)
      simpa only [Joined, hal'] using this

set_option maxRecDepth 20000 in
example : (match elabStmts {} "t" [Stmt.subckt false "B" [("O", "n")] [], Stmt.conn "n" "y",
                                   Stmt.subckt false "C" [("I", "y")] []] with
           | Except.ok s => s.pins (s.alias ("t", "y", 0))
           | _ => []) = [Pin.inst 0 "O" 0, Pin.inst 1 "I" 0] := by decide

/-- one instance per `.subckt`/`.gate`/`.names`/`.latch`, with the named (or generated) model and
    the statement's type, in statement order; `.conn`/`.blackbox` add none; existing instances keep
    parent, model and type -/
theorem one_instance_per_stmt (st st' : St) (cur : String) (body : List Stmt)
    (h : elabStmts st cur body = Except.ok st') :
    instKinds st' = instKinds st ++ body.flatMap (stmtKind cur) := ik_elabStmts body h

theorem latchOrder_split : ∀ p ∈ latchOrder, splitIdx p = Except.ok (p, 0) := by
  intro p hp
  simp only [latchOrder, List.mem_cons, List.mem_nil_iff, or_false] at hp
  rcases hp with rfl | rfl | rfl | rfl | rfl <;> rfl

/-- `.names n1 .. nk out` becomes an instance of the generated `logic-gate_k`; every listed net
    (not `unconn`) is joined to the pin of the port it is zipped with (`namesInfo`: the ports of
    `logic-gate_k` in order, i.e. `in_0 .. in_{k-1}, out` when the definition is generated by the
    statement -- see the evaluated example; that the generated names are pairwise different needs
    injectivity of decimal printing, which is not proved).  `.latch` becomes an instance of
    `generic-latch` whose ports are the first fields of (input, output, type, control, init-val);
    each latch field that is not `unconn` is joined to the named net bit. -/
theorem names_latch_shape (st st' : St) (cur : String) :
    (∀ nets covers info, elabStmt st cur (Stmt.names nets covers info) = Except.ok st' →
      instKinds st' = instKinds st ++ [(cur, "logic-gate_" ++ natStr (nets.length - 1), "EBLIF.names")] ∧
      Ext st st' ∧
      ∀ fa ∈ namesInfo st nets, ∀ cn ci pn pi, splitIdx fa.2 = Except.ok (cn, ci) →
        splitIdx fa.1 = Except.ok (pn, pi) → cn ≠ "unconn" →
        Joined st' (Pin.inst st.insts.length pn pi) (cur, cn, ci) ∧ Live st' (cur, cn, ci)) ∧
    (∀ toks info, elabStmt st cur (Stmt.latch toks info) = Except.ok st' →
      instKinds st' = instKinds st ++ [(cur, "generic-latch", "EBLIF.latch")] ∧ Ext st st' ∧
      ∀ pt ∈ latchOrder.zip toks, ∀ cn ci, splitIdx pt.2 = Except.ok (cn, ci) → cn ≠ "unconn" →
        Joined st' (Pin.inst st.insts.length pt.1 0) (cur, cn, ci) ∧ Live st' (cur, cn, ci)) := by
  refine ⟨?_, ?_⟩
  · intro nets covers info h
    exact ⟨by simpa [stmtKind] using ik_elabStmt h, ext_elabStmt (by intro hh; cases hh) h,
      elabStmt_names_joins h⟩
  · intro toks info h
    refine ⟨by simpa [stmtKind] using ik_elabStmt h, ext_elabStmt (by intro hh; cases hh) h, ?_⟩
    intro pt hpt cn ci e1 hu
    unfold elabStmt at h
    simp only [] at h
    split at h
    · cases h
    · obtain ⟨s1, h1, h⟩ := bind_ok h
      obtain ⟨s2, h2, h⟩ := bind_ok h
      rw [newInst_snd] at h2 h
      have hlen : (addLatchPorts (ensureDef st "generic-latch") (List.map (·.1) (latchOrder.zip toks))).insts.length
          = st.insts.length := by
        have := congrArg List.length
          ((ik_addLatchPorts (List.map (·.1) (latchOrder.zip toks)) (ensureDef st "generic-latch")).trans
            (ik_ensureDef st "generic-latch"))
        simpa [instKinds] using this
      have hj := connectAll_joins _ h2 pt hpt cn ci pt.1 0 e1
        (latchOrder_split pt.1 (List.of_mem_zip hpt).1) hu
      rw [hlen] at hj
      have e23 : Ext s2 st' := Ext.of_fields (nf_applyInfo info h)
      exact ⟨e23.joined _ _ hj.1, e23.live _ hj.2⟩

set_option maxRecDepth 20000 in
example : (match elabStmts {} "t" [Stmt.latch ["d", "q"] [], Stmt.names ["a", "b", "y"] ["11 1"] [],
                                   Stmt.latch ["d", "q2", "re", "clk", "0"] []] with
           | Except.ok s => s.defs.map (fun d => (d.name, d.ports.map (fun p => (p.name, p.width))))
           | _ => []) =
    [("generic-latch", [("input", 1), ("output", 1), ("type", 1), ("control", 1), ("init-val", 1)]),
     ("logic-gate_2", [("in_0", 1), ("in_1", 1), ("out", 1)])] := by decide

/-! ## exactness: pins are on a wire only because a statement says so -/

/-- For a body without `.blackbox` elaborated from the empty state: pin `p` is on wire `k` IFF some
    statement declares `p` for a net bit `k'` that `k` stands for (`bodyJoins`: per `.subckt/.gate`
    the dict of formal=actual pairs, per `.latch` the fields zipped with input/output/type/control/
    init-val, per `.names` the ports of its `logic-gate_k` zipped with the nets; `unconn` and
    `.conn` declare nothing).  So no wire carries a pin that was not named for it. -/
theorem pins_exact (cur : String) (body : List Stmt) (st' : St) (hb : ∀ s ∈ body, s ≠ Stmt.blackbox)
    (h : elabStmts {} cur body = Except.ok st') :
    ∀ p k, p ∈ st'.pins k ↔ ∃ k', (p, k') ∈ bodyJoins {} cur body ∧ st'.alias k' = k := by
  have := exact_elabStmts body hb Exact.init h
  simpa [Exact] using this

/-- the same from any state that is exact for a join list `J` (e.g. after the header) -/
theorem pins_exact_from (st st' : St) (J : List (Pin × Key)) (cur : String) (body : List Stmt)
    (hb : ∀ s ∈ body, s ≠ Stmt.blackbox) (e : Exact st J) (h : elabStmts st cur body = Except.ok st') :
    Exact st' (J ++ bodyJoins st cur body) := exact_elabStmts body hb e h

/-- state-free form of the declared joins for bodies without `.names`: instance indices count
    the instance statements -/
theorem pins_exact_closed (cur : String) (body : List Stmt) (st' : St) (hb : ∀ s ∈ body, s ≠ Stmt.blackbox)
    (hn : ∀ s ∈ body, noNames s = true) (h : elabStmts {} cur body = Except.ok st') :
    ∀ p k, p ∈ st'.pins k ↔ ∃ k', (p, k') ∈ declaredJoins 0 cur body ∧ st'.alias k' = k := by
  have e := pins_exact cur body st' hb h
  rw [bodyJoins_closed cur body hn h] at e
  exact e

/-- no pin on two wires: if within each statement no pin is named twice (e.g. not both `A=x` and
    `A[0]=y`), a pin is on at most one wire of the final state -/
theorem no_pin_on_two_wires (cur : String) (body : List Stmt) (st' : St) (hb : ∀ s ∈ body, s ≠ Stmt.blackbox)
    (hn : ∀ s ∈ body, noNames s = true) (hf : ∀ s ∈ body, ∀ n, Functional (stmtPairs n cur s))
    (h : elabStmts {} cur body = Except.ok st') (p : Pin) (k1 k2 : Key)
    (h1 : p ∈ st'.pins k1) (h2 : p ∈ st'.pins k2) : k1 = k2 := by
  have e : Exact st' (declaredJoins 0 cur body) := by
    intro p k; exact pins_exact_closed cur body st' hb hn h p k
  exact exact_one_wire e (declaredJoins_functional cur body hf 0) h1 h2

set_option maxRecDepth 20000 in
example : (match elabStmts {} "t" [Stmt.subckt false "B" [("I", "a"), ("O", "n")] [], Stmt.conn "n" "y",
                                   Stmt.latch ["n", "q"] []] with
           | Except.ok s => (s.pins ("t", "n", 0), s.pins ("t", "y", 0), s.pins ("t", "a", 0), s.pins ("t", "zz", 0))
           | _ => ([], [], [], [])) =
    ([Pin.inst 0 "O" 0, Pin.inst 1 "input" 0], [], [Pin.inst 0 "I" 0], []) := by decide

/-! ## instance data and header ports -/

/-- the `.cname/.attr/.param` lines of a `.subckt/.gate` are attached to the instance it creates
    (last `.cname`; dict semantics for repeated keys) and no later statement touches them -/
theorem info_attached (st st' : St) (cur : String) (pre post : List Stmt) (gate : Bool) (model : String)
    (conns : List (String × String)) (info : List InfoStmt)
    (h : elabStmts st cur (pre ++ Stmt.subckt gate model conns info :: post) = Except.ok st') :
    ∃ stm, elabStmts st cur pre = Except.ok stm ∧
      (st'.insts[stm.insts.length]?).map infoOf = some (infoFold info (none, [], [])) := by
  rw [elabStmts_append] at h
  obtain ⟨stm, hpre, h⟩ := bind_ok h
  refine ⟨stm, hpre, ?_⟩
  unfold elabStmts at h
  obtain ⟨s1, h1, h⟩ := bind_ok h
  have hlen : s1.insts.length = stm.insts.length + 1 := by
    have := congrArg List.length (ik_elabStmt h1); simpa [instKinds, stmtKind] using this
  have := data_elabStmts_old post (j := stm.insts.length) (by omega) h
  rw [elabStmt_subckt_data h1] at this
  exact this

/-- `.inputs word` / `.outputs word` of the model being read: the port exists with the right
    direction (IN; OUT, or INOUT when the word was an input before) and more than `index` pins, and
    its pin is on net bit (model, name, index) -/
theorem hdr_ports (st st' : St) (cur tok pn : String) (pi : Nat) (hd : (findDef st cur).isSome)
    (hs : splitIdx tok = Except.ok (pn, pi)) :
    (elabInput st cur tok = Except.ok st' →
      portDir st' cur pn = Dir.inp ∧ pi < portWidth st' cur pn ∧
      Joined st' (Pin.top cur pn pi) (cur, pn, pi) ∧ Live st' (cur, pn, pi)) ∧
    (elabOutput st cur tok = Except.ok st' →
      pi < portWidth st' cur pn ∧
      ((portDir st' cur pn = Dir.out ∧ Joined st' (Pin.top cur pn pi) (cur, pn, pi) ∧ Live st' (cur, pn, pi)) ∨
       (portDir st' cur pn = Dir.inout ∧
         (portDir (addPort st cur pn Dir.out 0) cur pn = Dir.inp ∨
          portDir (addPort st cur pn Dir.out 0) cur pn = Dir.inout)))) :=
  ⟨elabInput_port hd hs, elabOutput_port hd hs⟩

/-- what the header joined stays joined through the rest of the header and through every body
    statement that is not `.blackbox` -/
theorem hdr_joins_persist (st s1 st' : St) (cur : String) (hdr : List Hdr) (body : List Stmt)
    (hb : ∀ s ∈ body, s ≠ Stmt.blackbox)
    (h1 : elabHdrs st cur hdr = Except.ok s1) (h2 : elabStmts s1 cur body = Except.ok st') : Ext st st' :=
  Ext.trans (ext_elabHdrs hdr h1) (ext_elabStmts body hb h2)

def dirCode : Dir → Nat
  | Dir.inp => 1 | Dir.out => 2 | Dir.inout => 3 | Dir.undef => 0

set_option maxRecDepth 20000 in
example : (match readB ".model t\n.inputs a b[1]\n.outputs y a\n.subckt B I=a O=y\n.cname u1\n.attr k v\n.attr k w\n.end\n".toList with
           | Except.ok n => (n.defs.map (fun d => (d.name, d.ports.map (fun p => (p.name, dirCode p.dir, p.width)))))
           | _ => []) =
    [("t", [("a", 3, 1), ("b", 1, 2), ("y", 2, 1)]), ("B", [("I", 0, 1), ("O", 0, 1)])] := by decide

set_option maxRecDepth 20000 in
example : (match readB ".model t\n.inputs a b[1]\n.outputs y a\n.subckt B I=a O=y\n.cname u1\n.attr k v\n.attr k w\n.end\n".toList with
           | Except.ok n => n.insts.map (fun i => (i.name, i.cname, i.attrs))
           | _ => []) = [("u1", some "u1", [("k", "w")])] := by decide

/-- a model whose body is `.blackbox` ends up as a leaf primitive: no cable, no child, not in
    library `work`, and the pins of its ports are on no wire -/
theorem blackbox_leaf (st st' : St) (m : Model) (hb : m.body = [Stmt.blackbox])
    (hno : ∀ k ∈ instKinds st, k.1 ≠ m.name) (h : elabModel st m = Except.ok st') :
    isLeaf st'.toNet m.name = true ∧ (∀ d ∈ st'.toNet.defs, d.name = m.name → d.inWork = false) ∧
    (∀ k : Key, k.1 = m.name → st'.pins k = []) := by
  unfold elabModel at h
  obtain ⟨s1, h1, h⟩ := bind_ok h
  rw [hb] at h
  unfold elabStmts at h
  obtain ⟨s2, h2, h⟩ := bind_ok h
  unfold elabStmts at h
  cases h
  obtain ⟨hc, hp, hd⟩ := elabStmt_blackbox h2
  have hk : instKinds st' = instKinds st := by
    rw [ik_elabStmt h2, ik_elabHdrs m.hdr h1, ik_beginModel]
    simp [stmtKind]
  refine ⟨?_, hd, hp⟩
  simp only [isLeaf, St.toNet, Bool.and_eq_true, Bool.not_eq_true', List.any_eq_false, List.any_map,
    decide_eq_true_eq, Function.comp]
  constructor
  · intro i hi he
    have : (i.parent, i.model, i.typ) ∈ instKinds st' := List.mem_map.mpr ⟨i, hi, rfl⟩
    rw [hk] at this
    exact hno _ this he
  · intro c hcm he
    exact hc c hcm he

set_option maxRecDepth 20000 in
example : (match readB ".model t\n.inputs a\n.subckt B I=a\n.end\n.model B\n.inputs I\n.blackbox\n.end\n".toList with
           | Except.ok n => (isLeaf n "B", n.defs.map (fun d => (d.name, d.inWork)), n.cables.map (·.1))
           | _ => (false, [], [])) = (true, [("t", true), ("B", false)], [("t", "a")]) := by decide

/-! ## stretch goals (partial)

Full statements (not proved):

  theorem eblif_reader_spec (d : Design) (hd : WellNamed d) :
      elabB (parseB (lexB (render d))) = Except.ok (denote d)
  theorem eblif_roundtrip (o : Opts) (a : BAst) (n : BNet) (h : elabB a = Except.ok n) (hflat : Flat n) :
      ∃ n', readB (composeText o n) = Except.ok n' ∧ SameInstancesTypesDataNets o n n'

What is proved of `eblif_reader_spec`: the character layer -- reading the printed form of a token
list is parsing and elaborating that token list (`lexB` undoes the printer; continuation and
comment lines are the two theorems above) -- and, for every statement list, what the elaborator
makes of it (`formal_actual`, `conn_merges`, `one_instance_per_stmt`, `names_latch_shape`,
`blackbox_leaf`), and the parser half for instance statements (`parse_rendered_subckt`).  Missing: a
Lean `render`/`denote` for whole designs and the parser half for `.names` (truth-table rows),
`.latch`, `.conn`, headers and model boundaries.
What is proved of `eblif_roundtrip`: the text `composeB` prints is read back as its token list
(so the second read is `parseB (composeB o n) >>= elabB`).  Missing: that those tokens parse to
statements equivalent to the ones `n` came from, and the resulting equality of instance kinds,
data and pin sets.  Both missing halves are covered by the correspondence check only. -/

/-- parser half of the reader specification for the statements `formal_actual` is about: the
    lines `.subckt|.gate model f1=a1 ..` + `.cname/.attr/.param` lines (formals without `=`), met
    while a model is open, parse to exactly `Stmt.subckt gate model [(f1,a1),..] info`, appended
    to the model's body; nothing else of the parser state changes. -/
theorem parse_rendered_subckt (s : PSt) (c : Model) (hc : s.cur = some c) (he : s.err = none)
    (hm : s.mode = Mode.body ∨ s.mode = Mode.info ∨ s.mode = Mode.header)
    (gate : Bool) (m : String) (conns : List (String × String)) (info : List InfoStmt)
    (hcs : ∀ x ∈ conns, '=' ∉ x.1.toList) :
    (subcktLines gate m conns info).foldl pstep s =
      { s with cur := some { c with body := c.body ++ [Stmt.subckt gate m conns info] }, mode := Mode.info } :=
  parse_subckt_lines s c hc he hm gate m conns info hcs

example : (match parseLines ([[".model", "t"], [".inputs", "a"]] ++
      subcktLines false "B" [("I[1]", "a"), ("O", "y")] [InfoStmt.cname "u1", InfoStmt.param "INIT" "01"] ++ [[".end"]]) with
    | Except.ok a => a.models.map (·.body)
    | _ => []) = [[Stmt.subckt false "B" [("I[1]", "a"), ("O", "y")] [InfoStmt.cname "u1", InfoStmt.param "INIT" "01"]]] := by
  decide

theorem eblif_reader_spec_partial (ts : List Tok) (hg : ∀ t ∈ ts, GoodTok t) (hb : ∀ t ∈ ts, t ≠ bsl)
    (ht : Terminated ts) : readB (printB ts) = (parseB ts >>= elabB) := by
  unfold readB
  rw [lexB_printB ts hg hb ht]

theorem terminated_linesToToks (ls : List (List String)) : Terminated (linesToToks ls) := by
  induction ls with
  | nil => intro t ht; simp [linesToToks] at ht
  | cons l r ih =>
    have : linesToToks (l :: r) = l.map Tok.word ++ Tok.nl :: linesToToks r := by
      simp [linesToToks]
    rw [this]
    exact terminated_append_nl _ _ ih

theorem eblif_roundtrip_partial (o : Opts) (n : BNet)
    (hg : ∀ t ∈ composeB o n, GoodTok t ∧ t ≠ bsl) :
    readB (composeText o n) = (parseB (composeB o n) >>= elabB) := by
  unfold composeText
  exact eblif_reader_spec_partial _ (fun t ht => (hg t ht).1) (fun t ht => (hg t ht).2)
    (terminated_linesToToks _)

set_option maxRecDepth 20000 in
example : (match readB ".model t\n.inputs a\n.outputs y\n.subckt B I=a O=n\n.conn n y\n.end\n".toList with
           | Except.ok n => (match readB (composeText {} n) with
                             | Except.ok n' => n'.cables == n.cables && n'.insts.map (·.model) == n.insts.map (·.model)
                             | _ => false)
           | _ => false) = true := by decide

end Spydr.Eblif
