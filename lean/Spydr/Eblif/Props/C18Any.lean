/-
  C18, proof side, tenth part: write-then-read for the writer's output on flat designs, for ANY order
  of the instances (the statements of an EBLIF file need not come in the writer's category order).

  Compared by the conclusion: instance kinds (parent, model, EBLIF.type) and order, `.cname/.attr/.param`
  data, the truth tables of `.names` instances, the pins on every net bit, the top model's port list.
  NOT compared (see docs/eblif.md): `Inst.unconn`, instance names when `write_eblif_cname` is off, the
  ports of non-top definitions beyond `eblif_roundtrip_leaf_ports` (port/bit sets when no pin dangles;
  directions are not compared), netlist
  name / top / comments / `.clock`.
-/
import Spydr.Eblif.DefsDir

namespace Spydr.Eblif

open Spydr.Eblif.Any

/-- **Round trip, whole writer output, any instance order, total form.**  As `eblif_roundtrip_full`,
    but the instances of `n` may stand in any order (`NetOKA`: the children the writer writes,
    `kidsFull n t` = subckt, gate, names, latch children each in instance order, are a permutation of
    all instances).  The reader accepts the composed text; the result has the instances in WRITER
    order (`kidsFull n t`) with the same kinds and data, the top model's ports, and exactly the same
    pins on every net bit up to the renaming of instance indices to writer positions
    (`Renames (kidsFull n t) x y`: a top-level pin is itself, pin (idx, port, bit) of `n` is pin
    (j, port, bit) where `(kidsFull n t)[j]` is instance `idx`). -/
theorem eblif_roundtrip_any_order (o : Opts) (n : BNet) (t : String) (hw : WellNamed n) (hf : FragFull n t)
    (hn : NetOKA n t) (hnm : NamesOK o n) (hbp : BBPlain n t) :
    ∃ n', readB (composeText o n) = Except.ok n' ∧
      n'.insts.map kindOf = (kidsFull n t).map (fun k => kindOf k.1) ∧
      (∀ j : Nat, (n'.insts[j]?).map infoOf =
        ((kidsFull n t)[j]?).map (fun k => (if o.writeCname then some k.1.name else none, k.1.attrs, k.1.params))) ∧
      (∀ y k, OnNet n' y k ↔ ∃ x, Renames (kidsFull n t) x y ∧ OnNet n x k) ∧
      (n'.findDef t).ports = insPorts (n.findDef t) ++ pureOuts (n.findDef t) ∧
      n'.insts.map (·.covers) = (kidsFull n t).map covOfKid := by
  obtain ⟨n', h, a, b, c, d⟩ := roundtrip_any o n t hw hf hn hnm hbp
  exact ⟨n', h, a, b, c, d, roundtrip_covers o n t hw hf n' h⟩

/-- the truth tables: `covOfKid k` is the child's own `covers` when `n` stores cover rows the way the
    reader does (`CoversNF`, decidable: words joined by single blanks, none on non-`.names` instances) -/
theorem eblif_roundtrip_covers (o : Opts) (n : BNet) (t : String) (hw : WellNamed n) (hf : FragFull n t)
    (hc : CoversNF n) (n' : BNet) (h : readB (composeText o n) = Except.ok n') :
    n'.insts.map (·.covers) = (kidsFull n t).map (fun k => k.1.covers) := by
  rw [roundtrip_covers o n t hw hf n' h]
  apply List.map_congr_left
  intro k hk
  have hm : k ∈ n.insts.zipIdx := by
    unfold kidsFull at hk
    simp only [List.mem_append, List.mem_filter] at hk
    rcases hk with ((h | h) | h) | h <;> exact h.1.1
  exact covOfKid_nf n hc k (mem_zipIdx_fst hm)

/-- **truth tables are read faithfully, all inputs** -/
theorem eblif_covers_read (text : List Char) (n : BNet) (h : readB text = Except.ok n) :
    ∃ a, parseB (lexB text) = Except.ok a ∧
      n.insts.map (·.covers) = a.models.flatMap (fun m => m.body.flatMap stmtCov) := covers_read text n h

/-- **whatever the reader accepts is self-contained** -- text level, all inputs -/
theorem eblif_self_contained_text (text : List Char) (n : BNet) (h : readB text = Except.ok n) :
    (n.defs.map (·.name)).Nodup ∧
    (∀ i ∈ n.insts, (∃ d ∈ n.defs, d.name = i.model) ∧ ∃ d ∈ n.defs, d.name = i.parent ∧ d.declared = true) ∧
    (∀ c ∈ n.cables, ∃ d ∈ n.defs, d.name = c.1.1 ∧ d.declared = true) := self_contained_text text n h

theorem eblif_undeclared_leaf_text (text : List Char) (n : BNet) (h : readB text = Except.ok n)
    (d : DefD) (hd : d ∈ n.defs) (hu : d.declared = false) : isLeaf n d.name = true ∧ d.inWork = false :=
  undeclared_leaf_text text n h d hd hu

/-- exact connectivity, text level.  `modelsAcc` is threaded through the elaborator (computed alongside
    `elabModel`); it is a bookkeeping of the declared joins, not an independent specification. -/
theorem eblif_onNet_exact_text (text : List Char) (n : BNet) (h : readB text = Except.ok n) :
    ∃ a st, parseB (lexB text) = Except.ok a ∧ elabModels {} a.models = Except.ok st ∧
      ∀ p k, OnNet n p k ↔ ∃ k', (p, k') ∈ modelsAcc {} [] a.models ∧ st.alias k' = k := onNet_exact_text text n h

/-- the order-preserving case is a special case of the hypotheses -/
theorem netOKA_of_netOKF (n : BNet) (t : String) (h : NetOKF n t) : NetOKA n t :=
  ⟨by rw [h.1], h.2⟩

/-- non-vacuity: `exFull` with its instances in the order names, latch, gate, subckt -/
def exAny : BNet :=
  { exFull with
    insts := [{ parent := "t", name := "g1", model := "logic-gate_2", typ := "EBLIF.names", covers := some ["11 1"],
                pins := [("in_0", 0), ("in_1", 0), ("out", 0)] },
              { parent := "t", name := "l1", model := "generic-latch", typ := "EBLIF.latch",
                pins := [("input", 0), ("output", 0), ("type", 0), ("control", 0)] },
              { parent := "t", name := "g2", model := "G", typ := "EBLIF.gate", cname := some "g2",
                params := [("p", "1")], pins := [("X", 0), ("X", 1), ("Y", 0)] },
              { parent := "t", name := "u1", model := "B", typ := "EBLIF.subckt", cname := some "u1",
                attrs := [("k", "v")], pins := [("I", 0), ("O", 0)] }],
    cables := [(("t", "a"), [[Pin.top "t" "a" 0, Pin.inst 3 "I" 0, Pin.inst 0 "in_0" 0]]),
               (("t", "b"), [[Pin.top "t" "b" 0, Pin.inst 2 "X" 0], [Pin.top "t" "b" 1, Pin.inst 2 "X" 1]]),
               (("t", "io"), [[Pin.top "t" "io" 0, Pin.inst 0 "in_1" 0]]),
               (("t", "w"), [[Pin.inst 3 "O" 0, Pin.inst 1 "input" 0]]),
               (("t", "gy"), [[Pin.inst 2 "Y" 0]]),
               (("t", "n1"), [[Pin.inst 0 "out" 0, Pin.top "t" "y" 0]]),
               (("t", "q"), [[Pin.inst 1 "output" 0, Pin.top "t" "q" 0]]),
               (("t", "re"), [[Pin.inst 1 "type" 0]]),
               (("t", "clk"), [[Pin.inst 1 "control" 0]])] }

set_option maxRecDepth 100000 in
set_option maxHeartbeats 4000000 in
example : WellNamed exAny ∧ NetOKA exAny "t" ∧ ¬ NetOKF exAny "t" ∧ NamesOK {} exAny ∧ BBPlain exAny "t" := by decide

set_option maxRecDepth 100000 in
set_option maxHeartbeats 4000000 in
example : (kidsFull exAny "t").map (·.2) = [3, 2, 0, 1] ∧ CoversNF exAny ∧ CoversNF exFull := by decide

/-- **the interfaces of the instantiated definitions survive write-then-read**: for every child, the
    definition it instantiates has in the re-read netlist exactly the (port, bit) pairs it has in `n`
    (same port names, same widths); the generated definitions come back with their standard port
    lists, directions included (`logic-gate_k`: in_0..in_{k-1} IN, out OUT; `generic-latch`: the first a
    of input, output, type, control, init-val).  Extra hypotheses, all decidable: the pin mirror of `n` (what
    `pin_mirror` proves for every netlist the reader produces), `LatchSep n t` (`generic-latch` is
    instantiated by `.latch` children only), `BBWide` (ports of black-box definitions have a pin).
    This holds for the REPAIRED reader (`parse_subcircuit_port` gives a port pins up to the formal's
    index also for `unconn` actuals, docs/fixes/eblif_unconn_bus_bit_keeps_width.diff); with the
    original code upper bus bits that are `unconn` on every instance were lost (`exShrink`). -/
theorem eblif_roundtrip_leaf_ports (o : Opts) (n : BNet) (t : String) (hw : WellNamed n) (hf : FragFull n t)
    (hn : NetOKA n t) (hnm : NamesOK o n) (hbp : BBPlain n t) (hpm : n.PinMirror) (hdg : LatchSep n t)
    (hbw : BBWide n t) (n' : BNet) (h : readB (composeText o n) = Except.ok n') :
    (∀ k ∈ kidsFull n t, ∀ pn b,
      (pn, b) ∈ allPins (n'.findDef k.1.model) ↔ (pn, b) ∈ allPins (n.findDef k.1.model)) ∧
    (∀ k ∈ kidsFull n t, k.1.typ = "EBLIF.names" →
      (n'.findDef k.1.model).ports = stdNamesPorts (k.1.pins.length - 1)) ∧
    (∀ k ∈ kidsFull n t, k.1.typ = "EBLIF.latch" →
      ∃ a, a ≤ 5 ∧ (n'.findDef "generic-latch").ports = stdLatchPorts.take a) :=
  roundtrip_leaf_ports o n t hw hf hn hnm hbp hpm hdg hbw n' h

/-- **directions of the definitions `.subckt` / `.gate` children instantiate**: in the re-read netlist
    every port of such a definition has the direction `leafDir` gives its name -- with a black-box
    block written (`write_blackbox` on and the definition among `bbDefs`): OUT for the OUT ports of
    `n`'s definition, IN for its IN ports, UNDEFINED for the others; without one: UNDEFINED.  (So IN /
    OUT directions of black boxes survive exactly when their block is written; INOUT does not.) -/
theorem eblif_roundtrip_leaf_dirs (o : Opts) (n : BNet) (t : String) (hw : WellNamed n) (hf : FragFull n t)
    (hn : NetOKA n t) (hnm : NamesOK o n) (hbp : BBPlain n t) (hpm : n.PinMirror) (hdg : LatchSep n t)
    (n' : BNet) (h : readB (composeText o n) = Except.ok n') :
    ∀ k ∈ kidsFull n t, (k.1.typ = "EBLIF.subckt" ∨ k.1.typ = "EBLIF.gate") →
      ∀ p ∈ (n'.findDef k.1.model).ports, p.dir = leafDir o n t k.1.model p.name :=
  roundtrip_leaf_dirs o n t hw hf hn hnm hbp hpm hdg n' h

set_option maxRecDepth 100000 in
set_option maxHeartbeats 4000000 in
example : exAny.PinMirror ∧ LatchSep exAny "t" ∧ BBWide exAny "t" ∧ exFull.PinMirror ∧ LatchSep exFull "t" ∧ BBWide exFull "t" := by
  decide

/-! ### the regression example of the finding `eblif.unconn-bus-bit-loses-width`

  A leaf definition whose bus port has its upper bits unconnected on every instance: the writer emits
  `J[1]=unconn J[0]=unconn`.  The original `parse_subcircuit_port` gave a port at most one more pin
  per formal and `connect_instance_pins` skips `unconn` actuals, so `J` came back one pin wide.  With
  the repaired reader (which the model follows) the port keeps both pins. -/

def exShrink : BNet :=
  { name := some "t", top := some "t", comments := [],
    defs := [{ name := "t", ports := [{ name := "y", dir := Dir.out, width := 1 }], declared := true },
             { name := "B", ports := [{ name := "J", dir := Dir.undef, width := 2 }, { name := "O", dir := Dir.undef, width := 1 }] }],
    insts := [{ parent := "t", name := "u", model := "B", typ := "EBLIF.subckt", cname := some "u",
                unconn := ["J[0]", "J[1]"], pins := [("J", 0), ("J", 1), ("O", 0)] }],
    cables := [(("t", "y"), [[Pin.inst 0 "O" 0, Pin.top "t" "y" 0]])] }

/-- (port name, width) list of definition `dn` in a read result; empty when the read failed -/
def portsAfter (r : Except Err BNet) (dn : String) : List (String × Nat) :=
  match r with
  | Except.ok n' => (n'.findDef dn).ports.map (fun p => (p.name, p.width))
  | Except.error _ => []

set_option maxRecDepth 100000 in
set_option maxHeartbeats 4000000 in
theorem leaf_port_kept :
    WellNamed exShrink ∧ NetOKA exShrink "t" ∧ NamesOK {} exShrink ∧ BBPlain exShrink "t" ∧ exShrink.PinMirror ∧
    BBWide exShrink "t" ∧ LatchSep exShrink "t" ∧
    ((exShrink.findDef "B").ports.map (fun p => (p.name, p.width)) = [("J", 2), ("O", 1)]) ∧
    portsAfter (readB (composeText {} exShrink)) "B" = [("J", 2), ("O", 1)] := by decide

theorem exShrink_frag : FragFull exShrink "t" := by
  refine ⟨rfl, by decide, by decide, by decide, ?_⟩
  intro i hi r hr
  have hall : ∀ i ∈ exShrink.insts, coverRows i = [] := by decide
  rw [hall i hi] at hr
  cases hr

end Spydr.Eblif
