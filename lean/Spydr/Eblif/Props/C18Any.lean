/-
  C18, proof side, tenth part: write-then-read for everything the writer emits, for ANY order of the
  instances (the statements of an EBLIF file need not come in the writer's category order).
-/
import Spydr.Eblif.AnyMain

namespace Spydr.Eblif

open Spydr.Eblif.Any

/-- **Round trip, whole writer output, any instance order, total form.**  As `eblif_roundtrip_full`,
    but the instances of `n` may stand in any order (`NetOKA`: the children the writer writes,
    `kidsFull n t` = subckt, gate, names, latch children each in instance order, are a permutation of
    all instances).  The reader accepts the composed text; the result has the instances in WRITER
    order (`kidsFull n t`) with the same kinds and data, the top model's ports, and exactly the same
    pins on every net bit up to the renaming of instance indices to writer positions
    (`Renames (kidsFull n t) x y`: a top-level pin is itself, pin (idx, port, bit) of `n` is pin
    (j, port, bit) where `(kidsFull n t)[j]` is instance `idx`). -/
theorem eblif_roundtrip_any_order (o : Opts) (n : BNet) (t : String) (hw : WellNamed n) (hf : FragFull n t)
    (hn : NetOKA n t) (hnm : NamesOK o n) (hbp : BBPlain n t) :
    ∃ n', readB (composeText o n) = Except.ok n' ∧
      n'.insts.map kindOf = (kidsFull n t).map (fun k => kindOf k.1) ∧
      (∀ j : Nat, (n'.insts[j]?).map infoOf =
        ((kidsFull n t)[j]?).map (fun k => (if o.writeCname then some k.1.name else none, k.1.attrs, k.1.params))) ∧
      (∀ y k, OnNet n' y k ↔ ∃ x, Renames (kidsFull n t) x y ∧ OnNet n x k) ∧
      (n'.findDef t).ports = insPorts (n.findDef t) ++ pureOuts (n.findDef t) :=
  roundtrip_any o n t hw hf hn hnm hbp

/-- the order-preserving case is a special case of the hypotheses -/
theorem netOKA_of_netOKF (n : BNet) (t : String) (h : NetOKF n t) : NetOKA n t :=
  ⟨by rw [h.1], h.2⟩

/-- non-vacuity: `exFull` with its instances in the order names, latch, subckt -/
def exAny : BNet :=
  { exFull with
    insts := [{ parent := "t", name := "g1", model := "logic-gate_2", typ := "EBLIF.names", covers := some ["11 1"],
                pins := [("in_0", 0), ("in_1", 0), ("out", 0)] },
              { parent := "t", name := "l1", model := "generic-latch", typ := "EBLIF.latch",
                pins := [("input", 0), ("output", 0), ("type", 0), ("control", 0)] },
              { parent := "t", name := "u1", model := "B", typ := "EBLIF.subckt", cname := some "u1",
                attrs := [("k", "v")], pins := [("I", 0), ("O", 0)] }],
    cables := [(("t", "a"), [[Pin.top "t" "a" 0, Pin.inst 2 "I" 0, Pin.inst 0 "in_0" 0]]),
               (("t", "io"), [[Pin.top "t" "io" 0, Pin.inst 0 "in_1" 0]]),
               (("t", "w"), [[Pin.inst 2 "O" 0, Pin.inst 1 "input" 0]]),
               (("t", "n1"), [[Pin.inst 0 "out" 0, Pin.top "t" "y" 0]]),
               (("t", "q"), [[Pin.inst 1 "output" 0, Pin.top "t" "q" 0]]),
               (("t", "re"), [[Pin.inst 1 "type" 0]]),
               (("t", "clk"), [[Pin.inst 1 "control" 0]])] }

set_option maxRecDepth 100000 in
set_option maxHeartbeats 4000000 in
example : WellNamed exAny ∧ NetOKA exAny "t" ∧ ¬ NetOKF exAny "t" ∧ NamesOK {} exAny ∧ BBPlain exAny "t" := by decide

set_option maxRecDepth 100000 in
set_option maxHeartbeats 4000000 in
example : (kidsFull exAny "t").map (·.2) = [2, 0, 1] := by decide

end Spydr.Eblif
