/-
  C18, proof side, fifth part: write-then-read with the black-box block (the default options of
  the writer), total form.
-/
import Spydr.Eblif.BBOk

namespace Spydr.Eblif

/-- the composed lines of the fragment (black-box block included) parse to the explicit AST `astOfB`:
    the top model followed by one `.blackbox` model per written leaf definition -/
theorem parse_composed_lines_bb (o : Opts) (n : BNet) (t : String) (hf : FragB n t) :
    parseLines (composeLines o n) = Except.ok (astOfB o n t) := parse_composeLines_bb o n t hf

/-- **Round trip for either value of `write_blackbox`, total form.**  For a well-named netlist of the
    `.subckt`/`.gate` fragment in reader shape (`FragB`, `NetOK`, `NamesOK`, `BBPlain`, no child
    instantiating the top model -- all decidable), `readB` accepts the text `composeB` writes, and
    the result has the same instances (parent, model, type, order), the same `.attr`/`.param`/`.cname`
    data, exactly the same pins on every net bit, and the top model has `n`'s ports (inputs then
    outputs).  The `.model … .blackbox .end` blocks written for the used leaf definitions change
    nothing of this. -/
theorem eblif_roundtrip_blackbox (o : Opts) (n : BNet) (t : String) (hw : WellNamed n) (hf : FragB n t)
    (hn : NetOK n t) (hnm : NamesOK o n) (hbp : BBPlain n t) (hself : ∀ i ∈ n.insts, t ≠ i.model) :
    ∃ n', readB (composeText o n) = Except.ok n' ∧
      n'.insts.map kindOf = n.insts.map kindOf ∧
      (∀ j : Nat, (n'.insts[j]?).map infoOf =
        (n.insts[j]?).map (fun (i : Inst) => (if o.writeCname then some i.name else none, i.attrs, i.params))) ∧
      (∀ x k, OnNet n' x k ↔ OnNet n x k) ∧
      (n'.findDef t).ports = insPorts (n.findDef t) ++ outsPorts (n.findDef t) := by
  obtain ⟨n', h⟩ := read_ok_bb o n t hw hf hn hnm hbp
  exact ⟨n', h, roundtrip_subckt_bb o n t hw hf hn hself (fun d hd => (hbp d hd).1) n' h⟩

/-- non-vacuity with the default options: `exNet`'s leaf `B` is written as a black-box block -/
example : FragB exNet "t" := ⟨rfl, by decide, by decide, by decide, by decide, by decide⟩

set_option maxRecDepth 100000 in
set_option maxHeartbeats 2000000 in
example : NamesOK {} exNet ∧ BBPlain exNet "t" ∧ (∀ i ∈ exNet.insts, "t" ≠ i.model) ∧ (bbDefs exNet "t").length = 1 := by decide

/-- elaborating black-box models after the top model keeps instance kinds, instance data, the
    exact join set of the top model and the top model's port list -/
theorem blackbox_models_frame (t : String) (J : List (Pin × Key)) (hJ : ∀ e ∈ J, e.2.1 = t) (ds : List DefD)
    (hne : ∀ d ∈ ds, d.name ≠ t) (s s' : St) (inv : TopInv t J s) (h : elabModels s (ds.map bbModel) = Except.ok s') :
    TopInv t J s' ∧ instKinds s' = instKinds s ∧ (∀ j, dataAt s' j = dataAt s j) ∧ portsOf s' t = portsOf s t :=
  bb_models_fold t J hJ ds hne inv h

end Spydr.Eblif
