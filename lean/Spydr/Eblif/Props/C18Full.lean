/-
  C18, proof side, ninth part: write-then-read in total form for the writer's output on flat designs:
  `.subckt` / `.gate` / `.names` / `.latch` children, IN / OUT / INOUT top ports, `.clock`, `.conn`
  lines for port pins on differently named nets, black-box block (either value of the options).
  The conclusion compares instance kinds and order, `.cname/.attr/.param` data, the pins on every net
  bit and the top model's port list (truth tables: see Props/C18Any.lean; not compared: `unconn`,
  names without `.cname`, ports of non-top definitions, netlist name / top / comments / `.clock`).
-/
import Spydr.Eblif.FullMain

namespace Spydr.Eblif

/-- **Round trip, whole writer output, total form.**  For a well-named netlist (`WellNamed`) whose top
    model is in `work` and whose children are `.subckt`/`.gate`/`.names`/`.latch` instances
    (`FragFull`), in reader shape (`NetOKF`: writer order = instance order; top ports IN/OUT/INOUT with
    every pin on a wire; every pin occurrence on exactly one wire of a cable of the top model; a port
    bit whose pin sits on another net names no net of its own; per-kind shape of the children),
    with pairwise different written names (`NamesOK`) and plain black-box ports (`BBPlain`) -- all
    decidable except the cover-row clause of `FragFull` -- the reader ACCEPTS the text the writer
    composes, for either value of `write_blackbox` / `write_eblif_cname`, and the result has
    * the same instances in the same order with the same (parent, model, EBLIF.type),
    * the same `.attr` / `.param` data and `EBLIF.cname` = written name (none when not written),
    * exactly the same pins on every net bit (`OnNet`), `.conn` merges included,
    * the top model's ports: `n`'s inputs and inouts in order, then its pure outputs, each with its
      direction and width (identical list when `n` lists them in that order). -/
theorem eblif_roundtrip_full (o : Opts) (n : BNet) (t : String) (hw : WellNamed n) (hf : FragFull n t)
    (hn : NetOKF n t) (hnm : NamesOK o n) (hbp : BBPlain n t) :
    ∃ n', readB (composeText o n) = Except.ok n' ∧
      n'.insts.map kindOf = n.insts.map kindOf ∧
      (∀ j : Nat, (n'.insts[j]?).map infoOf =
        (n.insts[j]?).map (fun (i : Inst) => (if o.writeCname then some i.name else none, i.attrs, i.params))) ∧
      (∀ x k, OnNet n' x k ↔ OnNet n x k) ∧
      (n'.findDef t).ports = insPorts (n.findDef t) ++ pureOuts (n.findDef t) :=
  roundtrip_full o n t hw hf hn hnm hbp

/-- **one written child block, any kind**: re-reading it succeeds, creates one instance of the same
    kind carrying the written data, declares exactly the joins `kidJoinsF` (state-free), keeps the
    alias table, the liveness invariant, the ports of the enclosing model and the standard shape of
    the generated `.names` definitions -/
theorem child_block_step (o : Opts) (n : BNet) (t : String) (hw : WellNamed n)
    (hcab : ∀ c ∈ n.cables, plainName c.1.2 ∧ c.1.2.toList ≠ []) (k : Inst × Nat) (hki : k ∈ n.insts.zipIdx)
    (hs : KidShape n k) (hp : k.1.parent = t) (hne : t ≠ k.1.model)
    (hty : k.1.typ = "EBLIF.subckt" ∨ k.1.typ = "EBLIF.gate" ∨ k.1.typ = "EBLIF.names" ∨ k.1.typ = "EBLIF.latch")
    (st : St) (hlen : st.insts.length = k.2)
    (hx : o.writeCname = true → ∀ j, j ≠ k.2 → (namesOf st)[j]? ≠ some k.1.name)
    (hstd : k.1.typ = "EBLIF.names" → Std st (k.1.pins.length - 1)) (hd : DefEx st t) :
    ∃ st', elabStmt st t (stmtOfFull o n k) = Except.ok st' ∧ st'.insts.length = k.2 + 1 ∧
      (o.writeCname = true → namesOf st' = namesOf st ++ [k.1.name]) ∧
      instKinds st' = instKinds st ++ [kindOf k.1] ∧
      (∀ J, Exact st J → Exact st' (J ++ kidJoinsF n t k)) ∧
      dataAt st' k.2 = some (infoFold (infoStmts o k.1) (none, [], [])) ∧
      (∀ j, j < k.2 → dataAt st' j = dataAt st j) ∧
      st'.alias = st.alias ∧ (LInv st → LInv st') ∧ Fr t st st' ∧
      (∀ K, "logic-gate_" ++ natStr K ≠ k.1.model → Std st K → Std st' K) ∧
      (k.1.typ = "EBLIF.names" → Std st' (k.1.pins.length - 1)) :=
  kid_step o n t hw hcab k hki hs hp hne hty st hlen hx hstd hd

/-- **header with INOUT ports and `.clock`**: exact port list, exact joins, invariants -/
theorem header_inout (t : String) (d : DefD)
    (hP : ∀ p ∈ d.ports, (p.dir = Dir.inp ∨ p.dir = Dir.out ∨ p.dir = Dir.inout) ∧ plainName p.name ∧
      p.name.toList ≠ [] ∧ 1 ≤ p.width)
    (hnd : (d.ports.map (·.name)).Nodup) (sh : St)
    (h : elabHdrs (beginModel {} t) t (hdrOfFull d) = Except.ok sh) :
    portsOf sh t = insPorts d ++ pureOuts d ∧ DefEx sh t ∧ RInv sh ∧
    Exact sh (wordJoins t ((insPorts d).flatMap portBits) ++ wordJoins t ((pureOuts d).flatMap portBits)) ∧
    instKinds sh = [] := hdr_full t d hP hnd sh h

/-- **`.conn` lines, closed form of the alias table**: for pairwise different sources none of which
    is a target, after the `.conn` statements every source stands for its target and every other
    bit for itself -/
theorem conn_alias_closed_form (t : String) (l : List (String × String)) (ks : List (Key × Key))
    (hk : l.map (connKey t) = ks.map some) (hnd : (ks.map (·.2)).Nodup) (hdis : ∀ p ∈ ks, p.1 ∉ ks.map (·.2))
    (st : St) (hid : st.alias = id) :
    ∃ st', elabStmts st t (l.map (fun ab => Stmt.conn ab.1 ab.2)) = Except.ok st' ∧ st'.alias = aliasOf ks := by
  obtain ⟨st', h, ha, _, _⟩ := conn_stmts t l ks hk st
  refine ⟨st', h, ?_⟩
  rw [ha, hid, ← aliasOf_nil]
  have := alias_fold ks [] (by simpa using hnd) (by simpa using hdis)
  simpa using this

/-- **the joins the written text declares, followed through the `.conn` aliases, are exactly the
    pin / net-bit incidences of the netlist it was written from** -/
theorem written_joins_are_net (n : BNet) (t : String) (hw : WellNamed n) (ht : okWord t = true) (hn : NetOKF n t)
    (x : Pin) (k : Key) :
    (∃ k', (x, k') ∈ JF n t ∧ aliasOf (connKeys n t (n.findDef t)) k' = k) ↔ OnNet n x k :=
  joinsF_iff_onNet n t hw ht hn x k

/-! ### non-vacuity: a netlist with all four child kinds (`.subckt`, `.gate`, `.names`, `.latch`), a
    two-bit bus port and a two-bit instance port, an INOUT port, `.clock`, and an output port whose
    pin sits on a differently named net (one `.conn` line), two black-box blocks -/

def exFull : BNet :=
  { name := some "t", top := some "t", comments := [],
    defs := [{ name := "t", ports := [{ name := "a", dir := Dir.inp, width := 1 }, { name := "b", dir := Dir.inp, width := 2 },
                                      { name := "io", dir := Dir.inout, width := 1 },
                                      { name := "y", dir := Dir.out, width := 1 }, { name := "q", dir := Dir.out, width := 1 }],
               declared := true, clock := some ["clk"] },
             { name := "B", ports := [{ name := "I", dir := Dir.undef, width := 1 }, { name := "O", dir := Dir.undef, width := 1 }] },
             { name := "G", ports := [{ name := "X", dir := Dir.undef, width := 2 }, { name := "Y", dir := Dir.undef, width := 1 }] },
             { name := "logic-gate_2", ports := [{ name := "in_0", dir := Dir.inp, width := 1 }, { name := "in_1", dir := Dir.inp, width := 1 },
                                                 { name := "out", dir := Dir.out, width := 1 }] },
             { name := "generic-latch", ports := [{ name := "input", dir := Dir.inp, width := 1 }, { name := "output", dir := Dir.out, width := 1 },
                                                  { name := "type", dir := Dir.inp, width := 1 }, { name := "control", dir := Dir.inp, width := 1 }] }],
    insts := [{ parent := "t", name := "u1", model := "B", typ := "EBLIF.subckt", cname := some "u1",
                attrs := [("k", "v")], pins := [("I", 0), ("O", 0)] },
              { parent := "t", name := "g2", model := "G", typ := "EBLIF.gate", cname := some "g2",
                params := [("p", "1")], pins := [("X", 0), ("X", 1), ("Y", 0)] },
              { parent := "t", name := "g1", model := "logic-gate_2", typ := "EBLIF.names", covers := some ["11 1"],
                pins := [("in_0", 0), ("in_1", 0), ("out", 0)] },
              { parent := "t", name := "l1", model := "generic-latch", typ := "EBLIF.latch",
                pins := [("input", 0), ("output", 0), ("type", 0), ("control", 0)] }],
    cables := [(("t", "a"), [[Pin.top "t" "a" 0, Pin.inst 0 "I" 0, Pin.inst 2 "in_0" 0]]),
               (("t", "b"), [[Pin.top "t" "b" 0, Pin.inst 1 "X" 0], [Pin.top "t" "b" 1, Pin.inst 1 "X" 1]]),
               (("t", "io"), [[Pin.top "t" "io" 0, Pin.inst 2 "in_1" 0]]),
               (("t", "w"), [[Pin.inst 0 "O" 0, Pin.inst 3 "input" 0]]),
               (("t", "gy"), [[Pin.inst 1 "Y" 0]]),
               (("t", "n1"), [[Pin.inst 2 "out" 0, Pin.top "t" "y" 0]]),
               (("t", "q"), [[Pin.inst 3 "output" 0, Pin.top "t" "q" 0]]),
               (("t", "re"), [[Pin.inst 3 "type" 0]]),
               (("t", "clk"), [[Pin.inst 3 "control" 0]])] }

set_option maxRecDepth 100000 in
set_option maxHeartbeats 4000000 in
example : WellNamed exFull ∧ NetOKF exFull "t" := by decide

set_option maxRecDepth 100000 in
set_option maxHeartbeats 4000000 in
example : NamesOK {} exFull ∧ BBPlain exFull "t" ∧ (connKeys exFull "t" (exFull.findDef "t")).length = 1 := by decide

set_option maxRecDepth 100000 in
set_option maxHeartbeats 4000000 in
example : FragFull exFull "t" := by
  refine ⟨rfl, by decide, by decide, by decide, ?_⟩
  intro i hi r hr
  have hall : ∀ i ∈ exFull.insts, ∀ r ∈ coverRows i, r = ["11", "1"] := by decide
  rw [hall i hi r hr]
  exact ⟨"11", ["1"], rfl, by decide⟩

end Spydr.Eblif
