/-
  C18, proof side, sixth part: the parser side for everything the writer emits.
-/
import Spydr.Eblif.FullParse3

namespace Spydr.Eblif

/-- **Parser side, whole output of the writer**: for every netlist whose top model is in `work` and
    whose children are `.subckt`/`.gate`/`.names`/`.latch` instances (`FragFull`: no `=` in port
    names, truth-table rows start with a cover word), the composed lines -- comments, header with
    `.clock`, every instance block (truth-table rows, `.cname/.attr/.param`), `.conn` lines and the
    black-box block -- parse to the explicit AST `astOfFull o n t`. -/
theorem parse_composed_lines_full (o : Opts) (n : BNet) (t : String) (hf : FragFull n t) :
    parseLines (composeLines o n) = Except.ok (astOfFull o n t) := parse_composeLines_full o n t hf

/-- hence, for a well-named netlist, reading the composed text is elaborating `astOfFull` -/
theorem read_composed_full (o : Opts) (n : BNet) (t : String) (hw : WellNamed n) (hf : FragFull n t) :
    readB (composeText o n) = elabB (astOfFull o n t) := by
  rw [read_composeText o n hw, parse_composeLines_full o n t hf]
  rfl

/-- a rendered `.names` block (header line, truth-table rows, info lines), met while a model is
    open in any mode, parses to exactly that `Stmt.names` -/
theorem parse_rendered_names (s : PSt) (c : Model) (hc : s.cur = some c) (hm : OpenMode s.mode)
    (nets : List String) (rows : List (List String)) (hr : ∀ r ∈ rows, CoverRow r) (info : List InfoStmt) :
    ((".names" :: nets) :: rows ++ info.map infoLine).foldl pstep s =
      { s with cur := some { c with body := c.body ++ [Stmt.names nets (rows.map coverText) info] },
               mode := if info = [] then Mode.covers else Mode.info } := by
  simp only [List.cons_append, List.foldl_cons, List.foldl_append]
  rw [pstep_names_line s c hc hm]
  have h2 := cover_rows_fold rows hr
    { s with cur := some { c with body := c.body ++ [Stmt.names nets [] []] }, mode := Mode.covers }
    { c with body := c.body ++ [Stmt.names nets [] []] } nets [] c.body rfl rfl rfl
  rw [h2]
  have h3 := info_lines_fold_gen info
    { s with cur := some { c with body := c.body ++ [Stmt.names nets ([] ++ rows.map coverText) []] }, mode := Mode.covers }
    { c with body := c.body ++ [Stmt.names nets ([] ++ rows.map coverText) []] }
    (Stmt.names nets ([] ++ rows.map coverText) []) c.body rfl (Or.inr rfl) rfl rfl
  rw [h3]
  simp [withInfo]

/-- a rendered `.latch` block parses to exactly that `Stmt.latch` -/
theorem parse_rendered_latch (s : PSt) (c : Model) (hc : s.cur = some c) (hm : OpenMode s.mode)
    (toks : List String) (info : List InfoStmt) :
    ((".latch" :: toks) :: info.map infoLine).foldl pstep s =
      { s with cur := some { c with body := c.body ++ [Stmt.latch toks info] }, mode := Mode.info } := by
  simp only [List.foldl_cons]
  rw [pstep_latch_line s c hc hm]
  have h3 := info_lines_fold_gen info
    { s with cur := some { c with body := c.body ++ [Stmt.latch toks []] }, mode := Mode.info }
    { c with body := c.body ++ [Stmt.latch toks []] } (Stmt.latch toks []) c.body rfl (Or.inl rfl) rfl rfl
  rw [h3]
  simp [withInfo]

/-- a `.conn a b` line parses to `Stmt.conn a b` in every open mode -/
theorem parse_rendered_conn (s : PSt) (c : Model) (hc : s.cur = some c) (hm : OpenMode s.mode) (a b : String) :
    pstep s [".conn", a, b] = { s with cur := some { c with body := c.body ++ [Stmt.conn a b] }, mode := Mode.body } :=
  pstep_conn_line s c hc hm a b

set_option maxRecDepth 100000 in
example : (match parseLines [[".model", "t"], [".names", "a", "b", "y"], ["11", "1"], ["0-", "1"], [".cname", "g"],
                             [".latch", "y", "q", "re", "clk", "0"], [".conn", "q", "z"], [".end"]] with
           | Except.ok a => a.models.map (·.body)
           | _ => []) =
    [[Stmt.names ["a", "b", "y"] ["11 1", "0- 1"] [InfoStmt.cname "g"], Stmt.latch ["y", "q", "re", "clk", "0"] [],
      Stmt.conn "q" "z"]] := by decide

end Spydr.Eblif
