/-
  C18, proof side, seventh part: the generated definitions of `.names` and `.latch` have exactly
  the documented ports (this was "by example only" in `names_latch_shape`).
-/
import Spydr.Eblif.GenDefs2

namespace Spydr.Eblif

/-- decimal printing is injective (from core's `ofDigitChars (toDigits 10 n) = n`), so the generated
    port names `in_0, in_1, …` are pairwise different and different from `out` -/
theorem generated_names_distinct : (∀ a b, inName a = inName b → a = b) ∧ (∀ i, inName i ≠ "out") :=
  ⟨fun _ _ h => inName_inj h, inName_ne_out⟩

theorem portsOf_ensureDef_fresh (st : St) (dn : String) (h : findDef st dn = none) : portsOf (ensureDef st dn) dn = [] := by
  unfold ensureDef portsOf
  simp only [h]
  unfold findDef at h ⊢
  simp [List.find?_append, h]

theorem portsOf_ensureDef_old (st : St) (dn : String) (h : DefEx st dn) : portsOf (ensureDef st dn) dn = portsOf st dn := by
  unfold ensureDef DefEx at *
  cases hf : findDef st dn with
  | none => rw [hf] at h; cases h
  | some d => rfl

/-- **`.names`: ports of the generated definition.**  If `logic-gate_k` does not exist yet, or exists
    with exactly the ports in_0 .. in_{k-1} (IN, one pin), out (OUT, one pin), then the definition the
    `.names` statement instantiates (`namesDef`) has exactly these ports. -/
theorem names_generated_ports (st : St) (k : Nat)
    (h : findDef st ("logic-gate_" ++ natStr k) = none ∨
         (DefEx st ("logic-gate_" ++ natStr k) ∧ portsOf st ("logic-gate_" ++ natStr k) = stdNamesPorts k)) :
    (namesDef st k).ports = stdNamesPorts k := by
  have hports : (namesDef st k).ports =
      portsOf (addNamesPorts (ensureDef st ("logic-gate_" ++ natStr k)) ("logic-gate_" ++ natStr k) k) ("logic-gate_" ++ natStr k) := by
    unfold namesDef portsOf
    simp only
    cases findDef (addNamesPorts (ensureDef st ("logic-gate_" ++ natStr k)) ("logic-gate_" ++ natStr k) k) ("logic-gate_" ++ natStr k) <;> rfl
  rw [hports]
  rcases h with h | ⟨hd, hp⟩
  · exact names_def_fresh _ _ k (defEx_ensureDef _ _) (portsOf_ensureDef_fresh st _ h)
  · have e : portsOf (ensureDef st ("logic-gate_" ++ natStr k)) ("logic-gate_" ++ natStr k) = stdNamesPorts k := by
      rw [portsOf_ensureDef_old st _ hd]; exact hp
    rw [names_def_again _ _ k e]; exact e

theorem nodup_map_of_inj {α β : Type} (f : α → β) (l : List α) (hl : l.Nodup) (hf : ∀ a ∈ l, ∀ b ∈ l, f a = f b → a = b) :
    (l.map f).Nodup := by
  induction l with
  | nil => simp
  | cons x r ih =>
    simp only [List.nodup_cons] at hl
    simp only [List.map_cons, List.nodup_cons, List.mem_map, not_exists, not_and]
    refine ⟨?_, ih hl.2 (fun a ha b hb => hf a (by simp [ha]) b (by simp [hb]))⟩
    intro y hy he
    have := hf y (by simp [hy]) x (by simp) he
    subst this
    exact hl.1 hy

theorem zip_fst_sublist {α β : Type} : ∀ (a : List α) (b : List β), ((a.zip b).map Prod.fst).Sublist a
  | [], _ => by simp
  | _ :: _, [] => by simp
  | x :: r, y :: s => by
      simp only [List.zip_cons_cons, List.map_cons]
      exact (zip_fst_sublist r s).cons₂ x

theorem stdNames_nodup (k : Nat) : ((stdNamesPorts k).map (·.name)).Nodup := by
  unfold stdNamesPorts
  simp only [List.map_append, List.map_map, List.map_cons, List.map_nil]
  rw [List.nodup_append]
  refine ⟨?_, by simp, ?_⟩
  · exact nodup_map_of_inj _ _ List.nodup_range (fun a _ b _ h => inName_inj h)
  · intro a ha b hb
    simp only [List.mem_map, List.mem_range, Function.comp] at ha
    obtain ⟨i, _, rfl⟩ := ha
    simp only [List.mem_singleton] at hb
    subst hb
    exact inName_ne_out i

/-- … hence the formal -> actual dict of the `.names` statement is: in_i ↦ i-th net, out ↦ last net
    (the ports in order zipped with the listed nets; nothing collapses because the names differ) -/
theorem names_info_std (st : St) (nets : List String)
    (h : findDef st ("logic-gate_" ++ natStr (nets.length - 1)) = none ∨
         (DefEx st ("logic-gate_" ++ natStr (nets.length - 1)) ∧
          portsOf st ("logic-gate_" ++ natStr (nets.length - 1)) = stdNamesPorts (nets.length - 1))) :
    namesInfo st nets = ((stdNamesPorts (nets.length - 1)).zip nets).map (fun pn => (pn.1.name, pn.2)) := by
  unfold namesInfo
  rw [names_generated_ports st (nets.length - 1) h]
  have hgen : ∀ (l : List (PortD × String)) (acc : List (String × String)),
      l.foldl (fun l pn => dictSet l pn.1.name pn.2) acc =
        (l.map (fun pn => (pn.1.name, pn.2))).foldl (fun l fa => dictSet l fa.1 fa.2) acc := by
    intro l
    induction l with
    | nil => intro acc; rfl
    | cons a r ih => intro acc; simp [List.foldl_cons, ih]
  rw [hgen]
  have hnd : ((((stdNamesPorts (nets.length - 1)).zip nets).map (fun pn => (pn.1.name, pn.2))).map (·.1)).Nodup := by
    rw [List.map_map]
    have : ((fun x : String × String => x.1) ∘ fun pn : PortD × String => (pn.1.name, pn.2)) = (fun pn => pn.1.name) := rfl
    rw [this]
    have hsub : (((stdNamesPorts (nets.length - 1)).zip nets).map (fun pn => pn.1.name)).Sublist ((stdNamesPorts (nets.length - 1)).map (·.name)) := by
      have : ((stdNamesPorts (nets.length - 1)).zip nets).map (fun pn => pn.1.name) =
          (((stdNamesPorts (nets.length - 1)).zip nets).map Prod.fst).map (·.name) := by rw [List.map_map]; rfl
      rw [this]
      exact (zip_fst_sublist _ _).map _
    exact (stdNames_nodup _).sublist hsub
  rw [foldl_dictSet_nodup _ [] hnd (fun p hp => by cases hp)]
  simp

/-- **`.latch`: ports of the generated definition** (prefix rule) -/
theorem latch_generated_ports (m : Nat) (hm : m ≤ 5) (st : St) (a : Nat) (ha : a ≤ 5) (hd : DefEx st "generic-latch")
    (hp : portsOf st "generic-latch" = stdLatchPorts.take a) :
    portsOf (addLatchPorts st (latchOrder.take m)) "generic-latch" = stdLatchPorts.take (max a m) :=
  (latch_def_shape m hm st a ha hd hp).1

end Spydr.Eblif
