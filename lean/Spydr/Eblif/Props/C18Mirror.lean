/-
  C18, proof side, eighth part: the instance / definition pin mirror, for ANY accepted text.

  Whatever `readB` accepts, every instance of the result carries exactly one pin per port bit of
  the definition it references: the definition exists and is unique by name, its port names are
  distinct, and the instance's pin list is a duplicate-free enumeration of
  { (port, bit) | port in the definition, bit < width of port }.
  No hypothesis on the text (any models, any order, any `.subckt` / `.names` / `.latch` / `.conn` /
  `.blackbox` mix, ports that grow after instances were made).
-/
import Spydr.Eblif.Mirror3

namespace Spydr.Eblif

/-- the pin mirror of a value-level netlist -/
def BNet.PinMirror (n : BNet) : Prop :=
  (n.defs.map (·.name)).Nodup ∧
  (∀ d ∈ n.defs, (d.ports.map (·.name)).Nodup) ∧
  ∀ i ∈ n.insts, ∃ d ∈ n.defs, d.name = i.model ∧ i.pins.Perm (allPins d)

theorem mem_bitsFrom (pn : String) (lo hi : Nat) (x : String × Nat) :
    x ∈ bitsFrom pn lo hi ↔ x.1 = pn ∧ lo ≤ x.2 ∧ x.2 < hi := by
  unfold bitsFrom
  simp only [List.mem_map, List.mem_range]
  constructor
  · rintro ⟨k, hk, rfl⟩
    exact ⟨rfl, by simp, by simp only; omega⟩
  · rintro ⟨h1, h2, h3⟩
    refine ⟨x.2 - lo, by omega, ?_⟩
    rcases x with ⟨a, b⟩
    simp only at h1 h2 h3 ⊢
    subst h1
    congr 1
    omega

theorem bitsFrom_nodup (pn : String) (lo hi : Nat) : (bitsFrom pn lo hi).Nodup := by
  unfold bitsFrom
  refine nodup_map_of_inj _ _ List.nodup_range ?_
  intro a _ b _ h
  simp only [Prod.mk.injEq, true_and] at h
  omega

theorem mem_allPins (d : DefD) (p : String) (b : Nat) :
    (p, b) ∈ allPins d ↔ ∃ q ∈ d.ports, q.name = p ∧ b < q.width := by
  unfold allPins
  simp only [List.mem_flatMap, mem_bitsFrom]
  constructor
  · rintro ⟨q, hq, h1, _, h3⟩; exact ⟨q, hq, h1.symm, h3⟩
  · rintro ⟨q, hq, h1, h3⟩; exact ⟨q, hq, h1.symm, Nat.zero_le _, h3⟩

theorem allPins_nodup (d : DefD) (h : (d.ports.map (·.name)).Nodup) : (allPins d).Nodup := by
  unfold allPins
  generalize d.ports = l at h
  induction l with
  | nil => simp
  | cons q r ih =>
    simp only [List.map_cons, List.nodup_cons, List.mem_map, not_exists, not_and] at h
    simp only [List.flatMap_cons]
    rw [List.nodup_append]
    refine ⟨bitsFrom_nodup _ _ _, ih h.2, ?_⟩
    intro a ha b hb e
    subst e
    rw [mem_bitsFrom] at ha
    simp only [List.mem_flatMap, mem_bitsFrom] at hb
    obtain ⟨q', hq', h1, _⟩ := hb
    exact h.1 q' hq' (h1.symm.trans ha.1)

theorem allPins_length (d : DefD) : (allPins d).length = (d.ports.map (·.width)).sum := by
  unfold allPins
  generalize d.ports = l
  induction l with
  | nil => rfl
  | cons q r ih => simp [List.flatMap_cons, ih, bitsFrom]

theorem pinMirror_of_mirror {st : St} (m : Mirror st) : st.toNet.PinMirror := by
  refine ⟨m.dn, ?_, ?_⟩
  · intro d hd
    have := m.pn d hd
    simp only [nwOf, List.map_map] at this
    exact this
  · intro i hi
    obtain ⟨d, hd, hn, hp⟩ := m.mir i hi
    exact ⟨d, hd, hn, by rw [allPins_nw]; exact hp⟩

/-- **Pin mirror, elaborator level**: for ANY syntax tree the elaborator accepts. -/
theorem pin_mirror_elab (a : BAst) (n : BNet) (h : elabB a = Except.ok n) : n.PinMirror := by
  unfold elabB at h
  obtain ⟨st, h1, h⟩ := bind_ok h
  simp only [] at h
  unfold elabSt at h1
  obtain ⟨s0, h0, h1⟩ := bind_ok h1
  cases h1
  have m0 : Mirror s0 := mirror_elabModels a.models Mirror.init h0
  have m1 : Mirror { s0 with comments := a.comments } := Mirror.of_view (st := s0) rfl m0
  obtain ⟨d1, d2, d3⟩ := pinMirror_of_mirror m1
  obtain ⟨_, hdefs, _, hins⟩ := applyConvention_pres _ h
  refine ⟨by rw [hdefs]; exact d1, by rw [hdefs]; exact d2, ?_⟩
  intro i hi
  have : eraseName i ∈ n.insts.map eraseName := List.mem_map.mpr ⟨i, hi, rfl⟩
  rw [hins] at this
  obtain ⟨j, hj, he⟩ := List.mem_map.mp this
  have hm : j.model = i.model := congrArg Inst.model he |> (by simpa [eraseName] using ·)
  have hp : j.pins = i.pins := congrArg Inst.pins he |> (by simpa [eraseName] using ·)
  obtain ⟨d, hd, hn, hperm⟩ := d3 j hj
  exact ⟨d, by rw [hdefs]; exact hd, hn.trans hm, by rw [← hp]; exact hperm⟩

/-- **Pin mirror, reader level**: `readB text = ok n` implies the pin mirror, for any text. -/
theorem pin_mirror (text : List Char) (n : BNet) (h : readB text = Except.ok n) : n.PinMirror := by
  unfold readB at h
  obtain ⟨a, _, h⟩ := bind_ok h
  exact pin_mirror_elab a n h

/-- the same, spelt out per instance: the definition the instance names is the one `find?` returns,
    the pin list has no duplicates, contains exactly the (port, bit) pairs of that definition, and its
    length is the sum of the port widths. -/
theorem pin_mirror_bits (text : List Char) (n : BNet) (h : readB text = Except.ok n) :
    ∀ i ∈ n.insts, ∃ d, n.defs.find? (fun d => d.name = i.model) = some d ∧
      i.pins.Nodup ∧
      (∀ p b, (p, b) ∈ i.pins ↔ ∃ q ∈ d.ports, q.name = p ∧ b < q.width) ∧
      i.pins.length = (d.ports.map (·.width)).sum := by
  obtain ⟨h1, h2, h3⟩ := pin_mirror text n h
  intro i hi
  obtain ⟨d, hd, hn, hp⟩ := h3 i hi
  refine ⟨d, ?_, ?_, ?_, ?_⟩
  · have := findDef_of_mem (st := { defs := n.defs }) h1 hd
    unfold findDef at this
    rw [← hn]; exact this
  · exact hp.symm.nodup (allPins_nodup d (h2 d hd))
  · intro p b
    rw [hp.mem_iff]; exact mem_allPins d p b
  · rw [hp.length_eq]; exact allPins_length d

/-- the mirror is decidable; an accepted example where a port grows after the instance exists -/
instance (n : BNet) : Decidable n.PinMirror := by unfold BNet.PinMirror; exact inferInstance

/-- not vacuous: an instance that misses bit 1 of a two-bit port (what the unrepaired reader
    produced when a later formal widened a port) violates the mirror; the repaired shape has it -/
example : ¬ BNet.PinMirror
  { defs := [{ name := "m", ports := [{ name := "a", dir := Dir.inp, width := 2 }] }],
    insts := [{ parent := "t", name := "i", model := "m", typ := "EBLIF.subckt", pins := [("a", 0)] }] } := by decide

example : BNet.PinMirror
  { defs := [{ name := "m", ports := [{ name := "a", dir := Dir.inp, width := 2 }, { name := "y", dir := Dir.out, width := 1 }] }],
    insts := [{ parent := "t", name := "i", model := "m", typ := "EBLIF.subckt", pins := [("a", 0), ("y", 0), ("a", 1)] }] } := by decide

end Spydr.Eblif
