/-
  C18, proof side, fourth part: the port list of the top model survives write-then-read.
-/
import Spydr.Eblif.PortList5

namespace Spydr.Eblif

/-- **Round trip, top port list** (fragment; no child instantiates the top model): the re-read top
    model has the ports of `n`'s top model with the same names, directions and widths, inputs first
    (in their order) then outputs (in their order); the identical list when `n` already lists its
    inputs before its outputs (as every reader result of a composed file does). -/
theorem eblif_roundtrip_ports (o : Opts) (n : BNet) (t : String) (hw : WellNamed n) (hf : FragP o n t) (hn : NetOK n t)
    (hself : ∀ i ∈ n.insts, t ≠ i.model) (n' : BNet) (h : readB (composeText o n) = Except.ok n') :
    (n'.findDef t).ports = insPorts (n.findDef t) ++ outsPorts (n.findDef t) ∧
    ((n.findDef t).ports = insPorts (n.findDef t) ++ outsPorts (n.findDef t) → (n'.findDef t).ports = (n.findDef t).ports) :=
  roundtrip_ports o n t hw hf hn hself n' h

set_option maxRecDepth 100000 in
example : (∀ i ∈ exNet.insts, "t" ≠ i.model) ∧
    (exNet.findDef "t").ports = insPorts (exNet.findDef "t") ++ outsPorts (exNet.findDef "t") := by decide

/-- exact port list of the model being read after the words of a list of new input ports, then of
    new output ports (any state in which the model exists) -/
theorem hdr_port_list (t : String) (I O : List PortD) (st s1 s2 : St)
    (hI : ∀ p ∈ I, plainName p.name ∧ p.name.toList ≠ [] ∧ 1 ≤ p.width ∧ p.dir = Dir.inp)
    (hO : ∀ p ∈ O, plainName p.name ∧ p.name.toList ≠ [] ∧ 1 ≤ p.width ∧ p.dir = Dir.out)
    (hnd : ((I ++ O).map (·.name)).Nodup) (hd : DefEx st t) (hp : portsOf st t = [])
    (h1 : elabToks elabInput st t (I.flatMap portBits) = Except.ok s1)
    (h2 : elabToks elabOutput s1 t (O.flatMap portBits) = Except.ok s2) :
    portsOf s2 t = I ++ O := by
  simp only [List.map_append] at hnd
  obtain ⟨n1, n2, n3⟩ := List.nodup_append.mp hnd
  obtain ⟨pa, da⟩ := ports_words_in t I hI [] st s1 (fun q hq => by cases hq) n1 hd hp h1
  obtain ⟨pb, _⟩ := ports_words_out t O hO ([] ++ I) s1 s2 (by
      intro q hq p hpm he
      simp only [List.nil_append] at hq
      exact n3 q.name (List.mem_map.mpr ⟨q, hq, rfl⟩) p.name (List.mem_map.mpr ⟨p, hpm, rfl⟩) he) n2 da pa h2
  simpa using pb

end Spydr.Eblif
