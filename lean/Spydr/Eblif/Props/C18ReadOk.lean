/-
  C18, proof side, third part: the second read cannot fail on the fragment (round trip without the
  success hypothesis), ports never shrink (`formal_actual`'s port in the final state).
-/
import Spydr.Eblif.ReadOk4

namespace Spydr.Eblif

/-- **The second read cannot fail.**  For a well-named netlist of the `.subckt`/`.gate` fragment in
    reader shape whose written `.cname`s are pairwise different (`NamesOK`: instance names `Nodup`
    when `write_eblif_cname` is on), `readB` accepts the text `composeB` writes. -/
theorem eblif_read_ok (o : Opts) (n : BNet) (t : String) (hw : WellNamed n) (hf : FragP o n t) (hn : NetOK n t)
    (hnm : NamesOK o n) : ∃ n', readB (composeText o n) = Except.ok n' := read_ok o n t hw hf hn hnm

/-- **Round trip, total form**: the read succeeds and returns the same instances (parent, model,
    type, order), the same `.attr`/`.param`/`.cname` data and exactly the same pins on every net bit. -/
theorem eblif_roundtrip_subckt_total (o : Opts) (n : BNet) (t : String) (hw : WellNamed n) (hf : FragP o n t)
    (hn : NetOK n t) (hnm : NamesOK o n) :
    ∃ n', readB (composeText o n) = Except.ok n' ∧
      n'.insts.map kindOf = n.insts.map kindOf ∧
      (∀ j : Nat, (n'.insts[j]?).map infoOf =
        (n.insts[j]?).map (fun (i : Inst) => (if o.writeCname then some i.name else none, i.attrs, i.params))) ∧
      (∀ x k, OnNet n' x k ↔ OnNet n x k) := roundtrip_subckt_total o n t hw hf hn hnm

/-- a netlist of the fragment with two instances of the same name -/
def exNetDup : BNet :=
  { name := some "t", top := some "t", comments := [],
    defs := [{ name := "t", ports := [{ name := "a", dir := Dir.inp, width := 1 }], declared := true },
             { name := "B", ports := [{ name := "I", dir := Dir.undef, width := 1 }] }],
    insts := [{ parent := "t", name := "u", model := "B", typ := "EBLIF.subckt", pins := [("I", 0)] },
              { parent := "t", name := "u", model := "B", typ := "EBLIF.subckt", pins := [("I", 0)] }],
    cables := [(("t", "a"), [[Pin.top "t" "a" 0, Pin.inst 0 "I" 0, Pin.inst 1 "I" 0]])] }

set_option maxRecDepth 100000 in
set_option maxHeartbeats 4000000 in
/-- `NamesOK` is needed: without it `WellNamed`, `FragP`, `NetOK` hold and the read FAILS (the second
    `.cname u` conflicts), so "for all n of the fragment the read succeeds" is false as it stands. -/
theorem read_fails_on_equal_names :
    WellNamed exNetDup ∧ NetOK exNetDup "t" ∧ FragP { writeBlackbox := false } exNetDup "t" ∧
    isOk (readB (composeText { writeBlackbox := false } exNetDup)) = false := by
  refine ⟨by decide, by decide, ⟨rfl, by decide, by decide, by decide, by decide, by decide, by decide⟩, by decide⟩

set_option maxRecDepth 100000 in
set_option maxHeartbeats 2000000 in
example : NamesOK { writeBlackbox := false } exNet := by decide

/-- **`formal_actual`, port side, final state**: the instantiated definition has the formal's port,
    wider than the formal's bit, at the end of the body whatever follows (also `.blackbox`) -/
theorem formal_actual_port (st st' : St) (cur : String) (pre post : List Stmt) (gate : Bool) (model : String)
    (conns : List (String × String)) (info : List InfoStmt)
    (h : elabStmts st cur (pre ++ Stmt.subckt gate model conns info :: post) = Except.ok st') :
    ∀ fa ∈ infoMapOf conns, ∀ cn ci pn pi, splitIdx fa.2 = Except.ok (cn, ci) → splitIdx fa.1 = Except.ok (pn, pi) →
      cn ≠ "unconn" → ∃ p, findIn (portsOf st' model) pn = some p ∧ pi < p.width :=
  formal_actual_port_final st st' cur pre post gate model conns info h

/-- ports never disappear and never get narrower, through any list of models -/
theorem ports_never_shrink (ms : List Model) (st st' : St) (h : elabModels st ms = Except.ok st') :
    ∀ dn pn p, findIn (portsOf st dn) pn = some p → ∃ p', findIn (portsOf st' dn) pn = some p' ∧ p.width ≤ p'.width :=
  pm_elabModels ms h

set_option maxRecDepth 100000 in
example : (match elabStmts {} "t" [Stmt.subckt false "B" [("A[2]", "x")] [], Stmt.subckt false "B" [("A[0]", "y")] [], Stmt.blackbox] with
           | Except.ok s => (portsOf s "B").map (fun p => (p.name, p.width))
           | _ => []) = [("A", 3)] := by decide

end Spydr.Eblif
