/-
  C18, proof side, second part: write-then-read (round trip), exactness across `.blackbox` and
  models, self-containedness, materialisation.  Everything is for ALL inputs of the stated class;
  the classes are given by decidable predicates (`WellNamed`, `FragP`, `NetOK`).
-/
import Spydr.Eblif.RoundTripMain3
import Spydr.Eblif.Materialise

namespace Spydr.Eblif

/-! ## the writer's tokens and lines -/

/-- `hg` discharged: for a well-named netlist (all names are words: no blank / line end inside, not
    the lone backslash -- `WellNamed`, decidable) every token the writer emits is read back by the
    tokenizer as itself -/
theorem compose_tokens_good (o : Opts) (n : BNet) (hw : WellNamed n) :
    ∀ t ∈ composeB o n, GoodTok t ∧ t ≠ bsl := composeB_good o n hw

/-- reading the composed text = line-parsing the composed lines and elaborating -/
theorem read_composed_text (o : Opts) (n : BNet) (hw : WellNamed n) :
    readB (composeText o n) = (parseLines (composeLines o n) >>= elabB) := read_composeText o n hw

/-- for the `.subckt`/`.gate` fragment the composed lines parse to the explicit AST `astOf`:
    one model, header = the IN / OUT port bits, one instance statement per child with its
    formal=actual pairs (`connsOf`) and info lines (`infoStmts`), in the writer's order -/
theorem parse_composed_lines (o : Opts) (n : BNet) (t : String) (hf : FragP o n t) :
    parseLines (composeLines o n) = Except.ok (astOf o n t) := parse_composeLines o n t hf

/-- the writer's `name[index]` is read back as bit (name, index), whatever the name; a name not
    ending in `]` as (name, 0) -/
theorem split_written_bit (a : String) (i : Nat) :
    splitIdx (a ++ "[" ++ natStr i ++ "]") = Except.ok (a, i) ∧
    (plainName a → a.toList ≠ [] → splitIdx a = Except.ok (a, 0)) :=
  ⟨splitIdx_idx a i, fun h1 h2 => splitIdx_plain a h1 h2⟩

/-! ## write-then-read -/

/-- **Round trip, `.subckt`/`.gate` fragment** (top model in `work`, children all `.subckt`/`.gate`
    in the writer's order, IN/OUT ports, every port pin on the bit named after it, no black-box block
    written -- `FragP`, `NetOK`, decidable): whatever `readB` makes of the text `composeB` writes has
    the same instances (parent, model, type, in order), the same `.attr`/`.param` data and
    `EBLIF.cname` = name iff `write_eblif_cname`, and exactly the same pins on every net bit. -/
theorem eblif_roundtrip_subckt (o : Opts) (n : BNet) (t : String) (hw : WellNamed n) (hf : FragP o n t)
    (hn : NetOK n t) (n' : BNet) (h : readB (composeText o n) = Except.ok n') :
    n'.insts.map kindOf = n.insts.map kindOf ∧
    (∀ j : Nat, (n'.insts[j]?).map infoOf =
      (n.insts[j]?).map (fun (i : Inst) => (if o.writeCname then some i.name else none, i.attrs, i.params))) ∧
    (∀ x k, OnNet n' x k ↔ OnNet n x k) := roundtrip_subckt o n t hw hf hn n' h

/-- non-vacuity: a netlist with a scalar and a bus input, an output, one instance with `.cname` and
    `.attr`, three cables -/
def exNet : BNet :=
  { name := some "t", top := some "t", comments := [],
    defs := [{ name := "t", ports := [{ name := "a", dir := Dir.inp, width := 1 }, { name := "b", dir := Dir.inp, width := 2 },
                                      { name := "y", dir := Dir.out, width := 1 }], declared := true },
             { name := "B", ports := [{ name := "I", dir := Dir.undef, width := 1 }, { name := "J", dir := Dir.undef, width := 2 },
                                      { name := "O", dir := Dir.undef, width := 1 }] }],
    insts := [{ parent := "t", name := "u1", model := "B", typ := "EBLIF.subckt", cname := some "u1",
                attrs := [("k", "v")], pins := [("I", 0), ("J", 0), ("J", 1), ("O", 0)] }],
    cables := [(("t", "a"), [[Pin.top "t" "a" 0, Pin.inst 0 "I" 0]]),
               (("t", "b"), [[Pin.top "t" "b" 0, Pin.inst 0 "J" 0], [Pin.top "t" "b" 1, Pin.inst 0 "J" 1]]),
               (("t", "y"), [[Pin.top "t" "y" 0, Pin.inst 0 "O" 0]])] }

set_option maxRecDepth 100000 in
set_option maxHeartbeats 2000000 in
example : WellNamed exNet ∧ NetOK exNet "t" := by decide

example : FragP { writeBlackbox := false } exNet "t" := by
  refine ⟨rfl, by decide, by decide, by decide, by decide, by decide, by decide⟩

set_option maxRecDepth 100000 in
set_option maxHeartbeats 4000000 in
example : isOk (readB (composeText { writeBlackbox := false } exNet)) = true := by decide

/-! ## exactness across `.blackbox` and across models -/

/-- For ANY list of models elaborated from the empty state (any headers, any statements including
    `.conn` and `.blackbox`, several models): pin `p` is on wire `k` of the final wire table IFF the
    threaded join list `modelsAcc` holds a pair `(p, k')` with `k` the wire `k'` stands for.
    `modelsAcc` adds, per `.inputs` word its pin/bit pair, per `.outputs` word its pair unless the
    word names an existing input port, per instance statement `stmtJoins`, and on `.blackbox`
    removes every pair declared for a bit of that model. -/
theorem pins_exact_all (ms : List Model) (st' : St) (h : elabModels {} ms = Except.ok st') :
    ∀ p k, p ∈ st'.pins k ↔ ∃ k', (p, k') ∈ modelsAcc {} [] ms ∧ st'.alias k' = k :=
  exact_elabModels_all ms WF.init Exact.init h

/-- ... and the materialised netlist shows exactly those pins (no pin is lost or invented by
    `St.toNet`; pins sit on live wires only) -/
theorem onNet_exact_all (ms : List Model) (st' : St) (h : elabModels {} ms = Except.ok st') :
    ∀ p k, OnNet st'.toNet p k ↔ ∃ k', (p, k') ∈ modelsAcc {} [] ms ∧ st'.alias k' = k := by
  intro p k
  rw [onNet_toNet st' (linv_elabModels ms LInv.init h).pl p k]
  exact pins_exact_all ms st' h p k

set_option maxRecDepth 100000 in
example : (match elabModels {} [{ name := "t", hdr := [Hdr.inputs ["a"]], body := [Stmt.subckt false "B" [("I", "a")] []] },
                                { name := "B", hdr := [Hdr.inputs ["I"]], body := [Stmt.blackbox] }] with
           | Except.ok s => (s.pins ("t", "a", 0), s.pins ("B", "I", 0))
           | _ => ([], [])) = ([Pin.top "t" "a" 0, Pin.inst 0 "I" 0], []) := by decide

/-! ## self-contained result, undeclared black boxes are leaves -/

/-- the elaboration result of any model list is self-contained: definition names are pairwise
    different, every instance's model is a definition of the netlist, every instance parent and
    every cable owner is a declared model -/
theorem self_contained (ms : List Model) (st' : St) (h : elabModels {} ms = Except.ok st') :
    (st'.defs.map (·.name)).Nodup ∧
    (∀ i ∈ st'.insts, (∃ d ∈ st'.defs, d.name = i.model) ∧ ∃ d ∈ st'.defs, d.name = i.parent ∧ d.declared = true) ∧
    (∀ c ∈ st'.cables, ∃ d ∈ st'.defs, d.name = c.1 ∧ d.declared = true) := by
  have s := sc_elabModels ms SC.init h
  refine ⟨?_, (sc_resolves s).1, (sc_resolves s).2⟩
  have := s.nodup
  simp only [defNames, defsView, List.map_map] at this
  exact this

/-- a definition that no `.model` declared (an undeclared black box, a generated `logic-gate_k`,
    `generic-latch`) is a leaf -- no child, no cable -- and is not in library `work` -/
theorem undeclared_leaf (ms : List Model) (st' : St) (h : elabModels {} ms = Except.ok st')
    (d : DefD) (hd : d ∈ st'.defs) (hu : d.declared = false) :
    isLeaf st'.toNet d.name = true ∧ d.inWork = false :=
  sc_undeclared_leaf (sc_elabModels ms SC.init h) hd hu

set_option maxRecDepth 100000 in
example : (match elabModels {} [{ name := "t", hdr := [], body := [Stmt.subckt false "X" [("A", "n")] [], Stmt.names ["n", "y"] [] []] }] with
           | Except.ok s => s.defs.map (fun d => (d.name, d.declared, isLeaf s.toNet d.name))
           | _ => []) = [("t", true, false), ("X", false, true), ("logic-gate_1", false, true)] := by decide

/-! ## `formal_actual`: the port exists (step level) -/

/-- right after a `formal=actual` (actual not `unconn`) is connected, definition `model` exists and
    has port `pn` with more than `pi` pins.  (That widths never shrink afterwards is not proved.) -/
theorem formal_actual_port_step (st st' : St) (idx : Nat) (parent model : String) (fa : String × String)
    (cn pn : String) (ci pi : Nat) (h1 : splitIdx fa.2 = Except.ok (cn, ci)) (h2 : splitIdx fa.1 = Except.ok (pn, pi))
    (hu : cn ≠ "unconn") (h : connectOne st idx parent model fa = Except.ok st') :
    (findDef st' model).isSome = true ∧ pi < portWidth st' model pn := by
  unfold connectOne at h
  rw [h1, h2] at h
  simp only [bind, Except.bind, pure, Except.pure, hu, if_false] at h
  split at h
  · cases h
  · rename_i hh
    cases h
    have hp : hasPort st model pn = true := by simpa using hh
    have hd : (findDef st model).isSome = true := by
      unfold hasPort at hp
      cases hf : findDef st model with
      | none => simp [hf] at hp
      | some d => rfl
    obtain ⟨_, g2, g3⟩ := growPort_port st model pn (pi + 1) hd
    constructor
    · rw [findDef_of_defs (defs_connect _ _ _ _ _)]; exact g3
    · unfold portWidth
      rw [findDef_of_defs (defs_connect _ _ _ _ _)]
      show pi < portWidth _ model pn
      have := g2 hp
      omega

end Spydr.Eblif
