/-
  The second read cannot fail (fragment): success lemmas for the header, the formals, the pins.
-/
import Spydr.Eblif.FormalPort

namespace Spydr.Eblif

theorem elabInput_ok (st : St) (cur tok pn : String) (pi : Nat) (hs : splitIdx tok = Except.ok (pn, pi)) :
    ∃ st', elabInput st cur tok = Except.ok st' := by
  unfold elabInput; rw [hs]; exact ⟨_, rfl⟩

theorem elabOutput_ok (st : St) (cur tok pn : String) (pi : Nat) (hs : splitIdx tok = Except.ok (pn, pi)) :
    ∃ st', elabOutput st cur tok = Except.ok st' := by
  unfold elabOutput; rw [hs]
  simp only [bind, Except.bind, pure, Except.pure]
  split <;> exact ⟨_, rfl⟩

theorem elabToks_ok (f : St → String → String → Except Err St)
    (hf : ∀ st cur tok pn pi, splitIdx tok = Except.ok (pn, pi) → ∃ st', f st cur tok = Except.ok st')
    (cur : String) (ws : List String) (hws : ∀ w ∈ ws, ∃ pn pi, splitIdx w = Except.ok (pn, pi)) :
    ∀ st, ∃ st', elabToks f st cur ws = Except.ok st' := by
  induction ws with
  | nil => intro st; exact ⟨st, rfl⟩
  | cons w r ih =>
    intro st
    obtain ⟨pn, pi, hs⟩ := hws w (by simp)
    obtain ⟨s1, h1⟩ := hf st cur w pn pi hs
    obtain ⟨s2, h2⟩ := ih (fun x hx => hws x (by simp [hx])) s1
    refine ⟨s2, ?_⟩
    unfold elabToks
    rw [h1]; exact h2

/-- the port of a definition exists -/
def HasP (st : St) (dn pn : String) : Prop := (findIn (portsOf st dn) pn).isSome = true

theorem HasP.mono {a b : St} (h : PMono a b) {dn pn : String} (hp : HasP a dn pn) : HasP b dn pn := by
  unfold HasP at hp ⊢
  cases hf : findIn (portsOf a dn) pn with
  | none => rw [hf] at hp; cases hp
  | some p =>
    obtain ⟨p', hp', _⟩ := h dn pn p hf
    rw [hp']; rfl

theorem defEx_mono_ensureDef (st : St) (n m : String) (h : DefEx st m) : DefEx (ensureDef st n) m := by
  unfold DefEx ensureDef at *
  cases hn : findDef st n with
  | some d => simpa [hn] using h
  | none =>
    simp only [hn]
    unfold findDef at h ⊢
    simp only [List.find?_append]
    cases hf : st.defs.find? (fun d => d.name = m) with
    | none => rw [hf] at h; cases h
    | some d => simp

theorem defEx_ensureDef (st : St) (n : String) : DefEx (ensureDef st n) n := by
  unfold DefEx ensureDef
  cases hn : findDef st n with
  | some d => simp [hn]
  | none => simp [findDef, List.find?_append]

theorem declFormal_ok (st : St) (model : String) (fa : String × String) (pn : String) (pi : Nat)
    (hd : DefEx st model) (hs : splitIdx fa.1 = Except.ok (pn, pi)) :
    ∃ st', declFormal st model fa = Except.ok st' ∧ DefEx st' model ∧ HasP st' model pn := by
  unfold declFormal
  rw [hs]
  simp only [bind, Except.bind, pure, Except.pure]
  obtain ⟨h1, h2⟩ := addPort_has st model pn Dir.undef 0 hd
  refine ⟨_, rfl, ?_, ?_⟩
  · split
    · exact h2
    · exact (growPort_port _ model pn _ h2).2.2
  · have hp0 : HasP (addPort st model pn Dir.undef 0) model pn := by
      unfold HasP; rw [← hasPort_eq]; exact h1
    split
    · exact hp0
    · exact hp0.mono (pmono_growPort _ _ _ _)

theorem declFormals_ok (model : String) (l : List (String × String))
    (hl : ∀ fa ∈ l, ∃ pn pi, splitIdx fa.1 = Except.ok (pn, pi)) :
    ∀ st, DefEx st model → ∃ st', declFormals st model l = Except.ok st' ∧ DefEx st' model ∧
      ∀ fa ∈ l, ∀ pn pi, splitIdx fa.1 = Except.ok (pn, pi) → HasP st' model pn := by
  induction l with
  | nil => intro st hd; exact ⟨st, rfl, hd, fun fa h => by cases h⟩
  | cons fa r ih =>
    intro st hd
    obtain ⟨pn, pi, hs⟩ := hl fa (by simp)
    obtain ⟨s1, h1, d1, p1⟩ := declFormal_ok st model fa pn pi hd hs
    obtain ⟨s2, h2, d2, p2⟩ := ih (fun x hx => hl x (by simp [hx])) s1 d1
    refine ⟨s2, ?_, d2, ?_⟩
    · unfold declFormals; rw [h1]; exact h2
    · intro fb hfb qn qi hq
      rcases List.mem_cons.mp hfb with rfl | hm
      · rw [hs] at hq
        cases hq
        exact p1.mono (pm_declFormals r h2)
      · exact p2 fb hm qn qi hq

theorem connectAll_ok (idx : Nat) (parent model : String) (l : List (String × String)) :
    ∀ st, (∀ fa ∈ l, ∃ cn ci pn pi, splitIdx fa.2 = Except.ok (cn, ci) ∧ splitIdx fa.1 = Except.ok (pn, pi) ∧ HasP st model pn) →
      ∃ st', connectAll st idx parent model l = Except.ok st' := by
  induction l with
  | nil => intro st _; exact ⟨st, rfl⟩
  | cons fa r ih =>
    intro st hl
    obtain ⟨cn, ci, pn, pi, e1, e2, hp⟩ := hl fa (by simp)
    have h1 : ∃ s1, connectOne st idx parent model fa = Except.ok s1 := by
      unfold connectOne
      rw [e1, e2]
      simp only [bind, Except.bind, pure, Except.pure]
      split
      · exact ⟨_, rfl⟩
      · have : hasPort st model pn = true := by rw [hasPort_eq]; exact hp
        simp [this]
    obtain ⟨s1, h1⟩ := h1
    obtain ⟨s2, h2⟩ := ih s1 (by
      intro fb hfb
      obtain ⟨cn', ci', pn', pi', f1, f2, hp'⟩ := hl fb (by simp [hfb])
      exact ⟨cn', ci', pn', pi', f1, f2, hp'.mono (pm_connectOne h1)⟩)
    refine ⟨s2, ?_⟩
    unfold connectAll
    rw [h1]; exact h2

/-- the renaming pass never fails -/
theorem applyConvention_ok (l : List Nat) : ∀ n : BNet, ∃ n', applyConvention n l = Except.ok n' := by
  induction l with
  | nil => intro n; exact ⟨n, rfl⟩
  | cons idx r ih =>
    intro n
    unfold applyConvention
    split
    · exact ih n
    · split
      · exact ih n
      · rename_i nm _
        have : ∃ n1, renameNet n idx nm = Except.ok n1 := by
          unfold renameNet
          split
          · exact ⟨_, rfl⟩
          · simp only
            split <;> exact ⟨_, rfl⟩
        obtain ⟨n1, h1⟩ := this
        obtain ⟨n2, h2⟩ := ih n1
        exact ⟨n2, by simp only [h1, bind, Except.bind]; exact h2⟩

end Spydr.Eblif
