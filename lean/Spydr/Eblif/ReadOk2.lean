/-
  The second read cannot fail (fragment): instance names through the elaborator, `.cname` never
  conflicts when the written names are pairwise different.
-/
import Spydr.Eblif.ReadOk

namespace Spydr.Eblif

def namesOf (st : St) : List String := st.insts.map (·.name)

theorem nm_updInst (st : St) (idx : Nat) (f : Inst → Inst) (hf : ∀ i, (f i).name = i.name) :
    namesOf (updInst st idx f) = namesOf st := map_updIdx_gen (·.name) st.insts idx f hf

theorem nm_updInst_set (st : St) (idx : Nat) (f : Inst → Inst) (x : String) (hf : ∀ i, (f i).name = x) :
    namesOf (updInst st idx f) = (namesOf st).set idx x := by
  apply List.ext_getElem?
  intro j
  have hL : (namesOf (updInst st idx f))[j]? = (st.insts[j]?).map (fun i => if j = idx then x else i.name) := by
    have e : (updInst st idx f).insts[j]? = (st.insts[j]?).map (fun i => if j = idx then f i else i) :=
      getElem?_updIdx st.insts idx j f
    unfold namesOf
    rw [List.getElem?_map, e]
    cases st.insts[j]? with
    | none => rfl
    | some i => simp only [Option.map_some]; split <;> simp [hf]
  rw [hL, List.getElem?_set]
  simp only [namesOf, List.length_map, List.getElem?_map]
  cases h : st.insts[j]? with
  | none =>
    have hge : st.insts.length ≤ j := List.getElem?_eq_none_iff.mp h
    by_cases hj : idx = j
    · subst hj
      have : ¬ idx < st.insts.length := by omega
      simp [this]
    · simp [hj]
  | some i =>
    have hlt : j < st.insts.length := by
      rcases Nat.lt_or_ge j st.insts.length with h1 | h1
      · exact h1
      · rw [List.getElem?_eq_none_iff.mpr h1] at h; cases h
    by_cases hj : idx = j
    · subst hj; simp [hlt]
    · have hj' : ¬ j = idx := fun e => hj e.symm
      simp [hj, hj']

@[simp] theorem nm_ensureDef (st : St) (n : String) : namesOf (ensureDef st n) = namesOf st := by
  unfold ensureDef; split <;> rfl
@[simp] theorem nm_updDef (st : St) (n : String) (f : DefD → DefD) : namesOf (updDef st n f) = namesOf st := rfl
@[simp] theorem nm_appendPins (st : St) (n : String) (l) : namesOf (appendPins st n l) = namesOf st := by
  simp only [namesOf, appendPins, List.map_map]
  congr 1
  funext i
  simp only [Function.comp]
  split <;> rfl
@[simp] theorem nm_addPort (st : St) (dn pn : String) (d : Dir) (w : Nat) : namesOf (addPort st dn pn d w) = namesOf st := by
  unfold addPort; split <;> simp
@[simp] theorem nm_growPort (st : St) (dn pn : String) (w : Nat) : namesOf (growPort st dn pn w) = namesOf st := by
  unfold growPort; simp only []; split <;> simp
@[simp] theorem nm_checkHierarchy (st : St) (c d : String) : namesOf (checkHierarchy st c d) = namesOf st := by
  unfold checkHierarchy; split <;> rfl
@[simp] theorem nm_connect (st : St) (p : Pin) (o n : String) (i : Nat) : namesOf (connect st p o n i) = namesOf st := by
  unfold connect ensureWire ensureCable; simp only []; split <;> split <;> rfl

theorem nm_declFormals {model : String} (l : List (String × String)) :
    ∀ {st st' : St}, declFormals st model l = Except.ok st' → namesOf st' = namesOf st := by
  induction l with
  | nil => intro st st' h; cases h; rfl
  | cons fa r ih =>
    intro st st' h
    unfold declFormals at h
    obtain ⟨s1, h1, h2⟩ := bind_ok h
    rw [ih h2]
    unfold declFormal at h1
    obtain ⟨⟨pn, pi⟩, _, h1⟩ := bind_ok h1
    simp only [] at h1
    cases h1
    split <;> simp

theorem nm_connectAll {idx : Nat} {parent model : String} (l : List (String × String)) :
    ∀ {st st' : St}, connectAll st idx parent model l = Except.ok st' → namesOf st' = namesOf st := by
  induction l with
  | nil => intro st st' h; cases h; rfl
  | cons fa r ih =>
    intro st st' h
    unfold connectAll at h
    obtain ⟨s1, h1, h2⟩ := bind_ok h
    rw [ih h2]
    unfold connectOne at h1
    obtain ⟨⟨cn, ci⟩, _, h1⟩ := bind_ok h1
    obtain ⟨⟨pn, pi⟩, _, h1⟩ := bind_ok h1
    simp only [] at h1
    split at h1
    · cases h1; exact nm_updInst _ _ _ (fun _ => rfl)
    · split at h1
      · cases h1
      · cases h1; simp

theorem mem_siblingNames {st : St} {parent x : String} {idx : Nat} (h : x ∈ siblingNames st parent idx) :
    ∃ j, j ≠ idx ∧ (namesOf st)[j]? = some x := by
  unfold siblingNames at h
  obtain ⟨p, hp, rfl⟩ := List.mem_map.mp h
  simp only [List.mem_filter, Bool.and_eq_true, decide_eq_true_eq] at hp
  obtain ⟨hm, _, hne⟩ := hp
  have := List.mem_zipIdx_iff_getElem?.mp hm
  exact ⟨p.2, hne, by simp [namesOf, this]⟩

/-- info lines without `.cname` never fail; names are kept -/
theorem applyInfo_nocname_ok (idx : Nat) (parent : String) (l : List InfoStmt)
    (hl : ∀ s ∈ l, ∀ x, s ≠ InfoStmt.cname x) :
    ∀ st, ∃ st', applyInfo st idx parent l = Except.ok st' ∧ namesOf st' = namesOf st := by
  induction l with
  | nil => intro st; exact ⟨st, rfl, rfl⟩
  | cons s r ih =>
    intro st
    have hr : ∀ s ∈ r, ∀ x, s ≠ InfoStmt.cname x := fun s hs => hl s (by simp [hs])
    cases s with
    | cname x => exact absurd rfl (hl _ (by simp) x)
    | attr k v =>
      obtain ⟨s2, h2, n2⟩ := ih hr (updInst st idx (fun i => { i with attrs := dictSet i.attrs k v }))
      exact ⟨s2, by unfold applyInfo; exact h2, by rw [n2]; exact nm_updInst _ _ _ (fun _ => rfl)⟩
    | param k v =>
      obtain ⟨s2, h2, n2⟩ := ih hr (updInst st idx (fun i => { i with params := dictSet i.params k v }))
      exact ⟨s2, by unfold applyInfo; exact h2, by rw [n2]; exact nm_updInst _ _ _ (fun _ => rfl)⟩

/-- `.cname x` first, then lines without `.cname`: succeeds when no other instance is named `x`;
    afterwards the instance is named `x` -/
theorem applyInfo_cname_ok (st : St) (idx : Nat) (parent x : String) (l : List InfoStmt)
    (hl : ∀ s ∈ l, ∀ y, s ≠ InfoStmt.cname y)
    (hx : ∀ j, j ≠ idx → (namesOf st)[j]? ≠ some x) :
    ∃ st', applyInfo st idx parent (InfoStmt.cname x :: l) = Except.ok st' ∧ namesOf st' = (namesOf st).set idx x := by
  have h0 : namesOf (updInst st idx (fun i => { i with cname := some x })) = namesOf st := nm_updInst _ _ _ (fun _ => rfl)
  have hno : x ∉ siblingNames (updInst st idx (fun i => { i with cname := some x })) parent idx := by
    intro hm
    obtain ⟨j, hj, hg⟩ := mem_siblingNames hm
    rw [h0] at hg
    exact hx j hj hg
  obtain ⟨s2, h2, n2⟩ := applyInfo_nocname_ok idx parent l hl
    (updInst (updInst st idx (fun i => { i with cname := some x })) idx (fun i => { i with name := x }))
  refine ⟨s2, ?_, ?_⟩
  · unfold applyInfo
    simp only [renameStrict, hno, if_false, bind, Except.bind]
    exact h2
  · rw [n2, nm_updInst_set _ _ _ x (fun _ => rfl), h0]

end Spydr.Eblif
