/-
  The second read cannot fail (fragment): one instance statement, the body, the whole text.
-/
import Spydr.Eblif.ReadOk2

namespace Spydr.Eblif

theorem splitIdx_formalText (p : PortD) (b : Nat) (hpl : plainName p.name) (hpne : p.name.toList ≠ [])
    (hb : p.width ≤ 1 → b = 0) : splitIdx (formalText p b) = Except.ok (p.name, b) := by
  unfold formalText
  split
  · exact splitIdx_idx _ _
  · have := hb (by omega)
    rw [this]; exact splitIdx_plain _ hpl hpne

theorem splitIdx_netText_ok (n : BNet) (y : Pin)
    (hc : ∀ c ∈ n.cables, plainName c.1.2 ∧ c.1.2.toList ≠ []) : ∃ cn ci, splitIdx (netText n y) = Except.ok (cn, ci) := by
  unfold netText
  cases hwo : n.wireOf y with
  | none => exact ⟨"unconn", 0, by rfl⟩
  | some r =>
    obtain ⟨c, wi, len⟩ := r
    obtain ⟨ws, w, hm, _, _, _⟩ := wireOf_spec hwo
    obtain ⟨h1, h3⟩ := hc (c, ws) hm
    simp only
    split
    · exact ⟨_, _, splitIdx_idx _ _⟩
    · exact ⟨_, _, splitIdx_plain _ h1 h3⟩

theorem nm_newInst (st : St) (p m t : String) : namesOf (newInst st p m t).1 = namesOf st ++ [""] := by
  simp [namesOf, newInst]

theorem set_append_last (l : List String) (a b : String) : (l ++ [a]).set l.length b = l ++ [b] := by
  induction l with
  | nil => rfl
  | cons x r ih => simp [List.set, ih]

theorem nm_assignDefault (s : St) (idx : Nat) (p m : String) :
    ∃ d, namesOf (assignDefault s idx p m) = (namesOf s).set idx d := by
  unfold assignDefault
  exact ⟨_, nm_updInst_set _ _ _ _ (fun _ => rfl)⟩

/-- conditions under which writing and re-reading one instance succeeds -/
structure KidOK (o : Opts) (n : BNet) (t : String) (k : Inst × Nat) : Prop where
  formals : ∀ fa ∈ connsOf n k.2 k.1, ∃ pn pi, splitIdx fa.1 = Except.ok (pn, pi)
  actuals : ∀ fa ∈ connsOf n k.2 k.1, ∃ cn ci, splitIdx fa.2 = Except.ok (cn, ci)
  nodup : ((connsOf n k.2 k.1).map (·.1)).Nodup

theorem infoStmts_nocname (i : Inst) :
    ∀ s ∈ i.attrs.map (fun kv => InfoStmt.attr kv.1 kv.2) ++ i.params.map (fun kv => InfoStmt.param kv.1 kv.2),
      ∀ x, s ≠ InfoStmt.cname x := by
  intro s hs x
  simp only [List.mem_append, List.mem_map] at hs
  rcases hs with ⟨kv, _, rfl⟩ | ⟨kv, _, rfl⟩ <;> simp

theorem stmtOf_ok (o : Opts) (n : BNet) (t : String) (k : Inst × Nat) (hk : KidOK o n t k) (st : St)
    (hlen : st.insts.length = k.2)
    (hx : o.writeCname = true → ∀ j, j ≠ k.2 → (namesOf st)[j]? ≠ some k.1.name) :
    ∃ st', elabStmt st t (stmtOf o n k) = Except.ok st' ∧ st'.insts.length = k.2 + 1 ∧
      (o.writeCname = true → namesOf st' = namesOf st ++ [k.1.name]) := by
  obtain ⟨i, idx⟩ := k
  simp only at hlen hx hk
  have hd0 : DefEx (ensureDef (checkHierarchy st t i.model) i.model) i.model := defEx_ensureDef _ _
  obtain ⟨s1, h1, d1, p1⟩ := declFormals_ok i.model (connsOf n idx i) hk.formals _ hd0
  have hl1 : s1.insts.length = idx := by rw [len_declFormals _ h1]; simpa using hlen
  have hn1 : namesOf s1 = namesOf st := by rw [nm_declFormals _ h1]; simp
  have hmap : infoMapOf (connsOf n idx i) = connsOf n idx i := infoMapOf_nodup _ hk.nodup
  let ty := if (decide (i.typ = "EBLIF.gate")) = true then "EBLIF.gate" else "EBLIF.subckt"
  let a := assignDefault (newInst s1 t i.model ty).1 s1.insts.length t i.model
  have hpa : ∀ fa ∈ connsOf n idx i, ∃ cn ci pn pi, splitIdx fa.2 = Except.ok (cn, ci) ∧
      splitIdx fa.1 = Except.ok (pn, pi) ∧ HasP a i.model pn := by
    intro fa hfa
    obtain ⟨pn, pi, e2⟩ := hk.formals fa hfa
    obtain ⟨cn, ci, e1⟩ := hk.actuals fa hfa
    exact ⟨cn, ci, pn, pi, e1, e2, (p1 fa hfa pn pi e2).mono (PMono.of_defs rfl)⟩
  obtain ⟨s2, h2⟩ := connectAll_ok s1.insts.length t i.model (connsOf n idx i) a hpa
  have hn2 : ∃ d, namesOf s2 = namesOf st ++ [d] := by
    obtain ⟨d, hd⟩ := nm_assignDefault (newInst s1 t i.model ty).1 s1.insts.length t i.model
    refine ⟨d, ?_⟩
    rw [nm_connectAll _ h2]
    show namesOf (assignDefault (newInst s1 t i.model ty).1 s1.insts.length t i.model) = _
    rw [hd, nm_newInst, hn1]
    have hl : s1.insts.length = (namesOf st).length := by simp [namesOf, hl1, hlen]
    rw [hl]
    exact set_append_last _ _ _
  obtain ⟨dflt, hn2⟩ := hn2
  have hl2 : s2.insts.length = idx + 1 := by
    have := congrArg List.length (ik_connectAll _ h2)
    simp only [instKinds, List.length_map] at this
    rw [this]
    show (assignDefault (newInst s1 t i.model ty).1 s1.insts.length t i.model).insts.length = idx + 1
    have := congrArg List.length (ik_assignDefault (newInst s1 t i.model ty).1 s1.insts.length t i.model)
    simp only [instKinds, List.length_map] at this
    rw [this]
    simp [newInst, hl1]
  -- info lines
  have hinfo : ∃ st', applyInfo s2 s1.insts.length t (infoStmts o i) = Except.ok st' ∧ st'.insts.length = idx + 1 ∧
      (o.writeCname = true → namesOf st' = namesOf st ++ [i.name]) := by
    unfold infoStmts
    by_cases hwc : o.writeCname = true
    · simp only [hwc, if_true, List.cons_append, List.nil_append, List.append_assoc]
      have hx2 : ∀ j, j ≠ s1.insts.length → (namesOf s2)[j]? ≠ some i.name := by
        intro j hj
        rw [hl1] at hj
        rw [hn2]
        have hlen' : (namesOf st).length = idx := by simp [namesOf, hlen]
        rcases Nat.lt_or_ge j idx with hlt | hge
        · rw [List.getElem?_append_left (by omega)]
          exact hx hwc j hj
        · have : (namesOf st ++ [dflt])[j]? = none := by
            rw [List.getElem?_eq_none_iff]; simp; omega
          rw [this]; simp
      obtain ⟨s3, h3, n3⟩ := applyInfo_cname_ok s2 s1.insts.length t i.name _ (infoStmts_nocname i) hx2
      refine ⟨s3, h3, ?_, fun _ => ?_⟩
      · have := congrArg List.length (ik_applyInfo _ h3)
        simp only [instKinds, List.length_map] at this
        rw [this]; exact hl2
      · rw [n3, hn2]
        have hl : s1.insts.length = (namesOf st).length := by simp [namesOf, hl1, hlen]
        rw [hl]
        exact set_append_last _ _ _
    · have hwf : o.writeCname = false := by simpa using hwc
      simp only [hwf, Bool.false_eq_true, if_false, List.nil_append]
      obtain ⟨s3, h3, _⟩ := applyInfo_nocname_ok s1.insts.length t _ (infoStmts_nocname i) s2
      refine ⟨s3, h3, ?_, fun h => by cases h⟩
      have := congrArg List.length (ik_applyInfo _ h3)
      simp only [instKinds, List.length_map] at this
      rw [this]; exact hl2
  obtain ⟨s3, h3, hl3, hn3⟩ := hinfo
  refine ⟨s3, ?_, hl3, hn3⟩
  unfold stmtOf elabStmt
  simp only [h1, bind, Except.bind]
  change (connectAll a s1.insts.length t i.model (infoMapOf (connsOf n idx i))).bind _ = _
  rw [hmap, h2]
  exact h3

end Spydr.Eblif
