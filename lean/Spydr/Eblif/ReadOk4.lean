/-
  The second read cannot fail (fragment): the body and the whole composed text.
-/
import Spydr.Eblif.ReadOk3

namespace Spydr.Eblif

/-- written instance names are pairwise different when `.cname` lines are written -/
def NamesOK (o : Opts) (n : BNet) : Prop := o.writeCname = true → (n.insts.map (·.name)).Nodup

instance (o : Opts) (n : BNet) : Decidable (NamesOK o n) := by unfold NamesOK; infer_instance

theorem body_ok (o : Opts) (n : BNet) (t : String) (hnd : NamesOK o n) :
    ∀ (l : List Inst) (m : Nat), (∀ k ∈ l.zipIdx m, KidOK o n t k ∧ n.insts[k.2]? = some k.1) →
    ∀ st : St, st.insts.length = m → (o.writeCname = true → namesOf st = (n.insts.take m).map (·.name)) →
      ∃ st', elabStmts st t ((l.zipIdx m).map (stmtOf o n)) = Except.ok st' := by
  intro l
  induction l with
  | nil => intro m _ st _ _; exact ⟨st, rfl⟩
  | cons a r ih =>
    intro m hk st hlen hnm
    obtain ⟨hkid, hget⟩ := hk (a, m) (by simp [List.zipIdx_cons])
    simp only at hget
    have hx : o.writeCname = true → ∀ j, j ≠ m → (namesOf st)[j]? ≠ some a.name := by
      intro hwc j hj hs
      rw [hnm hwc] at hs
      have hnd' := hnd hwc
      have hjm : j < m := by
        rcases Nat.lt_or_ge j m with h1 | h1
        · exact h1
        · rw [List.getElem?_eq_none_iff.mpr (by simp; omega)] at hs; cases hs
      have hmlt : m < n.insts.length := by
        rcases Nat.lt_or_ge m n.insts.length with h1 | h1
        · exact h1
        · rw [List.getElem?_eq_none_iff.mpr h1] at hget; cases hget
      have e1 : (n.insts.map (·.name))[j]? = some a.name := by
        rw [List.getElem?_map, List.getElem?_take_of_lt hjm] at hs
        rw [List.getElem?_map]; exact hs
      have e2 : (n.insts.map (·.name))[m]? = some a.name := by
        rw [List.getElem?_map, hget]; rfl
      have := (List.getElem?_inj (by simp; omega) hnd').mp (e1.trans e2.symm)
      exact hj this
    obtain ⟨s1, h1, hl1, hn1⟩ := stmtOf_ok o n t (a, m) hkid st hlen hx
    obtain ⟨s2, h2⟩ := ih (m + 1) (fun k hkm => hk k (by simp [List.zipIdx_cons, hkm])) s1 hl1 (by
      intro hwc
      rw [hn1 hwc, hnm hwc, List.take_add_one, hget]
      simp)
    refine ⟨s2, ?_⟩
    simp only [List.zipIdx_cons, List.map_cons]
    unfold elabStmts
    rw [h1]; exact h2

theorem kidOK_of (o : Opts) (n : BNet) (t : String) (hw : WellNamed n) (hn : NetOK n t) :
    ∀ k ∈ n.insts.zipIdx, KidOK o n t k := by
  intro k hk
  obtain ⟨_, _, _, hcb, hin⟩ := hn
  obtain ⟨hnd, _, _, hpp⟩ := hin k hk
  have hi : k.1 ∈ n.insts := mem_zipIdx_fst hk
  obtain ⟨_, hmod, _⟩ := hw.2.2.1 k.1 hi
  obtain ⟨_, hpn, _⟩ := findDef_ok hw hmod
  refine ⟨?_, ?_, hnd⟩
  · intro fa hfa
    unfold connsOf at hfa
    obtain ⟨p, hpm, hfa⟩ := List.mem_flatMap.mp hfa
    obtain ⟨q, hq, rfl⟩ := List.mem_map.mp hfa
    simp only [List.mem_filter, List.mem_reverse, decide_eq_true_eq] at hq
    obtain ⟨hpl, hb⟩ := hpp p hpm
    exact ⟨p.name, q.2, splitIdx_formalText p q.2 hpl (okWord_nonempty (hpn p hpm)) (hb q hq.1 hq.2)⟩
  · intro fa hfa
    unfold connsOf at hfa
    obtain ⟨p, _, hfa⟩ := List.mem_flatMap.mp hfa
    obtain ⟨q, _, rfl⟩ := List.mem_map.mp hfa
    exact splitIdx_netText_ok n _ (fun c hc => ⟨(hcb c hc).2.1, okWord_nonempty (hw.2.2.2.1 c hc)⟩)

/-- **The second read cannot fail** on the `.subckt`/`.gate` fragment, provided the written
    `.cname`s are pairwise different (`NamesOK`; without it the statement is false, see
    `read_fails_on_equal_names`). -/
theorem read_ok (o : Opts) (n : BNet) (t : String) (hw : WellNamed n) (hf : FragP o n t) (hn : NetOK n t)
    (hnm : NamesOK o n) : ∃ n', readB (composeText o n) = Except.ok n' := by
  have ht : okWord t = true := hw.2.2.2.2 t hf.top
  rw [read_composeText o n hw, parse_composeLines o n t hf]
  simp only [bind, Except.bind]
  have hh := hdrOK_of n t hw ht hn
  -- header
  obtain ⟨s1, h1⟩ := elabToks_ok elabInput elabInput_ok t _ (fun w hwm => by
    obtain ⟨pn, pi, hs, _⟩ := hh.ins w hwm; exact ⟨pn, pi, hs⟩) (beginModel {} t)
  obtain ⟨s2, h2⟩ := elabToks_ok elabOutput elabOutput_ok t _ (fun w hwm => by
    obtain ⟨pn, pi, hs, _⟩ := hh.outs w hwm; exact ⟨pn, pi, hs⟩) s1
  have hik : instKinds s2 = [] := by
    rw [ik_elabToks elabOutput (fun h => ik_elabOutput h) _ h2,
      ik_elabToks elabInput (fun h => ik_elabInput h) _ h1, ik_beginModel]
    rfl
  have hlen0 : s2.insts.length = 0 := by
    have := congrArg List.length hik; simpa [instKinds] using this
  have hnames0 : namesOf s2 = [] := by
    simp only [namesOf]
    have : s2.insts = [] := List.eq_nil_of_length_eq_zero hlen0
    rw [this]; rfl
  -- body
  obtain ⟨s3, h3⟩ := body_ok o n t hnm n.insts 0 (fun k hk =>
    ⟨kidOK_of o n t hw hn k hk, List.mem_zipIdx_iff_getElem?.mp hk⟩) s2 hlen0 (fun _ => by simp [hnames0])
  have hmodel : elabModel {} { name := t, hdr := hdrOf (n.findDef t), body := (kidsOrd n t).map (stmtOf o n) } = Except.ok s3 := by
    unfold elabModel
    simp only [hdrOf, elabHdrs, elabHdr, bind, Except.bind]
    have e1 : elabToks elabInput (beginModel {} t) t ((insPorts (n.findDef t)).flatMap portBits) = Except.ok s1 := h1
    simp only [insPorts, outsPorts] at e1 h2
    rw [e1]
    simp only [h2, pure, Except.pure]
    rw [hn.1]; exact h3
  obtain ⟨n', hc⟩ := applyConvention_ok (List.range s3.insts.length)
    ({ s3 with comments := (astOf o n t).comments } : St).toNet
  refine ⟨n', ?_⟩
  unfold elabB elabSt
  simp only [astOf, elabModels, hmodel, bind, Except.bind, pure, Except.pure]
  exact hc

/-- round trip without the success hypothesis -/
theorem roundtrip_subckt_total (o : Opts) (n : BNet) (t : String) (hw : WellNamed n) (hf : FragP o n t)
    (hn : NetOK n t) (hnm : NamesOK o n) :
    ∃ n', readB (composeText o n) = Except.ok n' ∧
      n'.insts.map kindOf = n.insts.map kindOf ∧
      (∀ j : Nat, (n'.insts[j]?).map infoOf =
        (n.insts[j]?).map (fun (i : Inst) => (if o.writeCname then some i.name else none, i.attrs, i.params))) ∧
      (∀ x k, OnNet n' x k ↔ OnNet n x k) := by
  obtain ⟨n', h⟩ := read_ok o n t hw hf hn hnm
  exact ⟨n', h, roundtrip_subckt o n t hw hf hn n' h⟩

end Spydr.Eblif
