/-
  Round trip, base lemmas: `splitIdx` undoes the writer's `name[index]`, pins sit on live wires
  only (`PinsLive`), the net-derived renaming pass changes names only.
-/
import Spydr.Eblif.RoundTripParse

namespace Spydr.Eblif

/-! ### `splitIdx` on what the writer prints -/

theorem isDigit_of_toDigits {c : Char} {n : Nat} (h : c ∈ Nat.toDigits 10 n) : isDigit c = true := by
  have hd := digit_bounds (Nat.isDigit_of_mem_toDigits (by decide) (by decide) h)
  unfold isDigit
  have h0 : ('0' : Char).toNat = 48 := by decide
  have h9 : ('9' : Char).toNat = 57 := by decide
  simp only [Bool.and_eq_true, decide_eq_true_eq]
  constructor
  · rw [Char.le_def, UInt32.le_iff_toNat_le]; exact hd.1
  · rw [Char.le_def, UInt32.le_iff_toNat_le]; exact hd.2

theorem digitsToNat_natStr (n : Nat) : digitsToNat (natStr n).toList = n := by
  have : (natStr n).toList = Nat.toDigits 10 n := by simp [natStr]
  rw [this]
  exact Nat.ofDigitChars_ten_toDigits

theorem takeWhile_all {α : Type} (p : α → Bool) (l : List α) (h : ∀ x ∈ l, p x = true) : l.takeWhile p = l := by
  induction l with
  | nil => rfl
  | cons a r ih =>
    simp only [List.takeWhile, h a (by simp)]
    rw [ih (fun x hx => h x (by simp [hx]))]

theorem takeWhile_append_stop {α : Type} (p : α → Bool) (l : List α) (a : α) (r : List α)
    (h : ∀ x ∈ l, p x = true) (ha : p a = false) : (l ++ a :: r).takeWhile p = l := by
  induction l with
  | nil => simp [List.takeWhile, ha]
  | cons b t ih =>
    simp only [List.cons_append, List.takeWhile, h b (by simp)]
    rw [ih (fun x hx => h x (by simp [hx]))]

/-- S1: `name[index]` is read back as (name, index), whatever the name -/
theorem splitIdx_idx (a : String) (i : Nat) : splitIdx (a ++ "[" ++ natStr i ++ "]") = Except.ok (a, i) := by
  have hl : (a ++ "[" ++ natStr i ++ "]").toList = a.toList ++ '[' :: ((natStr i).toList ++ [']']) := by
    simp [String.toList_append]
  have hdig : ∀ c ∈ (natStr i).toList, isDigit c = true := by
    intro c hc
    exact isDigit_of_toDigits (by simpa [natStr] using hc)
  have hnb : ∀ c ∈ (natStr i).toList, c ≠ '[' ∧ c ≠ ']' ∧ c ≠ ':' := by
    intro c hc
    have hd := digit_bounds (Nat.isDigit_of_mem_toDigits (by decide) (by decide) (by simpa [natStr] using hc : c ∈ Nat.toDigits 10 i))
    refine ⟨?_, ?_, ?_⟩ <;> (intro he; subst he; simp at hd)
  have hne : (natStr i).toList ≠ [] := by
    have : (natStr i).toList = Nat.toDigits 10 i := by simp [natStr]
    rw [this]; exact Nat.toDigits_ne_nil
  unfold splitIdx
  simp only [hl]
  have hlast : (a.toList ++ '[' :: ((natStr i).toList ++ [']'])).getLast? = some ']' := by
    have : a.toList ++ '[' :: ((natStr i).toList ++ [']']) = (a.toList ++ '[' :: (natStr i).toList) ++ [']'] := by simp
    rw [this, List.getLast?_concat]
  rw [hlast]
  simp only [ne_eq, not_true_eq_false, if_false]
  have hrf : rfindOpen (a.toList ++ '[' :: ((natStr i).toList ++ [']'])) = some a.toList.length := by
    unfold rfindOpen
    have hrev : (a.toList ++ '[' :: ((natStr i).toList ++ [']'])).reverse =
        (']' :: (natStr i).toList.reverse) ++ '[' :: a.toList.reverse := by simp
    rw [hrev, takeWhile_append_stop _ _ _ _ (by
      intro x hx
      simp only [List.mem_cons, List.mem_reverse] at hx
      rcases hx with rfl | hx
      · decide
      · simpa using (hnb x hx).1) (by simp)]
    simp only [List.length_cons, List.length_reverse, List.length_append, List.length_nil]
    split
    · omega
    · congr 1; omega
  rw [hrf]
  simp only
  have hdrop : (a.toList ++ '[' :: ((natStr i).toList ++ [']'])).drop (a.toList.length + 1) = (natStr i).toList ++ [']'] := by
    rw [List.drop_append]
    simp
  have htake : (a.toList ++ '[' :: ((natStr i).toList ++ [']'])).take a.toList.length = a.toList := by
    rw [List.take_append]
    simp
  rw [hdrop, htake]
  rw [takeWhile_append_stop _ _ _ _ (by intro x hx; simpa using (hnb x hx).2.1) (by simp)]
  rw [takeWhile_all _ _ (by intro x hx; simpa using (hnb x hx).2.2)]
  have hc : ((natStr i).toList ≠ [] && (natStr i).toList.all isDigit) = true := by
    simp only [Bool.and_eq_true, List.all_eq_true]
    exact ⟨by simpa using hne, hdig⟩
  rw [if_pos hc, digitsToNat_natStr, String.ofList_toList]

/-- S2: a name that does not end in `]` is read back as (name, 0) -/
theorem splitIdx_plain (a : String) (h : ∀ c, a.toList.getLast? = some c → c ≠ ']') (hne : a.toList ≠ []) :
    splitIdx a = Except.ok (a, 0) := by
  unfold splitIdx
  cases hl : a.toList.getLast? with
  | none =>
    rw [List.getLast?_eq_none_iff] at hl
    exact absurd hl hne
  | some c =>
    simp only [hl]
    rw [if_pos (h c hl)]

/-! ### pins sit on live wires only -/

def PinsLive (st : St) : Prop := ∀ k, st.pins k ≠ [] → Live st k

theorem PinsLive.init : PinsLive ({} : St) := fun k h => absurd rfl h

theorem PinsLive.of_fields {st st' : St} (h : netFields st' = netFields st) (w : PinsLive st) : PinsLive st' := by
  have hl := live_of_fields h
  simp only [netFields, Prod.mk.injEq] at h
  intro k hk
  rw [h.1] at hk
  exact (hl k).mpr (w k hk)

theorem pinsLive_connect {st : St} (w : WF st) (pl : PinsLive st) (p : Pin) (o n : String) (i : Nat) :
    PinsLive (connect st p o n i) := by
  have hx := ext_connect st p o n i
  have hlive := (connect_joins st p o n i).2
  have hwf := wf_connect w p o n i
  intro k hk
  by_cases he : k = (connect st p o n i).alias (o, n, i)
  · rw [he]; exact hwf.tgt _ hlive
  · have : (connect st p o n i).pins k = st.pins k := by
      unfold connect at he ⊢
      simp only [upd]
      have hpa := pa_ensureWire st o n i
      simp only [paFields, Prod.mk.injEq] at hpa
      rw [if_neg he, hpa.1]
    rw [this] at hk
    exact hx.live k (pl k hk)

theorem pinsLive_mergeKeys {st : St} (w : WF st) (pl : PinsLive st) (ka kb : Key) (la : Live st ka) :
    PinsLive (mergeKeys st ka kb) := by
  intro k hk
  rw [live_mergeKeys]
  unfold mergeKeys at hk
  simp only [] at hk
  split at hk
  · exact pl k hk
  · simp only [upd] at hk
    split at hk
    · exact absurd rfl hk
    · split at hk
      · rename_i h1 h2
        rw [h2]
        exact w.tgt ka la
      · exact pl k hk

theorem pinsLive_clearOwner {st : St} (pl : PinsLive st) (o : String) : PinsLive (clearOwner st o) := by
  intro k hk
  by_cases h : k.1 = o
  · simp [clearOwner, h] at hk
  · have hp : (clearOwner st o).pins k = st.pins k := by simp [clearOwner, h]
    rw [hp] at hk
    have := pl k hk
    simp only [Live, clearOwner, List.mem_filter, decide_eq_true_eq]
    exact ⟨⟨this.1, h⟩, by simp only [h, if_false]; exact this.2⟩

end Spydr.Eblif
