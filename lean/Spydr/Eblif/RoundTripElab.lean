/-
  Round trip: what the elaborator makes of `astOf o n t` (state level).
-/
import Spydr.Eblif.RoundTripHdr

namespace Spydr.Eblif

/-- joins of the instance statements of `ks`, the first one creating instance `m` -/
def ksJoins (n : BNet) (t : String) : Nat → List (Inst × Nat) → List (Pin × Key)
  | _, [] => []
  | m, k :: r => (infoMapOf (connsOf n k.2 k.1)).flatMap (joinOf m t) ++ ksJoins n t (m + 1) r

theorem declaredJoins_stmtOf (o : Opts) (n : BNet) (t : String) (ks : List (Inst × Nat)) :
    ∀ m, declaredJoins m t (ks.map (stmtOf o n)) = ksJoins n t m ks := by
  induction ks with
  | nil => intro m; rfl
  | cons k r ih => intro m; simp [stmtOf, declaredJoins, ksJoins, ih]

theorem stmtOf_isSubckt (o : Opts) (n : BNet) (ks : List (Inst × Nat)) :
    ∀ s ∈ ks.map (stmtOf o n), isSubckt s = true ∧ noNames s = true ∧ s ≠ Stmt.blackbox := by
  intro s hs
  obtain ⟨k, _, rfl⟩ := List.mem_map.mp hs
  exact ⟨rfl, rfl, by simp [stmtOf]⟩

theorem data_ks (o : Opts) (n : BNet) (t : String) (ks : List (Inst × Nat)) :
    ∀ {st st' : St}, elabStmts st t (ks.map (stmtOf o n)) = Except.ok st' →
      ∀ j (hj : j < ks.length), dataAt st' (st.insts.length + j) = some (infoFold (infoStmts o ks[j].1) (none, [], [])) := by
  induction ks with
  | nil => intro st st' _ j hj; simp at hj
  | cons k r ih =>
    intro st st' h j hj
    simp only [List.map_cons] at h
    unfold elabStmts at h
    obtain ⟨s1, h1, h2⟩ := bind_ok h
    clear h
    have hlen : s1.insts.length = st.insts.length + 1 := by
      have := congrArg List.length (ik_elabStmt h1); simpa [instKinds, stmtKind, stmtOf] using this
    cases j with
    | zero =>
      have := data_elabStmts_old (r.map (stmtOf o n)) (j := st.insts.length) (by omega) h2
      simp only [Nat.add_zero, List.getElem_cons_zero]
      rw [this]
      exact elabStmt_subckt_data h1
    | succ j =>
      have := ih h2 j (by simpa using hj)
      rw [hlen] at this
      simp only [List.getElem_cons_succ]
      rw [← this]
      congr 1
      omega

theorem beginModel_defEx (t : String) : DefEx (beginModel {} t) t := by
  simp [DefEx, beginModel, ensureDef, findDef, updDef]

theorem beginModel_hasPort (t pn : String) : hasPort (beginModel {} t) t pn = false := by
  simp [hasPort, beginModel, ensureDef, findDef, updDef, findPort]

theorem nf_beginModel (st : St) (t : String) : netFields (beginModel st t) = netFields st := by
  have e : netFields (updDef (ensureDef st t) t (fun d => { d with declared := true })) = netFields st :=
    (nf_updDef _ _ _).trans (nf_ensureDef _ _)
  unfold beginModel
  simp only []
  split
  · exact e
  · exact e

/-- hypotheses on the words of the header -/
structure HdrOK (t : String) (iw ow : List String) (OUTS : List String) : Prop where
  ins : ∀ w ∈ iw, ∃ pn pi, splitIdx w = Except.ok (pn, pi) ∧ pn ∉ OUTS
  outs : ∀ w ∈ ow, ∃ pn pi, splitIdx w = Except.ok (pn, pi) ∧ pn ∈ OUTS

/-- state-level facts about elaborating a one-model AST whose body are instance statements -/
theorem elab_model_facts (o : Opts) (n : BNet) (t : String) (iw ow OUTS : List String) (ks : List (Inst × Nat))
    (hh : HdrOK t iw ow OUTS) (st : St)
    (h : elabModel {} { name := t, hdr := [Hdr.inputs iw, Hdr.outputs ow], body := ks.map (stmtOf o n) } = Except.ok st) :
    instKinds st = (ks.map (stmtOf o n)).flatMap (stmtKind t) ∧
    (∀ x k, x ∈ st.pins k ↔ (x, k) ∈ (wordJoins t iw ++ wordJoins t ow) ++ ksJoins n t 0 ks) ∧
    PinsLive st ∧
    (∀ j (hj : j < ks.length), dataAt st j = some (infoFold (infoStmts o ks[j].1) (none, [], []))) := by
  unfold elabModel at h
  obtain ⟨sh, hhdr, hbody⟩ := bind_ok h
  simp only at hhdr hbody
  -- header
  unfold elabHdrs at hhdr
  obtain ⟨s1, hin, hhdr⟩ := bind_ok hhdr
  unfold elabHdrs at hhdr
  obtain ⟨s2, hout, hhdr⟩ := bind_ok hhdr
  unfold elabHdrs at hhdr
  cases hhdr
  simp only [elabHdr] at hin hout
  have hoi : OutInv (beginModel {} t) t OUTS := by
    intro pn _ hp
    rw [beginModel_hasPort] at hp
    cases hp
  have hi0 : HInv (beginModel {} t) t OUTS [] :=
    ⟨beginModel_defEx t, hoi,
     RInv.of_fields (nf_beginModel _ _) RInv.init, Exact.of_pa (pa_of_nf (nf_beginModel _ _)) Exact.init⟩
  have hi1 := hinv_inputs t OUTS iw hh.ins hi0 hin
  have hi2 := hinv_outputs t OUTS ow hh.outs hi1 hout
  have hik : instKinds sh = [] := by
    rw [ik_elabToks elabOutput (fun h => ik_elabOutput h) ow hout,
      ik_elabToks elabInput (fun h => ik_elabInput h) iw hin, ik_beginModel]
    rfl
  have hlen0 : sh.insts.length = 0 := by
    have := congrArg List.length hik; simpa [instKinds] using this
  have hsub := stmtOf_isSubckt o n ks
  -- body
  have hex := exact_elabStmts (ks.map (stmtOf o n)) (fun s hs => (hsub s hs).2.2) hi2.ex hbody
  rw [bodyJoins_closed t _ (fun s hs => (hsub s hs).2.1) hbody, hlen0, declaredJoins_stmtOf] at hex
  have hr := rinv_elabStmts (ks.map (stmtOf o n)) (fun s hs => (hsub s hs).1) hi2.rinv hbody
  refine ⟨?_, ?_, hr.pl, ?_⟩
  · rw [ik_elabStmts _ hbody, hik]; rfl
  · intro x k
    rw [hex x k]
    simp only [List.nil_append, hr.aid, id]
    constructor
    · rintro ⟨k', h1, h2⟩; rw [← h2]; exact h1
    · intro h1; exact ⟨k, h1, rfl⟩
  · intro j hj
    have := data_ks o n t ks hbody j hj
    rw [hlen0, Nat.zero_add] at this
    exact this

end Spydr.Eblif
