/-
  Round trip: the model header.  Processing the `.inputs` / `.outputs` words of a port list whose
  input and output names are apart joins every word's pin to the bit of the same name.
-/
import Spydr.Eblif.RoundTripInv

namespace Spydr.Eblif

theorem findIn_map_other (ps : List PortD) (pn : String) (g : PortD → PortD) (hg : ∀ p, (g p).name = p.name)
    (ho : ∀ p, p.name = pn → g p = p) : findIn (ps.map g) pn = findIn ps pn := by
  rw [findIn_map_same ps pn g hg]
  cases hf : findIn ps pn with
  | none => rfl
  | some p =>
    have hn : p.name = pn := by
      have := List.find?_some hf
      simpa using this
    simp [ho p hn]

theorem findIn_append_other (ps : List PortD) (q : PortD) (pn : String) (h : q.name ≠ pn) :
    findIn (ps ++ [q]) pn = findIn ps pn := by
  unfold findIn
  rw [List.find?_append]
  cases List.find? (fun q => decide (q.name = pn)) ps with
  | some p => rfl
  | none => simp [h]

def DefEx (st : St) (t : String) : Prop := (findDef st t).isSome = true

theorem frame_setDir (st : St) (t pn' pn : String) (d : Dir) (hd : DefEx st t) (hne : pn' ≠ pn) :
    findIn (portsOf (setDir st t pn' d) t) pn = findIn (portsOf st t) pn := by
  unfold setDir
  rw [portsOf_updPorts st t (fun ps => ps.map (fun p => if p.name = pn' then { p with dir := d } else p)) hd]
  apply findIn_map_other
  · intro p; split <;> rfl
  · intro p hp
    have : ¬ p.name = pn' := by rw [hp]; exact fun e => hne e.symm
    simp [this]

theorem frame_growPort (st : St) (t pn' pn : String) (w : Nat) (hd : DefEx st t) (hne : pn' ≠ pn) :
    findIn (portsOf (growPort st t pn' w) t) pn = findIn (portsOf st t) pn := by
  unfold growPort
  simp only []
  split
  · rfl
  · rw [portsOf_of_defs (defs_appendPins _ _ _),
      portsOf_updPorts st t (fun ps => ps.map (fun p => if p.name = pn' then { p with width := w } else p)) hd]
    apply findIn_map_other
    · intro p; split <;> rfl
    · intro p hp
      have : ¬ p.name = pn' := by rw [hp]; exact fun e => hne e.symm
      simp [this]

theorem frame_addPort (st : St) (t pn' pn : String) (d : Dir) (w : Nat) (hd : DefEx st t) (hne : pn' ≠ pn) :
    findIn (portsOf (addPort st t pn' d w) t) pn = findIn (portsOf st t) pn := by
  unfold addPort
  split
  · rfl
  · rw [portsOf_of_defs (defs_appendPins _ _ _)]
    have e := portsOf_updPorts st t (fun ps => ps ++ [({ name := pn', dir := d, width := w } : PortD)]) hd
    rw [e]
    exact findIn_append_other _ _ _ hne

theorem portDir_of_findIn {a b : St} {t pn : String} (h : findIn (portsOf b t) pn = findIn (portsOf a t) pn) :
    portDir b t pn = portDir a t pn ∧ hasPort b t pn = hasPort a t pn := by
  rw [portDir_eq, portDir_eq, hasPort_eq, hasPort_eq, h]
  exact ⟨rfl, rfl⟩

/-- `.inputs word`: other ports of the model keep direction and existence; the definition stays -/
theorem elabInput_frame {st st' : St} {t tok pn' : String} {pi : Nat} (hd : DefEx st t)
    (hs : splitIdx tok = Except.ok (pn', pi)) (h : elabInput st t tok = Except.ok st') :
    DefEx st' t ∧ ∀ pn, pn' ≠ pn → portDir st' t pn = portDir st t pn ∧ hasPort st' t pn = hasPort st t pn := by
  unfold elabInput at h
  rw [hs] at h
  simp only [bind, Except.bind, pure, Except.pure] at h
  cases h
  by_cases hh : hasPort st t pn' = true
  · simp only [hh, if_true]
    obtain ⟨_, _, h3⟩ := setDir_port st t pn' Dir.inp hd hh
    obtain ⟨_, _, g3⟩ := growPort_port (setDir st t pn' Dir.inp) t pn' (pi + 1) h3
    refine ⟨by unfold DefEx; rw [findDef_of_defs (defs_connect _ _ _ _ _)]; exact g3, ?_⟩
    intro pn hne
    apply portDir_of_findIn
    rw [portsOf_of_defs (defs_connect _ _ _ _ _), frame_growPort _ _ _ _ _ h3 hne, frame_setDir _ _ _ _ _ hd hne]
  · have hf : hasPort st t pn' = false := by simpa using hh
    simp only [hf, Bool.false_eq_true, if_false]
    obtain ⟨_, _, h3⟩ := addPort_port st t pn' Dir.inp 0 hd hf
    obtain ⟨_, _, g3⟩ := growPort_port (addPort st t pn' Dir.inp 0) t pn' (pi + 1) h3
    refine ⟨by unfold DefEx; rw [findDef_of_defs (defs_connect _ _ _ _ _)]; exact g3, ?_⟩
    intro pn hne
    apply portDir_of_findIn
    rw [portsOf_of_defs (defs_connect _ _ _ _ _), frame_growPort _ _ _ _ _ h3 hne, frame_addPort _ _ _ _ _ _ hd hne]

/-- `.outputs word` for a word that is not an input port: the port is OUT afterwards, other ports
    keep direction and existence -/
theorem elabOutput_frame {st st' : St} {t tok pn' : String} {pi : Nat} (hd : DefEx st t)
    (hs : splitIdx tok = Except.ok (pn', pi))
    (hdir : portDir (addPort st t pn' Dir.out 0) t pn' = Dir.out)
    (h : elabOutput st t tok = Except.ok st') :
    DefEx st' t ∧ portDir st' t pn' = Dir.out ∧
    ∀ pn, pn' ≠ pn → portDir st' t pn = portDir st t pn ∧ hasPort st' t pn = hasPort st t pn := by
  unfold elabOutput at h
  rw [hs] at h
  simp only [bind, Except.bind, pure, Except.pure, hdir] at h
  simp only [show (Dir.out = Dir.inp) = False by simp, show (Dir.out = Dir.inout) = False by simp,
    decide_false, Bool.or_self, Bool.false_eq_true, if_false] at h
  cases h
  obtain ⟨hh0, hd0⟩ := addPort_has st t pn' Dir.out 0 hd
  obtain ⟨h1, h2, h3⟩ := setDir_port _ t pn' Dir.out hd0 hh0
  obtain ⟨g1, _, g3⟩ := growPort_port (setDir (addPort st t pn' Dir.out 0) t pn' Dir.out) t pn' (pi + 1) h3
  refine ⟨by unfold DefEx; rw [findDef_of_defs (defs_connect _ _ _ _ _)]; exact g3, ?_, ?_⟩
  · unfold portDir
    rw [findDef_of_defs (defs_connect _ _ _ _ _)]
    show portDir _ t pn' = Dir.out
    rw [g1, h1]
  · intro pn hne
    apply portDir_of_findIn
    rw [portsOf_of_defs (defs_connect _ _ _ _ _), frame_growPort _ _ _ _ _ h3 hne, frame_setDir _ _ _ _ _ hd0 hne,
      frame_addPort _ _ _ _ _ _ hd hne]

/-- the joins a list of header words declares -/
def wordJoins (t : String) (ws : List String) : List (Pin × Key) :=
  ws.flatMap (fun w => match splitIdx w with
    | Except.ok (pn, pi) => [(Pin.top t pn pi, (t, pn, pi))]
    | Except.error _ => [])

/-- every port named in `OUTS` that exists is an OUT port -/
def OutInv (st : St) (t : String) (OUTS : List String) : Prop :=
  ∀ pn ∈ OUTS, hasPort st t pn = true → portDir st t pn = Dir.out

structure HInv (st : St) (t : String) (OUTS : List String) (J : List (Pin × Key)) : Prop where
  dex : DefEx st t
  oinv : OutInv st t OUTS
  rinv : RInv st
  ex : Exact st J

theorem hinv_inputs (t : String) (OUTS : List String) (ws : List String)
    (hws : ∀ w ∈ ws, ∃ pn pi, splitIdx w = Except.ok (pn, pi) ∧ pn ∉ OUTS) :
    ∀ {st st' : St} {J : List (Pin × Key)}, HInv st t OUTS J → elabToks elabInput st t ws = Except.ok st' →
      HInv st' t OUTS (J ++ wordJoins t ws) := by
  induction ws with
  | nil => intro st st' J hi h; cases h; simpa [wordJoins] using hi
  | cons w r ih =>
    intro st st' J hi h
    unfold elabToks at h
    obtain ⟨s1, h1, h2⟩ := bind_ok h
    clear h
    obtain ⟨pn, pi, hs, hno⟩ := hws w (by simp)
    obtain ⟨d1, fr⟩ := elabInput_frame hi.dex hs h1
    have hi1 : HInv s1 t OUTS (J ++ [(Pin.top t pn pi, (t, pn, pi))]) := by
      refine ⟨d1, ?_, rinv_elabInput hi.rinv h1, exact_elabInput hi.ex hs h1⟩
      intro q hq hh
      have hne : pn ≠ q := fun e => hno (e ▸ hq)
      obtain ⟨f1, f2⟩ := fr q hne
      rw [f1]; rw [f2] at hh; exact hi.oinv q hq hh
    have := ih (fun x hx => hws x (by simp [hx])) hi1 h2
    simpa [wordJoins, hs, List.append_assoc] using this

theorem hinv_outputs (t : String) (OUTS : List String) (ws : List String)
    (hws : ∀ w ∈ ws, ∃ pn pi, splitIdx w = Except.ok (pn, pi) ∧ pn ∈ OUTS) :
    ∀ {st st' : St} {J : List (Pin × Key)}, HInv st t OUTS J → elabToks elabOutput st t ws = Except.ok st' →
      HInv st' t OUTS (J ++ wordJoins t ws) := by
  induction ws with
  | nil => intro st st' J hi h; cases h; simpa [wordJoins] using hi
  | cons w r ih =>
    intro st st' J hi h
    unfold elabToks at h
    obtain ⟨s1, h1, h2⟩ := bind_ok h
    clear h
    obtain ⟨pn, pi, hs, hin⟩ := hws w (by simp)
    have hdir : portDir (addPort st t pn Dir.out 0) t pn = Dir.out := by
      by_cases hh : hasPort st t pn = true
      · have : addPort st t pn Dir.out 0 = st := by unfold addPort; simp [hh]
        rw [this]; exact hi.oinv pn hin hh
      · exact (addPort_port st t pn Dir.out 0 hi.dex (by simpa using hh)).1
    obtain ⟨d1, ho, fr⟩ := elabOutput_frame hi.dex hs hdir h1
    have hi1 : HInv s1 t OUTS (J ++ [(Pin.top t pn pi, (t, pn, pi))]) := by
      refine ⟨d1, ?_, rinv_elabOutput hi.rinv h1, exact_elabOutput hi.ex hs hdir h1⟩
      intro q hq hh
      by_cases hne : pn = q
      · subst hne; exact ho
      · obtain ⟨f1, f2⟩ := fr q hne
        rw [f1]; rw [f2] at hh; exact hi.oinv q hq hh
    have := ih (fun x hx => hws x (by simp [hx])) hi1 h2
    simpa [wordJoins, hs, List.append_assoc] using this

end Spydr.Eblif
