/-
  Round trip: invariants of the elaborator on `.conn`-free input (alias table = identity, pins on
  live wires, WF), exactness through the model header.
-/
import Spydr.Eblif.RoundTripBase

namespace Spydr.Eblif

structure RInv (st : St) : Prop where
  wf : WF st
  pl : PinsLive st
  aid : st.alias = id

theorem RInv.init : RInv ({} : St) := ⟨WF.init, PinsLive.init, rfl⟩

theorem RInv.of_fields {st st' : St} (h : netFields st' = netFields st) (r : RInv st) : RInv st' := by
  refine ⟨WF.of_fields h r.wf, PinsLive.of_fields h r.pl, ?_⟩
  simp only [netFields, Prod.mk.injEq] at h
  rw [h.2.1]; exact r.aid

theorem rinv_connect {st : St} (r : RInv st) (p : Pin) (o n : String) (i : Nat) : RInv (connect st p o n i) :=
  ⟨wf_connect r.wf p o n i, pinsLive_connect r.wf r.pl p o n i, by rw [alias_connect]; exact r.aid⟩

theorem rinv_connectOne {st st' : St} {idx : Nat} {parent model : String} {fa : String × String}
    (r : RInv st) (h : connectOne st idx parent model fa = Except.ok st') : RInv st' := by
  obtain ⟨cn, ci, pn, pi, _, _, hc⟩ := connectOne_cases h
  rcases hc with ⟨_, hf⟩ | ⟨_, hs⟩
  · exact RInv.of_fields hf r
  · subst hs
    exact rinv_connect (RInv.of_fields (by simp) r) _ _ _ _

theorem rinv_connectAll {idx : Nat} {parent model : String} (l : List (String × String)) :
    ∀ {st st' : St}, RInv st → connectAll st idx parent model l = Except.ok st' → RInv st' := by
  induction l with
  | nil => intro st st' r h; cases h; exact r
  | cons fa t ih =>
    intro st st' r h
    unfold connectAll at h
    obtain ⟨s1, h1, h⟩ := bind_ok h
    exact ih (rinv_connectOne r h1) h

theorem rinv_elabStmt_subckt {st st' : St} {cur : String} {gate : Bool} {model : String}
    {conns : List (String × String)} {info : List InfoStmt} (r : RInv st)
    (h : elabStmt st cur (Stmt.subckt gate model conns info) = Except.ok st') : RInv st' := by
  unfold elabStmt at h
  simp only [] at h
  obtain ⟨s1, h1, h⟩ := bind_ok h
  obtain ⟨s2, h2, h⟩ := bind_ok h
  have r1 : RInv s1 := RInv.of_fields (by rw [nf_declFormals conns h1]; simp) r
  have r2 : RInv s2 := rinv_connectAll _ (RInv.of_fields ((nf_assignDefault _ _ _ _).trans (nf_newInst _ _ _ _)) r1) h2
  exact RInv.of_fields (nf_applyInfo info h) r2

def isSubckt : Stmt → Bool
  | Stmt.subckt _ _ _ _ => true
  | _ => false

theorem rinv_elabStmts {cur : String} (l : List Stmt) (hl : ∀ s ∈ l, isSubckt s = true) :
    ∀ {st st' : St}, RInv st → elabStmts st cur l = Except.ok st' → RInv st' := by
  induction l with
  | nil => intro st st' r h; cases h; exact r
  | cons s t ih =>
    intro st st' r h
    unfold elabStmts at h
    obtain ⟨s1, h1, h2⟩ := bind_ok h
    clear h
    have hs := hl s (by simp)
    cases s with
    | subckt g m c i => exact ih (fun x hx => hl x (by simp [hx])) (rinv_elabStmt_subckt r h1) h2
    | names a b c => simp [isSubckt] at hs
    | latch a b => simp [isSubckt] at hs
    | conn a b => simp [isSubckt] at hs
    | blackbox => simp [isSubckt] at hs

/-! ### header -/

theorem rinv_elabInput {st st' : St} {cur tok : String} (r : RInv st) (h : elabInput st cur tok = Except.ok st') :
    RInv st' := by
  unfold elabInput at h
  obtain ⟨⟨pn, pi⟩, _, h⟩ := bind_ok h
  simp only [] at h
  cases h
  refine rinv_connect (RInv.of_fields ?_ r) _ _ _ _
  rw [nf_growPort]
  split <;> simp

theorem rinv_elabOutput {st st' : St} {cur tok : String} (r : RInv st) (h : elabOutput st cur tok = Except.ok st') :
    RInv st' := by
  unfold elabOutput at h
  obtain ⟨⟨pn, pi⟩, _, h⟩ := bind_ok h
  simp only [] at h
  split at h
  · cases h; exact RInv.of_fields (by simp) r
  · cases h
    exact rinv_connect (RInv.of_fields (by simp) r) _ _ _ _

theorem exact_elabInput {st st' : St} {J : List (Pin × Key)} {cur tok pn : String} {pi : Nat}
    (e : Exact st J) (hs : splitIdx tok = Except.ok (pn, pi)) (h : elabInput st cur tok = Except.ok st') :
    Exact st' (J ++ [(Pin.top cur pn pi, (cur, pn, pi))]) := by
  unfold elabInput at h
  rw [hs] at h
  simp only [bind, Except.bind, pure, Except.pure] at h
  cases h
  refine exact_connect (Exact.of_pa (pa_of_nf ?_) e) _ _ _ _
  rw [nf_growPort]
  split <;> simp

/-- when the word does not name an existing input port, `.outputs word` joins its pin -/
theorem exact_elabOutput {st st' : St} {J : List (Pin × Key)} {cur tok pn : String} {pi : Nat}
    (e : Exact st J) (hs : splitIdx tok = Except.ok (pn, pi))
    (hd : portDir (addPort st cur pn Dir.out 0) cur pn = Dir.out)
    (h : elabOutput st cur tok = Except.ok st') :
    Exact st' (J ++ [(Pin.top cur pn pi, (cur, pn, pi))]) := by
  unfold elabOutput at h
  rw [hs] at h
  simp only [bind, Except.bind, pure, Except.pure, hd] at h
  simp only [show (Dir.out = Dir.inp) = False by simp, show (Dir.out = Dir.inout) = False by simp,
    decide_false, Bool.or_self, Bool.false_eq_true, if_false] at h
  cases h
  exact exact_connect (Exact.of_pa (pa_of_nf (by simp)) e) _ _ _ _

end Spydr.Eblif
