/-
  Round trip: the joins the written instance statements declare, evaluated against the netlist
  they were written from.
-/
import Spydr.Eblif.RoundTripNet

namespace Spydr.Eblif

theorem mem_ksJoins (n : BNet) (t : String) (x : Pin) (key : Key) (l : List Inst) :
    ∀ m, (x, key) ∈ ksJoins n t m (l.zipIdx m) ↔
      ∃ k ∈ l.zipIdx m, (x, key) ∈ (infoMapOf (connsOf n k.2 k.1)).flatMap (joinOf k.2 t) := by
  induction l with
  | nil => intro m; simp [ksJoins]
  | cons a r ih =>
    intro m
    simp only [List.zipIdx_cons, ksJoins, List.mem_append, ih (m + 1), List.mem_cons, exists_eq_or_imp]

/-- what one written `formal=actual` pair declares, in terms of the netlist it was written from -/
theorem joinOf_eval (n : BNet) (t : String) (idx : Nat) (p : PortD) (b : Nat) (y : Pin)
    (hpl : plainName p.name) (hpne : p.name.toList ≠ []) (hb : p.width ≤ 1 → b = 0)
    (hc : ∀ c ∈ n.cables, plainName c.1.2 ∧ c.1.2 ≠ "unconn" ∧ c.1.2.toList ≠ []) :
    joinOf idx t (formalText p b, netText n y) =
      (match n.wireOf y with
       | none => []
       | some (c, wi, _) => [(Pin.inst idx p.name b, (t, c.2, wi))]) := by
  have hf : splitIdx (formalText p b) = Except.ok (p.name, b) := by
    unfold formalText
    split
    · exact splitIdx_idx _ _
    · rename_i hw
      have := hb (by omega)
      rw [this]; exact splitIdx_plain _ hpl hpne
  cases hwo : n.wireOf y with
  | none =>
    have hnt : netText n y = "unconn" := by unfold netText; simp [hwo]
    have : splitIdx "unconn" = Except.ok ("unconn", 0) := by rfl
    unfold joinOf
    simp [hf, hnt, this]
  | some r =>
    obtain ⟨c, wi, len⟩ := r
    obtain ⟨ws, w, hm, hlen, hw, _⟩ := wireOf_spec hwo
    obtain ⟨h1, h2, h3⟩ := hc (c, ws) hm
    have hwl : wi < ws.length := (List.getElem?_eq_some_iff.mp hw).1
    have hnt : splitIdx (netText n y) = Except.ok (c.2, wi) := by
      unfold netText
      simp only [hwo]
      split
      · exact splitIdx_idx _ _
      · have hwi : wi = 0 := by omega
        rw [hwi]; exact splitIdx_plain _ h1 h3
    unfold joinOf
    simp only [hf, hnt]
    have : ¬ c.2 = "unconn" := h2
    simp [this]

end Spydr.Eblif
