/-
  Round trip, main theorem for the `.subckt`/`.gate` fragment: what `readB (composeText o n)`
  returns has the same instance kinds, the same attached data and the same pins on every net bit
  as `n`.
-/
import Spydr.Eblif.RoundTripJoin

namespace Spydr.Eblif

/-- a pin found in a wire of `n` is one the writer writes: a pin of a top-level port, or a pin of
    an instance listed in that instance's pin list, on a port of its definition -/
def Covered (n : BNet) (t : String) : Pin → Prop
  | Pin.top o pn b => o = t ∧ ∃ p ∈ (n.findDef t).ports, p.name = pn ∧ b < p.width
  | Pin.inst idx pn b =>
      ∃ i ∈ (n.insts[idx]?).toList, (pn, b) ∈ i.pins ∧ ∃ p ∈ (n.findDef i.model).ports, p.name = pn

instance (n : BNet) (t : String) (x : Pin) : Decidable (Covered n t x) := by
  cases x with
  | top o pn b => unfold Covered; infer_instance
  | inst idx pn b => unfold Covered; infer_instance

/-- top-level ports: IN or OUT, plain names, at least one pin, every pin on the bit named after it -/
def PortsOK (n : BNet) (t : String) : Prop :=
  ∀ p ∈ (n.findDef t).ports, (p.dir = Dir.inp ∨ p.dir = Dir.out) ∧ plainName p.name ∧ 1 ≤ p.width ∧
    ∀ b, b < p.width → (n.wireOf (Pin.top t p.name b)).map (fun r => (r.1, r.2.1)) = some ((t, p.name), b)

instance (n : BNet) (t : String) : Decidable (PortsOK n t) := by unfold PortsOK; infer_instance

/-- cables: owned by the top model, plain names, every pin occurrence is the one `wireOf` finds
    (no pin on two wires) and is a pin the writer writes -/
def CablesOK (n : BNet) (t : String) : Prop :=
  ∀ cw ∈ n.cables, cw.1.1 = t ∧ plainName cw.1.2 ∧ cw.1.2 ≠ "unconn" ∧
    ∀ pw ∈ cw.2.zipIdx, ∀ x ∈ pw.1, n.wireOf x = some (cw.1, pw.2, cw.2.length) ∧ Covered n t x

instance (n : BNet) (t : String) : Decidable (CablesOK n t) := by unfold CablesOK; infer_instance

/-- instances: pairwise different formals, attr / param keys; plain port names; bit 0 on 1-wide ports -/
def InstsOK (n : BNet) : Prop :=
  ∀ k ∈ n.insts.zipIdx, ((connsOf n k.2 k.1).map (·.1)).Nodup ∧
    (k.1.attrs.map (·.1)).Nodup ∧ (k.1.params.map (·.1)).Nodup ∧
    ∀ p ∈ (n.findDef k.1.model).ports, plainName p.name ∧
      ∀ q ∈ k.1.pins, q.1 = p.name → p.width ≤ 1 → q.2 = 0

instance (n : BNet) : Decidable (InstsOK n) := by unfold InstsOK; infer_instance

/-- shape conditions on the netlist (all decidable; the reader's results in the writer's instance
    order satisfy them, see the example) -/
def NetOK (n : BNet) (t : String) : Prop :=
  kidsOrd n t = n.insts.zipIdx ∧ PortsOK n t ∧ ((n.findDef t).ports.map (·.name)).Nodup ∧
  CablesOK n t ∧ InstsOK n

instance (n : BNet) (t : String) : Decidable (NetOK n t) := by unfold NetOK; infer_instance

theorem okWord_nonempty {s : String} (h : okWord s = true) : s.toList ≠ [] := by
  have := (gcs_of_ok h).2
  intro he; rw [he] at this; simp at this

theorem wordJoins_ports (t : String) (ps : List PortD)
    (h : ∀ p ∈ ps, plainName p.name ∧ p.name.toList ≠ [] ∧ 1 ≤ p.width) :
    wordJoins t (ps.flatMap portBits) = ps.flatMap (portJoins t) := by
  induction ps with
  | nil => rfl
  | cons p r ih =>
    obtain ⟨h1, h2, h3⟩ := h p (by simp)
    simp only [List.flatMap_cons, wordJoins_append, wordJoins_portBits t p h1 h2 h3,
      ih (fun x hx => h x (by simp [hx]))]

theorem infoFold_append (a b : List InfoStmt) (x) : infoFold (a ++ b) x = infoFold b (infoFold a x) := by
  induction a generalizing x with
  | nil => rfl
  | cons s r ih =>
    obtain ⟨c, at', p⟩ := x
    cases s <;> simp [infoFold, ih]

theorem infoFold_attrs (l : List (String × String)) :
    ∀ c a p, infoFold (l.map (fun kv => InfoStmt.attr kv.1 kv.2)) (c, a, p) =
      (c, l.foldl (fun acc kv => dictSet acc kv.1 kv.2) a, p) := by
  induction l with
  | nil => intro c a p; rfl
  | cons kv r ih => intro c a p; simp [infoFold, ih]

theorem infoFold_params (l : List (String × String)) :
    ∀ c a p, infoFold (l.map (fun kv => InfoStmt.param kv.1 kv.2)) (c, a, p) =
      (c, a, l.foldl (fun acc kv => dictSet acc kv.1 kv.2) p) := by
  induction l with
  | nil => intro c a p; rfl
  | cons kv r ih => intro c a p; simp [infoFold, ih]

theorem infoFold_infoStmts (o : Opts) (i : Inst) (ha : (i.attrs.map (·.1)).Nodup) (hp : (i.params.map (·.1)).Nodup) :
    infoFold (infoStmts o i) (none, [], []) = (if o.writeCname then some i.name else none, i.attrs, i.params) := by
  unfold infoStmts
  rw [infoFold_append, infoFold_append]
  have h1 : infoFold (if o.writeCname = true then [InfoStmt.cname i.name] else []) (none, [], []) =
      (if o.writeCname then some i.name else none, [], []) := by
    split <;> rfl
  rw [h1, infoFold_attrs, infoFold_params,
    foldl_dictSet_nodup i.attrs [] ha (fun p hp => by cases hp),
    foldl_dictSet_nodup i.params [] hp (fun p hp => by cases hp)]
  simp

end Spydr.Eblif
