/-
  Round trip: header words of the top model and the join set of the written text vs the netlist.
-/
import Spydr.Eblif.RoundTripMain

namespace Spydr.Eblif

def insPorts (d : DefD) : List PortD := d.ports.filter (fun p => p.dir = Dir.inp || p.dir = Dir.inout)
def outsPorts (d : DefD) : List PortD := d.ports.filter (fun p => p.dir = Dir.out || p.dir = Dir.inout)
def outNames (d : DefD) : List String := (d.ports.filter (fun p => p.dir = Dir.out)).map (·.name)

theorem eq_of_nodup_name {ps : List PortD} (hn : (ps.map (·.name)).Nodup) {p q : PortD} (hp : p ∈ ps) (hq : q ∈ ps)
    (he : p.name = q.name) : p = q := by
  induction ps with
  | nil => cases hp
  | cons a r ih =>
    simp only [List.map_cons, List.nodup_cons, List.mem_map, not_exists, not_and] at hn
    rcases List.mem_cons.mp hp with rfl | hp' <;> rcases List.mem_cons.mp hq with rfl | hq'
    · rfl
    · exact absurd he.symm (hn.1 q hq')
    · exact absurd he (hn.1 p hp')
    · exact ih hn.2 hp' hq'

theorem hdrOK_of (n : BNet) (t : String) (hw : WellNamed n) (ht : okWord t = true) (hn : NetOK n t) :
    HdrOK t ((insPorts (n.findDef t)).flatMap portBits) ((outsPorts (n.findDef t)).flatMap portBits)
      (outNames (n.findDef t)) := by
  obtain ⟨_, hp, hnd, _, _⟩ := hn
  obtain ⟨_, hpn, _⟩ := findDef_ok hw ht
  constructor
  · intro w hwm
    obtain ⟨p, hpm, hwp⟩ := List.mem_flatMap.mp hwm
    simp only [insPorts, List.mem_filter, Bool.or_eq_true, decide_eq_true_eq] at hpm
    obtain ⟨_, hpl, _, _⟩ := hp p hpm.1
    obtain ⟨pi, hs⟩ := splitIdx_portBits p hpl (okWord_nonempty (hpn p hpm.1)) w hwp
    refine ⟨p.name, pi, hs, ?_⟩
    intro hin
    simp only [outNames, List.mem_map, List.mem_filter, decide_eq_true_eq] at hin
    obtain ⟨q, ⟨hq, hqd⟩, hqn⟩ := hin
    have := eq_of_nodup_name hnd hq hpm.1 hqn
    subst this
    rcases hpm.2 with h | h <;> simp [hqd] at h
  · intro w hwm
    obtain ⟨p, hpm, hwp⟩ := List.mem_flatMap.mp hwm
    simp only [outsPorts, List.mem_filter, Bool.or_eq_true, decide_eq_true_eq] at hpm
    obtain ⟨hd, hpl, _, _⟩ := hp p hpm.1
    obtain ⟨pi, hs⟩ := splitIdx_portBits p hpl (okWord_nonempty (hpn p hpm.1)) w hwp
    refine ⟨p.name, pi, hs, ?_⟩
    simp only [outNames, List.mem_map, List.mem_filter, decide_eq_true_eq]
    refine ⟨p, ⟨hpm.1, ?_⟩, rfl⟩
    rcases hpm.2 with h | h
    · exact h
    · rcases hd with h' | h' <;> simp [h] at h'

theorem mem_hdrJoins (n : BNet) (t : String) (hw : WellNamed n) (ht : okWord t = true) (hn : NetOK n t)
    (x : Pin) (k : Key) :
    (x, k) ∈ wordJoins t ((insPorts (n.findDef t)).flatMap portBits) ++
             wordJoins t ((outsPorts (n.findDef t)).flatMap portBits) ↔
    ∃ p ∈ (n.findDef t).ports, ∃ b, b < p.width ∧ x = Pin.top t p.name b ∧ k = (t, p.name, b) := by
  obtain ⟨_, hp, _, _, _⟩ := hn
  obtain ⟨_, hpn, _⟩ := findDef_ok hw ht
  have hok : ∀ ps : List PortD, (∀ p ∈ ps, p ∈ (n.findDef t).ports) →
      wordJoins t (ps.flatMap portBits) = ps.flatMap (portJoins t) := by
    intro ps hps
    apply wordJoins_ports
    intro p hpm
    obtain ⟨_, hpl, hwd, _⟩ := hp p (hps p hpm)
    exact ⟨hpl, okWord_nonempty (hpn p (hps p hpm)), hwd⟩
  rw [hok (insPorts (n.findDef t)) (fun p h => (List.mem_filter.mp h).1),
    hok (outsPorts (n.findDef t)) (fun p h => (List.mem_filter.mp h).1)]
  simp only [List.mem_append, List.mem_flatMap, portJoins, List.mem_map, List.mem_range, Prod.mk.injEq,
    insPorts, outsPorts, List.mem_filter, Bool.or_eq_true, decide_eq_true_eq]
  constructor
  · rintro (⟨p, ⟨hpm, _⟩, b, hb, e1, e2⟩ | ⟨p, ⟨hpm, _⟩, b, hb, e1, e2⟩)
    · exact ⟨p, hpm, b, hb, e1.symm, e2.symm⟩
    · exact ⟨p, hpm, b, hb, e1.symm, e2.symm⟩
  · rintro ⟨p, hpm, b, hb, e1, e2⟩
    rcases (hp p hpm).1 with hd | hd
    · exact Or.inl ⟨p, ⟨hpm, Or.inl hd⟩, b, hb, e1.symm, e2.symm⟩
    · exact Or.inr ⟨p, ⟨hpm, Or.inl hd⟩, b, hb, e1.symm, e2.symm⟩

/-- the joins the written text declares are exactly the pin / net-bit incidences of the netlist -/
theorem mem_joins_iff_onNet (n : BNet) (t : String) (hw : WellNamed n) (ht : okWord t = true) (hn : NetOK n t)
    (x : Pin) (k : Key) :
    (x, k) ∈ (wordJoins t ((insPorts (n.findDef t)).flatMap portBits) ++
              wordJoins t ((outsPorts (n.findDef t)).flatMap portBits)) ++ ksJoins n t 0 n.insts.zipIdx ↔
    OnNet n x k := by
  have hn' := hn
  obtain ⟨_, hp, _, hcb, hin⟩ := hn'
  have hcab : ∀ c ∈ n.cables, plainName c.1.2 ∧ c.1.2 ≠ "unconn" ∧ c.1.2.toList ≠ [] := by
    intro c hc
    obtain ⟨_, h2, h3, _⟩ := hcb c hc
    exact ⟨h2, h3, okWord_nonempty (hw.2.2.2.1 c hc)⟩
  -- evaluation of one written pair
  have hev : ∀ (kk : Inst × Nat), kk ∈ n.insts.zipIdx → ∀ p ∈ (n.findDef kk.1.model).ports, ∀ q ∈ kk.1.pins, q.1 = p.name →
      joinOf kk.2 t (formalText p q.2, netText n (Pin.inst kk.2 q.1 q.2)) =
        (match n.wireOf (Pin.inst kk.2 q.1 q.2) with
         | none => []
         | some (c, wi, _) => [(Pin.inst kk.2 p.name q.2, (t, c.2, wi))]) := by
    intro kk hkk p hpm q hq hqn
    obtain ⟨_, _, _, hpp⟩ := hin kk hkk
    obtain ⟨hpl, hb⟩ := hpp p hpm
    have hi : kk.1 ∈ n.insts := mem_zipIdx_fst hkk
    obtain ⟨_, hmod, _⟩ := hw.2.2.1 kk.1 hi
    obtain ⟨_, hpn, _⟩ := findDef_ok hw hmod
    exact joinOf_eval n t kk.2 p q.2 _ hpl (okWord_nonempty (hpn p hpm)) (hb q hq hqn) hcab
  rw [List.mem_append, mem_hdrJoins n t hw ht hn, mem_ksJoins]
  constructor
  · rintro (⟨p, hpm, b, hb, rfl, rfl⟩ | ⟨kk, hkk, hj⟩)
    · obtain ⟨_, _, _, htw⟩ := hp p hpm
      have := htw b hb
      cases hwo : n.wireOf (Pin.top t p.name b) with
      | none => simp [hwo] at this
      | some r =>
        obtain ⟨c, wi, len⟩ := r
        simp only [hwo, Option.map_some, Option.some.injEq, Prod.mk.injEq] at this
        obtain ⟨ws, w, hm, _, hws, hx⟩ := wireOf_spec hwo
        obtain ⟨hc, hwi⟩ := this
        subst hc; subst hwi
        exact ⟨ws, w, hm, hws, hx⟩
    · obtain ⟨hnd, _, _, _⟩ := hin kk hkk
      rw [infoMapOf_nodup _ hnd] at hj
      obtain ⟨fa, hfa, hj⟩ := List.mem_flatMap.mp hj
      unfold connsOf at hfa
      obtain ⟨p, hpm, hfa⟩ := List.mem_flatMap.mp hfa
      obtain ⟨q, hq, rfl⟩ := List.mem_map.mp hfa
      simp only [List.mem_filter, List.mem_reverse, decide_eq_true_eq] at hq
      rw [hev kk hkk p hpm q hq.1 hq.2] at hj
      cases hwo : n.wireOf (Pin.inst kk.2 q.1 q.2) with
      | none => simp [hwo] at hj
      | some r =>
        obtain ⟨c, wi, len⟩ := r
        simp only [hwo, List.mem_singleton, Prod.mk.injEq] at hj
        obtain ⟨hx, hk⟩ := hj
        obtain ⟨ws, w, hm, _, hws, hxm⟩ := wireOf_spec hwo
        obtain ⟨hown, _⟩ := hcb (c, ws) hm
        subst hx; subst hk
        rw [← hq.2]
        refine ⟨ws, w, ?_, hws, hxm⟩
        simp only at hown ⊢
        rw [← hown]; exact hm
  · rintro ⟨ws, w, hm, hws, hx⟩
    obtain ⟨hown, _, _, hun⟩ := hcb ((k.1, k.2.1), ws) hm
    have hpw : (w, k.2.2) ∈ ws.zipIdx := List.mem_zipIdx_iff_getElem?.mpr hws
    obtain ⟨hwo, hcov⟩ := hun (w, k.2.2) hpw x hx
    simp only at hown hwo
    cases x with
    | top o pn b =>
      simp only [Covered] at hcov
      obtain ⟨ho, p, hpm, hpn, hb⟩ := hcov
      subst ho; subst hpn
      obtain ⟨_, _, _, htw⟩ := hp p hpm
      have := htw b hb
      rw [hwo] at this
      simp only [Option.map_some, Option.some.injEq, Prod.mk.injEq] at this
      obtain ⟨⟨_, h2⟩, h3⟩ := this
      left
      refine ⟨p, hpm, b, hb, rfl, ?_⟩
      obtain ⟨k1, k2, k3⟩ := k
      simp only at hown h2 h3 ⊢
      rw [hown, h2, h3]
    | inst idx pn b =>
      simp only [Covered, Option.mem_toList] at hcov
      obtain ⟨i, hi, hqm, p, hpm, hpn⟩ := hcov
      right
      have hkk : (i, idx) ∈ n.insts.zipIdx := List.mem_zipIdx_iff_getElem?.mpr (by simpa using hi)
      refine ⟨(i, idx), hkk, ?_⟩
      obtain ⟨hnd, _, _, _⟩ := hin (i, idx) hkk
      rw [infoMapOf_nodup _ hnd]
      refine List.mem_flatMap.mpr ⟨(formalText p b, netText n (Pin.inst idx pn b)), ?_, ?_⟩
      · unfold connsOf
        refine List.mem_flatMap.mpr ⟨p, hpm, List.mem_map.mpr ⟨(pn, b), ?_, rfl⟩⟩
        simp only [List.mem_filter, List.mem_reverse, decide_eq_true_eq]
        exact ⟨hqm, hpn.symm⟩
      · have := hev (i, idx) hkk p hpm (pn, b) hqm hpn.symm
        simp only at this
        rw [this, hwo]
        simp only [List.mem_singleton, Prod.mk.injEq]
        obtain ⟨k1, k2, k3⟩ := k
        simp only at hown ⊢
        exact ⟨by rw [hpn], by rw [hown]⟩

end Spydr.Eblif
