/-
  Round trip, main theorem (`.subckt`/`.gate` fragment).
-/
import Spydr.Eblif.RoundTripMain2

namespace Spydr.Eblif

theorem kidsOrd_mem {n : BNet} {t : String} {k : Inst × Nat} (h : k ∈ kidsOrd n t) :
    k.1.parent = t ∧ (k.1.typ = "EBLIF.subckt" ∨ k.1.typ = "EBLIF.gate") := by
  unfold kidsOrd at h
  simp only [List.mem_append, List.mem_filter, decide_eq_true_eq] at h
  rcases h with h | h
  · exact ⟨h.1.2, Or.inl h.2⟩
  · exact ⟨h.1.2, Or.inr h.2⟩

theorem onNet_of_cables {a b : BNet} (h : a.cables = b.cables) (x : Pin) (k : Key) : OnNet a x k ↔ OnNet b x k := by
  unfold OnNet; rw [h]

theorem kinds_ks (o : Opts) (n : BNet) (t : String) (ks : List (Inst × Nat))
    (h : ∀ k ∈ ks, k.1.parent = t ∧ (k.1.typ = "EBLIF.subckt" ∨ k.1.typ = "EBLIF.gate")) :
    (ks.map (stmtOf o n)).flatMap (stmtKind t) = ks.map (fun k => kindOf k.1) := by
  induction ks with
  | nil => rfl
  | cons k r ih =>
    obtain ⟨hp, hty⟩ := h k (by simp)
    simp only [List.map_cons, List.flatMap_cons, ih (fun x hx => h x (by simp [hx]))]
    have : stmtKind t (stmtOf o n k) = [kindOf k.1] := by
      simp only [stmtOf, stmtKind, kindOf, hp]
      rcases hty with h1 | h1 <;> simp [h1]
    rw [this]; rfl

/-- **Write-then-read, `.subckt`/`.gate` fragment.**  For a well-named netlist of the fragment
    (`FragP`) in reader shape (`NetOK`), whatever `readB` returns for the text `composeB` writes has
    * the same instances in the same order with the same (parent, model, type),
    * the same `.attr` / `.param` data on every instance, and `EBLIF.cname` = the instance's name
      when `write_eblif_cname` is on (none otherwise),
    * exactly the same pins on every net bit (`OnNet`), in particular the same nets as sets of pins. -/
theorem roundtrip_subckt (o : Opts) (n : BNet) (t : String) (hw : WellNamed n) (hf : FragP o n t) (hn : NetOK n t)
    (n' : BNet) (h : readB (composeText o n) = Except.ok n') :
    n'.insts.map kindOf = n.insts.map kindOf ∧
    (∀ j : Nat, (n'.insts[j]?).map infoOf =
      (n.insts[j]?).map (fun (i : Inst) => (if o.writeCname then some i.name else none, i.attrs, i.params))) ∧
    (∀ x k, OnNet n' x k ↔ OnNet n x k) := by
  have ht : okWord t = true := hw.2.2.2.2 t hf.top
  rw [read_composeText o n hw, parse_composeLines o n t hf] at h
  simp only [bind, Except.bind] at h
  unfold elabB at h
  obtain ⟨st, hst, hconv⟩ := bind_ok h
  unfold elabSt at hst
  obtain ⟨s0, hs0, hst⟩ := bind_ok hst
  cases hst
  simp only [astOf, elabModels] at hs0
  obtain ⟨s1, hm, hs0⟩ := bind_ok hs0
  cases hs0
  have hsorted := hn.1
  have facts := elab_model_facts o n t _ _ (outNames (n.findDef t)) (kidsOrd n t) (hdrOK_of n t hw ht hn) s0
    (by simpa [hdrOf, insPorts, outsPorts] using hm)
  obtain ⟨fk, fp, fl, fd⟩ := facts
  obtain ⟨c1, _, _, c4⟩ := applyConvention_pres _ hconv
  have hins : n'.insts.map eraseName = s0.insts.map eraseName := c4
  have hkind : ∀ l : List Inst, l.map kindOf = (l.map eraseName).map kindOf := by
    intro l; rw [List.map_map]; rfl
  have hinfo : ∀ (l : List Inst) (j : Nat), (l[j]?).map infoOf = ((l.map eraseName)[j]?).map infoOf := by
    intro l j
    rw [List.getElem?_map]
    cases l[j]? <;> rfl
  refine ⟨?_, ?_, ?_⟩
  · rw [hkind n'.insts, hins, ← hkind]
    have : s0.insts.map kindOf = instKinds s0 := rfl
    rw [this, fk, kinds_ks o n t _ (fun k hk => kidsOrd_mem hk), hsorted]
    have hfun : (fun k : Inst × Nat => kindOf k.1) = kindOf ∘ Prod.fst := rfl
    rw [hfun, ← List.map_map, List.zipIdx_map_fst]
  · intro j
    rw [hinfo n'.insts, hins, ← hinfo]
    by_cases hj : j < n.insts.length
    · have hlen : (kidsOrd n t).length = n.insts.length := by rw [hsorted]; simp
      have := fd j (by omega)
      simp only [dataAt] at this
      rw [this]
      have hkj : (kidsOrd n t)[j]'(by omega) = (n.insts[j], j) := by
        simp [hsorted]
      have hmem : (n.insts[j], j) ∈ n.insts.zipIdx := List.mem_zipIdx_iff_getElem?.mpr (by simp)
      obtain ⟨_, ha, hp, _⟩ := hn.2.2.2.2 _ hmem
      rw [hkj, infoFold_infoStmts o n.insts[j] ha hp, List.getElem?_eq_getElem hj]
      rfl
    · have hlen : s0.insts.length = n.insts.length := by
        have := congrArg List.length fk
        rw [kinds_ks o n t _ (fun k hk => kidsOrd_mem hk), hsorted] at this
        simpa [instKinds] using this
      have h1 : s0.insts[j]? = none := by rw [List.getElem?_eq_none_iff]; omega
      have h2 : n.insts[j]? = none := by rw [List.getElem?_eq_none_iff]; omega
      simp [h1, h2]
  · intro x k
    have := fp x k
    rw [hsorted] at this
    exact (onNet_of_cables c1 x k).trans ((onNet_of_cables (b := s0.toNet) rfl x k).trans
      ((onNet_toNet s0 fl x k).trans (this.trans (mem_joins_iff_onNet n t hw ht hn x k))))

end Spydr.Eblif
