/-
  Round trip: net-level notions (`OnNet`), the materialised state, the renaming pass, and the
  evaluation of the joins the written text declares.
-/
import Spydr.Eblif.RoundTripElab

namespace Spydr.Eblif

/-- pin `x` is on wire `k.2.2` of a cable with key `(k.1, k.2.1)` of the netlist -/
def OnNet (n : BNet) (x : Pin) (k : Key) : Prop :=
  ∃ ws w, ((k.1, k.2.1), ws) ∈ n.cables ∧ ws[k.2.2]? = some w ∧ x ∈ w

theorem onNet_toNet (st : St) (pl : PinsLive st) (x : Pin) (k : Key) : OnNet st.toNet x k ↔ x ∈ st.pins k := by
  constructor
  · rintro ⟨ws, w, hm, hw, hx⟩
    simp only [St.toNet, List.mem_map] at hm
    obtain ⟨c, _, he⟩ := hm
    simp only [Prod.mk.injEq] at he
    obtain ⟨hc, hws⟩ := he
    subst hc
    rw [← hws] at hw
    simp only [wiresOf, List.getElem?_map] at hw
    cases hr : (List.range (st.width (k.1, k.2.1)))[k.2.2]? with
    | none => simp [hr] at hw
    | some i =>
      have hi : i = k.2.2 := by
        have := List.getElem?_eq_some_iff.mp hr
        obtain ⟨_, e⟩ := this
        simpa using e.symm
      simp only [hr, Option.map_some, Option.some.injEq] at hw
      subst hi
      rw [← hw] at hx
      exact hx
  · intro hx
    have hl := pl k (by intro he; rw [he] at hx; cases hx)
    refine ⟨wiresOf st (k.1, k.2.1), st.pins k, ?_, ?_, hx⟩
    · simp only [St.toNet, List.mem_map]
      exact ⟨(k.1, k.2.1), hl.1, rfl⟩
    · simp only [wiresOf]
      rw [List.getElem?_map, List.getElem?_range hl.2]
      rfl

/-! ### the renaming pass touches names only -/

def eraseName (i : Inst) : Inst := { i with name := "" }

theorem map_updIdx_gen {β : Type} (g : Inst → β) (l : List Inst) (idx : Nat) (f : Inst → Inst)
    (hf : ∀ i, g (f i) = g i) :
    (l.zipIdx.map (fun (p : Inst × Nat) => if p.2 = idx then f p.1 else p.1)).map g = l.map g := by
  rw [List.map_map]
  have : (g ∘ fun (p : Inst × Nat) => if p.2 = idx then f p.1 else p.1) = g ∘ Prod.fst := by
    funext p
    simp only [Function.comp]
    split
    · exact hf _
    · rfl
  rw [this, ← List.map_map, List.zipIdx_map_fst]

theorem renameNet_pres {n n' : BNet} {idx : Nat} {nm : String} (h : renameNet n idx nm = Except.ok n') :
    n'.cables = n.cables ∧ n'.defs = n.defs ∧ n'.top = n.top ∧ n'.insts.map eraseName = n.insts.map eraseName := by
  unfold renameNet at h
  split at h
  · cases h; exact ⟨rfl, rfl, rfl, rfl⟩
  · simp only at h
    split at h
    · cases h; exact ⟨rfl, rfl, rfl, rfl⟩
    · cases h
      exact ⟨rfl, rfl, rfl, map_updIdx_gen eraseName n.insts idx (fun i => { i with name := nm }) (fun _ => rfl)⟩

theorem applyConvention_pres (l : List Nat) :
    ∀ {n n' : BNet}, applyConvention n l = Except.ok n' →
      n'.cables = n.cables ∧ n'.defs = n.defs ∧ n'.top = n.top ∧ n'.insts.map eraseName = n.insts.map eraseName := by
  induction l with
  | nil => intro n n' h; cases h; exact ⟨rfl, rfl, rfl, rfl⟩
  | cons idx r ih =>
    intro n n' h
    unfold applyConvention at h
    split at h
    · exact ih h
    · split at h
      · exact ih h
      · obtain ⟨n1, h1, h2⟩ := bind_ok h
        obtain ⟨a1, a2, a3, a4⟩ := renameNet_pres h1
        obtain ⟨b1, b2, b3, b4⟩ := ih h2
        exact ⟨b1.trans a1, b2.trans a2, b3.trans a3, b4.trans a4⟩

/-! ### `wireOf` -/

theorem findInWires_spec (p : Pin) (ws : List (List Pin)) :
    ∀ (s i : Nat), findInWires p ws s = some i → ∃ j w, i = s + j ∧ ws[j]? = some w ∧ p ∈ w := by
  induction ws with
  | nil => intro s i h; cases h
  | cons w r ih =>
    intro s i h
    unfold findInWires at h
    split at h
    · rename_i hm
      cases h
      exact ⟨0, w, rfl, rfl, hm⟩
    · obtain ⟨j, w', e, hw, hp⟩ := ih (s + 1) i h
      exact ⟨j + 1, w', by omega, by simpa using hw, hp⟩

theorem wireOf_spec {n : BNet} {x : Pin} {c : CKey} {wi len : Nat} (h : n.wireOf x = some (c, wi, len)) :
    ∃ ws w, (c, ws) ∈ n.cables ∧ len = ws.length ∧ ws[wi]? = some w ∧ x ∈ w := by
  unfold BNet.wireOf at h
  obtain ⟨cw, hcw, he⟩ := List.exists_of_findSome?_eq_some h
  cases hf : findInWires x cw.2 0 with
  | none => simp [hf] at he
  | some i =>
    simp only [hf, Option.some.injEq, Prod.mk.injEq] at he
    obtain ⟨e1, e2, e3⟩ := he
    obtain ⟨j, w, ej, hw, hx⟩ := findInWires_spec x cw.2 0 i hf
    refine ⟨cw.2, w, by rw [← e1]; exact hcw, e3.symm, ?_, hx⟩
    rw [← e2, ej, Nat.zero_add]; exact hw

/-! ### joins of the header words -/

def plainName (s : String) : Prop := ∀ c, s.toList.getLast? = some c → c ≠ ']'

instance (s : String) : Decidable (plainName s) := by
  unfold plainName
  cases h : s.toList.getLast? with
  | none => exact isTrue (fun c hc => by cases hc)
  | some d =>
    exact if hd : d ≠ ']' then isTrue (fun c hc => by cases hc; exact hd)
          else isFalse (fun f => hd (f d rfl))

def portJoins (t : String) (p : PortD) : List (Pin × Key) :=
  (List.range p.width).map (fun b => (Pin.top t p.name b, (t, p.name, b)))

theorem wordJoins_append (t : String) (a b : List String) : wordJoins t (a ++ b) = wordJoins t a ++ wordJoins t b := by
  simp [wordJoins]

theorem wordJoins_portBits (t : String) (p : PortD) (hp : plainName p.name) (hne : p.name.toList ≠ [])
    (hw : 1 ≤ p.width) : wordJoins t (portBits p) = portJoins t p := by
  unfold portBits portJoins
  split
  · simp only [wordJoins, List.flatMap_map, splitIdx_idx]
    induction (List.range p.width) with
    | nil => rfl
    | cons a r ih => simp [List.flatMap_cons, ih]
  · have : p.width = 1 := by omega
    simp [wordJoins, splitIdx_plain p.name hp hne, this]

theorem splitIdx_portBits (p : PortD) (hp : plainName p.name) (hne : p.name.toList ≠ []) :
    ∀ w ∈ portBits p, ∃ pi, splitIdx w = Except.ok (p.name, pi) := by
  intro w hw
  unfold portBits at hw
  split at hw
  · obtain ⟨i, _, rfl⟩ := List.mem_map.mp hw
    exact ⟨i, splitIdx_idx _ _⟩
  · simp only [List.mem_singleton] at hw
    subst hw
    exact ⟨0, splitIdx_plain _ hp hne⟩

end Spydr.Eblif
