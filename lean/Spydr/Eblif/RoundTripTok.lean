/-
  Round trip, layer 1: every token `composeB` emits is a word the lexer reads back, provided the
  names of the netlist are (`WellNamed`, decidable); hence reading the composed text is parsing the
  composed lines.
-/
import Spydr.Eblif.Props.C18

namespace Spydr.Eblif

/-- a character that may occur inside a word -/
def goodChar (c : Char) : Bool := !isWs c && c != '\n' && c != '\r'

/-- a word the composer may emit: non-empty, no blank / line end inside, not the lone backslash -/
def okWord (s : String) : Bool := !s.toList.isEmpty && s.toList.all goodChar && s != "\\"

theorem okWord_good {s : String} (h : okWord s = true) : GoodTok (Tok.word s) ∧ Tok.word s ≠ bsl := by
  simp only [okWord, Bool.and_eq_true, Bool.not_eq_true', List.all_eq_true, bne_iff_ne, ne_eq] at h
  obtain ⟨⟨h1, h2⟩, h3⟩ := h
  refine ⟨⟨?_, ?_⟩, ?_⟩
  · intro he; simp [he] at h1
  · intro c hc
    have := h2 c hc
    simp only [goodChar, Bool.and_eq_true, Bool.not_eq_true', bne_iff_ne, ne_eq] at this
    exact ⟨this.1.1, this.1.2, this.2⟩
  · intro he
    apply h3
    simpa [bsl] using he

/-- char-level: all characters fine -/
def gcs (l : List Char) : Prop := ∀ c ∈ l, goodChar c = true

theorem gcs_append {a b : List Char} (ha : gcs a) (hb : gcs b) : gcs (a ++ b) := by
  intro c hc
  rcases List.mem_append.mp hc with h | h
  · exact ha c h
  · exact hb c h

theorem okWord_of_chars {s : String} (h1 : gcs s.toList) (h2 : 2 ≤ s.toList.length) : okWord s = true := by
  simp only [okWord, Bool.and_eq_true, Bool.not_eq_true', List.all_eq_true, bne_iff_ne, ne_eq]
  refine ⟨⟨?_, h1⟩, ?_⟩
  · cases h : s.toList with
    | nil => simp [h] at h2
    | cons a r => rfl
  · intro he
    rw [he] at h2
    simp at h2

theorem gcs_of_ok {s : String} (h : okWord s = true) : gcs s.toList ∧ 1 ≤ s.toList.length := by
  simp only [okWord, Bool.and_eq_true, Bool.not_eq_true', List.all_eq_true, bne_iff_ne, ne_eq] at h
  refine ⟨h.1.2, ?_⟩
  cases hs : s.toList with
  | nil => simp [hs] at h
  | cons a r => simp

theorem digit_bounds {c : Char} (hd : c.isDigit = true) : 48 ≤ c.toNat ∧ c.toNat ≤ 57 := by
  simp only [Char.isDigit, Bool.and_eq_true, decide_eq_true_eq] at hd
  obtain ⟨h1, h2⟩ := hd
  have a : (48 : UInt32).toNat ≤ c.val.toNat := UInt32.le_iff_toNat_le.mp h1
  have b : c.val.toNat ≤ (57 : UInt32).toNat := UInt32.le_iff_toNat_le.mp h2
  exact ⟨a, b⟩

theorem goodChar_of_digit {c : Char} (h1 : 48 ≤ c.toNat) (h2 : c.toNat ≤ 57) : goodChar c = true := by
  have hne : ∀ d : Char, (d.toNat < 48 ∨ 57 < d.toNat) → (decide (c = d)) = false := by
    intro d hd
    simp only [decide_eq_false_iff_not]
    intro he; subst he; omega
  have hws : isWs c = false := by
    unfold isWs
    rw [hne ' ' (by decide), hne '\t' (by decide), hne '\x0b' (by decide), hne '\x0c' (by decide), hne '\x1c' (by decide),
      hne '\x1d' (by decide), hne '\x1e' (by decide), hne '\x1f' (by decide), hne '\u0085' (by decide), hne ' ' (by decide),
      hne ' ' (by decide), hne ' ' (by decide), hne ' ' (by decide), hne ' ' (by decide), hne ' ' (by decide),
      hne '　' (by decide)]
    have : decide (0x2000 ≤ c.toNat) = false := by simp; omega
    simp [this]
  have h3 : (c != '\n') = true := by
    simp only [bne_iff_ne, ne_eq]; intro he; subst he; simp at h1
  have h4 : (c != '\r') = true := by
    simp only [bne_iff_ne, ne_eq]; intro he; subst he; simp at h1
  simp [goodChar, hws, h3, h4]

theorem gcs_natStr (n : Nat) : gcs (natStr n).toList := by
  intro c hc
  have hc' : c ∈ Nat.toDigits 10 n := by simpa [natStr] using hc
  have hd := digit_bounds (Nat.isDigit_of_mem_toDigits (by decide) (by decide) hc')
  exact goodChar_of_digit hd.1 hd.2

theorem okWord_idx {a : String} (h : okWord a = true) (i : Nat) : okWord (a ++ "[" ++ natStr i ++ "]") = true := by
  obtain ⟨g, l⟩ := gcs_of_ok h
  apply okWord_of_chars
  · simp only [String.toList_append]
    exact gcs_append (gcs_append (gcs_append g (by intro c hc; simp at hc; subst hc; decide)) (gcs_natStr i))
      (by intro c hc; simp at hc; subst hc; decide)
  · simp only [String.toList_append, List.length_append]
    have : ("[" : String).toList.length = 1 := by decide
    omega

theorem okWord_eq {a b : String} (ha : okWord a = true) (hb : okWord b = true) : okWord (a ++ "=" ++ b) = true := by
  obtain ⟨ga, la⟩ := gcs_of_ok ha
  obtain ⟨gb, lb⟩ := gcs_of_ok hb
  apply okWord_of_chars
  · simp only [String.toList_append]
    exact gcs_append (gcs_append ga (by intro c hc; simp at hc; subst hc; decide)) gb
  · simp only [String.toList_append, List.length_append]
    omega

/-! ### the decidable naming condition -/

def okWords (l : List String) : Prop := ∀ w ∈ l, okWord w = true

/-- all names of the netlist are words (no blank inside, not the lone backslash) -/
def WellNamed (n : BNet) : Prop :=
  (∀ c ∈ n.comments, okWords (splitOnBlank c.toList)) ∧
  (∀ d ∈ n.defs, okWord d.name = true ∧ (∀ p ∈ d.ports, okWord p.name = true) ∧
      (∀ c, d.clock = some c → okWords c)) ∧
  (∀ i ∈ n.insts, okWord i.name = true ∧ okWord i.model = true ∧
      (∀ kv ∈ i.attrs, okWord kv.1 = true ∧ okWord kv.2 = true) ∧
      (∀ kv ∈ i.params, okWord kv.1 = true ∧ okWord kv.2 = true) ∧
      (∀ cs, i.covers = some cs → ∀ c ∈ cs, okWords (splitOnBlank c.toList))) ∧
  (∀ c ∈ n.cables, okWord c.1.2 = true) ∧
  (∀ t, n.top = some t → okWord t = true)

instance (l : List String) : Decidable (okWords l) := by unfold okWords; infer_instance

instance (o : Option (List String)) : Decidable (∀ c, o = some c → okWords c) :=
  match o with
  | none => isTrue (fun _ h => by cases h)
  | some c => if h : okWords c then isTrue (fun _ e => by cases e; exact h) else isFalse (fun f => h (f c rfl))

instance (o : Option (List String)) : Decidable (∀ cs, o = some cs → ∀ c ∈ cs, okWords (splitOnBlank c.toList)) :=
  match o with
  | none => isTrue (fun _ h => by cases h)
  | some cs => if h : ∀ c ∈ cs, okWords (splitOnBlank c.toList) then isTrue (fun _ e => by cases e; exact h)
               else isFalse (fun f => h (f cs rfl))

instance (o : Option String) : Decidable (∀ t, o = some t → okWord t = true) :=
  match o with
  | none => isTrue (fun _ h => by cases h)
  | some t => if h : okWord t = true then isTrue (fun _ e => by cases e; exact h) else isFalse (fun f => h (f t rfl))

instance (n : BNet) : Decidable (WellNamed n) := by unfold WellNamed; infer_instance

end Spydr.Eblif
