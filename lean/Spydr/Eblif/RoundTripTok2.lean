/-
  Round trip, layer 1 (continued): all words of `composeLines o n` are fine for a `WellNamed n`.
-/
import Spydr.Eblif.RoundTripTok

namespace Spydr.Eblif

def LinesOK (ls : List (List String)) : Prop := ∀ l ∈ ls, okWords l

theorem linesOK_append {a b : List (List String)} (ha : LinesOK a) (hb : LinesOK b) : LinesOK (a ++ b) := by
  intro l hl
  rcases List.mem_append.mp hl with h | h
  · exact ha l h
  · exact hb l h

theorem okWords_append {a b : List String} (ha : okWords a) (hb : okWords b) : okWords (a ++ b) := by
  intro l hl
  rcases List.mem_append.mp hl with h | h
  · exact ha l h
  · exact hb l h

theorem okWords_cons {a : String} {b : List String} (ha : okWord a = true) (hb : okWords b) : okWords (a :: b) := by
  intro l hl
  rcases List.mem_cons.mp hl with h | h
  · subst h; exact ha
  · exact hb l h

theorem findDef_ok {n : BNet} (hw : WellNamed n) {dn : String} (hdn : okWord dn = true) :
    okWord (n.findDef dn).name = true ∧ (∀ p ∈ (n.findDef dn).ports, okWord p.name = true) ∧
    (∀ c, (n.findDef dn).clock = some c → okWords c) := by
  unfold BNet.findDef
  cases h : n.defs.find? (fun d => d.name = dn) with
  | none => exact ⟨hdn, by intro p hp; simp at hp, by intro c hc; simp at hc⟩
  | some d => exact hw.2.1 d (List.mem_of_find?_eq_some h)

theorem wireOf_mem {n : BNet} {p : Pin} {c : CKey} {wi len : Nat} (h : n.wireOf p = some (c, wi, len)) :
    ∃ ws, (c, ws) ∈ n.cables := by
  unfold BNet.wireOf at h
  obtain ⟨x, hx, he⟩ := List.exists_of_findSome?_eq_some h
  cases hf : findInWires p x.2 0 with
  | none => simp [hf] at he
  | some i =>
    simp only [hf, Option.some.injEq, Prod.mk.injEq] at he
    exact ⟨x.2, by rw [← he.1]; exact hx⟩

theorem netText_ok {n : BNet} (hw : WellNamed n) (p : Pin) : okWord (netText n p) = true := by
  unfold netText
  cases h : n.wireOf p with
  | none => decide
  | some x =>
    obtain ⟨c, wi, len⟩ := x
    obtain ⟨ws, hm⟩ := wireOf_mem h
    have hc := hw.2.2.2.1 (c, ws) hm
    simp only
    split
    · exact okWord_idx hc wi
    · exact hc

theorem portBits_ok {p : PortD} (h : okWord p.name = true) : okWords (portBits p) := by
  unfold portBits
  split
  · intro w hw
    obtain ⟨i, _, rfl⟩ := List.mem_map.mp hw
    exact okWord_idx h i
  · intro w hw
    simp only [List.mem_singleton] at hw
    subst hw; exact h

theorem flatMap_portBits_ok {ps : List PortD} (h : ∀ p ∈ ps, okWord p.name = true) :
    okWords (ps.flatMap portBits) := by
  intro w hw
  obtain ⟨p, hp, hwp⟩ := List.mem_flatMap.mp hw
  exact portBits_ok (h p hp) w hwp

theorem infoLines_ok {n : BNet} (hw : WellNamed n) (o : Opts) {i : Inst} (hi : i ∈ n.insts) :
    LinesOK (infoLines o i) := by
  obtain ⟨h1, _, h3, h4, _⟩ := hw.2.2.1 i hi
  unfold infoLines
  intro l hl
  simp only [List.mem_append, List.mem_map] at hl
  rcases hl with (hl | ⟨kv, hkv, rfl⟩) | ⟨kv, hkv, rfl⟩
  · split at hl
    · simp only [List.mem_singleton] at hl
      subst hl
      exact okWords_cons (by decide) (okWords_cons h1 (fun _ h => by cases h))
    · cases hl
  · exact okWords_cons (by decide) (okWords_cons (h3 kv hkv).1 (okWords_cons (h3 kv hkv).2 (fun _ h => by cases h)))
  · exact okWords_cons (by decide) (okWords_cons (h4 kv hkv).1 (okWords_cons (h4 kv hkv).2 (fun _ h => by cases h)))

theorem subcktLine_ok {n : BNet} (hw : WellNamed n) {i : Inst} (hi : i ∈ n.insts) (idx : Nat) (gate : Bool) :
    okWords (subcktLine n idx i gate) := by
  obtain ⟨_, h2, _⟩ := hw.2.2.1 i hi
  obtain ⟨_, hp, _⟩ := findDef_ok hw h2
  unfold subcktLine
  simp only
  apply okWords_append
  · exact okWords_cons (by cases gate <;> decide) (okWords_cons h2 (fun _ h => by cases h))
  · intro w hwm
    obtain ⟨p, hpm, hwp⟩ := List.mem_flatMap.mp hwm
    obtain ⟨q, _, rfl⟩ := List.mem_map.mp hwp
    apply okWord_eq
    · split
      · exact okWord_idx (hp p hpm) q.2
      · exact hp p hpm
    · exact netText_ok hw _

theorem namesLines_ok {n : BNet} (hw : WellNamed n) {i : Inst} (hi : i ∈ n.insts) (idx : Nat) :
    LinesOK (namesLines n idx i) := by
  obtain ⟨_, _, _, _, h5⟩ := hw.2.2.1 i hi
  unfold namesLines
  simp only
  apply linesOK_append
  · intro l hl
    simp only [List.mem_singleton] at hl
    subst hl
    apply okWords_append
    · exact okWords_cons (by decide) (fun _ h => by cases h)
    · intro w hwm
      obtain ⟨q, _, rfl⟩ := List.mem_map.mp hwm
      exact netText_ok hw _
  · cases hc : i.covers with
    | none => intro l hl; cases hl
    | some cs =>
      intro l hl
      obtain ⟨c, hcm, rfl⟩ := List.mem_map.mp hl
      exact h5 cs hc c hcm

theorem latchLine_ok {n : BNet} (hw : WellNamed n) (i : Inst) (idx : Nat) : okWords (latchLine n idx i) := by
  unfold latchLine
  apply okWords_append
  · exact okWords_cons (by decide) (fun _ h => by cases h)
  · intro w hwm
    obtain ⟨pt, _, hwp⟩ := List.mem_flatMap.mp hwm
    obtain ⟨q, _, rfl⟩ := List.mem_map.mp hwp
    exact netText_ok hw _

theorem instLines_ok {n : BNet} (hw : WellNamed n) (o : Opts) {p : Inst × Nat} (hi : p.1 ∈ n.insts) :
    LinesOK (instLines o n p) := by
  obtain ⟨i, idx⟩ := p
  unfold instLines
  simp only
  split
  · exact linesOK_append (fun l hl => by simp only [List.mem_singleton] at hl; subst hl; exact subcktLine_ok hw hi idx false)
      (infoLines_ok hw o hi)
  · split
    · exact linesOK_append (fun l hl => by simp only [List.mem_singleton] at hl; subst hl; exact subcktLine_ok hw hi idx true)
        (infoLines_ok hw o hi)
    · split
      · exact linesOK_append (namesLines_ok hw hi idx) (infoLines_ok hw o hi)
      · split
        · exact linesOK_append (fun l hl => by simp only [List.mem_singleton] at hl; subst hl; exact latchLine_ok hw i idx)
            (infoLines_ok hw o hi)
        · intro l hl; cases hl

theorem connLines_ok {n : BNet} (hw : WellNamed n) {d : DefD} (hp : ∀ p ∈ d.ports, okWord p.name = true) :
    LinesOK (connLines n d) := by
  unfold connLines
  intro l hl
  obtain ⟨p, hpm, hl⟩ := List.mem_flatMap.mp hl
  obtain ⟨b, _, hl⟩ := List.mem_flatMap.mp hl
  split at hl
  · split at hl
    · cases hl
    · simp only [List.mem_singleton] at hl
      subst hl
      refine okWords_cons (by decide) (okWords_cons (netText_ok hw _) (okWords_cons ?_ (fun _ h => by cases h)))
      split
      · exact okWord_idx (hp p hpm) b
      · exact hp p hpm
  · cases hl

theorem mem_zipIdx_fst {α : Type} {l : List α} {p : α × Nat} (h : p ∈ l.zipIdx) : p.1 ∈ l := by
  have := List.mem_map_of_mem (f := Prod.fst) h
  rwa [List.zipIdx_map_fst] at this

theorem modelLines_ok {n : BNet} (hw : WellNamed n) (o : Opts) {dn : String} (hdn : okWord dn = true) :
    LinesOK (modelLines o n dn) := by
  obtain ⟨_, hp, hc⟩ := findDef_ok hw hdn
  unfold modelLines
  simp only
  refine linesOK_append (linesOK_append (linesOK_append (linesOK_append ?_ ?_) ?_) (connLines_ok hw hp)) ?_
  · intro l hl
    simp only [List.mem_cons, List.mem_nil_iff, or_false] at hl
    rcases hl with rfl | rfl | rfl
    · exact okWords_cons (by decide) (okWords_cons hdn (fun _ h => by cases h))
    · exact okWords_append (okWords_cons (by decide) (fun _ h => by cases h))
        (flatMap_portBits_ok (fun p hpm => hp p ((List.mem_filter.mp hpm).1)))
    · exact okWords_append (okWords_cons (by decide) (fun _ h => by cases h))
        (flatMap_portBits_ok (fun p hpm => hp p ((List.mem_filter.mp hpm).1)))
  · cases hcl : (n.findDef dn).clock with
    | none => intro l hl; cases hl
    | some c =>
      intro l hl
      simp only [List.mem_singleton] at hl
      subst hl
      exact okWords_append (okWords_cons (by decide) (fun _ h => by cases h)) (hc c hcl)
  · intro l hl
    obtain ⟨p, hpm, hl⟩ := List.mem_flatMap.mp hl
    have hin : p.1 ∈ n.insts := by
      simp only [List.mem_append, List.mem_filter] at hpm
      rcases hpm with (((h | h) | h) | h) | h <;> exact mem_zipIdx_fst h.1.1
    exact instLines_ok hw o hin l hl
  · intro l hl
    simp only [List.mem_cons, List.mem_nil_iff, or_false] at hl
    rcases hl with rfl | rfl
    · exact okWords_cons (by decide) (fun _ h => by cases h)
    · intro w h; cases h

theorem blackboxLines_ok {n : BNet} (hw : WellNamed n) (t : String) : LinesOK (blackboxLines n t) := by
  unfold blackboxLines
  simp only
  intro l hl
  obtain ⟨d, hd, hl⟩ := List.mem_flatMap.mp hl
  have hdm : d ∈ n.defs := (List.mem_filter.mp hd).1
  obtain ⟨h1, h2, _⟩ := hw.2.1 d hdm
  simp only [List.mem_cons, List.mem_nil_iff, or_false] at hl
  rcases hl with rfl | rfl | rfl | rfl | rfl | rfl
  · exact okWords_cons (by decide) (okWords_cons h1 (fun _ h => by cases h))
  · refine okWords_append (okWords_cons (by decide) (fun _ h => by cases h)) ?_
    intro w hwm
    obtain ⟨p, hpm, rfl⟩ := List.mem_map.mp hwm
    exact h2 p ((List.mem_filter.mp hpm).1)
  · refine okWords_append (okWords_cons (by decide) (fun _ h => by cases h)) ?_
    intro w hwm
    obtain ⟨p, hpm, rfl⟩ := List.mem_map.mp hwm
    exact h2 p ((List.mem_filter.mp hpm).1)
  · exact okWords_cons (by decide) (fun _ h => by cases h)
  · exact okWords_cons (by decide) (fun _ h => by cases h)
  · intro w h; cases h

theorem composeLines_ok {n : BNet} (hw : WellNamed n) (o : Opts) : LinesOK (composeLines o n) := by
  unfold composeLines
  refine linesOK_append (linesOK_append ?_ ?_) ?_
  · intro l hl
    obtain ⟨c, hc, rfl⟩ := List.mem_map.mp hl
    exact okWords_append (okWords_cons (by decide) (fun _ h => by cases h)) (hw.1 c hc)
  · intro l hl
    simp only [List.mem_cons, List.mem_nil_iff, or_false] at hl
    rcases hl with rfl | rfl
    · intro w hwm
      simp only [List.mem_cons, List.mem_nil_iff, or_false] at hwm
      rcases hwm with rfl | rfl | rfl | rfl | rfl | rfl <;> decide
    · intro w h; cases h
  · cases ht : n.top with
    | none => intro l hl; cases hl
    | some t =>
      simp only
      split
      · apply linesOK_append (modelLines_ok hw o (hw.2.2.2.2 t ht))
        split
        · exact blackboxLines_ok hw t
        · intro l hl; cases hl
      · intro l hl; cases hl

/-- **`hg` discharged**: for a well-named netlist every token the writer emits is a word the
    tokenizer reads back and none is the continuation backslash -/
theorem composeB_good (o : Opts) (n : BNet) (hw : WellNamed n) :
    ∀ t ∈ composeB o n, GoodTok t ∧ t ≠ bsl := by
  intro t ht
  unfold composeB linesToToks at ht
  obtain ⟨l, hl, ht⟩ := List.mem_flatMap.mp ht
  rcases List.mem_append.mp ht with h | h
  · obtain ⟨w, hwm, rfl⟩ := List.mem_map.mp h
    exact okWord_good (composeLines_ok hw o l hl w hwm)
  · simp only [List.mem_singleton] at h
    subst h
    exact ⟨trivial, by decide⟩

theorem toLinesGo_linesToToks (ls : List (List String)) :
    ∀ cur : List String, toLinesGo cur (linesToToks ls) =
      (match ls with | [] => (if cur = [] then [] else [cur]) | l :: r => (cur ++ l) :: r) := by
  induction ls with
  | nil => intro cur; simp [linesToToks, toLinesGo]
  | cons l r ih =>
    intro cur
    have hw : ∀ (ws : List String) (c : List String) (rest : List Tok),
        toLinesGo c (ws.map Tok.word ++ rest) = toLinesGo (c ++ ws) rest := by
      intro ws
      induction ws with
      | nil => intro c rest; simp
      | cons w ws ihw => intro c rest; simp [toLinesGo, ihw]
    have : linesToToks (l :: r) = l.map Tok.word ++ (Tok.nl :: linesToToks r) := by simp [linesToToks]
    rw [this, hw]
    simp only [toLinesGo]
    rw [ih []]
    cases r <;> simp

/-- tokens of lines are read back as the lines -/
theorem toLines_linesToToks (ls : List (List String)) : toLines (linesToToks ls) = ls := by
  unfold toLines
  rw [toLinesGo_linesToToks]
  cases ls <;> simp

/-- reading the text the writer composes = line-parsing the composed lines, then elaborating -/
theorem read_composeText (o : Opts) (n : BNet) (hw : WellNamed n) :
    readB (composeText o n) = (parseLines (composeLines o n) >>= elabB) := by
  rw [eblif_roundtrip_partial o n (composeB_good o n hw)]
  unfold parseB composeB
  rw [toLines_linesToToks]

end Spydr.Eblif
