/-
  Self-containedness of the elaboration result: definition names are unique, every instance's
  model is a definition of the netlist, every cable owner and every instance parent is a declared
  model; hence a definition that was never declared by a `.model` (an undeclared black box, a
  generated `logic-gate_k` / `generic-latch`) is a leaf outside `work`.
-/
import Spydr.Eblif.ExactAll

namespace Spydr.Eblif

/-- (name, declared) of every definition, in order -/
def defsView (st : St) : List (String × Bool) := st.defs.map (fun d => (d.name, d.declared))

def defNames (st : St) : List String := (defsView st).map (·.1)
def declNames (st : St) : List String := ((defsView st).filter (·.2)).map (·.1)

theorem dv_updDef (st : St) (n : String) (f : DefD → DefD) (hf : ∀ d, (f d).name = d.name ∧ (f d).declared = d.declared) :
    defsView (updDef st n f) = defsView st := by
  simp only [defsView, updDef, List.map_map]
  congr 1
  funext d
  simp only [Function.comp]
  split
  · simp [(hf d).1, (hf d).2]
  · rfl

theorem dv_of_defs {a b : St} (h : b.defs = a.defs) : defsView b = defsView a := by simp [defsView, h]

@[simp] theorem dv_appendPins (st : St) (n : String) (l) : defsView (appendPins st n l) = defsView st := rfl
@[simp] theorem dv_addPort (st : St) (dn pn : String) (d : Dir) (w : Nat) : defsView (addPort st dn pn d w) = defsView st := by
  unfold addPort; split
  · rfl
  · rw [dv_appendPins]; exact dv_updDef _ _ _ (fun _ => ⟨rfl, rfl⟩)
@[simp] theorem dv_setDir (st : St) (dn pn : String) (d : Dir) : defsView (setDir st dn pn d) = defsView st :=
  dv_updDef _ _ _ (fun _ => ⟨rfl, rfl⟩)
@[simp] theorem dv_growPort (st : St) (dn pn : String) (w : Nat) : defsView (growPort st dn pn w) = defsView st := by
  unfold growPort; simp only []; split
  · rfl
  · rw [dv_appendPins]; exact dv_updDef _ _ _ (fun _ => ⟨rfl, rfl⟩)
@[simp] theorem dv_updInst (st : St) (i : Nat) (f : Inst → Inst) : defsView (updInst st i f) = defsView st := rfl
@[simp] theorem dv_assignDefault (st : St) (i : Nat) (p m : String) : defsView (assignDefault st i p m) = defsView st := rfl
@[simp] theorem dv_newInst (st : St) (p m t : String) : defsView (newInst st p m t).1 = defsView st := rfl
@[simp] theorem dv_checkHierarchy (st : St) (c d : String) : defsView (checkHierarchy st c d) = defsView st := by
  unfold checkHierarchy; split <;> rfl
@[simp] theorem dv_connect (st : St) (p : Pin) (o n : String) (i : Nat) : defsView (connect st p o n i) = defsView st :=
  dv_of_defs (defs_connect _ _ _ _ _)
@[simp] theorem dv_ensureWire (st : St) (o n : String) (i : Nat) : defsView (ensureWire st o n i) = defsView st := by
  unfold ensureWire ensureCable; simp only []; split <;> split <;> rfl
@[simp] theorem dv_mergeKeys (st : St) (a b : Key) : defsView (mergeKeys st a b) = defsView st := by
  unfold mergeKeys; simp only []; split <;> rfl
@[simp] theorem dv_clearOwner (st : St) (o : String) : defsView (clearOwner st o) = defsView st := rfl

/-- `ensureDef` either finds the name or appends an undeclared definition -/
theorem dv_ensureDef (st : St) (n : String) :
    (n ∈ defNames st ∧ defsView (ensureDef st n) = defsView st) ∨
    (n ∉ defNames st ∧ defsView (ensureDef st n) = defsView st ++ [(n, false)]) := by
  unfold ensureDef findDef
  cases h : st.defs.find? (fun d => d.name = n) with
  | some d =>
    left
    refine ⟨?_, rfl⟩
    have hm := List.mem_of_find?_eq_some h
    have hn : d.name = n := by simpa using List.find?_some h
    simp only [defNames, defsView, List.map_map, List.mem_map, Function.comp]
    exact ⟨d, hm, hn⟩
  | none =>
    right
    refine ⟨?_, by simp [defsView]⟩
    rw [List.find?_eq_none] at h
    simp only [defNames, defsView, List.map_map, List.mem_map, Function.comp, not_exists, not_and]
    intro d hd he
    exact (h d hd) (by simpa using he)

/-- the invariant -/
structure SC (st : St) : Prop where
  nodup : (defNames st).Nodup
  insts : ∀ k ∈ instKinds st, k.2.1 ∈ defNames st ∧ k.1 ∈ declNames st
  cables : ∀ c ∈ st.cables, c.1 ∈ declNames st

theorem SC.init : SC ({} : St) := by
  refine ⟨by simp [defNames, defsView], ?_, ?_⟩
  · intro k h; simp [instKinds] at h
  · intro c h; simp at h

/-- a step that keeps definitions' (name, declared), instance kinds and cables -/
theorem SC.of_same {st st' : St} (hd : defsView st' = defsView st) (hi : instKinds st' = instKinds st)
    (hc : st'.cables = st.cables) (s : SC st) : SC st' := by
  refine ⟨?_, ?_, ?_⟩
  · simp only [defNames, hd]; exact s.nodup
  · intro k hk; rw [hi] at hk; simpa [defNames, declNames, hd] using s.insts k hk
  · intro c hcm; rw [hc] at hcm; simpa [declNames, hd] using s.cables c hcm

theorem declNames_sub (st : St) : ∀ n ∈ declNames st, n ∈ defNames st := by
  intro n hn
  simp only [declNames, defNames, List.mem_map, List.mem_filter] at hn ⊢
  obtain ⟨x, ⟨hx, _⟩, rfl⟩ := hn
  exact ⟨x, hx, rfl⟩

theorem sc_ensureDef {st : St} (s : SC st) (n : String) :
    SC (ensureDef st n) ∧ n ∈ defNames (ensureDef st n) ∧ (∀ m ∈ declNames st, m ∈ declNames (ensureDef st n)) := by
  have hik : instKinds (ensureDef st n) = instKinds st := ik_ensureDef st n
  have hcb : (ensureDef st n).cables = st.cables := by unfold ensureDef; split <;> rfl
  rcases dv_ensureDef st n with ⟨hin, hd⟩ | ⟨hnin, hd⟩
  · exact ⟨SC.of_same hd hik hcb s, by simpa [defNames, hd] using hin, fun m hm => by simpa [declNames, hd] using hm⟩
  · have hdn : defNames (ensureDef st n) = defNames st ++ [n] := by simp [defNames, hd]
    have hdc : declNames (ensureDef st n) = declNames st := by simp [declNames, hd, List.filter_append]
    refine ⟨⟨?_, ?_, ?_⟩, by simp [hdn], fun m hm => by rw [hdc]; exact hm⟩
    · rw [hdn, List.nodup_append]
      exact ⟨s.nodup, by simp, fun a ha b hb => by simp at hb; subst hb; exact fun e => hnin (e ▸ ha)⟩
    · intro k hk
      rw [hik] at hk
      obtain ⟨h1, h2⟩ := s.insts k hk
      exact ⟨by rw [hdn]; simp [h1], by rw [hdc]; exact h2⟩
    · intro c hc
      rw [hcb] at hc
      rw [hdc]; exact s.cables c hc

end Spydr.Eblif
