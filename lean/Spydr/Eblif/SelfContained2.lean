/-
  Self-containedness, lifted through the elaborator.
-/
import Spydr.Eblif.SelfContained

namespace Spydr.Eblif

theorem dv_rename {st st' : St} {i : Nat} {p n : String} (h : rename st i p n = Except.ok st') : defsView st' = defsView st := by
  unfold rename at h; split at h <;> (cases h; rfl)
theorem dv_renameStrict {st st' : St} {i : Nat} {p n : String} (h : renameStrict st i p n = Except.ok st') :
    defsView st' = defsView st := by
  unfold renameStrict at h; split at h
  · cases h
  · cases h; rfl

theorem dv_connectOne {st st' : St} {idx : Nat} {parent model : String} {fa : String × String}
    (h : connectOne st idx parent model fa = Except.ok st') : defsView st' = defsView st := by
  unfold connectOne at h
  obtain ⟨⟨cn, ci⟩, _, h⟩ := bind_ok h
  obtain ⟨⟨pn, pi⟩, _, h⟩ := bind_ok h
  simp only [] at h
  split at h
  · cases h; rfl
  · split at h
    · cases h
    · cases h; simp

theorem dv_connectAll {idx : Nat} {parent model : String} (l : List (String × String)) :
    ∀ {st st' : St}, connectAll st idx parent model l = Except.ok st' → defsView st' = defsView st := by
  induction l with
  | nil => intro st st' h; cases h; rfl
  | cons fa r ih =>
    intro st st' h
    unfold connectAll at h
    obtain ⟨s1, h1, h2⟩ := bind_ok h
    rw [ih h2, dv_connectOne h1]

theorem dv_declFormals {model : String} (l : List (String × String)) :
    ∀ {st st' : St}, declFormals st model l = Except.ok st' → defsView st' = defsView st := by
  induction l with
  | nil => intro st st' h; cases h; rfl
  | cons fa r ih =>
    intro st st' h
    unfold declFormals at h
    obtain ⟨s1, h1, h2⟩ := bind_ok h
    rw [ih h2]
    unfold declFormal at h1
    obtain ⟨⟨pn, pi⟩, _, h1⟩ := bind_ok h1
    simp only [] at h1
    cases h1
    split <;> simp

theorem dv_applyInfo {idx : Nat} {parent : String} (l : List InfoStmt) :
    ∀ {st st' : St}, applyInfo st idx parent l = Except.ok st' → defsView st' = defsView st := by
  induction l with
  | nil => intro st st' h; cases h; rfl
  | cons x r ih =>
    intro st st' h
    cases x with
    | cname n =>
      unfold applyInfo at h
      obtain ⟨s1, h1, h2⟩ := bind_ok h
      rw [ih h2, dv_renameStrict h1]; rfl
    | attr k v => unfold applyInfo at h; rw [ih h]; rfl
    | param k v => unfold applyInfo at h; rw [ih h]; rfl

theorem dv_addLatchPorts (l : List String) : ∀ st : St, defsView (addLatchPorts st l) = defsView st := by
  induction l with
  | nil => intro st; rfl
  | cons o r ih => intro st; simp [addLatchPorts, ih]

theorem dv_addNamesPorts (st : St) (dn : String) (k : Nat) : defsView (addNamesPorts st dn k) = defsView st := by
  unfold addNamesPorts
  simp only [dv_addPort]
  generalize List.range k = l
  induction l generalizing st with
  | nil => rfl
  | cons o r ih => simp [List.foldl_cons, ih]

theorem cables_of_nf {a b : St} (h : netFields b = netFields a) : b.cables = a.cables := by
  simp only [netFields, Prod.mk.injEq] at h; exact h.2.2.1

theorem cables_connect (st : St) (p : Pin) (o n : String) (i : Nat) :
    ∀ c ∈ (connect st p o n i).cables, c ∈ st.cables ∨ c = (o, n) := by
  intro c hc
  unfold connect ensureWire ensureCable at hc
  simp only [] at hc
  split at hc <;> split at hc <;> simp_all

/-- within a model `cur` that is declared: the netlist stays self-contained -/
structure SCc (st : St) (cur : String) : Prop where
  sc : SC st
  cur : cur ∈ declNames st

theorem SCc.of_same {st st' : St} {cur : String} (hd : defsView st' = defsView st) (hi : instKinds st' = instKinds st)
    (hc : st'.cables = st.cables) (s : SCc st cur) : SCc st' cur :=
  ⟨SC.of_same hd hi hc s.sc, by simpa [declNames, hd] using s.cur⟩

theorem scc_connect {st : St} {cur : String} (s : SCc st cur) (p : Pin) (n : String) (i : Nat) :
    SCc (connect st p cur n i) cur := by
  have hd := dv_connect st p cur n i
  refine ⟨⟨?_, ?_, ?_⟩, by simpa [declNames, hd] using s.cur⟩
  · simp only [defNames, hd]; exact s.sc.nodup
  · intro k hk
    rw [ik_connect] at hk
    simpa [defNames, declNames, hd] using s.sc.insts k hk
  · intro c hc
    rcases cables_connect st p cur n i c hc with h | h
    · simpa [declNames, hd] using s.sc.cables c h
    · subst h; simpa [declNames, hd] using s.cur

theorem scc_connectOne {st st' : St} {cur model : String} {idx : Nat} {fa : String × String}
    (s : SCc st cur) (h : connectOne st idx cur model fa = Except.ok st') : SCc st' cur := by
  obtain ⟨cn, ci, pn, pi, _, _, hc⟩ := connectOne_cases h
  rcases hc with ⟨_, hf⟩ | ⟨_, hs⟩
  · exact SCc.of_same (dv_connectOne h) (ik_connectOne h) (cables_of_nf hf) s
  · subst hs
    exact scc_connect (SCc.of_same (dv_growPort _ _ _ _) (ik_growPort _ _ _ _) (cables_of_nf (nf_growPort _ _ _ _)) s) _ _ _

theorem scc_connectAll {cur model : String} {idx : Nat} (l : List (String × String)) :
    ∀ {st st' : St}, SCc st cur → connectAll st idx cur model l = Except.ok st' → SCc st' cur := by
  induction l with
  | nil => intro st st' s h; cases h; exact s
  | cons fa r ih =>
    intro st st' s h
    unfold connectAll at h
    obtain ⟨s1, h1, h2⟩ := bind_ok h
    exact ih (scc_connectOne s h1) h2

/-- a new instance of `model` under `cur` keeps the invariant when `model` is a definition -/
theorem scc_newInst {st : St} {cur : String} (s : SCc st cur) (model typ : String) (hm : model ∈ defNames st) :
    SCc (newInst st cur model typ).1 cur := by
  have hd := dv_newInst st cur model typ
  refine ⟨⟨?_, ?_, ?_⟩, by simpa [declNames, hd] using s.cur⟩
  · simp only [defNames, hd]; exact s.sc.nodup
  · intro k hk
    rw [ik_newInst, List.mem_append] at hk
    rcases hk with hk | hk
    · simpa [defNames, declNames, hd] using s.sc.insts k hk
    · simp only [List.mem_singleton] at hk
      subst hk
      exact ⟨by simpa [defNames, hd] using hm, by simpa [declNames, hd] using s.cur⟩
  · intro c hc
    have : (newInst st cur model typ).1.cables = st.cables := rfl
    rw [this] at hc
    simpa [declNames, hd] using s.sc.cables c hc

theorem scc_ensureDef {st : St} {cur : String} (s : SCc st cur) (n : String) :
    SCc (ensureDef st n) cur ∧ n ∈ defNames (ensureDef st n) := by
  obtain ⟨h1, h2, h3⟩ := sc_ensureDef s.sc n
  exact ⟨⟨h1, h3 cur s.cur⟩, h2⟩

theorem mem_defNames_of_dv {a b : St} (h : defsView b = defsView a) {n : String} (hn : n ∈ defNames a) : n ∈ defNames b := by
  simpa [defNames, h] using hn

theorem scc_elabStmt {st st' : St} {cur : String} {s : Stmt} (sc : SCc st cur)
    (h : elabStmt st cur s = Except.ok st') : SCc st' cur := by
  cases s with
  | subckt gate model conns info =>
    unfold elabStmt at h
    simp only [] at h
    obtain ⟨s1, h1, h⟩ := bind_ok h
    obtain ⟨s2, h2, h⟩ := bind_ok h
    rw [newInst_snd] at h2 h
    have a0 : SCc (checkHierarchy st cur model) cur :=
      SCc.of_same (dv_checkHierarchy _ _ _) (ik_checkHierarchy _ _ _) (cables_of_nf (nf_checkHierarchy _ _ _)) sc
    obtain ⟨a1, m1⟩ := scc_ensureDef a0 model
    have a2 : SCc s1 cur := SCc.of_same (dv_declFormals conns h1) (ik_declFormals conns h1) (cables_of_nf (nf_declFormals conns h1)) a1
    have m2 : model ∈ defNames s1 := mem_defNames_of_dv (dv_declFormals conns h1) m1
    have a3 := scc_newInst a2 model (if gate then "EBLIF.gate" else "EBLIF.subckt") m2
    have a4 : SCc (assignDefault (newInst s1 cur model (if gate then "EBLIF.gate" else "EBLIF.subckt")).1 s1.insts.length cur model) cur :=
      SCc.of_same (dv_assignDefault _ _ _ _) (ik_assignDefault _ _ _ _) (cables_of_nf (nf_assignDefault _ _ _ _)) a3
    have a5 := scc_connectAll _ a4 h2
    exact SCc.of_same (dv_applyInfo info h) (ik_applyInfo info h) (cables_of_nf (nf_applyInfo info h)) a5
  | names nets covers info =>
    unfold elabStmt at h
    simp only [] at h
    split at h
    · cases h
    · obtain ⟨s1, h1, h⟩ := bind_ok h
      obtain ⟨s2, h2, h⟩ := bind_ok h
      rw [newInst_snd] at h1 h2 h
      obtain ⟨a1, m1⟩ := scc_ensureDef sc ("logic-gate_" ++ natStr (nets.length - 1))
      have a2 : SCc (addNamesPorts (ensureDef st ("logic-gate_" ++ natStr (nets.length - 1))) ("logic-gate_" ++ natStr (nets.length - 1)) (nets.length - 1)) cur :=
        SCc.of_same (dv_addNamesPorts _ _ _) (ik_addNamesPorts _ _ _) (cables_of_nf (nf_addNamesPorts _ _ _)) a1
      have m2 := mem_defNames_of_dv (dv_addNamesPorts (ensureDef st ("logic-gate_" ++ natStr (nets.length - 1))) ("logic-gate_" ++ natStr (nets.length - 1)) (nets.length - 1)) m1
      have a3 := scc_newInst a2 ("logic-gate_" ++ natStr (nets.length - 1)) "EBLIF.names" m2
      have a4 := SCc.of_same (st' := updInst (newInst (addNamesPorts (ensureDef st ("logic-gate_" ++ natStr (nets.length - 1))) ("logic-gate_" ++ natStr (nets.length - 1)) (nets.length - 1)) cur ("logic-gate_" ++ natStr (nets.length - 1)) "EBLIF.names").1
          (addNamesPorts (ensureDef st ("logic-gate_" ++ natStr (nets.length - 1))) ("logic-gate_" ++ natStr (nets.length - 1)) (nets.length - 1)).insts.length (fun i => { i with covers := some covers }))
        (dv_updInst _ _ _) (ik_updInst _ _ _ (fun _ => rfl)) rfl a3
      have a5 : SCc s1 cur := by
        split at h1
        · cases h1
          exact SCc.of_same (dv_assignDefault _ _ _ _) (ik_assignDefault _ _ _ _) (cables_of_nf (nf_assignDefault _ _ _ _)) a4
        · exact SCc.of_same (dv_rename h1) (ik_rename h1) (cables_of_nf (nf_rename h1)) a4
      have a6 := scc_connectAll _ a5 h2
      exact SCc.of_same (dv_applyInfo info h) (ik_applyInfo info h) (cables_of_nf (nf_applyInfo info h)) a6
  | latch toks info =>
    unfold elabStmt at h
    simp only [] at h
    split at h
    · cases h
    · obtain ⟨s1, h1, h⟩ := bind_ok h
      obtain ⟨s2, h2, h⟩ := bind_ok h
      rw [newInst_snd] at h1 h2 h
      obtain ⟨a1, m1⟩ := scc_ensureDef sc "generic-latch"
      have a2 : SCc (addLatchPorts (ensureDef st "generic-latch") (List.map (·.1) (latchOrder.zip toks))) cur :=
        SCc.of_same (dv_addLatchPorts _ _) (ik_addLatchPorts _ _) (cables_of_nf (nf_addLatchPorts _ _)) a1
      have m2 := mem_defNames_of_dv (dv_addLatchPorts (List.map (·.1) (latchOrder.zip toks)) (ensureDef st "generic-latch")) m1
      have a3 := scc_newInst a2 "generic-latch" "EBLIF.latch" m2
      have a5 : SCc s1 cur := SCc.of_same (dv_rename h1) (ik_rename h1) (cables_of_nf (nf_rename h1)) a3
      have a6 := scc_connectAll _ a5 h2
      exact SCc.of_same (dv_applyInfo info h) (ik_applyInfo info h) (cables_of_nf (nf_applyInfo info h)) a6
  | conn a b =>
    unfold elabStmt at h
    obtain ⟨⟨n1, i1⟩, _, h⟩ := bind_ok h
    obtain ⟨⟨n2, i2⟩, _, h⟩ := bind_ok h
    simp only [] at h
    cases h
    have hd : defsView (mergeKeys (ensureWire (ensureWire st cur n1 i1) cur n2 i2) (cur, n1, i1) (cur, n2, i2)) = defsView st := by
      simp
    refine ⟨⟨?_, ?_, ?_⟩, by simpa [declNames, hd] using sc.cur⟩
    · simp only [defNames, hd]; exact sc.sc.nodup
    · intro k hk
      rw [ik_mergeKeys, ik_ensureWire, ik_ensureWire] at hk
      simpa [defNames, declNames, hd] using sc.sc.insts k hk
    · intro c hc
      have hsub : ∀ (s : St) (o n : String) (i : Nat), ∀ c ∈ (ensureWire s o n i).cables, c ∈ s.cables ∨ c = (o, n) := by
        intro s o n i c hc
        unfold ensureWire ensureCable at hc
        simp only [] at hc
        split at hc <;> split at hc <;> simp_all
      have hmk : (mergeKeys (ensureWire (ensureWire st cur n1 i1) cur n2 i2) (cur, n1, i1) (cur, n2, i2)).cables =
          (ensureWire (ensureWire st cur n1 i1) cur n2 i2).cables := by
        unfold mergeKeys; simp only []; split <;> rfl
      rw [hmk] at hc
      rcases hsub _ _ _ _ c hc with h | h
      · rcases hsub _ _ _ _ c h with h' | h'
        · simpa [declNames, hd] using sc.sc.cables c h'
        · subst h'; simpa [declNames, hd] using sc.cur
      · subst h; simpa [declNames, hd] using sc.cur
  | blackbox =>
    unfold elabStmt at h
    cases h
    have hd : defsView (updDef (clearOwner st cur) cur (fun d => { d with blackbox := true })) = defsView st := by
      exact (dv_updDef (clearOwner st cur) cur (fun d => { d with blackbox := true }) (fun _ => ⟨rfl, rfl⟩)).trans rfl
    refine ⟨⟨?_, ?_, ?_⟩, by simpa [declNames, hd] using sc.cur⟩
    · simp only [defNames, hd]; exact sc.sc.nodup
    · intro k hk
      rw [ik_updDef, ik_clearOwner] at hk
      simpa [defNames, declNames, hd] using sc.sc.insts k hk
    · intro c hc
      simp only [updDef, clearOwner, List.mem_filter] at hc
      simpa [declNames, hd] using sc.sc.cables c hc.1

theorem scc_elabStmts {cur : String} (l : List Stmt) :
    ∀ {st st' : St}, SCc st cur → elabStmts st cur l = Except.ok st' → SCc st' cur := by
  induction l with
  | nil => intro st st' s h; cases h; exact s
  | cons x r ih =>
    intro st st' s h
    unfold elabStmts at h
    obtain ⟨s1, h1, h2⟩ := bind_ok h
    exact ih (scc_elabStmt s h1) h2

end Spydr.Eblif
