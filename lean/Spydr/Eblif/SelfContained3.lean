/-
  Self-containedness: headers, models, and the final statements.
-/
import Spydr.Eblif.SelfContained2

namespace Spydr.Eblif

theorem dv_declare (st : St) (n : String) :
    defsView (updDef st n (fun d => { d with declared := true })) =
      (defsView st).map (fun x => if x.1 = n then (x.1, true) else x) := by
  simp only [defsView, updDef, List.map_map]
  congr 1
  funext d
  simp only [Function.comp]
  split <;> rfl

theorem scc_beginModel {st : St} (s : SC st) (n : String) : SCc (beginModel st n) n := by
  obtain ⟨s1, hn1, hmono⟩ := sc_ensureDef s n
  have hdv : defsView (beginModel st n) = (defsView (ensureDef st n)).map (fun x => if x.1 = n then (x.1, true) else x) := by
    have : defsView (beginModel st n) = defsView (updDef (ensureDef st n) n (fun d => { d with declared := true })) := by
      unfold beginModel; simp only []; split <;> rfl
    rw [this, dv_declare]
  have hik : instKinds (beginModel st n) = instKinds st := ik_beginModel st n
  have hcb : (beginModel st n).cables = st.cables := cables_of_nf (nf_beginModel st n)
  have hnames : defNames (beginModel st n) = defNames (ensureDef st n) := by
    simp only [defNames, hdv, List.map_map]
    congr 1
    funext x
    simp only [Function.comp]
    split <;> rfl
  have hdecl : ∀ m, m ∈ declNames (ensureDef st n) ∨ m = n ∧ n ∈ defNames (ensureDef st n) → m ∈ declNames (beginModel st n) := by
    intro m hm
    simp only [declNames, hdv, List.mem_map, List.mem_filter]
    rcases hm with hm | ⟨rfl, hm⟩
    · simp only [declNames, List.mem_map, List.mem_filter] at hm
      obtain ⟨x, ⟨hx, hxd⟩, rfl⟩ := hm
      refine ⟨if x.1 = n then (x.1, true) else x, ⟨⟨x, hx, rfl⟩, ?_⟩, ?_⟩
      · split <;> simp [hxd]
      · split <;> rfl
    · simp only [defNames, List.mem_map] at hm
      obtain ⟨x, hx, rfl⟩ := hm
      exact ⟨(x.1, true), ⟨⟨x, hx, by simp⟩, rfl⟩, rfl⟩
  refine ⟨⟨?_, ?_, ?_⟩, hdecl n (Or.inr ⟨rfl, hn1⟩)⟩
  · rw [hnames]; exact s1.nodup
  · intro k hk
    rw [hik] at hk
    obtain ⟨h1, h2⟩ := s.insts k hk
    refine ⟨?_, hdecl _ (Or.inl (hmono _ h2))⟩
    rw [hnames]
    rcases dv_ensureDef st n with ⟨_, hd⟩ | ⟨_, hd⟩
    · simpa [defNames, hd] using h1
    · simp only [defNames, hd, List.map_append, List.mem_append]; exact Or.inl h1
  · intro c hc
    rw [hcb] at hc
    exact hdecl _ (Or.inl (hmono _ (s.cables c hc)))

theorem scc_elabInput {st st' : St} {cur tok : String} (s : SCc st cur) (h : elabInput st cur tok = Except.ok st') :
    SCc st' cur := by
  unfold elabInput at h
  obtain ⟨⟨pn, pi⟩, _, h⟩ := bind_ok h
  simp only [] at h
  cases h
  refine scc_connect (SCc.of_same ?_ ?_ (cables_of_nf ?_) s) _ _ _
  · rw [dv_growPort]; split <;> simp
  · rw [ik_growPort]; split <;> simp
  · rw [nf_growPort]; split <;> simp

theorem scc_elabOutput {st st' : St} {cur tok : String} (s : SCc st cur) (h : elabOutput st cur tok = Except.ok st') :
    SCc st' cur := by
  unfold elabOutput at h
  obtain ⟨⟨pn, pi⟩, _, h⟩ := bind_ok h
  simp only [] at h
  split at h
  · cases h
    exact SCc.of_same (by simp) (by simp) (cables_of_nf (by simp)) s
  · cases h
    exact scc_connect (SCc.of_same (by simp) (by simp) (cables_of_nf (by simp)) s) _ _ _

theorem scc_elabToks (f : St → String → String → Except Err St)
    (hf : ∀ {st st' : St} {cur tok : String}, SCc st cur → f st cur tok = Except.ok st' → SCc st' cur)
    {cur : String} (l : List String) :
    ∀ {st st' : St}, SCc st cur → elabToks f st cur l = Except.ok st' → SCc st' cur := by
  induction l with
  | nil => intro st st' s h; cases h; exact s
  | cons t r ih =>
    intro st st' s h
    unfold elabToks at h
    obtain ⟨s1, h1, h2⟩ := bind_ok h
    exact ih (hf s h1) h2

theorem scc_elabHdrs {cur : String} (l : List Hdr) :
    ∀ {st st' : St}, SCc st cur → elabHdrs st cur l = Except.ok st' → SCc st' cur := by
  induction l with
  | nil => intro st st' s h; cases h; exact s
  | cons x r ih =>
    intro st st' s h
    unfold elabHdrs at h
    obtain ⟨s1, h1, h2⟩ := bind_ok h
    refine ih ?_ h2
    cases x with
    | inputs l => exact scc_elabToks elabInput (fun s h => scc_elabInput s h) l s h1
    | outputs l => exact scc_elabToks elabOutput (fun s h => scc_elabOutput s h) l s h1
    | clock l =>
      unfold elabHdr at h1
      cases h1
      exact SCc.of_same (dv_updDef _ _ _ (fun _ => ⟨rfl, rfl⟩)) (ik_updDef _ _ _) rfl s

theorem sc_elabModel {st st' : St} {m : Model} (s : SC st) (h : elabModel st m = Except.ok st') : SC st' := by
  unfold elabModel at h
  obtain ⟨s1, h1, h2⟩ := bind_ok h
  exact (scc_elabStmts _ (scc_elabHdrs _ (scc_beginModel s m.name) h1) h2).sc

theorem sc_elabModels (ms : List Model) :
    ∀ {st st' : St}, SC st → elabModels st ms = Except.ok st' → SC st' := by
  induction ms with
  | nil => intro st st' s h; cases h; exact s
  | cons m r ih =>
    intro st st' s h
    unfold elabModels at h
    obtain ⟨s1, h1, h2⟩ := bind_ok h
    exact ih (sc_elabModel s h1) h2

theorem eq_of_nodup_defname {ds : List DefD} (hn : (ds.map (·.name)).Nodup) {p q : DefD} (hp : p ∈ ds) (hq : q ∈ ds)
    (he : p.name = q.name) : p = q := by
  induction ds with
  | nil => cases hp
  | cons a r ih =>
    simp only [List.map_cons, List.nodup_cons, List.mem_map, not_exists, not_and] at hn
    rcases List.mem_cons.mp hp with rfl | hp' <;> rcases List.mem_cons.mp hq with rfl | hq'
    · rfl
    · exact absurd he.symm (hn.1 q hq')
    · exact absurd he (hn.1 p hp')
    · exact ih hn.2 hp' hq'

theorem declared_of_declNames {st : St} {n : String} (h : n ∈ declNames st) : ∃ d ∈ st.defs, d.name = n ∧ d.declared = true := by
  simp only [declNames, defsView, List.mem_map, List.mem_filter] at h
  obtain ⟨x, ⟨⟨d, hd, rfl⟩, hx⟩, rfl⟩ := h
  exact ⟨d, hd, rfl, hx⟩

/-- every instance's model is a definition of the netlist; parents and cable owners are declared models -/
theorem sc_resolves {st : St} (s : SC st) :
    (∀ i ∈ st.insts, (∃ d ∈ st.defs, d.name = i.model) ∧ ∃ d ∈ st.defs, d.name = i.parent ∧ d.declared = true) ∧
    (∀ c ∈ st.cables, ∃ d ∈ st.defs, d.name = c.1 ∧ d.declared = true) := by
  refine ⟨fun i hi => ?_, fun c hc => declared_of_declNames (s.cables c hc)⟩
  have hk : (i.parent, i.model, i.typ) ∈ instKinds st := List.mem_map.mpr ⟨i, hi, rfl⟩
  obtain ⟨h1, h2⟩ := s.insts _ hk
  refine ⟨?_, declared_of_declNames h2⟩
  simp only [defNames, defsView, List.map_map, List.mem_map, Function.comp] at h1
  exact h1

/-- a definition no `.model` declared is a leaf and not in `work` -/
theorem sc_undeclared_leaf {st : St} (s : SC st) {d : DefD} (hd : d ∈ st.defs) (hu : d.declared = false) :
    isLeaf st.toNet d.name = true ∧ d.inWork = false := by
  have hnd : (st.defs.map (·.name)).Nodup := by
    have := s.nodup
    simp only [defNames, defsView, List.map_map] at this
    exact this
  have hno : ∀ n, n ∈ declNames st → n ≠ d.name := by
    intro n hn he
    obtain ⟨d', hd', hn', hdecl⟩ := declared_of_declNames hn
    have := eq_of_nodup_defname hnd hd' hd (hn'.trans he)
    subst this
    rw [hu] at hdecl; cases hdecl
  refine ⟨?_, by simp [DefD.inWork, hu]⟩
  simp only [isLeaf, St.toNet, Bool.and_eq_true, Bool.not_eq_true', List.any_eq_false, List.any_map,
    decide_eq_true_eq, Function.comp]
  constructor
  · intro i hi he
    have hk : (i.parent, i.model, i.typ) ∈ instKinds st := List.mem_map.mpr ⟨i, hi, rfl⟩
    exact hno _ (s.insts _ hk).2 he
  · intro c hc he
    exact hno _ (s.cables c hc) he

end Spydr.Eblif
