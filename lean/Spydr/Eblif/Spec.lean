/-
  EBLIF engine: the specification vocabulary of property C18 (written against the data types of
  the model, not against its functions, except `dictSet` in `infoMapOf`).
    GoodTok / Terminated      what a writer may print so that the tokenizer reads it back
    Joined / Live             "pin p is on the wire net bit k stands for", "bit k's cable exists"
    infoMapOf                 the formal -> actual dict of one instance statement
    instKinds / stmtKind      (parent, model, EBLIF.type) per instance, per statement
    subcktLines ...           how an independent writer renders an instance statement
  The predicate P evaluated on the implementation's output is the independent Python oracle
  harness/engines/eblif_lib.py (denote / P_parse / P_roundtrip).
  No Mathlib.
-/
import Spydr.Eblif.ModelElab

namespace Spydr.Eblif

/-- a word the printer can emit and the lexer reads back: non-empty, no blank, no newline -/
def GoodWord (s : String) : Prop :=
  s.toList ≠ [] ∧ ∀ c ∈ s.toList, isWs c = false ∧ c ≠ '\n' ∧ c ≠ '\r'

def GoodTok : Tok → Prop
  | Tok.word s => GoodWord s
  | Tok.nl => True

/-- the token list is empty or ends with a line end -/
def Terminated (ts : List Tok) : Prop := ∀ t, ts.getLast? = some t → t = Tok.nl

/-- pin `p` sits on the wire that net bit `k` currently stands for -/
def Joined (st : St) (p : Pin) (k : Key) : Prop := p ∈ st.pins (st.alias k)

/-- the cable of bit `k` exists and is wide enough -/
def Live (st : St) (k : Key) : Prop := (k.1, k.2.1) ∈ st.cables ∧ k.2.2 < st.width (k.1, k.2.1)

/-- `current_instance_info` of a `.subckt`: a dict keyed by the formal text (a repeated formal
    keeps its first position and takes the last actual) -/
def infoMapOf (conns : List (String × String)) : List (String × String) :=
  conns.foldl (fun l fa => dictSet l fa.1 fa.2) []

/-- (parent, model, EBLIF.type) of every instance, in creation order -/
def instKinds (st : St) : List (String × String × String) :=
  st.insts.map (fun i => (i.parent, i.model, i.typ))

def kindOf (i : Inst) : String × String × String := (i.parent, i.model, i.typ)

/-- what a statement contributes to the instance list -/
def stmtKind (cur : String) : Stmt → List (String × String × String)
  | Stmt.subckt gate model _ _ => [(cur, model, if gate then "EBLIF.gate" else "EBLIF.subckt")]
  | Stmt.names nets _ _ => [(cur, "logic-gate_" ++ natStr (nets.length - 1), "EBLIF.names")]
  | Stmt.latch _ _ => [(cur, "generic-latch", "EBLIF.latch")]
  | Stmt.conn _ _ => []
  | Stmt.blackbox => []

def connWord (c : String × String) : String := c.1 ++ "=" ++ c.2

def infoLine : InfoStmt → List String
  | InfoStmt.cname n => [".cname", n]
  | InfoStmt.attr k v => [".attr", k, v]
  | InfoStmt.param k v => [".param", k, v]

def subcktKw (gate : Bool) : String := if gate then ".gate" else ".subckt"

/-- the lines of one instance statement, as an independent writer renders them -/
def subcktLines (gate : Bool) (m : String) (conns : List (String × String)) (info : List InfoStmt) :
    List (List String) :=
  ([subcktKw gate, m] ++ conns.map connWord) :: info.map infoLine

/-! ### exact connectivity -/

/-- the join a single `formal -> actual` entry declares for instance `idx` of model `parent` -/
def joinOf (idx : Nat) (parent : String) (fa : String × String) : List (Pin × Key) :=
  match splitIdx fa.2, splitIdx fa.1 with
  | Except.ok (cn, ci), Except.ok (pn, pi) =>
      if cn = "unconn" then [] else [(Pin.inst idx pn pi, (parent, cn, ci))]
  | _, _ => []

/-- the definition `.names` with `k` inputs instantiates, as it is right after its ports were
    created on demand (ports `in_0 .. in_{k-1}`, `out` when it is generated here) -/
def namesDef (st : St) (k : Nat) : DefD :=
  let dn := "logic-gate_" ++ natStr k
  match findDef (addNamesPorts (ensureDef st dn) dn k) dn with
  | some d => d
  | none => { name := dn }

/-- formal -> actual dict of a `.names`: the definition's ports zipped with the listed nets -/
def namesInfo (st : St) (nets : List String) : List (String × String) :=
  ((namesDef st (nets.length - 1)).ports.zip nets).foldl (fun l pn => dictSet l pn.1.name pn.2) []

/-- the (pin, net bit) pairs a statement declares; the new instance's index is the number of
    instances before the statement -/
def stmtJoins (st : St) (cur : String) : Stmt → List (Pin × Key)
  | Stmt.subckt _ _ conns _ => (infoMapOf conns).flatMap (joinOf st.insts.length cur)
  | Stmt.names nets _ _ => (namesInfo st nets).flatMap (joinOf st.insts.length cur)
  | Stmt.latch toks _ => (latchOrder.zip toks).flatMap (joinOf st.insts.length cur)
  | Stmt.conn _ _ => []
  | Stmt.blackbox => []

/-- all pairs a statement list declares (the state is threaded only for the instance count and
    for the port names of the `.names` definitions) -/
def bodyJoins (st : St) (cur : String) : List Stmt → List (Pin × Key)
  | [] => []
  | s :: r => stmtJoins st cur s ++
      (match elabStmt st cur s with
       | Except.ok st1 => bodyJoins st1 cur r
       | Except.error _ => [])

/-- state-free form for bodies without `.names`: `n` = number of instances so far -/
def declaredJoins (n : Nat) (cur : String) : List Stmt → List (Pin × Key)
  | [] => []
  | Stmt.subckt _ _ conns _ :: r => (infoMapOf conns).flatMap (joinOf n cur) ++ declaredJoins (n + 1) cur r
  | Stmt.latch toks _ :: r => (latchOrder.zip toks).flatMap (joinOf n cur) ++ declaredJoins (n + 1) cur r
  | Stmt.names _ _ _ :: r => declaredJoins (n + 1) cur r
  | _ :: r => declaredJoins n cur r

/-- pins are exactly where the declared joins put them -/
def Exact (st : St) (J : List (Pin × Key)) : Prop :=
  ∀ p k, p ∈ st.pins k ↔ ∃ k', (p, k') ∈ J ∧ st.alias k' = k

/-! ### instance data and header ports -/

/-- `.cname/.attr/.param` data of an instance: (cname, attrs, params) -/
def infoOf (i : Inst) : Option String × List (String × String) × List (String × String) :=
  (i.cname, i.attrs, i.params)

/-- what the info lines of a statement make of the data (dict semantics: a repeated key keeps its
    place and takes the last value; the last `.cname` counts) -/
def infoFold : List InfoStmt → Option String × List (String × String) × List (String × String) →
    Option String × List (String × String) × List (String × String)
  | [], x => x
  | InfoStmt.cname n :: r, (_, a, p) => infoFold r (some n, a, p)
  | InfoStmt.attr k v :: r, (c, a, p) => infoFold r (c, dictSet a k v, p)
  | InfoStmt.param k v :: r, (c, a, p) => infoFold r (c, a, dictSet p k v)

end Spydr.Eblif
