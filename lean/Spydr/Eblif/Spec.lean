/-
  EBLIF engine: the specification vocabulary of property C18 (written against the data types of
  the model, not against its functions, except `dictSet` in `infoMapOf`).
    GoodTok / Terminated      what a writer may print so that the tokenizer reads it back
    Joined / Live             "pin p is on the wire net bit k stands for", "bit k's cable exists"
    infoMapOf                 the formal -> actual dict of one instance statement
    instKinds / stmtKind      (parent, model, EBLIF.type) per instance, per statement
    subcktLines ...           how an independent writer renders an instance statement
  The predicate P evaluated on the implementation's output is the independent Python oracle
  harness/engines/eblif_lib.py (denote / P_parse / P_roundtrip).
  No Mathlib.
-/
import Spydr.Eblif.ModelElab

namespace Spydr.Eblif

/-- a word the printer can emit and the lexer reads back: non-empty, no blank, no newline -/
def GoodWord (s : String) : Prop :=
  s.toList ≠ [] ∧ ∀ c ∈ s.toList, isWs c = false ∧ c ≠ '\n'

def GoodTok : Tok → Prop
  | Tok.word s => GoodWord s
  | Tok.nl => True

/-- the token list is empty or ends with a line end -/
def Terminated (ts : List Tok) : Prop := ∀ t, ts.getLast? = some t → t = Tok.nl

/-- pin `p` sits on the wire that net bit `k` currently stands for -/
def Joined (st : St) (p : Pin) (k : Key) : Prop := p ∈ st.pins (st.alias k)

/-- the cable of bit `k` exists and is wide enough -/
def Live (st : St) (k : Key) : Prop := (k.1, k.2.1) ∈ st.cables ∧ k.2.2 < st.width (k.1, k.2.1)

/-- `current_instance_info` of a `.subckt`: a dict keyed by the formal text (a repeated formal
    keeps its first position and takes the last actual) -/
def infoMapOf (conns : List (String × String)) : List (String × String) :=
  conns.foldl (fun l fa => dictSet l fa.1 fa.2) []

/-- (parent, model, EBLIF.type) of every instance, in creation order -/
def instKinds (st : St) : List (String × String × String) :=
  st.insts.map (fun i => (i.parent, i.model, i.typ))

def kindOf (i : Inst) : String × String × String := (i.parent, i.model, i.typ)

/-- what a statement contributes to the instance list -/
def stmtKind (cur : String) : Stmt → List (String × String × String)
  | Stmt.subckt gate model _ _ => [(cur, model, if gate then "EBLIF.gate" else "EBLIF.subckt")]
  | Stmt.names nets _ _ => [(cur, "logic-gate_" ++ natStr (nets.length - 1), "EBLIF.names")]
  | Stmt.latch _ _ => [(cur, "generic-latch", "EBLIF.latch")]
  | Stmt.conn _ _ => []
  | Stmt.blackbox => []

def connWord (c : String × String) : String := c.1 ++ "=" ++ c.2

def infoLine : InfoStmt → List String
  | InfoStmt.cname n => [".cname", n]
  | InfoStmt.attr k v => [".attr", k, v]
  | InfoStmt.param k v => [".param", k, v]

def subcktKw (gate : Bool) : String := if gate then ".gate" else ".subckt"

/-- the lines of one instance statement, as an independent writer renders them -/
def subcktLines (gate : Bool) (m : String) (conns : List (String × String)) (info : List InfoStmt) :
    List (List String) :=
  ([subcktKw gate, m] ++ conns.map connWord) :: info.map infoLine

end Spydr.Eblif
