/-
  Text-level forms of the "all inputs" theorems: `readB text = ok n` instead of
  `elabModels {} ms = ok st`.  (`readB` = lex, parse, elaborate, materialise, rename instances by
  convention; the renaming pass keeps definitions, cables and everything of an instance but its name.)
-/
import Spydr.Eblif.Cov

namespace Spydr.Eblif

/-- what a successful read is made of -/
theorem read_decompose (text : List Char) (n : BNet) (h : readB text = Except.ok n) :
    ∃ a st, parseB (lexB text) = Except.ok a ∧ elabModels {} a.models = Except.ok st ∧
      n.defs = st.defs ∧ n.insts.map eraseName = st.insts.map eraseName ∧ n.cables = st.toNet.cables ∧ n.top = st.top := by
  unfold readB at h
  obtain ⟨a, ha, h⟩ := bind_ok h
  unfold elabB at h
  obtain ⟨s1, h1, h⟩ := bind_ok h
  simp only [] at h
  unfold elabSt at h1
  obtain ⟨s0, h0, h1⟩ := bind_ok h1
  cases h1
  obtain ⟨c1, c2, c3, c4⟩ := applyConvention_pres _ h
  exact ⟨a, s0, ha, h0, c2, c4, c1, c3⟩

theorem mem_of_erase {l l' : List Inst} (h : l.map eraseName = l'.map eraseName) {i : Inst} (hi : i ∈ l) :
    ∃ j ∈ l', j.model = i.model ∧ j.parent = i.parent ∧ j.typ = i.typ ∧ j.pins = i.pins := by
  have : eraseName i ∈ l.map eraseName := List.mem_map.mpr ⟨i, hi, rfl⟩
  rw [h] at this
  obtain ⟨j, hj, he⟩ := List.mem_map.mp this
  refine ⟨j, hj, ?_, ?_, ?_, ?_⟩
  · have := congrArg Inst.model he; simpa [eraseName] using this
  · have := congrArg Inst.parent he; simpa [eraseName] using this
  · have := congrArg Inst.typ he; simpa [eraseName] using this
  · have := congrArg Inst.pins he; simpa [eraseName] using this

/-- **whatever the reader accepts is self-contained** (text level, all inputs): definition names are
    pairwise different, every instance's model is a definition of the netlist, every instance parent
    and every cable owner is a declared model -/
theorem self_contained_text (text : List Char) (n : BNet) (h : readB text = Except.ok n) :
    (n.defs.map (·.name)).Nodup ∧
    (∀ i ∈ n.insts, (∃ d ∈ n.defs, d.name = i.model) ∧ ∃ d ∈ n.defs, d.name = i.parent ∧ d.declared = true) ∧
    (∀ c ∈ n.cables, ∃ d ∈ n.defs, d.name = c.1.1 ∧ d.declared = true) := by
  obtain ⟨a, st, _, hst, hd, hi, hc, _⟩ := read_decompose text n h
  obtain ⟨s1, s2, s3⟩ := self_contained a.models st hst
  rw [hd]
  refine ⟨s1, ?_, ?_⟩
  · intro i him
    obtain ⟨j, hj, hm, hp, _, _⟩ := mem_of_erase hi him
    rw [← hm, ← hp]
    exact s2 j hj
  · intro c hcm
    rw [hc] at hcm
    simp only [St.toNet, List.mem_map] at hcm
    obtain ⟨ck, hck, rfl⟩ := hcm
    exact s3 ck hck

theorem any_erase {l l' : List Inst} (h : l.map eraseName = l'.map eraseName) (p : Inst → Bool)
    (hp : ∀ i, p (eraseName i) = p i) : l.any p = l'.any p := by
  have e : ∀ x : List Inst, x.any p = (x.map eraseName).any p := by
    intro x
    rw [List.any_map]
    congr 1
    funext i
    exact (hp i).symm
  rw [e l, e l', h]

/-- a definition no `.model` declared is a leaf of the netlist read from the text, outside `work` -/
theorem undeclared_leaf_text (text : List Char) (n : BNet) (h : readB text = Except.ok n)
    (d : DefD) (hd : d ∈ n.defs) (hu : d.declared = false) : isLeaf n d.name = true ∧ d.inWork = false := by
  obtain ⟨a, st, _, hst, hdefs, hi, hc, _⟩ := read_decompose text n h
  rw [hdefs] at hd
  obtain ⟨l1, l2⟩ := undeclared_leaf a.models st hst d hd hu
  refine ⟨?_, l2⟩
  unfold isLeaf at l1 ⊢
  rw [hc, any_erase hi (fun i => decide (i.parent = d.name)) (fun _ => rfl)]
  exact l1

/-- exact connectivity, text level: a pin is on a net bit of the netlist read from the text iff the
    join list `modelsAcc` (threaded through the elaborator: it is computed alongside `elabModel`, it is
    not an independent specification) holds a pair for a bit that stands for that net bit -/
theorem onNet_exact_text (text : List Char) (n : BNet) (h : readB text = Except.ok n) :
    ∃ a st, parseB (lexB text) = Except.ok a ∧ elabModels {} a.models = Except.ok st ∧
      ∀ p k, OnNet n p k ↔ ∃ k', (p, k') ∈ modelsAcc {} [] a.models ∧ st.alias k' = k := by
  obtain ⟨a, st, ha, hst, _, _, hc, _⟩ := read_decompose text n h
  refine ⟨a, st, ha, hst, ?_⟩
  intro p k
  rw [onNet_of_cables hc p k]
  exact onNet_exact_all a.models st hst p k

/-- and no pin of the netlist read from a text is on two net bits when the joins are functional is
    not needed here: a pin of the materialised netlist sits on a wire of a cable whose owner is a
    declared model (from `self_contained_text`) -/
theorem onNet_owner_declared (text : List Char) (n : BNet) (h : readB text = Except.ok n) (p : Pin) (k : Key)
    (ho : OnNet n p k) : ∃ d ∈ n.defs, d.name = k.1 ∧ d.declared = true := by
  obtain ⟨ws, w, hm, _, _⟩ := ho
  exact (self_contained_text text n h).2.2 _ hm

end Spydr.Eblif
