/-
  C05, specification side for a first fragment of `edif_reader_spec`:

    * abstract designs `ADesign` (libraries, cells with one view, ports with direction / array size /
      rename, instances with viewRef / cellRef / libraryRef spelled in any letter case and typed
      properties, scalar nets and bus-bit nets in any order, a design selecting the top cell);
    * `render` : an EDIF writer of its own for abstract designs (s-expression; `renderText` lays it out);
    * `denote` : what the design MEANS, as the view `V05` (names, identifiers, directions, widths,
      array-ness, references as (library, cell) positions, property dictionaries, cables with base
      index and every wire's pins), defined on the abstract design alone — no reader function is used;
    * `view05` : the same view extracted from a netlist value;
    * `wf` : the decidable well-formedness predicate under which the theorem is proved.

  Outside the fragment (left to the correspondence check): keyword spellings (fixed here, the writer's
  own), comments, status blocks, external libraries, several views, properties on objects other than
  instances, instances after nets, a bit net's identifier index different from its name index,
  repeated bit nets.  No Mathlib.
-/
import Spydr.Edif.ModelWrite
namespace Spydr.Edif

/-! ### abstract designs -/

/-- `ident` or `(rename ident "orig")` -/
structure AName where
  ident : Str
  orig : Option Str := none
  deriving Repr, Inhabited

/-- the name an element gets: the original name when there is a rename, else the identifier -/
def AName.name (a : AName) : Str :=
  match a.orig with
  | some o => o
  | none => a.ident

inductive AVal where
  | str (s : Str)
  | int (i : Int)
  | bool (b : Bool)
  deriving Repr, Inhabited

structure AProp where
  name : AName
  value : AVal
  deriving Repr, Inhabited

structure APort where
  name : AName
  dir : Dir := .undefined          -- `.undefined`: no `(direction …)`
  array : Option Nat := none       -- `some k`: `(array name k)`
  deriving Repr, Inhabited

/-- an instance of the cell at position (`li`, `di`), referenced in the text by the spellings
    `viewSp`, `cellSp`, `libSp`; `libOmit`: the text has no `(libraryRef …)` (the cell is looked up in the
    library being read; `libSp` is not written then) -/
structure AInst where
  name : AName
  li : Nat
  di : Nat
  viewSp : Str
  cellSp : Str
  libSp : Str
  props : List AProp := []
  libOmit : Bool := false
  deriving Repr, Inhabited

/-- a joined pin: bit `bit` (none: written without `member`) of port `pi` of the cell itself, or of
    the cell instance `ii` references; `sp`, `isp` are the spellings used in the text -/
inductive APin where
  | port (pi : Nat) (bit : Option Nat) (sp : Str)
  | inst (ii pi : Nat) (bit : Option Nat) (sp isp : Str)
  deriving Repr, Inhabited

inductive ANetKind where
  | scalar (name : AName)
  | bit (bident bname : Str) (idx : Nat) (iidx : Nat)   -- bit `idx` of the bus (`bident`, `bname`), written
                                                        -- `(rename bident_iidx_ "bname[idx]")`
  deriving Repr, Inhabited

structure ANet where
  kind : ANetKind
  pins : List APin
  deriving Repr, Inhabited

structure ACell where
  name : AName
  view : Str
  ports : List APort := []
  insts : List AInst := []
  nets : List ANet := []
  deriving Repr, Inhabited

/-- `external`: written `(external …)` instead of `(library …)` -/
structure ALib where
  name : AName
  cells : List ACell := []
  external : Bool := false
  deriving Repr, Inhabited

structure ADesign where
  name : AName
  libs : List ALib
  top : AName
  topLi : Nat
  topDi : Nat
  topCellSp : Str
  topLibSp : Str
  deriving Repr, Inhabited

/-! ### the writer for abstract designs -/

def AName.sexp (a : AName) : SExp :=
  match a.orig with
  | none => .atom a.ident
  | some o => .list [A "rename", .atom a.ident, qtok o]

def AVal.sexp : AVal → SExp
  | .str s => .list [A "string", qtok s]
  | .int i => .list [A "integer", .atom (intStr i)]
  | .bool b => .list [A "boolean", .list [A (if b then "true" else "false")]]

def AProp.sexp (p : AProp) : SExp := .list [A "property", p.name.sexp, p.value.sexp]

def dirSexp : Dir → List SExp
  | .undefined => []
  | .inout => [.list [A "direction", A "INOUT"]]
  | .inp => [.list [A "direction", A "INPUT"]]
  | .out => [.list [A "direction", A "OUTPUT"]]

def APort.sexp (p : APort) : SExp :=
  match p.array with
  | none => .list (A "port" :: p.name.sexp :: dirSexp p.dir)
  | some k => .list (A "port" :: .list [A "array", p.name.sexp, .atom (natStr k)] :: dirSexp p.dir)

def AInst.cellRefSexp (i : AInst) : SExp :=
  if i.libOmit then .list [A "cellref", .atom i.cellSp]
  else .list [A "cellref", .atom i.cellSp, .list [A "libraryref", .atom i.libSp]]

def AInst.sexp (i : AInst) : SExp :=
  .list (A "instance" :: i.name.sexp :: .list [A "viewref", .atom i.viewSp, i.cellRefSexp] :: i.props.map AProp.sexp)

def APin.sexp : APin → SExp
  | .port _ none sp => .list [A "portref", .atom sp]
  | .port _ (some k) sp => .list [A "portref", .list [A "member", .atom sp, .atom (natStr k)]]
  | .inst _ _ none sp isp => .list [A "portref", .atom sp, .list [A "instanceref", .atom isp]]
  | .inst _ _ (some k) sp isp =>
      .list [A "portref", .list [A "member", .atom sp, .atom (natStr k)], .list [A "instanceref", .atom isp]]

def ANetKind.sexp : ANetKind → SExp
  | .scalar a => a.sexp
  | .bit bi bn i j => .list [A "rename", .atom (bitIdent bi j), qtok (bitName bn i)]

def ANet.sexp (n : ANet) : SExp := .list [A "net", n.kind.sexp, .list (A "joined" :: n.pins.map APin.sexp)]

/-- a cell without instances and nets is written without `(contents …)` -/
def ACell.contentsSexp (c : ACell) : List SExp :=
  if c.insts.isEmpty && c.nets.isEmpty then []
  else [.list (A "contents" :: (c.insts.map AInst.sexp ++ c.nets.map ANet.sexp))]

def ACell.sexp (c : ACell) : SExp :=
  .list [A "cell", c.name.sexp, .list [A "celltype", A "GENERIC"],
    .list (A "view" :: .atom c.view :: .list [A "viewtype", A "NETLIST"] ::
      .list (A "interface" :: c.ports.map APort.sexp) :: c.contentsSexp)]

def ALib.sexp (l : ALib) : SExp :=
  .list (A (if l.external then "external" else "library") :: l.name.sexp :: .list [A "edifLevel", A "0"] ::
    .list [A "technology", .list [A "numberDefinition"]] :: l.cells.map ACell.sexp)

/-- the EDIF s-expression of an abstract design -/
def render (d : ADesign) : SExp :=
  .list (A "edif" :: d.name.sexp :: .list [A "edifVersion", A "2", A "0", A "0"] :: .list [A "edifLevel", A "0"] ::
    .list [A "keywordMap", .list [A "keywordLevel", A "0"]] :: (d.libs.map ALib.sexp ++
    [.list [A "design", d.top.sexp, .list [A "cellRef", .atom d.topCellSp, .list [A "libraryRef", .atom d.topLibSp]]]]))

/-- … and its text -/
def renderText (d : ADesign) : List Char := layoutE (render d)

/-! ### the view C05 speaks about -/

structure V05Port where
  name : Option Str
  ident : Option Str
  dir : Dir
  width : Nat
  array : Bool
  deriving Repr

structure V05Inst where
  name : Option Str
  ident : Option Str
  ref : Option (Nat × Nat)
  props : List Val
  deriving Repr

structure V05Cable where
  name : Option Str
  ident : Option Str
  array : Bool
  lower : Nat
  wires : List (List CPin)
  deriving Repr

structure V05Cell where
  name : Option Str
  ident : Option Str
  view : Option Str
  ports : List V05Port
  insts : List V05Inst
  cables : List V05Cable
  deriving Repr

structure V05Lib where
  name : Option Str
  ident : Option Str
  cells : List V05Cell
  external : Bool
  deriving Repr

structure V05Top where
  name : Option Str
  ident : Option Str
  ref : Option (Nat × Nat)
  deriving Repr

structure V05 where
  name : Option Str
  ident : Option Str
  libs : List V05Lib
  top : Option V05Top
  deriving Repr

/-! ### view05 of a netlist value -/

def v05Props (d : Data) : List Val :=
  match d.get? (S "EDIF.properties") with
  | some (.list ps) => ps
  | _ => []

def view05Port (p : CPort) : V05Port := ⟨nameOf p.data, identOf p.data, p.dir, p.width, p.isArray⟩
def view05Inst (i : CInst) : V05Inst := ⟨nameOf i.data, identOf i.data, i.ref, v05Props i.data⟩
def view05Cable (c : CCable) : V05Cable := ⟨nameOf c.data, identOf c.data, c.isArray, c.lower, c.wires⟩
def view05Cell (d : CDef) : V05Cell :=
  ⟨nameOf d.data, identOf d.data, d.data.getStr? (S "EDIF.view.identifier"),
    d.ports.map view05Port, d.insts.map view05Inst, d.cables.map view05Cable⟩
def kEXT : Str := S "EDIF.external"

/-- the library was written `(external …)` -/
def extOf (d : Data) : Bool :=
  match d.get? kEXT with
  | some (.bool true) => true
  | _ => false

def view05Lib (l : CLib) : V05Lib := ⟨nameOf l.data, identOf l.data, l.defs.map view05Cell, extOf l.data⟩
def view05 (n : CNetlist) : V05 :=
  ⟨nameOf n.data, identOf n.data, n.libs.map view05Lib,
    n.top.map fun t => ⟨nameOf t.data, identOf t.data, t.ref⟩⟩

/-! ### the denotation of an abstract design -/

def AVal.val : AVal → Val
  | .str s => .str s
  | .int i => .int i
  | .bool b => .bool b

/-- the property dictionary: identifier, original identifier (if renamed), value -/
def AProp.den (p : AProp) : Val :=
  .obj ([(S "identifier", .str p.name.ident)] ++
    (match p.name.orig with
     | some o => [(S "original_identifier", Val.str o)]
     | none => []) ++ [(S "value", p.value.val)])

def APort.width (p : APort) : Nat :=
  match p.array with
  | none => 1
  | some k => k

def APort.den (p : APort) : V05Port := ⟨some p.name.name, some p.name.ident, p.dir, p.width, p.array.isSome⟩

def AInst.den (i : AInst) : V05Inst := ⟨some i.name.name, some i.name.ident, some (i.li, i.di), i.props.map AProp.den⟩

def APin.pin : APin → CPin
  | .port pi b _ => .port pi (b.getD 0)
  | .inst ii pi b _ _ => .inst ii pi (b.getD 0)

/-- the cable-level (identifier, name) a net declares -/
def ANetKind.key : ANetKind → Str × Str
  | .scalar a => (a.ident, a.name)
  | .bit bi bn _ _ => (bi, bn)

def ANet.cname (n : ANet) : Str := n.kind.key.2

/-- scanning the text: a name is added when it has not been seen yet -/
def addName (seen : List Str) (n : Str) : List Str := if n ∈ seen then seen else seen ++ [n]

/-- cable names in the order they first occur in the text -/
def firstNames (l : List Str) : List Str := l.foldl addName []

/-- the bit nets of the bus called `nm`: (index, pins) in text order -/
def busBits (nm : Str) (nets : List ANet) : List (Nat × List CPin) :=
  nets.filterMap fun n => match n.kind with
    | .bit _ bn i _ => if bn = nm then some (i, n.pins.map APin.pin) else none
    | .scalar _ => none

def minOf : List Nat → Nat
  | [] => 0
  | [a] => a
  | a :: r => min a (minOf r)

def maxOf : List Nat → Nat
  | [] => 0
  | a :: r => max a (maxOf r)

/-- the pins the text gives for bit `k` -/
def bitPins (bits : List (Nat × List CPin)) (k : Nat) : List CPin :=
  match bits.find? (fun b => b.1 == k) with
  | some b => b.2
  | none => []

/-- the cable called `nm`: a scalar net is a one-wire cable at index 0; the bit nets of a bus are one
    array cable based at the least index present, ending at the greatest, a missing bit being an
    unconnected wire -/
def cableDen (nets : List ANet) (nm : Str) : Option V05Cable :=
  match nets.find? (fun n => n.cname == nm) with
  | none => none
  | some n =>
    match n.kind with
    | .scalar a => some ⟨some a.name, some a.ident, false, 0, [n.pins.map APin.pin]⟩
    | .bit bi bn _ _ =>
      let bits := busBits nm nets
      let lo := minOf (bits.map (·.1))
      let hi := maxOf (bits.map (·.1))
      some ⟨some bn, some bi, true, lo, (List.range (hi + 1 - lo)).map fun j => bitPins bits (lo + j)⟩

def cablesDen (nets : List ANet) : List V05Cable :=
  (firstNames (nets.map ANet.cname)).filterMap (cableDen nets)

def ACell.den (c : ACell) : V05Cell :=
  ⟨some c.name.name, some c.name.ident, some c.view, c.ports.map APort.den, c.insts.map AInst.den, cablesDen c.nets⟩

def ALib.den (l : ALib) : V05Lib := ⟨some l.name.name, some l.name.ident, l.cells.map ACell.den, l.external⟩

/-- **what the design means** -/
def denote (d : ADesign) : V05 :=
  ⟨some d.name.name, some d.name.ident, d.libs.map ALib.den,
    some ⟨some d.top.name, some d.top.ident, some (d.topLi, d.topDi)⟩⟩

/-! ### well-formedness (decidable) -/

def AName.okB (a : AName) : Bool := checkEdifIdentifier a.ident && a.name.all isStringChar

/-- sibling names: every one legal, identifiers pairwise different ignoring case, names pairwise different -/
def namesOKB (as : List AName) : Bool :=
  as.all AName.okB && decide ((as.map fun a => lower a.ident).Nodup) && decide ((as.map AName.name).Nodup)

/-- a reference spelling: a legal identifier equal to the target's identifier ignoring case -/
def spellsB (sp target : Str) : Bool := checkEdifIdentifier sp && (lower sp == lower target)

def AProp.okB (p : AProp) : Bool :=
  p.name.okB && (match p.value with
    | .str s => s.all isStringChar
    | _ => true)

def APort.okB (p : APort) : Bool :=
  match p.array with
  | none => true
  | some k => decide (1 ≤ k)

def cellAt (d : ADesign) (li di : Nat) : Option (ALib × ACell) :=
  match d.libs[li]? with
  | none => none
  | some l => (l.cells[di]?).map fun c => (l, c)

/-- the referenced cell precedes the cell at (L, D) in the text -/
def beforeB (L D li di : Nat) : Bool := decide (li < L) || (decide (li = L) && decide (di < D))

def AInst.okB (d : ADesign) (L D : Nat) (i : AInst) : Bool :=
  beforeB L D i.li i.di &&
  (match cellAt d i.li i.di with
   | none => false
   | some (l, c) => spellsB i.cellSp c.name.ident && spellsB i.libSp l.name.ident && spellsB i.viewSp c.view) &&
  i.props.all AProp.okB && (!i.libOmit || i.li == L)

def APin.okB (d : ADesign) (c : ACell) : APin → Bool
  | .port pi b sp =>
    (match c.ports[pi]? with
     | none => false
     | some p => spellsB sp p.name.ident && decide (b.getD 0 < p.width))
  | .inst ii pi b sp isp =>
    (match c.insts[ii]? with
     | none => false
     | some i =>
       spellsB isp i.name.ident &&
       (match cellAt d i.li i.di with
        | none => false
        | some (_, rc) =>
          (match rc.ports[pi]? with
           | none => false
           | some p => spellsB sp p.name.ident && decide (b.getD 0 < p.width))))

def ANetKind.okB : ANetKind → Bool
  | .scalar a => a.okB && (sepName a.name).1.isNone && !a.name.isEmpty
  | .bit bi bn i j =>
    checkEdifIdentifier bi && checkEdifIdentifier (bitIdent bi i) && (bitName bn i).all isStringChar &&
    bracketAllowed (bitName bn i) && !bn.isEmpty && checkEdifIdentifier (bitIdent bi j)

def ANetKind.isBit : ANetKind → Bool
  | .scalar _ => false
  | .bit _ _ _ _ => true

/-- the nets of a cell: each one legal; two nets with the same cable name are bits of one bus (same
    identifier), two with different names have different identifiers ignoring case; no bit twice -/
def netsOKB (nets : List ANet) : Bool :=
  nets.all (fun n => n.kind.okB) &&
  nets.all (fun a => nets.all fun b =>
    if a.kind.key.2 = b.kind.key.2 then a.kind.key.1 = b.kind.key.1 && a.kind.isBit == b.kind.isBit
    else lower a.kind.key.1 != lower b.kind.key.1) &&
  decide (((nets.filter fun n => !n.kind.isBit).map ANet.cname).Nodup) &&
  nets.all (fun n => decide (((busBits n.cname nets).map (·.1)).Nodup))

def ACell.okB (d : ADesign) (L D : Nat) (c : ACell) : Bool :=
  checkEdifIdentifier c.view &&
  namesOKB (c.ports.map (·.name)) && c.ports.all APort.okB &&
  namesOKB (c.insts.map (·.name)) && c.insts.all (AInst.okB d L D) &&
  netsOKB c.nets && c.nets.all (fun n => n.pins.all (APin.okB d c)) &&
  decide ((c.nets.flatMap fun n => n.pins.map APin.pin).Nodup)

def allIdx {α : Type} (xs : List α) (f : Nat → α → Bool) : Bool := (xs.zipIdx).all fun (x, k) => f k x

def ALib.okB (d : ADesign) (L : Nat) (l : ALib) : Bool :=
  namesOKB (l.cells.map (·.name)) && allIdx l.cells (fun D c => c.okB d L D)

/-- **the well-formedness predicate** of `edif_reader_spec` -/
def ADesign.wf (d : ADesign) : Bool :=
  d.name.okB && d.top.okB &&
  namesOKB (d.libs.map (·.name)) && allIdx d.libs (fun L l => l.okB d L) &&
  (match cellAt d d.topLi d.topDi with
   | none => false
   | some (l, c) => spellsB d.topCellSp c.name.ident && spellsB d.topLibSp l.name.ident)

end Spydr.Edif
