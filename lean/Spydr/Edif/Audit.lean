import Spydr.Edif.Props.C03
import Spydr.Edif.Props.C05
#print axioms Spydr.Edif.C05.readS_flatten
#print axioms Spydr.Edif.C05.multibit_merge
#print axioms Spydr.Edif.C05.multibit_merge_general
#print axioms Spydr.Edif.C05.mergeInto_is_mergeBus
#print axioms Spydr.Edif.C05.name_index_ident
#print axioms Spydr.Edif.C05.name_index_name
#print axioms Spydr.Edif.C05.member_index
#print axioms Spydr.Edif.C05.member_index_instance
#print axioms Spydr.Edif.C05.resolve_ci_declared
#print axioms Spydr.Edif.C05.resolve_ci_undeclared
#print axioms Spydr.Edif.C05.resolve_ci_sound
#print axioms Spydr.Edif.C03.lex_layout
#print axioms Spydr.Edif.C03.readS_flatten
#print axioms Spydr.Edif.C03.read_lex_layout
#print axioms Spydr.Edif.C03.name_index_roundtrip
#print axioms Spydr.Edif.C03.name_index_plain
#print axioms Spydr.Edif.C03.numeral_roundtrip
#print axioms Spydr.Edif.C03.member_index_roundtrip
#print axioms Spydr.Edif.C05.edif_reader_spec_partial
#print axioms Spydr.Edif.C03.edif_roundtrip_partial
#print axioms Spydr.Edif.C03.readCell_ports
#print axioms Spydr.Edif.C03.readCell_cables
#print axioms Spydr.Edif.C03.edif_roundtrip_cell
