import Spydr.Edif.Props.C03
import Spydr.Edif.Props.C05
#print axioms Spydr.Edif.readS_flatten
#print axioms Spydr.Edif.lex_layout
