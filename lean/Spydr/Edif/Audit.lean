import Spydr.Edif.Props.C03
import Spydr.Edif.Props.C05
import Spydr.Edif.Props.C03Closure
import Spydr.Edif.Props.C03Fragment
import Spydr.Edif.Props.C05Denote
import Spydr.Edif.Props.C05Struct
import Spydr.Edif.Props.C05Kw
import Spydr.Edif.Props.C05Erase
import Spydr.Edif.Props.Fragment
#print axioms Spydr.Edif.C05.readS_flatten
#print axioms Spydr.Edif.C05.multibit_merge
#print axioms Spydr.Edif.C05.multibit_merge_general
#print axioms Spydr.Edif.C05.mergeInto_is_mergeBus
#print axioms Spydr.Edif.C05.name_index_ident
#print axioms Spydr.Edif.C05.name_index_name
#print axioms Spydr.Edif.C05.member_index
#print axioms Spydr.Edif.C05.member_index_instance
#print axioms Spydr.Edif.C05.resolve_ci_declared
#print axioms Spydr.Edif.C05.resolve_ci_undeclared
#print axioms Spydr.Edif.C05.resolve_ci_sound
#print axioms Spydr.Edif.C03.lex_layout
#print axioms Spydr.Edif.C03.readS_flatten
#print axioms Spydr.Edif.C03.read_lex_layout
#print axioms Spydr.Edif.C03.name_index_roundtrip
#print axioms Spydr.Edif.C03.name_index_plain
#print axioms Spydr.Edif.C03.numeral_roundtrip
#print axioms Spydr.Edif.C03.member_index_roundtrip
#print axioms Spydr.Edif.C05.edif_reader_spec_partial
#print axioms Spydr.Edif.C03.edif_roundtrip
#print axioms Spydr.Edif.C03.edif_roundtrip_text
#print axioms Spydr.Edif.C03.edif_roundtrip_closed_form
#print axioms Spydr.Edif.C03.readCell_ports
#print axioms Spydr.Edif.C03.readCell_cables
#print axioms Spydr.Edif.C03.edif_roundtrip_cell
#print axioms Spydr.Edif.C05.design_selects_top
#print axioms Spydr.Edif.C05.viewRef_resolves
#print axioms Spydr.Edif.C05.rename_carries_both
#print axioms Spydr.Edif.C03.cleanB_sound
#print axioms Spydr.Edif.C05.edif_reader_spec_scalars
#print axioms Spydr.Edif.C05.edif_reader_spec_names
#print axioms Spydr.Edif.C05.reader_loop_is_netStep
#print axioms Spydr.Edif.C03.parse_compose_parse
#print axioms Spydr.Edif.C03.reader_image_closed
#print axioms Spydr.Edif.C03.reader_image_fixed_point
#print axioms Spydr.Edif.C03.edifify_names_identity
#print axioms Spydr.Edif.C03.edifify_order_identity
#print axioms Spydr.Edif.C03.parse_compose_parse_accepted
#print axioms Spydr.Edif.C03.reader_output_in_quantifier
#print axioms Spydr.Edif.C05.edif_reader_spec
#print axioms Spydr.Edif.C05.edif_reader_spec_closed_form
#print axioms Spydr.Edif.C05.edif_reader_spec_of_resolution
#print axioms Spydr.Edif.C05.wf_resolves
#print axioms Spydr.Edif.C05.edif_reader_spec_contents
#print axioms Spydr.Edif.C05.portRef_resolves
#print axioms Spydr.Edif.C05.reader_accepts_wellformed
#print axioms Spydr.Edif.C05.reader_accepts_wellformed_sexp
#print axioms Spydr.Edif.C05.parseCell_wellformed
#print axioms Spydr.Edif.C05.multibitAdd_wellformed
#print axioms Spydr.Edif.C05.hasDupPin_iff
#print axioms Spydr.Edif.C05.all_instances_referenced
#print axioms Spydr.Edif.C05.Witness.instance_without_viewref_rejected
#print axioms Spydr.Edif.C05.Witness.viewref_without_cellref_rejected
#print axioms Spydr.Edif.C05.Witness.not_always_top
#print axioms Spydr.Edif.C05.Witness.stem_merges_two_names
#print axioms Spydr.Edif.C05.Witness.scalar_after_bus_rejected
#print axioms Spydr.Edif.C05.reader_names_everything
#print axioms Spydr.Edif.C05.distinct_of_noClash
#print axioms Spydr.Edif.C05.reader_siblings_distinct
#print axioms Spydr.Edif.C05.keyword_case_invisible
#print axioms Spydr.Edif.C05.keyword_case_congr
#print axioms Spydr.Edif.C05.keyword_respelling_invisible
#print axioms Spydr.Edif.C05.edif_reader_spec_kwcase
#print axioms Spydr.Edif.C05.edif_reader_spec_kwcase_text
#print axioms Spydr.Edif.C03.fragment_check_sound
#print axioms Spydr.Edif.C05.fragment_check_sound
#print axioms Spydr.Edif.C03.compose_after_parse
#print axioms Spydr.Edif.C05.edif_erasure
#print axioms Spydr.Edif.C05.edif_erasure_rel
#print axioms Spydr.Edif.C05.edif_erasure_text
#print axioms Spydr.Edif.C05.edif_reader_spec_erased
#print axioms Spydr.Edif.C05.edif_reader_spec_erased_text
#print axioms Spydr.Edif.C05.ErasureExample.noisy_accepted
#print axioms Spydr.Edif.C05.ErasureExample.strip_noisy
#print axioms Spydr.Edif.C05.ErasureExample.noisy_ne_core
#print axioms Spydr.Edif.C05.inside_check_sound
