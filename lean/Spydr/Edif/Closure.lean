/-
  Closure of the reader's image: the netlist the model reader returns for the text the model writer
  produced from a netlist inside C03's quantifier (`WFNet`) is again inside the quantifier, with the
  same identifiers, names, widths, references and pins.  Consequence (Props/C03Closure.lean):
  parse ∘ compose ∘ parse ∘ compose = parse ∘ compose on the model.
-/
import Spydr.Edif.LemmasView
namespace Spydr.Edif

/-! ### small facts about dictionaries -/

theorem get?_of_getStr? (d : Data) (k s : Str) (h : d.getStr? k = some s) : d.get? k = some (.str s) := by
  unfold Data.getStr? at h
  split at h
  · rename_i s' hs
    cases h
    exact hs
  · cases h

/-- an element dictionary that carries the identifier and the name of a well-named one is well named -/
theorem namedOK_img (d d' : Data) (h : NamedOK d (idOf d) (nmOf d)) (hi : identOf d' = some (idOf d))
    (hn : nameOf d' = some (nmOf d)) : NamedOK d' (idOf d') (nmOf d') := by
  have e1 : idOf d' = idOf d := idOf_of_identOf _ _ hi
  have e2 : nmOf d' = nmOf d := nmOf_of_nameOf _ _ hn
  rw [e1, e2]
  exact ⟨hi, h.hc, get?_of_getStr? _ _ _ hn, h.hs⟩

/-! ### ports -/

theorem readPort1_width (p : CPort) : (readPort1 p).width = p.width := rfl
theorem readPort1_dir (p : CPort) : (readPort1 p).dir = p.dir := rfl

theorem readPort1_isArray (p : CPort) : (readPort1 p).isArray = p.isArray := by
  simp only [readPort1, readPort, CPort.isArray, CPort.isScalar]
  by_cases h : p.width > 1 <;> simp [h]

theorem portWF_img (p : CPort) (h : PortWF p) : PortWF (readPort1 p) := by
  refine ⟨namedOK_img p.data _ h.named (identOf_readPort _ _ _) (nameOf_readPort _ _ _), h.width, ?_⟩
  intro ha
  rw [readPort1_isArray] at ha
  exact h.scalar ha

/-! ### the naming facts of the whole netlist -/

theorem imgLib_data_named (l : CLib) (h : NamedOK l.data (idOf l.data) (nmOf l.data)) :
    NamedOK (imgLib l).data (idOf (imgLib l).data) (nmOf (imgLib l).data) :=
  namedOK_img l.data _ h (imgLib_ident l) (nameOf_withName _ _ _)

theorem imgDef_data_named (d : CDef) (h : NamedOK d.data (idOf d.data) (nmOf d.data)) :
    NamedOK (imgDef d).data (idOf (imgDef d).data) (nmOf (imgDef d).data) :=
  namedOK_img d.data _ h (imgDef_ident d) (nameOf_cellData _ _)

theorem netNames_img (libs : List CLib) (hn : NetNames libs) : NetNames (libs.map imgLib) := by
  refine ⟨?_, ?_, ?_, ?_, ?_, ?_⟩
  · intro l hl
    obtain ⟨l0, hl0, rfl⟩ := List.mem_map.mp hl
    exact imgLib_data_named l0 (hn.libNamed l0 hl0)
  · rw [List.map_map]
    exact (distinct_congr (fun l => (imgLib l).data) (·.data) _ idOf_imgLib nmOf_imgLib).mpr hn.libDistinct
  · intro l hl d hd
    obtain ⟨l0, hl0, rfl⟩ := List.mem_map.mp hl
    rw [imgLib_defs] at hd
    obtain ⟨d0, hd0, rfl⟩ := List.mem_map.mp hd
    exact imgDef_data_named d0 (hn.defNamed l0 hl0 d0 hd0)
  · intro l hl
    obtain ⟨l0, hl0, rfl⟩ := List.mem_map.mp hl
    rw [imgLib_defs, List.map_map]
    exact (distinct_congr (fun d => (imgDef d).data) (·.data) _ idOf_imgDef nmOf_imgDef).mpr (hn.defDistinct l0 hl0)
  · intro l hl d hd p hp
    obtain ⟨l0, hl0, rfl⟩ := List.mem_map.mp hl
    rw [imgLib_defs] at hd
    obtain ⟨d0, hd0, rfl⟩ := List.mem_map.mp hd
    rw [imgDef_ports] at hp
    obtain ⟨p0, hp0, rfl⟩ := List.mem_map.mp hp
    exact portWF_img p0 (hn.portWF l0 hl0 d0 hd0 p0 hp0)
  · intro l hl d hd
    obtain ⟨l0, hl0, rfl⟩ := List.mem_map.mp hl
    rw [imgLib_defs] at hd
    obtain ⟨d0, hd0, rfl⟩ := List.mem_map.mp hd
    rw [imgDef_ports, List.map_map]
    exact (distinct_congr (fun p => (readPort1 p).data) (·.data) _ idOf_readPort1 nmOf_readPort1).mpr
      (hn.portDistinct l0 hl0 d0 hd0)

/-! ### instances -/

def imgInst (i : CInst) : CInst := (iwOf i).read

theorem imgDef_insts (d : CDef) : (imgDef d).insts = d.insts.map imgInst := by
  simp [imgDef, DW.read, readCell, dwOf, imgInst]

theorem imgDef_cables (d : CDef) : (imgDef d).cables = d.cables.map readCable1 := rfl

theorem decodeProp_obj_inv (t : PropT) : decodeProp t.obj = some t := by
  obtain ⟨i, o, v⟩ := t
  cases o with
  | none => simp [PropT.obj, propKV, decodeProp]
  | some o => simp [PropT.obj, propKV, decodeProp]

theorem imgInst_ref (i : CInst) (li di : Nat) (h : i.ref = some (li, di)) : (imgInst i).ref = some (li, di) := by
  simp [imgInst, IW.read, readInst, iwOf, h]

theorem getElem?_imgLibs (libs : List CLib) (li : Nat) (l : CLib) (h : libs[li]? = some l) :
    (libs.map imgLib)[li]? = some (imgLib l) := by
  rw [List.getElem?_map, h]; rfl

theorem getElem?_imgDefs (l : CLib) (di : Nat) (d : CDef) (h : l.defs[di]? = some d) :
    (imgLib l).defs[di]? = some (imgDef d) := by
  rw [imgLib_defs, List.getElem?_map, h]; rfl

theorem instWF_img (libs : List CLib) (L D : Nat) (i : CInst) (h : InstWF libs L D i) :
    InstWF (libs.map imgLib) L D (imgInst i) := by
  refine ⟨namedOK_img i.data _ h.named (identOf_readInst _) (nameOf_readInst _), ?_, ?_⟩
  · obtain ⟨li, di, l2, rd, href, h2, hrd, hb⟩ := h.ref
    exact ⟨li, di, imgLib l2, imgDef rd, imgInst_ref i li di href, getElem?_imgLibs libs li l2 h2,
      getElem?_imgDefs l2 di rd hrd, hb⟩
  · have hne1 : kPROPS ≠ kNAME := by decide
    have hne2 : kPROPS ≠ kIDENT := by decide
    have hbase : (withName [] (idOf i.data) (nmOf i.data)).get? kPROPS = none := by
      rw [get?_withName_other _ _ _ _ hne1 hne2]; rfl
    rcases h.props with hp | ⟨ps, hp, hall⟩
    · left
      have : decodeProps i.data = [] := by simp [decodeProps, hp]
      simp only [imgInst, IW.read, readInst, iwOf, this, withProps]
      exact hbase
    · obtain ⟨h1, _⟩ := filterMap_decode ps hall
      have hdp : decodeProps i.data = ps.filterMap decodeProp := by simp [decodeProps, hp]
      cases hts : ps.filterMap decodeProp with
      | nil =>
        left
        simp only [imgInst, IW.read, readInst, iwOf, hdp, hts, withProps]
        exact hbase
      | cons a b =>
        right
        refine ⟨ps, ?_, hall⟩
        simp only [imgInst, IW.read, readInst, iwOf, hdp, hts, withProps]
        rw [Data.get?_set_self, ← hts, h1]

/-! ### pins and cables -/

theorem getElem?_imgPorts (d : CDef) (pi : Nat) (p : CPort) (h : d.ports[pi]? = some p) :
    (imgDef d).ports[pi]? = some (readPort1 p) := by
  rw [imgDef_ports, List.getElem?_map, h]; rfl

theorem pinWF_img (libs : List CLib) (d : CDef) (pin : CPin) (h : PinWF libs d pin) :
    PinWF (libs.map imgLib) (imgDef d) pin := by
  cases pin with
  | port pi bi =>
    obtain ⟨p, hp, hb, hsc⟩ := h
    exact ⟨readPort1 p, getElem?_imgPorts d pi p hp, hb, by rw [readPort1_isArray]; exact hsc⟩
  | inst ii pi bi =>
    obtain ⟨inst, li, di, l2, rd, p, hi, href, h2, hrd, hp, hb, hsc⟩ := h
    refine ⟨imgInst inst, li, di, imgLib l2, imgDef rd, readPort1 p, ?_, imgInst_ref inst li di href,
      getElem?_imgLibs libs li l2 h2, getElem?_imgDefs l2 di rd hrd, getElem?_imgPorts rd pi p hp, hb,
      by rw [readPort1_isArray]; exact hsc⟩
    rw [imgDef_insts, List.getElem?_map, hi]; rfl

theorem readCable_isArray_scalar (c : CCable) (i n : Str) (h : c.wires.length = 1 ∧ c.isArray = false) :
    (readCable c i n).isArray = false ∧ (readCable c i n).lower = 0 := by
  unfold readCable
  rw [if_pos h]
  simp [scalarCable, CCable.isArray, CCable.isScalar]

theorem readCable_isArray_bus (c : CCable) (i n : Str) (h : ¬ (c.wires.length = 1 ∧ c.isArray = false)) :
    (readCable c i n).isArray = true ∧ (readCable c i n).lower = c.lower := by
  unfold readCable
  rw [if_neg h]
  exact ⟨busCable_isArray _ _ _ _, rfl⟩

theorem idOf_readCable1 (c : CCable) : idOf (readCable1 c).data = idOf c.data :=
  idOf_of_identOf _ _ (identOf_readCable _ _ _)
theorem nmOf_readCable1 (c : CCable) : nmOf (readCable1 c).data = nmOf c.data :=
  nmOf_of_nameOf _ _ (nameOf_readCable _ _ _)

theorem cableWF_img (libs : List CLib) (d : CDef) (c : CCable) (h : CableWF libs d c) :
    CableWF (libs.map imgLib) (imgDef d) (readCable1 c) := by
  have hw : (readCable1 c).wires = c.wires := readCable_wires _ _ _
  refine ⟨namedOK_img c.data _ h.named (identOf_readCable _ _ _) (nameOf_readCable _ _ _), ?_, ?_, ?_, ?_⟩
  · rw [hw]; exact h.wires_ne
  · intro w hwm pin hp
    rw [hw] at hwm
    exact pinWF_img libs d pin (h.pins w hwm pin hp)
  · intro hlen harr
    rw [hw] at hlen
    rw [nmOf_readCable1]
    by_cases hc : c.wires.length = 1 ∧ c.isArray = false
    · exact h.scalar_plain hc.1 hc.2
    · have := (readCable_isArray_bus c (idOf c.data) (nmOf c.data) hc).1
      rw [readCable1, this] at harr
      cases harr
  · intro hnot k hk
    rw [hw] at hk
    rw [nmOf_readCable1, idOf_readCable1]
    by_cases hc : c.wires.length = 1 ∧ c.isArray = false
    · exfalso
      apply hnot
      rw [hw]
      exact ⟨hc.1, (readCable_isArray_scalar c _ _ hc).1⟩
    · have hl : (readCable1 c).lower = c.lower := (readCable_isArray_bus c _ _ hc).2
      rw [hl]
      exact h.bus_ok hc k hk

theorem cellWF_img (libs : List CLib) (L D : Nat) (d : CDef) (h : CellWF libs L D d) :
    CellWF (libs.map imgLib) L D (imgDef d) := by
  refine ⟨?_, ?_, ?_, ?_, ?_⟩
  · intro i hi
    rw [imgDef_insts] at hi
    obtain ⟨i0, hi0, rfl⟩ := List.mem_map.mp hi
    exact instWF_img libs L D i0 (h.insts i0 hi0)
  · rw [imgDef_insts, List.map_map]
    exact (distinct_congr (fun i => (imgInst i).data) (·.data) _ idOf_iwRead nmOf_iwRead).mpr h.instDistinct
  · intro c hc
    rw [imgDef_cables] at hc
    obtain ⟨c0, hc0, rfl⟩ := List.mem_map.mp hc
    exact cableWF_img libs d c0 (h.cables c0 hc0)
  · rw [imgDef_cables, List.map_map]
    exact (distinct_congr (fun c => (readCable1 c).data) (·.data) _ idOf_readCable1 nmOf_readCable1).mpr h.cableDistinct
  · rw [imgDef_cables, pins_readCables]
    exact h.nodup

/-! ### the file level -/

/-- the netlist the model reader returns for the text written from `n` (closed form of
    `edif_roundtrip_wf`) -/
def imgNet (n : CNetlist) (ts : List Int) (prog ver : Option Str) (t : CInst) (li di : Nat) : CNetlist :=
  readNetlist n (idOf n.data) (nmOf n.data) ts prog ver (n.libs.map lwOf) (idOf t.data) (nmOf t.data) li di

theorem imgNet_libs (n : CNetlist) (ts : List Int) (prog ver : Option Str) (t : CInst) (li di : Nat) :
    (imgNet n ts prog ver t li di).libs = n.libs.map imgLib := readNetlist_libs _ _ _ _ _ _ _ _ _ _

theorem imgNet_top (n : CNetlist) (ts : List Int) (prog ver : Option Str) (t : CInst) (li di : Nat) :
    (imgNet n ts prog ver t li di).top = some (readTop (idOf t.data) (nmOf t.data) li di) := rfl

def netData (i nm : Str) (ts : List Int) (prog ver : Option Str) : Data :=
  statusData ((withName [] i nm).set kVERSION (.list [.int 2, .int 0, .int 0])) ts prog ver

theorem imgNet_data (n : CNetlist) (ts : List Int) (prog ver : Option Str) (t : CInst) (li di : Nat) :
    (imgNet n ts prog ver t li di).data = netData (idOf n.data) (nmOf n.data) ts prog ver := rfl

theorem identOf_netData (i nm : Str) (ts : List Int) (prog ver : Option Str) :
    identOf (netData i nm ts prog ver) = some i := by
  have hne : kIDENT ≠ kVERSION := by decide
  have := identOf_withName [] i nm
  simp only [identOf, Data.getStr?, netData] at *
  rw [statusData_keeps _ ts prog ver kIDENT (by decide) (by decide) (by decide) (by decide),
    Data.get?_set_other _ _ _ _ hne]
  exact this

theorem nameOf_netData (i nm : Str) (ts : List Int) (prog ver : Option Str) :
    nameOf (netData i nm ts prog ver) = some nm := by
  have hne : kNAME ≠ kVERSION := by decide
  have := nameOf_withName [] i nm
  simp only [nameOf, Data.getStr?, netData] at *
  rw [statusData_keeps _ ts prog ver kNAME (by decide) (by decide) (by decide) (by decide),
    Data.get?_set_other _ _ _ _ hne]
  exact this

theorem statusOK_netData (i nm : Str) (ts : List Int) (prog ver : Option Str)
    (hps : ∀ p, prog = some p → p.all isStringChar = true) (hvs : ∀ v, ver = some v → v.all isStringChar = true) :
    StatusOK (netData i nm ts prog ver) prog ver := by
  have n1 : kPROG ≠ kTS := by decide
  have n2 : kPROG ≠ kVER := by decide
  have n3 : kPROG ≠ kCOMM := by decide
  have n4 : kPROG ≠ kVERSION := by decide
  have n5 : kPROG ≠ kNAME := by decide
  have n6 : kPROG ≠ kIDENT := by decide
  have m1 : kVER ≠ kTS := by decide
  have m2 : kVER ≠ kPROG := by decide
  have m3 : kVER ≠ kCOMM := by decide
  have m4 : kVER ≠ kVERSION := by decide
  have m5 : kVER ≠ kNAME := by decide
  have m6 : kVER ≠ kIDENT := by decide
  refine ⟨?_, ?_, hps, hvs⟩
  · unfold netData statusData
    simp only
    split <;>
      (cases prog <;> cases ver <;>
        simp [Data.get?_set_other _ _ _ _ n1, Data.get?_set_other _ _ _ _ n2, Data.get?_set_other _ _ _ _ n3,
          Data.get?_set_other _ _ _ _ n4, Data.get?_set_self, get?_withName_other _ _ _ _ n5 n6, Data.get?])
  · intro hsome
    unfold netData statusData
    simp only
    split <;>
      (cases prog <;> cases ver <;>
        simp_all [Data.get?_set_other _ _ _ _ m1, Data.get?_set_other _ _ _ _ m2, Data.get?_set_other _ _ _ _ m3,
          Data.get?_set_other _ _ _ _ m4, Data.get?_set_self, get?_withName_other _ _ _ _ m5 m6, Data.get?])

theorem identOf_readTop (i nm : Str) (li di : Nat) : identOf (readTop i nm li di).data = some i := by
  have hne : kIDENT ≠ S "metadata_prefix" := by decide
  have := identOf_withName [] i nm
  simp only [identOf, Data.getStr?, readTop] at *
  rw [Data.get?_set_other _ _ _ _ hne]
  exact this

theorem nameOf_readTop (i nm : Str) (li di : Nat) : nameOf (readTop i nm li di).data = some nm := by
  have hne : kNAME ≠ S "metadata_prefix" := by decide
  have := nameOf_withName [] i nm
  simp only [nameOf, Data.getStr?, readTop] at *
  rw [Data.get?_set_other _ _ _ _ hne]
  exact this

/-- **closure**: the reader's output on the text written from a netlist inside C03's quantifier is
    inside the quantifier — every element again carries a legal identifier and its name, siblings stay
    distinct (identifiers ignoring case), references still point to preceding cells, pins stay in range
    and on one wire, property dictionaries stay canonical. -/
theorem wfNet_img (n : CNetlist) (ts : List Int) (prog ver : Option Str) (t : CInst) (li di : Nat)
    (h : WFNet n prog ver t li di) :
    WFNet (imgNet n ts prog ver t li di) prog ver (readTop (idOf t.data) (nmOf t.data) li di) li di := by
  refine ⟨?_, ?_, ?_, ?_, imgNet_top _ _ _ _ _ _ _, ?_, rfl, ?_⟩
  · rw [imgNet_libs]; exact netNames_img n.libs h.names
  · intro L l hl D d hd
    rw [imgNet_libs] at hl ⊢
    rw [List.getElem?_map] at hl
    cases hl0 : n.libs[L]? with
    | none => rw [hl0] at hl; cases hl
    | some l0 =>
      rw [hl0] at hl
      cases hl
      rw [imgLib_defs, List.getElem?_map] at hd
      cases hd0 : l0.defs[D]? with
      | none => rw [hd0] at hd; cases hd
      | some d0 =>
        rw [hd0] at hd
        cases hd
        exact cellWF_img n.libs L D d0 (h.cells L l0 hl0 D d0 hd0)
  · rw [imgNet_data]
    exact namedOK_img n.data _ h.named (identOf_netData _ _ _ _ _) (nameOf_netData _ _ _ _ _)
  · rw [imgNet_data]
    exact statusOK_netData _ _ _ _ _ h.status.hps h.status.hvs
  · exact namedOK_img t.data _ h.tnamed (identOf_readTop _ _ _ _) (nameOf_readTop _ _ _ _)
  · obtain ⟨l, d, hl, hd⟩ := h.ttarget
    rw [imgNet_libs]
    exact ⟨imgLib l, imgDef d, getElem?_imgLibs _ _ _ hl, getElem?_imgDefs _ _ _ hd⟩

theorem scalarLower0_img (n : CNetlist) (ts : List Int) (prog ver : Option Str) (t : CInst) (li di : Nat) :
    ScalarLower0 (imgNet n ts prog ver t li di) := by
  intro l hl d hd c hc hlen harr
  rw [imgNet_libs] at hl
  obtain ⟨l0, _, rfl⟩ := List.mem_map.mp hl
  rw [imgLib_defs] at hd
  obtain ⟨d0, _, rfl⟩ := List.mem_map.mp hd
  rw [imgDef_cables] at hc
  obtain ⟨c0, _, rfl⟩ := List.mem_map.mp hc
  by_cases hcond : c0.wires.length = 1 ∧ c0.isArray = false
  · exact (readCable_isArray_scalar c0 _ _ hcond).2
  · have := (readCable_isArray_bus c0 (idOf c0.data) (nmOf c0.data) hcond).1
    rw [readCable1, this] at harr
    cases harr

/-! ### the image is a fixed point: reading what is written from an image gives the image -/

theorem readPort1_idem (p : CPort) : readPort1 (readPort1 p) = readPort1 p := by
  have hi := idOf_readPort1 p
  have hn := nmOf_readPort1 p
  have ha := readPort1_isArray p
  show readPort (readPort1 p) (idOf (readPort1 p).data) (nmOf (readPort1 p).data) = _
  rw [hi, hn]
  simp only [readPort, ha]
  rfl

theorem readCable1_idem (c : CCable) : readCable1 (readCable1 c) = readCable1 c := by
  have hi := idOf_readCable1 c
  have hn := nmOf_readCable1 c
  have hw : (readCable1 c).wires = c.wires := readCable_wires _ _ _
  show readCable (readCable1 c) (idOf (readCable1 c).data) (nmOf (readCable1 c).data) = _
  rw [hi, hn]
  by_cases hcond : c.wires.length = 1 ∧ c.isArray = false
  · have h1 := (readCable_isArray_scalar c (idOf c.data) (nmOf c.data) hcond).1
    have hc' : (readCable1 c).wires.length = 1 ∧ (readCable1 c).isArray = false := ⟨by rw [hw]; exact hcond.1, h1⟩
    have e1 : readCable (readCable1 c) (idOf c.data) (nmOf c.data) =
        scalarCable (withName [] (idOf c.data) (nmOf c.data)) ((readCable1 c).wires.headD []) := by
      unfold readCable; rw [if_pos hc']
    have e2 : readCable1 c = scalarCable (withName [] (idOf c.data) (nmOf c.data)) (c.wires.headD []) := by
      unfold readCable1 readCable; rw [if_pos hcond]
    rw [e1, hw, ← e2]
  · have h1 := readCable_isArray_bus c (idOf c.data) (nmOf c.data) hcond
    have hc' : ¬ ((readCable1 c).wires.length = 1 ∧ (readCable1 c).isArray = false) := by
      intro hh
      have := h1.1
      rw [readCable1] at hh
      rw [this] at hh
      cases hh.2
    have e1 : readCable (readCable1 c) (idOf c.data) (nmOf c.data) =
        busCable (idOf c.data) (nmOf c.data) (readCable1 c).lower (readCable1 c).wires := by
      unfold readCable; rw [if_neg hc']
    have e2 : readCable1 c = busCable (idOf c.data) (nmOf c.data) c.lower c.wires := by
      unfold readCable1 readCable; rw [if_neg hcond]
    have hl : (readCable1 c).lower = c.lower := h1.2
    rw [e1, hw, hl, ← e2]

theorem filterMap_decode_objs (ps : List PropT) : (ps.map PropT.obj).filterMap decodeProp = ps := by
  induction ps with
  | nil => rfl
  | cons a r ih => simp [decodeProp_obj_inv, ih]

theorem decodeProps_withProps (D : Data) (ps : List PropT) (h : D.get? kPROPS = none) :
    decodeProps (withProps D ps) = ps := by
  cases ps with
  | nil => simp [withProps, decodeProps, h]
  | cons a r =>
    simp only [withProps, decodeProps, Data.get?_set_self]
    exact filterMap_decode_objs (a :: r)

theorem imgInst_idem (i : CInst) : imgInst (imgInst i) = imgInst i := by
  have hne1 : kPROPS ≠ kNAME := by decide
  have hne2 : kPROPS ≠ kIDENT := by decide
  have hbase : (withName [] (idOf i.data) (nmOf i.data)).get? kPROPS = none := by
    rw [get?_withName_other _ _ _ _ hne1 hne2]; rfl
  have hi : idOf (imgInst i).data = idOf i.data := idOf_iwRead i
  have hn : nmOf (imgInst i).data = nmOf i.data := nmOf_iwRead i
  have hp : decodeProps (imgInst i).data = decodeProps i.data := decodeProps_withProps _ _ hbase
  have hr : (imgInst i).ref = some ((i.ref.getD (0, 0)).1, (i.ref.getD (0, 0)).2) := rfl
  show readInst (idOf (imgInst i).data) (nmOf (imgInst i).data) (decodeProps (imgInst i).data)
      (((imgInst i).ref.getD (0, 0)).1) (((imgInst i).ref.getD (0, 0)).2) = _
  rw [hi, hn, hp, hr]
  rfl

theorem imgDef_idem (d : CDef) : imgDef (imgDef d) = imgDef d := by
  have hi := idOf_imgDef d
  have hn := nmOf_imgDef d
  show readCell (imgDef d) (idOf (imgDef d).data) (nmOf (imgDef d).data) ((imgDef d).insts.map iwOf) = _
  rw [hi, hn]
  have e : imgDef d = readCell d (idOf d.data) (nmOf d.data) (d.insts.map iwOf) := rfl
  rw [e]
  simp only [readCell, List.map_map]
  congr 1
  · exact List.map_congr_left (fun p _ => readPort1_idem p)
  · exact List.map_congr_left (fun c _ => readCable1_idem c)
  · exact List.map_congr_left (fun i _ => imgInst_idem i)

theorem imgLib_idem (l : CLib) : imgLib (imgLib l) = imgLib l := by
  have e : ∀ l : CLib, imgLib l = { data := withName [] (idOf l.data) (nmOf l.data), defs := l.defs.map imgDef } := by
    intro l
    simp [imgLib, LW.read, lwOf, readDefs_map]
  rw [e (imgLib l), idOf_imgLib, nmOf_imgLib, imgLib_defs, List.map_map, e l]
  congr 1
  exact List.map_congr_left (fun d _ => imgDef_idem d)

/-- **the image is a fixed point** (unconditionally): writing the reader's output and reading it again,
    with the same time stamp, gives the reader's output itself -/
theorem imgNet_idem (n : CNetlist) (ts ts' : List Int) (prog ver : Option Str) (t : CInst) (li di : Nat) :
    imgNet (imgNet n ts prog ver t li di) ts' prog ver (readTop (idOf t.data) (nmOf t.data) li di) li di =
      imgNet n ts' prog ver t li di := by
  have h1 : idOf (imgNet n ts prog ver t li di).data = idOf n.data :=
    idOf_of_identOf _ _ (identOf_netData _ _ _ _ _)
  have h2 : nmOf (imgNet n ts prog ver t li di).data = nmOf n.data :=
    nmOf_of_nameOf _ _ (nameOf_netData _ _ _ _ _)
  have h3 : idOf (readTop (idOf t.data) (nmOf t.data) li di).data = idOf t.data :=
    idOf_of_identOf _ _ (identOf_readTop _ _ _ _)
  have h4 : nmOf (readTop (idOf t.data) (nmOf t.data) li di).data = nmOf t.data :=
    nmOf_of_nameOf _ _ (nameOf_readTop _ _ _ _)
  have h5 : readLibs (imgNet n ts prog ver t li di).libs ((imgNet n ts prog ver t li di).libs.map lwOf) =
      readLibs n.libs (n.libs.map lwOf) := by
    rw [readLibs_map, readLibs_map, imgNet_libs, List.map_map]
    exact List.map_congr_left (fun l _ => imgLib_idem l)
  show readNetlist _ _ _ _ _ _ _ _ _ _ _ = readNetlist _ _ _ _ _ _ _ _ _ _ _
  simp only [readNetlist, h1, h2, h3, h4, h5]

/-- the C03 view of the image does not depend on the time stamp -/
theorem view03_imgNet_ts (n : CNetlist) (ts ts' : List Int) (prog ver : Option Str) (t : CInst) (li di : Nat) :
    view03 (imgNet n ts' prog ver t li di) = view03 (imgNet n ts prog ver t li di) := by
  have e1 := nameOf_netData (idOf n.data) (nmOf n.data) ts' prog ver
  have e2 := nameOf_netData (idOf n.data) (nmOf n.data) ts prog ver
  simp only [view03, imgNet_libs, imgNet_top, imgNet_data]
  have e1' : specName (netData (idOf n.data) (nmOf n.data) ts' prog ver) = some (nmOf n.data) := e1
  have e2' : specName (netData (idOf n.data) (nmOf n.data) ts prog ver) = some (nmOf n.data) := e2
  rw [e1', e2']

end Spydr.Edif
