/-
  Identifier facts about the reader's image, against `ComposeEdif._edifify_netlist`: its naming phase
  (`_add_rename_property`) returns at once for an object that already carries `EDIF.identifier`; every
  element of a netlist the reader built carries one, so the phase is the identity there, whatever
  `make_valid` is.
-/
import Spydr.Edif.Closure
namespace Spydr.Edif

/-- `_add_rename_property(obj, …)` on the element dictionary, for an arbitrary `make_valid` -/
def addRename (mk : Data → Str) (d : Data) : Data :=
  if d.has kIDENT then d
  else
    let r := mk d
    let d1 := d.set kIDENT (.str r)
    if nameOf d = some r then d1 else d1.set (S "EDIF.rename") (.bool true)

/-- apply `f` to the dictionary of every element `_edifify_netlist` visits: the netlist, the top
    instance, libraries, definitions, cables, instances, ports -/
def mapData (f : Data → Data) (n : CNetlist) : CNetlist :=
  { data := f n.data,
    top := n.top.map fun t => { t with data := f t.data },
    libs := n.libs.map fun l =>
      { data := f l.data,
        defs := l.defs.map fun d =>
          { data := f d.data,
            ports := d.ports.map fun p => { p with data := f p.data },
            cables := d.cables.map fun c => { c with data := f c.data },
            insts := d.insts.map fun i => { i with data := f i.data } } } }

/-- a predicate on every element dictionary of a netlist -/
structure AllData (P : Data → Prop) (n : CNetlist) : Prop where
  net : P n.data
  top : ∀ t, n.top = some t → P t.data
  lib : ∀ l ∈ n.libs, P l.data
  df : ∀ l ∈ n.libs, ∀ d ∈ l.defs, P d.data
  port : ∀ l ∈ n.libs, ∀ d ∈ l.defs, ∀ p ∈ d.ports, P p.data
  cable : ∀ l ∈ n.libs, ∀ d ∈ l.defs, ∀ c ∈ d.cables, P c.data
  inst : ∀ l ∈ n.libs, ∀ d ∈ l.defs, ∀ i ∈ d.insts, P i.data

theorem map_id_of_mem {α : Type} (f : α → α) (xs : List α) (h : ∀ x ∈ xs, f x = x) : xs.map f = xs := by
  induction xs with
  | nil => rfl
  | cons a r ih => simp [h a (by simp), ih (fun x hx => h x (by simp [hx]))]

theorem mapData_id (f : Data → Data) (n : CNetlist) (h : AllData (fun d => f d = d) n) : mapData f n = n := by
  obtain ⟨nd, libs, top⟩ := n
  simp only [mapData]
  congr 1
  · exact h.net
  · apply map_id_of_mem
    intro l hl
    obtain ⟨ld, defs⟩ := l
    simp only
    congr 1
    · exact h.lib _ hl
    · apply map_id_of_mem
      intro d hd
      obtain ⟨dd, ports, cables, insts⟩ := d
      simp only
      congr 1
      · exact h.df _ hl _ hd
      · apply map_id_of_mem
        intro p hp
        have := h.port _ hl _ hd p hp
        cases p; simp_all
      · apply map_id_of_mem
        intro c hc
        have := h.cable _ hl _ hd c hc
        cases c; simp_all
      · apply map_id_of_mem
        intro i hi
        have := h.inst _ hl _ hd i hi
        cases i; simp_all
  · cases top with
    | none => rfl
    | some t =>
      have := h.top t rfl
      cases t; simp_all

theorem has_of_identOf (d : Data) (i : Str) (h : identOf d = some i) : d.has kIDENT = true := by
  have := get?_of_getStr? d kIDENT i h
  simp [Data.has, this]

theorem addRename_of_ident (mk : Data → Str) (d : Data) (i : Str) (h : identOf d = some i) : addRename mk d = d := by
  simp [addRename, has_of_identOf d i h]

/-- every element of the reader's image carries an identifier -/
theorem allIdent_img (n : CNetlist) (ts : List Int) (prog ver : Option Str) (t : CInst) (li di : Nat) :
    AllData (fun d => ∃ i, identOf d = some i) (imgNet n ts prog ver t li di) := by
  refine ⟨⟨_, identOf_netData _ _ _ _ _⟩, ?_, ?_, ?_, ?_, ?_, ?_⟩
  · intro t' ht
    rw [imgNet_top] at ht
    cases ht
    exact ⟨_, identOf_readTop _ _ _ _⟩
  · intro l hl
    rw [imgNet_libs] at hl
    obtain ⟨l0, _, rfl⟩ := List.mem_map.mp hl
    exact ⟨_, imgLib_ident l0⟩
  · intro l hl d hd
    rw [imgNet_libs] at hl
    obtain ⟨l0, _, rfl⟩ := List.mem_map.mp hl
    rw [imgLib_defs] at hd
    obtain ⟨d0, _, rfl⟩ := List.mem_map.mp hd
    exact ⟨_, imgDef_ident d0⟩
  · intro l hl d hd p hp
    rw [imgNet_libs] at hl
    obtain ⟨l0, _, rfl⟩ := List.mem_map.mp hl
    rw [imgLib_defs] at hd
    obtain ⟨d0, _, rfl⟩ := List.mem_map.mp hd
    rw [imgDef_ports] at hp
    obtain ⟨p0, _, rfl⟩ := List.mem_map.mp hp
    exact ⟨_, identOf_readPort _ _ _⟩
  · intro l hl d hd c hc
    rw [imgNet_libs] at hl
    obtain ⟨l0, _, rfl⟩ := List.mem_map.mp hl
    rw [imgLib_defs] at hd
    obtain ⟨d0, _, rfl⟩ := List.mem_map.mp hd
    rw [imgDef_cables] at hc
    obtain ⟨c0, _, rfl⟩ := List.mem_map.mp hc
    exact ⟨_, identOf_readCable _ _ _⟩
  · intro l hl d hd i hi
    rw [imgNet_libs] at hl
    obtain ⟨l0, _, rfl⟩ := List.mem_map.mp hl
    rw [imgLib_defs] at hd
    obtain ⟨d0, _, rfl⟩ := List.mem_map.mp hd
    rw [imgDef_insts] at hi
    obtain ⟨i0, _, rfl⟩ := List.mem_map.mp hi
    exact ⟨_, identOf_readInst _⟩

theorem AllData.mono {P Q : Data → Prop} (n : CNetlist) (h : AllData P n) (hpq : ∀ d, P d → Q d) : AllData Q n :=
  ⟨hpq _ h.net, fun t ht => hpq _ (h.top t ht), fun l hl => hpq _ (h.lib l hl),
    fun l hl d hd => hpq _ (h.df l hl d hd), fun l hl d hd p hp => hpq _ (h.port l hl d hd p hp),
    fun l hl d hd c hc => hpq _ (h.cable l hl d hd c hc), fun l hl d hd i hi => hpq _ (h.inst l hl d hd i hi)⟩

/-- **the naming phase of `_edifify_netlist` is the identity on the reader's image**, for every
    `make_valid` -/
theorem edifify_names_img (mk : Data → Str) (n : CNetlist) (ts : List Int) (prog ver : Option Str) (t : CInst)
    (li di : Nat) : mapData (addRename mk) (imgNet n ts prog ver t li di) = imgNet n ts prog ver t li di :=
  mapData_id _ _ ((allIdent_img n ts prog ver t li di).mono _ (fun d ⟨i, hi⟩ => addRename_of_ident mk d i hi))

end Spydr.Edif
