/-
  The ordering phase of `ComposeEdif._edifify_netlist` (`_topological_sort`, the stack-based `iterate`)
  on a netlist whose references all point to preceding cells — in particular on every netlist the
  reader returns for a written text (`wfNet_img`) or for a text of the C05 fragment (`wfNet_elab`):
  libraries and definitions stay in the order they have.
-/
import Spydr.Edif.Closure
namespace Spydr.Edif

/-- `iterate(o)` of `_topological_sort`: the stack (top first), the visited / output list; `deps` lists
    the dependencies of an object in the order the Python set happens to iterate -/
def topoIterate {α : Type} [DecidableEq α] (deps : α → List α) : Nat → List α → List α → List α
  | 0, _, out => out
  | _ + 1, [], out => out
  | f + 1, o :: st, out =>
    -- `for child in get_dependents(o): if child not in visited: stack.append(child)`
    let pushed := (deps o).filter fun c => !(out.contains c)
    match pushed.reverse ++ o :: st with
    | [] => out
    | t :: rest =>
      -- `if stack[-1] == o: stack.pop(); if o not in visited: visited.add(o); output_list.append(o)`
      if t = o then topoIterate deps f rest (if out.contains o then out else out ++ [o])
      else topoIterate deps f (t :: rest) out

/-- `_topological_sort(list_of_objects, dependency_function)` -/
def topoSort {α : Type} [DecidableEq α] (deps : α → List α) (fuel : Nat) (xs : List α) : List α :=
  xs.foldl (fun out o => if out.contains o then out else topoIterate deps fuel [o] out) []

theorem topoIterate_done {α : Type} [DecidableEq α] (deps : α → List α) (f : Nat) (out : List α) :
    topoIterate deps f [] out = out := by
  cases f <;> rfl

/-- an object all of whose dependencies are already placed is placed next -/
theorem topoIterate_ready {α : Type} [DecidableEq α] (deps : α → List α) (f : Nat) (o : α) (out : List α)
    (hdeps : ∀ c ∈ deps o, c ∈ out) (ho : o ∉ out) : topoIterate deps (f + 1) [o] out = out ++ [o] := by
  have hp : ((deps o).filter fun c => !(out.contains c)) = [] := by
    rw [List.filter_eq_nil_iff]
    intro c hc
    simp [hdeps c hc]
  have hc : out.contains o = false := by simpa using ho
  simp only [topoIterate, hp, List.reverse_nil, List.nil_append, if_true, hc, Bool.false_eq_true, if_false]
  exact topoIterate_done deps f _

/-- **a list already in dependency order is left as it is** -/
theorem topoSort_sorted {α : Type} [DecidableEq α] (deps : α → List α) (fuel : Nat) (xs : List α)
    (hnd : xs.Nodup) (hdeps : ∀ (k : Nat) (hk : k < xs.length), ∀ c ∈ deps xs[k], c ∈ xs.take k) :
    topoSort deps (fuel + 1) xs = xs := by
  have key : ∀ (rest done : List α), xs = done ++ rest →
      rest.foldl (fun out o => if out.contains o then out else topoIterate deps (fuel + 1) [o] out) done = done ++ rest := by
    intro rest
    induction rest with
    | nil => intro done _; simp
    | cons o r ih =>
      intro done hsplit
      have hk : done.length < xs.length := by rw [hsplit]; simp
      have hxk : xs[done.length] = o := by simp [hsplit]
      have hnot : o ∉ done := by
        rw [hsplit] at hnd
        have := (List.nodup_append.mp hnd).2.2
        intro hm
        exact this o hm o (by simp) rfl
      have hd : ∀ c ∈ deps o, c ∈ done := by
        intro c hc
        have := hdeps done.length hk c (by rw [hxk]; exact hc)
        simpa [hsplit] using this
      have hc : done.contains o = false := by simpa using hnot
      simp only [List.foldl_cons, hc, Bool.false_eq_true, if_false, topoIterate_ready deps fuel o done hd hnot]
      have := ih (done ++ [o]) (by simp [hsplit])
      simpa using this
  have := key xs [] rfl
  simpa [topoSort] using this

/-! ### the two dependency functions of `_edifify_netlist`, on positions -/

/-- `_get_library_dependency`: the libraries (other than `L` itself) that instances inside library `L`
    reference -/
def libDeps (n : CNetlist) (L : Nat) : List Nat :=
  match n.libs[L]? with
  | none => []
  | some l => (l.defs.flatMap fun d => d.insts.filterMap fun i => i.ref.map (·.1)).filter (· ≠ L)

/-- `_get_definition_dependency_same_library`: the definitions of library `L` that instances inside
    definition `D` of that library reference -/
def defDeps (n : CNetlist) (L D : Nat) : List Nat :=
  match n.libs[L]? with
  | none => []
  | some l =>
    match l.defs[D]? with
    | none => []
    | some d => d.insts.filterMap fun i => match i.ref with
      | some (li, di) => if li = L then some di else none
      | none => none

theorem range_take (n k : Nat) (hk : k ≤ n) : (List.range n).take k = List.range k := by
  apply List.ext_getElem
  · simp; omega
  · intro i h1 h2
    simp

/-- **the ordering phase is the identity inside C03's quantifier**: libraries stay in order … -/
theorem topoSort_libs (n : CNetlist) (prog ver : Option Str) (t : CInst) (li di : Nat)
    (h : WFNet n prog ver t li di) (fuel : Nat) :
    topoSort (libDeps n) (fuel + 1) (List.range n.libs.length) = List.range n.libs.length := by
  apply topoSort_sorted _ _ _ List.nodup_range
  intro k hk c hc
  simp only [List.length_range] at hk
  simp only [List.getElem_range] at hc
  rw [range_take _ _ (by omega), List.mem_range]
  unfold libDeps at hc
  have hl : n.libs[k]? = some n.libs[k] := List.getElem?_eq_getElem hk
  rw [hl] at hc
  simp only [List.mem_filter, List.mem_flatMap, List.mem_filterMap, decide_eq_true_eq] at hc
  obtain ⟨⟨d, hd, i, hi, hr⟩, hne⟩ := hc
  obtain ⟨D, hD, rfl⟩ := List.getElem_of_mem hd
  have hcell := h.cells k _ hl D _ (List.getElem?_eq_getElem hD)
  obtain ⟨li', di', _, _, href, _, _, hb⟩ := (hcell.insts i hi).ref
  rw [href] at hr
  simp only [Option.map_some, Option.some.injEq] at hr
  subst hr
  rcases hb with hlt | ⟨heq, _⟩
  · exact hlt
  · exact absurd heq hne

/-- … and so do the definitions of every library -/
theorem topoSort_defs (n : CNetlist) (prog ver : Option Str) (t : CInst) (li di : Nat)
    (h : WFNet n prog ver t li di) (L : Nat) (l : CLib) (hl : n.libs[L]? = some l) (fuel : Nat) :
    topoSort (defDeps n L) (fuel + 1) (List.range l.defs.length) = List.range l.defs.length := by
  apply topoSort_sorted _ _ _ List.nodup_range
  intro k hk c hc
  simp only [List.length_range] at hk
  simp only [List.getElem_range] at hc
  rw [range_take _ _ (by omega), List.mem_range]
  unfold defDeps at hc
  have hd : l.defs[k]? = some l.defs[k] := List.getElem?_eq_getElem hk
  rw [hl] at hc
  simp only [hd, List.mem_filterMap] at hc
  obtain ⟨i, hi, hr⟩ := hc
  have hcell := h.cells L l hl k _ hd
  obtain ⟨li', di', _, _, href, _, _, hb⟩ := (hcell.insts i hi).ref
  rw [href] at hr
  simp only at hr
  by_cases hli : li' = L
  · rw [if_pos hli] at hr
    cases hr
    rcases hb with hlt | ⟨_, hlt⟩
    · omega
    · exact hlt
  · rw [if_neg hli] at hr
    cases hr

end Spydr.Edif
