/-
  The cables a cell of an abstract design ends with are the cables `cablesDen` declares, in order;
  and a pin joined once in the text is joined once in the netlist.
-/
import Spydr.Edif.DenoteNets
namespace Spydr.Edif

/-! ### least and greatest index -/

theorem minOf_le (l : List Nat) : ∀ x ∈ l, minOf l ≤ x := by
  induction l with
  | nil => intro x hx; cases hx
  | cons a r ih =>
    intro x hx
    cases r with
    | nil =>
      simp only [List.mem_singleton] at hx
      subst hx
      simp [minOf]
    | cons b t =>
      simp only [minOf]
      rcases List.mem_cons.mp hx with rfl | hx
      · exact Nat.min_le_left _ _
      · exact Nat.le_trans (Nat.min_le_right _ _) (ih x hx)

theorem minOf_mem (l : List Nat) (h : l ≠ []) : minOf l ∈ l := by
  induction l with
  | nil => exact absurd rfl h
  | cons a r ih =>
    cases r with
    | nil => simp [minOf]
    | cons b t =>
      simp only [minOf]
      have := ih (by simp)
      by_cases hab : a ≤ minOf (b :: t)
      · rw [Nat.min_eq_left hab]; simp
      · rw [Nat.min_eq_right (by omega)]
        exact List.mem_cons_of_mem _ this

theorem minOf_unique (l : List Nat) (m : Nat) (hm : m ∈ l) (hle : ∀ x ∈ l, m ≤ x) : minOf l = m := by
  have h1 := minOf_le l m hm
  have h2 := hle _ (minOf_mem l (by intro e; rw [e] at hm; cases hm))
  omega

theorem le_maxOf (l : List Nat) : ∀ x ∈ l, x ≤ maxOf l := by
  induction l with
  | nil => intro x hx; cases hx
  | cons a r ih =>
    intro x hx
    simp only [maxOf]
    rcases List.mem_cons.mp hx with rfl | hx
    · exact Nat.le_max_left _ _
    · exact Nat.le_trans (ih x hx) (Nat.le_max_right _ _)

theorem maxOf_mem (l : List Nat) (h : l ≠ []) : maxOf l ∈ l := by
  induction l with
  | nil => exact absurd rfl h
  | cons a r ih =>
    simp only [maxOf]
    cases r with
    | nil => simp [maxOf]
    | cons b t =>
      have := ih (by simp)
      by_cases hab : maxOf (b :: t) ≤ a
      · rw [Nat.max_eq_left hab]; simp
      · rw [Nat.max_eq_right (by omega)]
        exact List.mem_cons_of_mem _ this

theorem maxOf_unique (l : List Nat) (m : Nat) (hm : m ∈ l) (hge : ∀ x ∈ l, x ≤ m) : maxOf l = m := by
  have h1 := le_maxOf l m hm
  have h2 := hge _ (maxOf_mem l (by intro e; rw [e] at hm; cases hm))
  omega

/-! ### the cable at position k -/

theorem findName_of_nodup (cs : List CCable) (k : Nat) (hk : k < cs.length) (nm : Str)
    (hnm : nameOf cs[k].data = some nm) (hnd : (cableNames cs).Nodup) : findName (cs.map (·.data)) nm = some k := by
  unfold findName
  rw [List.findIdx?_eq_some_iff_getElem]
  refine ⟨by simpa using hk, by simp [hnm], ?_⟩
  intro j hj
  have hjl : j < cs.length := by omega
  simp only [List.getElem_map]
  cases hn : nameOf cs[j].data with
  | none => simp
  | some a =>
    simp only [beq_iff_eq]
    by_cases ha : a = nm
    · exfalso
      subst ha
      have hp := List.pairwise_iff_getElem.mp hnd j k (by simpa [cableNames] using hjl) (by simpa [cableNames] using hk) hj
      simp only [cableNames, List.getElem_map] at hp
      exact hp (by rw [hn, hnm])
    · simpa using ha

theorem busOf_at (cs : List CCable) (k : Nat) (hk : k < cs.length) (nm : Str)
    (hnm : nameOf cs[k].data = some nm) (hnd : (cableNames cs).Nodup) :
    busOf nm cs = some ⟨cs[k].lower, cs[k].wires⟩ := by
  unfold busOf
  rw [findName_of_nodup cs k hk nm hnm hnd]
  simp [hk]

theorem filterMap_eq_of_getElem {α β : Type} (f : α → Option β) (l : List α) (m : List β) (hlen : l.length = m.length)
    (h : ∀ k (h1 : k < l.length) (h2 : k < m.length), f l[k] = some m[k]) : l.filterMap f = m := by
  induction l generalizing m with
  | nil => cases m with
    | nil => rfl
    | cons _ _ => simp at hlen
  | cons a r ih =>
    cases m with
    | nil => simp at hlen
    | cons b t =>
      have h0 := h 0 (by simp) (by simp)
      simp only [List.getElem_cons_zero] at h0
      simp only [List.filterMap_cons, h0]
      congr 1
      apply ih t (by simpa using hlen)
      intro k h1 h2
      have := h (k + 1) (by simp; omega) (by simp; omega)
      simpa using this

theorem cname_names (nets : List ANet) : (nets.map ANet.item).map (·.name) = nets.map ANet.cname := by
  rw [List.map_map]
  apply List.map_congr_left
  intro n _
  exact item_name n

theorem bitPins_eq (bits : List (Nat × List CPin)) (k : Nat) : bitPins bits k = pinsAt bits k := by
  unfold bitPins pinsAt
  cases List.find? (fun b => b.1 == k) bits <;> rfl

/-- **the cables of a cell**: the reader's net loop on a well-formed net list ends with the cables the
    text declares — one per cable name in order of first occurrence; a scalar net as a one-wire
    non-array cable at 0; the bit nets of a bus as ONE array cable based at the least index, bit `k` at
    `k − lower`, gaps empty, whatever the order of the bit nets and whatever stands between them -/
theorem cables_view (nets : List ANet) (h : netsOKB nets = true) :
    ((nets.map ANet.item).foldl netStep []).map view05Cable = cablesDen nets := by
  have hwf := netsWF_of_okB nets h
  obtain ⟨hN, hC⟩ := cabInv_all (nets.map ANet.item) hwf
  have hbits : ∀ n ∈ nets, ((busBits n.cname nets).map (·.1)).Nodup := by
    simp only [netsOKB, Bool.and_eq_true, List.all_eq_true, decide_eq_true_eq] at h
    exact h.2
  -- the loop as a fold
  have hfold := foldlM_multibitAdd (nets.map ANet.item) hwf [] (nets.map ANet.item) [] rfl (by intro c hc; cases hc)
  obtain ⟨cs', hcs', hany⟩ := nets_any_order (nets.map ANet.item) hwf
  rw [hfold] at hcs'
  have hcs'' : (nets.map ANet.item).foldl netStep [] = cs' := Except.ok.inj hcs'
  subst hcs''
  generalize hcs : (nets.map ANet.item).foldl netStep [] = cs at *
  have horder : cableNames cs = (firstNames (nets.map ANet.cname)).map some := by
    rw [hC.order, cname_names]; rfl
  have hlen : (firstNames (nets.map ANet.cname)).length = cs.length := by
    have := congrArg List.length horder
    simpa [cableNames] using this.symm
  symm
  unfold cablesDen
  apply filterMap_eq_of_getElem _ _ _ (by simpa using hlen)
  intro k h1 h2
  have hk : k < cs.length := by simpa using h2
  simp only [List.getElem_map]
  -- the name at position k
  have hname : nameOf cs[k].data = some (firstNames (nets.map ANet.cname))[k] := by
    have := congrArg (fun l => l[k]?) horder
    simp only [cableNames, List.getElem?_map, List.getElem?_eq_getElem hk, List.getElem?_eq_getElem h1,
      Option.map_some] at this
    exact Option.some.inj this
  generalize hnm : (firstNames (nets.map ANet.cname))[k] = nm at *
  obtain ⟨it, hit, hi1, hi2, hi3⟩ := hC.info cs[k] (List.getElem_mem hk)
  obtain ⟨n1, hn1, rfl⟩ := List.mem_map.mp hit
  have hn1name : n1.cname = nm := by
    rw [hname, item_name] at hi1
    exact (Option.some.inj hi1).symm
  have hbus := busOf_at cs k hk nm hname hN.nodup
  -- the first net of that name
  cases hfind : nets.find? (fun n => n.cname == nm) with
  | none =>
    have := List.find?_eq_none.mp hfind n1 hn1
    simp [hn1name] at this
  | some n0 =>
    have hn0 : n0 ∈ nets := List.mem_of_find?_eq_some hfind
    have hn0name : n0.cname = nm := by
      have := List.find?_some hfind
      simpa using this
    have hsame := hwf.same n0.item (List.mem_map_of_mem hn0) n1.item hit (by rw [item_name, item_name, hn0name, hn1name])
    have hident : identOf cs[k].data = some n0.item.ident := by rw [hi2, hsame.1]
    have hflag : cs[k].scalarFlag = n0.item.idx.isNone := by
      rw [hi3]
      have := hsame.2
      cases h0 : n0.item.idx <;> cases h1' : n1.item.idx <;> simp [h0, h1'] at this ⊢
    simp only [cableDen, hfind]
    obtain ⟨kind, pins⟩ := n0
    cases kind with
    | scalar a =>
      have hanm : a.name = nm := hn0name
      have hs := scalar_survives (nets.map ANet.item) hwf (ANet.item ⟨.scalar a, pins⟩) (List.mem_map_of_mem hn0) rfl
      rw [hcs] at hs
      have hs' : busOf nm cs = some ⟨0, [pins.map APin.pin]⟩ := by
        rw [← hanm]; exact hs
      rw [hbus] at hs'
      have hl : cs[k].lower = 0 := by
        have := Option.some.inj hs'; exact congrArg Bus.lo this
      have hw : cs[k].wires = [pins.map APin.pin] := by
        have := Option.some.inj hs'; exact congrArg Bus.ws this
      have hf : cs[k].scalarFlag = true := hflag
      simp only [view05Cable, hname, hident, hl, hw, CCable.isArray, CCable.isScalar, hf, ANet.item, hanm]
      simp
    | bit bi bn i j =>
      have hbn : bn = nm := hn0name
      subst hbn
      have hnd : ((bitsOf bn (nets.map ANet.item)).map (·.1)).Nodup := by
        rw [bitsOf_items]; exact hbits _ hn0
      obtain ⟨c, hc, hne, _, hget, hlo, hrange, hhi⟩ :=
        hany (ANet.item ⟨.bit bi bn i j, pins⟩) (List.mem_map_of_mem hn0) i rfl hnd
      have hc' : busOf bn cs = some c := hc
      rw [hbus] at hc'
      have hcl : c.lo = cs[k].lower := by have := Option.some.inj hc'; exact (congrArg Bus.lo this).symm
      have hcw : c.ws = cs[k].wires := by have := Option.some.inj hc'; exact (congrArg Bus.ws this).symm
      have hbits' : bitsOf bn (nets.map ANet.item) = busBits bn nets := bitsOf_items bn nets
      have hbits'' : bitsOf (ANet.item ⟨.bit bi bn i j, pins⟩).name (nets.map ANet.item) = busBits bn nets := hbits'
      rw [hbits''] at hget hlo hrange hhi
      simp only [hcl, hcw] at hget hlo hrange hhi
      have hmin : minOf ((busBits bn nets).map (·.1)) = cs[k].lower :=
        minOf_unique _ _ hlo (fun x hx => (hrange x hx).1)
      obtain ⟨xh, hxh, hxe⟩ := hhi
      have hmax : maxOf ((busBits bn nets).map (·.1)) = xh :=
        maxOf_unique _ _ hxh (fun x hx => by have := (hrange x hx).2; omega)
      have hf : cs[k].scalarFlag = false := hflag
      have hwl : (maxOf ((busBits bn nets).map (·.1)) + 1 - minOf ((busBits bn nets).map (·.1))) = cs[k].wires.length := by
        rw [hmin, hmax]; omega
      have hwires : (List.range (maxOf ((busBits bn nets).map (·.1)) + 1 - minOf ((busBits bn nets).map (·.1)))).map
          (fun j => bitPins (busBits bn nets) (minOf ((busBits bn nets).map (·.1)) + j)) = cs[k].wires := by
        rw [hwl, hmin]
        apply List.ext_getElem
        · simp
        · intro j hj1 hj2
          simp only [List.getElem_map, List.getElem_range, bitPins_eq]
          rw [← hget j hj2]
          simp [List.getD_eq_getElem?_getD, hj2]
      rw [hmin] at hwires
      simp only [view05Cable, hname, hident, hmin, hwires, CCable.isArray, CCable.isScalar, hf, ANet.item]
      simp

/-! ### every pin of the text ends on exactly the wires the text puts it on -/

theorem flatten_replicate_nil {α : Type} (n : Nat) : (List.replicate n ([] : List α)).flatten = [] := by
  induction n with
  | zero => rfl
  | succ k ih => simp [List.replicate_succ, ih]

theorem flatten_set_perm {α : Type} (ws : List (List α)) (j : Nat) (hj : j < ws.length) (ps : List α) :
    (ws.set j (ws.getD j [] ++ ps)).flatten.Perm (ws.flatten ++ ps) := by
  induction ws generalizing j with
  | nil => simp at hj
  | cons w r ih =>
    cases j with
    | zero =>
      simp only [List.set_cons_zero, List.flatten_cons, List.getD_cons_zero, List.append_assoc]
      exact List.Perm.append_left w List.perm_append_comm
    | succ j =>
      simp only [List.set_cons_succ, List.flatten_cons, List.getD_cons_succ, List.append_assoc]
      exact List.Perm.append_left w (ih j (by simpa using hj))

theorem flatten_mergeBus_perm (c : Bus CPin) (i : Nat) (ps : List CPin) :
    (mergeBus c i ps).ws.flatten.Perm (c.ws.flatten ++ ps) := by
  unfold mergeBus
  by_cases h1 : i ≥ c.lo
  · by_cases h2 : i < c.lo + c.ws.length
    · simp only [h1, h2, if_true]
      exact flatten_set_perm c.ws (i - c.lo) (by omega) ps
    · simp only [h1, h2, if_true, if_false]
      simp [List.flatten_append]
  · simp only [h1, if_false]
    simp only [List.flatten_append, flatten_replicate_nil, List.flatten_cons, List.flatten_nil, List.append_nil]
    exact List.perm_append_comm

theorem flatMap_set_perm (cs : List CCable) (k : Nat) (ex c' : CCable) (hk : cs[k]? = some ex) (ps : List CPin)
    (h : c'.wires.flatten.Perm (ex.wires.flatten ++ ps)) :
    ((cs.set k c').flatMap fun c => c.wires.flatten).Perm ((cs.flatMap fun c => c.wires.flatten) ++ ps) := by
  induction cs generalizing k with
  | nil => simp at hk
  | cons a r ih =>
    cases k with
    | zero =>
      simp only [List.getElem?_cons_zero, Option.some.injEq] at hk
      subst hk
      simp only [List.set_cons_zero, List.flatMap_cons]
      have := List.Perm.append_right (r.flatMap fun c => c.wires.flatten) h
      refine this.trans ?_
      simp only [List.append_assoc]
      exact List.Perm.append_left _ List.perm_append_comm
    | succ k =>
      simp only [List.getElem?_cons_succ] at hk
      simp only [List.set_cons_succ, List.flatMap_cons, List.append_assoc]
      exact List.Perm.append_left _ (ih k hk)

theorem pins_netStep_perm (cs : List CCable) (it : NetItem) :
    ((netStep cs it).flatMap fun c => c.wires.flatten).Perm ((cs.flatMap fun c => c.wires.flatten) ++ it.pins) := by
  unfold netStep
  cases it.idx with
  | none => simp [List.flatMap_append, scalarCable]
  | some i =>
    simp only
    cases hf : findName (cs.map (·.data)) it.name with
    | none => simp [List.flatMap_append, busCable]
    | some k =>
      simp only
      cases hk : cs[k]? with
      | none => simp only; exact absurd hk (by
          have := findName_lt _ _ _ hf
          simp only [List.length_map] at this
          simp [this])
      | some ex =>
        simp only
        apply flatMap_set_perm cs k ex _ hk
        have hm := mergeInto_eq ex i it.pins
        rw [hm.2.1]
        exact flatten_mergeBus_perm ⟨ex.lower, ex.wires⟩ i it.pins

theorem pins_foldl_perm (items : List NetItem) (cs : List CCable) :
    ((items.foldl netStep cs).flatMap fun c => c.wires.flatten).Perm
      ((cs.flatMap fun c => c.wires.flatten) ++ items.flatMap (·.pins)) := by
  induction items generalizing cs with
  | nil => simp
  | cons it r ih =>
    simp only [List.foldl_cons, List.flatMap_cons]
    refine (ih (netStep cs it)).trans ?_
    rw [← List.append_assoc]
    exact List.Perm.append_right _ (pins_netStep_perm cs it)

theorem item_pins (n : ANet) : n.item.pins = n.pins.map APin.pin := by
  obtain ⟨k, p⟩ := n; cases k <;> rfl

/-- a pin the text joins once is joined once: `Wire.connect_pin` never asserts -/
theorem hasDupPin_nets (nets : List ANet) (h : (nets.flatMap fun n => n.pins.map APin.pin).Nodup) :
    hasDupPin ((nets.map ANet.item).foldl netStep []) = false := by
  apply hasDupPin_false
  have hp := pins_foldl_perm (nets.map ANet.item) []
  simp only [List.flatMap_nil, List.nil_append] at hp
  rw [hp.nodup_iff]
  have e : (nets.map ANet.item).flatMap (·.pins) = nets.flatMap fun n => n.pins.map APin.pin := by
    rw [List.flatMap_map]
    congr 1
    funext n
    exact item_pins n
  rw [e]
  exact h

end Spydr.Edif
