/-
  One cell of an abstract design through `parse_cell`: ports, instances (references resolved in the
  reader's scope), nets (pins through `parse_portRef`, bit nets assembled), in closed form.
-/
import Spydr.Edif.DenoteCables
namespace Spydr.Edif

/-! ### siblings -/

theorem namesOKB_ok (as : List AName) (h : namesOKB as = true) : ∀ a ∈ as, a.okB = true := by
  simp only [namesOKB, Bool.and_eq_true, List.all_eq_true, decide_eq_true_eq] at h
  exact h.1.1

/-- an element is different (identifier ignoring case, name) from every sibling before it -/
theorem namesOKB_fresh (as : List AName) (h : namesOKB as = true) (done rest : List AName) (a : AName)
    (hs : as = done ++ a :: rest) : ∀ x ∈ done, lower x.ident ≠ lower a.ident ∧ x.name ≠ a.name := by
  simp only [namesOKB, Bool.and_eq_true, List.all_eq_true, decide_eq_true_eq] at h
  obtain ⟨⟨_, h1⟩, h2⟩ := h
  subst hs
  intro x hx
  constructor
  · simp only [List.map_append, List.map_cons] at h1
    have := (List.nodup_append.mp h1).2.2
    exact fun e => this _ (List.mem_map_of_mem hx) _ (by simp) e
  · simp only [List.map_append, List.map_cons] at h2
    have := (List.nodup_append.mp h2).2.2
    exact fun e => this _ (List.mem_map_of_mem hx) _ (by simp) e

theorem conflicts_false_of_names (sibs : List Data) (d : Data) (i n : Str) (hi : identOf d = some i)
    (hn : nameOf d = some n)
    (h : ∀ s ∈ sibs, ∃ si sn, identOf s = some si ∧ nameOf s = some sn ∧ lower si ≠ lower i ∧ sn ≠ n) :
    conflicts sibs d = false := by
  unfold conflicts
  rw [List.any_eq_false]
  intro s hs
  obtain ⟨si, sn, h1, h2, h3, h4⟩ := h s hs
  simp [h1, h2, hi, hn, h3, h4]

/-- among siblings elaborated from names with pairwise different identifiers (ignoring case), every
    spelling of sibling `k`'s identifier finds `k` -/
theorem findIdent_elab {α : Type} (f : α → Data) (nm : α → AName) (xs : List α)
    (hid : ∀ x, identOf (f x) = some (nm x).ident)
    (hnd : ((xs.map nm).map fun a => lower a.ident).Nodup) (k : Nat) (x : α) (hk : xs[k]? = some x)
    (sp : Str) (hsp : lower sp = lower (nm x).ident) : findIdent (xs.map f) sp = some k := by
  have hlt : k < xs.length := getElem?_lt _ _ _ hk
  have hx : xs[k] = x := by
    have := List.getElem?_eq_getElem hlt
    rw [this] at hk; exact Option.some.inj hk
  apply findIdent_declared (xs.map f) k (nm x).ident sp (by simpa using hlt) (by simp [hx, hid]) hsp
  intro j hj b hb
  have hjl : j < xs.length := by omega
  simp only [List.getElem_map, hid] at hb
  cases hb
  have hp := List.pairwise_iff_getElem.mp hnd j k (by simpa using hjl) (by simpa using hlt) hj
  simpa [hx] using hp

theorem okB_of_nodup_ident (as : List AName) (h : namesOKB as = true) : (as.map fun a => lower a.ident).Nodup := by
  simp only [namesOKB, Bool.and_eq_true, List.all_eq_true, decide_eq_true_eq] at h
  exact h.1.2

/-! ### the port list -/

theorem foldlM_iface_APorts (ports : List APort) (hn : namesOKB (ports.map (·.name)) = true)
    (hok : ∀ p ∈ ports, p.okB = true) :
    ∃ yss : List (List SExp), ports.map APort.sexp = yss.map SExp.list ∧
      ∀ (st : CellSt) (hd : Bool), st.ports = [] →
        yss.foldlM ifaceItem (st, hd) = .ok ({ st with ports := ports.map APort.elab }, hd) := by
  have key : ∀ (rest done : List APort), ports = done ++ rest →
      ∃ yss : List (List SExp), rest.map APort.sexp = yss.map SExp.list ∧
        ∀ (st : CellSt) (hd : Bool), st.ports = done.map APort.elab →
          yss.foldlM ifaceItem (st, hd) = .ok ({ st with ports := (done ++ rest).map APort.elab }, hd) := by
    intro rest
    induction rest with
    | nil => intro done _; exact ⟨[], rfl, by intro st hd hst; simp [pure, Except.pure, ← hst]⟩
    | cons p r ih =>
      intro done hsplit
      have hpm : p ∈ ports := by rw [hsplit]; simp
      have hpn : p.name.okB = true := namesOKB_ok _ hn _ (List.mem_map_of_mem hpm)
      obtain ⟨body, hb, hparse⟩ := parsePort_APort p hpn (hok p hpm)
      obtain ⟨yss, hyss, hfold⟩ := ih (done ++ [p]) (by simp [hsplit])
      refine ⟨(A "port" :: body) :: yss, by simp [hb, hyss], ?_⟩
      intro st hd hst
      have hh : headIs (A "port" :: body) "port" = true := by rw [headIs_cons]; decide
      have hfresh := namesOKB_fresh _ hn (done.map (·.name)) (r.map (·.name)) p.name (by simp [hsplit])
      have hconf : conflicts (st.ports.map (·.data)) p.elab.data = false := by
        apply conflicts_false_of_names _ _ _ _ (identOf_APort_elab p) (nameOf_APort_elab p)
        intro s hs
        rw [hst, List.map_map] at hs
        obtain ⟨q, hq, rfl⟩ := List.mem_map.mp hs
        have := hfresh q.name (List.mem_map_of_mem hq)
        exact ⟨_, _, identOf_APort_elab q, nameOf_APort_elab q, this.1, this.2⟩
      have hstep : ifaceItem (st, hd) (A "port" :: body) = .ok ({ st with ports := st.ports ++ [p.elab] }, hd) := by
        simp only [ifaceItem, hh, if_true, hparse, hconf, Bool.false_eq_true, if_false, bind, Except.bind, pure,
          Except.pure]
      simp only [List.foldlM_cons, hstep, bind, Except.bind]
      have := hfold { st with ports := st.ports ++ [p.elab] } hd (by simp [hst])
      simpa using this
  obtain ⟨yss, h1, h2⟩ := key ports [] rfl
  exact ⟨yss, h1, fun st hd hst => by simpa using h2 st hd (by simpa using hst)⟩

/-! ### the instance list -/

/-- the reference of an instance resolves in the reader's scope `sc` -/
structure AInst.ResolvesIn (sc : Scope) (i : AInst) : Prop where
  hvv : validIdentTok i.viewSp = true
  hvd : validIdentTok i.cellSp = true
  hvl : validIdentTok i.libSp = true
  hres : LibResolves sc i.libSp i.li
  hf : findIdent ((defsOfLib sc i.li).map (·.data)) i.cellSp = some i.di
  target : ∃ d' dv, (defsOfLib sc i.li)[i.di]? = some d' ∧ viewIdentOf d'.data = some dv ∧ lower dv = lower i.viewSp
  homit : i.libOmit = true → i.li = sc.libs.length

theorem foldlM_contents_AInsts (sc : Scope) (insts : List AInst) (hn : namesOKB (insts.map (·.name)) = true)
    (hps : ∀ i ∈ insts, ∀ p ∈ i.props, p.okB = true) (hres : ∀ i ∈ insts, i.ResolvesIn sc) :
    ∃ yss : List (List SExp), insts.map AInst.sexp = yss.map SExp.list ∧
      ∀ (st : CellSt), st.insts = [] →
        yss.foldlM (contentsItem sc) st = .ok { st with insts := insts.map AInst.elab } := by
  have key : ∀ (rest done : List AInst), insts = done ++ rest →
      ∃ yss : List (List SExp), rest.map AInst.sexp = yss.map SExp.list ∧
        ∀ (st : CellSt), st.insts = done.map AInst.elab →
          yss.foldlM (contentsItem sc) st = .ok { st with insts := (done ++ rest).map AInst.elab } := by
    intro rest
    induction rest with
    | nil => intro done _; exact ⟨[], rfl, by intro st hst; simp [pure, Except.pure, ← hst]⟩
    | cons i r ih =>
      intro done hsplit
      have him : i ∈ insts := by rw [hsplit]; simp
      have hin : i.name.okB = true := namesOKB_ok _ hn _ (List.mem_map_of_mem him)
      have hr := hres i him
      obtain ⟨d', dv, hd', hview, hdv⟩ := hr.target
      obtain ⟨body, hb, hparse⟩ := parseInstance_AInst sc i hin (hps i him) d' dv hr.hvv hr.hvd hr.hvl hr.hres hr.hf
        hd' hview hdv hr.homit
      obtain ⟨yss, hyss, hfold⟩ := ih (done ++ [i]) (by simp [hsplit])
      refine ⟨(A "instance" :: body) :: yss, by simp [hb, hyss], ?_⟩
      intro st hst
      have hh : headIs (A "instance" :: body) "instance" = true := by rw [headIs_cons]; decide
      have hfresh := namesOKB_fresh _ hn (done.map (·.name)) (r.map (·.name)) i.name (by simp [hsplit])
      have hconf : conflicts (st.insts.map (·.data)) i.elab.data = false := by
        apply conflicts_false_of_names _ _ _ _ (identOf_AInst_elab i) (nameOf_AInst_elab i)
        intro s hs
        rw [hst, List.map_map] at hs
        obtain ⟨q, hq, rfl⟩ := List.mem_map.mp hs
        have := hfresh q.name (List.mem_map_of_mem hq)
        exact ⟨_, _, identOf_AInst_elab q, nameOf_AInst_elab q, this.1, this.2⟩
      have hstep : contentsItem sc st (A "instance" :: body) = .ok { st with insts := st.insts ++ [i.elab] } := by
        simp only [contentsItem, hh, if_true, hparse, addRetry_fresh _ _ hconf, bind, Except.bind, pure, Except.pure]
      simp only [List.foldlM_cons, hstep, bind, Except.bind]
      have := hfold { st with insts := st.insts ++ [i.elab] } (by simp [hst])
      simpa using this
  obtain ⟨yss, h1, h2⟩ := key insts [] rfl
  exact ⟨yss, h1, fun st hst => by simpa using h2 st (by simpa using hst)⟩

/-! ### the cell -/

def ACell.data (c : ACell) : Data :=
  (((withName [] c.name.ident c.name.name).set kCELLTYPE (.str (S "celltype"))).set kVIEWID (.str c.view)).set
    kVIEWTYPE (.str (S "viewtype"))

/-- the definition the reader builds for a cell of an abstract design -/
def ACell.elab (c : ACell) : CDef :=
  { data := c.data, ports := c.ports.map APort.elab, cables := (c.nets.map ANet.item).foldl netStep [],
    insts := c.insts.map AInst.elab }

/-- the reader's view of the cell while it reads the nets -/
def ACell.ctx (sc : Scope) (c : ACell) : DefCtx :=
  { sc := sc, ports := c.ports.map APort.elab, insts := c.insts.map AInst.elab }

/-- what a cell needs of the scope it is read in -/
structure ACell.OKIn (sc : Scope) (c : ACell) : Prop where
  name : c.name.okB = true
  view : checkEdifIdentifier c.view = true
  portNames : namesOKB (c.ports.map (·.name)) = true
  ports : ∀ p ∈ c.ports, p.okB = true
  instNames : namesOKB (c.insts.map (·.name)) = true
  props : ∀ i ∈ c.insts, ∀ p ∈ i.props, p.okB = true
  insts : ∀ i ∈ c.insts, i.ResolvesIn sc
  nets : netsOKB c.nets = true
  pins : ∀ n ∈ c.nets, ∀ pin ∈ n.pins, pin.Resolves (c.ctx sc)
  nodup : (c.nets.flatMap fun n => n.pins.map APin.pin).Nodup

theorem nameDef_atom (m : Meta) (v : Str) (rest : List SExp) :
    nameDef m (.atom v :: rest) = (do
      let ident ← identOfS (.atom v)
      let m ← setAttr (m.push "identifier") (.str ident)
      pure (m.pop, rest)) := rfl

/-- **one cell**: the `(cell …)` of an abstract design, read in a scope where its references resolve,
    is the definition `ACell.elab` -/
theorem parseCell_ACell (sc : Scope) (c : ACell) (h : c.OKIn sc) :
    ∃ ys, c.sexp = .list ys ∧ parseCell sc ys = .ok c.elab := by
  refine ⟨_, rfl, ?_⟩
  obtain ⟨pyss, hp1, hpf⟩ := foldlM_iface_APorts c.ports h.portNames h.ports
  obtain ⟨iyss, hi1, hif⟩ := foldlM_contents_AInsts sc c.insts h.instNames h.props h.insts
  have hkinds : ∀ n ∈ c.nets, n.kind.okB = true := by
    have := h.nets
    simp only [netsOKB, Bool.and_eq_true, List.all_eq_true] at this
    exact this.1.1.1
  have hwf := netsWF_of_okB c.nets h.nets
  -- the states of the cell while the view is read
  have hports := hpf { m := ⟨c.data, [S "EDIF", S "view"]⟩ } false rfl
  have hinsts := hif ({ m := ⟨c.data, [S "EDIF", S "view"]⟩, ports := c.ports.map APort.elab } : CellSt) rfl
  obtain ⟨nyss, hn1, hnf⟩ := foldlM_contents_ANets sc c.nets
    ({ m := ⟨c.data, [S "EDIF", S "view"]⟩, ports := c.ports.map APort.elab, insts := c.insts.map AInst.elab } : CellSt)
    hkinds h.pins
  have hnfold : nyss.foldlM (contentsItem sc)
      ({ m := ⟨c.data, [S "EDIF", S "view"]⟩, ports := c.ports.map APort.elab, insts := c.insts.map AInst.elab } : CellSt) =
      .ok ({ m := ⟨c.data, [S "EDIF", S "view"]⟩, ports := c.ports.map APort.elab, insts := c.insts.map AInst.elab,
             cables := (c.nets.map ANet.item).foldl netStep [] } : CellSt) := by
    rw [hnf]
    have := foldlM_multibitAdd (c.nets.map ANet.item) hwf [] (c.nets.map ANet.item) [] rfl (by intro x hx; cases hx)
    show (List.foldlM (fun cs it => multibitAdd cs it.data it.pins) [] (c.nets.map ANet.item) >>= _) = _
    rw [this]
    rfl
  have hcontents : (iyss ++ nyss).foldlM (contentsItem sc)
      ({ m := ⟨c.data, [S "EDIF", S "view"]⟩, ports := c.ports.map APort.elab } : CellSt) =
      .ok ({ m := ⟨c.data, [S "EDIF", S "view"]⟩, ports := c.ports.map APort.elab, insts := c.insts.map AInst.elab,
             cables := (c.nets.map ANet.item).foldl netStep [] } : CellSt) := by
    rw [List.foldlM_append, hinsts]
    simp only [bind, Except.bind]
    exact hnfold
  simp only [ACell.data] at hports hcontents
  have hdup : hasDupPin ((c.nets.map ANet.item).foldl netStep []) = false := hasDupPin_nets c.nets h.nodup
  have hflat : c.insts.map AInst.sexp ++ c.nets.map ANet.sexp = (iyss ++ nyss).map SExp.list := by
    simp [hi1, hn1]
  have hvv := validIdentTok_of_check c.view h.view
  have hk : isKw (A "celltype") "celltype" = true := by decide
  have ht : (["generic", "tie", "ripper"].any (isKw (A "GENERIC"))) = true := by decide
  have hat : atomText (A "celltype") = S "celltype" := rfl
  have hne1 : joinDot [S "EDIF", S "cellType"] ≠ S "EDIF.original_identifier" := by decide
  have hne2 : joinDot [S "EDIF", S "cellType"] ≠ kIDENT := by decide
  have hv : ∀ xs, headIs (A "view" :: xs) "view" = true := by intro xs; rw [headIs_cons]; decide
  have hs : ∀ xs, headIs (A "view" :: xs) "status" = false := by intro xs; rw [headIs_cons]; decide
  have hk2 : isKw (A "viewtype") "viewtype" = true := by decide
  have ht2 : (viewTypes.any (isKw (A "NETLIST"))) = true := by decide
  have hi : ∀ xs, headIs (A "interface" :: xs) "interface" = true := by intro xs; rw [headIs_cons]; decide
  have hat2 : atomText (A "viewtype") = S "viewtype" := rfl
  have hne3 : joinDot [S "EDIF", S "view", S "identifier"] ≠ S "EDIF.original_identifier" := by decide
  have hne4 : joinDot [S "EDIF", S "view", S "identifier"] ≠ kIDENT := by decide
  have hne5 : joinDot [S "EDIF", S "view", S "viewType"] ≠ S "EDIF.original_identifier" := by decide
  have hne6 : joinDot [S "EDIF", S "view", S "viewType"] ≠ kIDENT := by decide
  have hc1 : ∀ xs, headIs (A "contents" :: xs) "status" = false := by intro xs; rw [headIs_cons]; decide
  have hc2 : ∀ xs, headIs (A "contents" :: xs) "contents" = true := by intro xs; rw [headIs_cons]; decide
  cases hemp : (c.insts.isEmpty && c.nets.isEmpty) with
  | false =>
    simp only [ACell.contentsSexp, hemp, Bool.false_eq_true, if_false,
      parseCell, List.tail_cons, nameDef_AName_new c.name h.name, hk, ht, Bool.not_true,
      push_mk, pop_mk, List.cons_append, List.nil_append, List.dropLast, hat,
      setAttr_plain _ _ _ hne1 hne2, joinDot_celltype, loopC, cellItem, hs, hv, if_true, parseView, nameDef_atom,
      identOfS_atom c.view hvv, setAttr_plain _ _ _ hne3 hne4, hk2, ht2, hat2, setAttr_plain _ _ _ hne5 hne6,
      joinDot_viewid, joinDot_viewtype, hi, hp1, loopC_lists_nil, hports, viewItem, hc1, hc2, hflat, hcontents, hdup,
      endC, bind, Except.bind, pure, Except.pure, ACell.elab, ACell.data]
  | true =>
    simp only [Bool.and_eq_true, List.isEmpty_iff] at hemp
    simp only [ACell.contentsSexp, hemp.1, hemp.2, List.isEmpty_nil, Bool.and_self, if_true,
      parseCell, List.tail_cons, nameDef_AName_new c.name h.name, hk, ht, Bool.not_true,
      Bool.false_eq_true, if_false, push_mk, pop_mk, List.cons_append, List.nil_append, List.dropLast, hat,
      setAttr_plain _ _ _ hne1 hne2, joinDot_celltype, loopC, cellItem, hs, hv, parseView, nameDef_atom,
      identOfS_atom c.view hvv, setAttr_plain _ _ _ hne3 hne4, hk2, ht2, hat2, setAttr_plain _ _ _ hne5 hne6,
      joinDot_viewid, joinDot_viewtype, hi, hp1, loopC_lists_nil, hports,
      endC, bind, Except.bind, pure, Except.pure, ACell.elab, ACell.data, List.map_nil, List.foldl_nil]

theorem identOf_ACell_data (c : ACell) : identOf c.data = some c.name.ident := by
  have h1 : kIDENT ≠ kCELLTYPE := by decide
  have h2 : kIDENT ≠ kVIEWID := by decide
  have h3 : kIDENT ≠ kVIEWTYPE := by decide
  simp only [ACell.data, identOf, Data.getStr?, Data.get?_set_other _ _ _ _ h1, Data.get?_set_other _ _ _ _ h2,
    Data.get?_set_other _ _ _ _ h3]
  have := identOf_withName [] c.name.ident c.name.name
  simpa [identOf, Data.getStr?] using this

theorem nameOf_ACell_data (c : ACell) : nameOf c.data = some c.name.name := by
  have h1 : kNAME ≠ kCELLTYPE := by decide
  have h2 : kNAME ≠ kVIEWID := by decide
  have h3 : kNAME ≠ kVIEWTYPE := by decide
  simp only [ACell.data, nameOf, Data.getStr?, Data.get?_set_other _ _ _ _ h1, Data.get?_set_other _ _ _ _ h2,
    Data.get?_set_other _ _ _ _ h3]
  have := nameOf_withName [] c.name.ident c.name.name
  simpa [nameOf, Data.getStr?] using this

theorem viewIdentOf_ACell_data (c : ACell) : viewIdentOf c.data = some c.view := by
  have h3 : kVIEWID ≠ kVIEWTYPE := by decide
  simp [ACell.data, viewIdentOf, Data.getStr?, Data.get?_set_other _ _ _ _ h3, Data.get?_set_self,
    show S "EDIF.view.identifier" = kVIEWID from rfl]

end Spydr.Edif
