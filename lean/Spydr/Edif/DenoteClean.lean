/-
  The s-expression `render` emits for a well-formed abstract design is clean (plain words, strings
  without double quote / line break): `lex_layout` applies to its text.
-/
import Spydr.Edif.DenoteWF
import Spydr.Edif.LemmasClean
namespace Spydr.Edif

theorem cleanL_map {α : Type} (xs : List α) (f : α → SExp) (h : ∀ x ∈ xs, (f x).clean) : cleanL (xs.map f) :=
  cleanL_of_forall _ (by
    intro y hy
    obtain ⟨x, hx, rfl⟩ := List.mem_map.mp hy
    exact h x hx)

theorem AName.sexp_clean (a : AName) (h : a.okB = true) : a.sexp.clean := by
  have hc := a.okB_id h
  have hs := a.okB_str h
  obtain ⟨i, o⟩ := a
  cases o with
  | none => exact clean_ident i hc
  | some o =>
    simp only [AName.name] at hs
    exact clean_list _ ⟨by kw, clean_ident i hc, clean_qtok o hs, trivial⟩

theorem AProp.sexp_clean (p : AProp) (h : p.okB = true) : p.sexp.clean := by
  simp only [AProp.okB, Bool.and_eq_true] at h
  refine clean_list _ ⟨by kw, p.name.sexp_clean h.1, ?_, trivial⟩
  obtain ⟨nm, v⟩ := p
  cases v with
  | str s => exact clean_list _ ⟨by kw, clean_qtok s (by simpa using h.2), trivial⟩
  | int i => exact clean_list _ ⟨by kw, clean_intStr i, trivial⟩
  | bool b => cases b <;> exact clean_list _ ⟨by kw, clean_list _ ⟨by kw, trivial⟩, trivial⟩

theorem dirSexp_clean (d : Dir) : cleanL (dirSexp d) := by
  cases d with
  | undefined => trivial
  | inout => exact ⟨clean_list _ ⟨by kw, by kw, trivial⟩, trivial⟩
  | inp => exact ⟨clean_list _ ⟨by kw, by kw, trivial⟩, trivial⟩
  | out => exact ⟨clean_list _ ⟨by kw, by kw, trivial⟩, trivial⟩

theorem APort.sexp_clean (p : APort) (h : p.name.okB = true) : p.sexp.clean := by
  obtain ⟨nm, dir, arr⟩ := p
  cases arr with
  | none => exact clean_list _ ⟨by kw, nm.sexp_clean h, dirSexp_clean dir⟩
  | some k =>
    exact clean_list _ ⟨by kw, clean_list _ ⟨by kw, nm.sexp_clean h, clean_natStr k, trivial⟩, dirSexp_clean dir⟩

theorem AInst.sexp_clean (i : AInst) (hn : i.name.okB = true) (h1 : checkEdifIdentifier i.viewSp = true)
    (h2 : checkEdifIdentifier i.cellSp = true) (h3 : checkEdifIdentifier i.libSp = true)
    (hp : ∀ p ∈ i.props, p.okB = true) : i.sexp.clean := by
  have hcr : i.cellRefSexp.clean := by
    unfold AInst.cellRefSexp
    cases i.libOmit with
    | false =>
      exact clean_list _ ⟨by kw, clean_ident _ h2, clean_list _ ⟨by kw, clean_ident _ h3, trivial⟩, trivial⟩
    | true => exact clean_list _ ⟨by kw, clean_ident _ h2, trivial⟩
  exact clean_list _ ⟨by kw, i.name.sexp_clean hn,
    clean_list _ ⟨by kw, clean_ident _ h1, hcr, trivial⟩,
    cleanL_map _ _ (fun p hpm => p.sexp_clean (hp p hpm))⟩

/-- the spellings a pin reference uses are legal identifiers -/
def APin.SpOK : APin → Prop
  | .port _ _ sp => checkEdifIdentifier sp = true
  | .inst _ _ _ sp isp => checkEdifIdentifier sp = true ∧ checkEdifIdentifier isp = true

theorem APin.spOK_of_okB (d : ADesign) (c : ACell) (pin : APin) (h : pin.okB d c = true) : pin.SpOK := by
  cases pin with
  | port pi b sp =>
    simp only [APin.okB] at h
    cases hp : c.ports[pi]? with
    | none => rw [hp] at h; cases h
    | some p =>
      rw [hp] at h
      simp only [Bool.and_eq_true] at h
      exact spellsB_id _ _ h.1
  | inst ii pi b sp isp =>
    simp only [APin.okB] at h
    cases hi : c.insts[ii]? with
    | none => rw [hi] at h; cases h
    | some i =>
      rw [hi] at h
      simp only [Bool.and_eq_true] at h
      obtain ⟨hisp, hrest⟩ := h
      cases hc : cellAt d i.li i.di with
      | none => rw [hc] at hrest; cases hrest
      | some lc =>
        obtain ⟨tl, rc⟩ := lc
        rw [hc] at hrest
        simp only at hrest
        cases hp : rc.ports[pi]? with
        | none => rw [hp] at hrest; cases hrest
        | some p =>
          rw [hp] at hrest
          simp only [Bool.and_eq_true] at hrest
          exact ⟨spellsB_id _ _ hrest.1, spellsB_id _ _ hisp⟩

theorem APin.sexp_clean (pin : APin) (h : pin.SpOK) : pin.sexp.clean := by
  cases pin with
  | port pi b sp =>
    cases b with
    | none => exact clean_list _ ⟨by kw, clean_ident _ h, trivial⟩
    | some k => exact clean_list _ ⟨by kw, clean_list _ ⟨by kw, clean_ident _ h, clean_natStr k, trivial⟩, trivial⟩
  | inst ii pi b sp isp =>
    cases b with
    | none => exact clean_list _ ⟨by kw, clean_ident _ h.1, clean_list _ ⟨by kw, clean_ident _ h.2, trivial⟩, trivial⟩
    | some k =>
      exact clean_list _ ⟨by kw, clean_list _ ⟨by kw, clean_ident _ h.1, clean_natStr k, trivial⟩,
        clean_list _ ⟨by kw, clean_ident _ h.2, trivial⟩, trivial⟩

theorem ANetKind.sexp_clean (k : ANetKind) (h : k.okB = true) : k.sexp.clean := by
  cases k with
  | scalar a =>
    simp only [ANetKind.okB, Bool.and_eq_true] at h
    exact a.sexp_clean h.1.1
  | bit bi bn i j =>
    simp only [ANetKind.okB, Bool.and_eq_true] at h
    exact clean_list _ ⟨by kw, clean_ident _ h.2, clean_qtok _ h.1.1.1.2, trivial⟩

theorem ANet.sexp_clean (n : ANet) (hk : n.kind.okB = true) (hp : ∀ pin ∈ n.pins, pin.SpOK) : n.sexp.clean :=
  clean_list _ ⟨by kw, n.kind.sexp_clean hk,
    clean_list _ ⟨by kw, cleanL_map _ _ (fun pin hpm => pin.sexp_clean (hp pin hpm))⟩, trivial⟩

theorem ACell.sexp_clean (d : ADesign) (L D : Nat) (c : ACell) (hn : c.name.okB = true) (h : CellParts d L D c) :
    c.sexp.clean := by
  have hkinds : ∀ n ∈ c.nets, n.kind.okB = true := by
    have := h.nets
    simp only [netsOKB, Bool.and_eq_true, List.all_eq_true] at this
    exact this.1.1.1
  have hcont : cleanL c.contentsSexp → c.sexp.clean := fun hcs =>
    clean_list _ ⟨by kw, c.name.sexp_clean hn, clean_list _ ⟨by kw, by kw, trivial⟩,
      clean_list _ ⟨by kw, clean_ident _ h.view, clean_list _ ⟨by kw, by kw, trivial⟩,
        clean_list _ ⟨by kw, cleanL_map _ _ (fun p hp => p.sexp_clean (namesOKB_ok _ h.portNames _ (List.mem_map_of_mem hp)))⟩,
        hcs⟩, trivial⟩
  apply hcont
  unfold ACell.contentsSexp
  split
  · trivial
  show cleanL [SExp.list (A "contents" :: (c.insts.map AInst.sexp ++ c.nets.map ANet.sexp))]
  refine ⟨clean_list _ ⟨by kw, cleanL_append _ _ (cleanL_map _ _ ?_) (cleanL_map _ _ ?_)⟩, trivial⟩
  · intro i hi
    have hin := namesOKB_ok _ h.instNames _ (List.mem_map_of_mem hi)
    have hiok := h.insts i hi
    simp only [AInst.okB, Bool.and_eq_true, List.all_eq_true] at hiok
    obtain ⟨⟨⟨_, hsp⟩, hps⟩, _⟩ := hiok
    cases hc : cellAt d i.li i.di with
    | none => rw [hc] at hsp; cases hsp
    | some lc =>
      obtain ⟨tl, tc⟩ := lc
      rw [hc] at hsp
      simp only [Bool.and_eq_true] at hsp
      exact i.sexp_clean hin (spellsB_id _ _ hsp.2) (spellsB_id _ _ hsp.1.1) (spellsB_id _ _ hsp.1.2) hps
  · intro n hn'
    exact n.sexp_clean (hkinds n hn') (fun pin hp => pin.spOK_of_okB d c (h.pins n hn' pin hp))

theorem ALib.sexp_clean (d : ADesign) (hw : WFParts d) (L : Nat) (l : ALib) (hl : d.libs[L]? = some l) :
    l.sexp.clean := by
  have hlok := hw.libs L l hl
  have hln : l.name.okB = true := namesOKB_ok _ hw.libNames _ (List.mem_map_of_mem (List.mem_of_getElem? hl))
  have hkw : (A (if l.external then "external" else "library")).clean := by
    cases l.external
    · exact (by kw)
    · exact (by kw)
  unfold ALib.sexp
  refine clean_list _ ⟨hkw, l.name.sexp_clean hln, clean_list _ ⟨by kw, by kw, trivial⟩,
    clean_list _ ⟨by kw, clean_list _ ⟨by kw, trivial⟩, trivial⟩, cleanL_map _ _ ?_⟩
  intro c hc
  obtain ⟨D, hD, rfl⟩ := List.getElem_of_mem hc
  have hget : l.cells[D]? = some l.cells[D] := List.getElem?_eq_getElem hD
  exact ACell.sexp_clean d L D _ (namesOKB_ok _ (lib_cellNames d L l hlok) _ (List.mem_map_of_mem hc))
    (cellParts d L D _ (lib_cell d L l hlok D _ hget))

/-- the s-expression of a well-formed abstract design is clean -/
theorem render_clean (d : ADesign) (h : d.wf = true) : (render d).clean := by
  have hw := wfParts d h
  obtain ⟨l, c, _, _, hcs, hls⟩ := hw.target
  refine clean_list _ ⟨by kw, d.name.sexp_clean hw.name, clean_list _ ⟨by kw, by kw, by kw, by kw, trivial⟩,
    clean_list _ ⟨by kw, by kw, trivial⟩, clean_list _ ⟨by kw, clean_list _ ⟨by kw, by kw, trivial⟩, trivial⟩,
    cleanL_append _ _ (cleanL_map _ _ ?_) ⟨clean_list _ ⟨by kw, d.top.sexp_clean hw.top,
      clean_list _ ⟨by kw, clean_ident _ (spellsB_id _ _ hcs), clean_list _ ⟨by kw, clean_ident _ (spellsB_id _ _ hls), trivial⟩,
        trivial⟩, trivial⟩, trivial⟩⟩
  intro l' hl'
  obtain ⟨L, hL, rfl⟩ := List.getElem_of_mem hl'
  exact ALib.sexp_clean d hw L _ (List.getElem?_eq_getElem hL)

end Spydr.Edif
