/-
  Towards `WFNet (ADesign.elab d)`: what each cable of an elaborated cell is, and where its pins come from.
-/
import Spydr.Edif.DenoteWF
import Spydr.Edif.Closure
namespace Spydr.Edif

/-- the facts about one cable the reader ends with: the first net of its name, the identifier and
    kind it carries, its extent -/
def CableAt (nets : List ANet) (c : CCable) : Prop :=
  ∃ n0 ∈ nets, nameOf c.data = some n0.cname ∧ identOf c.data = some n0.item.ident ∧
    c.scalarFlag = n0.item.idx.isNone ∧
    (match n0.kind with
     | .scalar _ => c.lower = 0 ∧ c.wires = [n0.pins.map APin.pin]
     | .bit _ bn _ _ => c.wires ≠ [] ∧ c.lower ∈ (busBits bn nets).map (·.1) ∧
         ∃ x ∈ (busBits bn nets).map (·.1), c.lower + c.wires.length = x + 1)

theorem cable_at (nets : List ANet) (h : netsOKB nets = true) :
    ∀ c ∈ (nets.map ANet.item).foldl netStep [], CableAt nets c := by
  have hwf := netsWF_of_okB nets h
  obtain ⟨hN, hC⟩ := cabInv_all (nets.map ANet.item) hwf
  have hbits : ∀ n ∈ nets, ((busBits n.cname nets).map (·.1)).Nodup := by
    simp only [netsOKB, Bool.and_eq_true, List.all_eq_true, decide_eq_true_eq] at h
    exact h.2
  have hfold := foldlM_multibitAdd (nets.map ANet.item) hwf [] (nets.map ANet.item) [] rfl (by intro c hc; cases hc)
  obtain ⟨cs', hcs', hany⟩ := nets_any_order (nets.map ANet.item) hwf
  rw [hfold] at hcs'
  have hcs'' : (nets.map ANet.item).foldl netStep [] = cs' := Except.ok.inj hcs'
  subst hcs''
  generalize hcs : (nets.map ANet.item).foldl netStep [] = cs at *
  intro c hc
  obtain ⟨k, hk, rfl⟩ := List.getElem_of_mem hc
  obtain ⟨it, hit, hi1, hi2, hi3⟩ := hC.info cs[k] (List.getElem_mem hk)
  obtain ⟨n1, hn1, rfl⟩ := List.mem_map.mp hit
  rw [item_name] at hi1
  have hbus := busOf_at cs k hk n1.cname hi1 hN.nodup
  cases hfind : nets.find? (fun n => n.cname == n1.cname) with
  | none =>
    have := List.find?_eq_none.mp hfind n1 hn1
    simp at this
  | some n0 =>
    have hn0 : n0 ∈ nets := List.mem_of_find?_eq_some hfind
    have hn0name : n0.cname = n1.cname := by
      have := List.find?_some hfind
      simpa using this
    have hsame := hwf.same n0.item (List.mem_map_of_mem hn0) n1.item hit (by rw [item_name, item_name, hn0name])
    have hident : identOf cs[k].data = some n0.item.ident := by rw [hi2, hsame.1]
    have hflag : cs[k].scalarFlag = n0.item.idx.isNone := by
      rw [hi3]
      have := hsame.2
      cases h0 : n0.item.idx <;> cases h1' : n1.item.idx <;> simp [h0, h1'] at this ⊢
    refine ⟨n0, hn0, by rw [hn0name]; exact hi1, hident, hflag, ?_⟩
    obtain ⟨kind, pins⟩ := n0
    cases kind with
    | scalar a =>
      have hanm : a.name = n1.cname := hn0name
      have hs := scalar_survives (nets.map ANet.item) hwf (ANet.item ⟨.scalar a, pins⟩) (List.mem_map_of_mem hn0) rfl
      rw [hcs] at hs
      have hs' : busOf n1.cname cs = some ⟨0, [pins.map APin.pin]⟩ := by
        rw [← hanm]; exact hs
      rw [hbus] at hs'
      have := Option.some.inj hs'
      exact ⟨congrArg Bus.lo this, congrArg Bus.ws this⟩
    | bit bi bn i j =>
      have hbn : bn = n1.cname := hn0name
      have hnd : ((bitsOf bn (nets.map ANet.item)).map (·.1)).Nodup := by
        rw [bitsOf_items]; exact hbits _ hn0
      obtain ⟨c, hc, hne, _, _, hlo, _, hhi⟩ :=
        hany (ANet.item ⟨.bit bi bn i j, pins⟩) (List.mem_map_of_mem hn0) i rfl hnd
      have hc' : busOf bn cs = some c := hc
      rw [hbn, hbus] at hc'
      have hcl : c.lo = cs[k].lower := by have := Option.some.inj hc'; exact (congrArg Bus.lo this).symm
      have hcw : c.ws = cs[k].wires := by have := Option.some.inj hc'; exact (congrArg Bus.ws this).symm
      have hbits'' : bitsOf (ANet.item ⟨.bit bi bn i j, pins⟩).name (nets.map ANet.item) = busBits bn nets := bitsOf_items bn nets
      rw [hbits''] at hlo hhi
      simp only [hcl, hcw] at hne hlo hhi
      exact ⟨hne, hlo, hhi⟩

/-- every pin on a wire of the assembled cables is a pin some net of the text joins -/
theorem pin_of_assembled (nets : List ANet) (pin : CPin)
    (h : pin ∈ ((nets.map ANet.item).foldl netStep []).flatMap (fun c => c.wires.flatten)) :
    ∃ n ∈ nets, ∃ ap ∈ n.pins, ap.pin = pin := by
  have hp := pins_foldl_perm (nets.map ANet.item) []
  simp only [List.flatMap_nil, List.nil_append] at hp
  have := hp.mem_iff.mp h
  rw [List.mem_flatMap] at this
  obtain ⟨it, hit, hpin⟩ := this
  obtain ⟨n, hn, rfl⟩ := List.mem_map.mp hit
  rw [item_pins] at hpin
  obtain ⟨ap, hap, rfl⟩ := List.mem_map.mp hpin
  exact ⟨n, hn, ap, hap, rfl⟩

/-! ### bit names and bit identifiers inside the range of a bus -/

theorem natStr_no_space (n : Nat) : ∀ c ∈ natStr n, c ≠ ' ' := by
  intro c hc e
  subst e
  have := natStr_digits n _ hc
  exact absurd this (by decide)

theorem natStr_stringChars (n : Nat) : (natStr n).all isStringChar = true := by
  rw [List.all_eq_true]
  intro c hc
  have hd := natStr_digits n c hc
  simp only [isStringChar, Bool.and_eq_true, bne_iff_ne, ne_eq]
  refine ⟨⟨?_, ?_⟩, ?_⟩ <;> (intro e; subst e; exact absurd hd (by decide))

theorem mem_bitName (bn : Str) (j : Nat) (c : Char) :
    c ∈ bitName bn j ↔ c ∈ bn ∨ c = '[' ∨ c ∈ natStr j ∨ c = ']' := by
  simp [bitName]

theorem mem_bitIdent (bi : Str) (j : Nat) (c : Char) :
    c ∈ bitIdent bi j ↔ c ∈ bi ∨ c = '_' ∨ c ∈ natStr j ∨ c = '_' := by
  simp [bitIdent]

theorem bitName_stringChars (bn : Str) (i j : Nat) (h : (bitName bn i).all isStringChar = true) :
    (bitName bn j).all isStringChar = true := by
  rw [List.all_eq_true] at h ⊢
  intro c hc
  rcases (mem_bitName bn j c).mp hc with h1 | rfl | h1 | rfl
  · exact h c ((mem_bitName bn i c).mpr (Or.inl h1))
  · decide
  · exact List.all_eq_true.mp (natStr_stringChars j) c h1
  · decide

theorem name_stringChars_of_bit (bn : Str) (i : Nat) (h : (bitName bn i).all isStringChar = true) :
    bn.all isStringChar = true := by
  rw [List.all_eq_true] at h ⊢
  intro c hc
  exact h c ((mem_bitName bn i c).mpr (Or.inl hc))

theorem filter_space_bitName (bn : Str) (j : Nat) :
    ((bitName bn j).filter (· == ' ')).length = (bn.filter (· == ' ')).length := by
  have h1 : (natStr j).filter (· == ' ') = [] := by
    rw [List.filter_eq_nil_iff]
    intro c hc
    simpa using natStr_no_space j c hc
  simp [bitName, List.filter_append, h1]

theorem getLast_bitName (bn : Str) (k : Nat) : (bitName bn k).getLast? = some ']' := by
  have : bitName bn k = (bn ++ '[' :: natStr k) ++ [']'] := by simp [bitName]
  rw [this, List.getLast?_concat]

theorem bracketAllowed_bitName (bn : Str) (i j : Nat) (h : bracketAllowed (bitName bn i) = true) :
    bracketAllowed (bitName bn j) = true := by
  cases bn with
  | nil =>
    simp only [bitName, List.nil_append, bracketAllowed] at h ⊢
    simpa using h
  | cons c r =>
    have hhead : ∀ k, ∃ t, bitName (c :: r) k = c :: t := fun k => ⟨_, rfl⟩
    obtain ⟨ti, hti⟩ := hhead i
    obtain ⟨tj, htj⟩ := hhead j
    have hi := filter_space_bitName (c :: r) i
    have hj := filter_space_bitName (c :: r) j
    have li := getLast_bitName (c :: r) i
    have lj := getLast_bitName (c :: r) j
    rw [hti] at h hi li
    rw [htj] at hj lj ⊢
    simp only [bracketAllowed] at h ⊢
    rw [hj, lj]
    rw [hi, li] at h
    exact h

theorem natStr_length_mono (j x : Nat) (h : j ≤ x) : (natStr j).length ≤ (natStr x).length := by
  have hx : 0 < (natStr x).length := Nat.length_toDigits_pos
  have key : ∀ n k : Nat, 0 < k → ((natStr n).length ≤ k ↔ n < 10 ^ k) :=
    fun n k hk => Nat.length_toDigits_le_iff (b := 10) (by decide) hk
  have h2 := (key x _ hx).mp (Nat.le_refl _)
  exact (key j _ hx).mpr (by omega)

theorem natStr_idChars (n : Nat) : (natStr n).all isIdChar = true := by
  rw [List.all_eq_true]
  intro c hc
  have hd := natStr_digits n c hc
  simp [isIdChar, hd]

theorem bitIdent_idChars (bi : Str) (x j : Nat) (h : ∀ c ∈ bitIdent bi x, isIdChar c = true) :
    ∀ c ∈ bitIdent bi j, isIdChar c = true := by
  intro c hc
  rcases (mem_bitIdent bi j c).mp hc with h1 | rfl | h1 | rfl
  · exact h c ((mem_bitIdent bi x c).mpr (Or.inl h1))
  · decide
  · exact List.all_eq_true.mp (natStr_idChars j) c h1
  · decide

theorem bitIdent_check (bi : Str) (x j : Nat) (hjx : j ≤ x) (h : checkEdifIdentifier (bitIdent bi x) = true) :
    checkEdifIdentifier (bitIdent bi j) = true := by
  have hlen := natStr_length_mono j x hjx
  have hlen' : (bitIdent bi j).length ≤ (bitIdent bi x).length := by
    simp only [bitIdent, List.length_append, List.length_cons, List.length_nil]; omega
  cases bi with
  | nil =>
    exfalso
    have : bitIdent [] x = '_' :: (natStr x ++ ['_']) := rfl
    rw [this] at h
    simp [checkEdifIdentifier] at h
    exact absurd h.1.2 (by decide)
  | cons c r =>
    have hx : bitIdent (c :: r) x = c :: (r ++ '_' :: natStr x ++ ['_']) := by simp [bitIdent]
    have hj : bitIdent (c :: r) j = c :: (r ++ '_' :: natStr j ++ ['_']) := by simp [bitIdent]
    by_cases hc : c = '&'
    · subst hc
      have hall := bitIdent_idChars ('&' :: r) x j
      rw [hx] at h hlen' hall
      rw [hj] at hlen' hall ⊢
      simp only [checkEdifIdentifier, Bool.and_eq_true, decide_eq_true_eq, List.all_eq_true] at h ⊢
      refine ⟨⟨?_, by omega⟩, ?_⟩
      · simp only [List.length_cons, List.length_append]; omega
      · intro ch hch
        by_cases hamp : ch = '&'
        · subst hamp
          -- an ampersand inside the tail would have to be inside `r`
          have : '&' ∈ r := by
            simp only [List.mem_append, List.mem_cons] at hch
            rcases hch with (h1 | h1 | h1) | h1
            · exact h1
            · exact absurd h1 (by decide)
            · exact absurd (natStr_digits j _ h1) (by decide)
            · simp at h1
          exact h.2 _ (by simp [this])
        · have hmem : ch ∈ '&' :: (r ++ '_' :: natStr j ++ ['_']) := List.mem_cons_of_mem _ hch
          by_cases hin : ch ∈ r
          · exact h.2 _ (by simp [hin])
          · simp only [List.mem_append, List.mem_cons] at hch
            rcases hch with (h1 | h1 | h1) | h1
            · exact absurd h1 hin
            · subst h1; decide
            · exact List.all_eq_true.mp (natStr_idChars j) _ h1
            · simp at h1; subst h1; decide
    · have hsplit : ∀ t : Str, checkEdifIdentifier (c :: t) =
          (decide ((c :: t).length ≤ 255) && isAsciiAlpha c && (c :: t).all isIdChar) := by
        intro t
        unfold checkEdifIdentifier
        split
        · rename_i heq; cases heq
        · rename_i r' heq
          simp only [List.cons.injEq] at heq
          exact absurd heq.1 hc
        · rename_i c' r' _ heq
          simp only [List.cons.injEq] at heq
          obtain ⟨rfl, rfl⟩ := heq
          rfl
      have hall := bitIdent_idChars (c :: r) x j
      rw [hx] at h hlen' hall
      rw [hj] at hlen' hall ⊢
      rw [hsplit] at h ⊢
      simp only [Bool.and_eq_true, decide_eq_true_eq, List.all_eq_true] at h ⊢
      exact ⟨⟨by omega, h.1.2⟩, hall h.2⟩

end Spydr.Edif
