/-
  The netlist the reader builds for a well-formed abstract design is inside C03's quantifier
  (`WFNet`): the writer can write it back and the reader reads that back to the same view.
-/
import Spydr.Edif.DenoteClosure1
import Spydr.Edif.DenoteView
namespace Spydr.Edif

/-! ### names and siblings -/

theorem namedOK_elab (D : Data) (a : AName) (ha : a.okB = true) (hi : identOf D = some a.ident)
    (hn : nameOf D = some a.name) : NamedOK D (idOf D) (nmOf D) := by
  rw [idOf_of_identOf _ _ hi, nmOf_of_nameOf _ _ hn]
  exact ⟨hi, a.okB_id ha, get?_of_getStr? _ _ _ hn, a.okB_str ha⟩

theorem distinct_elab {α : Type} (f : α → Data) (nm : α → AName) (xs : List α)
    (hid : ∀ x, identOf (f x) = some (nm x).ident) (hnm : ∀ x, nameOf (f x) = some (nm x).name)
    (h : namesOKB (xs.map nm) = true) : Distinct (xs.map f) := by
  simp only [namesOKB, Bool.and_eq_true, List.all_eq_true, decide_eq_true_eq] at h
  obtain ⟨⟨_, h1⟩, h2⟩ := h
  have p1 : xs.Pairwise (fun a b => lower (nm a).ident ≠ lower (nm b).ident) := by
    have := h1
    simp only [List.Nodup, List.pairwise_map] at this
    exact this
  have p2 : xs.Pairwise (fun a b => (nm a).name ≠ (nm b).name) := by
    have := h2
    simp only [List.Nodup, List.pairwise_map] at this
    exact this
  unfold Distinct
  rw [List.pairwise_map]
  refine (p2.and p1).imp ?_
  intro a b ⟨q2, q1⟩
  rw [nmOf_of_nameOf _ _ (hnm a), nmOf_of_nameOf _ _ (hnm b), idOf_of_identOf _ _ (hid a), idOf_of_identOf _ _ (hid b)]
  exact ⟨q2, q1⟩

/-! ### ports -/

theorem APort_elab_isArray (p : APort) : p.elab.isArray = p.array.isSome := by
  have := view05Port_elab p
  simp only [view05Port, APort.den] at this
  exact congrArg V05Port.array this

theorem portWF_elab (p : APort) (hn : p.name.okB = true) (hk : p.okB = true) : PortWF p.elab := by
  refine ⟨namedOK_elab _ p.name hn (identOf_APort_elab p) (nameOf_APort_elab p), ?_, ?_⟩
  · show 1 ≤ p.width
    obtain ⟨nm, dir, arr⟩ := p
    cases arr with
    | none => simp [APort.width]
    | some k => simpa [APort.okB, APort.width] using hk
  · intro ha
    rw [APort_elab_isArray] at ha
    show p.width = 1
    obtain ⟨nm, dir, arr⟩ := p
    cases arr with
    | none => rfl
    | some k => simp at ha

/-! ### the libraries of the elaborated design -/

def elabLibs (d : ADesign) : List CLib := d.libs.map ALib.elab

theorem elabLibs_get (d : ADesign) (L : Nat) (l : ALib) (h : d.libs[L]? = some l) : (elabLibs d)[L]? = some l.elab := by
  simp [elabLibs, List.getElem?_map, h]

theorem elab_defs_get (l : ALib) (D : Nat) (c : ACell) (h : l.cells[D]? = some c) : l.elab.defs[D]? = some c.elab := by
  simp [ALib.elab, List.getElem?_map, h]

theorem mem_elabLibs (d : ADesign) (l : CLib) (h : l ∈ elabLibs d) : ∃ (L : Nat) (l0 : ALib), d.libs[L]? = some l0 ∧ l = l0.elab := by
  obtain ⟨l0, hl0, rfl⟩ := List.mem_map.mp h
  obtain ⟨L, hL, rfl⟩ := List.getElem_of_mem hl0
  exact ⟨L, _, List.getElem?_eq_getElem hL, rfl⟩

theorem mem_elab_defs (l : ALib) (dd : CDef) (h : dd ∈ l.elab.defs) : ∃ (D : Nat) (c : ACell), l.cells[D]? = some c ∧ dd = c.elab := by
  obtain ⟨c, hc, rfl⟩ := List.mem_map.mp h
  obtain ⟨D, hD, rfl⟩ := List.getElem_of_mem hc
  exact ⟨D, _, List.getElem?_eq_getElem hD, rfl⟩

theorem netNames_elab (d : ADesign) (hw : WFParts d) : NetNames (elabLibs d) := by
  refine ⟨?_, ?_, ?_, ?_, ?_, ?_⟩
  · intro l hl
    obtain ⟨L, l0, hl0, rfl⟩ := mem_elabLibs d l hl
    exact namedOK_elab _ l0.name (namesOKB_ok _ hw.libNames _ (List.mem_map_of_mem (List.mem_of_getElem? hl0)))
      (identOf_ALib_data l0) (nameOf_ALib_data l0)
  · show Distinct ((d.libs.map ALib.elab).map (·.data))
    rw [List.map_map]
    exact distinct_elab (fun x : ALib => x.elab.data) (·.name) d.libs identOf_ALib_data nameOf_ALib_data hw.libNames
  · intro l hl dd hdd
    obtain ⟨L, l0, hl0, rfl⟩ := mem_elabLibs d l hl
    obtain ⟨D, c, hc, rfl⟩ := mem_elab_defs l0 dd hdd
    exact namedOK_elab _ c.name (namesOKB_ok _ (lib_cellNames d L l0 (hw.libs L l0 hl0)) _
      (List.mem_map_of_mem (List.mem_of_getElem? hc))) (identOf_ACell_data c) (nameOf_ACell_data c)
  · intro l hl
    obtain ⟨L, l0, hl0, rfl⟩ := mem_elabLibs d l hl
    show Distinct ((l0.cells.map ACell.elab).map (·.data))
    rw [List.map_map]
    exact distinct_elab (fun x : ACell => x.elab.data) (·.name) l0.cells identOf_ACell_data nameOf_ACell_data
      (lib_cellNames d L l0 (hw.libs L l0 hl0))
  · intro l hl dd hdd p hp
    obtain ⟨L, l0, hl0, rfl⟩ := mem_elabLibs d l hl
    obtain ⟨D, c, hc, rfl⟩ := mem_elab_defs l0 dd hdd
    have hcp := cellParts d L D c (lib_cell d L l0 (hw.libs L l0 hl0) D c hc)
    obtain ⟨p0, hp0, rfl⟩ := List.mem_map.mp hp
    exact portWF_elab p0 (namesOKB_ok _ hcp.portNames _ (List.mem_map_of_mem hp0)) (hcp.ports p0 hp0)
  · intro l hl dd hdd
    obtain ⟨L, l0, hl0, rfl⟩ := mem_elabLibs d l hl
    obtain ⟨D, c, hc, rfl⟩ := mem_elab_defs l0 dd hdd
    have hcp := cellParts d L D c (lib_cell d L l0 (hw.libs L l0 hl0) D c hc)
    show Distinct ((c.ports.map APort.elab).map (·.data))
    rw [List.map_map]
    exact distinct_elab (fun x : APort => x.elab.data) (·.name) c.ports identOf_APort_elab nameOf_APort_elab hcp.portNames

/-! ### instances -/

theorem instWF_elab (d : ADesign) (L D : Nat) (i : AInst) (hn : i.name.okB = true) (h : i.okB d L D = true) :
    InstWF (elabLibs d) L D i.elab := by
  simp only [AInst.okB, Bool.and_eq_true, List.all_eq_true] at h
  obtain ⟨⟨⟨hb, hsp⟩, hps⟩, _⟩ := h
  refine ⟨namedOK_elab _ i.name hn (identOf_AInst_elab i) (nameOf_AInst_elab i), ?_, ?_⟩
  · cases hc : cellAt d i.li i.di with
    | none => rw [hc] at hsp; cases hsp
    | some lc =>
      obtain ⟨tl, tc⟩ := lc
      obtain ⟨htl, htc⟩ := (cellAt_some d _ _ tl tc).mp hc
      exact ⟨i.li, i.di, tl.elab, tc.elab, rfl, elabLibs_get d _ _ htl, elab_defs_get tl _ _ htc, before_of_B _ _ _ _ hb⟩
  · have hne1 : kPROPS ≠ kNAME := by decide
    have hne2 : kPROPS ≠ kIDENT := by decide
    have hbase : (withName [] i.name.ident i.name.name).get? kPROPS = none := by
      rw [get?_withName_other _ _ _ _ hne1 hne2]; rfl
    cases hpl : i.props with
    | nil =>
      left
      simp only [AInst.elab, readInst, hpl, List.map_nil, withProps]
      exact hbase
    | cons a r =>
      right
      refine ⟨(i.props.map AProp.t).map PropT.obj, ?_, ?_⟩
      · simp only [AInst.elab, readInst, hpl, List.map_cons, withProps, Data.get?_set_self]
      · intro v hv
        obtain ⟨t, ht, rfl⟩ := List.mem_map.mp hv
        obtain ⟨p, hp, rfl⟩ := List.mem_map.mp ht
        exact ⟨p.t, decodeProp_obj_inv p.t, p.propOK (hps p hp)⟩

/-! ### pins -/

theorem pinWF_elab (d : ADesign) (c : ACell) (ap : APin) (h : ap.okB d c = true) :
    PinWF (elabLibs d) c.elab ap.pin := by
  cases ap with
  | port pi b sp =>
    simp only [APin.okB] at h
    cases hp : c.ports[pi]? with
    | none => rw [hp] at h; cases h
    | some p =>
      rw [hp] at h
      simp only [Bool.and_eq_true, decide_eq_true_eq] at h
      refine ⟨p.elab, by simp [ACell.elab, List.getElem?_map, hp], h.2, ?_⟩
      intro ha
      rw [APort_elab_isArray] at ha
      have hw : p.width = 1 := by
        obtain ⟨nm, dir, arr⟩ := p
        cases arr with
        | none => rfl
        | some k => simp at ha
      have := h.2
      show b.getD 0 = 0
      omega
  | inst ii pi b sp isp =>
    simp only [APin.okB] at h
    cases hi : c.insts[ii]? with
    | none => rw [hi] at h; cases h
    | some i =>
      rw [hi] at h
      simp only [Bool.and_eq_true] at h
      obtain ⟨_, hrest⟩ := h
      cases hc : cellAt d i.li i.di with
      | none => rw [hc] at hrest; cases hrest
      | some lc =>
        obtain ⟨tl, rc⟩ := lc
        rw [hc] at hrest
        simp only at hrest
        cases hp : rc.ports[pi]? with
        | none => rw [hp] at hrest; cases hrest
        | some p =>
          rw [hp] at hrest
          simp only [Bool.and_eq_true, decide_eq_true_eq] at hrest
          obtain ⟨htl, hrc⟩ := (cellAt_some d _ _ tl rc).mp hc
          refine ⟨i.elab, i.li, i.di, tl.elab, rc.elab, p.elab, by simp [ACell.elab, List.getElem?_map, hi], rfl,
            elabLibs_get d _ _ htl, elab_defs_get tl _ _ hrc, by simp [ACell.elab, List.getElem?_map, hp], hrest.2, ?_⟩
          intro ha
          rw [APort_elab_isArray] at ha
          have hw : p.width = 1 := by
            obtain ⟨nm, dir, arr⟩ := p
            cases arr with
            | none => rfl
            | some k => simp at ha
          have := hrest.2
          show b.getD 0 = 0
          omega

/-! ### cables -/

theorem kind_okB_of_nets (nets : List ANet) (h : netsOKB nets = true) : ∀ n ∈ nets, n.kind.okB = true := by
  simp only [netsOKB, Bool.and_eq_true, List.all_eq_true] at h
  exact h.1.1.1

/-- the bit nets of a bus all carry the identifier of the first one -/
theorem busBits_mem (nm : Str) (nets : List ANet) (x : Nat) (h : x ∈ (busBits nm nets).map (·.1)) :
    ∃ n ∈ nets, ∃ bi j, n.kind = .bit bi nm x j := by
  obtain ⟨b, hb, rfl⟩ := List.mem_map.mp h
  unfold busBits at hb
  rw [List.mem_filterMap] at hb
  obtain ⟨n, hn, hnb⟩ := hb
  obtain ⟨kind, pins⟩ := n
  cases kind with
  | scalar a => simp at hnb
  | bit bi bn i j =>
    simp only at hnb
    by_cases hbn : bn = nm
    · subst hbn
      simp only [if_true, Option.some.injEq] at hnb
      subst hnb
      exact ⟨_, hn, bi, j, rfl⟩
    · simp [hbn] at hnb

theorem cableWF_elab (d : ADesign) (L D : Nat) (c : ACell) (hcp : CellParts d L D c) (cab : CCable)
    (hcab : cab ∈ c.elab.cables) : CableWF (elabLibs d) c.elab cab := by
  have hwf := netsWF_of_okB c.nets hcp.nets
  have hk := kind_okB_of_nets c.nets hcp.nets
  obtain ⟨n0, hn0, hname, hident, hflag, hext⟩ := cable_at c.nets hcp.nets cab hcab
  have hkn0 := hk n0 hn0
  have hnm : nmOf cab.data = n0.cname := nmOf_of_nameOf _ _ hname
  have hid : idOf cab.data = n0.item.ident := idOf_of_identOf _ _ hident
  have hpins : ∀ w ∈ cab.wires, ∀ pin ∈ w, PinWF (elabLibs d) c.elab pin := by
    intro w hw pin hp
    have hmem : pin ∈ ((c.nets.map ANet.item).foldl netStep []).flatMap (fun c => c.wires.flatten) := by
      rw [List.mem_flatMap]
      exact ⟨cab, hcab, List.mem_flatten.mpr ⟨w, hw, hp⟩⟩
    obtain ⟨n, hn, ap, hap, rfl⟩ := pin_of_assembled c.nets pin hmem
    exact pinWF_elab d c ap (hcp.pins n hn ap hap)
  obtain ⟨kind, pins⟩ := n0
  cases kind with
  | scalar a =>
    simp only [ANetKind.okB, Bool.and_eq_true, Option.isNone_iff_eq_none, Bool.not_eq_true', List.isEmpty_eq_false_iff] at hkn0
    obtain ⟨hl, hw⟩ := hext
    have hf : cab.scalarFlag = true := hflag
    have hnotarr : cab.isArray = false := by simp [CCable.isArray, CCable.isScalar, hw, hf]
    refine ⟨?_, by rw [hw]; simp, hpins, ?_, ?_⟩
    · rw [hnm, hid]
      exact ⟨hident, a.okB_id hkn0.1.1, get?_of_getStr? _ _ _ hname, a.okB_str hkn0.1.1⟩
    · intro _ _
      rw [hnm]
      exact ⟨hkn0.1.2, hkn0.2⟩
    · intro hnot
      exact absurd ⟨by rw [hw]; rfl, hnotarr⟩ hnot
  | bit bi bn i j =>
    simp only [ANetKind.okB, Bool.and_eq_true, Bool.not_eq_true', List.isEmpty_eq_false_iff] at hkn0
    obtain ⟨hne, hlo, xh, hxh, hxe⟩ := hext
    have hf : cab.scalarFlag = false := hflag
    have harr : cab.isArray = true := by simp [CCable.isArray, CCable.isScalar, hf]
    have hnm' : nmOf cab.data = bn := hnm
    have hid' : idOf cab.data = bi := hid
    refine ⟨?_, hne, hpins, ?_, ?_⟩
    · rw [hnm', hid']
      exact ⟨hident, hkn0.1.1.1.1.1, get?_of_getStr? _ _ _ hname, name_stringChars_of_bit bn i hkn0.1.1.1.2⟩
    · intro _ ha
      rw [harr] at ha; cases ha
    · intro _ k hklt
      rw [hnm', hid']
      -- the greatest declared index of the bus
      obtain ⟨nx, hnx, bix, jx, hkx⟩ := busBits_mem bn c.nets xh hxh
      have hsame := hwf.same nx.item (List.mem_map_of_mem hnx) (ANet.item ⟨.bit bi bn i j, pins⟩) (List.mem_map_of_mem hn0)
        (by rw [item_name, item_name]; simp [ANet.cname, hkx, ANetKind.key])
      have hbix : bix = bi := by
        have := hsame.1
        rw [item_ident, item_ident] at this
        simpa [hkx, ANetKind.key] using this
      have hkx' := hk nx hnx
      rw [hkx, hbix] at hkx'
      simp only [ANetKind.okB, Bool.and_eq_true, Bool.not_eq_true', List.isEmpty_eq_false_iff] at hkx'
      have hle : k + cab.lower ≤ xh := by omega
      exact ⟨bracketAllowed_bitName bn i _ hkn0.1.1.2, bitIdent_check bi xh _ hle hkx'.1.1.1.1.2,
        bitName_stringChars bn i _ hkn0.1.1.1.2⟩

/-! ### cells, the netlist -/

theorem cableDistinct_elab (c : ACell) (h : netsOKB c.nets = true) : Distinct (c.elab.cables.map (·.data)) := by
  have hwf := netsWF_of_okB c.nets h
  obtain ⟨hN, hC⟩ := cabInv_all (c.nets.map ANet.item) hwf
  show Distinct (((c.nets.map ANet.item).foldl netStep []).map (·.data))
  generalize (c.nets.map ANet.item).foldl netStep [] = cs at hN hC
  unfold Distinct
  rw [List.pairwise_map, List.pairwise_iff_getElem]
  intro i j hi hj hij
  obtain ⟨a, ha, a1, a2, _⟩ := hC.info cs[i] (List.getElem_mem hi)
  obtain ⟨b, hb, b1, b2, _⟩ := hC.info cs[j] (List.getElem_mem hj)
  have hne : nameOf cs[i].data ≠ nameOf cs[j].data := by
    have := List.pairwise_iff_getElem.mp hN.nodup i j (by simpa [cableNames] using hi) (by simpa [cableNames] using hj) hij
    simpa [cableNames] using this
  have hnab : a.name ≠ b.name := by
    intro e; apply hne; rw [a1, b1, e]
  rw [nmOf_of_nameOf _ _ a1, nmOf_of_nameOf _ _ b1, idOf_of_identOf _ _ a2, idOf_of_identOf _ _ b2]
  exact ⟨hnab, hwf.diff a ha b hb hnab⟩

theorem cellWF_elab (d : ADesign) (L D : Nat) (c : ACell) (hcp : CellParts d L D c) :
    CellWF (elabLibs d) L D c.elab := by
  refine ⟨?_, ?_, ?_, cableDistinct_elab c hcp.nets, ?_⟩
  · intro i hi
    obtain ⟨i0, hi0, rfl⟩ := List.mem_map.mp hi
    exact instWF_elab d L D i0 (namesOKB_ok _ hcp.instNames _ (List.mem_map_of_mem hi0)) (hcp.insts i0 hi0)
  · show Distinct ((c.insts.map AInst.elab).map (·.data))
    rw [List.map_map]
    exact distinct_elab (fun x : AInst => x.elab.data) (·.name) c.insts identOf_AInst_elab nameOf_AInst_elab hcp.instNames
  · intro cab hcab
    exact cableWF_elab d L D c hcp cab hcab
  · have hp := pins_foldl_perm (c.nets.map ANet.item) []
    simp only [List.flatMap_nil, List.nil_append] at hp
    show (((c.nets.map ANet.item).foldl netStep []).flatMap fun c => c.wires.flatten).Nodup
    rw [hp.nodup_iff]
    have e : (c.nets.map ANet.item).flatMap (·.pins) = c.nets.flatMap fun n => n.pins.map APin.pin := by
      rw [List.flatMap_map]
      congr 1
      funext n
      exact item_pins n
    rw [e]
    exact hcp.nodup

/-- **the netlist the reader builds for a well-formed abstract design is inside C03's quantifier** -/
theorem wfNet_elab (d : ADesign) (h : d.wf = true) :
    WFNet d.elab none none (readTop d.top.ident d.top.name d.topLi d.topDi) d.topLi d.topDi := by
  have hw := wfParts d h
  obtain ⟨l, c, hl, hc, _, _⟩ := hw.target
  have hne : kNAME ≠ kVERSION := by decide
  have hne2 : kIDENT ≠ kVERSION := by decide
  have e1 : nameOf d.elab.data = some d.name.name := by
    have := nameOf_withName [] d.name.ident d.name.name
    simp only [nameOf, Data.getStr?, ADesign.elab, ADesign.data] at *
    rw [Data.get?_set_other _ _ _ _ hne]; exact this
  have e2 : identOf d.elab.data = some d.name.ident := by
    have := identOf_withName [] d.name.ident d.name.name
    simp only [identOf, Data.getStr?, ADesign.elab, ADesign.data] at *
    rw [Data.get?_set_other _ _ _ _ hne2]; exact this
  refine ⟨netNames_elab d hw, ?_, namedOK_elab _ d.name hw.name e2 e1, ?_, rfl,
    namedOK_elab _ d.top hw.top (identOf_readTop _ _ _ _) (nameOf_readTop _ _ _ _), rfl,
    ⟨l.elab, c.elab, elabLibs_get d _ _ hl, elab_defs_get l _ _ hc⟩⟩
  · intro L l' hl' D dd hdd
    have hl'' : (elabLibs d)[L]? = some l' := hl'
    simp only [elabLibs, List.getElem?_map] at hl''
    cases hl0 : d.libs[L]? with
    | none => rw [hl0] at hl''; cases hl''
    | some l0 =>
      rw [hl0] at hl''
      cases hl''
      simp only [ALib.elab, List.getElem?_map] at hdd
      cases hc0 : l0.cells[D]? with
      | none => rw [hc0] at hdd; cases hdd
      | some c0 =>
        rw [hc0] at hdd
        cases hdd
        exact cellWF_elab d L D c0 (cellParts d L D c0 (lib_cell d L l0 (hw.libs L l0 hl0) D c0 hc0))
  · have n1 : kPROG ≠ kVERSION := by decide
    have n2 : kPROG ≠ kNAME := by decide
    have n3 : kPROG ≠ kIDENT := by decide
    refine ⟨?_, (by intro h; cases h), (by intro p hp; cases hp), (by intro v hv; cases hv)⟩
    show d.data.get? kPROG = none
    simp only [ADesign.data]
    rw [Data.get?_set_other _ _ _ _ n1, get?_withName_other _ _ _ _ n2 n3]
    rfl

theorem scalarLower0_elab (d : ADesign) (h : d.wf = true) : ScalarLower0 d.elab := by
  have hw := wfParts d h
  intro l hl dd hdd cab hcab hlen harr
  obtain ⟨L, l0, hl0, rfl⟩ := mem_elabLibs d l hl
  obtain ⟨D, c, hc, rfl⟩ := mem_elab_defs l0 dd hdd
  have hcp := cellParts d L D c (lib_cell d L l0 (hw.libs L l0 hl0) D c hc)
  obtain ⟨n0, hn0, _, _, hflag, hext⟩ := cable_at c.nets hcp.nets cab hcab
  obtain ⟨kind, pins⟩ := n0
  cases kind with
  | scalar a => exact hext.1
  | bit bi bn i j =>
    have hf : cab.scalarFlag = false := hflag
    simp [CCable.isArray, CCable.isScalar, hf] at harr

end Spydr.Edif
