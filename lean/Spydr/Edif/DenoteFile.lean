/-
  Libraries, the design construct and the whole file of an abstract design through the reader, in closed
  form (`ADesign.elab`), under explicit per-cell hypotheses (`ACell.OKIn` in the scope the reader has
  when it reaches the cell).
-/
import Spydr.Edif.DenoteCell
namespace Spydr.Edif

/-! ### libraries -/

/-- the dictionary a library starts with: `(external …)` is recorded before the name is read -/
def ALib.base (l : ALib) : Data := if l.external then [(S "EDIF.external", .bool true)] else []

def ALib.kw (l : ALib) : String := if l.external then "external" else "library"

def ALib.data (l : ALib) : Data := withName l.base l.name.ident l.name.name

def ALib.elab (l : ALib) : CLib := { data := l.data, defs := l.cells.map ACell.elab }

/-- the reader's scope when it reaches cell number `D` of library `l`, the libraries `rlibs` read -/
def cellScope (rlibs : List CLib) (l : ALib) (D : Nat) : Scope :=
  { libs := rlibs, curLib := l.data, curDefs := (l.cells.take D).map ACell.elab }

theorem foldlM_lib_ACells (rlibs : List CLib) (l : ALib) (hn : namesOKB (l.cells.map (·.name)) = true)
    (hcells : ∀ (D : Nat) (c : ACell), l.cells[D]? = some c → c.OKIn (cellScope rlibs l D)) :
    ∃ yss : List (List SExp), l.cells.map ACell.sexp = yss.map SExp.list ∧
      ∀ (st : LibSt), st.m = { data := l.data, pfx := [S "EDIF"] } → st.defs = [] →
        yss.foldlM (libItem rlibs) st = .ok { st with defs := l.cells.map ACell.elab } := by
  have key : ∀ (rest done : List ACell), l.cells = done ++ rest →
      ∃ yss : List (List SExp), rest.map ACell.sexp = yss.map SExp.list ∧
        ∀ (st : LibSt), st.m = { data := l.data, pfx := [S "EDIF"] } → st.defs = done.map ACell.elab →
          yss.foldlM (libItem rlibs) st = .ok { st with defs := (done ++ rest).map ACell.elab } := by
    intro rest
    induction rest with
    | nil => intro done _; exact ⟨[], rfl, by intro st _ hst; simp [pure, Except.pure, ← hst]⟩
    | cons c r ih =>
      intro done hsplit
      have hget : l.cells[done.length]? = some c := by rw [hsplit]; simp
      have hok := hcells _ _ hget
      have hsc : cellScope rlibs l done.length =
          { libs := rlibs, curLib := l.data, curDefs := done.map ACell.elab } := by
        simp [cellScope, hsplit]
      rw [hsc] at hok
      obtain ⟨ys, hys, hparse⟩ := parseCell_ACell _ c hok
      obtain ⟨yss, hyss, hfold⟩ := ih (done ++ [c]) (by simp [hsplit])
      refine ⟨ys :: yss, by simp [hys, hyss], ?_⟩
      intro st hm hst
      have hys' : ∃ t, ys = A "cell" :: t := by
        simp only [ACell.sexp, SExp.list.injEq] at hys
        exact ⟨_, hys.symm⟩
      obtain ⟨t, ht⟩ := hys'
      have h1 : headIs ys "status" = false := by rw [ht, headIs_cons]; decide
      have h2 : headIs ys "cell" = true := by rw [ht, headIs_cons]; decide
      have hfresh := namesOKB_fresh _ hn (done.map (·.name)) (r.map (·.name)) c.name (by simp [hsplit])
      have hconf : conflicts (st.defs.map (·.data)) c.elab.data = false := by
        apply conflicts_false_of_names _ _ _ _ (identOf_ACell_data c) (nameOf_ACell_data c)
        intro s hs
        rw [hst, List.map_map] at hs
        obtain ⟨q, hq, rfl⟩ := List.mem_map.mp hs
        have := hfresh q.name (List.mem_map_of_mem hq)
        exact ⟨_, _, identOf_ACell_data q, nameOf_ACell_data q, this.1, this.2⟩
      have hparse' : parseCell { libs := rlibs, curLib := st.m.data, curDefs := st.defs } ys = .ok c.elab := by
        rw [hm, hst]; exact hparse
      have hstep : libItem rlibs st ys = .ok { st with defs := st.defs ++ [c.elab] } := by
        simp only [libItem, h1, h2, Bool.false_eq_true, if_false, if_true, hparse', addRetry_fresh _ _ hconf, bind,
          Except.bind, pure, Except.pure]
      simp only [List.foldlM_cons, hstep, bind, Except.bind]
      have := hfold { st with defs := st.defs ++ [c.elab] } hm (by simp [hst])
      simpa using this
  obtain ⟨yss, h1, h2⟩ := key l.cells [] rfl
  exact ⟨yss, h1, fun st hm hst => by simpa using h2 st hm (by simpa using hst)⟩

/-- **one library** -/
theorem parseLibrary_ALib (rlibs : List CLib) (l : ALib) (hname : l.name.okB = true)
    (hn : namesOKB (l.cells.map (·.name)) = true)
    (hcells : ∀ (D : Nat) (c : ACell), l.cells[D]? = some c → c.OKIn (cellScope rlibs l D)) :
    ∃ t, l.sexp = .list (A l.kw :: t) ∧ parseLibrary rlibs l.external (A l.kw :: t) = .ok l.elab := by
  refine ⟨_, rfl, ?_⟩
  have hbase : l.base.has kNAME = false := by
    unfold ALib.base; cases l.external <;> decide
  have hm0 : (if l.external = true then { Meta.new with data := [(S "EDIF.external", Val.bool true)] } else Meta.new) =
      { data := l.base, pfx := [S "EDIF"] } := by
    unfold ALib.base Meta.new; cases l.external <;> rfl
  obtain ⟨yss, hw, hf⟩ := foldlM_lib_ACells rlibs l hn hcells
  have hl : isKw (A "edifLevel") "ediflevel" = true := by decide
  have ht : isKw (A "technology") "technology" = true := by decide
  have hnd : headIs [A "numberDefinition"] "numberdefinition" = true := by rw [headIs_cons]; decide
  have hfold := hf { m := { data := l.data, pfx := [S "EDIF"] } } rfl rfl
  simp only [ALib.data] at hfold
  simp only [parseLibrary, hm0, List.tail_cons, nameDef_AName l.name hname l.base _ hbase,
    levelOf_zero _ "edifLevel" "ediflevel" "edifLevel" hl, ht, hnd, Bool.not_true, Bool.false_eq_true, if_false, hw,
    loopC_lists_nil, hfold, endC, bind, Except.bind, pure, Except.pure, ALib.elab, ALib.data]

theorem identOf_ALib_data (l : ALib) : identOf l.elab.data = some l.name.ident := identOf_withName _ _ _
theorem nameOf_ALib_data (l : ALib) : nameOf l.elab.data = some l.name.name := nameOf_withName _ _ _

/-! ### the library list of the file -/

theorem foldlM_body_ALibs (libs : List ALib) (hn : namesOKB (libs.map (·.name)) = true)
    (hlibs : ∀ (L : Nat) (l : ALib), libs[L]? = some l → namesOKB (l.cells.map (·.name)) = true ∧
      ∀ (D : Nat) (c : ACell), l.cells[D]? = some c → c.OKIn (cellScope ((libs.take L).map ALib.elab) l D)) :
    ∃ yss : List (List SExp), libs.map ALib.sexp = yss.map SExp.list ∧
      ∀ (st : BodySt), st.libs = [] → yss.foldlM bodyItem st = .ok { st with libs := libs.map ALib.elab } := by
  have key : ∀ (rest done : List ALib), libs = done ++ rest →
      ∃ yss : List (List SExp), rest.map ALib.sexp = yss.map SExp.list ∧
        ∀ (st : BodySt), st.libs = done.map ALib.elab →
          yss.foldlM bodyItem st = .ok { st with libs := (done ++ rest).map ALib.elab } := by
    intro rest
    induction rest with
    | nil => intro done _; exact ⟨[], rfl, by intro st hst; simp [pure, Except.pure, ← hst]⟩
    | cons l r ih =>
      intro done hsplit
      have hget : libs[done.length]? = some l := by rw [hsplit]; simp
      have hlm : l ∈ libs := by rw [hsplit]; simp
      have hln : l.name.okB = true := namesOKB_ok _ hn _ (List.mem_map_of_mem hlm)
      obtain ⟨hcn, hcells⟩ := hlibs _ _ hget
      have htake : (libs.take done.length).map ALib.elab = done.map ALib.elab := by simp [hsplit]
      rw [htake] at hcells
      obtain ⟨t, hys, hparse⟩ := parseLibrary_ALib (done.map ALib.elab) l hln hcn hcells
      obtain ⟨yss, hyss, hfold⟩ := ih (done ++ [l]) (by simp [hsplit])
      refine ⟨(A l.kw :: t) :: yss, by simp [hys, hyss], ?_⟩
      intro st hst
      have h1 : headIs (A l.kw :: t) "status" = false := by rw [headIs_cons]; unfold ALib.kw; cases l.external <;> decide
      have h2 : (headIs (A l.kw :: t) "library" || l.external) = true := by
        rw [headIs_cons]; unfold ALib.kw; cases l.external <;> decide
      have h3 : headIs (A l.kw :: t) "external" = l.external := by
        rw [headIs_cons]; unfold ALib.kw; cases l.external <;> decide
      have hfresh := namesOKB_fresh _ hn (done.map (·.name)) (r.map (·.name)) l.name (by simp [hsplit])
      have hconf : conflicts (st.libs.map (·.data)) l.elab.data = false := by
        apply conflicts_false_of_names _ _ _ _ (identOf_ALib_data l) (nameOf_ALib_data l)
        intro s hs
        rw [hst, List.map_map] at hs
        obtain ⟨q, hq, rfl⟩ := List.mem_map.mp hs
        have := hfresh q.name (List.mem_map_of_mem hq)
        exact ⟨_, _, identOf_ALib_data q, nameOf_ALib_data q, this.1, this.2⟩
      have hparse' : parseLibrary st.libs l.external (A l.kw :: t) = .ok l.elab := by rw [hst]; exact hparse
      have hstep : bodyItem st (A l.kw :: t) = .ok { st with libs := st.libs ++ [l.elab] } := by
        simp only [bodyItem, h1, h2, h3, Bool.false_eq_true, if_false, if_true, hparse', hconf, bind,
          Except.bind, pure, Except.pure]
      simp only [List.foldlM_cons, hstep, bind, Except.bind]
      have := hfold { st with libs := st.libs ++ [l.elab] } (by simp [hst])
      simpa using this
  obtain ⟨yss, h1, h2⟩ := key libs [] rfl
  exact ⟨yss, h1, fun st hst => by simpa using h2 st (by simpa using hst)⟩

/-! ### the design construct -/

theorem parseDesign_ADesign (rlibs : List CLib) (top : AName) (csp lsp : Str) (li di : Nat) (l' : CLib)
    (hn : top.okB = true) (hvd : validIdentTok csp = true) (hvl : validIdentTok lsp = true)
    (hfl : findIdent (rlibs.map (·.data)) lsp = some li) (hl : rlibs[li]? = some l')
    (hfd : findIdent (l'.defs.map (·.data)) csp = some di) :
    parseDesign rlibs [A "design", top.sexp, .list [A "cellRef", .atom csp, .list [A "libraryRef", .atom lsp]]] =
      .ok (readTop top.ident top.name li di) := by
  have hc := top.okB_id hn
  have hs := top.okB_str hn
  have hv := validIdentTok_of_check top.ident hc
  obtain ⟨ident, orig⟩ := top
  cases orig with
  | none =>
    have hself : Data.set (Data.set [] kNAME (.str ident)) kIDENT (.str ident) = withName [] ident ident := by
      unfold withName
      symm
      apply Data.set_of_get?
      rw [Data.get?_set_other _ _ _ _ kNAME_ne_kIDENT, Data.get?_set_self]
    show parseDesign rlibs [A "design", .atom ident,
      .list [.atom "cellRef".toList, .atom csp, .list [.atom "libraryRef".toList, .atom lsp]]] = _
    simp only [parseDesign, List.tail_cons, Meta.new, identOfS, hv, if_true, push_mk, List.cons_append, List.nil_append,
      setAttr_ident [] ident hc rfl, pop_mk, List.dropLast, hvd, hvl, Bool.and_self, Bool.not_true,
      Bool.false_eq_true, if_false, hfl, hl, hfd, readTop, bind, Except.bind, pure, Except.pure, hself, AName.name]
  | some o =>
    simp only [AName.name] at hs
    have hr := parseRename_ok [] ident o hc hs rfl
    show parseDesign rlibs [A "design", .list [A "rename", .atom ident, qtok o],
      .list [.atom "cellRef".toList, .atom csp, .list [.atom "libraryRef".toList, .atom lsp]]] = _
    simp only [parseDesign, List.tail_cons, Meta.new, hr, hvd, hvl, Bool.and_self, Bool.not_true, Bool.false_eq_true,
      if_false, hfl, hl, hfd, readTop, bind, Except.bind, pure, Except.pure, AName.name]

/-! ### the file -/

def ADesign.data (d : ADesign) : Data :=
  (withName [] d.name.ident d.name.name).set kVERSION (.list [.int 2, .int 0, .int 0])

/-- the netlist the reader builds for an abstract design -/
def ADesign.elab (d : ADesign) : CNetlist :=
  { data := d.data, libs := d.libs.map ALib.elab, top := some (readTop d.top.ident d.top.name d.topLi d.topDi) }

/-- what the file-level statement needs: names, per-cell hypotheses in the reader's scope, the design's
    target -/
structure ADesign.OK (d : ADesign) : Prop where
  name : d.name.okB = true
  top : d.top.okB = true
  libNames : namesOKB (d.libs.map (·.name)) = true
  libs : ∀ (L : Nat) (l : ALib), d.libs[L]? = some l → namesOKB (l.cells.map (·.name)) = true ∧
    ∀ (D : Nat) (c : ACell), l.cells[D]? = some c → c.OKIn (cellScope ((d.libs.take L).map ALib.elab) l D)
  hvd : validIdentTok d.topCellSp = true
  hvl : validIdentTok d.topLibSp = true
  target : ∃ l', findIdent ((d.libs.map ALib.elab).map (·.data)) d.topLibSp = some d.topLi ∧
    (d.libs.map ALib.elab)[d.topLi]? = some l' ∧
    findIdent (l'.defs.map (·.data)) d.topCellSp = some d.topDi

theorem ofSExp_render (d : ADesign) (h : d.OK) : ofSExp (render d) = .ok d.elab := by
  obtain ⟨yss, hw, hlf⟩ := foldlM_body_ALibs d.libs h.libNames h.libs
  obtain ⟨l', hfl, hl', hfd⟩ := h.target
  have hdes := parseDesign_ADesign (d.libs.map ALib.elab) d.top d.topCellSp d.topLibSp d.topLi d.topDi l' h.top h.hvd
    h.hvl hfl hl' hfd
  have he : ∀ xs, headIs (A "edif" :: xs) "edif" = true := by intro xs; rw [headIs_cons]; decide
  have hv : ∀ xs, headIs (A "edifVersion" :: xs) "edifversion" = true := by intro xs; rw [headIs_cons]; decide
  have hkm : isKw (A "keywordMap") "keywordmap" = true := by decide
  have hl1 : isKw (A "edifLevel") "ediflevel" = true := by decide
  have hl2 : isKw (A "keywordLevel") "keywordlevel" = true := by decide
  have hd1 : ∀ xs, headIs (A "design" :: xs) "status" = false := by intro xs; rw [headIs_cons]; decide
  have hd2 : ∀ xs, headIs (A "design" :: xs) "library" = false := by intro xs; rw [headIs_cons]; decide
  have hd3 : ∀ xs, headIs (A "design" :: xs) "external" = false := by intro xs; rw [headIs_cons]; decide
  have hd4 : ∀ xs, headIs (A "design" :: xs) "design" = true := by intro xs; rw [headIs_cons]; decide
  have nv1 : kVERSION ≠ S "EDIF.original_identifier" := by decide
  have nv2 : kVERSION ≠ kIDENT := by decide
  have hbody := loopC_lists bodyItem
  simp only [render, ofSExp, he, Bool.not_true, Bool.false_eq_true, if_false, List.tail_cons,
    nameDef_AName_new d.name h.name, hv, intsOf_200, List.length_cons, List.length_nil, push_mk, pop_mk, List.dropLast,
    setAttr_key _ _ kVERSION _ joinDot_version nv1 nv2, levelOf_zero _ "edifLevel" "ediflevel" "edifLevel" hl1, hkm,
    levelOf_zero _ "keywordLevel" "keywordlevel" "keywordLevel" hl2, bind, Except.bind, pure, Except.pure,
    List.cons_append, List.nil_append, List.map_cons, List.map_nil, hw]
  have h3 : ¬ (0 + 1 + 1 + 1 ≠ 3) := by decide
  simp only [h3, if_false]
  rw [hbody, hlf _ rfl]
  simp only [bind, Except.bind, loopC, bodyItem, hd1, hd2, hd3, hd4, Bool.false_eq_true, if_false, Bool.or_self, if_true,
    hdes, endC, pure, Except.pure, ADesign.elab, ADesign.data]

end Spydr.Edif
