/-
  The reader on the constructs `render` emits, one construct at a time: names, ports, properties,
  instances, pin references, nets.
-/
import Spydr.Edif.Abstract
import Spydr.Edif.LemmasNets
import Spydr.Edif.LemmasWF
namespace Spydr.Edif

/-! ### names -/

theorem AName.okB_id (a : AName) (h : a.okB = true) : checkEdifIdentifier a.ident = true := by
  simp only [AName.okB, Bool.and_eq_true] at h; exact h.1

theorem AName.okB_str (a : AName) (h : a.okB = true) : a.name.all isStringChar = true := by
  simp only [AName.okB, Bool.and_eq_true] at h; exact h.2

theorem nameDef_AName (a : AName) (h : a.okB = true) (d0 : Data) (rest : List SExp) (hd0 : d0.has kNAME = false) :
    nameDef { data := d0, pfx := [S "EDIF"] } (a.sexp :: rest) =
      .ok ({ data := withName d0 a.ident a.name, pfx := [S "EDIF"] }, rest) := by
  have hc := a.okB_id h
  have hs := a.okB_str h
  have hv := validIdentTok_of_check a.ident hc
  obtain ⟨ident, orig⟩ := a
  cases orig with
  | none =>
    simp only [AName.name] at hs ⊢
    have hself : ((d0.set kNAME (.str ident)).set kIDENT (.str ident)).set kNAME (.str ident) =
        (d0.set kNAME (.str ident)).set kIDENT (.str ident) := by
      apply Data.set_of_get?
      rw [Data.get?_set_other _ _ _ _ kNAME_ne_kIDENT, Data.get?_set_self]
    simp only [AName.sexp, nameDef, identOfS, hv, if_true, bind, Except.bind, pure, Except.pure, push_mk, pop_mk,
      List.cons_append, List.nil_append, setAttr_ident d0 ident hc hd0, withName, hself]
    simp
  | some o =>
    simp only [AName.name] at hs ⊢
    simp only [AName.sexp, nameDef, parseRename_ok d0 ident o hc hs hd0, bind, Except.bind, pure, Except.pure]

/-- the same with the fresh element `Meta.new` -/
theorem nameDef_AName_new (a : AName) (h : a.okB = true) (rest : List SExp) :
    nameDef Meta.new (a.sexp :: rest) = .ok ({ data := withName [] a.ident a.name, pfx := [S "EDIF"] }, rest) :=
  nameDef_AName a h [] rest rfl

/-! ### ports -/

/-- the port the reader builds for an abstract port -/
def APort.elab (p : APort) : CPort :=
  { data := (withName [] p.name.ident p.name.name).set (S "metadata_prefix") (.list [.str (S "EDIF")]),
    dir := p.dir, width := p.width, scalarFlag := p.array.isNone, lower := 0 }

theorem loopC_dir (m : Meta) (d : Dir) :
    loopC portItem { m := m } (dirSexp d) = .ok ({ m := m, dir := d, hasDir := d != .undefined }, []) := by
  cases d with
  | undefined => rfl
  | inout =>
    have := portItem_direction m (A "INOUT") .inout (parseDirection_dirAtom .inout _ rfl)
    simp only [dirSexp, loopC, this, bind, Except.bind, pure, Except.pure]; rfl
  | inp =>
    have := portItem_direction m (A "INPUT") .inp (parseDirection_dirAtom .inp _ rfl)
    simp only [dirSexp, loopC, this, bind, Except.bind, pure, Except.pure]; rfl
  | out =>
    have := portItem_direction m (A "OUTPUT") .out (parseDirection_dirAtom .out _ rfl)
    simp only [dirSexp, loopC, this, bind, Except.bind, pure, Except.pure]; rfl

theorem parsePort_APort (p : APort) (hn : p.name.okB = true) (hk : p.okB = true) :
    ∃ body, p.sexp = .list (A "port" :: body) ∧ parsePort (A "port" :: body) = .ok p.elab := by
  have hc := p.name.okB_id hn
  have hs := p.name.okB_str hn
  obtain ⟨nm, dir, arr⟩ := p
  cases arr with
  | some k =>
    refine ⟨_, rfl, ?_⟩
    have harr0 : ∀ xs, headIs (A "array" :: xs) "rename" = false := by intro xs; rw [headIs_cons]; decide
    have harr1 : ∀ xs, headIs (A "array" :: xs) "array" = true := by intro xs; rw [headIs_cons]; decide
    have hnd := nameDef_AName nm hn [] [SExp.atom (natStr k)] rfl
    simp only [parsePort, List.tail_cons, harr0, harr1, Bool.false_eq_true,
      if_false, if_true, Meta.new, hnd, intOfS_natStr, bind, Except.bind, pure, Except.pure, loopC_dir, endC,
      APort.elab, APort.width, toNat_ofNat', Option.isNone, Bool.not_true]
  | none =>
    refine ⟨_, rfl, ?_⟩
    obtain ⟨ident, orig⟩ := nm
    cases orig with
    | none =>
      have hnd := nameDef_AName ⟨ident, none⟩ hn [] (dirSexp dir) rfl
      simp only [AName.sexp] at hnd
      simp only [parsePort, AName.sexp, List.tail_cons, Meta.new, hnd, bind,
        Except.bind, pure, Except.pure, loopC_dir, endC, APort.elab, APort.width, Option.isNone, Bool.not_false]
    | some o =>
      have hren : headIs [A "rename", SExp.atom ident, qtok o] "rename" = true := by rw [headIs_cons]; decide
      simp only [AName.name] at hs
      have hnd := parseRename_ok [] ident o hc hs rfl
      simp only [parsePort, AName.sexp, List.tail_cons, Meta.new, hren, if_true, hnd,
        bind, Except.bind, pure, Except.pure, loopC_dir, endC, APort.elab, APort.width, Option.isNone, Bool.not_false,
        AName.name]

theorem identOf_APort_elab (p : APort) : identOf p.elab.data = some p.name.ident := by
  have hne : kIDENT ≠ S "metadata_prefix" := by decide
  have := identOf_withName [] p.name.ident p.name.name
  simp only [identOf, Data.getStr?, APort.elab] at *
  rw [Data.get?_set_other _ _ _ _ hne]
  exact this

theorem nameOf_APort_elab (p : APort) : nameOf p.elab.data = some p.name.name := by
  have hne : kNAME ≠ S "metadata_prefix" := by decide
  have := nameOf_withName [] p.name.ident p.name.name
  simp only [nameOf, Data.getStr?, APort.elab] at *
  rw [Data.get?_set_other _ _ _ _ hne]
  exact this

/-! ### properties -/

def AProp.t (p : AProp) : PropT := (p.name.ident, p.name.orig, p.value.val)

theorem AProp.den_eq (p : AProp) : p.den = p.t.obj := by
  obtain ⟨⟨i, o⟩, v⟩ := p
  cases o <;> rfl

theorem AProp.propOK (p : AProp) (h : p.okB = true) : PropOK p.t.1 p.t.2.1 p.t.2.2 := by
  simp only [AProp.okB, Bool.and_eq_true] at h
  obtain ⟨hn, hv⟩ := h
  refine ⟨p.name.okB_id hn, ?_, ?_⟩
  · intro o ho
    have := p.name.okB_str hn
    simp only [AProp.t] at ho
    simpa [AName.name, ho] using this
  · obtain ⟨nm, v⟩ := p
    cases v with
    | str s => exact Or.inl ⟨s, rfl, by simpa using hv⟩
    | int i => exact Or.inr (Or.inr ⟨i, rfl⟩)
    | bool b => exact Or.inr (Or.inl ⟨b, rfl⟩)

theorem typedValue_AVal (v : AVal) (h : ∀ s, v = .str s → s.all isStringChar = true) :
    ∃ tv, v.sexp = .list tv ∧ typedValue tv = .ok v.val := by
  cases v with
  | str s => exact ⟨_, rfl, typedValue_string s (h s rfl)⟩
  | int i => exact ⟨_, rfl, typedValue_integer i⟩
  | bool b =>
    cases b with
    | true => exact ⟨_, rfl, by rfl⟩
    | false => exact ⟨_, rfl, by rfl⟩

/-- one `(property …)` of an abstract design is read as its canonical dictionary -/
theorem parseProperty_AProp (p : AProp) (h : p.okB = true) (D : Data) (h1 : D.has kPID = false)
    (h2 : D.has kPORIG = false) :
    ∃ r, p.sexp = .list (A "property" :: r) ∧
      parseProperty { data := D, pfx := [S "EDIF"] } (A "property" :: r) =
        .ok { data := addProp D p.t.obj, pfx := [S "EDIF"] } := by
  have hok := p.propOK h
  obtain ⟨⟨ident, orig⟩, v⟩ := p
  have hid : validIdentTok ident = true := hok.hid
  obtain ⟨tv, htv, hread⟩ := typedValue_AVal v (by
    intro s hs
    simp only [AProp.okB, Bool.and_eq_true] at h
    subst hs
    simpa using h.2)
  cases orig with
  | none =>
    refine ⟨[.atom ident, v.sexp], rfl, ?_⟩
    rw [htv]
    simp only [parseProperty, List.tail_cons, propLike, push_mk, List.cons_append, List.nil_append, nameDef, identOfS,
      hid, if_true, bind, Except.bind, pure, Except.pure, setAttr_pid, pop_mk, List.dropLast, joinDot_pid,
      joinDot_porig, Data.get?_set_self, Data.get?_set_other _ _ _ _ kPORIG_ne_kPID, AProp.t]
    have h2' : D.get? kPORIG = none := by simpa [Data.has] using h2
    simp only [h2', Data.erase_set_of_not_has D kPID _ h1, hread, appendAttr_props, loopC, endC, PropT.obj, propKV,
      List.append_nil, List.cons_append, List.nil_append, pure, Except.pure]
    rfl
  | some o =>
    have ho := hok.horig o rfl
    refine ⟨[.list [A "rename", .atom ident, qtok o], v.sexp], rfl, ?_⟩
    rw [htv]
    have hr : isKw (A "rename") "rename" = true := by decide
    simp only [parseProperty, List.tail_cons, propLike, push_mk, List.cons_append, List.nil_append, nameDef, parseRename,
      hr, identOfS, hid, if_true, bind, Except.bind, pure, Except.pure, setAttr_pid, setAttr_porig, pop_mk,
      List.dropLast, joinDot_pid, joinDot_porig, stringTok_qtok o ho, Data.get?_set_self,
      Data.get?_set_other _ _ _ _ kPORIG_ne_kPID.symm, AProp.t]
    have e1 : (((D.set kPID (.str ident)).set kPORIG (.str o)).erase kPID).erase kPORIG = D := by
      rw [Data.erase_set_comm _ _ _ _ kPORIG_ne_kPID.symm, Data.erase_set_of_not_has D kPID _ h1,
        Data.erase_set_of_not_has D kPORIG _ h2]
    simp only [e1, hread, appendAttr_props, loopC, endC, PropT.obj, propKV, List.cons_append, List.nil_append, pure,
      Except.pure]
    rfl

/-- the property block of an instance -/
theorem loopC_AProps (ps : List AProp) (hok : ∀ p ∈ ps, p.okB = true) :
    ∀ (D : Data) (acc : List PropT), D.has kPID = false → D.has kPORIG = false → D.get? kPROPS = none →
      loopC instItem { data := withProps D acc, pfx := [S "EDIF"] } (ps.map AProp.sexp) =
        .ok ({ data := withProps D (acc ++ ps.map AProp.t), pfx := [S "EDIF"] }, []) := by
  induction ps with
  | nil => intro D acc _ _ _; simp [loopC, pure, Except.pure]
  | cons p r ih =>
    intro D acc h1 h2 h3
    have hp1 : (withProps D acc).has kPID = false := by
      cases acc with
      | nil => simpa [withProps] using h1
      | cons a b => simp only [withProps]; rw [Data.has_set_other _ _ _ _ kPROPS_ne_kPID.symm]; exact h1
    have hp2 : (withProps D acc).has kPORIG = false := by
      cases acc with
      | nil => simpa [withProps] using h2
      | cons a b => simp only [withProps]; rw [Data.has_set_other _ _ _ _ kPROPS_ne_kPORIG.symm]; exact h2
    obtain ⟨x, hx, hr⟩ := parseProperty_AProp p (hok p (by simp)) (withProps D acc) hp1 hp2
    have hh : headIs (A "property" :: x) "property" = true := by rw [headIs_cons]; decide
    have hadd : addProp (withProps D acc) p.t.obj = withProps D (acc ++ [p.t]) := by
      cases acc with
      | nil => simp [withProps, addProp, h3]
      | cons a b =>
        simp only [withProps, addProp, Data.get?_set_self, Data.set_set, List.cons_append]
        simp
    simp only [List.map_cons, hx, loopC, instItem, hh, if_true, hr, hadd, bind, Except.bind]
    have := ih (fun q hq => hok q (by simp [hq])) D (acc ++ [p.t]) h1 h2 h3
    simpa using this

/-! ### instances -/

def AInst.elab (i : AInst) : CInst := readInst i.name.ident i.name.name (i.props.map AProp.t) i.li i.di

/-- `parseViewRef` with the view, the cell and the library spelled freely -/
theorem parseViewRef_spelled (sc : Scope) (D : Data) (vsp did lid : Str) (li di : Nat) (d' : CDef) (dv : Str)
    (hvv : validIdentTok vsp = true) (hvd : validIdentTok did = true) (hvl : validIdentTok lid = true)
    (hres : LibResolves sc lid li)
    (hf : findIdent ((defsOfLib sc li).map (·.data)) did = some di)
    (hd : (defsOfLib sc li)[di]? = some d') (hview : viewIdentOf d'.data = some dv) (hdv : lower dv = lower vsp) :
    parseViewRef sc { data := D, pfx := [S "EDIF"] }
      [A "viewref", .atom vsp, .list [A "cellref", .atom did, .list [A "libraryref", .atom lid]]] = .ok (li, di) := by
  have hl : (lower dv == lower vsp) = true := by rw [hdv]; simp
  simp only [parseViewRef, List.tail_cons, identOfS_atom vsp hvv, push_mk, List.cons_append, List.nil_append,
    parseCellRef_ok sc D did lid li di hvd hvl hres hf, hd, hview, hl, if_true, bind, Except.bind, pure, Except.pure]

/-- … with the `(libraryRef …)` left out: the library being read -/
theorem parseViewRef_spelled_omit (sc : Scope) (D : Data) (vsp did : Str) (di : Nat) (d' : CDef) (dv : Str)
    (hvv : validIdentTok vsp = true) (hvd : validIdentTok did = true)
    (hf : findIdent ((defsOfLib sc sc.libs.length).map (·.data)) did = some di)
    (hd : (defsOfLib sc sc.libs.length)[di]? = some d') (hview : viewIdentOf d'.data = some dv) (hdv : lower dv = lower vsp) :
    parseViewRef sc { data := D, pfx := [S "EDIF"] }
      [A "viewref", .atom vsp, .list [A "cellref", .atom did]] = .ok (sc.libs.length, di) := by
  have hl : (lower dv == lower vsp) = true := by rw [hdv]; simp
  have h1 : headIs [A "cellref", SExp.atom did] "cellref" = true := by rw [headIs_cons]; decide
  simp only [parseViewRef, parseCellRef, h1, Bool.not_true, Bool.false_eq_true, if_false, List.tail_cons, identOfS_atom vsp hvv,
    identOfS_atom did hvd, hf, hd, hview, hl, if_true, bind, Except.bind, pure, Except.pure]

/-- one `(instance …)` of an abstract design, read in a scope where its reference resolves -/
theorem parseInstance_AInst (sc : Scope) (i : AInst) (hn : i.name.okB = true) (hps : ∀ p ∈ i.props, p.okB = true)
    (d' : CDef) (dv : Str)
    (hvv : validIdentTok i.viewSp = true) (hvd : validIdentTok i.cellSp = true) (hvl : validIdentTok i.libSp = true)
    (hres : LibResolves sc i.libSp i.li)
    (hf : findIdent ((defsOfLib sc i.li).map (·.data)) i.cellSp = some i.di)
    (hd : (defsOfLib sc i.li)[i.di]? = some d') (hview : viewIdentOf d'.data = some dv)
    (hdv : lower dv = lower i.viewSp) (homit : i.libOmit = true → i.li = sc.libs.length) :
    ∃ r, i.sexp = .list (A "instance" :: r) ∧ parseInstance sc (A "instance" :: r) = .ok i.elab := by
  refine ⟨_, rfl, ?_⟩
  have hvr : headIs [A "viewref", SExp.atom i.viewSp, i.cellRefSexp] "viewref" = true := by
    rw [headIs_cons]; decide
  have hpv : parseViewRef sc { data := withName [] i.name.ident i.name.name, pfx := [S "EDIF"] }
      [A "viewref", SExp.atom i.viewSp, i.cellRefSexp] = .ok (i.li, i.di) := by
    unfold AInst.cellRefSexp
    cases ho : i.libOmit with
    | false =>
      simp only [Bool.false_eq_true, if_false]
      exact parseViewRef_spelled sc _ i.viewSp i.cellSp i.libSp i.li i.di d' dv hvv hvd hvl hres hf hd hview hdv
    | true =>
      have hli := homit ho
      simp only [if_true]
      rw [hli] at hf hd ⊢
      exact parseViewRef_spelled_omit sc _ i.viewSp i.cellSp i.di d' dv hvv hvd hf hd hview hdv
  have hk1 : (withName [] i.name.ident i.name.name).has kPID = false := withName_nil_has _ _ _ (by decide) (by decide)
  have hk2 : (withName [] i.name.ident i.name.name).has kPORIG = false := withName_nil_has _ _ _ (by decide) (by decide)
  have hk3 : (withName [] i.name.ident i.name.name).get? kPROPS = none := by
    rw [get?_withName_other [] _ _ kPROPS (by decide) (by decide)]; rfl
  have hlp := loopC_AProps i.props hps (withName [] i.name.ident i.name.name) [] hk1 hk2 hk3
  rw [show withProps (withName [] i.name.ident i.name.name) [] = withName [] i.name.ident i.name.name from rfl,
    List.nil_append] at hlp
  simp only [parseInstance, List.tail_cons, nameDef_AName_new i.name hn, hvr, if_true,
    hpv, hlp, endC, AInst.elab, readInst, bind, Except.bind, pure, Except.pure]

theorem identOf_AInst_elab (i : AInst) : identOf i.elab.data = some i.name.ident := by
  simp [AInst.elab, readInst, identOf_withProps, identOf_withName]

theorem nameOf_AInst_elab (i : AInst) : nameOf i.elab.data = some i.name.name := by
  simp [AInst.elab, readInst, nameOf_withProps, nameOf_withName]

/-! ### pin references -/

/-- what a pin reference needs of the reader's view `cx` of the cell: the spellings resolve to the
    positions the abstract pin names, and the bit is inside the port -/
def APin.Resolves (cx : DefCtx) : APin → Prop
  | .port pi b sp =>
    ∃ p, validIdentTok sp = true ∧ findIdent (cx.ports.map (·.data)) sp = some pi ∧ cx.ports[pi]? = some p ∧
      b.getD 0 < p.width
  | .inst ii pi b sp isp =>
    ∃ inst li di d p, validIdentTok sp = true ∧ validIdentTok isp = true ∧
      findIdent (cx.insts.map (·.data)) isp = some ii ∧ cx.insts[ii]? = some inst ∧ inst.ref = some (li, di) ∧
      (defsOfLib cx.sc li)[di]? = some d ∧ findIdent (d.ports.map (·.data)) sp = some pi ∧ d.ports[pi]? = some p ∧
      b.getD 0 < p.width

theorem parsePortRef_APin (cx : DefCtx) (pin : APin) (h : pin.Resolves cx) :
    ∃ r, pin.sexp = .list (A "portref" :: r) ∧ parsePortRef cx (A "portref" :: r) = .ok pin.pin := by
  cases pin with
  | port pi b sp =>
    obtain ⟨p, hv, hf, hp, hb⟩ := h
    cases b with
    | none => exact ⟨_, rfl, scalar_index_port cx sp pi p hv hf hp hb⟩
    | some k => exact ⟨_, rfl, member_index_port cx sp k pi p hv hf hp hb⟩
  | inst ii pi b sp isp =>
    obtain ⟨inst, li, di, d, p, hv, hiv, hfi, hi, hr, hd, hf, hp, hb⟩ := h
    cases b with
    | none => exact ⟨_, rfl, scalar_index_inst cx sp isp pi ii li di inst d p hv hiv hfi hi hr hd hf hp hb⟩
    | some k => exact ⟨_, rfl, member_index_inst cx sp isp k pi ii li di inst d p hv hiv hfi hi hr hd hf hp hb⟩

theorem loopC_APins (cx : DefCtx) (pins : List APin) (acc : List CPin) (h : ∀ pin ∈ pins, pin.Resolves cx) :
    loopC (joinedItem cx) acc (pins.map APin.sexp) = .ok (acc ++ pins.map APin.pin, []) := by
  induction pins generalizing acc with
  | nil => simp [loopC, pure, Except.pure]
  | cons pin rest ih =>
    obtain ⟨r, hs, hr⟩ := parsePortRef_APin cx pin (h pin (by simp))
    have hh : headIs (A "portref" :: r) "portref" = true := by rw [headIs_cons]; decide
    simp only [List.map_cons, hs, loopC, joinedItem, hh, if_true, hr, bind, Except.bind, pure, Except.pure]
    have := ih (acc ++ [pin.pin]) (fun q hq => h q (by simp [hq]))
    simpa using this

/-! ### nets -/

def ANet.item (n : ANet) : NetItem :=
  match n.kind with
  | .scalar a => ⟨a.ident, a.name, none, n.pins.map APin.pin, 0⟩
  | .bit bi bn i j => ⟨bi, bn, some i, n.pins.map APin.pin, j⟩

theorem nameDef_ANetKind (k : ANetKind) (h : k.okB = true) (pins : List CPin) :
    ∀ rest, nameDef Meta.new (k.sexp :: rest) =
      .ok ({ data := (match k with
        | .scalar a => (⟨a.ident, a.name, none, pins, 0⟩ : NetItem)
        | .bit bi bn i j => ⟨bi, bn, some i, pins, j⟩).data, pfx := [S "EDIF"] }, rest) := by
  intro rest
  cases k with
  | scalar a =>
    simp only [ANetKind.okB, Bool.and_eq_true] at h
    exact nameDef_AName_new a h.1.1 rest
  | bit bi bn i j =>
    simp only [ANetKind.okB, Bool.and_eq_true] at h
    have := parseRename_ok [] (bitIdent bi j) (bitName bn i) h.2 h.1.1.1.2 rfl
    simp only [ANetKind.sexp, nameDef, Meta.new, this, bind, Except.bind, pure, Except.pure, NetItem.data]

/-- **one net through `parse_portRef`**: the `(net …)` of an abstract design whose pin references
    resolve in the reader's view of the cell hands `multibit_add_cable` exactly the net's dictionary and
    its pins -/
theorem contentsItem_ANet (sc : Scope) (st : CellSt) (n : ANet) (hk : n.kind.okB = true)
    (hp : ∀ pin ∈ n.pins, pin.Resolves { sc := sc, ports := st.ports, insts := st.insts }) :
    ∃ ys, n.sexp = .list ys ∧
      contentsItem sc st ys = (multibitAdd st.cables n.item.data n.item.pins) >>= fun cs => pure { st with cables := cs } := by
  refine ⟨_, rfl, ?_⟩
  have hpins := loopC_APins { sc := sc, ports := st.ports, insts := st.insts } n.pins [] hp
  rw [List.nil_append] at hpins
  have hnm := nameDef_ANetKind n.kind hk (n.pins.map APin.pin)
  have := contentsItem_net sc st n.kind.sexp _ (n.pins.map APin.sexp) (n.pins.map APin.pin) hnm hpins
  rw [this]
  obtain ⟨kind, pins⟩ := n
  cases kind <;> rfl

end Spydr.Edif
