/-
  The nets of a cell of an abstract design, through `contentsItem` / `parse_net` / `parse_portRef` /
  `multibit_add_cable`: the reader's loop on the rendered nets computes `netStep`, and the cables it
  ends with are, in order, exactly the cables `cablesDen` says the text declares.
-/
import Spydr.Edif.DenoteLeaf
namespace Spydr.Edif

/-! ### the rendered nets through the reader's contents loop -/

theorem foldlM_contents_ANets (sc : Scope) (nets : List ANet) (st : CellSt)
    (hk : ∀ n ∈ nets, n.kind.okB = true)
    (hp : ∀ n ∈ nets, ∀ pin ∈ n.pins, pin.Resolves { sc := sc, ports := st.ports, insts := st.insts }) :
    ∃ yss : List (List SExp), nets.map ANet.sexp = yss.map SExp.list ∧
      yss.foldlM (contentsItem sc) st =
        ((nets.map ANet.item).foldlM (fun cs it => multibitAdd cs it.data it.pins) st.cables) >>=
          fun cs => pure { st with cables := cs } := by
  induction nets generalizing st with
  | nil => exact ⟨[], rfl, by simp [pure, Except.pure, bind, Except.bind]⟩
  | cons n r ih =>
    obtain ⟨ys, hys, hstep⟩ := contentsItem_ANet sc st n (hk n (by simp)) (hp n (by simp))
    cases hm : multibitAdd st.cables n.item.data n.item.pins with
    | error e =>
      obtain ⟨yss, hyss, _⟩ := ih st (fun m hm => hk m (by simp [hm])) (fun m hm => hp m (by simp [hm]))
      refine ⟨ys :: yss, by simp [hys, hyss], ?_⟩
      simp only [List.foldlM_cons, hstep, hm, List.map_cons, bind, Except.bind]
    | ok cs =>
      obtain ⟨yss, hyss, hfold⟩ := ih { st with cables := cs } (fun m hm => hk m (by simp [hm]))
        (fun m hm => hp m (by simp [hm]))
      refine ⟨ys :: yss, by simp [hys, hyss], ?_⟩
      simp only [List.foldlM_cons, hstep, hm, List.map_cons, bind, Except.bind, pure, Except.pure]
      exact hfold

/-! ### `netsOKB` is `NetsWF` of the items -/

theorem item_name (n : ANet) : n.item.name = n.cname := by
  obtain ⟨k, p⟩ := n; cases k <;> rfl

theorem item_ident (n : ANet) : n.item.ident = n.kind.key.1 := by
  obtain ⟨k, p⟩ := n; cases k <;> rfl

theorem item_isSome (n : ANet) : n.item.idx.isSome = n.kind.isBit := by
  obtain ⟨k, p⟩ := n; cases k <;> rfl

theorem item_isNone (n : ANet) : n.item.idx.isNone = !n.kind.isBit := by
  obtain ⟨k, p⟩ := n; cases k <;> rfl

theorem netsWF_of_okB (nets : List ANet) (h : netsOKB nets = true) : NetsWF (nets.map ANet.item) := by
  simp only [netsOKB, Bool.and_eq_true, List.all_eq_true, decide_eq_true_eq] at h
  obtain ⟨⟨⟨heach, hpair⟩, hsc⟩, _⟩ := h
  refine ⟨?_, ?_, ?_, ?_⟩
  · intro it hit
    obtain ⟨n, hn, rfl⟩ := List.mem_map.mp hit
    have := heach n hn
    obtain ⟨k, p⟩ := n
    cases k with
    | scalar a =>
      simp only [ANetKind.okB, Bool.and_eq_true, Option.isNone_iff_eq_none, Bool.not_eq_true', List.isEmpty_eq_false_iff] at this
      exact ⟨this.2, a.okB_id this.1.1, this.1.2⟩
    | bit bi bn i j =>
      simp only [ANetKind.okB, Bool.and_eq_true, Bool.not_eq_true', List.isEmpty_eq_false_iff] at this
      exact ⟨this.1.2, this.1.1.1.1.1, this.1.1.2⟩
  · intro a ha b hb hab
    obtain ⟨na, hna, rfl⟩ := List.mem_map.mp ha
    obtain ⟨nb, hnb, rfl⟩ := List.mem_map.mp hb
    have := hpair na hna nb hnb
    rw [item_name, item_name] at hab
    have hab' : na.kind.key.2 = nb.kind.key.2 := hab
    rw [if_pos hab'] at this
    simp only [Bool.and_eq_true, decide_eq_true_eq, beq_iff_eq] at this
    rw [item_ident, item_ident, item_isSome, item_isSome]
    exact this
  · intro a ha b hb hab
    obtain ⟨na, hna, rfl⟩ := List.mem_map.mp ha
    obtain ⟨nb, hnb, rfl⟩ := List.mem_map.mp hb
    have := hpair na hna nb hnb
    rw [item_name, item_name] at hab
    have hab' : ¬ na.kind.key.2 = nb.kind.key.2 := hab
    rw [if_neg hab'] at this
    rw [item_ident, item_ident]
    simpa using this
  · have e : (nets.map ANet.item).filter (fun it => it.idx.isNone) =
        (nets.filter fun n => !n.kind.isBit).map ANet.item := by
      rw [List.filter_map]
      congr 1
      apply List.filter_congr
      intro n _
      simp [Function.comp, item_isNone]
    rw [e, List.map_map]
    have e2 : ((fun x : NetItem => x.name) ∘ ANet.item) = ANet.cname := by
      funext n; exact item_name n
    rw [e2]
    exact hsc

theorem bitsOf_items (nm : Str) (nets : List ANet) : bitsOf nm (nets.map ANet.item) = busBits nm nets := by
  unfold bitsOf busBits
  rw [List.filterMap_map]
  congr 1
  funext n
  obtain ⟨k, p⟩ := n
  cases k <;> rfl

/-! ### the order of the cables and what each one carries -/

theorem mem_addName (acc : List Str) (n x : Str) : x ∈ addName acc n ↔ x ∈ acc ∨ x = n := by
  unfold addName
  by_cases h : n ∈ acc
  · rw [if_pos h]
    constructor
    · exact Or.inl
    · rintro (h1 | rfl)
      · exact h1
      · exact h
  · rw [if_neg h]; simp

theorem mem_firstNames (l : List Str) (x : Str) : x ∈ firstNames l ↔ x ∈ l := by
  unfold firstNames
  have : ∀ acc, x ∈ l.foldl addName acc ↔ x ∈ acc ∨ x ∈ l := by
    induction l with
    | nil => intro acc; simp
    | cons a r ih =>
      intro acc
      rw [List.foldl_cons, ih, mem_addName]
      simp only [List.mem_cons]
      constructor
      · rintro ((h | h) | h)
        · exact Or.inl h
        · exact Or.inr (Or.inl h)
        · exact Or.inr (Or.inr h)
      · rintro (h | h | h)
        · exact Or.inl (Or.inl h)
        · exact Or.inl (Or.inr h)
        · exact Or.inr h
  simpa using this []

/-- what the loop maintains besides `NamesInv`: the cables stand in the order their names first occur,
    and each carries the identifier and the kind of the nets of its name -/
structure CabInv (done : List NetItem) (cs : List CCable) : Prop where
  order : cableNames cs = ((done.map (·.name)).foldl addName []).map some
  info : ∀ c ∈ cs, ∃ it ∈ done, nameOf c.data = some it.name ∧ identOf c.data = some it.ident ∧
    c.scalarFlag = it.idx.isNone

theorem cabInv_step (items done : List NetItem) (it : NetItem) (rest : List NetItem) (cs : List CCable)
    (hwf : NetsWF items) (hsplit : items = done ++ it :: rest) (hn : NamesInv done cs) (hinv : CabInv done cs) :
    CabInv (done ++ [it]) (netStep cs it) := by
  have hn' := namesInv_step items done it rest cs hwf hsplit hn
  have hmono : ∀ c : CCable, (∃ x ∈ done, nameOf c.data = some x.name ∧ identOf c.data = some x.ident ∧
      c.scalarFlag = x.idx.isNone) →
      ∃ x ∈ done ++ [it], nameOf c.data = some x.name ∧ identOf c.data = some x.ident ∧ c.scalarFlag = x.idx.isNone := by
    intro c ⟨x, hx, hr⟩
    exact ⟨x, by simp [hx], hr⟩
  have hfold : (List.map (·.name) (done ++ [it])).foldl addName [] =
      addName ((done.map (·.name)).foldl addName []) it.name := by
    simp [List.foldl_append]
  -- appending a cable with a name not seen yet
  have happend : ∀ c : CCable, nameOf c.data = some it.name → identOf c.data = some it.ident →
      c.scalarFlag = it.idx.isNone → (cableNames (cs ++ [c])).Nodup → CabInv (done ++ [it]) (cs ++ [c]) := by
    intro c hc hci hcf hnd
    have hnot : some it.name ∉ cableNames cs := by
      simp only [cableNames, List.map_append, List.map_cons, List.map_nil, hc] at hnd
      have := (List.nodup_append.mp hnd).2.2
      intro hm
      exact this _ hm _ (by simp) rfl
    have hnot' : it.name ∉ (done.map (·.name)).foldl addName [] := by
      intro hm
      apply hnot
      rw [hinv.order]
      exact List.mem_map_of_mem hm
    refine ⟨?_, ?_⟩
    · rw [hfold]
      simp only [cableNames, List.map_append, List.map_cons, List.map_nil, hc]
      have := hinv.order
      simp only [cableNames] at this
      rw [this, addName, if_neg hnot']
      simp
    · intro c' hc'
      rcases List.mem_append.mp hc' with h | h
      · exact hmono c' (hinv.info c' h)
      · simp only [List.mem_singleton] at h
        subst h
        exact ⟨it, by simp, hc, hci, hcf⟩
  unfold netStep at hn' ⊢
  cases hi : it.idx with
  | none =>
    simp only [hi] at hn' ⊢
    exact happend _ (by rw [nameOf_scalarCable, nameOf_withName]) (by simp [scalarCable, identOf_withName]) (by simp [scalarCable, hi]) hn'.nodup
  | some i =>
    simp only [hi] at hn' ⊢
    cases hf : findName (cs.map (·.data)) it.name with
    | none =>
      simp only [hf] at hn' ⊢
      exact happend _ (nameOf_busCable _ _ _ _) (identOf_busCable _ _ _ _) (by simp [busCable, hi]) hn'.nodup
    | some k =>
      have hlt := findName_lt _ _ _ hf
      simp only [List.length_map] at hlt
      have hk : cs[k]? = some cs[k] := List.getElem?_eq_getElem hlt
      simp only [hk]
      have hm := mergeInto_eq cs[k] i it.pins
      have hnames := cableNames_set cs k (mergeInto cs[k] i it.pins) cs[k] hk hm.2.2.1
      obtain ⟨_, hnk⟩ := findName_sound _ _ _ hf
      simp only [List.getElem_map] at hnk
      have hpresent : some it.name ∈ cableNames cs := by
        unfold cableNames
        exact List.mem_map.mpr ⟨cs[k], List.getElem_mem hlt, hnk⟩
      have hpresent' : it.name ∈ (done.map (·.name)).foldl addName [] := by
        rw [hinv.order] at hpresent
        obtain ⟨x, hx, e⟩ := List.mem_map.mp hpresent
        cases e
        exact hx
      refine ⟨?_, ?_⟩
      · rw [hnames, hfold, addName, if_pos hpresent']
        exact hinv.order
      · intro c hc
        rcases List.mem_or_eq_of_mem_set hc with hc | hc
        · exact hmono c (hinv.info c hc)
        · subst hc
          obtain ⟨x, hx, h1, h2, h3⟩ := hinv.info cs[k] (List.getElem_mem hlt)
          exact ⟨x, by simp [hx], by rw [hm.2.2.1]; exact h1, by rw [hm.2.2.1]; exact h2, by rw [hm.2.2.2]; exact h3⟩

theorem cabInv_foldl (items : List NetItem) (hwf : NetsWF items) :
    ∀ (done rest : List NetItem) (cs : List CCable), items = done ++ rest → NamesInv done cs → CabInv done cs →
      NamesInv (done ++ rest) (rest.foldl netStep cs) ∧ CabInv (done ++ rest) (rest.foldl netStep cs) := by
  intro done rest
  induction rest generalizing done with
  | nil => intro cs _ h1 h2; simpa using ⟨h1, h2⟩
  | cons it r ih =>
    intro cs hsplit h1 h2
    have := ih (done ++ [it]) (netStep cs it) (by simp [hsplit]) (namesInv_step items done it r cs hwf hsplit h1)
      (cabInv_step items done it r cs hwf hsplit h1 h2)
    simpa using this

theorem cabInv_all (items : List NetItem) (hwf : NetsWF items) :
    NamesInv items (items.foldl netStep []) ∧ CabInv items (items.foldl netStep []) := by
  have := cabInv_foldl items hwf [] items [] rfl
    ⟨(by simp [cableNames]), (fun x hx => by cases hx), (fun o ho => by simp [cableNames] at ho)⟩
    ⟨rfl, (fun c hc => by cases hc)⟩
  simpa using this

end Spydr.Edif
