/-
  `view05` of the netlist the reader builds for an abstract design is the design's denotation.
-/
import Spydr.Edif.DenoteWF
import Spydr.Edif.Closure
namespace Spydr.Edif

theorem view05Port_elab (p : APort) : view05Port p.elab = p.den := by
  simp only [view05Port, APort.den, nameOf_APort_elab, identOf_APort_elab]
  obtain ⟨nm, dir, arr⟩ := p
  cases arr with
  | none => simp [APort.elab, APort.width, CPort.isArray, CPort.isScalar]
  | some k =>
    simp only [APort.elab, APort.width, CPort.isArray, CPort.isScalar, Option.isNone, Option.isSome]
    by_cases hk : k > 1 <;> simp [hk]

theorem v05Props_withProps (D : Data) (ts : List PropT) (h : D.get? kPROPS = none) :
    v05Props (withProps D ts) = ts.map PropT.obj := by
  cases ts with
  | nil => simp [withProps, v05Props, show S "EDIF.properties" = kPROPS from rfl, h]
  | cons a r => simp [withProps, v05Props, show S "EDIF.properties" = kPROPS from rfl, Data.get?_set_self]

theorem view05Inst_elab (i : AInst) : view05Inst i.elab = i.den := by
  have hne1 : kPROPS ≠ kNAME := by decide
  have hne2 : kPROPS ≠ kIDENT := by decide
  have hbase : (withName [] i.name.ident i.name.name).get? kPROPS = none := by
    rw [get?_withName_other _ _ _ _ hne1 hne2]; rfl
  simp only [view05Inst, AInst.den, nameOf_AInst_elab, identOf_AInst_elab]
  have hp : v05Props i.elab.data = i.props.map AProp.den := by
    simp only [AInst.elab, readInst]
    rw [v05Props_withProps _ _ hbase, List.map_map]
    apply List.map_congr_left
    intro p _
    exact (AProp.den_eq p).symm
  rw [hp]
  rfl

theorem view05Cell_elab (c : ACell) (h : netsOKB c.nets = true) : view05Cell c.elab = c.den := by
  have hv : c.elab.data.getStr? (S "EDIF.view.identifier") = some c.view := viewIdentOf_ACell_data c
  simp only [view05Cell, ACell.den, hv]
  have e1 : nameOf c.elab.data = some c.name.name := nameOf_ACell_data c
  have e2 : identOf c.elab.data = some c.name.ident := identOf_ACell_data c
  have e3 : c.elab.ports.map view05Port = c.ports.map APort.den := by
    simp only [ACell.elab, List.map_map]
    exact List.map_congr_left (fun p _ => view05Port_elab p)
  have e4 : c.elab.insts.map view05Inst = c.insts.map AInst.den := by
    simp only [ACell.elab, List.map_map]
    exact List.map_congr_left (fun i _ => view05Inst_elab i)
  have e5 : c.elab.cables.map view05Cable = cablesDen c.nets := cables_view c.nets h
  rw [e1, e2, e3, e4, e5]

theorem view05Lib_elab (l : ALib) (h : ∀ c ∈ l.cells, netsOKB c.nets = true) : view05Lib l.elab = l.den := by
  simp only [view05Lib, ALib.den, identOf_ALib_data, nameOf_ALib_data]
  have : l.elab.defs.map view05Cell = l.cells.map ACell.den := by
    simp only [ALib.elab, List.map_map]
    exact List.map_congr_left (fun c hc => view05Cell_elab c (h c hc))
  rw [this]
  have he : extOf l.elab.data = l.external := by
    have hk : (withName l.base l.name.ident l.name.name).get? kEXT = l.base.get? kEXT :=
      get?_withName_other _ _ _ kEXT (by decide) (by decide)
    simp only [extOf, ALib.elab, ALib.data, hk, ALib.base]
    cases l.external <;> rfl
  rw [he]

/-- the view of the elaborated netlist is the denotation -/
theorem view05_elab (d : ADesign) (h : d.wf = true) : view05 d.elab = denote d := by
  have hw := wfParts d h
  have hne : kNAME ≠ kVERSION := by decide
  have hne2 : kIDENT ≠ kVERSION := by decide
  have e1 : nameOf d.elab.data = some d.name.name := by
    have := nameOf_withName [] d.name.ident d.name.name
    simp only [nameOf, Data.getStr?, ADesign.elab, ADesign.data] at *
    rw [Data.get?_set_other _ _ _ _ hne]; exact this
  have e2 : identOf d.elab.data = some d.name.ident := by
    have := identOf_withName [] d.name.ident d.name.name
    simp only [identOf, Data.getStr?, ADesign.elab, ADesign.data] at *
    rw [Data.get?_set_other _ _ _ _ hne2]; exact this
  have e3 : d.elab.libs.map view05Lib = d.libs.map ALib.den := by
    simp only [ADesign.elab, List.map_map]
    apply List.map_congr_left
    intro l hl
    apply view05Lib_elab
    intro c hc
    obtain ⟨L, hL, rfl⟩ := List.getElem_of_mem hl
    obtain ⟨D, hD, rfl⟩ := List.getElem_of_mem hc
    have hlok := hw.libs L _ (List.getElem?_eq_getElem hL)
    exact (cellParts d L D _ (lib_cell d L _ hlok D _ (List.getElem?_eq_getElem hD))).nets
  simp only [view05, denote, e1, e2, e3]
  simp only [ADesign.elab, Option.map_some, identOf_readTop, nameOf_readTop]
  rfl

end Spydr.Edif
