/-
  From the decidable well-formedness predicate `ADesign.wf` to the hypotheses of `ofSExp_render`:
  in the scope the reader has when it reaches a cell, every reference of the cell resolves to the
  position the abstract design names.
-/
import Spydr.Edif.DenoteFile
namespace Spydr.Edif

/-! ### unpacking `wf` -/

theorem allIdx_get {α : Type} (xs : List α) (f : Nat → α → Bool) (h : allIdx xs f = true) (k : Nat) (x : α)
    (hk : xs[k]? = some x) : f k x = true := by
  simp only [allIdx, List.all_eq_true] at h
  exact h (x, k) (List.mem_zipIdx_iff_getElem?.mpr hk)

theorem cellAt_some (d : ADesign) (li di : Nat) (l : ALib) (c : ACell) :
    cellAt d li di = some (l, c) ↔ d.libs[li]? = some l ∧ l.cells[di]? = some c := by
  unfold cellAt
  cases hl : d.libs[li]? with
  | none => simp
  | some l' =>
    cases hc : l'.cells[di]? with
    | none =>
      simp only [hc, Option.map_none, Option.some.injEq]
      constructor
      · intro h; cases h
      · rintro ⟨rfl, h2⟩
        rw [hc] at h2; cases h2
    | some c' =>
      simp only [hc, Option.map_some, Option.some.injEq, Prod.mk.injEq]
      constructor
      · rintro ⟨rfl, rfl⟩; exact ⟨rfl, hc⟩
      · rintro ⟨rfl, h2⟩; rw [hc] at h2; exact ⟨rfl, Option.some.inj h2⟩

structure WFParts (d : ADesign) : Prop where
  name : d.name.okB = true
  top : d.top.okB = true
  libNames : namesOKB (d.libs.map (·.name)) = true
  libs : ∀ (L : Nat) (l : ALib), d.libs[L]? = some l → l.okB d L = true
  target : ∃ l c, d.libs[d.topLi]? = some l ∧ l.cells[d.topDi]? = some c ∧
    spellsB d.topCellSp c.name.ident = true ∧ spellsB d.topLibSp l.name.ident = true

theorem wfParts (d : ADesign) (h : d.wf = true) : WFParts d := by
  simp only [ADesign.wf, Bool.and_eq_true] at h
  obtain ⟨⟨⟨⟨h1, h2⟩, h3⟩, h4⟩, h5⟩ := h
  refine ⟨h1, h2, h3, fun L l hl => allIdx_get _ _ h4 L l hl, ?_⟩
  cases hc : cellAt d d.topLi d.topDi with
  | none => rw [hc] at h5; cases h5
  | some lc =>
    obtain ⟨l, c⟩ := lc
    rw [hc] at h5
    simp only [Bool.and_eq_true] at h5
    obtain ⟨hl, hcc⟩ := (cellAt_some d _ _ l c).mp hc
    exact ⟨l, c, hl, hcc, h5.1, h5.2⟩

theorem lib_cellNames (d : ADesign) (L : Nat) (l : ALib) (h : l.okB d L = true) :
    namesOKB (l.cells.map (·.name)) = true := by
  simp only [ALib.okB, Bool.and_eq_true] at h; exact h.1

theorem lib_cell (d : ADesign) (L : Nat) (l : ALib) (h : l.okB d L = true) (D : Nat) (c : ACell)
    (hc : l.cells[D]? = some c) : c.okB d L D = true := by
  simp only [ALib.okB, Bool.and_eq_true] at h
  exact allIdx_get _ _ h.2 D c hc

structure CellParts (d : ADesign) (L D : Nat) (c : ACell) : Prop where
  view : checkEdifIdentifier c.view = true
  portNames : namesOKB (c.ports.map (·.name)) = true
  ports : ∀ p ∈ c.ports, p.okB = true
  instNames : namesOKB (c.insts.map (·.name)) = true
  insts : ∀ i ∈ c.insts, i.okB d L D = true
  nets : netsOKB c.nets = true
  pins : ∀ n ∈ c.nets, ∀ pin ∈ n.pins, pin.okB d c = true
  nodup : (c.nets.flatMap fun n => n.pins.map APin.pin).Nodup

theorem cellParts (d : ADesign) (L D : Nat) (c : ACell) (h : c.okB d L D = true) : CellParts d L D c := by
  simp only [ACell.okB, Bool.and_eq_true, List.all_eq_true, decide_eq_true_eq] at h
  obtain ⟨⟨⟨⟨⟨⟨⟨h1, h2⟩, h3⟩, h4⟩, h5⟩, h6⟩, h7⟩, h8⟩ := h
  exact ⟨h1, h2, h3, h4, h5, h6, h7, h8⟩

theorem spellsB_id (sp t : Str) (h : spellsB sp t = true) : checkEdifIdentifier sp = true := by
  simp only [spellsB, Bool.and_eq_true] at h; exact h.1

theorem spellsB_lower (sp t : Str) (h : spellsB sp t = true) : lower sp = lower t := by
  simp only [spellsB, Bool.and_eq_true, beq_iff_eq] at h; exact h.2

theorem before_of_B (L D li di : Nat) (h : beforeB L D li di = true) : li < L ∨ (li = L ∧ di < D) := by
  simp only [beforeB, Bool.or_eq_true, Bool.and_eq_true, decide_eq_true_eq] at h
  exact h

/-! ### the reader's scope at a cell -/

/-- the scope when the reader reaches cell `D` of library `L` -/
def scopeAtA (d : ADesign) (L D : Nat) (l : ALib) : Scope := cellScope ((d.libs.take L).map ALib.elab) l D

theorem nodup_take_names (as : List AName) (k : Nat) (h : (as.map fun a => lower a.ident).Nodup) :
    ((as.take k).map fun a => lower a.ident).Nodup := by
  rw [List.map_take]
  exact List.Sublist.nodup (List.take_sublist k _) h

/-- a cell that precedes (L, D) is in the reader's scope, under its own position, and every spelling
    of its identifier finds it -/
theorem scope_defs (d : ADesign) (hw : WFParts d) (L D : Nat) (l : ALib) (hl : d.libs[L]? = some l)
    (li di : Nat) (hb : li < L ∨ (li = L ∧ di < D)) (tl : ALib) (tc : ACell)
    (htl : d.libs[li]? = some tl) (htc : tl.cells[di]? = some tc) (csp lsp : Str)
    (hcs : lower csp = lower tc.name.ident) (hls : lower lsp = lower tl.name.ident) :
    LibResolves (scopeAtA d L D l) lsp li ∧
    findIdent ((defsOfLib (scopeAtA d L D l) li).map (·.data)) csp = some di ∧
    (defsOfLib (scopeAtA d L D l) li)[di]? = some tc.elab := by
  have hL : L < d.libs.length := getElem?_lt _ _ _ hl
  have hlen : (scopeAtA d L D l).libs.length = L := by simp [scopeAtA, cellScope]; omega
  have hlibnd := okB_of_nodup_ident _ hw.libNames
  have hcellnd : ∀ (k : Nat) (x : ALib), d.libs[k]? = some x → ((x.cells.map (·.name)).map fun a => lower a.ident).Nodup :=
    fun k x hx => okB_of_nodup_ident _ (lib_cellNames d k x (hw.libs k x hx))
  rcases hb with hlt | ⟨heq, hdi⟩
  · -- an earlier library
    have hne : li ≠ (scopeAtA d L D l).libs.length := by rw [hlen]; omega
    have htake : (d.libs.take L)[li]? = some tl := by rw [List.getElem?_take]; simp [hlt, htl]
    have hdefs : defsOfLib (scopeAtA d L D l) li = tl.cells.map ACell.elab := by
      unfold defsOfLib
      rw [if_neg hne]
      have : (scopeAtA d L D l).libs[li]? = some tl.elab := by
        show ((d.libs.take L).map ALib.elab)[li]? = _
        rw [List.getElem?_map, htake]; rfl
      rw [this]; rfl
    refine ⟨?_, ?_, ?_⟩
    · refine ⟨l.name.ident, identOf_withName _ _ _, ?_⟩
      have hpw := List.pairwise_iff_getElem.mp hlibnd li L (by simpa using getElem?_lt _ _ _ htl) (by simpa using hL) hlt
      have e1 : d.libs[li]'(getElem?_lt _ _ _ htl) = tl := by
        have := List.getElem?_eq_getElem (getElem?_lt _ _ _ htl); rw [this] at htl; exact Option.some.inj htl
      have e2 : d.libs[L]'hL = l := by
        have := List.getElem?_eq_getElem hL; rw [this] at hl; exact Option.some.inj hl
      simp only [List.getElem_map, e1, e2] at hpw
      have hc : (lower l.name.ident == lower lsp) = false := by
        simp only [beq_eq_false_iff_ne, ne_eq]
        rw [hls]
        exact fun e => hpw e.symm
      rw [if_neg (by simp [hc])]
      show findIdent (((d.libs.take L).map ALib.elab).map (·.data)) lsp = some li
      rw [List.map_map]
      exact findIdent_elab (fun x : ALib => x.elab.data) (·.name) (d.libs.take L) identOf_ALib_data
        (by rw [List.map_take]; exact nodup_take_names _ L hlibnd) li tl htake lsp hls
    · rw [hdefs, List.map_map]
      exact findIdent_elab (fun x : ACell => x.elab.data) (·.name) tl.cells identOf_ACell_data
        (hcellnd li tl htl) di tc htc csp hcs
    · rw [hdefs, List.getElem?_map, htc]; rfl
  · -- the library being read
    subst heq
    have htl' : tl = l := by rw [hl] at htl; exact (Option.some.inj htl).symm
    subst htl'
    have hdefs : defsOfLib (scopeAtA d li D tl) li = (tl.cells.take D).map ACell.elab := by
      unfold defsOfLib
      rw [if_pos hlen.symm]
      rfl
    have htake : (tl.cells.take D)[di]? = some tc := by rw [List.getElem?_take]; simp [hdi, htc]
    refine ⟨?_, ?_, ?_⟩
    · refine ⟨tl.name.ident, identOf_withName _ _ _, ?_⟩
      have : (lower tl.name.ident == lower lsp) = true := by rw [hls]; simp
      rw [if_pos this, hlen]
    · rw [hdefs, List.map_map]
      exact findIdent_elab (fun x : ACell => x.elab.data) (·.name) (tl.cells.take D) identOf_ACell_data
        (by rw [List.map_take]; exact nodup_take_names _ D (hcellnd li tl hl)) di tc htake csp hcs
    · rw [hdefs, List.getElem?_map, htake]; rfl

/-! ### instances and pins of a well-formed cell resolve -/

theorem inst_resolves (d : ADesign) (hw : WFParts d) (L D : Nat) (l : ALib) (hl : d.libs[L]? = some l)
    (i : AInst) (h : i.okB d L D = true) : i.ResolvesIn (scopeAtA d L D l) := by
  simp only [AInst.okB, Bool.and_eq_true] at h
  obtain ⟨⟨⟨hb, hsp⟩, _⟩, homit⟩ := h
  have homit' : i.libOmit = true → i.li = (scopeAtA d L D l).libs.length := by
    intro ho
    have hL : L < d.libs.length := by
      have := List.getElem?_eq_some_iff.mp hl
      exact this.1
    simp only [ho, Bool.not_true, Bool.false_or, beq_iff_eq] at homit
    simp only [scopeAtA, cellScope, List.length_map, List.length_take]
    omega
  cases hc : cellAt d i.li i.di with
  | none => rw [hc] at hsp; cases hsp
  | some lc =>
    obtain ⟨tl, tc⟩ := lc
    rw [hc] at hsp
    simp only [Bool.and_eq_true] at hsp
    obtain ⟨⟨h1, h2⟩, h3⟩ := hsp
    obtain ⟨htl, htc⟩ := (cellAt_some d _ _ tl tc).mp hc
    obtain ⟨hres, hf, hget⟩ := scope_defs d hw L D l hl i.li i.di (before_of_B _ _ _ _ hb) tl tc htl htc i.cellSp i.libSp
      (spellsB_lower _ _ h1) (spellsB_lower _ _ h2)
    exact ⟨validIdentTok_of_check _ (spellsB_id _ _ h3), validIdentTok_of_check _ (spellsB_id _ _ h1),
      validIdentTok_of_check _ (spellsB_id _ _ h2), hres, hf,
      ⟨tc.elab, tc.view, hget, viewIdentOf_ACell_data tc, (spellsB_lower _ _ h3).symm⟩, homit'⟩

theorem APort_elab_width (p : APort) : p.elab.width = p.width := rfl

theorem pin_resolves (d : ADesign) (hw : WFParts d) (L D : Nat) (l : ALib) (hl : d.libs[L]? = some l)
    (c : ACell) (hcp : CellParts d L D c) (pin : APin) (h : pin.okB d c = true) :
    pin.Resolves (c.ctx (scopeAtA d L D l)) := by
  cases pin with
  | port pi b sp =>
    simp only [APin.okB] at h
    cases hp : c.ports[pi]? with
    | none => rw [hp] at h; cases h
    | some p =>
      rw [hp] at h
      simp only [Bool.and_eq_true, decide_eq_true_eq] at h
      refine ⟨p.elab, validIdentTok_of_check _ (spellsB_id _ _ h.1), ?_, ?_, h.2⟩
      · show findIdent ((c.ports.map APort.elab).map (·.data)) sp = some pi
        rw [List.map_map]
        exact findIdent_elab (fun x : APort => x.elab.data) (·.name) c.ports identOf_APort_elab
          (okB_of_nodup_ident _ hcp.portNames) pi p hp sp (spellsB_lower _ _ h.1)
      · show (c.ports.map APort.elab)[pi]? = _
        rw [List.getElem?_map, hp]; rfl
  | inst ii pi b sp isp =>
    simp only [APin.okB] at h
    cases hi : c.insts[ii]? with
    | none => rw [hi] at h; cases h
    | some i =>
      rw [hi] at h
      simp only [Bool.and_eq_true] at h
      obtain ⟨hisp, hrest⟩ := h
      cases hc : cellAt d i.li i.di with
      | none => rw [hc] at hrest; cases hrest
      | some lc =>
        obtain ⟨tl, rc⟩ := lc
        rw [hc] at hrest
        simp only at hrest
        cases hp : rc.ports[pi]? with
        | none => rw [hp] at hrest; cases hrest
        | some p =>
          rw [hp] at hrest
          simp only [Bool.and_eq_true, decide_eq_true_eq] at hrest
          obtain ⟨htl, hrc⟩ := (cellAt_some d _ _ tl rc).mp hc
          -- the instance's own reference is well formed: its target precedes this cell
          have hiok := hcp.insts i (List.mem_of_getElem? hi)
          simp only [AInst.okB, Bool.and_eq_true] at hiok
          have hb := before_of_B _ _ _ _ hiok.1.1.1
          obtain ⟨_, _, hget⟩ := scope_defs d hw L D l hl i.li i.di hb tl rc htl hrc rc.name.ident tl.name.ident rfl rfl
          -- the referenced cell is well formed itself
          have hrcp := cellParts d i.li i.di rc (lib_cell d i.li tl (hw.libs _ _ htl) i.di rc hrc)
          refine ⟨i.elab, i.li, i.di, rc.elab, p.elab, validIdentTok_of_check _ (spellsB_id _ _ hrest.1),
            validIdentTok_of_check _ (spellsB_id _ _ hisp), ?_, ?_, rfl, hget, ?_, ?_, hrest.2⟩
          · show findIdent ((c.insts.map AInst.elab).map (·.data)) isp = some ii
            rw [List.map_map]
            exact findIdent_elab (fun x : AInst => x.elab.data) (·.name) c.insts identOf_AInst_elab
              (okB_of_nodup_ident _ hcp.instNames) ii i hi isp (spellsB_lower _ _ hisp)
          · show (c.insts.map AInst.elab)[ii]? = _
            rw [List.getElem?_map, hi]; rfl
          · show findIdent ((rc.ports.map APort.elab).map (·.data)) sp = some pi
            rw [List.map_map]
            exact findIdent_elab (fun x : APort => x.elab.data) (·.name) rc.ports identOf_APort_elab
              (okB_of_nodup_ident _ hrcp.portNames) pi p hp sp (spellsB_lower _ _ hrest.1)
          · show (rc.ports.map APort.elab)[pi]? = _
            rw [List.getElem?_map, hp]; rfl

theorem cell_okIn (d : ADesign) (hw : WFParts d) (L D : Nat) (l : ALib) (hl : d.libs[L]? = some l)
    (c : ACell) (hc : l.cells[D]? = some c) : c.OKIn (scopeAtA d L D l) := by
  have hlok := hw.libs L l hl
  have hcp := cellParts d L D c (lib_cell d L l hlok D c hc)
  have hcn : c.name.okB = true :=
    namesOKB_ok _ (lib_cellNames d L l hlok) _ (List.mem_map_of_mem (List.mem_of_getElem? hc))
  refine ⟨hcn, hcp.view, hcp.portNames, hcp.ports, hcp.instNames, ?_, ?_, hcp.nets, ?_, hcp.nodup⟩
  · intro i hi p hp
    have := hcp.insts i hi
    simp only [AInst.okB, Bool.and_eq_true, List.all_eq_true] at this
    exact this.1.2 p hp
  · intro i hi
    exact inst_resolves d hw L D l hl i (hcp.insts i hi)
  · intro n hn pin hp
    exact pin_resolves d hw L D l hl c hcp pin (hcp.pins n hn pin hp)

/-- **`wf` gives every hypothesis of the file-level statement** -/
theorem design_ok (d : ADesign) (h : d.wf = true) : d.OK := by
  have hw := wfParts d h
  obtain ⟨l, c, hl, hc, hcs, hls⟩ := hw.target
  refine ⟨hw.name, hw.top, hw.libNames, ?_, validIdentTok_of_check _ (spellsB_id _ _ hcs),
    validIdentTok_of_check _ (spellsB_id _ _ hls), ?_⟩
  · intro L l' hl'
    exact ⟨lib_cellNames d L l' (hw.libs L l' hl'), fun D c' hc' => cell_okIn d hw L D l' hl' c' hc'⟩
  · refine ⟨l.elab, ?_, ?_, ?_⟩
    · rw [List.map_map]
      exact findIdent_elab (fun x : ALib => x.elab.data) (·.name) d.libs identOf_ALib_data
        (okB_of_nodup_ident _ hw.libNames) d.topLi l hl d.topLibSp (spellsB_lower _ _ hls)
    · rw [List.getElem?_map, hl]; rfl
    · show findIdent ((l.cells.map ACell.elab).map (·.data)) d.topCellSp = some d.topDi
      rw [List.map_map]
      exact findIdent_elab (fun x : ACell => x.elab.data) (·.name) l.cells identOf_ACell_data
        (okB_of_nodup_ident _ (lib_cellNames d _ l (hw.libs _ l hl))) d.topDi c hc d.topCellSp (spellsB_lower _ _ hcs)

end Spydr.Edif
