/-
  Noise keeps the keys that matter: what the reader stores for comments, properties and status blocks
  goes under dictionary keys outside any given key set `K` (for the element-level prefixes), so the
  values under `K` stay what they were.  `K`-generic form of Names1.lean; on arbitrary input.
-/
import Spydr.Edif.Names3
namespace Spydr.Edif

/-- `d'` has the same values as `d` under the keys of `K` -/
def SameOn (K : List Str) (d d' : Data) : Prop := ∀ k ∈ K, d'.get? k = d.get? k

theorem SameOn.refl (K : List Str) (d : Data) : SameOn K d d := fun _ _ => rfl
theorem SameOn.trans {K : List Str} {a b c : Data} (h1 : SameOn K a b) (h2 : SameOn K b c) : SameOn K a c :=
  fun k hk => (h2 k hk).trans (h1 k hk)
theorem SameOn.symm {K : List Str} {a b : Data} (h : SameOn K a b) : SameOn K b a := fun k hk => (h k hk).symm

/-- a prefix whose key is neither a name-setting key nor a key of `K` -/
def PlainK (K : List Str) (p : List Str) : Prop := joinDot p ≠ kIDENT ∧ joinDot p ≠ kORIG ∧ ∀ k ∈ K, joinDot p ≠ k

def NoSpecialK (K : List Str) (p : List Str) : Prop := ∀ ext, PlainK K (p ++ ext)

theorem NoSpecialK.plain {K : List Str} {p : List Str} (h : NoSpecialK K p) : PlainK K p := by simpa using h []

theorem NoSpecialK.push {K : List Str} {p : List Str} (h : NoSpecialK K p) (s : Str) : NoSpecialK K (p ++ [s]) := by
  intro ext; rw [List.append_assoc]; exact h _

theorem sameOn_set (K : List Str) (d : Data) (k : Str) (v : Val) (h : ∀ k' ∈ K, k ≠ k') : SameOn K d (d.set k v) :=
  fun k' hk' => Data.get?_set_other _ _ _ _ (Ne.symm (h k' hk'))

theorem sameOn_erase (K : List Str) (d : Data) (k : Str) (h : ∀ k' ∈ K, k ≠ k') : SameOn K d (d.erase k) :=
  fun k' hk' => Data.get?_erase_other _ _ _ (Ne.symm (h k' hk'))

theorem setAttr_sameK (K : List Str) (m m' : Meta) (v : Val) (hp : PlainK K m.pfx) (h : setAttr m v = .ok m') :
    m'.pfx = m.pfx ∧ SameOn K m.data m'.data := by
  obtain ⟨p1, p2, p3⟩ := hp
  unfold setAttr at h
  simp only [Meta.key] at h
  rw [if_neg (by exact p2), if_neg p1] at h
  simp only [pure, Except.pure, Except.ok.injEq] at h
  subst h
  exact ⟨rfl, sameOn_set K _ _ _ p3⟩

theorem appendAttr_sameK (K : List Str) (m : Meta) (v : Val) (hp : PlainK K m.pfx) :
    (appendAttr m v).pfx = m.pfx ∧ SameOn K m.data (appendAttr m v).data := by
  obtain ⟨p1, _, p3⟩ := hp
  unfold appendAttr
  simp only [Meta.key]
  split <;> exact ⟨rfl, sameOn_set K _ _ _ p3⟩

theorem parseRename_sameK (K : List Str) (m m' : Meta) (ys : List SExp) (hp : NoSpecialK K m.pfx) (h : parseRename m ys = .ok m') :
    m'.pfx = m.pfx ∧ SameOn K m.data m'.data := by
  unfold parseRename at h
  split at h
  · split at h
    · simp only [bind, Except.bind] at h
      split at h
      · cases h
      · split at h
        · cases h
        · rename_i m1 hm1
          split at h
          · cases h
          · split at h
            · cases h
            · rename_i m2 hm2
              simp only [pure, Except.pure, Except.ok.injEq] at h
              subst h
              obtain ⟨e1, s1⟩ := setAttr_sameK K _ _ _ (by simpa [Meta.push] using hp [S "identifier"]) hm1
              have e1' : m1.pop.pfx = m.pfx := pop_pfx m m1 "identifier" e1
              obtain ⟨e2, s2⟩ := setAttr_sameK K _ _ _
                (by simpa [Meta.push, e1'] using hp [S "original_identifier"]) hm2
              refine ⟨?_, ?_⟩
              · exact (pop_pfx m1.pop m2 "original_identifier" e2).trans e1'
              · exact (show SameOn K m.data m1.data from s1).trans s2
    · cases h
  · cases h

theorem nameDef_sameK (K : List Str) (m m' : Meta) (xs rest : List SExp) (hp : NoSpecialK K m.pfx) (h : nameDef m xs = .ok (m', rest)) :
    m'.pfx = m.pfx ∧ SameOn K m.data m'.data := by
  unfold nameDef at h
  split at h
  · simp only [bind, Except.bind] at h
    split at h
    · cases h
    · rename_i m1 hm1
      simp only [pure, Except.pure, Except.ok.injEq, Prod.mk.injEq] at h
      rw [← h.1]
      exact parseRename_sameK K m m1 _ hp hm1
  · simp only [bind, Except.bind] at h
    split at h
    · cases h
    · split at h
      · cases h
      · rename_i m1 hm1
        simp only [pure, Except.pure, Except.ok.injEq, Prod.mk.injEq] at h
        rw [← h.1]
        obtain ⟨e1, s1⟩ := setAttr_sameK K _ _ _ (by simpa [Meta.push] using hp [S "identifier"]) hm1
        exact ⟨pop_pfx m m1 "identifier" e1, s1⟩
  · cases h

theorem parseComment_sameK (K : List Str) (m m' : Meta) (ys : List SExp) (hp : PlainK K (m.pfx ++ [S "comments"]))
    (h : parseComment m ys = .ok m') : m'.pfx = m.pfx ∧ SameOn K m.data m'.data := by
  unfold parseComment at h
  simp only [bind, Except.bind] at h
  split at h
  · cases h
  · simp only [pure, Except.pure, Except.ok.injEq] at h
    subst h
    obtain ⟨e1, s1⟩ := appendAttr_sameK K (m.push "comments") (.list (List.map Val.str _)) (by simpa [Meta.push] using hp)
    exact ⟨pop_pfx m _ "comments" e1, s1⟩

theorem propLike_sameK (K : List Str) (m m' : Meta) (rest : List SExp) (hp : NoSpecialK K m.pfx) (h : propLike m rest = .ok m') :
    m'.pfx = m.pfx.dropLast ∧ SameOn K m.data m'.data := by
  unfold propLike at h
  simp only [bind, Except.bind] at h
  split at h
  · cases h
  · rename_i v hv
    obtain ⟨m1, rest1⟩ := v
    obtain ⟨e1, s1⟩ := nameDef_sameK K m m1 _ _ hp hv
    have hid : PlainK K (m1.pfx ++ [S "identifier"]) := by rw [e1]; exact hp _
    have hor : PlainK K (m1.pfx ++ [S "original_identifier"]) := by rw [e1]; exact hp _
    have hpl : PlainK K m1.pfx := by rw [e1]; exact (NoSpecialK.plain hp)
    simp only at h
    peel h
    all_goals
      simp only [Except.ok.injEq] at h
      subst h
      first
      | exact ⟨by simp only [Meta.pop, e1]; exact congrArg List.dropLast (appendAttr_sameK K _ _ (by simpa using (NoSpecialK.plain hp))).1,
          s1.trans (SameOn.trans ((sameOn_erase K _ _ hid.2.2).trans (sameOn_erase K _ _ hor.2.2))
            (appendAttr_sameK K { m1 with data := _ } _ (by simpa using hpl)).2)⟩
      | exact ⟨by simp only [Meta.pop, e1]; exact congrArg List.dropLast (appendAttr_sameK K _ _ (by simpa using (NoSpecialK.plain hp))).1,
          s1.trans (SameOn.trans (sameOn_erase K _ _ hid.2.2)
            (appendAttr_sameK K { m1 with data := _ } _ (by simpa using hpl)).2)⟩

theorem parseProperty_sameK (K : List Str) (m m' : Meta) (ys : List SExp) (hp : NoSpecialK K (m.pfx ++ [S "properties"]))
    (h : parseProperty m ys = .ok m') : m'.pfx = m.pfx ∧ SameOn K m.data m'.data := by
  have := propLike_sameK K (m.push "properties") m' ys.tail (by simpa [Meta.push] using hp) h
  exact ⟨by rw [this.1, dropLast_push], this.2⟩

theorem parseMetax_sameK (K : List Str) (m m' : Meta) (ys : List SExp) (hp : NoSpecialK K (m.pfx ++ [S "metaxes"]))
    (h : parseMetax m ys = .ok m') : m'.pfx = m.pfx ∧ SameOn K m.data m'.data := by
  have := propLike_sameK K (m.push "metaxes") m' ys.tail (by simpa [Meta.push] using hp) h
  exact ⟨by rw [this.1, dropLast_push], this.2⟩

/-- the state of a loop over a dictionary: prefix unchanged, names unchanged -/
def KeptK (K : List Str) (p : List Str) (d0 : Data) (m : Meta) : Prop := m.pfx = p ∧ SameOn K d0 m.data

theorem KeptK.step {K : List Str} {p : List Str} {d0 : Data} {m m' : Meta} (h : KeptK K p d0 m)
    (h' : m'.pfx = m.pfx ∧ SameOn K m.data m'.data) : KeptK K p d0 m' :=
  ⟨h'.1.trans h.1, h.2.trans h'.2⟩

theorem writtenItem_sameK (K : List Str) (p : List Str) (d0 : Data) (s s' : WrittenSt) (ys : List SExp) (hp : NoSpecialK K p)
    (hk : KeptK K p d0 s.m) (h : writtenItem s ys = .ok s') : KeptK K p d0 s'.m := by
  have hpp : ∀ ext, PlainK K (s.m.pfx ++ ext) := by rw [hk.1]; exact hp
  have hns : ∀ x : Str, NoSpecialK K (s.m.pfx ++ [x]) := by rw [hk.1]; exact fun x => (NoSpecialK.push hp) x
  unfold writtenItem at h
  peel h
  all_goals (simp only [Except.ok.injEq] at h; subst h)
  · rename_i m1 hm1
    obtain ⟨e1, s1⟩ := setAttr_sameK K _ _ _ (by simpa [Meta.push] using hpp [S "author"]) hm1
    exact hk.step ⟨pop_pfx s.m m1 "author" e1, s1⟩
  · rename_i m1 hm1
    obtain ⟨e1, s1⟩ := setAttr_sameK K _ _ _ (by simpa [Meta.push] using hpp [S "program"]) hm1
    exact hk.step ⟨pop_pfx s.m m1 "program" e1, s1⟩
  · rename_i _ _ _ _ m1 hm1 _ _ _ _ m2 hm2
    obtain ⟨e1, s1⟩ := setAttr_sameK K _ _ _ (by simpa [Meta.push] using hpp [S "program"]) hm1
    obtain ⟨e2, s2⟩ := setAttr_sameK K _ _ _ (by simpa [Meta.push, e1] using hpp [S "program", S "version"]) hm2
    refine hk.step ⟨?_, (show SameOn K s.m.data m1.data from s1).trans s2⟩
    simp [Meta.pop, e2, Meta.push, e1]
  · exact hk.step (parseProperty_sameK K _ _ _ (hns _) (by assumption))
  · exact hk.step (parseMetax_sameK K _ _ _ (hns _) (by assumption))
  · exact hk.step (parseComment_sameK K _ _ _ (hpp _) (by assumption))

theorem parseWritten_sameK (K : List Str) (m m' : Meta) (ys : List SExp) (hp : NoSpecialK K (m.pfx ++ [S "written"]))
    (h : parseWritten m ys = .ok m') : m'.pfx = m.pfx ∧ SameOn K m.data m'.data := by
  unfold parseWritten at h
  simp only at h
  peel h
  rename_i m1 hm1 _ v hv _ _ _
  simp only [Except.ok.injEq] at h
  subst h
  obtain ⟨e1, s1⟩ := setAttr_sameK K _ _ _ (by simpa [Meta.push] using hp [S "timeStamp"]) hm1
  have hk0 : KeptK K (m.pfx ++ [S "written"]) m.data m1.pop := by
    refine ⟨?_, s1⟩
    simp [Meta.pop, e1, Meta.push]
  have := loopC_inv writtenItem (fun s => KeptK K (m.pfx ++ [S "written"]) m.data s.m)
    (fun a ys b ha hb => writtenItem_sameK K _ _ a b ys hp ha hb) _ { m := m1.pop } v.1 v.2 hk0 hv
  exact ⟨by simp [Meta.pop, this.1], this.2⟩

theorem statusItem_sameK (K : List Str) (m m' : Meta) (ys : List SExp) (hp : NoSpecialK K m.pfx)
    (h : statusItem m ys = .ok m') : m'.pfx = m.pfx ∧ SameOn K m.data m'.data := by
  unfold statusItem at h
  peel h
  · exact parseWritten_sameK K m m' ys ((NoSpecialK.push hp) _) h
  · exact parseComment_sameK K m m' ys (hp _) h

theorem parseStatus_sameK (K : List Str) (m m' : Meta) (ys : List SExp) (hp : NoSpecialK K (m.pfx ++ [S "status"]))
    (h : parseStatus m ys = .ok m') : m'.pfx = m.pfx ∧ SameOn K m.data m'.data := by
  unfold parseStatus at h
  peel h
  rename_i v hv _ _ _
  simp only [Except.ok.injEq] at h
  subst h
  have hk0 : KeptK K (m.pfx ++ [S "status"]) m.data (m.push "status") := ⟨by simp [Meta.push], SameOn.refl K _⟩
  have := loopC_inv statusItem (fun s => KeptK K (m.pfx ++ [S "status"]) m.data s)
    (fun a ys b ha hb => ha.step (statusItem_sameK K a b ys (by rw [ha.1]; exact hp) hb)) _ _ v.1 v.2 hk0 hv
  exact ⟨by simp [Meta.pop, this.1], this.2⟩


end Spydr.Edif
