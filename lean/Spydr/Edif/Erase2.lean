/-
  Erasure, part 2: the key sets that matter, the relation "same netlist up to the noise keys", and the
  two-run lemmas for the dictionary operations that both runs perform.
-/
import Spydr.Edif.Erase1
import Spydr.Edif.Abstract
namespace Spydr.Edif

/-! ### key sets -/

/-- what later steps of the reader (and `view05`) look at in the dictionary of a port, cable, definition,
    library or netlist -/
def KO : List Str := [kIDENT, kNAME, kVIEWID, kEXT]

/-- … and in the dictionary of an instance (its properties are kept) -/
def KI : List Str := [kIDENT, kNAME, kPROPS, kPID, kPORIG]

/-- a key of the form `EDIF.<ck>…` with `ck ≠ c`, or `.NAME` -/
def okKey6 (c : Char) (k : Str) : Bool :=
  k == kNAME ||
  (match k with
   | 'E' :: 'D' :: 'I' :: 'F' :: '.' :: ck :: _ => ck != c
   | _ => false)

theorem ne_of_okKey6 (c : Char) (t k : Str) (h : okKey6 c k = true) : 'E' :: 'D' :: 'I' :: 'F' :: '.' :: c :: t ≠ k := by
  intro e
  subst e
  unfold okKey6 at h
  rw [Bool.or_eq_true] at h
  rcases h with h | h
  · have h' := beq_iff_eq.mp h
    rw [show kNAME = '.' :: "NAME".toList from by decide] at h'
    simp at h'
  · simp at h

theorem noSpecialK_lit6 (K : List Str) (c : Char) (xs : Str) (h : (kIDENT :: kORIG :: K).all (okKey6 c) = true) :
    NoSpecialK K [S "EDIF", c :: xs] := by
  intro ext
  obtain ⟨t, ht⟩ := joinDot_head c xs ext
  have e : joinDot ([S "EDIF", c :: xs] ++ ext) = 'E' :: 'D' :: 'I' :: 'F' :: '.' :: c :: t := by
    show joinDot (S "EDIF" :: (c :: xs) :: ext) = _
    rw [joinDot_cons_cons, ht]; rfl
  rw [List.all_eq_true] at h
  refine ⟨?_, ?_, ?_⟩
  · rw [e]; exact ne_of_okKey6 c t _ (h _ (by simp))
  · rw [e]; exact ne_of_okKey6 c t _ (h _ (by simp))
  · intro k hk; rw [e]; exact ne_of_okKey6 c t _ (h _ (by simp [hk]))

/-- a key that is not `EDIF.view.<c>…` -/
def okKey11 (c : Char) (k : Str) : Bool :=
  match k with
  | 'E' :: 'D' :: 'I' :: 'F' :: '.' :: 'v' :: 'i' :: 'e' :: 'w' :: '.' :: ck :: _ => ck != c
  | _ => true

theorem ne_of_okKey11 (c : Char) (t k : Str) (h : okKey11 c k = true) :
    'E' :: 'D' :: 'I' :: 'F' :: '.' :: 'v' :: 'i' :: 'e' :: 'w' :: '.' :: c :: t ≠ k := by
  intro e
  subst e
  simp [okKey11] at h

theorem noSpecialK_view (K : List Str) (c : Char) (xs : Str) (h : (kIDENT :: kORIG :: K).all (okKey11 c) = true) :
    NoSpecialK K [S "EDIF", S "view", c :: xs] := by
  intro ext
  obtain ⟨t, ht⟩ := joinDot_head c xs ext
  have e : joinDot ([S "EDIF", S "view", c :: xs] ++ ext) =
      'E' :: 'D' :: 'I' :: 'F' :: '.' :: 'v' :: 'i' :: 'e' :: 'w' :: '.' :: c :: t := by
    show joinDot (S "EDIF" :: S "view" :: (c :: xs) :: ext) = _
    rw [joinDot_cons_cons, joinDot_cons_cons, ht]; rfl
  rw [List.all_eq_true] at h
  refine ⟨?_, ?_, ?_⟩
  · rw [e]; exact ne_of_okKey11 c t _ (h _ (by simp))
  · rw [e]; exact ne_of_okKey11 c t _ (h _ (by simp))
  · intro k hk; rw [e]; exact ne_of_okKey11 c t _ (h _ (by simp [hk]))

theorem ns_comments_O : NoSpecialK KO [S "EDIF", S "comments"] := noSpecialK_lit6 KO 'c' "omments".toList (by decide)
theorem ns_properties_O : NoSpecialK KO [S "EDIF", S "properties"] := noSpecialK_lit6 KO 'p' "roperties".toList (by decide)
theorem ns_status_O : NoSpecialK KO [S "EDIF", S "status"] := noSpecialK_lit6 KO 's' "tatus".toList (by decide)
theorem ns_comments_I : NoSpecialK KI [S "EDIF", S "comments"] := noSpecialK_lit6 KI 'c' "omments".toList (by decide)
theorem ns_comments_V : NoSpecialK KO [S "EDIF", S "view", S "comments"] := noSpecialK_view KO 'c' "omments".toList (by decide)
theorem ns_properties_V : NoSpecialK KO [S "EDIF", S "view", S "properties"] := noSpecialK_view KO 'p' "roperties".toList (by decide)
theorem ns_status_V : NoSpecialK KO [S "EDIF", S "view", S "status"] := noSpecialK_view KO 's' "tatus".toList (by decide)

/-! ### what `SameOn` gives -/

theorem identOf_of_sameOn (K : List Str) (hk : kIDENT ∈ K) (d d' : Data) (h : SameOn K d d') : identOf d' = identOf d := by
  simp only [identOf, Data.getStr?, h kIDENT hk]

theorem nameOf_of_sameOn (K : List Str) (hk : kNAME ∈ K) (d d' : Data) (h : SameOn K d d') : nameOf d' = nameOf d := by
  simp only [nameOf, Data.getStr?, h kNAME hk]

theorem hasName_of_sameOn (K : List Str) (hk : kNAME ∈ K) (d d' : Data) (h : SameOn K d d') : d'.has kNAME = d.has kNAME := by
  simp only [Data.has, h kNAME hk]

theorem viewIdentOf_of_sameOn (d d' : Data) (h : SameOn KO d d') : viewIdentOf d' = viewIdentOf d := by
  have := h kVIEWID (by simp [KO])
  simp only [viewIdentOf, Data.getStr?]
  rw [show S "EDIF.view.identifier" = kVIEWID from rfl, this]

theorem sameOn_set_both (K : List Str) (d d' : Data) (k : Str) (v : Val) (h : SameOn K d d') : SameOn K (d.set k v) (d'.set k v) := by
  intro k' hk'
  by_cases e : k' = k
  · subst e; rw [Data.get?_set_self, Data.get?_set_self]
  · rw [Data.get?_set_other _ _ _ _ e, Data.get?_set_other _ _ _ _ e]; exact h k' hk'

theorem Data.get?_erase_self (d : Data) (k : Str) : (d.erase k).get? k = none := by
  induction d with
  | nil => rfl
  | cons a r ih =>
    obtain ⟨k', v'⟩ := a
    by_cases h1 : k' = k
    · subst h1
      have : Data.erase ((k', v') :: r) k' = Data.erase r k' := by simp [Data.erase]
      rw [this]; exact ih
    · have : Data.erase ((k', v') :: r) k = (k', v') :: Data.erase r k := by simp [Data.erase, h1]
      rw [this]
      simp only [Data.get?, h1, if_false]; exact ih

theorem sameOn_erase_both (K : List Str) (d d' : Data) (k : Str) (h : SameOn K d d') : SameOn K (d.erase k) (d'.erase k) := by
  intro k' hk'
  by_cases e : k' = k
  · subst e; rw [Data.get?_erase_self, Data.get?_erase_self]
  · rw [Data.get?_erase_other _ _ _ e, Data.get?_erase_other _ _ _ e]; exact h k' hk'

/-- two dictionaries under construction, one of them with noise: same prefix, same values under `K` -/
def MRel (K : List Str) (m m' : Meta) : Prop := m.pfx = m'.pfx ∧ SameOn K m.data m'.data

theorem MRel.refl (K : List Str) (m : Meta) : MRel K m m := ⟨rfl, SameOn.refl K _⟩

/-- a noise step on the first run only -/
theorem MRel.noise {K : List Str} {m m1 m' : Meta} (h : MRel K m m') (hn : m1.pfx = m.pfx ∧ SameOn K m.data m1.data) :
    MRel K m1 m' :=
  ⟨hn.1.trans h.1, fun k hk => (h.2 k hk).trans ((hn.2 k hk).symm)⟩

theorem MRel.push {K : List Str} {m m' : Meta} (h : MRel K m m') (s : String) : MRel K (m.push s) (m'.push s) :=
  ⟨by simp [Meta.push, h.1], h.2⟩

theorem MRel.pop {K : List Str} {m m' : Meta} (h : MRel K m m') : MRel K m.pop m'.pop :=
  ⟨by simp [Meta.pop, h.1], h.2⟩

/-! ### the dictionary operations both runs perform -/

theorem setAttr_rel (K : List Str) (hn : kNAME ∈ K) (m m' m1 : Meta) (v : Val) (h : MRel K m m')
    (hs : setAttr m v = .ok m1) : ∃ m1', setAttr m' v = .ok m1' ∧ MRel K m1 m1' := by
  obtain ⟨hp, hd⟩ := h
  have hkey : m'.key = m.key := by simp [Meta.key, hp]
  have hhas : m'.data.has kNAME = m.data.has kNAME := hasName_of_sameOn K hn _ _ hd
  unfold setAttr at hs ⊢
  simp only [hkey] at hs ⊢
  by_cases h1 : m.key = S "EDIF.original_identifier"
  · simp only [h1, if_true, pure, Except.pure, Except.ok.injEq] at hs ⊢
    subst hs
    exact ⟨_, rfl, hp, sameOn_set_both K _ _ _ _ hd⟩
  · simp only [h1, if_false] at hs ⊢
    by_cases h2 : m.key = kIDENT
    · simp only [h2, if_true] at hs ⊢
      cases v with
      | str s =>
        simp only at hs ⊢
        by_cases hc : checkEdifIdentifier s = true
        · simp only [hc, if_true, pure, Except.pure, Except.ok.injEq] at hs ⊢
          subst hs
          refine ⟨_, rfl, hp, ?_⟩
          simp only [hhas]
          split
          · exact sameOn_set_both K _ _ _ _ hd
          · exact sameOn_set_both K _ _ _ _ (sameOn_set_both K _ _ _ _ hd)
        · simp [hc] at hs
      | null => cases hs
      | bool b => cases hs
      | int i => cases hs
      | list xs => cases hs
      | obj kv => cases hs
    · simp only [h2, if_false, pure, Except.pure, Except.ok.injEq] at hs ⊢
      subst hs
      exact ⟨_, rfl, hp, sameOn_set_both K _ _ _ _ hd⟩

theorem appendAttr_rel (K : List Str) (m m' : Meta) (v : Val) (h : MRel K m m') (hk : m.key ∈ K) :
    MRel K (appendAttr m v) (appendAttr m' v) := by
  obtain ⟨hp, hd⟩ := h
  have hkey : m'.key = m.key := by simp [Meta.key, hp]
  have hget : m'.data.get? m.key = m.data.get? m.key := hd _ hk
  unfold appendAttr
  rw [hkey]
  simp only [hget]
  split <;> exact ⟨hp, sameOn_set_both K _ _ _ _ hd⟩

theorem parseRename_rel (K : List Str) (hn : kNAME ∈ K) (m m' m1 : Meta) (ys : List SExp) (h : MRel K m m')
    (hs : parseRename m ys = .ok m1) : ∃ m1', parseRename m' ys = .ok m1' ∧ MRel K m1 m1' := by
  unfold parseRename at hs ⊢
  split at hs
  · split at hs
    · rename_i hkw
      simp only [hkw, if_true, bind, Except.bind] at hs ⊢
      split at hs
      · cases hs
      · rename_i ident hident
        try simp only [hident]
        split at hs
        · cases hs
        · rename_i ma hma
          obtain ⟨ma', hma', hra⟩ := setAttr_rel K hn _ _ _ _ (h.push "identifier") hma
          simp only [hma']
          split at hs
          · cases hs
          · rename_i orig horig
            try simp only [horig]
            split at hs
            · cases hs
            · rename_i mb hmb
              obtain ⟨mb', hmb', hrb⟩ := setAttr_rel K hn _ _ _ _ (hra.pop.push "original_identifier") hmb
              simp only [hmb', pure, Except.pure, Except.ok.injEq] at hs ⊢
              subst hs
              exact ⟨_, rfl, hrb.pop⟩
    · cases hs
  · cases hs

theorem nameDef_rel (K : List Str) (hn : kNAME ∈ K) (m m' m1 : Meta) (xs rest : List SExp) (h : MRel K m m')
    (hs : nameDef m xs = .ok (m1, rest)) : ∃ m1', nameDef m' xs = .ok (m1', rest) ∧ MRel K m1 m1' := by
  unfold nameDef at hs ⊢
  split at hs
  · simp only [bind, Except.bind] at hs ⊢
    split at hs
    · cases hs
    · rename_i ma hma
      obtain ⟨ma', hma', hra⟩ := parseRename_rel K hn _ _ _ _ h hma
      simp only [hma', pure, Except.pure, Except.ok.injEq, Prod.mk.injEq] at hs ⊢
      obtain ⟨rfl, rfl⟩ := hs
      exact ⟨_, ⟨rfl, rfl⟩, hra⟩
  · simp only [bind, Except.bind] at hs ⊢
    split at hs
    · cases hs
    · rename_i ident hident
      try simp only [hident]
      split at hs
      · cases hs
      · rename_i ma hma
        obtain ⟨ma', hma', hra⟩ := setAttr_rel K hn _ _ _ _ (h.push "identifier") hma
        simp only [hma', pure, Except.pure, Except.ok.injEq, Prod.mk.injEq] at hs ⊢
        obtain ⟨rfl, rfl⟩ := hs
        exact ⟨_, ⟨rfl, rfl⟩, hra.pop⟩
  · cases hs

end Spydr.Edif
