/-
  Erasure, part 3: netlists that agree up to the noise keys; lookups, reference resolution and pin
  references see no difference.
-/
import Spydr.Edif.Erase2
namespace Spydr.Edif

/-- two lists related element by element -/
inductive All2 {α β : Type} (R : α → β → Prop) : List α → List β → Prop where
  | nil : All2 R [] []
  | cons {a : α} {b : β} {xs : List α} {ys : List β} : R a b → All2 R xs ys → All2 R (a :: xs) (b :: ys)

theorem All2.length_eq {α β : Type} {R : α → β → Prop} {xs : List α} {ys : List β} (h : All2 R xs ys) : xs.length = ys.length := by
  induction h with
  | nil => rfl
  | cons _ _ ih => simp [ih]

/-! ### lists of dictionaries with the same identifiers and names -/

def NameEq (d d' : Data) : Prop := identOf d = identOf d' ∧ nameOf d = nameOf d'

theorem nameEq_of_sameOn (K : List Str) (h1 : kIDENT ∈ K) (h2 : kNAME ∈ K) (d d' : Data) (h : SameOn K d d') : NameEq d d' :=
  ⟨(identOf_of_sameOn K h1 d d' h).symm, (nameOf_of_sameOn K h2 d d' h).symm⟩

theorem findIdent_congr (ds ds' : List Data) (h : All2 NameEq ds ds') (s : Str) : findIdent ds s = findIdent ds' s := by
  unfold findIdent
  induction h with
  | nil => rfl
  | cons hd _ ih => simp only [List.findIdx?_cons, hd.1, ih]

theorem findName_congr (ds ds' : List Data) (h : All2 NameEq ds ds') (s : Str) : findName ds s = findName ds' s := by
  unfold findName
  induction h with
  | nil => rfl
  | cons hd _ ih => simp only [List.findIdx?_cons, hd.2, ih]

theorem conflicts_congr_left (ds ds' : List Data) (h : All2 NameEq ds ds') (d : Data) : conflicts ds d = conflicts ds' d := by
  unfold conflicts
  induction h with
  | nil => rfl
  | cons hh _ ih => simp only [List.any_cons, hh.1, hh.2, ih]

theorem conflicts_congr_right (ds : List Data) (d d' : Data) (hd : NameEq d d') : conflicts ds d = conflicts ds d' := by
  unfold conflicts
  simp only [hd.1, hd.2]

theorem conflicts_congr (ds ds' : List Data) (h : All2 NameEq ds ds') (d d' : Data) (hd : NameEq d d') :
    conflicts ds d = conflicts ds' d' :=
  (conflicts_congr_left ds ds' h d).trans (conflicts_congr_right ds' d d' hd)

theorem forall₂_get {α β : Type} {R : α → β → Prop} {xs : List α} {ys : List β} (h : All2 R xs ys) (i : Nat) (a : α)
    (ha : xs[i]? = some a) : ∃ b, ys[i]? = some b ∧ R a b := by
  induction h generalizing i with
  | nil => simp at ha
  | cons hh _ ih =>
    cases i with
    | zero => simp only [List.getElem?_cons_zero, Option.some.injEq] at ha; subst ha; exact ⟨_, rfl, hh⟩
    | succ j => simp only [List.getElem?_cons_succ] at ha ⊢; exact ih j ha

theorem forall₂_snoc {α β : Type} {R : α → β → Prop} {xs : List α} {ys : List β} (h : All2 R xs ys) {a : α} {b : β}
    (hab : R a b) : All2 R (xs ++ [a]) (ys ++ [b]) := by
  induction h with
  | nil => exact All2.cons hab All2.nil
  | cons hh _ ih => exact All2.cons hh ih

theorem forall₂_set {α β : Type} {R : α → β → Prop} {xs : List α} {ys : List β} (h : All2 R xs ys) (k : Nat) {a : α} {b : β}
    (hab : R a b) : All2 R (xs.set k a) (ys.set k b) := by
  induction h generalizing k with
  | nil => exact All2.nil
  | cons hh ht ih =>
    cases k with
    | zero => exact All2.cons hab ht
    | succ j => exact All2.cons hh (ih j)

theorem forall₂_map {α β : Type} {R : α → β → Prop} {Q : Data → Data → Prop} (f : α → Data) (g : β → Data) {xs : List α} {ys : List β}
    (h : All2 R xs ys) (hq : ∀ a b, R a b → Q (f a) (g b)) : All2 Q (xs.map f) (ys.map g) := by
  induction h with
  | nil => exact All2.nil
  | cons hh _ ih => exact All2.cons (hq _ _ hh) ih

/-! ### netlists that agree up to the noise keys -/

structure RelPort (p p' : CPort) : Prop where
  dir : p.dir = p'.dir
  width : p.width = p'.width
  flag : p.scalarFlag = p'.scalarFlag
  lower : p.lower = p'.lower
  data : SameOn KO p.data p'.data

structure RelInst (i i' : CInst) : Prop where
  ref : i.ref = i'.ref
  data : SameOn KI i.data i'.data

structure RelCable (c c' : CCable) : Prop where
  flag : c.scalarFlag = c'.scalarFlag
  lower : c.lower = c'.lower
  wires : c.wires = c'.wires
  data : SameOn KO c.data c'.data

structure RelDef (d d' : CDef) : Prop where
  data : SameOn KO d.data d'.data
  ports : All2 RelPort d.ports d'.ports
  insts : All2 RelInst d.insts d'.insts
  cables : All2 RelCable d.cables d'.cables

structure RelLib (l l' : CLib) : Prop where
  data : SameOn KO l.data l'.data
  defs : All2 RelDef l.defs l'.defs

theorem kI_O : kIDENT ∈ KO := by simp [KO]
theorem kN_O : kNAME ∈ KO := by simp [KO]
theorem kI_I : kIDENT ∈ KI := by simp [KI]
theorem kN_I : kNAME ∈ KI := by simp [KI]

theorem nameEq_ports {ps ps' : List CPort} (h : All2 RelPort ps ps') :
    All2 NameEq (ps.map (·.data)) (ps'.map (·.data)) :=
  forall₂_map _ _ h (fun a b hab => nameEq_of_sameOn KO kI_O kN_O _ _ hab.data)

theorem nameEq_insts {is is' : List CInst} (h : All2 RelInst is is') :
    All2 NameEq (is.map (·.data)) (is'.map (·.data)) :=
  forall₂_map _ _ h (fun a b hab => nameEq_of_sameOn KI kI_I kN_I _ _ hab.data)

theorem nameEq_cables {cs cs' : List CCable} (h : All2 RelCable cs cs') :
    All2 NameEq (cs.map (·.data)) (cs'.map (·.data)) :=
  forall₂_map _ _ h (fun a b hab => nameEq_of_sameOn KO kI_O kN_O _ _ hab.data)

theorem nameEq_defs {ds ds' : List CDef} (h : All2 RelDef ds ds') :
    All2 NameEq (ds.map (·.data)) (ds'.map (·.data)) :=
  forall₂_map _ _ h (fun a b hab => nameEq_of_sameOn KO kI_O kN_O _ _ hab.data)

theorem nameEq_libs {ls ls' : List CLib} (h : All2 RelLib ls ls') :
    All2 NameEq (ls.map (·.data)) (ls'.map (·.data)) :=
  forall₂_map _ _ h (fun a b hab => nameEq_of_sameOn KO kI_O kN_O _ _ hab.data)

/-! ### scopes -/

structure RelScope (sc sc' : Scope) : Prop where
  libs : All2 RelLib sc.libs sc'.libs
  cur : SameOn KO sc.curLib sc'.curLib
  defs : All2 RelDef sc.curDefs sc'.curDefs

theorem defsOfLib_rel (sc sc' : Scope) (h : RelScope sc sc') (li : Nat) :
    All2 RelDef (defsOfLib sc li) (defsOfLib sc' li) := by
  unfold defsOfLib
  rw [← h.libs.length_eq]
  split
  · exact h.defs
  · cases hl : sc.libs[li]? with
    | none =>
      have : sc'.libs[li]? = none := by
        rw [List.getElem?_eq_none_iff] at hl ⊢
        rw [← h.libs.length_eq]; exact hl
      rw [this]
      exact All2.nil
    | some l =>
      obtain ⟨l', hl', hr⟩ := forall₂_get h.libs li l hl
      rw [hl']
      exact hr.defs

/-! ### references (the same construct, read in related scopes) -/

theorem parseLibraryRef_scope (sc sc' : Scope) (h : RelScope sc sc') (m : Meta) (ys : List SExp) :
    parseLibraryRef sc' m ys = parseLibraryRef sc m ys := by
  unfold parseLibraryRef
  have e1 : identOf sc'.curLib = identOf sc.curLib := identOf_of_sameOn KO kI_O _ _ h.cur
  have e2 : ∀ s, findIdent (sc'.libs.map (·.data)) s = findIdent (sc.libs.map (·.data)) s :=
    fun s => (findIdent_congr _ _ (nameEq_libs h.libs) s).symm
  have e3 : sc'.libs.length = sc.libs.length := h.libs.length_eq.symm
  simp only [e1, e2, e3]

theorem parseCellRef_scope (sc sc' : Scope) (h : RelScope sc sc') (m : Meta) (ys : List SExp) :
    parseCellRef sc' m ys = parseCellRef sc m ys := by
  unfold parseCellRef
  have e2 : ∀ li s, findIdent ((defsOfLib sc' li).map (·.data)) s = findIdent ((defsOfLib sc li).map (·.data)) s :=
    fun li s => (findIdent_congr _ _ (nameEq_defs (defsOfLib_rel sc sc' h li)) s).symm
  have e3 : sc'.libs.length = sc.libs.length := h.libs.length_eq.symm
  simp only [parseLibraryRef_scope sc sc' h, e2, e3]

theorem parseViewRef_scope (sc sc' : Scope) (h : RelScope sc sc') (m : Meta) (ys : List SExp) (r : Nat × Nat)
    (hs : parseViewRef sc m ys = .ok r) : parseViewRef sc' m ys = .ok r := by
  unfold parseViewRef at hs ⊢
  simp only [parseCellRef_scope sc sc' h]
  split at hs
  · simp only [bind, Except.bind] at hs ⊢
    split at hs
    · cases hs
    · split at hs
      · cases hs
      · rename_i r0 hr0
        split at hs
        · cases hs
        · rename_i d hd
          obtain ⟨d', hd', hrd⟩ := forall₂_get (defsOfLib_rel sc sc' h r0.1) r0.2 d hd
          have hv := viewIdentOf_of_sameOn _ _ hrd.data
          simp only [hd', hv]
          exact hs
  · cases hs
  · cases hs

/-! ### pin references -/

structure RelCtx (cx cx' : DefCtx) : Prop where
  sc : RelScope cx.sc cx'.sc
  ports : All2 RelPort cx.ports cx'.ports
  insts : All2 RelInst cx.insts cx'.insts

theorem parsePortRef_ctx (cx cx' : DefCtx) (h : RelCtx cx cx') (ys : List SExp) (pin : CPin)
    (hs : parsePortRef cx ys = .ok pin) : parsePortRef cx' ys = .ok pin := by
  have e1 : ∀ s, findIdent (cx'.ports.map (·.data)) s = findIdent (cx.ports.map (·.data)) s :=
    fun s => (findIdent_congr _ _ (nameEq_ports h.ports) s).symm
  have e2 : ∀ s, findIdent (cx'.insts.map (·.data)) s = findIdent (cx.insts.map (·.data)) s :=
    fun s => (findIdent_congr _ _ (nameEq_insts h.insts) s).symm
  unfold parsePortRef at hs ⊢
  split at hs
  · cases hs
  · simp only [bind, Except.bind] at hs ⊢
    split at hs
    · cases hs
    · rename_i v hv
      -- the loop over instanceRef items uses the context only through `findIdent` on the instances
      have hloop : ∀ (xs : List SExp) (cur : Option Nat),
          loopC (portRefTail cx') cur xs = loopC (portRefTail cx) cur xs := by
        intro xs
        induction xs with
        | nil => intro cur; rfl
        | cons x r ih =>
          intro cur
          cases x with
          | atom a => rfl
          | list zs =>
            have : portRefTail cx' cur zs = portRefTail cx cur zs := by
              unfold portRefTail instanceRefOf
              simp only [e2]
            simp only [loopC, this, bind, Except.bind]
            cases portRefTail cx cur zs with
            | error e => rfl
            | ok c => exact ih c
      rw [hloop]
      split at hs
      · cases hs
      · split at hs
        · cases hs
        · split at hs
          · simp only [e1]
            split at hs
            · cases hs
            · rename_i pi _
              cases hp : cx.ports[pi]? with
              | none => rw [hp] at hs; cases hs
              | some p =>
                obtain ⟨p', hp', hr⟩ := forall₂_get h.ports pi p hp
                rw [hp] at hs
                simp only [hp', ← hr.width] at hs ⊢
                exact hs
          · rename_i ii _
            cases hi : cx.insts[ii]? with
            | none => rw [hi] at hs; cases hs
            | some inst =>
              obtain ⟨inst', hi', hri⟩ := forall₂_get h.insts ii inst hi
              rw [hi] at hs
              simp only [hi', ← hri.ref] at hs ⊢
              split at hs
              · cases hs
              · rename_i li di _
                cases hd : (defsOfLib cx.sc li)[di]? with
                | none => rw [hd] at hs; cases hs
                | some d =>
                  obtain ⟨d', hd', hrd⟩ := forall₂_get (defsOfLib_rel _ _ h.sc li) di d hd
                  rw [hd] at hs
                  simp only [hd', ← findIdent_congr _ _ (nameEq_ports hrd.ports)] at hs ⊢
                  split at hs
                  · cases hs
                  · rename_i pi _
                    cases hp : d.ports[pi]? with
                    | none => rw [hp] at hs; cases hs
                    | some p =>
                      obtain ⟨p', hp', hr⟩ := forall₂_get hrd.ports pi p hp
                      rw [hp] at hs
                      simp only [hp', ← hr.width] at hs ⊢
                      exact hs

end Spydr.Edif
