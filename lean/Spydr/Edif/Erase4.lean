/-
  Erasure, part 4: `strip` (removing comments, status blocks and the properties of everything but
  instances) and the simulation for ports, instances, nets and the net loop.
-/
import Spydr.Edif.Erase3
namespace Spydr.Edif

/-! ### removing items from an item list -/

/-- remove the noise items of an item list, transform the others; the loop stops at the first atom, so
    whatever follows it is left alone -/
def stripItems (isNoise : List SExp → Bool) (sub : List SExp → List SExp) : List SExp → List SExp
  | [] => []
  | .list ys :: r => if isNoise ys then stripItems isNoise sub r else .list (sub ys) :: stripItems isNoise sub r
  | .atom a :: r => .atom a :: r

def noiseIn (ks : List String) (ys : List SExp) : Bool := ks.any (headIs ys)

/-- the loop on the stripped list simulates the loop on the original list -/
theorem loopC_strip {σ : Type} (h : σ → List SExp → R σ) (isNoise : List SExp → Bool) (sub : List SExp → List SExp)
    (Rl : σ → σ → Prop)
    (hk : ∀ s s' ys s1, Rl s s' → isNoise ys = false → h s ys = .ok s1 → ∃ s1', h s' (sub ys) = .ok s1' ∧ Rl s1 s1')
    (hn : ∀ s s' ys s1, Rl s s' → isNoise ys = true → h s ys = .ok s1 → Rl s1 s') :
    ∀ (xs : List SExp) (s s' s1 : σ) (rest : List SExp), Rl s s' → loopC h s xs = .ok (s1, rest) →
      ∃ s1', loopC h s' (stripItems isNoise sub xs) = .ok (s1', rest) ∧ Rl s1 s1' := by
  intro xs
  induction xs with
  | nil =>
    intro s s' s1 rest hr hl
    simp only [loopC, pure, Except.pure, Except.ok.injEq, Prod.mk.injEq] at hl
    obtain ⟨rfl, rfl⟩ := hl
    exact ⟨s', rfl, hr⟩
  | cons x r ih =>
    intro s s' s1 rest hr hl
    cases x with
    | atom a =>
      simp only [loopC, pure, Except.pure, Except.ok.injEq, Prod.mk.injEq] at hl
      obtain ⟨rfl, rfl⟩ := hl
      exact ⟨s', rfl, hr⟩
    | list ys =>
      simp only [loopC, bind, Except.bind] at hl
      split at hl
      · cases hl
      · rename_i s2 hs2
        cases hnz : isNoise ys with
        | true =>
          simp only [stripItems, hnz, if_true]
          exact ih s2 s' s1 rest (hn s s' ys s2 hr hnz hs2) hl
        | false =>
          obtain ⟨s2', hs2', hr2⟩ := hk s s' ys s2 hr hnz hs2
          simp only [stripItems, hnz, Bool.false_eq_true, if_false, loopC, hs2', bind, Except.bind]
          exact ih s2 s2' s1 rest hr2 hl

/-- the same input through two step functions that agree on success -/
theorem loopC_mono {σ : Type} (h h' : σ → List SExp → R σ) (hh : ∀ s ys s1, h s ys = .ok s1 → h' s ys = .ok s1) :
    ∀ (xs : List SExp) (s : σ) (r : σ × List SExp), loopC h s xs = .ok r → loopC h' s xs = .ok r := by
  intro xs
  induction xs with
  | nil => intro s r hl; exact hl
  | cons x t ih =>
    intro s r hl
    cases x with
    | atom a => exact hl
    | list ys =>
      simp only [loopC, bind, Except.bind] at hl ⊢
      split at hl
      · cases hl
      · rename_i s2 hs2
        rw [hh s ys s2 hs2]
        exact ih s2 r hl

/-! ### `strip`, construct by construct -/

/-- the direction token in capitals (the reader compares it ignoring case) -/
def canonDirTok (t : SExp) : SExp :=
  if isKw t "inout" then A "INOUT" else if isKw t "input" then A "INPUT" else if isKw t "output" then A "OUTPUT" else t

def subPort (ys : List SExp) : List SExp :=
  match ys with
  | [k, t] => if isKw k "direction" then [k, canonDirTok t] else ys
  | _ => ys

/-- a port: properties and comments go; the direction is written in capitals -/
def stripPort (ys : List SExp) : List SExp :=
  match ys with
  | kw :: nm :: items => kw :: nm :: stripItems (noiseIn ["property", "comment"]) subPort items
  | _ => ys

/-- a property that is kept: its `(owner …)` goes (the reader checks it and stores nothing) -/
def stripProp (ys : List SExp) : List SExp :=
  match ys with
  | kw :: nm :: v :: tail => kw :: nm :: v :: stripItems (noiseIn ["owner"]) id tail
  | _ => ys

def subInst (ys : List SExp) : List SExp := if headIs ys "property" then stripProp ys else ys

/-- an instance: comments go (its properties are kept, without their owner) -/
def stripInst (ys : List SExp) : List SExp :=
  match ys with
  | kw :: nm :: vr :: items => kw :: nm :: vr :: stripItems (noiseIn ["comment"]) subInst items
  | _ => ys

/-- a net: properties and comments go -/
def stripNet (ys : List SExp) : List SExp :=
  match ys with
  | kw :: nm :: jn :: items => kw :: nm :: jn :: stripItems (noiseIn ["property", "comment"]) id items
  | _ => ys

/-! ### ports -/

def PortStRel (s s' : PortSt) : Prop :=
  s.m.pfx = [S "EDIF"] ∧ MRel KO s.m s'.m ∧ s.dir = s'.dir ∧ s.hasDir = s'.hasDir

theorem headIs_two (ys : List SExp) (a b : String) (ha : headIs ys a = true) (hb : headIs ys b = true) : S a = S b := by
  cases ys with
  | nil => simp [headIs] at ha
  | cons x r =>
    cases x with
    | list zs => simp [headIs, isKw] at ha
    | atom s =>
      simp only [headIs, isKw, beq_iff_eq] at ha hb
      rw [← ha, ← hb]

/-- an item that is noise in a context is not one of the kept constructs of that context -/
theorem not_kept_of_noise (ks : List String) (ys : List SExp) (k : String) (hn : noiseIn ks ys = true)
    (hk : ∀ x ∈ ks, S x ≠ S k) : headIs ys k = false := by
  cases hh : headIs ys k with
  | false => rfl
  | true =>
    simp only [noiseIn, List.any_eq_true] at hn
    obtain ⟨x, hx, hxs⟩ := hn
    exact absurd (headIs_two ys x k hxs hh) (hk x hx)

theorem headIs_subPort (ys : List SExp) (k : String) : headIs (subPort ys) k = headIs ys k := by
  unfold subPort
  split
  · split <;> rfl
  · rfl

theorem parseDirection_canon (ys : List SExp) (d : Dir) (h : parseDirection ys = .ok d) :
    parseDirection (subPort ys) = .ok d := by
  unfold parseDirection at h
  split at h
  · rename_i k t
    unfold subPort
    simp only
    split
    · unfold canonDirTok parseDirection
      split at h
      · rename_i h1; simp only [h1, if_true]; exact h
      · rename_i h1
        simp only [h1, Bool.false_eq_true, if_false]
        split at h
        · rename_i h2; simp only [h2, if_true]; exact h
        · rename_i h2
          simp only [h2, Bool.false_eq_true, if_false]
          split at h
          · rename_i h3; simp only [h3, if_true]; exact h
          · cases h
    · unfold parseDirection
      exact h
  · cases h

theorem portItem_kept (s s' : PortSt) (ys : List SExp) (s1 : PortSt) (hr : PortStRel s s')
    (hnz : noiseIn ["property", "comment"] ys = false) (hs : portItem s ys = .ok s1) :
    ∃ s1', portItem s' (subPort ys) = .ok s1' ∧ PortStRel s1 s1' := by
  simp only [noiseIn, List.any_cons, List.any_nil, Bool.or_false, Bool.or_eq_false_iff] at hnz
  obtain ⟨hp, hc⟩ := hnz
  obtain ⟨h0, h1, h2, h3⟩ := hr
  unfold portItem at hs ⊢
  simp only [headIs_subPort, hp, hc, Bool.false_eq_true, if_false] at hs ⊢
  rw [← h3]
  peel hs
  rename_i hdir hnd _ d hd
  simp only [Except.ok.injEq] at hs
  subst hs
  refine ⟨{ s' with dir := d, hasDir := true }, ?_, h0, h1, rfl, rfl⟩
  simp only [hdir, hnd, if_true, Bool.false_eq_true, if_false, parseDirection_canon ys d hd, bind, Except.bind, pure, Except.pure]

theorem portItem_noise (s s' : PortSt) (ys : List SExp) (s1 : PortSt) (hr : PortStRel s s')
    (hnz : noiseIn ["property", "comment"] ys = true) (hs : portItem s ys = .ok s1) : PortStRel s1 s' := by
  obtain ⟨h0, h1, h2, h3⟩ := hr
  have hdir := not_kept_of_noise _ ys "direction" hnz (by decide)
  unfold portItem at hs
  simp only [hdir, Bool.false_eq_true, if_false] at hs
  peel hs
  all_goals (simp only [Except.ok.injEq] at hs; subst hs)
  · have := parseProperty_sameK KO s.m _ ys (by rw [h0]; exact ns_properties_O) (by assumption)
    exact ⟨this.1.trans h0, h1.noise this, h2, h3⟩
  · have := parseComment_sameK KO s.m _ ys (by rw [h0]; exact ns_comments_O.plain) (by assumption)
    exact ⟨this.1.trans h0, h1.noise this, h2, h3⟩

/-- the name part of `parse_port` (up to the items) -/
def portHeader (xs : List SExp) : R (Meta × Nat × Bool × List SExp) :=
  match xs with
  | .list zs :: rest =>
    if headIs zs "rename" then do
      let m ← parseRename Meta.new zs
      pure (m, 1, false, rest)
    else if headIs zs "array" then
      match zs.tail with
      | [] => throw (.syntax "array: expecting name")
      | zs1 => do
        let (m, r2) ← nameDef Meta.new zs1
        match r2 with
        | [n] => do
            let k ← intOfS n
            pure (m, k.toNat, true, rest)
        | _ => throw (.syntax "array: expecting one dimension")
    else throw (.syntax "expecting rename|array")
  | xs => do
    let (m, rest) ← nameDef Meta.new xs
    pure (m, 1, false, rest)

theorem parsePort_eq (ys : List SExp) : parsePort ys = (do
    let (m, width, isArr, rest) ← portHeader ys.tail
    let (s, rest) ← loopC portItem { m := m } rest
    endC "port" rest
    pure { data := s.m.data.set (S "metadata_prefix") (.list [.str (S "EDIF")]),
           dir := s.dir, width := width, scalarFlag := !isArr, lower := 0 }) := rfl

theorem nameDef_atom_rest (m m1 : Meta) (a : Str) (rest r : List SExp) (h : nameDef m (.atom a :: rest) = .ok (m1, r)) :
    r = rest ∧ ∀ rest', nameDef m (.atom a :: rest') = .ok (m1, rest') := by
  simp only [nameDef, bind, Except.bind] at h ⊢
  split at h
  · cases h
  · split at h
    · cases h
    · simp only [pure, Except.pure, Except.ok.injEq, Prod.mk.injEq] at h
      refine ⟨h.2.symm, fun rest' => ?_⟩
      simp [pure, Except.pure, h.1]

theorem portHeader_items (nm : SExp) (items : List SExp) (m : Meta) (w : Nat) (a : Bool) (rest : List SExp)
    (h : portHeader (nm :: items) = .ok (m, w, a, rest)) :
    rest = items ∧ m.pfx = [S "EDIF"] ∧ ∀ items', portHeader (nm :: items') = .ok (m, w, a, items') := by
  cases nm with
  | atom s =>
    simp only [portHeader, bind, Except.bind] at h ⊢
    split at h
    · cases h
    · rename_i v hv
      obtain ⟨m1, r1⟩ := v
      simp only [pure, Except.pure, Except.ok.injEq, Prod.mk.injEq] at h
      obtain ⟨rfl, rfl, rfl, rfl⟩ := h
      obtain ⟨hr, hall⟩ := nameDef_atom_rest _ _ _ _ _ hv
      refine ⟨hr, (nameDef_named _ _ _ _ rfl rfl hv).1, ?_⟩
      intro items'
      simp [hall items', pure, Except.pure]
  | list zs =>
    simp only [portHeader] at h ⊢
    split at h
    · rename_i hren
      simp only [bind, Except.bind] at h ⊢
      split at h
      · cases h
      · rename_i m1 hm1
        simp only [pure, Except.pure, Except.ok.injEq, Prod.mk.injEq] at h
        obtain ⟨rfl, rfl, rfl, rfl⟩ := h
        exact ⟨rfl, (parseRename_named _ _ _ rfl hm1).1, fun items' => by simp [hren, hm1, pure, Except.pure]⟩
    · rename_i hnren
      split at h
      · rename_i harr
        split at h
        · cases h
        · simp only [bind, Except.bind] at h ⊢
          split at h
          · cases h
          · rename_i v hv
            obtain ⟨m1, r2⟩ := v
            simp only at h ⊢
            split at h
            · split at h
              · cases h
              · simp only [pure, Except.pure, Except.ok.injEq, Prod.mk.injEq] at h
                obtain ⟨rfl, rfl, rfl, rfl⟩ := h
                exact ⟨rfl, (nameDef_named _ _ _ _ rfl rfl hv).1, fun items' => by simp [hnren, harr, pure, Except.pure]⟩
            · cases h
      · cases h

theorem RelPort.refl (p : CPort) : RelPort p p := ⟨rfl, rfl, rfl, rfl, SameOn.refl KO _⟩

/-- **ports**: a port read with its properties and comments is the port read without them, up to the noise keys -/
theorem parsePort_strip (ys : List SExp) (p : CPort) (hs : parsePort ys = .ok p) :
    ∃ p', parsePort (stripPort ys) = .ok p' ∧ RelPort p p' := by
  rcases ys with _ | ⟨kw, _ | ⟨nm, items⟩⟩
  · exact ⟨p, hs, RelPort.refl p⟩
  · exact ⟨p, hs, RelPort.refl p⟩
  · rw [parsePort_eq] at hs
    simp only [stripPort, parsePort_eq, List.tail_cons, bind, Except.bind] at hs ⊢
    split at hs
    · cases hs
    · rename_i v hv
      obtain ⟨m, w, a, rest⟩ := v
      obtain ⟨hrest, hpfx, hall⟩ := portHeader_items nm items m w a rest hv
      subst hrest
      rw [hall]
      simp only at hs ⊢
      split at hs
      · cases hs
      · rename_i v2 hv2
        obtain ⟨s1, rest2⟩ := v2
        obtain ⟨s1', hl', hrel⟩ := loopC_strip portItem (noiseIn ["property", "comment"]) subPort PortStRel
          portItem_kept portItem_noise rest { m := m } { m := m } s1 rest2 ⟨hpfx, MRel.refl KO m, rfl, rfl⟩ hv2
        rw [hl']
        simp only at hs ⊢
        split at hs
        · cases hs
        · simp only [pure, Except.pure, Except.ok.injEq] at hs ⊢
          subst hs
          exact ⟨_, rfl, hrel.2.2.1, rfl, rfl, rfl, sameOn_set_both KO _ _ _ _ hrel.2.1.2⟩

end Spydr.Edif
