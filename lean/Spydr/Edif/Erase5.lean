/-
  Erasure, part 5: instances, nets, the cable builder.
-/
import Spydr.Edif.Erase4
namespace Spydr.Edif

/-! ### the prefix is never changed by the naming steps -/

theorem setAttr_pfx (m m1 : Meta) (v : Val) (h : setAttr m v = .ok m1) : m1.pfx = m.pfx := by
  unfold setAttr at h
  peel h
  all_goals (simp only [Except.ok.injEq] at h; subst h; rfl)

theorem parseRename_pfx (m m1 : Meta) (ys : List SExp) (h : parseRename m ys = .ok m1) : m1.pfx = m.pfx := by
  unfold parseRename at h
  peel h
  rename_i _ _ _ _ _ _ _ _ ha _ _ _ _ _ hb
  simp only [Except.ok.injEq] at h
  subst h
  have h1 := setAttr_pfx _ _ _ ha
  have h2 := setAttr_pfx _ _ _ hb
  simp only [Meta.pop, Meta.push] at h1 h2 ⊢
  rw [h2, List.dropLast_concat, h1, List.dropLast_concat]

theorem nameDef_pfx (m m1 : Meta) (xs rest : List SExp) (h : nameDef m xs = .ok (m1, rest)) : m1.pfx = m.pfx := by
  unfold nameDef at h
  peel h
  · rename_i _ _ _ a ha
    simp only [Except.ok.injEq, Prod.mk.injEq] at h
    obtain ⟨rfl, _⟩ := h
    exact parseRename_pfx _ _ _ ha
  · rename_i _ _ _ _ _ _ a ha
    simp only [Except.ok.injEq, Prod.mk.injEq] at h
    obtain ⟨rfl, _⟩ := h
    have h1 := setAttr_pfx _ _ _ ha
    simp only [Meta.pop, Meta.push] at h1 ⊢
    rw [h1, List.dropLast_concat]

/-! ### a property that is kept (instances): both runs record the same entry -/

theorem kPID_I : kPID ∈ KI := by simp [KI]
theorem kPORIG_I : kPORIG ∈ KI := by simp [KI]
theorem kPROPS_I : kPROPS ∈ KI := by simp [KI]

theorem propLike_rel (m m' m1 : Meta) (rest : List SExp) (h : MRel KI m m') (hp : m.pfx = [S "EDIF", S "properties"])
    (hs : propLike m rest = .ok m1) : ∃ m1', propLike m' rest = .ok m1' ∧ MRel KI m1 m1' := by
  unfold propLike at hs ⊢
  simp only [bind, Except.bind] at hs ⊢
  split at hs
  · cases hs
  · rename_i v hv
    obtain ⟨m2, r2⟩ := v
    obtain ⟨m2', hv', hr2⟩ := nameDef_rel KI kN_I m m' m2 rest r2 h hv
    have hp2 : m2.pfx = [S "EDIF", S "properties"] := (nameDef_pfx _ _ _ _ hv).trans hp
    have hp2' : m2'.pfx = [S "EDIF", S "properties"] := hr2.1 ▸ hp2
    have hid : joinDot (m2.pfx ++ [S "identifier"]) = kPID := by rw [hp2]; decide
    have hid' : joinDot (m2'.pfx ++ [S "identifier"]) = kPID := by rw [hp2']; decide
    have hor : joinDot (m2.pfx ++ [S "original_identifier"]) = kPORIG := by rw [hp2]; decide
    have hor' : joinDot (m2'.pfx ++ [S "original_identifier"]) = kPORIG := by rw [hp2']; decide
    rw [hv']
    simp only [hid, hid', hor, hor', hr2.2 kPID kPID_I, hr2.2 kPORIG kPORIG_I] at hs ⊢
    cases hgi : m2.data.get? kPID with
    | none => simp only [hgi, throw, throwThe, MonadExceptOf.throw] at hs; cases hs
    | some iv =>
      simp only [hgi, pure, Except.pure] at hs ⊢
      split at hs
      · rename_i vs rest2
        split at hs
        · cases hs
        · rename_i tv htv
          split at hs
          · cases hs
          · rename_i lv hlv
            split at hs
            · cases hs
            · rename_i uv huv
              simp only [Except.ok.injEq] at hs
              subst hs
              refine ⟨_, rfl, ?_⟩
              cases hgo : m2.data.get? kPORIG with
              | none =>
                simp only
                refine MRel.pop (appendAttr_rel KI _ _ _ ⟨hr2.1, sameOn_erase_both KI _ _ _ hr2.2⟩ ?_)
                simp only [Meta.key, hp2]
                exact kPROPS_I
              | some o =>
                simp only
                refine MRel.pop (appendAttr_rel KI _ _ _ ⟨hr2.1, sameOn_erase_both KI _ _ _ (sameOn_erase_both KI _ _ _ hr2.2)⟩ ?_)
                simp only [Meta.key, hp2]
                exact kPROPS_I
      · cases hs

/-! ### the name of a construct does not look at what follows it -/

theorem nameDef_rest (m m1 : Meta) (x : SExp) (rest r : List SExp) (h : nameDef m (x :: rest) = .ok (m1, r)) :
    r = rest ∧ ∀ rest', nameDef m (x :: rest') = .ok (m1, rest') := by
  cases x with
  | atom a => exact nameDef_atom_rest m m1 a rest r h
  | list zs =>
    simp only [nameDef, bind, Except.bind] at h ⊢
    split at h
    · cases h
    · rename_i v hv
      simp only [pure, Except.pure, Except.ok.injEq, Prod.mk.injEq] at h
      refine ⟨h.2.symm, fun rest' => ?_⟩
      simp [hv, pure, Except.pure, h.1]

/-! ### the owner of a kept property -/

theorem propTail_kept (s s' : Bool) (ys : List SExp) (s1 : Bool) (_hr : True) (hnz : noiseIn ["owner"] ys = false)
    (hs : propTail s ys = .ok s1) : ∃ s1', propTail s' (id ys) = .ok s1' ∧ True := by
  simp only [noiseIn, List.any_cons, List.any_nil, Bool.or_false] at hnz
  unfold propTail at hs ⊢
  simp only [id, hnz, Bool.false_eq_true, if_false] at hs ⊢
  peel hs
  rename_i h1 h2 h3
  simp only [h1, h2, h3, if_false]
  exact ⟨s', rfl, trivial⟩

theorem propLike_rel_owner (m m' m1 : Meta) (nm v : SExp) (tail : List SExp) (h : MRel KI m m')
    (hp : m.pfx = [S "EDIF", S "properties"]) (hs : propLike m (nm :: v :: tail) = .ok m1) :
    ∃ m1', propLike m' (nm :: v :: stripItems (noiseIn ["owner"]) id tail) = .ok m1' ∧ MRel KI m1 m1' := by
  unfold propLike at hs ⊢
  simp only [bind, Except.bind] at hs ⊢
  split at hs
  · cases hs
  · rename_i w hv
    obtain ⟨m2, r2⟩ := w
    obtain ⟨m2', hv', hr2⟩ := nameDef_rel KI kN_I m m' m2 _ r2 h hv
    obtain ⟨hr2eq, _⟩ := nameDef_rest _ _ _ _ _ hv
    obtain ⟨_, hall'⟩ := nameDef_rest _ _ _ _ _ hv'
    subst hr2eq
    have hp2 : m2.pfx = [S "EDIF", S "properties"] := (nameDef_pfx _ _ _ _ hv).trans hp
    have hp2' : m2'.pfx = [S "EDIF", S "properties"] := hr2.1 ▸ hp2
    have hid : joinDot (m2.pfx ++ [S "identifier"]) = kPID := by rw [hp2]; decide
    have hid' : joinDot (m2'.pfx ++ [S "identifier"]) = kPID := by rw [hp2']; decide
    have hor : joinDot (m2.pfx ++ [S "original_identifier"]) = kPORIG := by rw [hp2]; decide
    have hor' : joinDot (m2'.pfx ++ [S "original_identifier"]) = kPORIG := by rw [hp2']; decide
    rw [hall']
    simp only [hid, hid', hor, hor', hr2.2 kPID kPID_I, hr2.2 kPORIG kPORIG_I] at hs ⊢
    cases hgi : m2.data.get? kPID with
    | none => simp only [hgi, throw, throwThe, MonadExceptOf.throw] at hs; cases hs
    | some iv =>
      simp only [hgi, pure, Except.pure] at hs ⊢
      cases v with
      | atom a => cases hs
      | list vs =>
        simp only at hs ⊢
        split at hs
        · cases hs
        · rename_i tv htv
          split at hs
          · cases hs
          · rename_i lv hlv
            obtain ⟨lb, lrest⟩ := lv
            obtain ⟨lb', hlv', _⟩ := loopC_strip propTail (noiseIn ["owner"]) id (fun _ _ => True)
              propTail_kept (fun _ _ _ _ _ _ _ => trivial) tail false false lb lrest trivial hlv
            split at hs
            · cases hs
            · rename_i uv huv
              simp only [Except.ok.injEq] at hs
              subst hs
              simp only [hlv', huv]
              refine ⟨_, rfl, ?_⟩
              cases hgo : m2.data.get? kPORIG with
              | none =>
                simp only
                refine MRel.pop (appendAttr_rel KI _ _ _ ⟨hr2.1, sameOn_erase_both KI _ _ _ hr2.2⟩ ?_)
                simp only [Meta.key, hp2]
                exact kPROPS_I
              | some o =>
                simp only
                refine MRel.pop (appendAttr_rel KI _ _ _ ⟨hr2.1, sameOn_erase_both KI _ _ _ (sameOn_erase_both KI _ _ _ hr2.2)⟩ ?_)
                simp only [Meta.key, hp2]
                exact kPROPS_I

theorem headIs_stripProp (ys : List SExp) (k : String) : headIs (stripProp ys) k = headIs ys k := by
  rcases ys with _ | ⟨a, _ | ⟨b, _ | ⟨c, d⟩⟩⟩ <;> rfl

theorem parseProperty_rel (m m' m1 : Meta) (ys : List SExp) (h : MRel KI m m') (hp : m.pfx = [S "EDIF"])
    (hs : parseProperty m ys = .ok m1) : ∃ m1', parseProperty m' (stripProp ys) = .ok m1' ∧ MRel KI m1 m1' := by
  have hpp : (m.push "properties").pfx = [S "EDIF", S "properties"] := by simp [Meta.push, hp]
  rcases ys with _ | ⟨kw, _ | ⟨nm, _ | ⟨v, tail⟩⟩⟩
  · exact propLike_rel _ _ _ _ (h.push "properties") hpp hs
  · exact propLike_rel _ _ _ _ (h.push "properties") hpp hs
  · exact propLike_rel _ _ _ _ (h.push "properties") hpp hs
  · exact propLike_rel_owner _ _ _ nm v tail (h.push "properties") hpp hs

/-! ### instances -/

def InstRel (m m' : Meta) : Prop := m.pfx = [S "EDIF"] ∧ MRel KI m m'

theorem instItem_kept (m m' : Meta) (ys : List SExp) (m1 : Meta) (hr : InstRel m m')
    (hnz : noiseIn ["comment"] ys = false) (hs : instItem m ys = .ok m1) :
    ∃ m1', instItem m' (subInst ys) = .ok m1' ∧ InstRel m1 m1' := by
  simp only [noiseIn, List.any_cons, List.any_nil, Bool.or_false] at hnz
  unfold instItem at hs
  simp only [hnz, Bool.false_eq_true, if_false] at hs
  split at hs
  · rename_i hprop
    obtain ⟨m1', h1, h2⟩ := parseProperty_rel m m' m1 ys hr.2 hr.1 hs
    have e : subInst ys = stripProp ys := by simp [subInst, hprop]
    refine ⟨m1', ?_, ?_, h2⟩
    · unfold instItem
      simp only [e, headIs_stripProp, hprop, if_true, h1]
    · have := parseProperty_sameK KO m m1 ys (by rw [hr.1]; exact ns_properties_O) hs
      exact this.1.trans hr.1
  · peel hs

theorem instItem_noise (m m' : Meta) (ys : List SExp) (m1 : Meta) (hr : InstRel m m')
    (hnz : noiseIn ["comment"] ys = true) (hs : instItem m ys = .ok m1) : InstRel m1 m' := by
  have hprop := not_kept_of_noise _ ys "property" hnz (by decide)
  unfold instItem at hs
  simp only [hprop, Bool.false_eq_true, if_false] at hs
  peel hs
  have := parseComment_sameK KI m m1 ys (by rw [hr.1]; exact ns_comments_I.plain) hs
  exact ⟨this.1.trans hr.1, hr.2.noise this⟩

theorem RelInst.refl (i : CInst) : RelInst i i := ⟨rfl, SameOn.refl KI _⟩

/-- **instances**: an instance read with its comments is the instance read without them, in a related scope -/
theorem parseInstance_strip (sc sc' : Scope) (h : RelScope sc sc') (ys : List SExp) (i : CInst)
    (hs : parseInstance sc ys = .ok i) : ∃ i', parseInstance sc' (stripInst ys) = .ok i' ∧ RelInst i i' := by
  unfold parseInstance at hs
  simp only [bind, Except.bind] at hs
  split at hs
  · cases hs
  · rename_i v hv
    obtain ⟨m, rest⟩ := v
    rcases ys with _ | ⟨kw, _ | ⟨nm, items0⟩⟩
    · simp [nameDef] at hv
    · simp [nameDef] at hv
    · simp only [List.tail_cons] at hv
      obtain ⟨hrest, hall⟩ := nameDef_rest _ _ _ _ _ hv
      subst hrest
      have hpfx : m.pfx = [S "EDIF"] := nameDef_pfx _ _ _ _ hv
      simp only at hs
      cases rest with
      | nil => simp at hs
      | cons vr items =>
        cases vr with
        | atom a => simp at hs
        | list zs =>
          simp only at hs
          split at hs
          · cases hs
          · rename_i v2 hv2
            obtain ⟨ref, rest2⟩ := v2
            split at hv2
            · rename_i hvr
              split at hv2
              · cases hv2
              · rename_i r hr
                simp only [pure, Except.pure, Except.ok.injEq, Prod.mk.injEq] at hv2
                obtain ⟨rfl, rfl⟩ := hv2
                have hr' := parseViewRef_scope sc sc' h m zs r hr
                simp only at hs
                split at hs
                · cases hs
                · rename_i v3 hv3
                  obtain ⟨m3, rest3⟩ := v3
                  obtain ⟨m3', hl', hrel⟩ := loopC_strip instItem (noiseIn ["comment"]) subInst InstRel
                    instItem_kept instItem_noise items m m m3 rest3 ⟨hpfx, MRel.refl KI m⟩ hv3
                  simp only at hs
                  split at hs
                  · cases hs
                  · rename_i hend
                    simp only [pure, Except.pure, Except.ok.injEq] at hs
                    subst hs
                    refine ⟨{ data := m3'.data, ref := some r }, ?_, rfl, hrel.2.2⟩
                    unfold parseInstance
                    simp only [stripInst, List.tail_cons, bind, Except.bind, hall, hvr, if_true, hr', hl', hend, pure, Except.pure]
            · split at hv2 <;> cases hv2

/-! ### nets -/

def NetRel (m m' : Meta) : Prop := m.pfx = [S "EDIF"] ∧ MRel KO m m'

theorem netItem_kept (m m' : Meta) (ys : List SExp) (m1 : Meta) (_hr : NetRel m m')
    (hnz : noiseIn ["property", "comment"] ys = false) (hs : netItem m ys = .ok m1) :
    ∃ m1', netItem m' (id ys) = .ok m1' ∧ NetRel m1 m1' := by
  simp only [noiseIn, List.any_cons, List.any_nil, Bool.or_false, Bool.or_eq_false_iff] at hnz
  unfold netItem at hs
  simp only [hnz.1, hnz.2, Bool.false_eq_true, if_false] at hs
  peel hs

theorem netItem_noise (m m' : Meta) (ys : List SExp) (m1 : Meta) (hr : NetRel m m')
    (_hnz : noiseIn ["property", "comment"] ys = true) (hs : netItem m ys = .ok m1) : NetRel m1 m' := by
  unfold netItem at hs
  peel hs
  · have := parseProperty_sameK KO m m1 ys (by rw [hr.1]; exact ns_properties_O) hs
    exact ⟨this.1.trans hr.1, hr.2.noise this⟩
  · have := parseComment_sameK KO m m1 ys (by rw [hr.1]; exact ns_comments_O.plain) hs
    exact ⟨this.1.trans hr.1, hr.2.noise this⟩

theorem joinedItem_ctx (cx cx' : DefCtx) (h : RelCtx cx cx') (pins : List CPin) (ys : List SExp) (r : List CPin)
    (hs : joinedItem cx pins ys = .ok r) : joinedItem cx' pins ys = .ok r := by
  unfold joinedItem at hs ⊢
  split at hs
  · rename_i hc
    simp only [hc, if_true, bind, Except.bind] at hs ⊢
    split at hs
    · cases hs
    · rename_i p hp
      rw [parsePortRef_ctx cx cx' h ys p hp]
      exact hs
  · peel hs

/-- **nets**: a net read with its properties and comments is the net read without them, in a related cell -/
theorem parseNet_strip (cx cx' : DefCtx) (h : RelCtx cx cx') (ys : List SExp) (d : Data) (pins : List CPin)
    (hs : parseNet cx ys = .ok (d, pins)) : ∃ d', parseNet cx' (stripNet ys) = .ok (d', pins) ∧ SameOn KO d d' := by
  unfold parseNet at hs
  simp only [bind, Except.bind] at hs
  split at hs
  · cases hs
  · rename_i v hv
    obtain ⟨m, rest⟩ := v
    rcases ys with _ | ⟨kw, _ | ⟨nm, items0⟩⟩
    · simp [nameDef] at hv
    · simp [nameDef] at hv
    · simp only [List.tail_cons] at hv
      obtain ⟨hrest, hall⟩ := nameDef_rest _ _ _ _ _ hv
      subst hrest
      have hpfx : m.pfx = [S "EDIF"] := nameDef_pfx _ _ _ _ hv
      simp only at hs
      cases rest with
      | nil => simp at hs
      | cons jn items =>
        cases jn with
        | atom a => simp at hs
        | list js =>
          simp only at hs
          split at hs
          · rename_i hj
            split at hs
            · cases hs
            · rename_i v2 hv2
              obtain ⟨pins2, jr⟩ := v2
              have hv2' := loopC_mono (joinedItem cx) (joinedItem cx') (joinedItem_ctx cx cx' h) js.tail [] _ hv2
              simp only at hs
              split at hs
              · cases hs
              · rename_i hend1
                split at hs
                · cases hs
                · rename_i v3 hv3
                  obtain ⟨m3, rest3⟩ := v3
                  obtain ⟨m3', hl', hrel⟩ := loopC_strip netItem (noiseIn ["property", "comment"]) id NetRel
                    netItem_kept netItem_noise items m m m3 rest3 ⟨hpfx, MRel.refl KO m⟩ hv3
                  simp only at hs
                  split at hs
                  · cases hs
                  · rename_i hend2
                    simp only [pure, Except.pure, Except.ok.injEq, Prod.mk.injEq] at hs
                    obtain ⟨rfl, rfl⟩ := hs
                    refine ⟨m3'.data, ?_, hrel.2.2⟩
                    unfold parseNet
                    simp only [stripNet, List.tail_cons, bind, Except.bind, hall, hj, if_true, hv2', hend1, hl', hend2, pure, Except.pure]
          · cases hs

/-! ### the retry on a name clash -/

theorem addRetry_rel (K : List Str) (hi : kIDENT ∈ K) (hn : kNAME ∈ K) (sibs sibs' : List Data) (hsib : All2 NameEq sibs sibs')
    (d d' r : Data) (hd : SameOn K d d') (hs : addRetry sibs d = .ok r) :
    ∃ r', addRetry sibs' d' = .ok r' ∧ SameOn K r r' := by
  have hne := nameEq_of_sameOn K hi hn d d' hd
  unfold addRetry at hs ⊢
  rw [← conflicts_congr sibs sibs' hsib d d' hne, ← hne.1, ← hne.2]
  split at hs
  · rename_i hc
    simp only [pure, Except.pure, Except.ok.injEq] at hs
    subst hs
    simp only [hc, if_true]
    exact ⟨d', rfl, hd⟩
  · rename_i hc
    simp only [hc, if_false]
    split at hs
    · rename_i n i _ _
      have hd2 : SameOn K (d.set kNAME (.str i)) (d'.set kNAME (.str i)) := sameOn_set_both K _ _ _ _ hd
      have hne2 := nameEq_of_sameOn K hi hn _ _ hd2
      simp only at hs ⊢
      rw [← conflicts_congr sibs sibs' hsib _ _ hne2]
      split at hs
      · rename_i hni
        split at hs
        · rename_i hc2
          simp only [pure, Except.pure, Except.ok.injEq] at hs
          subst hs
          refine ⟨_, ?_, hd2⟩
          simp [hni, hc2, pure, Except.pure]
        · cases hs
      · cases hs
    · cases hs

/-! ### the cable builder -/

theorem RelCable.isArray {c c' : CCable} (h : RelCable c c') : c.isArray = c'.isArray := by
  simp [CCable.isArray, CCable.isScalar, h.flag, h.wires]

theorem mergeInto_rel (ex ex' : CCable) (h : RelCable ex ex') (i : Nat) (pins : List CPin) :
    RelCable (mergeInto ex i pins) (mergeInto ex' i pins) := by
  unfold mergeInto
  rw [← h.lower, ← h.wires]
  split
  · split
    · exact ⟨h.flag, rfl, rfl, h.data⟩
    · exact ⟨h.flag, rfl, rfl, h.data⟩
  · exact ⟨h.flag, rfl, rfl, h.data⟩

theorem multibitAdd_rel (cs cs' : List CCable) (h : All2 RelCable cs cs') (d d' : Data) (hd : SameOn KO d d')
    (pins : List CPin) (r : List CCable) (hs : multibitAdd cs d pins = .ok r) :
    ∃ r', multibitAdd cs' d' pins = .ok r' ∧ All2 RelCable r r' := by
  have hne := nameEq_of_sameOn KO kI_O kN_O d d' hd
  have hcd := nameEq_cables h
  unfold multibitAdd at hs ⊢
  rw [← hne.1, ← hne.2]
  split at hs
  · rename_i ident name _ _
    simp only at hs ⊢
    split at hs
    · cases hs
    · rename_i hnm
      simp only [hnm, if_false]
      rw [← findName_congr _ _ hcd, ← findIdent_congr _ _ hcd, ← conflicts_congr _ _ hcd d d' hne]
      have hplain : ∀ r, (if conflicts (cs.map (·.data)) d = true then
            (throw (.unsupported "net declared twice (ValueError fallback)") : R (List CCable))
          else pure (cs ++ [{ data := d, scalarFlag := true, lower := 0, wires := [pins] }])) = .ok r →
          ∃ r', (if conflicts (cs.map (·.data)) d = true then
            (throw (.unsupported "net declared twice (ValueError fallback)") : R (List CCable))
          else pure (cs' ++ [{ data := d', scalarFlag := true, lower := 0, wires := [pins] }])) = .ok r' ∧ All2 RelCable r r' := by
        intro r hr
        split at hr
        · cases hr
        · rename_i hc
          simp only [pure, Except.pure, Except.ok.injEq] at hr
          subst hr
          simp only [hc, if_false]
          exact ⟨_, rfl, forall₂_snoc h ⟨rfl, rfl, rfl, hd⟩⟩
      split at hs
      · rename_i hE
        split at hs
        · exact hplain r hs
        · rename_i i _
          split at hs
          · cases hs
          · rename_i hck
            have hd2 : SameOn KO ((d.set kIDENT (.str (sepIdent ident).snd)).set kNAME (.str (sepName name).snd))
                ((d'.set kIDENT (.str (sepIdent ident).snd)).set kNAME (.str (sepName name).snd)) :=
              sameOn_set_both KO _ _ _ _ (sameOn_set_both KO _ _ _ _ hd)
            rw [← conflicts_congr _ _ hcd _ _ (nameEq_of_sameOn KO kI_O kN_O _ _ hd2)]
            split at hs
            · cases hs
            · rename_i hc
              simp only [pure, Except.pure, Except.ok.injEq] at hs
              subst hs
              simp only [hck, hc, if_false]
              exact ⟨_, rfl, forall₂_snoc h ⟨rfl, rfl, rfl, hd2⟩⟩
      · rename_i k hE
        cases hex : cs[k]? with
        | none => rw [hex] at hs; cases hs
        | some ex =>
          obtain ⟨ex', hex', hrex⟩ := forall₂_get h k ex hex
          rw [hex] at hs
          rw [hex']
          simp only at hs ⊢
          split at hs
          · exact hplain r hs
          · rename_i i _
            rw [← hrex.isArray]
            split at hs
            · rename_i ha
              simp only [ha, if_true]
              exact hplain r hs
            · rename_i ha
              simp only [pure, Except.pure, Except.ok.injEq] at hs
              subst hs
              simp only [ha, if_false]
              exact ⟨_, rfl, forall₂_set h k (mergeInto_rel ex ex' hrex i pins)⟩
  · cases hs

end Spydr.Edif
