/-
  Erasure, part 6: contents, interface, view, cell.
-/
import Spydr.Edif.Erase5
namespace Spydr.Edif

/-- `loopC_strip` with a different step function on the stripped side (a related scope) -/
theorem loopC_strip2 {σ : Type} (h h' : σ → List SExp → R σ) (isNoise : List SExp → Bool) (sub : List SExp → List SExp)
    (Rl : σ → σ → Prop)
    (hk : ∀ s s' ys s1, Rl s s' → isNoise ys = false → h s ys = .ok s1 → ∃ s1', h' s' (sub ys) = .ok s1' ∧ Rl s1 s1')
    (hn : ∀ s s' ys s1, Rl s s' → isNoise ys = true → h s ys = .ok s1 → Rl s1 s') :
    ∀ (xs : List SExp) (s s' s1 : σ) (rest : List SExp), Rl s s' → loopC h s xs = .ok (s1, rest) →
      ∃ s1', loopC h' s' (stripItems isNoise sub xs) = .ok (s1', rest) ∧ Rl s1 s1' := by
  intro xs
  induction xs with
  | nil =>
    intro s s' s1 rest hr hl
    simp only [loopC, pure, Except.pure, Except.ok.injEq, Prod.mk.injEq] at hl
    obtain ⟨rfl, rfl⟩ := hl
    exact ⟨s', rfl, hr⟩
  | cons x r ih =>
    intro s s' s1 rest hr hl
    cases x with
    | atom a =>
      simp only [loopC, pure, Except.pure, Except.ok.injEq, Prod.mk.injEq] at hl
      obtain ⟨rfl, rfl⟩ := hl
      exact ⟨s', rfl, hr⟩
    | list ys =>
      simp only [loopC, bind, Except.bind] at hl
      split at hl
      · cases hl
      · rename_i s2 hs2
        cases hnz : isNoise ys with
        | true =>
          simp only [stripItems, hnz, if_true]
          exact ih s2 s' s1 rest (hn s s' ys s2 hr hnz hs2) hl
        | false =>
          obtain ⟨s2', hs2', hr2⟩ := hk s s' ys s2 hr hnz hs2
          simp only [stripItems, hnz, Bool.false_eq_true, if_false, loopC, hs2', bind, Except.bind]
          exact ih s2 s2' s1 rest hr2 hl

/-! ### `strip` above the leaves -/

def subContents (ys : List SExp) : List SExp :=
  if headIs ys "instance" then stripInst ys else if headIs ys "net" then stripNet ys else ys

/-- contents: comments go; instances and nets are stripped -/
def stripContents (ys : List SExp) : List SExp :=
  match ys with
  | kw :: items => kw :: stripItems (noiseIn ["comment"]) subContents items
  | [] => []

def subIface (ys : List SExp) : List SExp := if headIs ys "port" then stripPort ys else ys

/-- interface: properties and comments go; ports are stripped -/
def stripIface (ys : List SExp) : List SExp :=
  match ys with
  | kw :: items => kw :: stripItems (noiseIn ["property", "comment"]) subIface items
  | [] => []

def subView (ys : List SExp) : List SExp := if headIs ys "contents" then stripContents ys else ys

def isCommentItem : SExp → Bool
  | .list zs => noiseIn ["comment"] zs
  | .atom _ => false

/-- a `(contents …)` holding nothing but comments -/
def emptyContents (ys : List SExp) : Bool := headIs ys "contents" && ys.tail.all isCommentItem

def viewNoise (ys : List SExp) : Bool := noiseIn ["status", "comment", "property"] ys || emptyContents ys

/-- `(cellType X)` → `(celltype GENERIC)`, `(viewType X)` → `(viewtype NETLIST)`: the reader stores the spelling of the
    keyword under `EDIF.cellType` / `EDIF.view.viewType` (a key nothing reads) and only checks the value -/
def canonType (kw val : String) : SExp → SExp
  | .list [_, _] => .list [A kw, A val]
  | x => x

/-- `(rename i "o")` → `i` -/
def plainName : SExp → SExp
  | .list [_, i, _] => i
  | x => x

/-- view: status, comments, properties and an empty contents block go; interface and contents are stripped; a renamed view keeps
    its identifier only (the original name of a view is stored under `EDIF.view.original_identifier` and
    read by nothing) -/
def stripView (ys : List SExp) : List SExp :=
  match ys with
  | kw :: nm :: vt :: .list ifc :: items =>
    kw :: plainName nm :: canonType "viewtype" "NETLIST" vt :: .list (stripIface ifc) :: stripItems viewNoise subView items
  | _ => ys

def subCell (ys : List SExp) : List SExp := if headIs ys "view" then stripView ys else ys

/-- cell: status, comments, properties go; the view is stripped -/
def stripCell (ys : List SExp) : List SExp :=
  match ys with
  | kw :: nm :: ct :: items =>
    kw :: nm :: canonType "celltype" "GENERIC" ct :: stripItems (noiseIn ["status", "property", "comment"]) subCell items
  | _ => ys

theorem headIs_stripPort (ys : List SExp) (k : String) : headIs (stripPort ys) k = headIs ys k := by
  rcases ys with _ | ⟨a, _ | ⟨b, c⟩⟩ <;> rfl

theorem headIs_stripInst (ys : List SExp) (k : String) : headIs (stripInst ys) k = headIs ys k := by
  rcases ys with _ | ⟨a, _ | ⟨b, _ | ⟨c, d⟩⟩⟩ <;> rfl

theorem headIs_stripNet (ys : List SExp) (k : String) : headIs (stripNet ys) k = headIs ys k := by
  rcases ys with _ | ⟨a, _ | ⟨b, _ | ⟨c, d⟩⟩⟩ <;> rfl

theorem headIs_stripContents (ys : List SExp) (k : String) : headIs (stripContents ys) k = headIs ys k := by
  rcases ys with _ | ⟨a, b⟩ <;> rfl

theorem headIs_stripView (ys : List SExp) (k : String) : headIs (stripView ys) k = headIs ys k := by
  rcases ys with _ | ⟨a, _ | ⟨b, _ | ⟨c, _ | ⟨d, e⟩⟩⟩⟩ <;> try rfl
  cases d <;> rfl

/-! ### cells under construction that agree up to the noise keys -/

structure RelSt (p : List Str) (st st' : CellSt) : Prop where
  pfx : st.m.pfx = p
  m : MRel KO st.m st'.m
  ports : All2 RelPort st.ports st'.ports
  insts : All2 RelInst st.insts st'.insts
  cables : All2 RelCable st.cables st'.cables

theorem flat_wires {cs cs' : List CCable} (h : All2 RelCable cs cs') :
    cs.flatMap (fun c => c.wires.flatten) = cs'.flatMap (fun c => c.wires.flatten) := by
  induction h with
  | nil => rfl
  | cons hh _ ih => simp only [List.flatMap_cons, hh.wires, ih]

theorem hasDupPin_rel {cs cs' : List CCable} (h : All2 RelCable cs cs') : hasDupPin cs = hasDupPin cs' := by
  unfold hasDupPin
  rw [flat_wires h]

/-! ### contents -/

theorem contentsItem_kept (sc sc' : Scope) (hsc : RelScope sc sc') (p : List Str) (st st' : CellSt) (ys : List SExp) (st1 : CellSt)
    (hr : RelSt p st st') (hnz : noiseIn ["comment"] ys = false) (hs : contentsItem sc st ys = .ok st1) :
    ∃ st1', contentsItem sc' st' (subContents ys) = .ok st1' ∧ RelSt p st1 st1' := by
  simp only [noiseIn, List.any_cons, List.any_nil, Bool.or_false] at hnz
  unfold contentsItem at hs
  split at hs
  · rename_i hi
    simp only [bind, Except.bind] at hs
    split at hs
    · cases hs
    · rename_i i hpi
      obtain ⟨i', hpi', hri⟩ := parseInstance_strip sc sc' hsc ys i hpi
      split at hs
      · cases hs
      · rename_i d hd
        obtain ⟨d', hd', hrd⟩ := addRetry_rel KI kI_I kN_I _ _ (nameEq_insts hr.insts) i.data i'.data d hri.data hd
        simp only [pure, Except.pure, Except.ok.injEq] at hs
        subst hs
        refine ⟨{ st' with insts := st'.insts ++ [{ i' with data := d' }] }, ?_, hr.pfx, hr.m, hr.ports,
          forall₂_snoc hr.insts ⟨hri.ref, hrd⟩, hr.cables⟩
        have e : subContents ys = stripInst ys := by simp [subContents, hi]
        unfold contentsItem
        simp only [e, hi, if_true, headIs_stripInst, bind, Except.bind, hpi', hd', pure, Except.pure]
  · rename_i hi
    split at hs
    · rename_i hn
      simp only [bind, Except.bind] at hs
      split at hs
      · cases hs
      · rename_i v hv
        obtain ⟨d, pins⟩ := v
        obtain ⟨d', hv', hrd⟩ := parseNet_strip { sc := sc, ports := st.ports, insts := st.insts }
          { sc := sc', ports := st'.ports, insts := st'.insts } ⟨hsc, hr.ports, hr.insts⟩ ys d pins hv
        simp only at hs
        split at hs
        · cases hs
        · rename_i cs hcs
          obtain ⟨cs', hcs', hrc⟩ := multibitAdd_rel _ _ hr.cables d d' hrd pins cs hcs
          simp only [pure, Except.pure, Except.ok.injEq] at hs
          subst hs
          refine ⟨{ st' with cables := cs' }, ?_, hr.pfx, hr.m, hr.ports, hr.insts, hrc⟩
          have e : subContents ys = stripNet ys := by simp [subContents, hi, hn]
          unfold contentsItem
          simp only [e, hi, hn, if_true, if_false, Bool.false_eq_true, headIs_stripNet, bind, Except.bind, hv', hcs', pure, Except.pure]
    · simp only [hnz, Bool.false_eq_true, if_false] at hs
      peel hs

def pE : List Str := [S "EDIF"]
def pV : List Str := [S "EDIF", S "view"]

theorem RelSt.withM {p : List Str} {st st' : CellSt} (hr : RelSt p st st') {m1 : Meta}
    (h : m1.pfx = st.m.pfx ∧ SameOn KO st.m.data m1.data) : RelSt p { st with m := m1 } st' :=
  ⟨h.1.trans hr.pfx, hr.m.noise h, hr.ports, hr.insts, hr.cables⟩

theorem contentsItem_noise (sc : Scope) (st st' : CellSt) (ys : List SExp) (st1 : CellSt)
    (hr : RelSt pV st st') (hnz : noiseIn ["comment"] ys = true) (hs : contentsItem sc st ys = .ok st1) :
    RelSt pV st1 st' := by
  have hi := not_kept_of_noise _ ys "instance" hnz (by decide)
  have hn := not_kept_of_noise _ ys "net" hnz (by decide)
  unfold contentsItem at hs
  simp only [hi, hn, Bool.false_eq_true, if_false] at hs
  peel hs
  rename_i m1 hm1
  simp only [Except.ok.injEq] at hs
  subst hs
  exact hr.withM (parseComment_sameK KO st.m m1 ys (by rw [hr.pfx]; exact ns_comments_V.plain) hm1)

theorem tail_stripContents (ys : List SExp) :
    (stripContents ys).tail = stripItems (noiseIn ["comment"]) subContents ys.tail := by
  cases ys <;> rfl

theorem tail_stripIface (ys : List SExp) :
    (stripIface ys).tail = stripItems (noiseIn ["property", "comment"]) subIface ys.tail := by
  cases ys <;> rfl

theorem headIs_stripIface (ys : List SExp) (k : String) : headIs (stripIface ys) k = headIs ys k := by
  rcases ys with _ | ⟨a, b⟩ <;> rfl

/-! ### interface -/

def IfRel (s s' : CellSt × Bool) : Prop := RelSt pV s.1 s'.1 ∧ s.2 = s'.2

theorem ifaceItem_kept (s s' : CellSt × Bool) (ys : List SExp) (s1 : CellSt × Bool) (hr : IfRel s s')
    (hnz : noiseIn ["property", "comment"] ys = false) (hs : ifaceItem s ys = .ok s1) :
    ∃ s1', ifaceItem s' (subIface ys) = .ok s1' ∧ IfRel s1 s1' := by
  simp only [noiseIn, List.any_cons, List.any_nil, Bool.or_false, Bool.or_eq_false_iff] at hnz
  obtain ⟨st, hd⟩ := s
  obtain ⟨st', hd'⟩ := s'
  obtain ⟨hr, hdd⟩ := hr
  simp only at hr hdd
  subst hdd
  unfold ifaceItem at hs
  simp only at hs
  split at hs
  · rename_i hp
    simp only [bind, Except.bind] at hs
    split at hs
    · cases hs
    · rename_i q hq
      obtain ⟨q', hq', hrq⟩ := parsePort_strip ys q hq
      split at hs
      · cases hs
      · rename_i hc
        simp only [pure, Except.pure, Except.ok.injEq] at hs
        subst hs
        have hc' : conflicts (st'.ports.map (·.data)) q'.data = conflicts (st.ports.map (·.data)) q.data :=
          (conflicts_congr _ _ (nameEq_ports hr.ports) _ _ (nameEq_of_sameOn KO kI_O kN_O _ _ hrq.data)).symm
        refine ⟨({ st' with ports := st'.ports ++ [q'] }, hd), ?_, ⟨hr.pfx, hr.m, forall₂_snoc hr.ports hrq, hr.insts, hr.cables⟩, rfl⟩
        have e : subIface ys = stripPort ys := by simp [subIface, hp]
        unfold ifaceItem
        simp only [e, headIs_stripPort, hp, if_true, bind, Except.bind, hq', hc', hc, if_false, Bool.false_eq_true, pure, Except.pure]
  · rename_i hp
    have e : subIface ys = ys := by simp [subIface, hp]
    rw [e]
    unfold ifaceItem
    simp only [hp, if_false, hnz.1, hnz.2, Bool.false_eq_true] at hs ⊢
    split at hs
    · cases hs
    · rename_i ha
      simp only [ha, if_false]
      split at hs
      · rename_i hdes
        simp only [hdes, if_true]
        split at hs
        · cases hs
        · rename_i hnd
          simp only [pure, Except.pure, Except.ok.injEq] at hs
          subst hs
          refine ⟨(st', true), ?_, hr, rfl⟩
          simp [hnd, pure, Except.pure]
      · peel hs

theorem ifaceItem_noise (s s' : CellSt × Bool) (ys : List SExp) (s1 : CellSt × Bool) (hr : IfRel s s')
    (hnz : noiseIn ["property", "comment"] ys = true) (hs : ifaceItem s ys = .ok s1) : IfRel s1 s' := by
  obtain ⟨st, hd⟩ := s
  obtain ⟨hr, hdd⟩ := hr
  simp only at hr hdd
  have hp := not_kept_of_noise _ ys "port" hnz (by decide)
  have hg := not_kept_of_noise _ ys "designator" hnz (by decide)
  unfold ifaceItem at hs
  simp only [hp, hg, Bool.false_eq_true, if_false] at hs
  peel hs
  all_goals (rename_i m1 hm1; simp only [Except.ok.injEq] at hs; subst hs)
  · exact ⟨hr.withM (parseProperty_sameK KO st.m m1 ys (by rw [hr.pfx]; exact ns_properties_V) hm1), hdd⟩
  · exact ⟨hr.withM (parseComment_sameK KO st.m m1 ys (by rw [hr.pfx]; exact ns_comments_V.plain) hm1), hdd⟩

/-! ### view items -/

def ViewRel (s s' : CellSt × Bool × Bool) : Prop := RelSt pV s.1 s'.1 ∧ (s'.2.2 = true → s.2.2 = true)

theorem viewItem_kept (sc sc' : Scope) (hsc : RelScope sc sc') (s s' : CellSt × Bool × Bool) (ys : List SExp)
    (s1 : CellSt × Bool × Bool) (hr : ViewRel s s')
    (hnz : viewNoise ys = false) (hs : viewItem sc s ys = .ok s1) :
    ∃ s1', viewItem sc' s' (subView ys) = .ok s1' ∧ ViewRel s1 s1' := by
  simp only [viewNoise, Bool.or_eq_false_iff] at hnz
  obtain ⟨hnz, _⟩ := hnz
  simp only [noiseIn, List.any_cons, List.any_nil, Bool.or_false, Bool.or_eq_false_iff] at hnz
  obtain ⟨hst, hco, hpr⟩ := hnz
  obtain ⟨st, hS, hC⟩ := s
  obtain ⟨st', hS', hC'⟩ := s'
  obtain ⟨hr, hcc⟩ := hr
  simp only at hr hcc
  unfold viewItem at hs
  simp only [hst, Bool.false_eq_true, if_false] at hs
  split at hs
  · rename_i hcont
    split at hs
    · cases hs
    · rename_i hnC
      have hnC' : ¬ hC' = true := fun h => hnC (hcc h)
      simp only [bind, Except.bind] at hs
      split at hs
      · cases hs
      · rename_i v hv
        obtain ⟨st2, rest⟩ := v
        obtain ⟨st2', hl', hr2⟩ := loopC_strip2 (contentsItem sc) (contentsItem sc') (noiseIn ["comment"]) subContents
          (RelSt pV) (contentsItem_kept sc sc' hsc pV) (contentsItem_noise sc) ys.tail st st' st2 rest hr hv
        simp only at hs
        split at hs
        · cases hs
        · rename_i hend
          split at hs
          · cases hs
          · rename_i hdup
            simp only [pure, Except.pure, Except.ok.injEq] at hs
            subst hs
            refine ⟨(st2', hS', true), ?_, hr2, fun _ => rfl⟩
            have e : subView ys = stripContents ys := by simp [subView, hcont]
            unfold viewItem
            rw [hasDupPin_rel hr2.cables] at hdup
            simp only [e, headIs_stripContents, hst, hcont, hnC', tail_stripContents, hl', hend, hdup, if_true, if_false,
              Bool.false_eq_true, bind, Except.bind, pure, Except.pure]
  · simp only [hco, hpr, Bool.false_eq_true, if_false] at hs
    peel hs

/-- a contents block of comments only leaves the cell as it was, up to the noise keys -/
theorem loopC_comments (sc : Scope) (st' : CellSt) : ∀ (xs : List SExp) (st st2 : CellSt) (rest : List SExp),
    xs.all isCommentItem = true → RelSt pV st st' → loopC (contentsItem sc) st xs = .ok (st2, rest) → RelSt pV st2 st' := by
  intro xs
  induction xs with
  | nil =>
    intro st st2 rest _ hr hl
    simp only [loopC, pure, Except.pure, Except.ok.injEq, Prod.mk.injEq] at hl
    obtain ⟨rfl, _⟩ := hl
    exact hr
  | cons x r ih =>
    intro st st2 rest hall hr hl
    simp only [List.all_cons, Bool.and_eq_true] at hall
    cases x with
    | atom a => simp [isCommentItem] at hall
    | list ys =>
      simp only [loopC, bind, Except.bind] at hl
      split at hl
      · cases hl
      · rename_i s2 hs2
        exact ih s2 st2 rest hall.2 (contentsItem_noise sc st st' ys s2 hr hall.1 hs2) hl

theorem viewItem_noise (sc : Scope) (s s' : CellSt × Bool × Bool) (ys : List SExp) (s1 : CellSt × Bool × Bool)
    (hr : ViewRel s s') (hnz : viewNoise ys = true) (hs : viewItem sc s ys = .ok s1) :
    ViewRel s1 s' := by
  obtain ⟨st, hS, hC⟩ := s
  obtain ⟨hr, hcc⟩ := hr
  simp only at hr hcc
  cases hn : noiseIn ["status", "comment", "property"] ys with
  | true =>
    have hc := not_kept_of_noise _ ys "contents" hn (by decide)
    unfold viewItem at hs
    simp only [hc, Bool.false_eq_true, if_false] at hs
    peel hs
    all_goals (rename_i m1 hm1; simp only [Except.ok.injEq] at hs; subst hs)
    · exact ⟨hr.withM (parseStatus_sameK KO st.m m1 ys (by rw [hr.pfx]; exact ns_status_V) hm1), hcc⟩
    · exact ⟨hr.withM (parseComment_sameK KO st.m m1 ys (by rw [hr.pfx]; exact ns_comments_V.plain) hm1), hcc⟩
    · exact ⟨hr.withM (parseProperty_sameK KO st.m m1 ys (by rw [hr.pfx]; exact ns_properties_V) hm1), hcc⟩
  | false =>
    simp only [viewNoise, hn, Bool.false_or, emptyContents, Bool.and_eq_true] at hnz
    obtain ⟨hcont, hall⟩ := hnz
    have hst : headIs ys "status" = false := by
      cases h : headIs ys "status" with
      | false => rfl
      | true => exact absurd (headIs_two ys _ _ h hcont) (by decide)
    unfold viewItem at hs
    simp only [hst, hcont, Bool.false_eq_true, if_false, if_true] at hs
    split at hs
    · cases hs
    · simp only [bind, Except.bind] at hs
      split at hs
      · cases hs
      · rename_i v hv
        obtain ⟨st2, rest⟩ := v
        have hr2 := loopC_comments sc s'.1 ys.tail st st2 rest hall hr hv
        simp only at hs
        split at hs
        · cases hs
        · split at hs
          · cases hs
          · simp only [pure, Except.pure, Except.ok.injEq] at hs
            subst hs
            exact ⟨hr2, fun _ => rfl⟩

/-! ### view -/

/-- a value stored under a key outside `K`: whatever value, the two runs stay related -/
theorem setAttr_noise2 (m m' m1 : Meta) (v v' : Val) (hp : PlainK KO m.pfx) (h : MRel KO m m')
    (hs : setAttr m v = .ok m1) : ∃ m1', setAttr m' v' = .ok m1' ∧ MRel KO m1 m1' := by
  have hp' : PlainK KO m'.pfx := h.1 ▸ hp
  have h1 := setAttr_sameK KO m m1 v hp hs
  obtain ⟨p1, p2, p3⟩ := hp'
  refine ⟨{ m' with data := m'.data.set m'.key v' }, ?_, ?_, ?_⟩
  · unfold setAttr
    simp only [Meta.key]
    rw [if_neg (by exact p2), if_neg p1]
    rfl
  · exact h1.1.trans h.1
  · intro k hk
    show (m'.data.set (joinDot m'.pfx) v').get? k = m1.data.get? k
    rw [Data.get?_set_other _ _ _ _ (Ne.symm (p3 k hk)), h.2 k hk, h1.2 k hk]

theorem ns_cellType : NoSpecialK KO [S "EDIF", S "cellType"] := noSpecialK_lit6 KO 'c' "ellType".toList (by decide)
theorem ns_viewType : NoSpecialK KO [S "EDIF", S "view", S "viewType"] := noSpecialK_view KO 'v' "iewType".toList (by decide)

theorem ns_orig_V : NoSpecialK KO [S "EDIF", S "view", S "original_identifier"] :=
  noSpecialK_view KO 'o' "riginal_identifier".toList (by decide)

/-- the name of a view: `(rename i "o")` or `i`, the same up to the noise keys -/
theorem nameDef_plain (m m' m1 : Meta) (hp : m.pfx = pV) (h : MRel KO m m') (nm : SExp) (rest r : List SExp)
    (hs : nameDef m (nm :: rest) = .ok (m1, r)) :
    ∃ m1', nameDef m' (plainName nm :: rest) = .ok (m1', r) ∧ MRel KO m1 m1' := by
  cases nm with
  | atom a => exact nameDef_rel KO kN_O m m' m1 _ r h hs
  | list ys =>
    simp only [nameDef, bind, Except.bind] at hs
    split at hs
    · cases hs
    · rename_i mb hmb
      simp only [pure, Except.pure, Except.ok.injEq, Prod.mk.injEq] at hs
      obtain ⟨rfl, rfl⟩ := hs
      unfold parseRename at hmb
      split at hmb
      · rename_i kw i o
        split at hmb
        · simp only [bind, Except.bind] at hmb
          split at hmb
          · cases hmb
          · rename_i ident hident
            split at hmb
            · cases hmb
            · rename_i ma hma
              split at hmb
              · cases hmb
              · rename_i orig horig
                split at hmb
                · cases hmb
                · rename_i mc hmc
                  simp only [pure, Except.pure, Except.ok.injEq] at hmb
                  subst hmb
                  obtain ⟨ma', hma', hra⟩ := setAttr_rel KO kN_O _ _ ma _ (h.push "identifier") hma
                  have hpa : ma.pop.pfx = pV := by
                    have := setAttr_pfx _ _ _ hma
                    simp only [Meta.pop, Meta.push] at this ⊢
                    rw [this, List.dropLast_concat, hp]
                  have hnoise := setAttr_sameK KO (ma.pop.push "original_identifier") mc _
                    (by simp only [Meta.push, hpa]; exact ns_orig_V.plain) hmc
                  cases i with
                  | list zs => simp [identOfS] at hident
                  | atom a =>
                    refine ⟨ma'.pop, ?_, ?_⟩
                    · simp only [plainName, nameDef, hident, hma', bind, Except.bind, pure, Except.pure]
                    · refine ⟨?_, ?_⟩
                      · have := hra.pop.1
                        simp only [Meta.pop, Meta.push] at hnoise this ⊢
                        rw [hnoise.1, List.dropLast_concat]
                        exact this
                      · intro k hk
                        have h1 := hra.2 k hk
                        have h2 := hnoise.2 k hk
                        simp only [Meta.pop, Meta.push] at h1 h2 ⊢
                        rw [h1, h2]
        · cases hmb
      · cases hmb

/-- **view**: read with its status, comments and properties (at any depth below it) or without -/
theorem parseView_strip (sc sc' : Scope) (hsc : RelScope sc sc') (st st' : CellSt) (hr : RelSt pE st st') (ys : List SExp)
    (st1 : CellSt) (hs : parseView sc st ys = .ok st1) :
    ∃ st1', parseView sc' st' (stripView ys) = .ok st1' ∧ RelSt pE st1 st1' := by
  unfold parseView at hs
  simp only [bind, Except.bind] at hs
  split at hs
  · cases hs
  · rename_i v hv
    obtain ⟨m, rest⟩ := v
    rcases ys with _ | ⟨kw, _ | ⟨nm, items0⟩⟩
    · simp [nameDef] at hv
    · simp [nameDef] at hv
    · simp only [List.tail_cons] at hv
      obtain ⟨hrest, hall⟩ := nameDef_rest _ _ _ _ _ hv
      subst hrest
      have hpush : (st.m.push "view").pfx = pV := by simp [Meta.push, hr.pfx, pV, pE]
      obtain ⟨m', hv', hrm⟩ := nameDef_plain _ _ m hpush (hr.m.push "view") nm _ _ hv
      obtain ⟨_, hall'⟩ := nameDef_rest _ _ _ _ _ hv'
      have hpfx : m.pfx = pV := by
        rw [nameDef_pfx _ _ _ _ hv]; exact hpush
      simp only at hs
      split at hs
      · rename_i vt ifc rest2 _
        split at hs
        · rename_i k t
          split at hs
          · cases hs
          · rename_i hk
            split at hs
            · cases hs
            · rename_i ht
              split at hs
              · cases hs
              · rename_i m2 hm2
                obtain ⟨m2', hm2', hrm2⟩ := setAttr_noise2 _ _ m2 _ (.str (atomText (A "viewtype")))
                  (by simp only [Meta.push, hpfx]; exact ns_viewType.plain) (hrm.push "viewType") hm2
                have hk' : (!isKw (A "viewtype") "viewtype") = false := by decide
                have ht' : (!(viewTypes.any (isKw (A "NETLIST")))) = false := by decide
                have hpfx2 : m2.pop.pfx = pV := by
                  have := setAttr_pfx _ _ _ hm2
                  simp only [Meta.pop, Meta.push] at this ⊢
                  rw [this, List.dropLast_concat, hpfx]
                split at hs
                · cases hs
                · rename_i hifc
                  split at hs
                  · cases hs
                  · rename_i v3 hv3
                    obtain ⟨⟨st3, d3⟩, ir⟩ := v3
                    obtain ⟨⟨st3', d3'⟩, hl3, hr3⟩ := loopC_strip ifaceItem (noiseIn ["property", "comment"]) subIface IfRel
                      ifaceItem_kept ifaceItem_noise ifc.tail ({ st with m := m2.pop }, false) ({ st' with m := m2'.pop }, false)
                      (st3, d3) ir ⟨⟨hpfx2, hrm2.pop, hr.ports, hr.insts, hr.cables⟩, rfl⟩ hv3
                    simp only at hs
                    split at hs
                    · cases hs
                    · rename_i hend1
                      split at hs
                      · cases hs
                      · rename_i v4 hv4
                        obtain ⟨⟨st4, a4, b4⟩, rest4⟩ := v4
                        obtain ⟨⟨st4', a4', b4'⟩, hl4, hr4⟩ := loopC_strip2 (viewItem sc) (viewItem sc')
                          viewNoise subView ViewRel
                          (viewItem_kept sc sc' hsc) (viewItem_noise sc) rest2 (st3, false, false) (st3', false, false)
                          (st4, a4, b4) rest4 ⟨hr3.1, fun h => h⟩ hv4
                        simp only at hs
                        split at hs
                        · cases hs
                        · rename_i hend2
                          simp only [pure, Except.pure, Except.ok.injEq] at hs
                          subst hs
                          refine ⟨{ st4' with m := st4'.m.pop }, ?_, ?_, hr4.1.m.pop, hr4.1.ports, hr4.1.insts, hr4.1.cables⟩
                          · unfold parseView
                            simp only [stripView, canonType, List.tail_cons, bind, Except.bind, hall', hk', ht', hm2', hifc,
                              headIs_stripIface, tail_stripIface, hl3, hend1, hl4, hend2, if_false, Bool.false_eq_true,
                              pure, Except.pure]
                          · simp only [Meta.pop]
                            rw [hr4.1.pfx]; rfl
        · cases hs
      · cases hs

/-! ### cell -/

theorem cellItem_kept (sc sc' : Scope) (hsc : RelScope sc sc') (st st' : CellSt) (ys : List SExp) (st1 : CellSt)
    (hr : RelSt pE st st') (hnz : noiseIn ["status", "property", "comment"] ys = false) (hs : cellItem sc st ys = .ok st1) :
    ∃ st1', cellItem sc' st' (subCell ys) = .ok st1' ∧ RelSt pE st1 st1' := by
  simp only [noiseIn, List.any_cons, List.any_nil, Bool.or_false, Bool.or_eq_false_iff] at hnz
  obtain ⟨hst, hpr, hco⟩ := hnz
  unfold cellItem at hs
  simp only [hst, Bool.false_eq_true, if_false] at hs
  split at hs
  · rename_i hv
    obtain ⟨st1', h1, h2⟩ := parseView_strip sc sc' hsc st st' hr ys st1 hs
    refine ⟨st1', ?_, h2⟩
    have e : subCell ys = stripView ys := by simp [subCell, hv]
    unfold cellItem
    simp only [e, headIs_stripView, hst, hv, if_true, if_false, Bool.false_eq_true, h1]
  · simp only [hpr, hco, Bool.false_eq_true, if_false] at hs
    peel hs

theorem cellItem_noise (sc : Scope) (st st' : CellSt) (ys : List SExp) (st1 : CellSt)
    (hr : RelSt pE st st') (hnz : noiseIn ["status", "property", "comment"] ys = true) (hs : cellItem sc st ys = .ok st1) :
    RelSt pE st1 st' := by
  have hv := not_kept_of_noise _ ys "view" hnz (by decide)
  unfold cellItem at hs
  simp only [hv, Bool.false_eq_true, if_false] at hs
  peel hs
  all_goals (rename_i m1 hm1; simp only [Except.ok.injEq] at hs; subst hs)
  · have h := parseStatus_sameK KO st.m m1 ys (by rw [hr.pfx]; exact ns_status_O) hm1
    exact ⟨h.1.trans hr.pfx, hr.m.noise h, hr.ports, hr.insts, hr.cables⟩
  · exact hr.withM (parseProperty_sameK KO st.m m1 ys (by rw [hr.pfx]; exact ns_properties_O) hm1)
  · exact hr.withM (parseComment_sameK KO st.m m1 ys (by rw [hr.pfx]; exact ns_comments_O.plain) hm1)

/-- **cell**: read with its status blocks, comments and properties (at any depth, those of instances
    excepted) or without -/
theorem parseCell_strip (sc sc' : Scope) (hsc : RelScope sc sc') (ys : List SExp) (c : CDef)
    (hs : parseCell sc ys = .ok c) : ∃ c', parseCell sc' (stripCell ys) = .ok c' ∧ RelDef c c' := by
  unfold parseCell at hs
  simp only [bind, Except.bind] at hs
  split at hs
  · cases hs
  · rename_i v hv
    obtain ⟨m, rest⟩ := v
    rcases ys with _ | ⟨kw, _ | ⟨nm, items0⟩⟩
    · simp [nameDef] at hv
    · simp [nameDef] at hv
    · simp only [List.tail_cons] at hv
      obtain ⟨hrest, hall⟩ := nameDef_rest _ _ _ _ _ hv
      subst hrest
      have hpfx : m.pfx = pE := nameDef_pfx _ _ _ _ hv
      simp only at hs
      split at hs
      · rename_i k t rest2
        split at hs
        · cases hs
        · rename_i hk
          split at hs
          · cases hs
          · rename_i ht
            split at hs
            · cases hs
            · rename_i m2 hm2
              obtain ⟨m2', hm2', hrm2⟩ := setAttr_noise2 _ _ m2 _ (.str (atomText (A "celltype")))
                (by simp only [Meta.push, hpfx]; exact ns_cellType.plain) ((MRel.refl KO m).push "cellType") hm2
              have hk' : (!isKw (A "celltype") "celltype") = false := by decide
              have ht' : (!(["generic", "tie", "ripper"].any (isKw (A "GENERIC")))) = false := by decide
              have hpfx2 : m2.pop.pfx = pE := by
                have := setAttr_pfx _ _ _ hm2
                simp only [Meta.pop, Meta.push] at this ⊢
                rw [this, List.dropLast_concat, hpfx]
              split at hs
              · cases hs
              · rename_i v3 hv3
                obtain ⟨st3, rest3⟩ := v3
                obtain ⟨st3', hl3, hr3⟩ := loopC_strip2 (cellItem sc) (cellItem sc')
                  (noiseIn ["status", "property", "comment"]) subCell (RelSt pE)
                  (cellItem_kept sc sc' hsc) (cellItem_noise sc) rest2 { m := m2.pop } { m := m2'.pop } st3 rest3
                  ⟨hpfx2, hrm2.pop, All2.nil, All2.nil, All2.nil⟩ hv3
                simp only at hs
                split at hs
                · cases hs
                · rename_i hend
                  simp only [pure, Except.pure, Except.ok.injEq] at hs
                  subst hs
                  refine ⟨{ data := st3'.m.data, ports := st3'.ports, cables := st3'.cables, insts := st3'.insts }, ?_,
                    hr3.m.2, hr3.ports, hr3.insts, hr3.cables⟩
                  unfold parseCell
                  simp only [stripCell, canonType, List.tail_cons, bind, Except.bind, hall, hk', ht', hm2', hl3, hend, if_false,
                    Bool.false_eq_true, pure, Except.pure]
      · cases hs

end Spydr.Edif
