/-
  Erasure, part 7: libraries, the design construct, the file.
-/
import Spydr.Edif.Erase6
namespace Spydr.Edif

def subLib (ys : List SExp) : List SExp := if headIs ys "cell" then stripCell ys else ys

/-- library: status blocks and comments go; cells are stripped -/
def stripLib (ys : List SExp) : List SExp :=
  match ys with
  | kw :: nm :: lv :: tech :: items => kw :: nm :: lv :: tech :: stripItems (noiseIn ["status", "comment"]) subLib items
  | _ => ys

/-- design: what follows the cellRef (properties, comments; the reader skips it) goes -/
def stripDesign (ys : List SExp) : List SExp :=
  match ys with
  | kw :: nm :: cr :: _ => [kw, nm, cr]
  | _ => ys

def subBody (ys : List SExp) : List SExp :=
  if headIs ys "library" || headIs ys "external" then stripLib ys
  else if headIs ys "design" then stripDesign ys else ys

/-- **strip**: the file without its comments, status blocks, and the properties of everything but
    instances -/
def strip : SExp → SExp
  | .list (kw :: nm :: ver :: lvl :: km :: items) =>
    .list (kw :: nm :: ver :: lvl :: km :: stripItems (noiseIn ["status", "comment"]) subBody items)
  | e => e

theorem headIs_stripCell (ys : List SExp) (k : String) : headIs (stripCell ys) k = headIs ys k := by
  rcases ys with _ | ⟨a, _ | ⟨b, _ | ⟨c, d⟩⟩⟩ <;> rfl

theorem headIs_stripLib (ys : List SExp) (k : String) : headIs (stripLib ys) k = headIs ys k := by
  rcases ys with _ | ⟨a, _ | ⟨b, _ | ⟨c, _ | ⟨d, e⟩⟩⟩⟩ <;> rfl

theorem headIs_stripDesign (ys : List SExp) (k : String) : headIs (stripDesign ys) k = headIs ys k := by
  rcases ys with _ | ⟨a, _ | ⟨b, _ | ⟨c, d⟩⟩⟩ <;> rfl

theorem levelOf_pfx (m m1 : Meta) (ys : List SExp) (kw pfx : String) (h : levelOf m ys kw pfx = .ok m1) : m1.pfx = m.pfx := by
  unfold levelOf at h
  peel h
  · rename_i m2 hm2
    simp only [Except.ok.injEq] at h
    subst h
    have := setAttr_pfx _ _ _ hm2
    simp only [Meta.pop, Meta.push] at this ⊢
    rw [this, List.dropLast_concat]
  · simp only [Except.ok.injEq] at h
    subst h
    rfl

/-! ### library -/

structure RelLibSt (st st' : LibSt) : Prop where
  pfx : st.m.pfx = pE
  m : MRel KO st.m st'.m
  defs : All2 RelDef st.defs st'.defs

theorem libItem_kept (libs libs' : List CLib) (hl : All2 RelLib libs libs') (st st' : LibSt) (ys : List SExp) (st1 : LibSt)
    (hr : RelLibSt st st') (hnz : noiseIn ["status", "comment"] ys = false) (hs : libItem libs st ys = .ok st1) :
    ∃ st1', libItem libs' st' (subLib ys) = .ok st1' ∧ RelLibSt st1 st1' := by
  simp only [noiseIn, List.any_cons, List.any_nil, Bool.or_false, Bool.or_eq_false_iff] at hnz
  obtain ⟨hst, hco⟩ := hnz
  unfold libItem at hs
  simp only [hst, Bool.false_eq_true, if_false] at hs
  split at hs
  · rename_i hc
    simp only [bind, Except.bind] at hs
    split at hs
    · cases hs
    · rename_i c hpc
      obtain ⟨c', hpc', hrc⟩ := parseCell_strip { libs := libs, curLib := st.m.data, curDefs := st.defs }
        { libs := libs', curLib := st'.m.data, curDefs := st'.defs } ⟨hl, hr.m.2, hr.defs⟩ ys c hpc
      split at hs
      · cases hs
      · rename_i d hd
        obtain ⟨d', hd', hrd⟩ := addRetry_rel KO kI_O kN_O _ _ (nameEq_defs hr.defs) c.data c'.data d hrc.data hd
        simp only [pure, Except.pure, Except.ok.injEq] at hs
        subst hs
        refine ⟨{ st' with defs := st'.defs ++ [{ c' with data := d' }] }, ?_, hr.pfx, hr.m,
          forall₂_snoc hr.defs ⟨hrd, hrc.ports, hrc.insts, hrc.cables⟩⟩
        have e : subLib ys = stripCell ys := by simp [subLib, hc]
        unfold libItem
        simp only [e, headIs_stripCell, hst, hc, if_true, if_false, Bool.false_eq_true, bind, Except.bind, hpc', hd',
          pure, Except.pure]
  · simp only [hco, Bool.false_eq_true, if_false] at hs
    peel hs

theorem libItem_noise (libs : List CLib) (st st' : LibSt) (ys : List SExp) (st1 : LibSt)
    (hr : RelLibSt st st') (hnz : noiseIn ["status", "comment"] ys = true) (hs : libItem libs st ys = .ok st1) :
    RelLibSt st1 st' := by
  have hc := not_kept_of_noise _ ys "cell" hnz (by decide)
  unfold libItem at hs
  simp only [hc, Bool.false_eq_true, if_false] at hs
  peel hs
  all_goals (rename_i m1 hm1; simp only [Except.ok.injEq] at hs; subst hs)
  · have h := parseStatus_sameK KO st.m m1 ys (by rw [hr.pfx]; exact ns_status_O) hm1
    exact ⟨h.1.trans hr.pfx, hr.m.noise h, hr.defs⟩
  · have h := parseComment_sameK KO st.m m1 ys (by rw [hr.pfx]; exact ns_comments_O.plain) hm1
    exact ⟨h.1.trans hr.pfx, hr.m.noise h, hr.defs⟩

/-- **library**: read with its status blocks, comments and properties (at any depth, those of
    instances excepted) or without -/
theorem parseLibrary_strip (libs libs' : List CLib) (hl : All2 RelLib libs libs') (ext : Bool) (ys : List SExp) (l : CLib)
    (hs : parseLibrary libs ext ys = .ok l) : ∃ l', parseLibrary libs' ext (stripLib ys) = .ok l' ∧ RelLib l l' := by
  unfold parseLibrary at hs
  simp only [bind, Except.bind] at hs
  split at hs
  · cases hs
  · rename_i v hv
    obtain ⟨m, rest⟩ := v
    rcases ys with _ | ⟨kw, _ | ⟨nm, items0⟩⟩
    · simp [nameDef] at hv
    · simp [nameDef] at hv
    · simp only [List.tail_cons] at hv
      obtain ⟨hrest, hall⟩ := nameDef_rest _ _ _ _ _ hv
      subst hrest
      have hpfx : m.pfx = pE := by
        rw [nameDef_pfx _ _ _ _ hv]; cases ext <;> rfl
      simp only at hs
      split at hs
      · rename_i lv tk nd rest2
        split at hs
        · cases hs
        · rename_i m2 hm2
          have hpfx2 : m2.pfx = pE := (levelOf_pfx _ _ _ _ _ hm2).trans hpfx
          split at hs
          · cases hs
          · rename_i htk
            split at hs
            · cases hs
            · rename_i hnd
              split at hs
              · cases hs
              · rename_i v3 hv3
                obtain ⟨st3, rest3⟩ := v3
                obtain ⟨st3', hl3, hr3⟩ := loopC_strip2 (libItem libs) (libItem libs')
                  (noiseIn ["status", "comment"]) subLib RelLibSt
                  (libItem_kept libs libs' hl) (libItem_noise libs) rest2 { m := m2 } { m := m2 } st3 rest3
                  ⟨hpfx2, MRel.refl KO _, All2.nil⟩ hv3
                simp only at hs
                split at hs
                · cases hs
                · rename_i hend
                  simp only [pure, Except.pure, Except.ok.injEq] at hs
                  subst hs
                  refine ⟨{ data := st3'.m.data, defs := st3'.defs }, ?_, hr3.m.2, hr3.defs⟩
                  unfold parseLibrary
                  simp only [stripLib, List.tail_cons, bind, Except.bind, hall, hm2, htk, hnd, hl3, hend, if_false,
                    Bool.false_eq_true, pure, Except.pure]
      · cases hs

/-! ### the design construct -/

theorem parseDesign_strip (libs libs' : List CLib) (hl : All2 RelLib libs libs') (ys : List SExp) (t : CInst)
    (hs : parseDesign libs ys = .ok t) : parseDesign libs' (stripDesign ys) = .ok t := by
  unfold parseDesign at hs ⊢
  rcases ys with _ | ⟨kw, _ | ⟨nm, _ | ⟨cr, more⟩⟩⟩
  · exact absurd hs (by simp)
  · exact absurd hs (by simp)
  · exact absurd hs (by simp)
  · simp only [stripDesign, List.tail_cons] at hs ⊢
    cases cr with
    | atom a => exact absurd hs (by simp)
    | list crl =>
      simp only [bind, Except.bind] at hs ⊢
      split at hs
      · cases hs
      · rename_i m hm
        split at hs
        · rename_i cid lid
          simp only [← findIdent_congr _ _ (nameEq_libs hl)]
          split at hs
          · cases hs
          · rename_i hval
            simp only [hval, if_false]
            split at hs
            · cases hs
            · rename_i li hli
              cases hlib : libs[li]? with
              | none => rw [hlib] at hs; cases hs
              | some l =>
                obtain ⟨l', hl', hrl⟩ := forall₂_get hl li l hlib
                rw [hlib] at hs
                simp only [hl', ← findIdent_congr _ _ (nameEq_defs hrl.defs)] at hs ⊢
                exact hs
        · cases hs

/-! ### the file -/

structure RelBody (st st' : BodySt) : Prop where
  pfx : st.m.pfx = pE
  m : MRel KO st.m st'.m
  libs : All2 RelLib st.libs st'.libs
  top : st.top = st'.top

theorem bodyItem_kept (st st' : BodySt) (ys : List SExp) (st1 : BodySt)
    (hr : RelBody st st') (hnz : noiseIn ["status", "comment"] ys = false) (hs : bodyItem st ys = .ok st1) :
    ∃ st1', bodyItem st' (subBody ys) = .ok st1' ∧ RelBody st1 st1' := by
  simp only [noiseIn, List.any_cons, List.any_nil, Bool.or_false, Bool.or_eq_false_iff] at hnz
  obtain ⟨hst, hco⟩ := hnz
  unfold bodyItem at hs
  simp only [hst, Bool.false_eq_true, if_false] at hs
  split at hs
  · rename_i hlib
    simp only [bind, Except.bind] at hs
    split at hs
    · cases hs
    · rename_i l hpl
      obtain ⟨l', hpl', hrl⟩ := parseLibrary_strip st.libs st'.libs hr.libs _ ys l hpl
      split at hs
      · cases hs
      · rename_i hc
        simp only [pure, Except.pure, Except.ok.injEq] at hs
        subst hs
        have hc' : conflicts (st'.libs.map (·.data)) l'.data = conflicts (st.libs.map (·.data)) l.data :=
          (conflicts_congr _ _ (nameEq_libs hr.libs) _ _ (nameEq_of_sameOn KO kI_O kN_O _ _ hrl.data)).symm
        refine ⟨{ st' with libs := st'.libs ++ [l'] }, ?_, hr.pfx, hr.m, forall₂_snoc hr.libs hrl, hr.top⟩
        have e : subBody ys = stripLib ys := by simp only [subBody, hlib, if_true]
        unfold bodyItem
        simp only [e, headIs_stripLib, hst, hlib, if_true, if_false, Bool.false_eq_true, bind, Except.bind, hpl', hc', hc,
          pure, Except.pure]
  · rename_i hlib
    split at hs
    · rename_i hdes
      simp only [bind, Except.bind] at hs
      split at hs
      · cases hs
      · rename_i t ht
        simp only [pure, Except.pure, Except.ok.injEq] at hs
        subst hs
        have ht' := parseDesign_strip st.libs st'.libs hr.libs ys t ht
        refine ⟨{ st' with top := some t }, ?_, hr.pfx, hr.m, hr.libs, rfl⟩
        have e : subBody ys = stripDesign ys := by simp only [subBody, hlib, hdes, if_true, if_false, Bool.false_eq_true]
        unfold bodyItem
        simp only [e, headIs_stripDesign, hst, hlib, hdes, if_true, if_false, Bool.false_eq_true, bind, Except.bind, ht',
          pure, Except.pure]
    · simp only [hco, Bool.false_eq_true, if_false] at hs
      peel hs

theorem bodyItem_noise (st st' : BodySt) (ys : List SExp) (st1 : BodySt)
    (hr : RelBody st st') (hnz : noiseIn ["status", "comment"] ys = true) (hs : bodyItem st ys = .ok st1) :
    RelBody st1 st' := by
  have h1 := not_kept_of_noise _ ys "library" hnz (by decide)
  have h2 := not_kept_of_noise _ ys "external" hnz (by decide)
  have h3 := not_kept_of_noise _ ys "design" hnz (by decide)
  unfold bodyItem at hs
  simp only [h1, h2, h3, Bool.or_self, Bool.false_eq_true, if_false] at hs
  peel hs
  all_goals (rename_i m1 hm1; simp only [Except.ok.injEq] at hs; subst hs)
  · have h := parseStatus_sameK KO st.m m1 ys (by rw [hr.pfx]; exact ns_status_O) hm1
    exact ⟨h.1.trans hr.pfx, hr.m.noise h, hr.libs, hr.top⟩
  · have h := parseComment_sameK KO st.m m1 ys (by rw [hr.pfx]; exact ns_comments_O.plain) hm1
    exact ⟨h.1.trans hr.pfx, hr.m.noise h, hr.libs, hr.top⟩

/-- two netlists that agree up to the noise keys -/
structure RelNet (n n' : CNetlist) : Prop where
  data : SameOn KO n.data n'.data
  libs : All2 RelLib n.libs n'.libs
  top : n.top = n'.top

/-- **the file**: whatever the reader makes of a file, it makes the same — up to the dictionary keys of
    comments, status blocks and the erased properties — of the stripped file -/
theorem ofSExp_strip (e : SExp) (n : CNetlist) (hs : ofSExp e = .ok n) :
    ∃ n', ofSExp (strip e) = .ok n' ∧ RelNet n n' := by
  unfold ofSExp at hs
  cases e with
  | atom a => cases hs
  | list ys =>
    simp only at hs
    split at hs
    · cases hs
    · rename_i hedif
      simp only [bind, Except.bind] at hs
      split at hs
      · cases hs
      · rename_i v hv
        obtain ⟨m, rest⟩ := v
        rcases ys with _ | ⟨kw, _ | ⟨nm, items0⟩⟩
        · simp [nameDef] at hv
        · simp [nameDef] at hv
        · simp only [List.tail_cons] at hv
          obtain ⟨hrest, hall⟩ := nameDef_rest _ _ _ _ _ hv
          subst hrest
          have hpfx : m.pfx = pE := nameDef_pfx _ _ _ _ hv
          simp only at hs
          split at hs
          · rename_i ver lvl km rest2
            split at hs
            · cases hs
            · rename_i hver
              split at hs
              · cases hs
              · rename_i vs hvs
                split at hs
                · cases hs
                · rename_i hlen
                  split at hs
                  · cases hs
                  · rename_i m2 hm2
                    split at hs
                    · cases hs
                    · rename_i m3 hm3
                      split at hs
                      · rename_i kk kl
                        split at hs
                        · cases hs
                        · rename_i hkk
                          split at hs
                          · cases hs
                          · rename_i m4 hm4
                            have hpfx4 : m4.pop.pfx = pE := by
                              have h4 := levelOf_pfx _ _ _ _ _ hm4
                              have h3 := levelOf_pfx _ _ _ _ _ hm3
                              have h2 := setAttr_pfx _ _ _ hm2
                              simp only [Meta.pop, Meta.push] at h2 h3 h4 ⊢
                              rw [h4, List.dropLast_concat, h3, h2, List.dropLast_concat, hpfx]
                            split at hs
                            · cases hs
                            · rename_i v5 hv5
                              obtain ⟨st5, rest5⟩ := v5
                              obtain ⟨st5', hl5, hr5⟩ := loopC_strip bodyItem (noiseIn ["status", "comment"]) subBody RelBody
                                bodyItem_kept bodyItem_noise rest2 { m := m4.pop } { m := m4.pop } st5 rest5
                                ⟨hpfx4, MRel.refl KO _, All2.nil, rfl⟩ hv5
                              simp only at hs
                              split at hs
                              · cases hs
                              · rename_i hend
                                simp only [pure, Except.pure, Except.ok.injEq] at hs
                                subst hs
                                refine ⟨{ data := st5'.m.data, libs := st5'.libs, top := st5'.top }, ?_, hr5.m.2, hr5.libs, hr5.top⟩
                                unfold ofSExp
                                simp only [strip, headIs, List.tail_cons, bind, Except.bind, hall, hver, hvs, hlen, hm2, hm3, hkk, hm4,
                                  hl5, hend, if_false, Bool.false_eq_true, pure, Except.pure]
                                simp only [headIs] at hedif hver
                                simp only [hedif, hver, if_false, Bool.false_eq_true]
                      · cases hs
                      · cases hs
          · cases hs

/-! ### the view does not see the noise keys -/

theorem all2_map_eq {α β γ : Type} {R : α → β → Prop} (f : α → γ) (g : β → γ) {xs : List α} {ys : List β}
    (h : All2 R xs ys) (hf : ∀ a b, R a b → f a = g b) : xs.map f = ys.map g := by
  induction h with
  | nil => rfl
  | cons hh _ ih => simp only [List.map_cons, hf _ _ hh, ih]

theorem view05Port_rel {p p' : CPort} (h : RelPort p p') : view05Port p = view05Port p' := by
  simp only [view05Port, CPort.isArray, CPort.isScalar, h.dir, h.width, h.flag,
    nameOf_of_sameOn KO kN_O _ _ h.data, identOf_of_sameOn KO kI_O _ _ h.data]

theorem view05Inst_rel {i i' : CInst} (h : RelInst i i') : view05Inst i = view05Inst i' := by
  have hp : i'.data.get? (S "EDIF.properties") = i.data.get? (S "EDIF.properties") := h.data kPROPS kPROPS_I
  simp only [view05Inst, v05Props, h.ref, hp, nameOf_of_sameOn KI kN_I _ _ h.data, identOf_of_sameOn KI kI_I _ _ h.data]

theorem view05Cable_rel {c c' : CCable} (h : RelCable c c') : view05Cable c = view05Cable c' := by
  simp only [view05Cable, h.isArray, h.lower, h.wires, nameOf_of_sameOn KO kN_O _ _ h.data, identOf_of_sameOn KO kI_O _ _ h.data]

theorem view05Cell_rel {d d' : CDef} (h : RelDef d d') : view05Cell d = view05Cell d' := by
  have hv := viewIdentOf_of_sameOn _ _ h.data
  simp only [viewIdentOf] at hv
  simp only [view05Cell, hv, nameOf_of_sameOn KO kN_O _ _ h.data, identOf_of_sameOn KO kI_O _ _ h.data,
    all2_map_eq _ _ h.ports (fun _ _ => view05Port_rel), all2_map_eq _ _ h.insts (fun _ _ => view05Inst_rel),
    all2_map_eq _ _ h.cables (fun _ _ => view05Cable_rel)]

theorem view05Lib_rel {l l' : CLib} (h : RelLib l l') : view05Lib l = view05Lib l' := by
  have he : extOf l'.data = extOf l.data := by simp only [extOf, h.data kEXT (by simp [KO])]
  simp only [view05Lib, he, nameOf_of_sameOn KO kN_O _ _ h.data, identOf_of_sameOn KO kI_O _ _ h.data,
    all2_map_eq _ _ h.defs (fun _ _ => view05Cell_rel)]

theorem view05_rel {n n' : CNetlist} (h : RelNet n n') : view05 n = view05 n' := by
  simp only [view05, h.top, nameOf_of_sameOn KO kN_O _ _ h.data, identOf_of_sameOn KO kI_O _ _ h.data,
    all2_map_eq _ _ h.libs (fun _ _ => view05Lib_rel)]

end Spydr.Edif
