/-
  Decidable forms of the hypotheses of the file-level theorems, for the evidence: the driver evaluates
  them on every generated case and reports the first failing clause.

    * `wfNetClause n = none`  implies  `WFNet n … ∧ ScalarLower0 n`  (hypotheses of C03.edif_roundtrip,
      edif_roundtrip_text, parse_compose_parse) — `wfNetClause_sound`;
    * `wfClause d = none`  iff  `d.wf = true`  (hypothesis of C05.edif_reader_spec / _kwcase) — `wfClause_iff`.
-/
import Spydr.Edif.LemmasView
import Spydr.Edif.Abstract
namespace Spydr.Edif

/-- the first check that fails -/
def firstFail : List (String × Bool) → Option String
  | [] => none
  | (nm, b) :: r => if b then firstFail r else some nm

theorem firstFail_none (cs : List (String × Bool)) (h : firstFail cs = none) : ∀ c ∈ cs, c.2 = true := by
  induction cs with
  | nil => intro c hc; cases hc
  | cons a r ih =>
    obtain ⟨nm, b⟩ := a
    intro c hc
    cases b with
    | false => simp [firstFail] at h
    | true =>
      simp only [firstFail, if_true] at h
      rcases List.mem_cons.mp hc with rfl | h1
      · rfl
      · exact ih h c h1

theorem firstFail_of_all (cs : List (String × Bool)) (h : ∀ c ∈ cs, c.2 = true) : firstFail cs = none := by
  induction cs with
  | nil => rfl
  | cons a r ih =>
    obtain ⟨nm, b⟩ := a
    have hb : b = true := h (nm, b) (by simp)
    subst hb
    simp only [firstFail, if_true]
    exact ih (fun c hc => h c (by simp [hc]))

/-! ### C03: `WFNet ∧ ScalarLower0` -/

def namedB (d : Data) : Bool :=
  match identOf d, d.get? kNAME with
  | some i, some (.str n) => checkEdifIdentifier i && n.all isStringChar
  | _, _ => false

theorem namedB_sound (d : Data) (h : namedB d = true) : NamedOK d (idOf d) (nmOf d) := by
  unfold namedB at h
  split at h
  · rename_i i n hi hn
    simp only [Bool.and_eq_true] at h
    have hno : nameOf d = some n := by simp [nameOf, Data.getStr?, hn]
    rw [idOf_of_identOf _ _ hi, nmOf_of_nameOf _ _ hno]
    exact ⟨hi, h.1, hn, h.2⟩
  · cases h

def distinctB (ds : List Data) : Bool :=
  decide (ds.Pairwise fun a b => nmOf a ≠ nmOf b ∧ lower (idOf a) ≠ lower (idOf b))

theorem distinctB_sound (ds : List Data) (h : distinctB ds = true) : Distinct ds := by
  simpa [distinctB, Distinct] using h

def portB (p : CPort) : Bool := namedB p.data && decide (1 ≤ p.width) && (p.isArray || decide (p.width = 1))

theorem portB_sound (p : CPort) (h : portB p = true) : PortWF p := by
  simp only [portB, Bool.and_eq_true, Bool.or_eq_true, decide_eq_true_eq] at h
  refine ⟨namedB_sound _ h.1.1, h.1.2, ?_⟩
  intro ha
  rcases h.2 with h1 | h1
  · rw [ha] at h1; cases h1
  · exact h1

def propValB (v : Val) : Bool :=
  match v with
  | .str s => s.all isStringChar
  | .bool _ => true
  | .int _ => true
  | _ => false

def propB (v : Val) : Bool :=
  match decodeProp v with
  | none => false
  | some t => checkEdifIdentifier t.1 && (match t.2.1 with | some o => o.all isStringChar | none => true) && propValB t.2.2

theorem propB_sound (v : Val) (h : propB v = true) : ∃ t, decodeProp v = some t ∧ PropOK t.1 t.2.1 t.2.2 := by
  unfold propB at h
  split at h
  · cases h
  · rename_i t ht
    simp only [Bool.and_eq_true] at h
    refine ⟨t, ht, h.1.1, ?_, ?_⟩
    · intro o ho
      have := h.1.2
      rw [ho] at this
      exact this
    · have hv := h.2
      unfold propValB at hv
      cases hval : t.2.2 with
      | str s => rw [hval] at hv; exact Or.inl ⟨s, rfl, hv⟩
      | bool b => exact Or.inr (Or.inl ⟨b, rfl⟩)
      | int i => exact Or.inr (Or.inr ⟨i, rfl⟩)
      | null => rw [hval] at hv; cases hv
      | list xs => rw [hval] at hv; cases hv
      | obj kv => rw [hval] at hv; cases hv

def propsB (d : Data) : Bool :=
  match d.get? kPROPS with
  | none => true
  | some (.list ps) => ps.all propB
  | some _ => false

def refB (libs : List CLib) (L D : Nat) (i : CInst) : Bool :=
  match i.ref with
  | none => false
  | some (li, di) =>
    (match libs[li]? with
     | none => false
     | some l2 => (l2.defs[di]?).isSome) && (decide (li < L) || (decide (li = L) && decide (di < D)))

theorem instB_sound (libs : List CLib) (L D : Nat) (i : CInst)
    (h1 : namedB i.data = true) (h2 : refB libs L D i = true) (h3 : propsB i.data = true) : InstWF libs L D i := by
  refine ⟨namedB_sound _ h1, ?_, ?_⟩
  · unfold refB at h2
    split at h2
    · cases h2
    · rename_i li di hr
      simp only [Bool.and_eq_true, Bool.or_eq_true, decide_eq_true_eq] at h2
      cases hl : libs[li]? with
      | none => simp [hl] at h2
      | some l2 =>
        simp only [hl] at h2
        cases hd : l2.defs[di]? with
        | none => simp [hd] at h2
        | some rd => exact ⟨li, di, l2, rd, hr, hl, hd, h2.2⟩
  · unfold propsB at h3
    split at h3
    · left; assumption
    · rename_i ps hp
      right
      exact ⟨ps, hp, fun v hv => propB_sound v (List.all_eq_true.mp h3 v hv)⟩
    · cases h3

def portBitB (ps : List CPort) (pi bi : Nat) : Bool :=
  match ps[pi]? with
  | some p => decide (bi < p.width) && (p.isArray || decide (bi = 0))
  | none => false

def pinB (libs : List CLib) (d : CDef) : CPin → Bool
  | .port pi bi => portBitB d.ports pi bi
  | .inst ii pi bi =>
    match d.insts[ii]? with
    | none => false
    | some inst =>
      match inst.ref with
      | none => false
      | some (li, di) =>
        match libs[li]? with
        | none => false
        | some l2 =>
          match l2.defs[di]? with
          | none => false
          | some rd => portBitB rd.ports pi bi

theorem portBitB_sound (ps : List CPort) (pi bi : Nat) (h : portBitB ps pi bi = true) :
    ∃ p, ps[pi]? = some p ∧ bi < p.width ∧ (p.isArray = false → bi = 0) := by
  unfold portBitB at h
  split at h
  · rename_i p hp
    simp only [Bool.and_eq_true, Bool.or_eq_true, decide_eq_true_eq] at h
    refine ⟨p, hp, h.1, ?_⟩
    intro ha
    rcases h.2 with h1 | h1
    · rw [ha] at h1; cases h1
    · exact h1
  · cases h

theorem pinB_sound (libs : List CLib) (d : CDef) (pin : CPin) (h : pinB libs d pin = true) : PinWF libs d pin := by
  cases pin with
  | port pi bi => exact portBitB_sound _ _ _ h
  | inst ii pi bi =>
    simp only [pinB] at h
    split at h
    · cases h
    · rename_i inst hi
      split at h
      · cases h
      · rename_i li di hr
        split at h
        · cases h
        · rename_i l2 hl
          split at h
          · cases h
          · rename_i rd hrd
            obtain ⟨p, hp, hb, hs⟩ := portBitB_sound _ _ _ h
            exact ⟨inst, li, di, l2, rd, p, hi, hr, hl, hrd, hp, hb, hs⟩

def isScalarCable (c : CCable) : Bool := decide (c.wires.length = 1) && !c.isArray

def cableShapeB (c : CCable) : Bool :=
  if isScalarCable c then (sepName (nmOf c.data)).1.isNone && !(nmOf c.data).isEmpty && decide (c.lower = 0)
  else (List.range c.wires.length).all fun k =>
    bracketAllowed (bitName (nmOf c.data) (k + c.lower)) && checkEdifIdentifier (bitIdent (idOf c.data) (k + c.lower)) &&
      (bitName (nmOf c.data) (k + c.lower)).all isStringChar

theorem cableB_sound (libs : List CLib) (d : CDef) (c : CCable) (h1 : namedB c.data = true)
    (h2 : (!c.wires.isEmpty) = true) (h3 : (c.wires.all fun w => w.all (pinB libs d)) = true)
    (h4 : cableShapeB c = true) : CableWF libs d c ∧ (c.wires.length = 1 → c.isArray = false → c.lower = 0) := by
  have hsc : isScalarCable c = true ↔ (c.wires.length = 1 ∧ c.isArray = false) := by
    simp [isScalarCable]
  refine ⟨⟨namedB_sound _ h1, by simpa using h2, ?_, ?_, ?_⟩, ?_⟩
  · intro w hw pin hp
    exact pinB_sound libs d pin (List.all_eq_true.mp (List.all_eq_true.mp h3 w hw) pin hp)
  · intro hl ha
    unfold cableShapeB at h4
    rw [if_pos (hsc.mpr ⟨hl, ha⟩)] at h4
    simp only [Bool.and_eq_true, Option.isNone_iff_eq_none, Bool.not_eq_true', List.isEmpty_eq_false_iff, decide_eq_true_eq] at h4
    exact ⟨h4.1.1, h4.1.2⟩
  · intro hnot k hk
    unfold cableShapeB at h4
    rw [if_neg (by rw [hsc]; exact hnot)] at h4
    have := List.all_eq_true.mp h4 k (List.mem_range.mpr hk)
    simp only [Bool.and_eq_true] at this
    exact ⟨this.1.1, this.1.2, this.2⟩
  · intro hl ha
    unfold cableShapeB at h4
    rw [if_pos (hsc.mpr ⟨hl, ha⟩)] at h4
    simp only [Bool.and_eq_true, decide_eq_true_eq] at h4
    exact h4.2

/-- the checks of one cell at (L, D), named -/
def cellChecks (libs : List CLib) (L D : Nat) (d : CDef) : List (String × Bool) :=
  [("definition.named", namedB d.data),
   ("port.named_nonempty", d.ports.all portB),
   ("ports.distinct", distinctB (d.ports.map (·.data))),
   ("instance.named", d.insts.all fun i => namedB i.data),
   ("instance.reference_before", d.insts.all (refB libs L D)),
   ("instance.properties_canonical", d.insts.all fun i => propsB i.data),
   ("instances.distinct", distinctB (d.insts.map (·.data))),
   ("cable.named", d.cables.all fun c => namedB c.data),
   ("cable.nonempty", d.cables.all fun c => !c.wires.isEmpty),
   ("cable.pins_in_range", d.cables.all fun c => c.wires.all fun w => w.all (pinB libs d)),
   ("cable.scalar_not_bitlike_bus_bits_legal", d.cables.all cableShapeB),
   ("cables.distinct", distinctB (d.cables.map (·.data))),
   ("pins.joined_once", decide ((d.cables.flatMap fun c => c.wires.flatten).Nodup))]

structure CellChecked (libs : List CLib) (L D : Nat) (d : CDef) : Prop where
  c0 : (namedB d.data) = true
  c1 : (d.ports.all portB) = true
  c2 : (distinctB (d.ports.map (·.data))) = true
  c3 : (d.insts.all fun i => namedB i.data) = true
  c4 : (d.insts.all (refB libs L D)) = true
  c5 : (d.insts.all fun i => propsB i.data) = true
  c6 : (distinctB (d.insts.map (·.data))) = true
  c7 : (d.cables.all fun c => namedB c.data) = true
  c8 : (d.cables.all fun c => !c.wires.isEmpty) = true
  c9 : (d.cables.all fun c => c.wires.all fun w => w.all (pinB libs d)) = true
  c10 : (d.cables.all cableShapeB) = true
  c11 : (distinctB (d.cables.map (·.data))) = true
  c12 : (decide ((d.cables.flatMap fun c => c.wires.flatten).Nodup)) = true

theorem cellChecks_true (libs : List CLib) (L D : Nat) (d : CDef) (h : ∀ c ∈ cellChecks libs L D d, c.2 = true) :
    CellChecked libs L D d :=
  ⟨h ("definition.named", namedB d.data) (by simp [cellChecks]),
    h ("port.named_nonempty", d.ports.all portB) (by simp [cellChecks]),
    h ("ports.distinct", distinctB (d.ports.map (·.data))) (by simp [cellChecks]),
    h ("instance.named", d.insts.all fun i => namedB i.data) (by simp [cellChecks]),
    h ("instance.reference_before", d.insts.all (refB libs L D)) (by simp [cellChecks]),
    h ("instance.properties_canonical", d.insts.all fun i => propsB i.data) (by simp [cellChecks]),
    h ("instances.distinct", distinctB (d.insts.map (·.data))) (by simp [cellChecks]),
    h ("cable.named", d.cables.all fun c => namedB c.data) (by simp [cellChecks]),
    h ("cable.nonempty", d.cables.all fun c => !c.wires.isEmpty) (by simp [cellChecks]),
    h ("cable.pins_in_range", d.cables.all fun c => c.wires.all fun w => w.all (pinB libs d)) (by simp [cellChecks]),
    h ("cable.scalar_not_bitlike_bus_bits_legal", d.cables.all cableShapeB) (by simp [cellChecks]),
    h ("cables.distinct", distinctB (d.cables.map (·.data))) (by simp [cellChecks]),
    h ("pins.joined_once", decide ((d.cables.flatMap fun c => c.wires.flatten).Nodup)) (by simp [cellChecks])⟩

def statusB (d : Data) : Bool :=
  (match d.get? kPROG with
   | none => true
   | some (.str p) =>
     p.all isStringChar &&
     (match d.get? kVER with
      | none => true
      | some (.str v) => v.all isStringChar
      | some _ => false)
   | some _ => false)

def topB (n : CNetlist) : Bool :=
  match n.top with
  | none => false
  | some t =>
    namedB t.data &&
    (match t.ref with
     | none => false
     | some (li, di) =>
       match n.libs[li]? with
       | none => false
       | some l => (l.defs[di]?).isSome)

/-- all the checks of a netlist, in order -/
def netChecks (n : CNetlist) : List (String × Bool) :=
  [("netlist.named", namedB n.data), ("status.strings", statusB n.data), ("top.named_and_declared", topB n),
   ("library.named", n.libs.all fun l => namedB l.data),
   ("libraries.distinct", distinctB (n.libs.map (·.data))),
   ("definitions.distinct", n.libs.all fun l => distinctB (l.defs.map (·.data)))] ++
  (n.libs.zipIdx.flatMap fun (l, L) => l.defs.zipIdx.flatMap fun (d, D) => cellChecks n.libs L D d)

/-- **first failing clause of `WFNet n ∧ ScalarLower0 n`** (`none`: inside the quantifier of
    edif_roundtrip / parse_compose_parse) -/
def wfNetClause (n : CNetlist) : Option String := firstFail (netChecks n)

theorem statusB_sound (d : Data) (h : statusB d = true) : ∃ prog ver, StatusOK d prog ver := by
  unfold statusB at h
  split at h
  · rename_i hp
    exact ⟨none, none, hp, (by intro hh; cases hh), (by intro p hp; cases hp), (by intro v hv; cases hv)⟩
  · rename_i p hp
    simp only [Bool.and_eq_true] at h
    obtain ⟨hps, hrest⟩ := h
    split at hrest
    · rename_i hv
      exact ⟨some p, none, hp, (fun _ => hv), (by intro q hq; cases hq; exact hps), (by intro v hv'; cases hv')⟩
    · rename_i v hv
      exact ⟨some p, some v, hp, (fun _ => hv), (by intro q hq; cases hq; exact hps), (by intro w hw; cases hw; exact hrest)⟩
    · cases hrest
  · cases h

theorem wfNetClause_sound (n : CNetlist) (h : wfNetClause n = none) :
    ∃ prog ver t li di, WFNet n prog ver t li di ∧ ScalarLower0 n := by
  have hall := firstFail_none _ h
  have hget : ∀ nm b, (nm, b) ∈ netChecks n → b = true := fun nm b hm => hall (nm, b) hm
  have h1 := hget "netlist.named" (namedB n.data) (by simp [netChecks])
  have h2 := hget "status.strings" (statusB n.data) (by simp [netChecks])
  have h3 := hget "top.named_and_declared" (topB n) (by simp [netChecks])
  have h4 := hget "library.named" (n.libs.all fun l => namedB l.data) (by simp [netChecks])
  have h5 := hget "libraries.distinct" (distinctB (n.libs.map (·.data))) (by simp [netChecks])
  have h6 := hget "definitions.distinct" (n.libs.all fun l => distinctB (l.defs.map (·.data))) (by simp [netChecks])
  have hcell : ∀ L l, n.libs[L]? = some l → ∀ D d, l.defs[D]? = some d → ∀ c ∈ cellChecks n.libs L D d, c.2 = true := by
    intro L l hl D d hd c hc
    apply hall c
    simp only [netChecks, List.mem_append, List.mem_flatMap]
    right
    exact ⟨(l, L), List.mem_zipIdx_iff_getElem?.mpr hl, (d, D), List.mem_zipIdx_iff_getElem?.mpr hd, hc⟩
  have hck : ∀ L l, n.libs[L]? = some l → ∀ D d, l.defs[D]? = some d → CellChecked n.libs L D d :=
    fun L l hl D d hd => cellChecks_true _ _ _ _ (hcell L l hl D d hd)
  obtain ⟨prog, ver, hst⟩ := statusB_sound _ h2
  -- the top instance
  unfold topB at h3
  cases ht : n.top with
  | none => rw [ht] at h3; cases h3
  | some t =>
    rw [ht] at h3
    simp only [Bool.and_eq_true] at h3
    cases hr : t.ref with
    | none => rw [hr] at h3; simp at h3
    | some r =>
      obtain ⟨li, di⟩ := r
      rw [hr] at h3
      simp only at h3
      cases hl : n.libs[li]? with
      | none => rw [hl] at h3; simp at h3
      | some ltop =>
        rw [hl] at h3
        simp only at h3
        cases hd : ltop.defs[di]? with
        | none => rw [hd] at h3; simp at h3
        | some dtop =>
          refine ⟨prog, ver, t, li, di, ⟨?_, ?_, namedB_sound _ h1, hst, ht, namedB_sound _ h3.1, hr, ⟨ltop, dtop, hl, hd⟩⟩, ?_⟩
          · -- NetNames
            refine ⟨fun l hl' => namedB_sound _ (List.all_eq_true.mp h4 l hl'), distinctB_sound _ h5, ?_,
              fun l hl' => distinctB_sound _ (List.all_eq_true.mp h6 l hl'), ?_, ?_⟩
            · intro l hl' d hd'
              obtain ⟨L, hL, rfl⟩ := List.getElem_of_mem hl'
              obtain ⟨D, hD, rfl⟩ := List.getElem_of_mem hd'
              exact namedB_sound _ (hck L _ (List.getElem?_eq_getElem hL) D _ (List.getElem?_eq_getElem hD)).c0
            · intro l hl' d hd' p hp
              obtain ⟨L, hL, rfl⟩ := List.getElem_of_mem hl'
              obtain ⟨D, hD, rfl⟩ := List.getElem_of_mem hd'
              exact portB_sound p (List.all_eq_true.mp (hck L _ (List.getElem?_eq_getElem hL) D _ (List.getElem?_eq_getElem hD)).c1 p hp)
            · intro l hl' d hd'
              obtain ⟨L, hL, rfl⟩ := List.getElem_of_mem hl'
              obtain ⟨D, hD, rfl⟩ := List.getElem_of_mem hd'
              exact distinctB_sound _ (hck L _ (List.getElem?_eq_getElem hL) D _ (List.getElem?_eq_getElem hD)).c2
          · -- cells
            intro L l hl' D d hd'
            have hk := hck L l hl' D d hd'
            refine ⟨?_, distinctB_sound _ hk.c6, ?_, distinctB_sound _ hk.c11, by simpa using hk.c12⟩
            · intro i hi
              exact instB_sound n.libs L D i (List.all_eq_true.mp hk.c3 i hi) (List.all_eq_true.mp hk.c4 i hi)
                (List.all_eq_true.mp hk.c5 i hi)
            · intro c hc
              exact (cableB_sound n.libs d c (List.all_eq_true.mp hk.c7 c hc) (List.all_eq_true.mp hk.c8 c hc)
                (List.all_eq_true.mp hk.c9 c hc) (List.all_eq_true.mp hk.c10 c hc)).1
          · -- ScalarLower0
            intro l hl' d hd' c hc
            obtain ⟨L, hL, rfl⟩ := List.getElem_of_mem hl'
            obtain ⟨D, hD, rfl⟩ := List.getElem_of_mem hd'
            have hk := hck L _ (List.getElem?_eq_getElem hL) D _ (List.getElem?_eq_getElem hD)
            exact (cableB_sound n.libs _ c (List.all_eq_true.mp hk.c7 c hc) (List.all_eq_true.mp hk.c8 c hc)
              (List.all_eq_true.mp hk.c9 c hc) (List.all_eq_true.mp hk.c10 c hc)).2

/-! ### C05: `ADesign.wf` -/

def cellChecksA (d : ADesign) (L D : Nat) (c : ACell) : List (String × Bool) :=
  [("view.identifier", checkEdifIdentifier c.view),
   ("ports.names_legal_distinct", namesOKB (c.ports.map (·.name))),
   ("ports.array_size_positive", c.ports.all APort.okB),
   ("instances.names_legal_distinct", namesOKB (c.insts.map (·.name))),
   ("instances.reference_resolves_before", c.insts.all (AInst.okB d L D)),
   ("nets.names_and_bits", netsOKB c.nets),
   ("pins.resolve_in_range", c.nets.all fun n => n.pins.all (APin.okB d c)),
   ("pins.joined_once", decide ((c.nets.flatMap fun n => n.pins.map APin.pin).Nodup))]

def designChecks (d : ADesign) : List (String × Bool) :=
  [("design.name", d.name.okB), ("top.name", d.top.okB),
   ("libraries.names_legal_distinct", namesOKB (d.libs.map (·.name))),
   ("cells.names_legal_distinct", allIdx d.libs fun _ l => namesOKB (l.cells.map (·.name)))] ++
  (d.libs.zipIdx.flatMap fun (l, L) => l.cells.zipIdx.flatMap fun (c, D) => cellChecksA d L D c) ++
  [("design.target_resolves", match cellAt d d.topLi d.topDi with
     | none => false
     | some (l, c) => spellsB d.topCellSp c.name.ident && spellsB d.topLibSp l.name.ident)]

/-- **first failing clause of `d.wf`** -/
def wfClause (d : ADesign) : Option String := firstFail (designChecks d)

theorem allIdx_of {α : Type} (xs : List α) (f : Nat → α → Bool) (h : ∀ k x, xs[k]? = some x → f k x = true) :
    allIdx xs f = true := by
  simp only [allIdx, List.all_eq_true]
  intro p hp
  exact h p.2 p.1 (List.mem_zipIdx_iff_getElem?.mp hp)

theorem allIdx_get' {α : Type} (xs : List α) (f : Nat → α → Bool) (h : allIdx xs f = true) (k : Nat) (x : α)
    (hk : xs[k]? = some x) : f k x = true := by
  simp only [allIdx, List.all_eq_true] at h
  exact h (x, k) (List.mem_zipIdx_iff_getElem?.mpr hk)

/-- `wfClause d = none` is exactly the hypothesis of `edif_reader_spec` -/
theorem wfClause_sound (d : ADesign) (h : wfClause d = none) : d.wf = true := by
  have hall := firstFail_none _ h
  have g : ∀ nm b, (nm, b) ∈ designChecks d → b = true := fun nm b hm => hall (nm, b) hm
  have h1 := g "design.name" d.name.okB (by simp [designChecks])
  have h2 := g "top.name" d.top.okB (by simp [designChecks])
  have h3 := g "libraries.names_legal_distinct" (namesOKB (d.libs.map (·.name))) (by simp [designChecks])
  have h4 := g "cells.names_legal_distinct" (allIdx d.libs fun _ l => namesOKB (l.cells.map (·.name))) (by simp [designChecks])
  have h5 := g "design.target_resolves" (match cellAt d d.topLi d.topDi with
     | none => false
     | some (l, c) => spellsB d.topCellSp c.name.ident && spellsB d.topLibSp l.name.ident) (by simp [designChecks])
  have hcell : ∀ L l, d.libs[L]? = some l → ∀ D c, l.cells[D]? = some c → ∀ x ∈ cellChecksA d L D c, x.2 = true := by
    intro L l hl D c hc x hx
    apply hall x
    simp only [designChecks, List.mem_append, List.mem_flatMap]
    left; right
    exact ⟨(l, L), List.mem_zipIdx_iff_getElem?.mpr hl, (c, D), List.mem_zipIdx_iff_getElem?.mpr hc, hx⟩
  simp only [ADesign.wf, Bool.and_eq_true]
  refine ⟨⟨⟨⟨h1, h2⟩, h3⟩, ?_⟩, h5⟩
  apply allIdx_of
  intro L l hl
  simp only [ALib.okB, Bool.and_eq_true]
  refine ⟨allIdx_get' _ _ h4 L l hl, ?_⟩
  apply allIdx_of
  intro D c hc
  have hk := hcell L l hl D c hc
  simp only [ACell.okB, Bool.and_eq_true]
  exact ⟨⟨⟨⟨⟨⟨⟨hk ("view.identifier", checkEdifIdentifier c.view) (by simp [cellChecksA]),
    hk ("ports.names_legal_distinct", namesOKB (c.ports.map (·.name))) (by simp [cellChecksA])⟩,
    hk ("ports.array_size_positive", c.ports.all APort.okB) (by simp [cellChecksA])⟩,
    hk ("instances.names_legal_distinct", namesOKB (c.insts.map (·.name))) (by simp [cellChecksA])⟩,
    hk ("instances.reference_resolves_before", c.insts.all (AInst.okB d L D)) (by simp [cellChecksA])⟩,
    hk ("nets.names_and_bits", netsOKB c.nets) (by simp [cellChecksA])⟩,
    hk ("pins.resolve_in_range", c.nets.all fun n => n.pins.all (APin.okB d c)) (by simp [cellChecksA])⟩,
    hk ("pins.joined_once", decide ((c.nets.flatMap fun n => n.pins.map APin.pin).Nodup)) (by simp [cellChecksA])⟩

end Spydr.Edif
