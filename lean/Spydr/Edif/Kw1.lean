/-
  The reader is insensitive to the letter case of construct keywords: `ofSExp (norm e) = ofSExp e` for
  EVERY s-expression, where `norm` lowercases the head atom of every list (except the two keywords whose
  spelling the reader stores, `cellType` and `viewType`).
-/
import Spydr.Edif.ModelRead
namespace Spydr.Edif

/-- the keywords whose spelling is stored in the netlist (`EDIF.cellType`, `EDIF.view.viewType`) -/
def keepCase (a : Str) : Bool := lower a == S "celltype" || lower a == S "viewtype"

def normHead (a : Str) : Str := if keepCase a then a else lower a

mutual
/-- lowercase the keyword (head atom) of every construct -/
def norm : SExp → SExp
  | .atom a => .atom a
  | .list xs => .list (normC xs)
/-- the content of a construct: its head atom is the keyword -/
def normC : List SExp → List SExp
  | [] => []
  | .atom a :: r => .atom (normHead a) :: normL r
  | .list ys :: r => .list (normC ys) :: normL r
/-- a list of sub-expressions -/
def normL : List SExp → List SExp
  | [] => []
  | x :: r => norm x :: normL r
end

theorem toLower_of_not_upper (c : Char) (h : ¬ (c.val ≥ 'A'.val ∧ c.val ≤ 'Z'.val)) : c.toLower = c := by
  unfold Char.toLower
  rw [dif_neg h]

theorem toLower_val_of_upper (c : Char) (h : c.val ≥ 'A'.val ∧ c.val ≤ 'Z'.val) :
    c.toLower.val = c.val + ('a'.val - 'A'.val) := by
  unfold Char.toLower
  rw [dif_pos h]

theorem toLower_idem (c : Char) : c.toLower.toLower = c.toLower := by
  by_cases h : c.val ≥ 'A'.val ∧ c.val ≤ 'Z'.val
  · have hv := toLower_val_of_upper c h
    apply toLower_of_not_upper
    rw [hv]
    intro hh
    have h1 := h.1; have h2 := h.2; have h3 := hh.2
    simp only [ge_iff_le, UInt32.le_iff_toNat_le, UInt32.toNat_add] at h1 h2 h3
    have e1 : 'A'.val.toNat = 65 := by decide
    have e2 : 'Z'.val.toNat = 90 := by decide
    have e3 : ('a'.val - 'A'.val).toNat = 32 := by decide
    rw [e1] at h1; rw [e2] at h2 h3; rw [e3] at h3
    omega
  · rw [toLower_of_not_upper c h, toLower_of_not_upper c h]

theorem lower_idem (s : Str) : lower (lower s) = lower s := by
  unfold lower
  rw [List.map_map]
  apply List.map_congr_left
  intro c _
  exact toLower_idem c

/-! ### basic facts -/

theorem lower_normHead (a : Str) : lower (normHead a) = lower a := by
  unfold normHead
  split
  · rfl
  · exact lower_idem a

/-- the head element of a content list after normalisation -/
def normH : SExp → SExp
  | .atom a => .atom (normHead a)
  | .list ys => .list (normC ys)

theorem normH_atom (a : Str) : normH (.atom a) = .atom (normHead a) := rfl
theorem normH_list (ys : List SExp) : normH (.list ys) = .list (normC ys) := rfl

@[simp] theorem normC_nil : normC [] = [] := by simp [normC]
@[simp] theorem normL_nil : normL [] = [] := by simp [normL]
@[simp] theorem normC_cons (x : SExp) (r : List SExp) : normC (x :: r) = normH x :: normL r := by
  cases x <;> simp [normC, normH]
@[simp] theorem normL_cons (x : SExp) (r : List SExp) : normL (x :: r) = norm x :: normL r := by simp [normL]
@[simp] theorem norm_atom (a : Str) : norm (.atom a) = .atom a := by simp [norm]
@[simp] theorem norm_list (xs : List SExp) : norm (.list xs) = .list (normC xs) := by simp [norm]

@[simp] theorem isKw_normH (x : SExp) (k : String) : isKw (normH x) k = isKw x k := by
  cases x with
  | atom a => simp [normH, isKw, lower_normHead]
  | list ys => simp [normH, isKw]

@[simp] theorem headIs_normC (ys : List SExp) (k : String) : headIs (normC ys) k = headIs ys k := by
  cases ys with
  | nil => rfl
  | cons x r => simp [headIs]

theorem headIs_cons_isKw (x : SExp) (r : List SExp) (k : String) : headIs (x :: r) k = isKw x k := rfl

@[simp] theorem headIs_normH_cons (x : SExp) (r : List SExp) (k : String) : headIs (normH x :: r) k = headIs (x :: r) k := by
  simp [headIs]

@[simp] theorem headAny_normH_cons (x : SExp) (r : List SExp) (ks : List String) :
    headAny (normH x :: r) ks = headAny (x :: r) ks := by
  unfold headAny
  congr 1
  funext k
  exact headIs_normH_cons x r k

@[simp] theorem headAny_normC (ys : List SExp) (ks : List String) : headAny (normC ys) ks = headAny ys ks := by
  unfold headAny
  congr 1
  funext k
  exact headIs_normC ys k

@[simp] theorem tail_normC (ys : List SExp) : (normC ys).tail = normL ys.tail := by
  cases ys <;> simp

@[simp] theorem tail_normL (ys : List SExp) : (normL ys).tail = normL ys.tail := by
  cases ys <;> simp

@[simp] theorem isKw_norm (x : SExp) (k : String) : isKw (norm x) k = isKw x k := by cases x <;> simp [isKw]

@[simp] theorem identOfS_norm (x : SExp) : identOfS (norm x) = identOfS x := by cases x <;> simp [identOfS]
@[simp] theorem stringOfS_norm (x : SExp) : stringOfS (norm x) = stringOfS x := by cases x <;> simp [stringOfS]
@[simp] theorem intOfS_norm (x : SExp) : intOfS (norm x) = intOfS x := by cases x <;> simp [intOfS]

/-- a keyword whose spelling the reader stores is left alone -/
theorem normH_of_kept (x : SExp) (k : String) (hk : k = "celltype" ∨ k = "viewtype") (h : isKw x k = true) : normH x = x := by
  cases x with
  | list ys => simp [isKw] at h
  | atom a =>
    simp only [isKw, beq_iff_eq] at h
    have : keepCase a = true := by
      unfold keepCase
      rcases hk with rfl | rfl <;> simp [h]
    simp [normH, normHead, this]

theorem mapM_normL {α : Type} (f : SExp → R α) (hf : ∀ x, f (norm x) = f x) (xs : List SExp) :
    (normL xs).mapM f = xs.mapM f := by
  induction xs with
  | nil => rfl
  | cons x r ih => simp [List.mapM_cons, hf, ih]

@[simp] theorem endC_normL (w : String) (xs : List SExp) : endC w (normL xs) = endC w xs := by
  cases xs <;> simp [endC]

/-- a result whose remaining items are normalised -/
def mapRest {σ : Type} (r : R (σ × List SExp)) : R (σ × List SExp) :=
  match r with
  | .ok (s, rest) => .ok (s, normL rest)
  | .error e => .error e

theorem loopC_normL {σ : Type} (h : σ → List SExp → R σ) (hh : ∀ s ys, h s (normC ys) = h s ys) :
    ∀ (xs : List SExp) (s : σ), loopC h s (normL xs) = mapRest (loopC h s xs) := by
  intro xs
  induction xs with
  | nil => intro s; rfl
  | cons x r ih =>
    intro s
    cases x with
    | atom a => simp [loopC, mapRest, pure, Except.pure]
    | list ys =>
      simp only [normL_cons, norm_list, loopC, hh, bind, Except.bind]
      cases h s ys with
      | error e => rfl
      | ok s' => exact ih s'

end Spydr.Edif
