/-
  Keyword case, construct by construct (names, comments, properties, status, levels, ports).
-/
import Spydr.Edif.Kw1
namespace Spydr.Edif

theorem parseRename_norm (m : Meta) (ys : List SExp) : parseRename m (normC ys) = parseRename m ys := by
  rcases ys with _ | ⟨a, _ | ⟨b, _ | ⟨c, _ | ⟨d, r⟩⟩⟩⟩ <;> simp [parseRename]

theorem nameDef_norm (m : Meta) (xs : List SExp) : nameDef m (normL xs) = mapRest (nameDef m xs) := by
  cases xs with
  | nil => rfl
  | cons x r =>
    cases x with
    | atom a =>
      simp only [normL_cons, norm_atom, nameDef, bind, Except.bind]
      cases identOfS (.atom a) with
      | error e => rfl
      | ok i =>
        simp only
        cases setAttr (m.push "identifier") (.str i) with
        | error e => rfl
        | ok m1 => rfl
    | list ys =>
      simp only [normL_cons, norm_list, nameDef, parseRename_norm, bind, Except.bind]
      cases parseRename m ys with
      | error e => rfl
      | ok m1 => rfl

theorem nameRef_norm (m : Meta) (xs : List SExp) : nameRef m (normL xs) = mapRest (nameRef m xs) := by
  cases xs with
  | nil => rfl
  | cons x r =>
    simp only [normL_cons, nameRef, identOfS_norm, bind, Except.bind]
    cases identOfS x with
    | error e => rfl
    | ok i =>
      simp only
      cases setAttr (m.push "identifier") (.str i) with
      | error e => rfl
      | ok m1 => rfl

theorem parseComment_norm (m : Meta) (ys : List SExp) : parseComment m (normC ys) = parseComment m ys := by
  simp [parseComment, mapM_normL stringOfS stringOfS_norm]

theorem typedValue_norm (ys : List SExp) : typedValue (normC ys) = typedValue ys := by
  rcases ys with _ | ⟨a, _ | ⟨b, _ | ⟨c, r⟩⟩⟩
  · rfl
  · simp [typedValue, headIs_cons_isKw]; rfl
  · cases b with
    | atom t => simp [typedValue, headIs_cons_isKw]
    | list zs =>
      rcases zs with _ | ⟨z, _ | ⟨z2, zr⟩⟩
      · simp [typedValue, headIs_cons_isKw, intOfS, stringOfS]
      · cases z with
        | atom t => simp [typedValue, normH_atom, headIs_cons_isKw, intOfS, stringOfS, lower_normHead]
        | list w => simp [typedValue, normH_list, headIs_cons_isKw, intOfS, stringOfS]
      · simp [typedValue, headIs_cons_isKw, intOfS, stringOfS]
  · simp [typedValue, headIs_cons_isKw]; rfl

theorem propTail_norm (b : Bool) (ys : List SExp) : propTail b (normC ys) = propTail b ys := by
  rcases ys with _ | ⟨a, _ | ⟨x, _ | ⟨c, r⟩⟩⟩ <;> simp [propTail, headIs_cons_isKw] <;> rfl

theorem propLike_norm (m : Meta) (xs : List SExp) : propLike m (normL xs) = propLike m xs := by
  unfold propLike
  rw [nameDef_norm]
  cases nameDef m xs with
  | error e => rfl
  | ok v =>
    obtain ⟨m1, rest⟩ := v
    simp only [mapRest, bind, Except.bind]
    cases m1.data.get? (joinDot (m1.pfx ++ [S "identifier"])) with
    | none => rfl
    | some ident =>
      simp only
      cases rest with
      | nil => rfl
      | cons x r =>
        cases x with
        | atom a => rfl
        | list vs =>
          simp only [normL_cons, norm_list, typedValue_norm]
          cases typedValue vs with
          | error e => rfl
          | ok v =>
            simp only
            rw [loopC_normL propTail propTail_norm]
            cases loopC propTail false r with
            | error e => rfl
            | ok w =>
              obtain ⟨b, rest2⟩ := w
              simp [mapRest]

theorem parseProperty_norm (m : Meta) (ys : List SExp) : parseProperty m (normC ys) = parseProperty m ys := by
  simp [parseProperty, propLike_norm]

theorem parseMetax_norm (m : Meta) (ys : List SExp) : parseMetax m (normC ys) = parseMetax m ys := by
  simp [parseMetax, propLike_norm]

theorem intsOf_norm (xs : List SExp) : intsOf (normL xs) = intsOf xs := mapM_normL intOfS intOfS_norm xs

-- the three sub-parsers of an item list, on one concrete content list
set_option hygiene false in
macro "subnorm " m:term ", " l:term : tactic =>
  `(tactic| (
      have hp := parseProperty_norm $m $l
      have hmx := parseMetax_norm $m $l
      have hc := parseComment_norm $m $l
      simp only [normC_cons, normL_cons, normL_nil, norm_atom, norm_list, normC_nil] at hp hmx hc))

theorem writtenItem_norm (s : WrittenSt) (ys : List SExp) : writtenItem s (normC ys) = writtenItem s ys := by
  rcases ys with _ | ⟨a, _ | ⟨x, _ | ⟨c, _ | ⟨d, r⟩⟩⟩⟩
  · rfl
  · subnorm s.m, [a]
    simp [writtenItem, headIs_cons_isKw, hp, hmx, hc] <;> rfl
  · subnorm s.m, [a, x]
    simp [writtenItem, headIs_cons_isKw, hp, hmx, hc] <;> rfl
  · cases c with
    | atom t =>
      subnorm s.m, [a, x, .atom t]
      simp [writtenItem, headIs_cons_isKw, hp, hmx, hc] <;> rfl
    | list zs =>
      rcases zs with _ | ⟨k, _ | ⟨v, _ | ⟨w, zr⟩⟩⟩
      · subnorm s.m, [a, x, .list []]
        simp [writtenItem, headIs_cons_isKw, hp, hmx, hc] <;> rfl
      · subnorm s.m, [a, x, .list [k]]
        simp [writtenItem, headIs_cons_isKw, hp, hmx, hc] <;> rfl
      · subnorm s.m, [a, x, .list [k, v]]
        simp [writtenItem, headIs_cons_isKw, hp, hmx, hc] <;> rfl
      · subnorm s.m, [a, x, .list (k :: v :: w :: zr)]
        simp [writtenItem, headIs_cons_isKw, hp, hmx, hc] <;> rfl
  · subnorm s.m, (a :: x :: c :: d :: r)
    simp [writtenItem, headIs_cons_isKw, hp, hmx, hc] <;> rfl

theorem mapRest_loopC {σ : Type} (h : σ → List SExp → R σ) (hh : ∀ s ys, h s (normC ys) = h s ys) (s : σ) (xs : List SExp)
    (w : String) {β : Type} (f : σ → R β) :
    (loopC h s (normL xs) >>= fun p => endC w p.2 >>= fun _ => f p.1) =
      (loopC h s xs >>= fun p => endC w p.2 >>= fun _ => f p.1) := by
  rw [loopC_normL h hh]
  cases loopC h s xs with
  | error e => rfl
  | ok p =>
    obtain ⟨s', rest⟩ := p
    simp [mapRest, bind, Except.bind]

theorem parseWritten_norm (m : Meta) (ys : List SExp) : parseWritten m (normC ys) = parseWritten m ys := by
  unfold parseWritten
  simp only [tail_normC]
  rcases ys.tail with _ | ⟨x, r⟩
  · rfl
  · cases x with
    | atom a => rfl
    | list ts =>
      simp only [normL_cons, norm_list, headIs_normC, tail_normC, intsOf_norm]
      split
      · simp only [bind, Except.bind]
        cases intsOf ts.tail with
        | error e => rfl
        | ok is =>
          simp only
          split
          · rfl
          · cases setAttr ((m.push "written").push "timeStamp") (.list (is.map .int)) with
            | error e => rfl
            | ok m1 =>
              simp only
              have := mapRest_loopC writtenItem writtenItem_norm { m := m1.pop } r "written" (fun s => pure s.m.pop)
              simpa [bind, Except.bind, pure, Except.pure] using this
      · rfl

theorem statusItem_norm (m : Meta) (ys : List SExp) : statusItem m (normC ys) = statusItem m ys := by
  simp [statusItem, parseWritten_norm, parseComment_norm]

theorem parseStatus_norm (m : Meta) (ys : List SExp) : parseStatus m (normC ys) = parseStatus m ys := by
  unfold parseStatus
  simp only [tail_normC]
  have := mapRest_loopC statusItem statusItem_norm (m.push "status") ys.tail "status" (fun s => pure s.pop)
  simpa [bind, Except.bind] using this

theorem levelOf_norm (m : Meta) (ys : List SExp) (kw pfx : String) : levelOf m (normC ys) kw pfx = levelOf m ys kw pfx := by
  rcases ys with _ | ⟨a, _ | ⟨x, _ | ⟨c, r⟩⟩⟩ <;> simp [levelOf]

theorem parseDirection_norm (ys : List SExp) : parseDirection (normC ys) = parseDirection ys := by
  rcases ys with _ | ⟨a, _ | ⟨x, _ | ⟨c, r⟩⟩⟩ <;> simp [parseDirection]

theorem portItem_norm (s : PortSt) (ys : List SExp) : portItem s (normC ys) = portItem s ys := by
  simp [portItem, parseDirection_norm, parseProperty_norm, parseComment_norm]

theorem parsePort_norm (ys : List SExp) : parsePort (normC ys) = parsePort ys := by
  unfold parsePort
  simp only [tail_normC]
  have hloop : ∀ (m : Meta) (rest : List SExp) (w : Nat) (isArr : Bool),
      (loopC portItem { m := m } (normL rest) >>= fun p => endC "port" p.2 >>= fun _ =>
        (pure { data := p.1.m.data.set (S "metadata_prefix") (.list [.str (S "EDIF")]), dir := p.1.dir, width := w,
                scalarFlag := !isArr, lower := 0 } : R CPort)) =
      (loopC portItem { m := m } rest >>= fun p => endC "port" p.2 >>= fun _ =>
        (pure { data := p.1.m.data.set (S "metadata_prefix") (.list [.str (S "EDIF")]), dir := p.1.dir, width := w,
                scalarFlag := !isArr, lower := 0 } : R CPort)) :=
    fun m rest w isArr => mapRest_loopC portItem portItem_norm { m := m } rest "port"
      (fun s => (pure (⟨s.m.data.set (S "metadata_prefix") (.list [.str (S "EDIF")]), s.dir, w, !isArr, 0⟩ : CPort) : R CPort))
  rcases ys.tail with _ | ⟨x, r⟩
  · rfl
  · cases x with
    | atom a =>
      have hn := nameDef_norm Meta.new (.atom a :: r)
      simp only [normL_cons, norm_atom] at hn ⊢
      rw [hn]
      cases nameDef Meta.new (.atom a :: r) with
      | error e => rfl
      | ok v =>
        obtain ⟨m1, rest⟩ := v
        simp only [mapRest, bind, Except.bind, pure, Except.pure]
        have := hloop m1 rest 1 false
        simpa [bind, Except.bind, pure, Except.pure] using this
    | list zs =>
      simp only [normL_cons, norm_list, headIs_normC, parseRename_norm, tail_normC]
      split
      · simp only [bind, Except.bind, pure, Except.pure]
        cases parseRename Meta.new zs with
        | error e => rfl
        | ok m1 =>
          simp only
          have := hloop m1 r 1 false
          simpa [bind, Except.bind, pure, Except.pure] using this
      · split
        · rcases hz : zs.tail with _ | ⟨z, zr⟩
          · simp
          · have hn := nameDef_norm Meta.new (z :: zr)
            simp only [normL_cons] at hn ⊢
            simp only [hn, bind, Except.bind]
            cases nameDef Meta.new (z :: zr) with
            | error e => rfl
            | ok v =>
              obtain ⟨m1, r2⟩ := v
              simp only [mapRest]
              rcases r2 with _ | ⟨n, _ | ⟨n2, nr⟩⟩
              · rfl
              · simp only [normL_cons, normL_nil, intOfS_norm]
                cases intOfS n with
                | error e => rfl
                | ok k =>
                  simp only [pure, Except.pure]
                  have := hloop m1 r k.toNat true
                  simpa [bind, Except.bind, pure, Except.pure] using this
              · rfl
        · rfl

end Spydr.Edif
