/-
  Keyword case: references, instances, pin references, nets.
-/
import Spydr.Edif.Kw2
namespace Spydr.Edif

theorem parseLibraryRef_norm (sc : Scope) (m : Meta) (ys : List SExp) :
    parseLibraryRef sc m (normC ys) = parseLibraryRef sc m ys := by
  rcases ys with _ | ⟨a, _ | ⟨x, _ | ⟨c, r⟩⟩⟩
  · rfl
  · simp [parseLibraryRef]
  · have hn := nameRef_norm (m.push "libraryRef") [x]
    simp only [normL_cons, normL_nil] at hn
    simp only [parseLibraryRef, normC_cons, normL_cons, normL_nil, hn, identOfS_norm, bind, Except.bind]
    cases nameRef (m.push "libraryRef") [x] with
    | error e => rfl
    | ok v => obtain ⟨m1, rest⟩ := v; rfl
  · simp [parseLibraryRef]

theorem parseCellRef_norm (sc : Scope) (m : Meta) (ys : List SExp) :
    parseCellRef sc m (normC ys) = parseCellRef sc m ys := by
  unfold parseCellRef
  simp only [headIs_normC, tail_normC]
  split
  · rfl
  · rcases ys.tail with _ | ⟨x, _ | ⟨y, _ | ⟨z, r⟩⟩⟩
    · rfl
    · simp
    · cases y with
      | atom a => simp
      | list zs => simp [parseLibraryRef_norm]
    · simp

theorem parseViewRef_norm (sc : Scope) (m : Meta) (ys : List SExp) :
    parseViewRef sc m (normC ys) = parseViewRef sc m ys := by
  unfold parseViewRef
  simp only [tail_normC]
  rcases ys.tail with _ | ⟨v, _ | ⟨y, _ | ⟨z, r⟩⟩⟩
  · rfl
  · simp
  · cases y with
    | atom a => simp
    | list zs => simp [parseCellRef_norm]
  · simp

theorem instItem_norm (m : Meta) (ys : List SExp) : instItem m (normC ys) = instItem m ys := by
  simp [instItem, parseProperty_norm, parseComment_norm]

theorem parseInstance_norm (sc : Scope) (ys : List SExp) : parseInstance sc (normC ys) = parseInstance sc ys := by
  unfold parseInstance
  simp only [tail_normC, nameDef_norm]
  cases nameDef Meta.new ys.tail with
  | error e => rfl
  | ok v =>
    obtain ⟨m, rest⟩ := v
    simp only [mapRest, bind, Except.bind]
    have hl : ∀ (ref : Option (Nat × Nat)) (rest : List SExp),
        (loopC instItem m (normL rest) >>= fun p => endC "instance" p.2 >>= fun _ => (pure ⟨p.1.data, ref⟩ : R CInst)) =
        (loopC instItem m rest >>= fun p => endC "instance" p.2 >>= fun _ => (pure ⟨p.1.data, ref⟩ : R CInst)) :=
      fun ref rest => mapRest_loopC instItem instItem_norm m rest "instance" (fun s => (pure ⟨s.data, ref⟩ : R CInst))
    rcases rest with _ | ⟨x, r⟩
    · have := hl none []
      simpa [bind, Except.bind, pure, Except.pure] using this
    · cases x with
      | atom a =>
        have := hl none (.atom a :: r)
        simpa [bind, Except.bind, pure, Except.pure] using this
      | list zs =>
        simp only [normL_cons, norm_list, headIs_normC, parseViewRef_norm]
        by_cases hv : headIs zs "viewref" = true
        · simp only [hv, if_true, bind, Except.bind, pure, Except.pure]
          cases parseViewRef sc m zs with
          | error e => rfl
          | ok rf =>
            have := hl (some rf) r
            simpa [bind, Except.bind, pure, Except.pure] using this
        · simp only [hv, Bool.false_eq_true, if_false]
          try (first | rfl | (split <;> rfl))

theorem instanceRefOf_norm (cx : DefCtx) (ys : List SExp) : instanceRefOf cx (normC ys) = instanceRefOf cx ys := by
  rcases ys with _ | ⟨a, _ | ⟨x, _ | ⟨c, r⟩⟩⟩
  · rfl
  · simp [instanceRefOf]
  · cases x <;> simp [instanceRefOf]
  · simp [instanceRefOf]

theorem portRefTail_norm (cx : DefCtx) (cur : Option Nat) (ys : List SExp) :
    portRefTail cx cur (normC ys) = portRefTail cx cur ys := by
  unfold portRefTail
  simp only [headIs_normC, instanceRefOf_norm]
  cases ys <;> simp

theorem parseMember_norm (ys : List SExp) : parseMember (normC ys) = parseMember ys := by
  unfold parseMember
  simp only [headIs_normC, tail_normC]
  split
  · rfl
  · rcases ys.tail with _ | ⟨x, _ | ⟨n, _ | ⟨z, r⟩⟩⟩
    · rfl
    · simp
    · cases x <;> simp
    · simp

theorem parsePortRef_norm (cx : DefCtx) (ys : List SExp) : parsePortRef cx (normC ys) = parsePortRef cx ys := by
  unfold parsePortRef
  simp only [tail_normC]
  rcases ys.tail with _ | ⟨first, rest⟩
  · rfl
  · cases first with
    | atom a =>
      simp only [normL_cons, norm_atom, bind, Except.bind]
      cases identOfS (.atom a) with
      | error e => rfl
      | ok i =>
        simp only [pure, Except.pure]
        rw [loopC_normL (portRefTail cx) (portRefTail_norm cx)]
        cases loopC (portRefTail cx) none rest with
        | error e => rfl
        | ok w => obtain ⟨t, r2⟩ := w; simp [mapRest]
    | list zs =>
      simp only [normL_cons, norm_list, parseMember_norm, bind, Except.bind]
      cases parseMember zs with
      | error e => rfl
      | ok v =>
        simp only
        rw [loopC_normL (portRefTail cx) (portRefTail_norm cx)]
        cases loopC (portRefTail cx) none rest with
        | error e => rfl
        | ok w => obtain ⟨t, r2⟩ := w; simp [mapRest]

theorem joinedItem_norm (cx : DefCtx) (pins : List CPin) (ys : List SExp) :
    joinedItem cx pins (normC ys) = joinedItem cx pins ys := by
  simp [joinedItem, parsePortRef_norm]

theorem netItem_norm (m : Meta) (ys : List SExp) : netItem m (normC ys) = netItem m ys := by
  simp [netItem, parseProperty_norm, parseComment_norm]

theorem parseNet_norm (cx : DefCtx) (ys : List SExp) : parseNet cx (normC ys) = parseNet cx ys := by
  unfold parseNet
  simp only [tail_normC, nameDef_norm]
  cases nameDef Meta.new ys.tail with
  | error e => rfl
  | ok v =>
    obtain ⟨m, rest⟩ := v
    simp only [mapRest, bind, Except.bind]
    rcases rest with _ | ⟨x, r⟩
    · rfl
    · cases x with
      | atom a => rfl
      | list js =>
        simp only [normL_cons, norm_list, headIs_normC, tail_normC]
        split
        · rw [loopC_normL (joinedItem cx) (joinedItem_norm cx)]
          cases loopC (joinedItem cx) [] js.tail with
          | error e => rfl
          | ok w =>
            obtain ⟨pins, jr⟩ := w
            simp only [mapRest, endC_normL, bind, Except.bind]
            cases endC "joined" jr with
            | error e => rfl
            | ok _ =>
              simp only
              rw [loopC_normL netItem netItem_norm]
              cases loopC netItem m r with
              | error e => rfl
              | ok w2 => obtain ⟨m2, r2⟩ := w2; simp [mapRest]
        · rfl

end Spydr.Edif
