/-
  Keyword case: cells, libraries, the design construct, the file — `ofSExp (norm e) = ofSExp e`.
-/
import Spydr.Edif.Kw3
namespace Spydr.Edif

theorem ifaceItem_norm (s : CellSt × Bool) (ys : List SExp) : ifaceItem s (normC ys) = ifaceItem s ys := by
  obtain ⟨st, hd⟩ := s
  simp [ifaceItem, parsePort_norm, parseProperty_norm, parseComment_norm]

theorem contentsItem_norm (sc : Scope) (st : CellSt) (ys : List SExp) :
    contentsItem sc st (normC ys) = contentsItem sc st ys := by
  simp [contentsItem, parseInstance_norm, parseNet_norm, parseComment_norm]

theorem viewItem_norm (sc : Scope) (s : CellSt × Bool × Bool) (ys : List SExp) :
    viewItem sc s (normC ys) = viewItem sc s ys := by
  obtain ⟨st, hs, hc⟩ := s
  unfold viewItem
  simp only [headIs_normC, parseStatus_norm, parseComment_norm, parseProperty_norm, tail_normC]
  have := mapRest_loopC (contentsItem sc) (contentsItem_norm sc) st ys.tail "contents"
    (fun st' => if hasDupPin st'.cables then (throw (.assert "pin joined twice") : R (CellSt × Bool × Bool))
      else pure (st', hs, true))
  simp only [bind, Except.bind] at this ⊢
  rw [this]

theorem parseView_norm (sc : Scope) (st : CellSt) (ys : List SExp) : parseView sc st (normC ys) = parseView sc st ys := by
  unfold parseView
  simp only [tail_normC, nameDef_norm]
  cases nameDef (st.m.push "view") ys.tail with
  | error e => rfl
  | ok v =>
    obtain ⟨m, rest⟩ := v
    simp only [mapRest, bind, Except.bind]
    rcases rest with _ | ⟨x, _ | ⟨y, r⟩⟩
    · rfl
    · cases x <;> rfl
    · cases x with
      | atom a => cases y <;> rfl
      | list vt =>
        cases y with
        | atom b => simp
        | list ifc =>
          simp only [normL_cons, norm_list]
          rcases vt with _ | ⟨k, _ | ⟨t, _ | ⟨u, vr⟩⟩⟩
          · rfl
          · simp
          · simp only [normC_cons, normL_cons, normL_nil, isKw_normH, isKw_norm, headIs_normC, tail_normC]
            by_cases hk : isKw k "viewtype" = true
            · rw [normH_of_kept k "viewtype" (Or.inr rfl) hk]
              have hvt : (viewTypes.any (isKw (norm t))) = (viewTypes.any (isKw t)) := by
                congr 1; funext s; exact isKw_norm t s
              simp only [hk, Bool.not_true, Bool.false_eq_true, if_false, hvt]
              split
              · rfl
              · cases setAttr (m.push "viewType") (.str (atomText k)) with
                | error e => rfl
                | ok m2 =>
                  simp only
                  split
                  · rfl
                  · rw [loopC_normL ifaceItem ifaceItem_norm]
                    cases loopC ifaceItem ({ st with m := m2.pop }, false) ifc.tail with
                    | error e => rfl
                    | ok w =>
                      obtain ⟨⟨st1, b1⟩, ir⟩ := w
                      simp only [mapRest, endC_normL]
                      cases endC "interface" ir with
                      | error e => rfl
                      | ok _ =>
                        simp only
                        rw [loopC_normL (viewItem sc) (viewItem_norm sc)]
                        cases loopC (viewItem sc) (st1, false, false) r with
                        | error e => rfl
                        | ok w2 => obtain ⟨⟨st2, b2, b3⟩, r2⟩ := w2; simp [mapRest]
            · simp [hk]
          · simp

theorem cellItem_norm (sc : Scope) (st : CellSt) (ys : List SExp) : cellItem sc st (normC ys) = cellItem sc st ys := by
  simp [cellItem, parseStatus_norm, parseView_norm, parseProperty_norm, parseComment_norm]

theorem parseCell_norm (sc : Scope) (ys : List SExp) : parseCell sc (normC ys) = parseCell sc ys := by
  unfold parseCell
  simp only [tail_normC, nameDef_norm]
  cases nameDef Meta.new ys.tail with
  | error e => rfl
  | ok v =>
    obtain ⟨m, rest⟩ := v
    simp only [mapRest, bind, Except.bind]
    rcases rest with _ | ⟨x, r⟩
    · rfl
    · cases x with
      | atom a => rfl
      | list kt =>
        simp only [normL_cons, norm_list]
        rcases kt with _ | ⟨k, _ | ⟨t, _ | ⟨u, vr⟩⟩⟩
        · rfl
        · simp
        · simp only [normC_cons, normL_cons, normL_nil, isKw_normH, isKw_norm]
          by_cases hk : isKw k "celltype" = true
          · rw [normH_of_kept k "celltype" (Or.inl rfl) hk]
            have hvt : (["generic", "tie", "ripper"].any (isKw (norm t))) = (["generic", "tie", "ripper"].any (isKw t)) := by
              congr 1; funext s; exact isKw_norm t s
            simp only [hk, Bool.not_true, Bool.false_eq_true, if_false, hvt]
            split
            · rfl
            · cases setAttr (m.push "cellType") (.str (atomText k)) with
              | error e => rfl
              | ok m2 =>
                simp only
                rw [loopC_normL (cellItem sc) (cellItem_norm sc)]
                cases loopC (cellItem sc) { m := m2.pop } r with
                | error e => rfl
                | ok w => obtain ⟨st, r2⟩ := w; simp [mapRest]
          · simp [hk]
        · simp

theorem libItem_norm (libs : List CLib) (st : LibSt) (ys : List SExp) : libItem libs st (normC ys) = libItem libs st ys := by
  simp [libItem, parseStatus_norm, parseCell_norm, parseComment_norm]

theorem parseLibrary_norm (libs : List CLib) (ext : Bool) (ys : List SExp) :
    parseLibrary libs ext (normC ys) = parseLibrary libs ext ys := by
  unfold parseLibrary
  simp only [tail_normC, nameDef_norm]
  cases nameDef (if ext then { Meta.new with data := [(S "EDIF.external", .bool true)] } else Meta.new) ys.tail with
  | error e => rfl
  | ok v =>
    obtain ⟨m, rest⟩ := v
    simp only [mapRest, bind, Except.bind]
    rcases rest with _ | ⟨x, _ | ⟨y, r⟩⟩
    · rfl
    · cases x <;> rfl
    · cases x with
      | atom a => cases y <;> rfl
      | list lv =>
        cases y with
        | atom b => rfl
        | list tn =>
          simp only [normL_cons, norm_list, levelOf_norm]
          rcases tn with _ | ⟨tk, _ | ⟨nd, _ | ⟨u, vr⟩⟩⟩
          · rfl
          · simp
          · cases nd with
            | atom c => simp
            | list ndl =>
              simp only [normC_cons, normL_cons, normL_nil, norm_list, isKw_normH, headIs_normC, levelOf_norm]
              cases levelOf m lv "ediflevel" "edifLevel" with
              | error e => rfl
              | ok m2 =>
                simp only
                split
                · rfl
                · split
                  · rfl
                  · rw [loopC_normL (libItem libs) (libItem_norm libs)]
                    cases loopC (libItem libs) { m := m2 } r with
                    | error e => rfl
                    | ok w => obtain ⟨st, r2⟩ := w; simp [mapRest]
          · cases nd <;> simp

set_option hygiene false in
macro "crcases" : tactic =>
  `(tactic| (
        rcases cr with _ | ⟨c1, _ | ⟨c2, _ | ⟨c3, _ | ⟨c4, cr'⟩⟩⟩⟩
        · rfl
        · cases c1 <;> rfl
        · cases c1 <;> cases c2 <;> rfl
        · cases c1 with
          | list l1 => rfl
          | atom a1 =>
            cases c2 with
            | list l2 => rfl
            | atom cid =>
              cases c3 with
              | atom a3 => rfl
              | list l3 =>
                rcases l3 with _ | ⟨d1, _ | ⟨d2, _ | ⟨d3, dr⟩⟩⟩
                · rfl
                · cases d1 <;> rfl
                · cases d1 with
                  | list e1 => cases d2 <;> rfl
                  | atom b1 =>
                    cases d2 with
                    | list e2 => rfl
                    | atom lid => rfl
                · cases d1 <;> cases d2 <;> rfl
        · cases c1 <;> cases c2 <;> cases c3 <;> first | rfl | simp))

set_option hygiene false in
theorem parseDesign_norm (libs : List CLib) (ys : List SExp) : parseDesign libs (normC ys) = parseDesign libs ys := by
  unfold parseDesign
  simp only [tail_normC]
  rcases ys.tail with _ | ⟨nm, _ | ⟨y, r⟩⟩
  · rfl
  · rfl
  · cases y with
    | atom a => rfl
    | list cr =>
      cases nm with
      | atom a =>
        simp only [normL_cons, norm_atom, norm_list, bind, Except.bind]
        cases identOfS (.atom a) with
        | error e => rfl
        | ok ident =>
          simp only
          cases setAttr (Meta.new.push "identifier") (.str ident) with
          | error e => rfl
          | ok m =>
            simp only [pure, Except.pure]
            crcases
      | list zs =>
        simp only [normL_cons, norm_list, parseRename_norm, bind, Except.bind]
        cases parseRename Meta.new zs with
        | error e => rfl
        | ok m =>
          simp only
          crcases

theorem bodyItem_norm (st : BodySt) (ys : List SExp) : bodyItem st (normC ys) = bodyItem st ys := by
  simp [bodyItem, parseStatus_norm, parseLibrary_norm, parseDesign_norm, parseComment_norm]

/-- **the reader does not see the letter case of construct keywords** -/
theorem ofSExp_norm (e : SExp) : ofSExp (norm e) = ofSExp e := by
  cases e with
  | atom a => rfl
  | list ys =>
    simp only [norm_list]
    unfold ofSExp
    simp only [headIs_normC, tail_normC, nameDef_norm]
    split
    · rfl
    · cases nameDef Meta.new ys.tail with
      | error e => rfl
      | ok v =>
        obtain ⟨m, rest⟩ := v
        simp only [mapRest, bind, Except.bind]
        rcases rest with _ | ⟨x, _ | ⟨y, _ | ⟨z, r⟩⟩⟩
        · rfl
        · cases x <;> rfl
        · cases x <;> cases y <;> rfl
        · cases x with
          | atom a => cases y <;> cases z <;> rfl
          | list ver =>
            cases y with
            | atom b => cases z <;> rfl
            | list lvl =>
              cases z with
              | atom c => rfl
              | list km =>
                simp only [normL_cons, norm_list, headIs_normC, tail_normC, intsOf_norm, levelOf_norm]
                split
                · rfl
                · cases intsOf ver.tail with
                  | error e => rfl
                  | ok vs =>
                    simp only
                    split
                    · rfl
                    · cases setAttr (m.push "edifVersion") (.list (vs.map .int)) with
                      | error e => rfl
                      | ok m2 =>
                        simp only
                        cases levelOf m2.pop lvl "ediflevel" "edifLevel" with
                        | error e => rfl
                        | ok m3 =>
                          simp only
                          rcases km with _ | ⟨kk, _ | ⟨kl, _ | ⟨k3, kr⟩⟩⟩
                          · rfl
                          · cases kk <;> rfl
                          · cases kl with
                            | atom a => cases kk <;> rfl
                            | list kll =>
                              simp only [normC_cons, normL_cons, normL_nil, norm_list, isKw_normH, levelOf_norm]
                              split
                              · rfl
                              · cases levelOf (m3.push "keywordMap") kll "keywordlevel" "keywordLevel" with
                                | error e => rfl
                                | ok m4 =>
                                  simp only
                                  rw [loopC_normL bodyItem bodyItem_norm]
                                  cases loopC bodyItem { m := m4.pop } r with
                                  | error e => rfl
                                  | ok w => obtain ⟨st, r2⟩ := w; simp [mapRest]
                          · cases kl <;> cases kk <;> rfl

/-- two s-expressions that differ only in the letter case of construct keywords are read alike -/
theorem ofSExp_of_norm_eq (e e' : SExp) (h : norm e' = norm e) : ofSExp e' = ofSExp e := by
  rw [← ofSExp_norm e', h, ofSExp_norm]

end Spydr.Edif
