/-
  Re-spelling the keywords of an s-expression: any re-spelling that keeps the letters (up to case)
  is invisible to the reader.
-/
import Spydr.Edif.Kw4
namespace Spydr.Edif

mutual
/-- apply `f` to the keyword (head atom) of every construct -/
def recase (f : Str → Str) : SExp → SExp
  | .atom a => .atom a
  | .list xs => .list (recaseC f xs)
def recaseC (f : Str → Str) : List SExp → List SExp
  | [] => []
  | .atom a :: r => .atom (f a) :: recaseL f r
  | .list ys :: r => .list (recaseC f ys) :: recaseL f r
def recaseL (f : Str → Str) : List SExp → List SExp
  | [] => []
  | x :: r => recase f x :: recaseL f r
end

theorem keepCase_congr (a b : Str) (h : lower a = lower b) : keepCase a = keepCase b := by
  simp [keepCase, h]

/-- a re-spelling that only changes letter case, and leaves `cellType` / `viewType` as they are -/
structure CaseOnly (f : Str → Str) : Prop where
  lower : ∀ a, lower (f a) = lower a
  kept : ∀ a, keepCase a = true → f a = a

theorem normHead_recase (f : Str → Str) (hf : CaseOnly f) (a : Str) : normHead (f a) = normHead a := by
  unfold normHead
  rw [keepCase_congr (f a) a (hf.lower a)]
  by_cases hk : keepCase a = true
  · simp [hk, hf.kept a hk]
  · simp [hk, hf.lower a]

mutual
theorem norm_recase (f : Str → Str) (hf : CaseOnly f) (e : SExp) : norm (recase f e) = norm e := by
  cases e with
  | atom a => simp [recase]
  | list xs => simp [recase, normC_recaseC f hf xs]
theorem normC_recaseC (f : Str → Str) (hf : CaseOnly f) (xs : List SExp) : normC (recaseC f xs) = normC xs := by
  cases xs with
  | nil => simp [recaseC]
  | cons x r =>
    cases x with
    | atom a =>
      have h2 := normL_recaseL f hf r
      simp [recaseC, normH_atom, normHead_recase f hf a, h2]
    | list ys =>
      have h1 := normC_recaseC f hf ys
      have h2 := normL_recaseL f hf r
      simp [recaseC, normH_list, h1, h2]
theorem normL_recaseL (f : Str → Str) (hf : CaseOnly f) (xs : List SExp) : normL (recaseL f xs) = normL xs := by
  cases xs with
  | nil => simp [recaseL]
  | cons x r =>
    have h1 := norm_recase f hf x
    have h2 := normL_recaseL f hf r
    simp [recaseL, h1, h2]
end

/-- **any case-only re-spelling of the keywords is read alike** -/
theorem ofSExp_recase (f : Str → Str) (hf : CaseOnly f) (e : SExp) : ofSExp (recase f e) = ofSExp e :=
  ofSExp_of_norm_eq e (recase f e) (norm_recase f hf e)

/-! ### a concrete re-spelling: upper case -/

theorem toUpper_toLower (c : Char) : c.toUpper.toLower = c.toLower := by
  by_cases h : c.val ≥ 'a'.val ∧ c.val ≤ 'z'.val
  · -- a lower-case letter: toUpper subtracts 32, toLower adds it back
    have hu : c.toUpper.val = c.val + ('A'.val - 'a'.val) := by
      unfold Char.toUpper; rw [dif_pos h]
    have h1 := h.1; have h2 := h.2
    simp only [ge_iff_le, UInt32.le_iff_toNat_le] at h1 h2
    have e1 : 'a'.val.toNat = 97 := by decide
    have e2 : 'z'.val.toNat = 122 := by decide
    rw [e1] at h1; rw [e2] at h2
    have hun : c.toUpper.val.toNat = c.val.toNat - 32 := by
      rw [hu, UInt32.toNat_add]
      have e3 : ('A'.val - 'a'.val).toNat = 4294967264 := by decide
      rw [e3]; omega
    have hup : c.toUpper.val ≥ 'A'.val ∧ c.toUpper.val ≤ 'Z'.val := by
      simp only [ge_iff_le, UInt32.le_iff_toNat_le, hun]
      have e4 : 'A'.val.toNat = 65 := by decide
      have e5 : 'Z'.val.toNat = 90 := by decide
      rw [e4, e5]; omega
    have hnotup : ¬ (c.val ≥ 'A'.val ∧ c.val ≤ 'Z'.val) := by
      intro hh
      have := hh.2
      simp only [UInt32.le_iff_toNat_le] at this
      have e5 : 'Z'.val.toNat = 90 := by decide
      rw [e5] at this; omega
    rw [toLower_of_not_upper c hnotup]
    apply Char.ext
    rw [toLower_val_of_upper _ hup]
    apply UInt32.toNat_inj.mp
    rw [UInt32.toNat_add, hun]
    have e3 : ('a'.val - 'A'.val).toNat = 32 := by decide
    rw [e3]
    have := c.val.toNat_lt
    omega
  · have : c.toUpper = c := by unfold Char.toUpper; rw [dif_neg h]
    rw [this]

def upperKw (a : Str) : Str := if keepCase a then a else a.map Char.toUpper

theorem caseOnly_upperKw : CaseOnly upperKw := by
  refine ⟨?_, ?_⟩
  · intro a
    unfold upperKw
    split
    · rfl
    · unfold Spydr.Edif.lower
      rw [List.map_map]
      apply List.map_congr_left
      intro c _
      exact toUpper_toLower c
  · intro a h
    simp [upperKw, h]

end Spydr.Edif
