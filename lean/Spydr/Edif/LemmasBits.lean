/-
  multibit_merge: folding bit nets into one cable, in any order, with any bits missing.
-/
import Spydr.Edif.ModelRead
namespace Spydr.Edif

variable {P : Type}

/-- the (lower index, wires) part of a cable; `mergeInto` only touches these -/
structure Bus (P : Type) where
  lo : Nat
  ws : List (List P)

/-- pins at absolute bit index j -/
def Bus.bit (c : Bus P) (j : Nat) : List P :=
  if j < c.lo then [] else c.ws.getD (j - c.lo) []

/-- the three branches of multibit_add_cable on (lower, wires) -/
def mergeBus (c : Bus P) (i : Nat) (ps : List P) : Bus P :=
  if i ≥ c.lo then
    if i < c.lo + c.ws.length then
      ⟨c.lo, c.ws.set (i - c.lo) (c.ws.getD (i - c.lo) [] ++ ps)⟩
    else
      ⟨c.lo, c.ws ++ List.replicate (i - c.lo - c.ws.length) [] ++ [ps]⟩
  else
    ⟨i, [ps] ++ List.replicate (c.lo - i - 1) [] ++ c.ws⟩

/-- `mergeInto` of the model is `mergeBus` on the cable's (lower, wires) -/
theorem mergeInto_eq (ex : CCable) (i : Nat) (ps : List CPin) :
    (mergeInto ex i ps).lower = (mergeBus ⟨ex.lower, ex.wires⟩ i ps).lo ∧
    (mergeInto ex i ps).wires = (mergeBus ⟨ex.lower, ex.wires⟩ i ps).ws ∧
    (mergeInto ex i ps).data = ex.data ∧ (mergeInto ex i ps).scalarFlag = ex.scalarFlag := by
  unfold mergeInto mergeBus
  by_cases h1 : i ≥ ex.lower
  · by_cases h2 : i < ex.lower + ex.wires.length <;> simp [h1, h2]
  · simp [h1]

theorem mergeBus_bit (c : Bus P) (i : Nat) (ps : List P) (hi : i ≠ c.lo) (hne : c.ws ≠ []) (j : Nat) :
    (mergeBus c i ps).bit j = (if j = i then c.bit j ++ ps else c.bit j) ∧
    (mergeBus c i ps).lo = min c.lo i ∧ (mergeBus c i ps).ws ≠ [] ∧
    (mergeBus c i ps).lo + (mergeBus c i ps).ws.length = max (c.lo + c.ws.length) (i + 1) := by
  have hlen : 0 < c.ws.length := List.length_pos_iff.mpr hne
  simp only [mergeBus]
  by_cases h1 : i ≥ c.lo
  · simp only [h1, if_true]
    by_cases h2 : i < c.lo + c.ws.length
    · simp only [h2, if_true]
      refine ⟨?_, ?_, ?_, ?_⟩
      · simp only [Bus.bit]
        by_cases hj : j < c.lo
        · have : j ≠ i := by omega
          simp [hj, this]
        · simp only [hj, if_false]
          by_cases hji : j = i
          · subst hji
            simp only [if_true, List.getD, List.getElem?_set]
            have : j - c.lo < c.ws.length := by omega
            simp [this]
          · simp only [hji, if_false, List.getD, List.getElem?_set]
            have : i - c.lo ≠ j - c.lo := by omega
            simp [this]
      · first | omega | (simp; omega)
      · simpa using hne
      · first | omega | (simp; omega)
    · simp only [h2, if_false]
      refine ⟨?_, ?_, ?_, ?_⟩
      · simp only [Bus.bit]
        by_cases hj : j < c.lo
        · have : j ≠ i := by omega
          simp [hj, this]
        · simp only [hj, if_false]
          by_cases hji : j = i
          · subst hji
            have hl : (c.ws ++ List.replicate (j - c.lo - c.ws.length) ([] : List P)).length = j - c.lo := by simp; omega
            have h0 : c.ws.getD (j - c.lo) [] = [] := by
              simp only [List.getD]; rw [List.getElem?_eq_none (by omega)]; rfl
            simp only [if_true, h0, List.nil_append]
            simp only [List.getD]
            rw [List.getElem?_append_right (by rw [hl]; exact Nat.le_refl _)]
            simp [hl]
          · simp only [hji, if_false, List.getD]
            by_cases hin : j - c.lo < c.ws.length
            · rw [List.append_assoc, List.getElem?_append_left hin]
            · rw [List.getElem?_eq_none (l := c.ws) (by omega)]
              by_cases hj2 : j - c.lo < c.ws.length + (i - c.lo - c.ws.length)
              · rw [List.getElem?_append_left (by simp; omega), List.getElem?_append_right (by omega)]
                simp only [List.getElem?_replicate]; split <;> rfl
              · rw [List.getElem?_eq_none (by simp; omega)]
      · first | omega | (simp; omega)
      · simp
      · first | omega | (simp; omega)
  · simp only [h1, if_false]
    have hlt : i < c.lo := by omega
    refine ⟨?_, ?_, ?_, ?_⟩
    · simp only [Bus.bit]
      by_cases hji : j = i
      · subst hji
        simp [hlt]
      · simp only [hji, if_false]
        by_cases hj : j < i
        · have : j < c.lo := by omega
          simp [hj, this]
        · simp only [hj, if_false]
          by_cases hj2 : j < c.lo
          · simp only [hj2, if_true, List.getD]
            have : j - i - 1 < c.lo - i - 1 := by omega
            rw [List.append_assoc, List.getElem?_append_right (by simp; omega)]
            simp only [List.length_singleton]
            rw [List.getElem?_append_left (by simp; omega)]
            simp only [List.getElem?_replicate]; split <;> rfl
          · simp only [hj2, if_false, List.getD]
            rw [List.getElem?_append_right (by simp; omega)]
            congr 2
            simp; omega
    · first | omega | (simp; omega)
    · simp
    · first | omega | (simp; omega)

/-! ### the fold -/

/-- one arriving bit net: the first one creates the cable (`lower_index := index`), later ones merge -/
def stepBit (c : Option (Bus P)) (b : Nat × List P) : Option (Bus P) :=
  match c with
  | none => some ⟨b.1, [b.2]⟩
  | some c => some (mergeBus c b.1 b.2)

def foldBits (bits : List (Nat × List P)) : Option (Bus P) := bits.foldl stepBit none

/-- what the text says about bit k: the pins of the bit net with that index, nothing if there is none -/
def pinsAt (bits : List (Nat × List P)) (k : Nat) : List P :=
  match bits.find? (fun b => b.1 == k) with
  | some b => b.2
  | none => []

def minIdx : List (Nat × List P) → Nat
  | [] => 0
  | [b] => b.1
  | b :: r => min b.1 (minIdx r)

def maxIdx : List (Nat × List P) → Nat
  | [] => 0
  | b :: r => max b.1 (maxIdx r)

/-- invariant of the fold: after the bits `done`, the bus holds at every index exactly what `done`
    says, starts at the least index seen, ends at the greatest -/
structure BusInv (done : List (Nat × List P)) (c : Bus P) : Prop where
  ne : c.ws ≠ []
  bit : ∀ k, c.bit k = pinsAt done k
  lo_mem : c.lo ∈ done.map (·.1)
  lo_le : ∀ i ∈ done.map (·.1), c.lo ≤ i
  hi_mem : ∃ i ∈ done.map (·.1), c.lo + c.ws.length = i + 1
  hi_ge : ∀ i ∈ done.map (·.1), i + 1 ≤ c.lo + c.ws.length

theorem pinsAt_append_single (done : List (Nat × List P)) (b : Nat × List P)
    (hnew : b.1 ∉ done.map (·.1)) (k : Nat) :
    pinsAt (done ++ [b]) k = if k = b.1 then pinsAt done k ++ b.2 else pinsAt done k := by
  unfold pinsAt
  rw [List.find?_append]
  by_cases hk : k = b.1
  · subst hk
    have hnone : done.find? (fun x => x.1 == b.1) = none := by
      rw [List.find?_eq_none]
      intro x hx hxe
      simp only [beq_iff_eq] at hxe
      exact hnew (by simpa using ⟨x.2, by rw [← hxe]; exact hx⟩)
    simp [hnone]
  · simp only [hk, if_false]
    cases hf : done.find? (fun x => x.1 == k) with
    | some x => simp
    | none =>
      have : (b.1 == k) = false := by simp; omega
      simp [this]

theorem stepBit_inv (done : List (Nat × List P)) (c : Bus P) (b : Nat × List P)
    (h : BusInv done c) (hnew : b.1 ∉ done.map (·.1)) :
    BusInv (done ++ [b]) (mergeBus c b.1 b.2) := by
  have hne_lo : b.1 ≠ c.lo := fun e => hnew (e ▸ h.lo_mem)
  have hm := fun j => mergeBus_bit c b.1 b.2 hne_lo h.ne j
  obtain ⟨_, hlo, hws, hhi⟩ := hm 0
  refine ⟨hws, ?_, ?_, ?_, ?_, ?_⟩
  · intro k
    rw [(hm k).1, pinsAt_append_single done b hnew k, h.bit k]
  · rw [hlo]
    simp only [List.map_append, List.map_cons, List.map_nil, List.mem_append, List.mem_singleton]
    by_cases hc : c.lo ≤ b.1
    · left; rw [Nat.min_eq_left hc]; exact h.lo_mem
    · right; rw [Nat.min_eq_right (by omega)]
  · intro i hi
    rw [hlo]
    simp only [List.map_append, List.map_cons, List.map_nil, List.mem_append, List.mem_singleton] at hi
    rcases hi with hi | hi
    · have := h.lo_le i hi; omega
    · omega
  · rw [hhi]
    obtain ⟨i, hi, he⟩ := h.hi_mem
    by_cases hc : b.1 + 1 ≤ c.lo + c.ws.length
    · exact ⟨i, by simp [hi], by omega⟩
    · exact ⟨b.1, by simp, by omega⟩
  · intro i hi
    rw [hhi]
    simp only [List.map_append, List.map_cons, List.map_nil, List.mem_append, List.mem_singleton] at hi
    rcases hi with hi | hi
    · have := h.hi_ge i hi; omega
    · omega

theorem first_inv (b : Nat × List P) : BusInv [b] (⟨b.1, [b.2]⟩ : Bus P) := by
  refine ⟨by simp, ?_, by simp, by simp, ⟨b.1, by simp, by simp⟩, by simp⟩
  intro k
  simp only [Bus.bit, pinsAt, List.find?_cons, List.find?_nil]
  by_cases hk : k = b.1
  · subst hk; simp
  · have h1 : (b.1 == k) = false := by simp; omega
    simp only [h1]
    by_cases hlt : k < b.1
    · simp [hlt]
    · simp only [hlt, if_false, List.getD]
      have : k - b.1 ≠ 0 := by omega
      cases hh : k - b.1 with
      | zero => exact absurd hh this
      | succ n => simp

theorem foldl_stepBit_inv (done rest : List (Nat × List P)) (c : Bus P) (h : BusInv done c)
    (hnd : ((done ++ rest).map (·.1)).Nodup) :
    ∃ c', rest.foldl stepBit (some c) = some c' ∧ BusInv (done ++ rest) c' := by
  induction rest generalizing done c with
  | nil => exact ⟨c, rfl, by simpa using h⟩
  | cons b r ih =>
    have hnew : b.1 ∉ done.map (·.1) := by
      simp only [List.map_append, List.map_cons] at hnd
      have := (List.nodup_append.mp hnd).2.2
      intro hm
      exact this _ hm b.1 (by simp) rfl
    have h' := stepBit_inv done c b h hnew
    have hnd' : (((done ++ [b]) ++ r).map (·.1)).Nodup := by simpa using hnd
    obtain ⟨c', hf, hinv⟩ := ih (done ++ [b]) (mergeBus c b.1 b.2) h' hnd'
    exact ⟨c', by simpa [List.foldl_cons, stepBit] using hf, by simpa using hinv⟩

/-- **multibit_merge** (general form).  For ANY non-empty list of bit nets with pairwise distinct
    indices — any order, any gaps, any base — folding `multibit_add_cable`'s merge step yields ONE
    bus whose bit `k` holds exactly the pins the text gives for index `k` (nothing for a missing
    bit), whose lower index is the least index present and whose last wire is the greatest. -/
theorem multibit_merge (bits : List (Nat × List P)) (hne : bits ≠ [])
    (hnd : (bits.map (·.1)).Nodup) :
    ∃ c, foldBits bits = some c ∧ c.ws ≠ [] ∧
      (∀ k, c.bit k = pinsAt bits k) ∧
      (∀ j, j < c.ws.length → c.ws.getD j [] = pinsAt bits (c.lo + j)) ∧
      c.lo ∈ bits.map (·.1) ∧ (∀ i ∈ bits.map (·.1), c.lo ≤ i ∧ i < c.lo + c.ws.length) ∧
      (∃ i ∈ bits.map (·.1), c.lo + c.ws.length = i + 1) := by
  cases bits with
  | nil => exact absurd rfl hne
  | cons b r =>
    obtain ⟨c, hf, hinv⟩ := foldl_stepBit_inv [b] r ⟨b.1, [b.2]⟩ (first_inv b) (by simpa using hnd)
    refine ⟨c, by simpa [foldBits, List.foldl_cons, stepBit] using hf, hinv.ne, ?_, ?_, ?_, ?_, ?_⟩
    · simpa using hinv.bit
    · intro j _
      have := hinv.bit (c.lo + j)
      simp only [Bus.bit, Nat.add_sub_cancel_left] at this
      have hlt : ¬ (c.lo + j < c.lo) := by omega
      simpa [hlt] using this
    · simpa using hinv.lo_mem
    · intro i hi
      have h1 := hinv.lo_le i (by simpa using hi)
      have h2 := hinv.hi_ge i (by simpa using hi)
      omega
    · obtain ⟨i, hi, he⟩ := hinv.hi_mem
      exact ⟨i, by simpa using hi, he⟩

/-! ### the form of the property: permutations of sub-lists of a cable's bit nets -/

/-- the bit nets of a cable with base index `base` and wires `ws`: bit `base + j` carries `ws[j]` -/
def bitNetsOf (base : Nat) (ws : List (List P)) : List (Nat × List P) :=
  ws.zipIdx.map (fun (w, j) => (base + j, w))

theorem bitNetsOf_idx (base : Nat) (ws : List (List P)) :
    (bitNetsOf base ws).map (·.1) = (List.range ws.length).map (base + ·) := by
  unfold bitNetsOf
  apply List.ext_getElem
  · simp
  · intro n h1 h2
    simp

theorem bitNetsOf_nodup (base : Nat) (ws : List (List P)) : ((bitNetsOf base ws).map (·.1)).Nodup := by
  rw [bitNetsOf_idx]
  exact List.Pairwise.map _ (fun a b h => by omega) (List.nodup_range (n := ws.length))

theorem pinsAt_of_mem (bits : List (Nat × List P)) (hnd : (bits.map (·.1)).Nodup)
    (b : Nat × List P) (hb : b ∈ bits) : pinsAt bits b.1 = b.2 := by
  induction bits with
  | nil => cases hb
  | cons a r ih =>
    simp only [List.map_cons, List.nodup_cons] at hnd
    simp only [pinsAt, List.find?_cons]
    rcases List.mem_cons.mp hb with rfl | hr
    · simp
    · have hne : (a.1 == b.1) = false := by
        simp only [beq_eq_false_iff_ne]
        intro he
        exact hnd.1 (by rw [he]; exact List.mem_map_of_mem hr)
      simp only [hne]
      exact ih hnd.2 hr

/-- **multibit_merge** in the words of C05: take any cable (base index `base`, wires `ws`), any
    sub-list of its bit nets, in any order (`bits` is a permutation of that sub-list).  Folding
    `multibit_add_cable` over `bits` yields one bus in which, for every original wire `j`:
    if bit `base + j` was among the nets it sits at position `(base + j) - lower` with exactly the
    pins `ws[j]`; every other position inside the bus (a gap) is empty. -/
theorem multibit_merge_perm (base : Nat) (ws : List (List P)) (sub bits : List (Nat × List P))
    (hsub : sub.Sublist (bitNetsOf base ws)) (hperm : bits.Perm sub) (hne : bits ≠ []) :
    ∃ c, foldBits bits = some c ∧
      (∀ b ∈ sub, c.lo ≤ b.1 ∧ b.1 < c.lo + c.ws.length ∧ c.ws.getD (b.1 - c.lo) [] = b.2) ∧
      (∀ j, j < c.ws.length → (∀ b ∈ sub, b.1 ≠ c.lo + j) → c.ws.getD j [] = []) ∧
      (∃ b ∈ sub, b.1 = c.lo) ∧ (∃ b ∈ sub, b.1 + 1 = c.lo + c.ws.length) := by
  have hnd_sub : (sub.map (·.1)).Nodup := (bitNetsOf_nodup base ws).sublist (hsub.map _)
  have hnd : (bits.map (·.1)).Nodup := (hperm.map _).nodup_iff.mpr hnd_sub
  obtain ⟨c, hf, _, hbit, hpos, hlo, hrange, hhi⟩ := multibit_merge bits hne hnd
  refine ⟨c, hf, ?_, ?_, ?_, ?_⟩
  · intro b hb
    have hb' : b ∈ bits := hperm.mem_iff.mpr hb
    have hr := hrange b.1 (List.mem_map_of_mem hb')
    refine ⟨hr.1, hr.2, ?_⟩
    have := hpos (b.1 - c.lo) (by omega)
    rw [this, show c.lo + (b.1 - c.lo) = b.1 by omega]
    exact pinsAt_of_mem bits hnd b hb'
  · intro j hj hgap
    rw [hpos j hj]
    unfold pinsAt
    have : bits.find? (fun b => b.1 == c.lo + j) = none := by
      rw [List.find?_eq_none]
      intro x hx hxe
      simp only [beq_iff_eq] at hxe
      exact hgap x (hperm.mem_iff.mp hx) hxe
    simp [this]
  · obtain ⟨b, hb, he⟩ := List.mem_map.mp hlo
    exact ⟨b, hperm.mem_iff.mp hb, he⟩
  · obtain ⟨i, hi, he⟩ := hhi
    obtain ⟨b, hb, hbe⟩ := List.mem_map.mp hi
    exact ⟨b, hperm.mem_iff.mp hb, by omega⟩

end Spydr.Edif
