/-
  multibit_add_cable on a cell's cable list: the three situations (scalar net, first bit of a bus,
  further bit of a bus) and the fold over the bit nets the writer emits for one cable.
-/
import Spydr.Edif.LemmasRound
namespace Spydr.Edif

theorem findIdent_lt (sibs : List Data) (x : Str) (k : Nat) (h : findIdent sibs x = some k) : k < sibs.length := by
  unfold findIdent at h
  rw [List.findIdx?_eq_some_iff_getElem] at h
  exact h.1

theorem findName_lt (sibs : List Data) (x : Str) (k : Nat) (h : findName sibs x = some k) : k < sibs.length := by
  unfold findName at h
  rw [List.findIdx?_eq_some_iff_getElem] at h
  exact h.1

theorem sepName_snd_of_none (name : Str) (h : (sepName name).1 = none) : sepName name = (none, name) := by
  unfold sepName at *
  by_cases hb : bracketAllowed name = true
  · simp only [hb, if_true] at h ⊢
    cases hs : splitIdx '[' ']' name with
    | none => rfl
    | some x => obtain ⟨i, short⟩ := x; simp [hs] at h
  · simp [hb]

/-- the scalar cable the reader makes of a scalar net -/
def scalarCable (d : Data) (pins : List CPin) : CCable := { data := d, scalarFlag := true, lower := 0, wires := [pins] }

/-- **scalar net**: a net whose name the reader does not take for a bus bit, with a fresh name and
    identifier, becomes one more scalar cable -/
theorem multibitAdd_scalar (cs : List CCable) (d : Data) (ident name : Str) (pins : List CPin)
    (hi : identOf d = some ident) (hn : nameOf d = some name) (hne : name ≠ [])
    (hplain : (sepName name).1 = none)
    (hfresh : findName (cs.map (·.data)) name = none)
    (hconf : conflicts (cs.map (·.data)) d = false) :
    multibitAdd cs d pins = .ok (cs ++ [scalarCable d pins]) := by
  have hsn := sepName_snd_of_none name hplain
  unfold multibitAdd
  simp only [hi, hn, hne, if_false, hsn, hfresh, hconf, Bool.false_eq_true]
  have hidx : (if (sepIdent ident).fst.isNone = true then (none : Option Nat) else none) = none := by split <;> rfl
  simp only [hidx]
  cases hf : findIdent (cs.map (·.data)) (sepIdent ident).2 with
  | none => simp [scalarCable, pure, Except.pure]
  | some k =>
    have hk := findIdent_lt _ _ _ hf
    simp only [List.length_map] at hk
    have : cs[k]? = some cs[k] := List.getElem?_eq_getElem hk
    simp [this, scalarCable, pure, Except.pure]

/-- the array cable the reader creates for the first bit net of a bus -/
def busCable (ident name : Str) (lower : Nat) (wires : List (List CPin)) : CCable :=
  { data := ((withName [] (bitIdent ident lower) (bitName name lower)).set kIDENT (.str ident)).set kNAME (.str name),
    scalarFlag := false, lower := lower, wires := wires }

theorem identOf_bitData (ident name : Str) (i : Nat) :
    identOf (withName [] (bitIdent ident i) (bitName name i)) = some (bitIdent ident i) := identOf_withName _ _ _

theorem nameOf_bitData (ident name : Str) (i : Nat) :
    nameOf (withName [] (bitIdent ident i) (bitName name i)) = some (bitName name i) := nameOf_withName _ _ _

theorem bitName_ne_nil (name : Str) (i : Nat) : bitName name i ≠ [] := by
  unfold bitName; simp



/-- **first bit of a bus**: no cable of that name / identifier yet → a new array cable whose lower
    index is the bit's index -/
theorem multibitAdd_newBus (cs : List CCable) (ident name : Str) (i : Nat) (pins : List CPin)
    (hba : bracketAllowed (bitName name i) = true)
    (hc : checkEdifIdentifier ident = true)
    (hfn : findName (cs.map (·.data)) name = none)
    (hfi : findIdent (cs.map (·.data)) ident = none)
    (hconf : conflicts (cs.map (·.data)) (busCable ident name i [pins]).data = false) :
    multibitAdd cs (withName [] (bitIdent ident i) (bitName name i)) pins =
      .ok (cs ++ [busCable ident name i [pins]]) := by
  unfold multibitAdd
  simp only [identOf_bitData, nameOf_bitData, bitName_ne_nil, if_false, sepIdent_bitIdent,
    sepName_bitName name i hba, Option.isNone_some, Bool.false_eq_true, hfn, hfi, hc, Bool.not_true]
  simp only [busCable] at hconf
  simp [hconf, busCable, pure, Except.pure]

/-- **further bit of a bus**: the cable of that name exists and is an array → merged into it -/
theorem multibitAdd_merge (cs : List CCable) (ident name : Str) (i k : Nat) (ex : CCable) (pins : List CPin)
    (hba : bracketAllowed (bitName name i) = true)
    (hfn : findName (cs.map (·.data)) name = some k) (hk : cs[k]? = some ex) (harr : ex.isArray = true) :
    multibitAdd cs (withName [] (bitIdent ident i) (bitName name i)) pins = .ok (cs.set k (mergeInto ex i pins)) := by
  unfold multibitAdd
  simp only [identOf_bitData, nameOf_bitData, bitName_ne_nil, if_false, sepIdent_bitIdent,
    sepName_bitName name i hba, Option.isNone_some, Bool.false_eq_true, hfn, hk, harr, Bool.not_true,
    pure, Except.pure]


theorem loopC_lists {σ : Type} (h : σ → List SExp → R σ) (s : σ) (yss : List (List SExp)) (rest : List SExp) :
    loopC h s (yss.map SExp.list ++ rest) = (yss.foldlM h s) >>= fun s' => loopC h s' rest := by
  induction yss generalizing s with
  | nil => simp [pure, Except.pure, bind, Except.bind]
  | cons ys r ih =>
    simp only [List.map_cons, List.cons_append, loopC, List.foldlM_cons, bind, Except.bind]
    cases h s ys with
    | error e => rfl
    | ok s' => simpa [bind, Except.bind] using ih s'

theorem contentsItem_net (sc : Scope) (st : CellSt) (nm : SExp) (D : Data) (es : List SExp) (pins : List CPin)
    (hnm : ∀ rest, nameDef Meta.new (nm :: rest) = .ok ({ data := D, pfx := [S "EDIF"] }, rest))
    (hpins : loopC (joinedItem { sc := sc, ports := st.ports, insts := st.insts }) [] es = .ok (pins, [])) :
    contentsItem sc st [A "net", nm, .list (A "joined" :: es)] =
      (multibitAdd st.cables D pins) >>= fun cs => pure { st with cables := cs } := by
  have h1 : headIs [A "net", nm, SExp.list (A "joined" :: es)] "instance" = false := by rw [headIs_cons]; decide
  have h2 : headIs [A "net", nm, SExp.list (A "joined" :: es)] "net" = true := by rw [headIs_cons]; decide
  have h3 : headIs (A "joined" :: es) "joined" = true := by rw [headIs_cons]; decide
  simp only [contentsItem, h1, h2, Bool.false_eq_true, if_false, if_true, parseNet, List.tail_cons, hnm, h3, hpins,
    loopC, endC, bind, Except.bind, pure, Except.pure]

theorem conflicts_false_of_fresh (sibs : List Data) (d : Data) (ident name : Str)
    (hi : identOf d = some ident) (hn : nameOf d = some name)
    (hfn : findName sibs name = none) (hfi : findIdent sibs ident = none) : conflicts sibs d = false := by
  unfold findName at hfn
  unfold findIdent at hfi
  rw [List.findIdx?_eq_none_iff] at hfn hfi
  unfold conflicts
  rw [List.any_eq_false]
  intro s hs
  have h1 := hfn s hs
  have h2 := hfi s hs
  simp only [hi, hn]
  cases hsi : identOf s <;> cases hsn : nameOf s <;> simp_all

def bitNameSExp (ident name : Str) (idx : Nat) : SExp :=
  .list [A "rename", .atom (bitIdent ident idx), qtok (bitName name idx)]

theorem nameDef_bit (ident name : Str) (idx : Nat)
    (hc : checkEdifIdentifier (bitIdent ident idx) = true) (hs : (bitName name idx).all isStringChar = true) :
    ∀ rest, nameDef Meta.new (bitNameSExp ident name idx :: rest) =
      .ok ({ data := withName [] (bitIdent ident idx) (bitName name idx), pfx := [S "EDIF"] }, rest) := by
  intro rest
  have := parseRename_ok [] (bitIdent ident idx) (bitName name idx) hc hs rfl
  simp only [nameDef, bitNameSExp, Meta.new, this, bind, Except.bind, pure, Except.pure]

theorem nameOf_busCable (ident name : Str) (lo : Nat) (ws : List (List CPin)) :
    nameOf (busCable ident name lo ws).data = some name := by
  simp [busCable, nameOf, Data.getStr?, Data.get?_set_self]

theorem identOf_busCable (ident name : Str) (lo : Nat) (ws : List (List CPin)) :
    identOf (busCable ident name lo ws).data = some ident := by
  simp [busCable, identOf, Data.getStr?, Data.get?_set_other _ _ _ _ kNAME_ne_kIDENT.symm, Data.get?_set_self]

theorem busCable_isArray (ident name : Str) (lo : Nat) (ws : List (List CPin)) :
    (busCable ident name lo ws).isArray = true := by
  simp [busCable, CCable.isArray, CCable.isScalar]

theorem findName_append_fresh (ds : List Data) (d : Data) (n : Str) (h : findName ds n = none)
    (hn : nameOf d = some n) : findName (ds ++ [d]) n = some ds.length := by
  unfold findName at *
  rw [List.findIdx?_append, h]
  simp [List.findIdx?_cons, hn]

/-- netSExp for a wire of a bus cable -/
theorem netSExp_bus (libs : List CLib) (d : CDef) (cx : DefCtx) (c : CCable) (ident name : Str) (w : List CPin) (k : Nat)
    (hname : nameOf c.data = some name) (hpins : ∀ pin ∈ w, PinOK libs d cx pin) :
    ∃ es, netSExp libs d c ident false w k = .ok (.list [A "net", bitNameSExp ident name (k + c.lower), .list (A "joined" :: es)]) ∧
      loopC (joinedItem cx) [] es = .ok (w, []) := by
  obtain ⟨es, hes, hl⟩ := pins_roundtrip libs d cx w [] hpins
  refine ⟨es, ?_, by simpa using hl⟩
  simp [netSExp, hname, hes, bitNameSExp, bind, Except.bind, pure, Except.pure]

/-- the nets of wires `ws` (positions `done.length …`) of a bus, on top of the cable holding `done` -/
theorem bus_tail (libs : List CLib) (d : CDef) (sc : Scope) (c : CCable) (ident name : Str) (cs : List CCable)
    (ws done : List (List CPin)) (st : CellSt)
    (hd : done ≠ [])
    (hst : st.cables = cs ++ [busCable ident name c.lower done])
    (hfresh : findName (cs.map (·.data)) name = none)
    (hname : nameOf c.data = some name)
    (hpins : ∀ w ∈ ws, ∀ pin ∈ w, PinOK libs d { sc := sc, ports := st.ports, insts := st.insts } pin)
    (hbits : ∀ k, done.length ≤ k → k < done.length + ws.length →
      bracketAllowed (bitName name (k + c.lower)) = true ∧ checkEdifIdentifier (bitIdent ident (k + c.lower)) = true ∧
      (bitName name (k + c.lower)).all isStringChar = true) :
    ∃ yss : List (List SExp), (ws.zipIdx done.length).mapM (fun (x : List CPin × Nat) => netSExp libs d c ident false x.1 x.2) = .ok (yss.map SExp.list) ∧
      yss.foldlM (contentsItem sc) st = .ok { st with cables := cs ++ [busCable ident name c.lower (done ++ ws)] } := by
  induction ws generalizing done st with
  | nil =>
    refine ⟨[], by simp [pure, Except.pure], ?_⟩
    simp [pure, Except.pure, ← hst]
  | cons w ws ih =>
    have hb := hbits done.length (Nat.le_refl _) (by simp)
    obtain ⟨es, hnet, hl⟩ := netSExp_bus libs d { sc := sc, ports := st.ports, insts := st.insts } c ident name w
      done.length hname (hpins w (by simp))
    have hlen : 0 < done.length := List.length_pos_iff.mpr hd
    -- the step
    have hfind : findName (st.cables.map (·.data)) name = some cs.length := by
      rw [hst, List.map_append, List.map_cons, List.map_nil]
      have := findName_append_fresh (cs.map (·.data)) (busCable ident name c.lower done).data name hfresh (nameOf_busCable _ _ _ _)
      simpa using this
    have hget : st.cables[cs.length]? = some (busCable ident name c.lower done) := by
      rw [hst]; simp
    have hmerge : mergeInto (busCable ident name c.lower done) (done.length + c.lower) w =
        busCable ident name c.lower (done ++ [w]) := by
      unfold mergeInto
      have h1 : done.length + c.lower ≥ (busCable ident name c.lower done).lower := by simp [busCable]
      have h2 : ¬ (done.length + c.lower < (busCable ident name c.lower done).lower + (busCable ident name c.lower done).wires.length) := by
        simp [busCable]; omega
      simp only [h1, h2, if_true, if_false]
      simp [busCable]
    have hstep : contentsItem sc st [A "net", bitNameSExp ident name (done.length + c.lower), .list (A "joined" :: es)] =
        .ok { st with cables := cs ++ [busCable ident name c.lower (done ++ [w])] } := by
      rw [contentsItem_net sc st _ _ es w (nameDef_bit ident name _ hb.2.1 hb.2.2) hl]
      rw [multibitAdd_merge st.cables ident name (done.length + c.lower) cs.length _ w hb.1 hfind hget (busCable_isArray _ _ _ _)]
      simp only [hmerge, bind, Except.bind, pure, Except.pure, hst]
      simp
    obtain ⟨yss, hm, hf⟩ := ih (done ++ [w]) { st with cables := cs ++ [busCable ident name c.lower (done ++ [w])] }
      (by simp) rfl (fun w' hw' => hpins w' (by simp [hw']))
      (fun k hk1 hk2 => hbits k (by simp at hk1; omega) (by simp at hk1 hk2 ⊢; omega))
    refine ⟨[A "net", bitNameSExp ident name (done.length + c.lower), .list (A "joined" :: es)] :: yss, ?_, ?_⟩
    · simp only [List.zipIdx_cons, List.mapM_cons, hnet, bind, Except.bind]
      have hm' : (ws.zipIdx (done.length + 1)).mapM (fun (x : List CPin × Nat) => netSExp libs d c ident false x.1 x.2) = .ok (yss.map SExp.list) := by
        simpa using hm
      simp [hm', pure, Except.pure]
    · simp only [List.foldlM_cons, hstep, bind, Except.bind]
      simpa using hf

/-- what the reader assembles from the nets the writer emits for cable `c` -/
def readCable (c : CCable) (ident name : Str) : CCable :=
  if c.wires.length = 1 ∧ c.isArray = false then scalarCable (withName [] ident name) (c.wires.headD [])
  else busCable ident name c.lower c.wires

/-- hypotheses on one cable (C03's quantifier: named, non-empty, scalar cables not named like a bus
    bit; plus the writer's per-bit identifiers being legal) -/
structure CableOK (libs : List CLib) (d : CDef) (cx : DefCtx) (c : CCable) (ident name : Str) : Prop where
  named : NamedOK c.data ident name
  wires_ne : c.wires ≠ []
  pins : ∀ w ∈ c.wires, ∀ pin ∈ w, PinOK libs d cx pin
  scalar_plain : c.wires.length = 1 → c.isArray = false → (sepName name).1 = none ∧ name ≠ []
  bus_ok : ¬ (c.wires.length = 1 ∧ c.isArray = false) → ∀ k, k < c.wires.length →
    bracketAllowed (bitName name (k + c.lower)) = true ∧ checkEdifIdentifier (bitIdent ident (k + c.lower)) = true ∧
    (bitName name (k + c.lower)).all isStringChar = true

theorem nameOf_of_NamedOK (d : Data) (ident name : Str) (h : NamedOK d ident name) : nameOf d = some name := by
  simp [nameOf, Data.getStr?, h.hn]

/-- **cable_roundtrip**: the nets the writer emits for one cable are re-assembled by the reader
    (parse_net + multibit_add_cable) into one cable with the same name, identifier, base index and
    the same pins on every wire, appended to the cell's cables -/
theorem cable_roundtrip (libs : List CLib) (d : CDef) (sc : Scope) (c : CCable) (ident name : Str) (st : CellSt)
    (hok : CableOK libs d { sc := sc, ports := st.ports, insts := st.insts } c ident name)
    (hfn : findName (st.cables.map (·.data)) name = none)
    (hfi : findIdent (st.cables.map (·.data)) ident = none) :
    ∃ yss : List (List SExp), cableSExps libs d c = .ok (yss.map SExp.list) ∧
      yss.foldlM (contentsItem sc) st = .ok { st with cables := st.cables ++ [readCable c ident name] } := by
  have hname := nameOf_of_NamedOK _ _ _ hok.named
  unfold cableSExps
  simp only [needIdent, hok.named.hi, bind, Except.bind, pure, Except.pure]
  by_cases hs : c.wires.length = 1 ∧ c.isArray = false
  · -- scalar: one net under the cable's own name
    obtain ⟨hl, ha⟩ := hs
    obtain ⟨hplain, hne⟩ := hok.scalar_plain hl ha
    obtain ⟨w, hw⟩ : ∃ w, c.wires = [w] := by
      cases hc : c.wires with
      | nil => simp [hc] at hl
      | cons w r => cases r with
        | nil => exact ⟨w, rfl⟩
        | cons _ _ => simp [hc] at hl
    obtain ⟨nm, hnm, _, hdef⟩ := nameDef_nameSExp c.data ident name hok.named "cable"
    obtain ⟨es, hes, hloop⟩ := pins_roundtrip libs d { sc := sc, ports := st.ports, insts := st.insts } w []
      (fun pin hp => hok.pins w (by simp [hw]) pin hp)
    refine ⟨[[A "net", nm, .list (A "joined" :: es)]], ?_, ?_⟩
    · simp [hw, ha, netSExp, hnm, hes, bind, Except.bind, pure, Except.pure]
    · have hD : ∀ rest, nameDef Meta.new (nm :: rest) = .ok ({ data := withName [] ident name, pfx := [S "EDIF"] }, rest) :=
        fun rest => hdef [] rest rfl
      have hconf := conflicts_false_of_fresh (st.cables.map (·.data)) (withName [] ident name) ident name
        (identOf_withName _ _ _) (nameOf_withName _ _ _) hfn hfi
      simp only [List.foldlM_cons, List.foldlM_nil, contentsItem_net sc st nm _ es w hD (by simpa using hloop),
        multibitAdd_scalar st.cables _ ident name w (identOf_withName _ _ _) (nameOf_withName _ _ _) hne hplain hfn hconf,
        bind, Except.bind, pure, Except.pure]
      simp [readCable, hl, ha, hw]
  · -- bus: first bit creates the array cable, the others extend it upwards
    have hb := hok.bus_ok hs
    have hsingle : (decide (c.wires.length = 1) && !c.isArray) = false := by
      by_cases h1 : c.wires.length = 1
      · have : c.isArray = true := by
          cases hh : c.isArray with
          | true => rfl
          | false => exact absurd ⟨h1, hh⟩ hs
        simp [this]
      · simp [h1]
    simp only [hsingle]
    cases hc : c.wires with
    | nil => exact absurd hc hok.wires_ne
    | cons w ws =>
      have hb0 := hb 0 (by simp [hc])
      simp only [Nat.zero_add] at hb0
      obtain ⟨es, hnet, hl⟩ := netSExp_bus libs d { sc := sc, ports := st.ports, insts := st.insts } c ident name w 0
        hname (hok.pins w (by simp [hc]))
      simp only [Nat.zero_add] at hnet
      have hconf := conflicts_false_of_fresh (st.cables.map (·.data)) (busCable ident name c.lower [w]).data ident name
        (identOf_busCable _ _ _ _) (nameOf_busCable _ _ _ _) hfn hfi
      have hstep : contentsItem sc st [A "net", bitNameSExp ident name c.lower, .list (A "joined" :: es)] =
          .ok { st with cables := st.cables ++ [busCable ident name c.lower [w]] } := by
        rw [contentsItem_net sc st _ _ es w (nameDef_bit ident name _ hb0.2.1 hb0.2.2) hl]
        rw [multibitAdd_newBus st.cables ident name c.lower w hb0.1 hok.named.hc hfn hfi hconf]
        rfl
      obtain ⟨yss, hm, hf⟩ := bus_tail libs d sc c ident name st.cables ws [w]
        { st with cables := st.cables ++ [busCable ident name c.lower [w]] } (by simp) rfl hfn hname
        (fun w' hw' => hok.pins w' (by simp [hc, hw']))
        (fun k hk1 hk2 => hb k (by simp [hc] at hk2 ⊢; omega))
      refine ⟨[A "net", bitNameSExp ident name c.lower, .list (A "joined" :: es)] :: yss, ?_, ?_⟩
      · simp only [List.zipIdx_cons, List.mapM_cons, bind, Except.bind]
        have hm' : (ws.zipIdx (0 + 1)).mapM (fun (x : List CPin × Nat) => netSExp libs d c ident false x.1 x.2) = .ok (yss.map SExp.list) := by
          simpa using hm
        rw [hnet]
        simp [hm', pure, Except.pure]
      · have hrc : readCable c ident name = busCable ident name c.lower (w :: ws) := by
          unfold readCable; rw [if_neg hs, hc]
        simp only [List.foldlM_cons, hstep, bind, Except.bind]
        rw [hf, hrc]
        simp

/-- every element of `sibs` is known by an (identifier, name) pair from `prev` -/
def KnownBy (prev : List (Str × Str)) (sibs : List Data) : Prop :=
  ∀ s ∈ sibs, ∃ p ∈ prev, identOf s = some p.1 ∧ nameOf s = some p.2

/-- `(ident, name)` clashes with nothing in `prev`: different name, different identifier ignoring case -/
def FreshIn (prev : List (Str × Str)) (ident name : Str) : Prop :=
  ∀ p ∈ prev, p.2 ≠ name ∧ lower p.1 ≠ lower ident

theorem findName_none_of_fresh (prev : List (Str × Str)) (sibs : List Data) (ident name : Str)
    (hk : KnownBy prev sibs) (hf : FreshIn prev ident name) : findName sibs name = none := by
  unfold findName
  rw [List.findIdx?_eq_none_iff]
  intro s hs
  obtain ⟨p, hp, _, hn⟩ := hk s hs
  have := (hf p hp).1
  simp [hn, this]

theorem findIdent_none_of_fresh (prev : List (Str × Str)) (sibs : List Data) (ident name : Str)
    (hk : KnownBy prev sibs) (hf : FreshIn prev ident name) : findIdent sibs ident = none := by
  unfold findIdent
  rw [List.findIdx?_eq_none_iff]
  intro s hs
  obtain ⟨p, hp, hi, _⟩ := hk s hs
  have := (hf p hp).2
  simp [hi, this]

theorem KnownBy_append (prev : List (Str × Str)) (sibs : List Data) (d : Data) (ident name : Str)
    (hk : KnownBy prev sibs) (hi : identOf d = some ident) (hn : nameOf d = some name) :
    KnownBy ((ident, name) :: prev) (sibs ++ [d]) := by
  intro s hs
  rcases List.mem_append.mp hs with h | h
  · obtain ⟨p, hp, h1, h2⟩ := hk s h
    exact ⟨p, List.mem_cons_of_mem _ hp, h1, h2⟩
  · simp only [List.mem_singleton] at h
    subst h
    exact ⟨(ident, name), by simp, hi, hn⟩

theorem nameOf_readCable (c : CCable) (ident name : Str) : nameOf (readCable c ident name).data = some name := by
  unfold readCable
  split
  · simp [scalarCable, nameOf_withName]
  · exact nameOf_busCable _ _ _ _

theorem identOf_readCable (c : CCable) (ident name : Str) : identOf (readCable c ident name).data = some ident := by
  unfold readCable
  split
  · simp [scalarCable, identOf_withName]
  · exact identOf_busCable _ _ _ _

def idOf (d : Data) : Str := (identOf d).getD []
def nmOf (d : Data) : Str := (nameOf d).getD []

/-- the cable the reader assembles from the writer's nets for `c` -/
def readCable1 (c : CCable) : CCable := readCable c (idOf c.data) (nmOf c.data)

/-- hypotheses on a cell's cable list: every cable OK, pairwise different names and identifiers
    (ignoring case), also different from those in `prev` -/
def CablesOK (libs : List CLib) (d : CDef) (cx : DefCtx) : List (Str × Str) → List CCable → Prop
  | _, [] => True
  | prev, c :: r => CableOK libs d cx c (idOf c.data) (nmOf c.data) ∧ FreshIn prev (idOf c.data) (nmOf c.data) ∧
      CablesOK libs d cx ((idOf c.data, nmOf c.data) :: prev) r

/-- **cables_roundtrip**: all the nets of a cell, cable after cable -/
theorem cables_roundtrip (libs : List CLib) (d : CDef) (sc : Scope) (cs : List CCable) (prev : List (Str × Str))
    (st : CellSt)
    (hok : CablesOK libs d { sc := sc, ports := st.ports, insts := st.insts } prev cs)
    (hk : KnownBy prev (st.cables.map (·.data))) :
    ∃ ysss : List (List (List SExp)), cs.mapM (cableSExps libs d) = .ok (ysss.map (·.map SExp.list)) ∧
      ysss.flatten.foldlM (contentsItem sc) st = .ok { st with cables := st.cables ++ cs.map readCable1 } := by
  induction cs generalizing prev st with
  | nil => exact ⟨[], rfl, by simp [pure, Except.pure]⟩
  | cons c r ih =>
    obtain ⟨hc, hfresh, hrest⟩ := hok
    have hfn := findName_none_of_fresh prev _ _ _ hk hfresh
    have hfi := findIdent_none_of_fresh prev _ _ _ hk hfresh
    obtain ⟨yss, hw, hf⟩ := cable_roundtrip libs d sc c (idOf c.data) (nmOf c.data) st hc hfn hfi
    have hk' : KnownBy ((idOf c.data, nmOf c.data) :: prev)
        (({ st with cables := st.cables ++ [readCable c (idOf c.data) (nmOf c.data)] } : CellSt).cables.map (·.data)) := by
      simp only [List.map_append, List.map_cons, List.map_nil]
      exact KnownBy_append prev _ _ _ _ hk (identOf_readCable _ _ _) (nameOf_readCable _ _ _)
    obtain ⟨ysss, hws, hfs⟩ := ih ((idOf c.data, nmOf c.data) :: prev)
      { st with cables := st.cables ++ [readCable c (idOf c.data) (nmOf c.data)] } hrest hk'
    refine ⟨yss :: ysss, ?_, ?_⟩
    · simp [List.mapM_cons, hw, hws, bind, Except.bind, pure, Except.pure]
    · simp only [List.flatten_cons, List.foldlM_append, hf, bind, Except.bind]
      rw [hfs]
      simp [readCable1]

theorem adjDup_false_of_nodup (l : List CPin) (h : l.Nodup) : adjDup l = false := by
  induction l with
  | nil => rfl
  | cons a r ih =>
    cases r with
    | nil => rfl
    | cons b r' =>
      simp only [adjDup, Bool.or_eq_false_iff]
      have hn := List.nodup_cons.mp h
      refine ⟨?_, ih hn.2⟩
      have : a ≠ b := fun e => hn.1 (by simp [e])
      simpa using this

theorem hasDupPin_false (cables : List CCable) (h : (cables.flatMap (fun c => c.wires.flatten)).Nodup) :
    hasDupPin cables = false := by
  unfold hasDupPin
  apply adjDup_false_of_nodup
  exact (List.mergeSort_perm _ _).nodup_iff.mpr h

end Spydr.Edif
