/-
  The cell level: what the reader makes of the writer's `(Cell …)`.
-/
import Spydr.Edif.LemmasInst
namespace Spydr.Edif

theorem readCable_wires (c : CCable) (ident name : Str) : (readCable c ident name).wires = c.wires := by
  unfold readCable
  split
  · rename_i h
    cases hc : c.wires with
    | nil => simp [hc] at h
    | cons w r =>
      cases r with
      | nil => simp [scalarCable]
      | cons _ _ => simp [hc] at h
  · rfl

theorem pins_readCables (cs : List CCable) :
    (cs.map readCable1).flatMap (fun c => c.wires.flatten) = cs.flatMap (fun c => c.wires.flatten) := by
  induction cs with
  | nil => rfl
  | cons c r ih => simp [List.flatMap_cons, readCable1, readCable_wires, ih]

structure CellOK (libs : List CLib) (sc : Scope) (d : CDef) (ident name : Str) (iws : List IW) : Prop where
  named : NamedOK d.data ident name
  ports : PortsOK [] d.ports
  insts : InstsOK libs sc [] d.insts iws
  cables : CablesOK libs d { sc := sc, ports := d.ports.map readPort1, insts := iws.map IW.read } [] d.cables
  nodup : (d.cables.flatMap (fun c => c.wires.flatten)).Nodup

def kCELLTYPE : Str := S "EDIF.cellType"
def kVIEWID : Str := S "EDIF.view.identifier"
def kVIEWTYPE : Str := S "EDIF.view.viewType"

/-- the definition dictionary the reader builds for a cell the writer wrote -/
def cellData (ident name : Str) : Data :=
  (((withName [] ident name).set kCELLTYPE (.str (S "celltype"))).set kVIEWID (.str (S "netlist"))).set kVIEWTYPE
    (.str (S "viewtype"))

def readCell (d : CDef) (ident name : Str) (iws : List IW) : CDef :=
  { data := cellData ident name, ports := d.ports.map readPort1, cables := d.cables.map readCable1,
    insts := iws.map IW.read }

theorem InstsOK_length (libs : List CLib) (sc : Scope) (prev : List (Str × Str)) (is : List CInst) (ws : List IW)
    (h : InstsOK libs sc prev is ws) : is.length = ws.length := by
  induction is generalizing prev ws with
  | nil => cases ws with
    | nil => rfl
    | cons _ _ => exact absurd h (by simp [InstsOK])
  | cons i r ih => cases ws with
    | nil => exact absurd h (by simp [InstsOK])
    | cons w ws => simp [ih _ _ h.2.2]

theorem KnownBy_nil : KnownBy [] ([] : List Data) := by intro s hs; cases hs

theorem setAttr_plain (D : Data) (p : List Str) (v : Val) (h1 : joinDot p ≠ S "EDIF.original_identifier")
    (h2 : joinDot p ≠ kIDENT) : setAttr { data := D, pfx := p } v = .ok { data := D.set (joinDot p) v, pfx := p } := by
  simp only [setAttr, key_mk, h1, h2, if_false, pure, Except.pure]

theorem loopC_lists_nil {σ : Type} (h : σ → List SExp → R σ) (s : σ) (yss : List (List SExp)) :
    loopC h s (yss.map SExp.list) = (yss.foldlM h s) >>= fun s' => pure (s', []) := by
  have := loopC_lists h s yss []
  simpa [loopC] using this

theorem joinDot_viewid : joinDot [S "EDIF", S "view", S "identifier"] = kVIEWID := by decide
theorem joinDot_viewtype : joinDot [S "EDIF", S "view", S "viewType"] = kVIEWTYPE := by decide
theorem joinDot_celltype : joinDot [S "EDIF", S "cellType"] = kCELLTYPE := by decide

theorem map_list_inj {l l' : List (List SExp)} (h : l.map SExp.list = l'.map SExp.list) : l = l' :=
  (List.map_inj_right (fun a b hab => by cases hab; rfl)).mp h

theorem map_map_list_inj {l l' : List (List (List SExp))} (h : l.map (·.map SExp.list) = l'.map (·.map SExp.list)) :
    l = l' :=
  (List.map_inj_right (fun a b hab => map_list_inj hab)).mp h

theorem nameDef_A (m : Meta) (s : String) (rest : List SExp) :
    nameDef m (A s :: rest) = (do
      let ident ← identOfS (A s)
      let m ← setAttr (m.push "identifier") (.str ident)
      pure (m.pop, rest)) := rfl

/-- the `(contents …)` item of a view -/
theorem contents_item (sc : Scope) (d : CDef) (iws : List IW) (st : CellSt) (hs : Bool)
    (iyss : List (List SExp)) (cysss : List (List (List SExp)))
    (hst : st.ports = d.ports.map readPort1 ∧ st.insts = [] ∧ st.cables = [])
    (hnd : (d.cables.flatMap (fun c => c.wires.flatten)).Nodup)
    (hif : ∀ st, st.insts = [] → iyss.foldlM (contentsItem sc) st = .ok { st with insts := iws.map IW.read })
    (hcf : ∀ st, st.cables = [] → st.ports = d.ports.map readPort1 → st.insts = iws.map IW.read →
      cysss.flatten.foldlM (contentsItem sc) st = .ok { st with cables := d.cables.map readCable1 }) :
    viewItem sc (st, hs, false)
      (A "contents" :: (iyss.map SExp.list ++ (cysss.map (·.map SExp.list)).flatten)) =
      .ok ({ st with insts := iws.map IW.read, cables := d.cables.map readCable1 }, hs, true) := by
  have h1 : ∀ xs, headIs (A "contents" :: xs) "status" = false := by intro xs; rw [headIs_cons]; decide
  have h2 : ∀ xs, headIs (A "contents" :: xs) "contents" = true := by intro xs; rw [headIs_cons]; decide
  have hflat : iyss.map SExp.list ++ (cysss.map (·.map SExp.list)).flatten = (iyss ++ cysss.flatten).map SExp.list := by
    simp [List.map_flatten]
  have hfold : (iyss ++ cysss.flatten).foldlM (contentsItem sc) st =
      .ok { st with insts := iws.map IW.read, cables := d.cables.map readCable1 } := by
    rw [List.foldlM_append, hif st hst.2.1]
    simp only [bind, Except.bind]
    exact hcf { st with insts := iws.map IW.read } hst.2.2 hst.1 rfl
  have hdup : hasDupPin (d.cables.map readCable1) = false := hasDupPin_false _ (by rw [pins_readCables]; exact hnd)
  simp only [viewItem, h1, h2, Bool.false_eq_true, if_false, if_true, List.tail_cons, hflat, loopC_lists_nil, hfold, endC,
    hdup, bind, Except.bind, pure, Except.pure]

/-- the `(view netlist (viewtype NETLIST) (interface …) (contents …)?)` part -/
theorem view_roundtrip (libs : List CLib) (sc : Scope) (d : CDef) (ident name : Str) (iws : List IW) (D0 : Data)
    (h : CellOK libs sc d ident name iws) (pyss iyss : List (List SExp)) (cysss : List (List (List SExp)))
    (hp : d.ports.mapM portSExp = .ok (pyss.map SExp.list))
    (hpf : ∀ st hd, st.ports = [] → pyss.foldlM ifaceItem (st, hd) = .ok ({ st with ports := d.ports.map readPort1 }, hd))
    (hif : ∀ st, st.insts = [] → iyss.foldlM (contentsItem sc) st = .ok { st with insts := iws.map IW.read })
    (hcf : ∀ st, st.cables = [] → st.ports = d.ports.map readPort1 → st.insts = iws.map IW.read →
      cysss.flatten.foldlM (contentsItem sc) st = .ok { st with cables := d.cables.map readCable1 }) :
    parseView sc { m := { data := D0, pfx := [S "EDIF"] } }
      ([A "view", A "netlist", .list [A "viewtype", A "NETLIST"], .list (A "interface" :: pyss.map SExp.list)] ++
        (if d.insts.length + d.cables.length > 0 then
          [SExp.list (A "contents" :: (iyss.map SExp.list ++ (cysss.map (·.map SExp.list)).flatten))] else [])) =
      .ok { m := { data := (D0.set kVIEWID (.str (S "netlist"))).set kVIEWTYPE (.str (S "viewtype")), pfx := [S "EDIF"] },
            ports := d.ports.map readPort1, insts := iws.map IW.read, cables := d.cables.map readCable1 } := by
  have hn : identOfS (A "netlist") = .ok (S "netlist") := identOfS_atom _ (by decide)
  have hk : isKw (A "viewtype") "viewtype" = true := by decide
  have ht : (viewTypes.any (isKw (A "NETLIST"))) = true := by decide
  have hi : ∀ xs, headIs (A "interface" :: xs) "interface" = true := by intro xs; rw [headIs_cons]; decide
  have hat : atomText (A "viewtype") = S "viewtype" := rfl
  have hne1 : joinDot [S "EDIF", S "view", S "identifier"] ≠ S "EDIF.original_identifier" := by decide
  have hne2 : joinDot [S "EDIF", S "view", S "identifier"] ≠ kIDENT := by decide
  have hne3 : joinDot [S "EDIF", S "view", S "viewType"] ≠ S "EDIF.original_identifier" := by decide
  have hne4 : joinDot [S "EDIF", S "view", S "viewType"] ≠ kIDENT := by decide
  have hports := hpf { m := ⟨(D0.set kVIEWID (.str (S "netlist"))).set kVIEWTYPE (.str (S "viewtype")), [S "EDIF", S "view"]⟩ } false rfl
  by_cases hc : d.insts.length + d.cables.length > 0
  · simp only [hc, if_true]
    have hcont := contents_item sc d iws { m := ⟨(D0.set kVIEWID (.str (S "netlist"))).set kVIEWTYPE (.str (S "viewtype")), [S "EDIF", S "view"]⟩, ports := d.ports.map readPort1 } false iyss cysss ⟨rfl, rfl, rfl⟩ h.nodup hif hcf
    simp only [parseView, List.cons_append, List.nil_append, List.tail_cons, push_mk, nameDef_A, hn, setAttr_plain _ _ _ hne1 hne2,
      pop_mk, List.dropLast, hk, ht, Bool.not_true, Bool.false_eq_true, if_false, hat, setAttr_plain _ _ _ hne3 hne4,
      joinDot_viewid, joinDot_viewtype, hi, loopC_lists_nil, hports, loopC, hcont, endC, bind, Except.bind, pure, Except.pure]
  · have hz : d.insts = [] ∧ d.cables = [] := by
      constructor
      · cases hd : d.insts with
        | nil => rfl
        | cons _ _ => simp [hd] at hc
      · cases hd : d.cables with
        | nil => rfl
        | cons _ _ => simp [hd] at hc
    have hiw : iws = [] := by
      have := InstsOK_length _ _ _ _ _ h.insts
      rw [hz.1] at this
      cases iws with
      | nil => rfl
      | cons _ _ => simp at this
    simp only [hc, if_false]
    simp only [parseView, List.cons_append, List.nil_append, List.append_nil, List.tail_cons, push_mk, nameDef_A, hn,
      setAttr_plain _ _ _ hne1 hne2,
      pop_mk, List.dropLast, hk, ht, Bool.not_true, Bool.false_eq_true, if_false, hat, setAttr_plain _ _ _ hne3 hne4,
      joinDot_viewid, joinDot_viewtype, hi, loopC_lists_nil, hports, loopC, endC, bind, Except.bind, pure, Except.pure,
      hz.2, hiw, List.map_nil]


/-- **cell_roundtrip** (C03 at cell level): for a well-formed, named, expressible cell whose
    references resolve in the reader's scope, the reader applied to the writer's `(Cell …)` returns a
    cell with the same name and identifier, the same ports (order, name, identifier, direction,
    width, array-ness), the same instances (name, identifier, referenced cell and library,
    properties) and the same cables (name, identifier, array-ness, base index, every wire joined to
    the same pins in the same order). -/
theorem cell_roundtrip (libs : List CLib) (sc : Scope) (d : CDef) (ident name : Str) (iws : List IW)
    (h : CellOK libs sc d ident name iws) :
    ∃ r, defSExp libs d = .ok (.list (A "Cell" :: r)) ∧
      parseCell sc (A "Cell" :: r) = .ok (readCell d ident name iws) := by
  obtain ⟨nm, hnm, _, hdef⟩ := nameDef_nameSExp d.data ident name h.named "definition"
  -- the three blocks
  have hP : ∀ (st : CellSt) (hd : Bool), st.ports = [] →
      ∃ pyss : List (List SExp), d.ports.mapM portSExp = .ok (pyss.map SExp.list) ∧
        pyss.foldlM ifaceItem (st, hd) = .ok ({ st with ports := d.ports.map readPort1 }, hd) := by
    intro st hd hst
    obtain ⟨pyss, h1, h2⟩ := ports_roundtrip d.ports [] st hd h.ports (by rw [hst]; exact KnownBy_nil)
    exact ⟨pyss, h1, by rw [h2, hst]; simp⟩
  obtain ⟨pyss, hp1, _⟩ := hP {m := Meta.new} false rfl
  have hpf : ∀ (st : CellSt) (hd : Bool), st.ports = [] →
      pyss.foldlM ifaceItem (st, hd) = .ok ({ st with ports := d.ports.map readPort1 }, hd) := by
    intro st hd hst
    obtain ⟨pyss', h1, h2⟩ := hP st hd hst
    have : pyss' = pyss := by
      have := h1.symm.trans hp1
      simp only [Except.ok.injEq] at this
      exact map_list_inj this
    rw [← this]; exact h2
  have hI : ∀ (st : CellSt), st.insts = [] →
      ∃ iyss : List (List SExp), d.insts.mapM (instSExp libs) = .ok (iyss.map SExp.list) ∧
        iyss.foldlM (contentsItem sc) st = .ok { st with insts := iws.map IW.read } := by
    intro st hst
    obtain ⟨iyss, h1, h2⟩ := insts_roundtrip libs sc d.insts iws [] st h.insts (by rw [hst]; exact KnownBy_nil)
    exact ⟨iyss, h1, by rw [h2, hst]; simp⟩
  obtain ⟨iyss, hi1, _⟩ := hI {m := Meta.new} rfl
  have hif : ∀ (st : CellSt), st.insts = [] →
      iyss.foldlM (contentsItem sc) st = .ok { st with insts := iws.map IW.read } := by
    intro st hst
    obtain ⟨iyss', h1, h2⟩ := hI st hst
    have : iyss' = iyss := by
      have := h1.symm.trans hi1
      simp only [Except.ok.injEq] at this
      exact map_list_inj this
    rw [← this]; exact h2
  have hC : ∀ (st : CellSt), st.cables = [] → st.ports = d.ports.map readPort1 → st.insts = iws.map IW.read →
      ∃ cysss : List (List (List SExp)), d.cables.mapM (cableSExps libs d) = .ok (cysss.map (·.map SExp.list)) ∧
        cysss.flatten.foldlM (contentsItem sc) st = .ok { st with cables := d.cables.map readCable1 } := by
    intro st hc hp hi
    have hok : CablesOK libs d { sc := sc, ports := st.ports, insts := st.insts } [] d.cables := by
      rw [hp, hi]; exact h.cables
    obtain ⟨cysss, h1, h2⟩ := cables_roundtrip libs d sc d.cables [] st hok (by rw [hc]; exact KnownBy_nil)
    exact ⟨cysss, h1, by rw [h2, hc]; simp⟩
  obtain ⟨cysss, hc1, _⟩ := hC { m := Meta.new, ports := d.ports.map readPort1, insts := iws.map IW.read } rfl rfl rfl
  have hcf : ∀ (st : CellSt), st.cables = [] → st.ports = d.ports.map readPort1 → st.insts = iws.map IW.read →
      cysss.flatten.foldlM (contentsItem sc) st = .ok { st with cables := d.cables.map readCable1 } := by
    intro st hc hp hi
    obtain ⟨cysss', h1, h2⟩ := hC st hc hp hi
    have : cysss' = cysss := by
      have := h1.symm.trans hc1
      simp only [Except.ok.injEq] at this
      exact map_map_list_inj this
    rw [← this]; exact h2
  have hview := view_roundtrip libs sc d ident name iws ((withName [] ident name).set kCELLTYPE (.str (S "celltype")))
    h pyss iyss cysss hp1 hpf hif hcf
  refine ⟨[nm, .list [A "celltype", A "GENERIC"], .list ([A "view", A "netlist", .list [A "viewtype", A "NETLIST"], .list (A "interface" :: pyss.map SExp.list)] ++ (if d.insts.length + d.cables.length > 0 then [SExp.list (A "contents" :: (iyss.map SExp.list ++ (cysss.map (·.map SExp.list)).flatten))] else []))], ?_, ?_⟩
  · simp only [defSExp, hnm, hp1, hi1, hc1, bind, Except.bind, pure, Except.pure]
  · have hk : isKw (A "celltype") "celltype" = true := by decide
    have ht : (["generic", "tie", "ripper"].any (isKw (A "GENERIC"))) = true := by decide
    have hat : atomText (A "celltype") = S "celltype" := rfl
    have hne1 : joinDot [S "EDIF", S "cellType"] ≠ S "EDIF.original_identifier" := by decide
    have hne2 : joinDot [S "EDIF", S "cellType"] ≠ kIDENT := by decide
    have hv : ∀ xs, headIs (A "view" :: xs) "view" = true := by intro xs; rw [headIs_cons]; decide
    have hs : ∀ xs, headIs (A "view" :: xs) "status" = false := by intro xs; rw [headIs_cons]; decide
    simp only [List.cons_append, List.nil_append] at hview
    simp only [parseCell, List.tail_cons, Meta.new, hdef [] _ rfl, hk, ht, Bool.not_true, Bool.false_eq_true, if_false,
      push_mk, pop_mk, List.cons_append, List.nil_append, List.dropLast, hat, setAttr_plain _ _ _ hne1 hne2, joinDot_celltype,
      loopC, cellItem, hs, hv, if_true, hview, endC, bind, Except.bind, pure, Except.pure, readCell, cellData]

end Spydr.Edif
