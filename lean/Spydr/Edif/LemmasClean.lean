/-
  Inside C03's quantifier the s-expression the writer emits is clean (plain words, strings without
  double quote / line break): the hypothesis of `lex_layout` holds for every text the writer lays out.
-/
import Spydr.Edif.LemmasWF
import Spydr.Edif.LemmasLex
namespace Spydr.Edif

/-! ### clean atoms -/

theorem mem_of_not_plain (c : Char) (h : plainChar c = false) : c = '"' ∨ c = '(' ∨ c = ')' ∨ c = '\r' ∨ c = '\n' ∨ c = '\t' ∨ c = ' ' := by
  simp only [plainChar, isWs, Bool.not_eq_false', Bool.or_eq_true, beq_iff_eq] at h
  rcases h with ((h | h) | h) | (((h | h) | h) | h) <;> simp [h]

theorem plain_of_idChar (c : Char) (h : isIdChar c = true) : plainChar c = true := by
  cases hp : plainChar c with
  | true => rfl
  | false =>
    rcases mem_of_not_plain c hp with rfl | rfl | rfl | rfl | rfl | rfl | rfl <;> exact absurd h (by decide)

theorem plain_of_alpha (c : Char) (h : isAsciiAlpha c = true) : plainChar c = true :=
  plain_of_idChar c (by simp [isIdChar, h])

theorem plain_of_digit (c : Char) (h : isAsciiDigit c = true) : plainChar c = true :=
  plain_of_idChar c (by simp [isIdChar, h])

theorem clean_ident (i : Str) (h : checkEdifIdentifier i = true) : (SExp.atom i).clean := by
  refine Or.inl ?_
  unfold checkEdifIdentifier at h
  split at h
  · cases h
  · rename_i r
    simp only [Bool.and_eq_true, decide_eq_true_eq, List.all_eq_true] at h
    refine ⟨by simp, ?_⟩
    intro c hc
    rcases List.mem_cons.mp hc with rfl | hc
    · decide
    · exact plain_of_idChar c (h.2 c hc)
  · rename_i c r hne
    simp only [Bool.and_eq_true, decide_eq_true_eq, List.all_eq_true] at h
    exact ⟨by simp, fun x hx => plain_of_idChar x (h.2 x hx)⟩

theorem clean_natStr (n : Nat) : (SExp.atom (natStr n)).clean :=
  Or.inl ⟨natStr_ne_nil n, fun c hc => plain_of_digit c (natStr_digits n c hc)⟩

theorem clean_pad2 (n : Nat) : (SExp.atom (pad2 n)).clean := by
  unfold pad2
  split
  · refine Or.inl ⟨by simp, ?_⟩
    intro c hc
    rcases List.mem_cons.mp hc with rfl | hc
    · decide
    · exact plain_of_digit c (natStr_digits n c hc)
  · exact clean_natStr n

theorem clean_intStr (i : Int) : (SExp.atom (intStr i)).clean := by
  cases i with
  | ofNat n => exact clean_natStr n
  | negSucc n =>
    refine Or.inl ⟨by simp [intStr], ?_⟩
    intro c hc
    simp only [intStr] at hc
    rcases List.mem_cons.mp hc with rfl | hc
    · decide
    · exact plain_of_digit c (natStr_digits _ c hc)

theorem stringChar_ok (c : Char) (h : isStringChar c = true) : c ≠ '"' ∧ c ≠ '\n' ∧ c ≠ '\r' := by
  refine ⟨?_, ?_, ?_⟩ <;> (intro e; subst e; exact absurd h (by decide))

theorem clean_qtok (s : Str) (h : s.all isStringChar = true) : (qtok s).clean := by
  refine Or.inr ⟨s, rfl, ?_⟩
  intro c hc
  exact stringChar_ok c (List.all_eq_true.mp h c hc)

/-- keyword atoms -/
theorem clean_kw (s : String) (h1 : s.toList ≠ []) (h2 : s.toList.all plainChar = true) : (A s).clean :=
  Or.inl ⟨h1, fun c hc => List.all_eq_true.mp h2 c hc⟩

theorem cleanL_append (xs ys : List SExp) (hx : cleanL xs) (hy : cleanL ys) : cleanL (xs ++ ys) := by
  induction xs with
  | nil => exact hy
  | cons x r ih => exact ⟨hx.1, ih hx.2⟩

theorem cleanL_of_forall (xs : List SExp) (h : ∀ x ∈ xs, x.clean) : cleanL xs := by
  induction xs with
  | nil => trivial
  | cons x r ih => exact ⟨h x (by simp), ih (fun y hy => h y (by simp [hy]))⟩

theorem forall_of_cleanL (xs : List SExp) (h : cleanL xs) : ∀ x ∈ xs, x.clean := by
  induction xs with
  | nil => intro x hx; cases hx
  | cons x r ih =>
    intro y hy
    rcases List.mem_cons.mp hy with rfl | hy
    · exact h.1
    · exact ih h.2 y hy

theorem mapM_forall {α β : Type} (f : α → W β) (P : β → Prop) (xs : List α) (ys : List β)
    (h : ∀ x ∈ xs, ∀ y, f x = .ok y → P y) (hm : xs.mapM f = .ok ys) : ∀ y ∈ ys, P y := by
  induction xs generalizing ys with
  | nil => simp [pure, Except.pure] at hm; subst hm; intro y hy; cases hy
  | cons x r ih =>
    simp only [List.mapM_cons, bind, Except.bind] at hm
    cases hx : f x with
    | error e => simp [hx] at hm
    | ok y0 =>
      simp only [hx] at hm
      cases hr : r.mapM f with
      | error e => simp [hr] at hm
      | ok ys0 =>
        simp only [hr, pure, Except.pure, Except.ok.injEq] at hm
        subst hm
        intro y hy
        rcases List.mem_cons.mp hy with rfl | hy
        · exact h x (by simp) _ hx
        · exact ih ys0 (fun a ha => h a (by simp [ha])) hr y hy


theorem clean_list (xs : List SExp) (h : cleanL xs) : (SExp.list xs).clean := by
  simpa [SExp.clean] using h

theorem cleanL_of_clean_list (xs : List SExp) (h : (SExp.list xs).clean) : cleanL xs := by
  simpa [SExp.clean] using h

macro "kw" : tactic => `(tactic| exact clean_kw _ (by decide) (by decide))

/-! ### the writer's constructs -/

theorem nameSExp_clean (d : Data) (i n : Str) (h : NamedOK d i n) (what : String) (e : SExp)
    (he : nameSExp d what = .ok e) : e.clean := by
  obtain ⟨e', he', hshape, _⟩ := nameDef_nameSExp d i n h what
  rw [he] at he'
  cases he'
  rcases hshape with rfl | rfl
  · exact clean_ident i h.hc
  · exact clean_list _ ⟨by kw, clean_ident i h.hc, clean_qtok n h.hs, trivial⟩

theorem portSExp_clean (p : CPort) (h : PortWF p) (e : SExp) (he : portSExp p = .ok e) : e.clean := by
  unfold portSExp at he
  simp only [bind, Except.bind] at he
  cases hn : nameSExp p.data "port" with
  | error x => simp [hn] at he
  | ok nm =>
    have hnm := nameSExp_clean _ _ _ h.named "port" nm hn
    simp only [hn] at he
    have hdir : cleanL (match dirAtom p.dir with | some a => [SExp.list [A "direction", a]] | none => []) := by
      cases p.dir <;> simp only [dirAtom] <;> first | trivial | exact ⟨clean_list _ ⟨by kw, by kw, trivial⟩, trivial⟩
    split at he
    · simp only [pure, Except.pure, Except.ok.injEq] at he
      subst he
      exact clean_list _ ⟨by kw, clean_list _ ⟨by kw, hnm, clean_natStr _, trivial⟩, hdir⟩
    · simp only [pure, Except.pure, Except.ok.injEq] at he
      subst he
      exact clean_list _ ⟨by kw, hnm, hdir⟩


theorem valSExp_clean (v : Val) (h : (∃ s, v = .str s ∧ s.all isStringChar = true) ∨ (∃ b, v = .bool b) ∨ (∃ i, v = .int i))
    (e : SExp) (he : valSExp v = .ok e) : e.clean := by
  rcases h with ⟨s, rfl, hs⟩ | ⟨b, rfl⟩ | ⟨i, rfl⟩
  · simp only [valSExp, pure, Except.pure, Except.ok.injEq] at he; subst he
    exact clean_list _ ⟨by kw, clean_qtok s hs, trivial⟩
  · simp only [valSExp, pure, Except.pure, Except.ok.injEq] at he; subst he
    cases b
    · exact clean_list _ ⟨by kw, clean_list _ ⟨by kw, trivial⟩, trivial⟩
    · exact clean_list _ ⟨by kw, clean_list _ ⟨by kw, trivial⟩, trivial⟩
  · simp only [valSExp, pure, Except.pure, Except.ok.injEq] at he; subst he
    exact clean_list _ ⟨by kw, clean_intStr i, trivial⟩

theorem clean_validIdent_of_check (i : Str) (h : checkEdifIdentifier i = true) : (SExp.atom i).clean := clean_ident i h

theorem propSExp_clean (t : PropT) (h : PropOK t.1 t.2.1 t.2.2)
    (e : SExp) (he : propSExp t.obj = .ok e) : e.clean := by
  obtain ⟨ident, orig, v⟩ := t
  obtain ⟨r, hr, _⟩ := prop_roundtrip ident orig v h
  have hid : (SExp.atom ident).clean := clean_ident ident h.hc
  have hr' : propSExp (PropT.obj (ident, orig, v)) = .ok (.list (A "property" :: r)) := hr
  rw [he] at hr'
  cases hr'
  -- redo the writer's computation to see the shape
  obtain ⟨tv, htv, _⟩ := typedValue_of_val v h.hval
  have htvc := valSExp_clean v h.hval _ htv
  have hne1 : S "value" ≠ S "identifier" := by decide
  have hne2 : S "original_identifier" ≠ S "identifier" := by decide
  have hne3 : S "value" ≠ S "original_identifier" := by decide
  cases orig with
  | none =>
    have : propSExp (PropT.obj (ident, none, v)) = .ok (.list [A "property", .atom ident, .list tv]) := by
      simp only [PropT.obj, propSExp, propKV, List.append_nil, List.cons_append, List.nil_append, Data.get?, if_true,
        hne1.symm, hne2.symm, hne3.symm, hne1, if_false, bind, Except.bind, htv, pure, Except.pure]
      simp [hne3]
    have hr2 : propSExp (PropT.obj (ident, none, v)) = .ok (.list (A "property" :: r)) := hr
    rw [hr2] at this
    cases this
    exact clean_list _ ⟨by kw, hid, htvc, trivial⟩
  | some o =>
    have ho := h.horig o rfl
    have : propSExp (PropT.obj (ident, some o, v)) =
        .ok (.list [A "property", .list [A "rename", .atom ident, qtok o], .list tv]) := by
      simp only [PropT.obj, propSExp, propKV, List.cons_append, List.nil_append, Data.get?, if_true, hne1.symm,
        hne2.symm, hne3.symm, hne1, hne3, if_false, bind, Except.bind, htv, pure, Except.pure]
    have hr2 : propSExp (PropT.obj (ident, some o, v)) = .ok (.list (A "property" :: r)) := hr
    rw [hr2] at this
    cases this
    exact clean_list _ ⟨by kw, clean_list _ ⟨by kw, hid, clean_qtok o ho, trivial⟩, htvc, trivial⟩


theorem propsOf_clean (d : Data) (h : d.get? kPROPS = none ∨
      ∃ ps, d.get? kPROPS = some (.list ps) ∧ ∀ v ∈ ps, ∃ t, decodeProp v = some t ∧ PropOK t.1 t.2.1 t.2.2)
    (es : List SExp) (he : propsOf d = .ok es) : ∀ e ∈ es, e.clean := by
  unfold propsOf at he
  rw [show S "EDIF.properties" = kPROPS from rfl] at he
  rcases h with hp | ⟨ps, hp, hall⟩
  · rw [hp] at he
    simp only [pure, Except.pure, Except.ok.injEq] at he
    subst he; intro e hx; cases hx
  · rw [hp] at he
    refine mapM_forall propSExp SExp.clean ps es ?_ he
    intro v hv y hy
    obtain ⟨t, ht, hok⟩ := hall v hv
    have hobj := decodeProp_obj v t ht
    rw [← hobj] at hy
    exact propSExp_clean t hok y hy

theorem instSExp_clean (libs : List CLib) (hn : NetNames libs) (L D : Nat) (i : CInst) (h : InstWF libs L D i)
    (e : SExp) (he : instSExp libs i = .ok e) : e.clean := by
  obtain ⟨li, di, l2, rd, href, h2, hrd, _⟩ := h.ref
  have hl2mem : l2 ∈ libs := List.mem_of_getElem? h2
  have hrdmem : rd ∈ l2.defs := List.mem_of_getElem? hrd
  have hdn := hn.defNamed l2 hl2mem rd hrdmem
  have hln := hn.libNamed l2 hl2mem
  unfold instSExp at he
  simp only [bind, Except.bind] at he
  cases hnm : nameSExp i.data "instance" with
  | error x => simp [hnm] at he
  | ok nm =>
    have hnmc := nameSExp_clean _ _ _ h.named "instance" nm hnm
    simp only [hnm, href, h2, hrd, needIdent, hdn.hi, hln.hi, pure, Except.pure] at he
    cases hp : propsOf i.data with
    | error x => simp [hp] at he
    | ok es =>
      have hes := propsOf_clean i.data h.props es hp
      simp only [hp, pure, Except.pure, Except.ok.injEq] at he
      subst he
      exact clean_list _ ⟨by kw, hnmc, clean_list _ ⟨by kw, by kw, clean_list _ ⟨by kw, clean_ident _ hdn.hc,
        clean_list _ ⟨by kw, clean_ident _ hln.hc, trivial⟩, trivial⟩, trivial⟩, cleanL_of_forall es hes⟩

theorem pinSExp_clean (libs : List CLib) (hn : NetNames libs) (L D : Nat) (l : CLib) (hl : libs[L]? = some l)
    (d : CDef) (hd : l.defs[D]? = some d) (hinsts : ∀ i ∈ d.insts, InstWF libs L D i)
    (pin : CPin) (h : PinWF libs d pin) (e : SExp) (he : pinSExp libs d pin = .ok e) : e.clean := by
  have hlmem : l ∈ libs := List.mem_of_getElem? hl
  have hdmem : d ∈ l.defs := List.mem_of_getElem? hd
  cases pin with
  | port pi bi =>
    obtain ⟨p, hp, _, _⟩ := h
    have hpw := hn.portWF l hlmem d hdmem p (List.mem_of_getElem? hp)
    simp only [pinSExp, hp, needIdent, hpw.named.hi, bind, Except.bind, pure, Except.pure] at he
    split at he
    · simp only [pure, Except.pure, Except.ok.injEq] at he; subst he
      exact clean_list _ ⟨by kw, clean_list _ ⟨by kw, clean_ident _ hpw.named.hc, clean_natStr _, trivial⟩, trivial⟩
    · simp only [pure, Except.pure, Except.ok.injEq] at he; subst he
      exact clean_list _ ⟨by kw, clean_ident _ hpw.named.hc, trivial⟩
  | inst ii pi bi =>
    obtain ⟨inst, li, di, l2, rd, p, hi, href, h2, hrd, hp, _, _⟩ := h
    have hiw := hinsts inst (List.mem_of_getElem? hi)
    have hl2mem : l2 ∈ libs := List.mem_of_getElem? h2
    have hrdmem : rd ∈ l2.defs := List.mem_of_getElem? hrd
    have hpw := hn.portWF l2 hl2mem rd hrdmem p (List.mem_of_getElem? hp)
    simp only [pinSExp, hi, href, h2, hrd, Option.bind_some, hp, needIdent, hpw.named.hi, hiw.named.hi, bind, Except.bind,
      pure, Except.pure, Except.ok.injEq] at he
    subst he
    refine clean_list _ ⟨by kw, ?_, clean_list _ ⟨by kw, clean_ident _ hiw.named.hc, trivial⟩, trivial⟩
    split
    · exact clean_list _ ⟨by kw, clean_ident _ hpw.named.hc, clean_natStr _, trivial⟩
    · exact clean_ident _ hpw.named.hc


theorem cableSExps_clean (libs : List CLib) (hn : NetNames libs) (L D : Nat) (l : CLib) (hl : libs[L]? = some l)
    (d : CDef) (hd : l.defs[D]? = some d) (hinsts : ∀ i ∈ d.insts, InstWF libs L D i)
    (c : CCable) (h : CableWF libs d c) (es : List SExp) (he : cableSExps libs d c = .ok es) : ∀ e ∈ es, e.clean := by
  unfold cableSExps at he
  simp only [needIdent, h.named.hi, bind, Except.bind, pure, Except.pure] at he
  refine mapM_forall _ SExp.clean _ es ?_ he
  intro x hx y hy
  obtain ⟨w, k⟩ := x
  have hmem := List.mem_zipIdx hx
  simp only [Nat.zero_add] at hmem
  have hk : k < c.wires.length := by
    have := hmem.2.1; omega
  have hw : w ∈ c.wires := by
    have := hmem.2.2
    rw [this]; exact List.getElem_mem _
  simp only [netSExp, bind, Except.bind] at hy
  -- the pins
  cases hpins : w.mapM (pinSExp libs d) with
  | error x => 
    split at hy <;> simp_all
  | ok ps =>
    have hps : ∀ e ∈ ps, e.clean := mapM_forall (pinSExp libs d) SExp.clean w ps
      (fun pin hp e' he' => pinSExp_clean libs hn L D l hl d hd hinsts pin (h.pins w hw pin hp) e' he') hpins
    by_cases hs : (decide (c.wires.length = 1) && !c.isArray) = true
    · simp only [hs, if_true] at hy
      cases hnm : nameSExp c.data "cable" with
      | error x => simp [hnm] at hy
      | ok nm =>
        have hnmc := nameSExp_clean _ _ _ h.named "cable" nm hnm
        simp only [hnm, hpins, pure, Except.pure, Except.ok.injEq] at hy
        subst hy
        exact clean_list _ ⟨by kw, hnmc, clean_list _ ⟨by kw, cleanL_of_forall ps hps⟩, trivial⟩
    · have hs' : ¬ (c.wires.length = 1 ∧ c.isArray = false) := by
        intro ⟨h1, h2⟩; apply hs; simp [h1, h2]
      obtain ⟨_, hci, hcs⟩ := h.bus_ok hs' k hk
      have hname : nameOf c.data = some (nmOf c.data) := nameOf_of_NamedOK _ _ _ h.named
      simp only [hs, Bool.false_eq_true, if_false, hname, hpins, pure, Except.pure, Except.ok.injEq] at hy
      subst hy
      exact clean_list _ ⟨by kw, clean_list _ ⟨by kw, clean_ident _ hci, clean_qtok _ hcs, trivial⟩,
        clean_list _ ⟨by kw, cleanL_of_forall ps hps⟩, trivial⟩


theorem flatten_forall {α : Type} (P : α → Prop) (xss : List (List α)) (h : ∀ xs ∈ xss, ∀ x ∈ xs, P x) :
    ∀ x ∈ xss.flatten, P x := by
  intro x hx
  obtain ⟨xs, hxs, hxm⟩ := List.mem_flatten.mp hx
  exact h xs hxs x hxm

theorem defSExp_clean (libs : List CLib) (hn : NetNames libs) (L D : Nat) (l : CLib) (hl : libs[L]? = some l)
    (d : CDef) (hd : l.defs[D]? = some d) (h : CellWF libs L D d)
    (e : SExp) (he : defSExp libs d = .ok e) : e.clean := by
  have hlmem : l ∈ libs := List.mem_of_getElem? hl
  have hdmem : d ∈ l.defs := List.mem_of_getElem? hd
  unfold defSExp at he
  simp only [bind, Except.bind] at he
  cases hnm : nameSExp d.data "definition" with
  | error x => simp [hnm] at he
  | ok nm =>
    have hnmc := nameSExp_clean _ _ _ (hn.defNamed l hlmem d hdmem) "definition" nm hnm
    simp only [hnm] at he
    cases hp : d.ports.mapM portSExp with
    | error x => simp [hp] at he
    | ok ps =>
      have hps : ∀ e ∈ ps, e.clean := mapM_forall portSExp SExp.clean d.ports ps
        (fun p hpm e' he' => portSExp_clean p (hn.portWF l hlmem d hdmem p hpm) e' he') hp
      simp only [hp] at he
      cases hi : d.insts.mapM (instSExp libs) with
      | error x => simp [hi] at he
      | ok is =>
        have his : ∀ e ∈ is, e.clean := mapM_forall (instSExp libs) SExp.clean d.insts is
          (fun i him e' he' => instSExp_clean libs hn L D i (h.insts i him) e' he') hi
        simp only [hi] at he
        cases hc : d.cables.mapM (cableSExps libs d) with
        | error x => simp [hc] at he
        | ok css =>
          have hcs : ∀ es ∈ css, ∀ e ∈ es, e.clean := mapM_forall (cableSExps libs d) (fun es => ∀ e ∈ es, e.clean) d.cables css
            (fun c hcm es' hes' => cableSExps_clean libs hn L D l hl d hd h.insts c (h.cables c hcm) es' hes') hc
          simp only [hc, pure, Except.pure, Except.ok.injEq] at he
          subst he
          have hcont : cleanL (if d.insts.length + d.cables.length > 0 then
              [SExp.list (A "contents" :: (is ++ css.flatten))] else []) := by
            split
            · exact ⟨clean_list _ ⟨by kw, cleanL_append _ _ (cleanL_of_forall is his)
                (cleanL_of_forall _ (flatten_forall SExp.clean css hcs))⟩, trivial⟩
            · trivial
          exact clean_list _ ⟨by kw, hnmc, clean_list _ ⟨by kw, by kw, trivial⟩,
            clean_list _ ⟨by kw, by kw, clean_list _ ⟨by kw, by kw, trivial⟩,
              clean_list _ ⟨by kw, cleanL_of_forall ps hps⟩, hcont⟩, trivial⟩

theorem libSExp_clean (libs : List CLib) (hn : NetNames libs) (L : Nat) (l : CLib) (hl : libs[L]? = some l)
    (hcells : ∀ D d, l.defs[D]? = some d → CellWF libs L D d)
    (e : SExp) (he : libSExp libs l = .ok e) : e.clean := by
  have hlmem : l ∈ libs := List.mem_of_getElem? hl
  unfold libSExp at he
  simp only [bind, Except.bind] at he
  cases hnm : nameSExp l.data "library" with
  | error x => simp [hnm] at he
  | ok nm =>
    have hnmc := nameSExp_clean _ _ _ (hn.libNamed l hlmem) "library" nm hnm
    simp only [hnm] at he
    cases hc : l.defs.mapM (defSExp libs) with
    | error x => simp [hc] at he
    | ok cs =>
      have hcs : ∀ e ∈ cs, e.clean := by
        refine mapM_forall (defSExp libs) SExp.clean l.defs cs ?_ hc
        intro d hdm e' he'
        obtain ⟨D, hD, hDe⟩ := List.getElem_of_mem hdm
        have hget : l.defs[D]? = some d := by rw [List.getElem?_eq_getElem hD, hDe]
        exact defSExp_clean libs hn L D l hl d hget (hcells D d hget) e' he'
      simp only [hc, pure, Except.pure, Except.ok.injEq] at he
      subst he
      exact clean_list _ ⟨by kw, hnmc, clean_list _ ⟨by kw, by kw, trivial⟩,
        clean_list _ ⟨by kw, clean_list _ ⟨by kw, trivial⟩, trivial⟩, cleanL_of_forall cs hcs⟩


theorem statusSExp_clean (Dn : Data) (prog ver : Option Str) (y mo d h mi s : Nat) (hok : StatusOK Dn prog ver)
    (e : SExp) (he : statusSExp [y, mo, d, h, mi, s] Dn = .ok e) : e.clean := by
  obtain ⟨r, hr, _⟩ := status_roundtrip Dn prog ver y mo d h mi s hok
  rw [he] at hr
  cases hr
  have hts : (SExp.list [A "timeStamp", .atom (natStr y), .atom (pad2 mo), .atom (pad2 d), .atom (pad2 h),
      .atom (pad2 mi), .atom (pad2 s)]).clean :=
    clean_list _ ⟨by kw, clean_natStr _, clean_pad2 _, clean_pad2 _, clean_pad2 _, clean_pad2 _, clean_pad2 _, trivial⟩
  have hcm : (SExp.list [A "comment", qtok builtBy]).clean := clean_list _ ⟨by kw, clean_qtok _ builtBy_ok, trivial⟩
  have hkp : S "EDIF.status.written.program" = kPROG := rfl
  have hkver : S "EDIF.status.written.program.version" = kVER := rfl
  -- recompute the shape
  cases prog with
  | none =>
    have hp : Dn.get? kPROG = none := by simpa using hok.hp
    have : statusSExp [y, mo, d, h, mi, s] Dn = .ok (.list (A "status" :: statusTail y mo d h mi s [])) := by
      simp only [statusSExp, hkp, hp, List.map_cons, List.map_nil, List.append_nil, List.nil_append, List.cons_append, bind,
        Except.bind, pure, Except.pure]
      rfl
    rw [he] at this
    cases this
    exact clean_list _ ⟨by kw, clean_list _ ⟨by kw, hts, hcm, trivial⟩, trivial⟩
  | some p =>
    have hps := hok.hps p rfl
    have hp : Dn.get? kPROG = some (.str p) := by simpa using hok.hp
    cases ver with
    | none =>
      have hv : Dn.get? kVER = none := by simpa using hok.hv rfl
      have : statusSExp [y, mo, d, h, mi, s] Dn = .ok (.list (A "status" :: statusTail y mo d h mi s [.list [A "program", qtok p]])) := by
        simp only [statusSExp, hkp, hkver, hp, hv, List.map_cons, List.map_nil, List.append_nil, List.nil_append,
          List.cons_append, bind, Except.bind, pure, Except.pure]
        rfl
      rw [he] at this
      cases this
      exact clean_list _ ⟨by kw, clean_list _ ⟨by kw, hts, clean_list _ ⟨by kw, clean_qtok p hps, trivial⟩, hcm, trivial⟩, trivial⟩
    | some v =>
      have hvs := hok.hvs v rfl
      have hv : Dn.get? kVER = some (.str v) := by simpa using hok.hv rfl
      have : statusSExp [y, mo, d, h, mi, s] Dn = .ok (.list (A "status" :: statusTail y mo d h mi s
          [.list [A "program", qtok p, .list [A "version", qtok v]]])) := by
        simp only [statusSExp, hkp, hkver, hp, hv, List.map_cons, List.map_nil, List.append_nil, List.nil_append,
          List.cons_append, bind, Except.bind, pure, Except.pure]
        rfl
      rw [he] at this
      cases this
      exact clean_list _ ⟨by kw, clean_list _ ⟨by kw, hts, clean_list _ ⟨by kw, clean_qtok p hps,
        clean_list _ ⟨by kw, clean_qtok v hvs, trivial⟩, trivial⟩, hcm, trivial⟩, trivial⟩

/-- **toSExp_clean**: inside the quantifier the writer's expression is clean — identifiers are
    `[0-9A-Za-z_&]`, names and strings printable without a double quote — so `lex_layout` applies -/
theorem toSExp_clean (n : CNetlist) (prog ver : Option Str) (t : CInst) (li di : Nat) (y mo d h mi s : Nat)
    (hwf : WFNet n prog ver t li di) (e : SExp)
    (he : toSExp [y, mo, d, h, mi, s] n = .ok e) : e.clean := by
  obtain ⟨l, dd, hl, hd⟩ := hwf.ttarget
  have hlmem : l ∈ n.libs := List.mem_of_getElem? hl
  have hdmem : dd ∈ l.defs := List.mem_of_getElem? hd
  have hdn := hwf.names.defNamed l hlmem dd hdmem
  have hln := hwf.names.libNamed l hlmem
  unfold toSExp at he
  simp only [bind, Except.bind] at he
  cases hnm : nameSExp n.data "netlist" with
  | error x => simp [hnm] at he
  | ok nm =>
    have hnmc := nameSExp_clean _ _ _ hwf.named "netlist" nm hnm
    simp only [hnm] at he
    cases hst : statusSExp [y, mo, d, h, mi, s] n.data with
    | error x => simp [hst] at he
    | ok st =>
      have hstc := statusSExp_clean n.data prog ver y mo d h mi s hwf.status st hst
      simp only [hst] at he
      cases hls : n.libs.mapM (libSExp n.libs) with
      | error x => simp [hls] at he
      | ok ls =>
        have hlc : ∀ e ∈ ls, e.clean := by
          refine mapM_forall (libSExp n.libs) SExp.clean n.libs ls ?_ hls
          intro l2 hl2 e' he'
          obtain ⟨L, hL, hLe⟩ := List.getElem_of_mem hl2
          have hget : n.libs[L]? = some l2 := by rw [List.getElem?_eq_getElem hL, hLe]
          exact libSExp_clean n.libs hwf.names L l2 hget (hwf.cells L l2 hget) e' he'
        simp only [hls, hwf.top] at he
        cases htn : nameSExp t.data "top instance" with
        | error x => simp [htn] at he
        | ok tn =>
          have htnc := nameSExp_clean _ _ _ hwf.tnamed "top instance" tn htn
          simp only [htn, hwf.tref, hl, hd, needIdent, hdn.hi, hln.hi, pure, Except.pure, Except.ok.injEq] at he
          subst he
          refine clean_list _ ?_
          simp only [List.cons_append, List.nil_append]
          refine ⟨by kw, hnmc, clean_list _ ⟨by kw, by kw, by kw, by kw, trivial⟩, clean_list _ ⟨by kw, by kw, trivial⟩,
            clean_list _ ⟨by kw, clean_list _ ⟨by kw, by kw, trivial⟩, trivial⟩, hstc, ?_⟩
          exact cleanL_append _ _ (cleanL_of_forall ls hlc)
            ⟨clean_list _ ⟨by kw, htnc, clean_list _ ⟨by kw, clean_ident _ hdn.hc,
              clean_list _ ⟨by kw, clean_ident _ hln.hc, trivial⟩, trivial⟩, trivial⟩, trivial⟩

end Spydr.Edif
