/-
  Instances: properties, cellRef/libraryRef/viewRef resolution, and what the reader makes of the
  writer's `(instance …)`.
-/
import Spydr.Edif.LemmasCable
namespace Spydr.Edif

theorem intTok_intStr (i : Int) : intTok (intStr i) = IntTok.ok i := by
  cases i with
  | ofNat n => simpa [intStr] using intTok_natStr n
  | negSucc n =>
    have hne := natStr_ne_nil (n + 1)
    have hall := all_digits_natStr (n + 1)
    have hv := ofDigits_natStr (n + 1)
    cases hs : natStr (n + 1) with
    | nil => exact absurd hs hne
    | cons c cs =>
      have hc : isAsciiDigit c = true := natStr_digits (n + 1) c (by rw [hs]; simp)
      rw [hs] at hall hv
      simp only [intStr, hs, intTok, intBody, hc, Bool.not_true, Bool.false_eq_true, if_false, hall, if_true, hv]
      rfl

theorem intOfS_intStr (i : Int) : intOfS (.atom (intStr i)) = .ok i := by
  simp [intOfS, intTok_intStr, pure, Except.pure]

/-! dictionary erase -/
theorem Data.erase_of_not_has (d : Data) (k : Str) (h : d.has k = false) : d.erase k = d := by
  induction d with
  | nil => rfl
  | cons a r ih =>
    obtain ⟨k', v'⟩ := a
    simp only [Data.has, Data.get?] at h
    by_cases hk : k' = k
    · simp [hk] at h
    · simp only [hk, if_false] at h
      simp only [Data.erase, List.filter_cons, ne_eq, hk, not_false_eq_true, decide_true, if_true]
      have := ih (by simpa [Data.has] using h)
      simp only [Data.erase] at this
      rw [this]

theorem Data.erase_set_of_not_has (d : Data) (k : Str) (v : Val) (h : d.has k = false) : (d.set k v).erase k = d := by
  induction d with
  | nil => simp [Data.set, Data.erase]
  | cons a r ih =>
    obtain ⟨k', v'⟩ := a
    simp only [Data.has, Data.get?] at h
    by_cases hk : k' = k
    · simp [hk] at h
    · simp only [hk, if_false] at h
      simp only [Data.set, hk, if_false, Data.erase, List.filter_cons, ne_eq, not_false_eq_true, decide_true, if_true]
      have := ih (by simpa [Data.has] using h)
      simp only [Data.erase] at this
      rw [this]

theorem Data.has_set_other (d : Data) (k k2 : Str) (v : Val) (h : k2 ≠ k) : (d.set k v).has k2 = d.has k2 := by
  simp [Data.has, Data.get?_set_other d k k2 v h]

theorem Data.erase_set_comm (d : Data) (k k2 : Str) (v : Val) (h : k2 ≠ k) : (d.set k v).erase k2 = (d.erase k2).set k v := by
  induction d with
  | nil => simp [Data.set, Data.erase, h.symm]
  | cons a r ih =>
    obtain ⟨k', v'⟩ := a
    by_cases h1 : k' = k
    · subst h1
      simp [Data.set, Data.erase, List.filter_cons, h.symm]
    · by_cases h2 : k' = k2
      · subst h2
        simp only [Data.set, h1, if_false, Data.erase, List.filter_cons, ne_eq, not_true_eq_false, decide_false,
          Bool.false_eq_true]
        simpa [Data.erase] using ih
      · simp only [Data.set, h1, if_false, Data.erase, List.filter_cons, ne_eq, h2, not_false_eq_true, decide_true, if_true]
        have := ih
        simp only [Data.erase] at this
        rw [this]

/-! ### properties -/

/-- the canonical form of a property dictionary (keys in the order canon / the reader produce) -/
def propKV (ident : Str) (orig : Option Str) (v : Val) : List (Str × Val) :=
  [(S "identifier", .str ident)] ++
    (match orig with | some o => [(S "original_identifier", Val.str o)] | none => []) ++ [(S "value", v)]

structure PropOK (ident : Str) (orig : Option Str) (v : Val) : Prop where
  hc : checkEdifIdentifier ident = true
  horig : ∀ o, orig = some o → o.all isStringChar = true
  hval : (∃ s, v = .str s ∧ s.all isStringChar = true) ∨ (∃ b, v = .bool b) ∨ (∃ i, v = .int i)

theorem PropOK.hid {ident : Str} {orig : Option Str} {v : Val} (h : PropOK ident orig v) :
    validIdentTok ident = true := validIdentTok_of_check _ h.hc

def kPROPS : Str := S "EDIF.properties"
def kPID : Str := S "EDIF.properties.identifier"
def kPORIG : Str := S "EDIF.properties.original_identifier"

/-- appending one property to an element dictionary -/
def addProp (d : Data) (p : Val) : Data :=
  match d.get? kPROPS with
  | some (.list xs) => d.set kPROPS (.list (xs ++ [p]))
  | _ => d.set kPROPS (.list [p])

theorem typedValue_string (s : Str) (h : s.all isStringChar = true) :
    typedValue [A "string", qtok s] = .ok (.str s) := by
  have h1 : headIs [A "string", qtok s] "boolean" = false := by rw [headIs_cons]; decide
  have h2 : headIs [A "string", qtok s] "integer" = false := by rw [headIs_cons]; decide
  have h3 : headIs [A "string", qtok s] "minomax" = false := by rw [headIs_cons]; decide
  have h4 : headIs [A "string", qtok s] "number" = false := by rw [headIs_cons]; decide
  have h5 : headIs [A "string", qtok s] "point" = false := by rw [headIs_cons]; decide
  have h6 : headIs [A "string", qtok s] "string" = true := by rw [headIs_cons]; decide
  simp [typedValue, h1, h2, h3, h4, h5, h6, stringTok_qtok s h, bind, Except.bind, pure, Except.pure]

theorem typedValue_integer (i : Int) : typedValue [A "integer", .atom (intStr i)] = .ok (.int i) := by
  have h1 : headIs [A "integer", SExp.atom (intStr i)] "boolean" = false := by rw [headIs_cons]; decide
  have h2 : headIs [A "integer", SExp.atom (intStr i)] "integer" = true := by rw [headIs_cons]; decide
  simp [typedValue, h1, h2, intOfS_intStr, bind, Except.bind, pure, Except.pure]

theorem typedValue_bool_atom (t : Str) :
    typedValue [A "boolean", .list [.atom t]] =
      (if lower t == S "true" then .ok (.bool true)
       else if lower t == S "false" then .ok (.bool false) else .error (.syntax "expecting true|false")) := by
  have h1 : headIs [A "boolean", SExp.list [SExp.atom t]] "boolean" = true := by rw [headIs_cons]; decide
  simp only [typedValue, h1, if_true, pure, Except.pure, throw, throwThe, MonadExceptOf.throw]

theorem typedValue_boolean (b : Bool) :
    typedValue [A "boolean", .list [A (if b then "True" else "False")]] = .ok (.bool b) := by
  cases b with
  | true =>
    show typedValue [A "boolean", .list [.atom "True".toList]] = _
    rw [typedValue_bool_atom]
    have h2 : (lower "True".toList == S "true") = true := by decide
    rw [if_pos h2]
  | false =>
    show typedValue [A "boolean", .list [.atom "False".toList]] = _
    rw [typedValue_bool_atom]
    have h2 : (lower "False".toList == S "true") = false := by decide
    have h3 : (lower "False".toList == S "false") = true := by decide
    rw [if_neg (by rw [h2]; decide), if_pos h3]

theorem joinDot_pid : joinDot [S "EDIF", S "properties", S "identifier"] = kPID := by decide
theorem joinDot_porig : joinDot [S "EDIF", S "properties", S "original_identifier"] = kPORIG := by decide
theorem joinDot_props : joinDot [S "EDIF", S "properties"] = kPROPS := by decide
theorem kPID_ne1 : kPID ≠ S "EDIF.original_identifier" := by decide
theorem kPID_ne2 : kPID ≠ kIDENT := by decide
theorem kPORIG_ne1 : kPORIG ≠ S "EDIF.original_identifier" := by decide
theorem kPORIG_ne2 : kPORIG ≠ kIDENT := by decide
theorem kPORIG_ne_kPID : kPORIG ≠ kPID := by decide

theorem setAttr_pid (D : Data) (v : Val) :
    setAttr { data := D, pfx := [S "EDIF", S "properties", S "identifier"] } v =
      .ok { data := D.set kPID v, pfx := [S "EDIF", S "properties", S "identifier"] } := by
  simp only [setAttr, key_mk, joinDot_pid, kPID_ne1, kPID_ne2, if_false, pure, Except.pure]

theorem setAttr_porig (D : Data) (v : Val) :
    setAttr { data := D, pfx := [S "EDIF", S "properties", S "original_identifier"] } v =
      .ok { data := D.set kPORIG v, pfx := [S "EDIF", S "properties", S "original_identifier"] } := by
  simp only [setAttr, key_mk, joinDot_porig, kPORIG_ne1, kPORIG_ne2, if_false, pure, Except.pure]

theorem appendAttr_props (D : Data) (p : Val) :
    appendAttr { data := D, pfx := [S "EDIF", S "properties"] } p = { data := addProp D p, pfx := [S "EDIF", S "properties"] } := by
  unfold appendAttr addProp
  simp only [key_mk, joinDot_props]
  split <;> simp_all

/-- the s-expression of the typed value and what the reader makes of it -/
theorem typedValue_of_val (v : Val) (h : (∃ s, v = .str s ∧ s.all isStringChar = true) ∨ (∃ b, v = .bool b) ∨ (∃ i, v = .int i)) :
    ∃ tv, valSExp v = .ok (.list tv) ∧ typedValue tv = .ok v := by
  rcases h with ⟨s, rfl, hs⟩ | ⟨b, rfl⟩ | ⟨i, rfl⟩
  · exact ⟨_, rfl, typedValue_string s hs⟩
  · exact ⟨_, rfl, typedValue_boolean b⟩
  · exact ⟨_, rfl, typedValue_integer i⟩

/-- **prop_roundtrip**: `(property …)` written for a canonical property dictionary is read back as
    that dictionary, appended to the element's EDIF.properties -/
theorem prop_roundtrip (ident : Str) (orig : Option Str) (v : Val) (h : PropOK ident orig v) :
    ∃ r, propSExp (.obj (propKV ident orig v)) = .ok (.list (A "property" :: r)) ∧
      ∀ D : Data, D.has kPID = false → D.has kPORIG = false →
        parseProperty { data := D, pfx := [S "EDIF"] } (A "property" :: r) =
          .ok { data := addProp D (.obj (propKV ident orig v)), pfx := [S "EDIF"] } := by
  obtain ⟨tv, htv, hread⟩ := typedValue_of_val v h.hval
  have hne1 : S "value" ≠ S "identifier" := by decide
  have hne2 : S "original_identifier" ≠ S "identifier" := by decide
  have hne3 : S "value" ≠ S "original_identifier" := by decide
  cases orig with
  | none =>
    refine ⟨[.atom ident, .list tv], ?_, ?_⟩
    · simp only [propSExp, propKV, List.append_nil, List.cons_append, List.nil_append, Data.get?, if_true, hne1.symm,
        hne2.symm, hne3.symm, hne1, if_false, bind, Except.bind, htv, pure, Except.pure]
      simp [hne3]
    · intro D h1 h2
      simp only [parseProperty, List.tail_cons, propLike, push_mk, List.cons_append, List.nil_append, nameDef, identOfS,
        h.hid, if_true, bind, Except.bind, pure, Except.pure, setAttr_pid, pop_mk, List.dropLast, joinDot_pid,
        joinDot_porig, Data.get?_set_self, Data.get?_set_other _ _ _ _ kPORIG_ne_kPID]
      have h2' : D.get? kPORIG = none := by simpa [Data.has] using h2
      simp only [h2', Data.erase_set_of_not_has D kPID _ h1, hread, appendAttr_props, loopC, endC, propKV,
        List.append_nil, List.cons_append, List.nil_append, pure, Except.pure, bind, Except.bind]
      rfl
  | some o =>
    have ho := h.horig o rfl
    refine ⟨[.list [A "rename", .atom ident, qtok o], .list tv], ?_, ?_⟩
    · simp only [propSExp, propKV, List.cons_append, List.nil_append, Data.get?, if_true, hne1.symm,
        hne2.symm, hne3.symm, hne1, hne3, if_false, bind, Except.bind, htv, pure, Except.pure]
    · intro D h1 h2
      have hr : isKw (A "rename") "rename" = true := by decide
      simp only [parseProperty, List.tail_cons, propLike, push_mk, List.cons_append, List.nil_append, nameDef, parseRename,
        hr, identOfS, h.hid, if_true, bind, Except.bind, pure, Except.pure, setAttr_pid, setAttr_porig, pop_mk,
        List.dropLast, joinDot_pid, joinDot_porig, stringTok_qtok o ho, Data.get?_set_self,
        Data.get?_set_other _ _ _ _ kPORIG_ne_kPID.symm]
      have e1 : (((D.set kPID (.str ident)).set kPORIG (.str o)).erase kPID).erase kPORIG = D := by
        rw [Data.erase_set_comm _ _ _ _ kPORIG_ne_kPID.symm, Data.erase_set_of_not_has D kPID _ h1,
          Data.erase_set_of_not_has D kPORIG _ h2]
      simp only [e1, hread, appendAttr_props, loopC, endC, propKV, List.cons_append, List.nil_append, pure, Except.pure,
        bind, Except.bind]
      rfl

theorem Data.set_set (d : Data) (k : Str) (a b : Val) : (d.set k a).set k b = d.set k b := by
  induction d with
  | nil => simp [Data.set]
  | cons x r ih =>
    obtain ⟨k', v'⟩ := x
    by_cases h : k' = k
    · simp [Data.set, h]
    · simp [Data.set, h, ih]

abbrev PropT := Str × Option Str × Val
def PropT.obj (t : PropT) : Val := .obj (propKV t.1 t.2.1 t.2.2)

/-- the dictionary after reading the properties `ps` into `D` (which has none yet) -/
def withProps (D : Data) (ps : List PropT) : Data :=
  match ps with
  | [] => D
  | _ => D.set kPROPS (.list (ps.map PropT.obj))

theorem kPROPS_ne_kPID : kPROPS ≠ kPID := by decide
theorem kPROPS_ne_kPORIG : kPROPS ≠ kPORIG := by decide

/-- reading a block of property constructs -/
theorem props_roundtrip (ps : List PropT) (hok : ∀ t ∈ ps, PropOK t.1 t.2.1 t.2.2) :
    ∃ es : List SExp, (ps.map PropT.obj).mapM propSExp = .ok es ∧
      ∀ (D : Data) (acc : List PropT), D.has kPID = false → D.has kPORIG = false → D.get? kPROPS = none →
        loopC instItem { data := withProps D acc, pfx := [S "EDIF"] } es =
          .ok ({ data := withProps D (acc ++ ps), pfx := [S "EDIF"] }, []) := by
  induction ps with
  | nil => exact ⟨[], rfl, by intro D acc _ _ _; simp [loopC, pure, Except.pure]⟩
  | cons t r ih =>
    obtain ⟨ident, orig, v⟩ := t
    obtain ⟨x, hw, hr⟩ := prop_roundtrip ident orig v (hok (ident, orig, v) (by simp))
    obtain ⟨es, hes, hl⟩ := ih (fun t ht => hok t (by simp [ht]))
    refine ⟨.list (A "property" :: x) :: es, ?_, ?_⟩
    · simp [List.mapM_cons, PropT.obj, hw, hes, bind, Except.bind, pure, Except.pure]
    · intro D acc h1 h2 h3
      have hh : headIs (A "property" :: x) "property" = true := by rw [headIs_cons]; decide
      have hp1 : (withProps D acc).has kPID = false := by
        cases acc with
        | nil => simpa [withProps] using h1
        | cons a b => simp only [withProps]; rw [Data.has_set_other _ _ _ _ kPROPS_ne_kPID.symm]; exact h1
      have hp2 : (withProps D acc).has kPORIG = false := by
        cases acc with
        | nil => simpa [withProps] using h2
        | cons a b => simp only [withProps]; rw [Data.has_set_other _ _ _ _ kPROPS_ne_kPORIG.symm]; exact h2
      have hadd : addProp (withProps D acc) (.obj (propKV ident orig v)) = withProps D (acc ++ [(ident, orig, v)]) := by
        cases acc with
        | nil => simp [withProps, addProp, h3, PropT.obj]
        | cons a b =>
          simp only [withProps, addProp, Data.get?_set_self, Data.set_set, List.cons_append]
          simp [PropT.obj]
      simp only [loopC, instItem, hh, if_true, hr _ hp1 hp2, hadd, bind, Except.bind]
      have := hl D (acc ++ [(ident, orig, v)]) h1 h2 h3
      simpa using this

/-! ### instances -/

theorem joinDot_libref_ne1 : joinDot [S "EDIF", S "viewRef", S "cellRef", S "libraryRef", S "identifier"] ≠ S "EDIF.original_identifier" := by decide
theorem joinDot_libref_ne2 : joinDot [S "EDIF", S "viewRef", S "cellRef", S "libraryRef", S "identifier"] ≠ kIDENT := by decide

/-- how the reader resolves a libraryRef spelled `lid` to library index `li` in scope `sc` -/
def LibResolves (sc : Scope) (lid : Str) (li : Nat) : Prop :=
  ∃ cur, identOf sc.curLib = some cur ∧
    (if lower cur == lower lid then li = sc.libs.length else findIdent (sc.libs.map (·.data)) lid = some li)

theorem parseLibraryRef_ok (sc : Scope) (D : Data) (lid : Str) (li : Nat) (hv : validIdentTok lid = true)
    (hres : LibResolves sc lid li) :
    parseLibraryRef sc { data := D, pfx := [S "EDIF", S "viewRef", S "cellRef"] } [A "libraryref", .atom lid] = .ok li := by
  obtain ⟨cur, hcur, hif⟩ := hres
  simp only [parseLibraryRef, nameRef, identOfS, hv, if_true, push_mk, List.cons_append, List.nil_append, setAttr, key_mk,
    joinDot_libref_ne1, joinDot_libref_ne2, if_false, bind, Except.bind, pure, Except.pure, hcur]
  by_cases hc : (lower cur == lower lid) = true
  · simp only [hc, if_true] at hif ⊢
    rw [hif]
  · simp only [hc, if_false, Bool.false_eq_true] at hif ⊢
    simp [hif]

theorem parseCellRef_ok (sc : Scope) (D : Data) (did lid : Str) (li di : Nat)
    (hvd : validIdentTok did = true) (hvl : validIdentTok lid = true) (hres : LibResolves sc lid li)
    (hf : findIdent ((defsOfLib sc li).map (·.data)) did = some di) :
    parseCellRef sc { data := D, pfx := [S "EDIF", S "viewRef"] }
      [A "cellref", .atom did, .list [A "libraryref", .atom lid]] = .ok (li, di) := by
  have h1 : headIs [A "cellref", SExp.atom did, SExp.list [A "libraryref", SExp.atom lid]] "cellref" = true := by
    rw [headIs_cons]; decide
  have h2 : headIs [A "libraryref", SExp.atom lid] "libraryref" = true := by rw [headIs_cons]; decide
  simp only [parseCellRef, h1, Bool.not_true, Bool.false_eq_true, if_false, List.tail_cons, identOfS, hvd, if_true, h2,
    push_mk, List.cons_append, List.nil_append, parseLibraryRef_ok sc D lid li hvl hres, hf, bind, Except.bind, pure,
    Except.pure]

theorem parseViewRef_ok (sc : Scope) (D : Data) (did lid : Str) (li di : Nat) (d' : CDef) (dv : Str)
    (hvd : validIdentTok did = true) (hvl : validIdentTok lid = true) (hres : LibResolves sc lid li)
    (hf : findIdent ((defsOfLib sc li).map (·.data)) did = some di)
    (hd : (defsOfLib sc li)[di]? = some d') (hview : viewIdentOf d'.data = some dv) (hdv : lower dv = S "netlist") :
    parseViewRef sc { data := D, pfx := [S "EDIF"] }
      [A "viewref", A "netlist", .list [A "cellref", .atom did, .list [A "libraryref", .atom lid]]] = .ok (li, di) := by
  have hn : identOfS (A "netlist") = .ok "netlist".toList := identOfS_atom _ (by decide)
  have hl : (lower dv == lower "netlist".toList) = true := by rw [hdv]; decide
  simp only [parseViewRef, List.tail_cons, hn, push_mk, List.cons_append, List.nil_append,
    parseCellRef_ok sc D did lid li di hvd hvl hres hf, hd, hview, hl, if_true, bind, Except.bind, pure, Except.pure]

structure InstOK (libs : List CLib) (sc : Scope) (i : CInst) (ident name : Str) (ps : List PropT) (li di : Nat) : Prop where
  named : NamedOK i.data ident name
  ref : i.ref = some (li, di)
  target : ∃ l rd did lid d' dv, libs[li]? = some l ∧ l.defs[di]? = some rd ∧
    identOf rd.data = some did ∧ identOf l.data = some lid ∧ validIdentTok did = true ∧ validIdentTok lid = true ∧
    LibResolves sc lid li ∧ findIdent ((defsOfLib sc li).map (·.data)) did = some di ∧
    (defsOfLib sc li)[di]? = some d' ∧ viewIdentOf d'.data = some dv ∧ lower dv = S "netlist"
  props : (i.data.get? kPROPS = some (.list (ps.map PropT.obj)) ∨ (i.data.get? kPROPS = none ∧ ps = [])) ∧
    ∀ t ∈ ps, PropOK t.1 t.2.1 t.2.2

/-- the instance the reader builds from the writer's `(instance …)` -/
def readInst (ident name : Str) (ps : List PropT) (li di : Nat) : CInst :=
  { data := withProps (withName [] ident name) ps, ref := some (li, di) }

theorem withName_nil_has (ident name k : Str) (h1 : k ≠ kNAME) (h2 : k ≠ kIDENT) :
    (withName [] ident name).has k = false := by
  simp [Data.has, get?_withName_other [] ident name k h1 h2, Data.get?]

/-- **inst_roundtrip** -/
theorem inst_roundtrip (libs : List CLib) (sc : Scope) (i : CInst) (ident name : Str) (ps : List PropT) (li di : Nat)
    (h : InstOK libs sc i ident name ps li di) :
    ∃ r, instSExp libs i = .ok (.list (A "instance" :: r)) ∧
      parseInstance sc (A "instance" :: r) = .ok (readInst ident name ps li di) := by
  obtain ⟨l, rd, did, lid, d', dv, hl, hrd, hdid, hlid, hvd, hvl, hres, hf, hd', hview, hdv⟩ := h.target
  obtain ⟨nm, hnm, _, hdef⟩ := nameDef_nameSExp i.data ident name h.named "instance"
  obtain ⟨es, hes, hloop⟩ := props_roundtrip ps h.props.2
  have hprops : propsOf i.data = .ok es := by
    unfold propsOf
    rcases h.props.1 with hp | ⟨hp, hnil⟩
    · rw [show S "EDIF.properties" = kPROPS from rfl, hp]; exact hes
    · subst hnil
      rw [show S "EDIF.properties" = kPROPS from rfl, hp]
      simpa using hes
  refine ⟨nm :: .list [A "viewref", A "netlist", .list [A "cellref", .atom did, .list [A "libraryref", .atom lid]]] :: es, ?_, ?_⟩
  · simp [instSExp, hnm, h.ref, hl, hrd, needIdent, hdid, hlid, hprops, bind, Except.bind, pure, Except.pure]
  · have hvr : headIs [A "viewref", A "netlist", SExp.list [A "cellref", SExp.atom did, SExp.list [A "libraryref", SExp.atom lid]]] "viewref" = true := by
      rw [headIs_cons]; decide
    have hk1 : (withName [] ident name).has kPID = false := withName_nil_has _ _ _ (by decide) (by decide)
    have hk2 : (withName [] ident name).has kPORIG = false := withName_nil_has _ _ _ (by decide) (by decide)
    have hk3 : (withName [] ident name).get? kPROPS = none := by
      rw [get?_withName_other [] ident name kPROPS (by decide) (by decide)]; rfl
    have hlp := hloop (withName [] ident name) [] hk1 hk2 hk3
    rw [show withProps (withName [] ident name) [] = withName [] ident name from rfl, List.nil_append] at hlp
    simp only [parseInstance, List.tail_cons, Meta.new, hdef [] _ rfl, hvr, if_true,
      parseViewRef_ok sc _ did lid li di d' dv hvd hvl hres hf hd' hview hdv, hlp, endC, readInst, bind, Except.bind,
      pure, Except.pure]





/-! ### the port list and the instance list of a cell -/

def readPort1 (p : CPort) : CPort := readPort p (idOf p.data) (nmOf p.data)

theorem identOf_readPort (p : CPort) (ident name : Str) : identOf (readPort p ident name).data = some ident := by
  have hne : kIDENT ≠ S "metadata_prefix" := by decide
  simp [readPort, identOf, Data.getStr?, Data.get?_set_other _ _ _ _ hne]
  have := identOf_withName [] ident name
  simpa [identOf, Data.getStr?] using this

theorem nameOf_readPort (p : CPort) (ident name : Str) : nameOf (readPort p ident name).data = some name := by
  have hne : kNAME ≠ S "metadata_prefix" := by decide
  simp [readPort, nameOf, Data.getStr?, Data.get?_set_other _ _ _ _ hne]
  have := nameOf_withName [] ident name
  simpa [nameOf, Data.getStr?] using this

def PortsOK : List (Str × Str) → List CPort → Prop
  | _, [] => True
  | prev, p :: r => NamedOK p.data (idOf p.data) (nmOf p.data) ∧ 1 ≤ p.width ∧ (p.isArray = false → p.width = 1) ∧
      FreshIn prev (idOf p.data) (nmOf p.data) ∧ PortsOK ((idOf p.data, nmOf p.data) :: prev) r

theorem ports_roundtrip (ps : List CPort) (prev : List (Str × Str)) (st : CellSt) (hd : Bool)
    (hok : PortsOK prev ps) (hk : KnownBy prev (st.ports.map (·.data))) :
    ∃ yss : List (List SExp), ps.mapM portSExp = .ok (yss.map SExp.list) ∧
      yss.foldlM ifaceItem (st, hd) = .ok ({ st with ports := st.ports ++ ps.map readPort1 }, hd) := by
  induction ps generalizing prev st with
  | nil => exact ⟨[], rfl, by simp [pure, Except.pure]⟩
  | cons p r ih =>
    obtain ⟨hn, hw, hsc, hfresh, hrest⟩ := hok
    obtain ⟨e, ys, hw1, he, hrd⟩ := port_roundtrip p (idOf p.data) (nmOf p.data) hn hw hsc
    subst he
    have hport : ∃ t, ys = A "port" :: t := by
      unfold portSExp at hw1
      simp only [bind, Except.bind] at hw1
      split at hw1
      · cases hw1
      · split at hw1 <;> (simp only [pure, Except.pure, Except.ok.injEq, SExp.list.injEq] at hw1; exact ⟨_, hw1.symm⟩)
    obtain ⟨t, ht⟩ := hport
    have hh : headIs ys "port" = true := by rw [ht, headIs_cons]; decide
    have hconf : conflicts (st.ports.map (·.data)) (readPort p (idOf p.data) (nmOf p.data)).data = false :=
      conflicts_false_of_fresh _ _ _ _ (identOf_readPort _ _ _) (nameOf_readPort _ _ _)
        (findName_none_of_fresh prev _ _ _ hk hfresh) (findIdent_none_of_fresh prev _ _ _ hk hfresh)
    have hstep : ifaceItem (st, hd) ys = .ok ({ st with ports := st.ports ++ [readPort1 p] }, hd) := by
      simp only [ifaceItem, hh, if_true, hrd, hconf, Bool.false_eq_true, if_false, bind, Except.bind, pure, Except.pure,
        readPort1]
    have hk' : KnownBy ((idOf p.data, nmOf p.data) :: prev)
        (({ st with ports := st.ports ++ [readPort1 p] } : CellSt).ports.map (·.data)) := by
      simp only [List.map_append, List.map_cons, List.map_nil]
      exact KnownBy_append prev _ _ _ _ hk (identOf_readPort _ _ _) (nameOf_readPort _ _ _)
    obtain ⟨yss, hws, hfs⟩ := ih _ { st with ports := st.ports ++ [readPort1 p] } hrest hk'
    refine ⟨ys :: yss, ?_, ?_⟩
    · simp [List.mapM_cons, hw1, hws, bind, Except.bind, pure, Except.pure]
    · simp only [List.foldlM_cons, hstep, bind, Except.bind]
      rw [hfs]
      simp





/-- per-instance witnesses: identifier, name, properties, referenced (library, definition) -/
structure IW where
  ident : Str
  name : Str
  ps : List PropT
  li : Nat
  di : Nat

def IW.read (w : IW) : CInst := readInst w.ident w.name w.ps w.li w.di

def InstsOK (libs : List CLib) (sc : Scope) : List (Str × Str) → List CInst → List IW → Prop
  | _, [], [] => True
  | prev, i :: r, w :: ws => InstOK libs sc i w.ident w.name w.ps w.li w.di ∧ FreshIn prev w.ident w.name ∧
      InstsOK libs sc ((w.ident, w.name) :: prev) r ws
  | _, _, _ => False

theorem identOf_withProps (D : Data) (ps : List PropT) : identOf (withProps D ps) = identOf D := by
  cases ps with
  | nil => rfl
  | cons a b =>
    have hne : kIDENT ≠ kPROPS := by decide
    simp [withProps, identOf, Data.getStr?, Data.get?_set_other _ _ _ _ hne]

theorem nameOf_withProps (D : Data) (ps : List PropT) : nameOf (withProps D ps) = nameOf D := by
  cases ps with
  | nil => rfl
  | cons a b =>
    have hne : kNAME ≠ kPROPS := by decide
    simp [withProps, nameOf, Data.getStr?, Data.get?_set_other _ _ _ _ hne]

theorem identOf_readInst (w : IW) : identOf w.read.data = some w.ident := by
  simp [IW.read, readInst, identOf_withProps, identOf_withName]

theorem nameOf_readInst (w : IW) : nameOf w.read.data = some w.name := by
  simp [IW.read, readInst, nameOf_withProps, nameOf_withName]

theorem addRetry_fresh (sibs : List Data) (d : Data) (h : conflicts sibs d = false) : addRetry sibs d = .ok d := by
  simp [addRetry, h, pure, Except.pure]

theorem insts_roundtrip (libs : List CLib) (sc : Scope) (is : List CInst) (ws : List IW) (prev : List (Str × Str))
    (st : CellSt) (hok : InstsOK libs sc prev is ws) (hk : KnownBy prev (st.insts.map (·.data))) :
    ∃ yss : List (List SExp), is.mapM (instSExp libs) = .ok (yss.map SExp.list) ∧
      yss.foldlM (contentsItem sc) st = .ok { st with insts := st.insts ++ ws.map IW.read } := by
  induction is generalizing prev st ws with
  | nil =>
    cases ws with
    | nil => exact ⟨[], rfl, by simp [pure, Except.pure]⟩
    | cons _ _ => exact absurd hok (by simp [InstsOK])
  | cons i r ih =>
    cases ws with
    | nil => exact absurd hok (by simp [InstsOK])
    | cons w ws =>
      obtain ⟨hi, hfresh, hrest⟩ := hok
      obtain ⟨t, hw1, hrd⟩ := inst_roundtrip libs sc i w.ident w.name w.ps w.li w.di hi
      have hh : headIs (A "instance" :: t) "instance" = true := by rw [headIs_cons]; decide
      have hconf : conflicts (st.insts.map (·.data)) w.read.data = false :=
        conflicts_false_of_fresh _ _ _ _ (identOf_readInst w) (nameOf_readInst w)
          (findName_none_of_fresh prev _ _ _ hk hfresh) (findIdent_none_of_fresh prev _ _ _ hk hfresh)
      have hstep : contentsItem sc st (A "instance" :: t) = .ok { st with insts := st.insts ++ [w.read] } := by
        have hrd' : parseInstance sc (A "instance" :: t) = .ok w.read := hrd
        simp only [contentsItem, hh, if_true, hrd', addRetry_fresh _ _ hconf, bind, Except.bind, pure, Except.pure]
      have hk' : KnownBy ((w.ident, w.name) :: prev)
          (({ st with insts := st.insts ++ [w.read] } : CellSt).insts.map (·.data)) := by
        simp only [List.map_append, List.map_cons, List.map_nil]
        exact KnownBy_append prev _ _ _ _ hk (identOf_readInst w) (nameOf_readInst w)
      obtain ⟨yss, hws, hfs⟩ := ih ws _ { st with insts := st.insts ++ [w.read] } hrest hk'
      refine ⟨(A "instance" :: t) :: yss, ?_, ?_⟩
      · simp [List.mapM_cons, hw1, hws, bind, Except.bind, pure, Except.pure]
      · simp only [List.foldlM_cons, hstep, bind, Except.bind]
        rw [hfs]
        simp

end Spydr.Edif
