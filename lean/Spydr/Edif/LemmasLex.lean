/-
  Token level: the s-expression reader inverts flattening (for any continuation of the token
  stream), and the tokenizer inverts the writer's layout.
-/
import Spydr.Edif.ModelWrite
namespace Spydr.Edif

/-! ### readS ∘ flattenS -/

mutual
theorem readSF_flatten (e : SExp) (r : List Tok) (f : Nat) (hf : e.size ≤ f) :
    readSF f (flattenS e ++ r) = some (e, r) := by
  cases e with
  | atom s =>
    cases f with
    | zero => simp [SExp.size] at hf
    | succ f => simp [flattenS, readSF]
  | list xs =>
    cases f with
    | zero => simp [SExp.size] at hf
    | succ f =>
      have h := readLF_flatten xs r f (by simp [SExp.size] at hf; omega)
      simp only [flattenS, List.cons_append, List.append_assoc, List.nil_append, readSF, h]
theorem readLF_flatten (xs : List SExp) (r : List Tok) (f : Nat) (hf : sizeL xs ≤ f) :
    readLF f (flattenL xs ++ (Tok.rp :: r)) = some (xs, r) := by
  cases xs with
  | nil =>
    cases f with
    | zero => simp [sizeL] at hf
    | succ f => simp [flattenL, readLF]
  | cons x xs =>
    cases f with
    | zero => simp [sizeL] at hf
    | succ f =>
      simp only [sizeL] at hf
      have h1 := readSF_flatten x (flattenL xs ++ (Tok.rp :: r)) f (by omega)
      have h2 := readLF_flatten xs r f (by omega)
      have hx : ∃ t ts, flattenL (x :: xs) ++ (Tok.rp :: r) = t :: ts ∧ t ≠ Tok.rp := by
        cases x <;> simp [flattenL, flattenS]
      obtain ⟨t, ts, he, hrp⟩ := hx
      rw [he]
      cases t with
      | rp => exact absurd rfl hrp
      | lp =>
        simp only [readLF]
        rw [← he]; simp only [flattenL, List.append_assoc]; rw [h1]; simp [h2]
      | atom s =>
        simp only [readLF]
        rw [← he]; simp only [flattenL, List.append_assoc]; rw [h1]; simp [h2]
end

mutual
theorem size_le_flatten (e : SExp) : e.size + 1 ≤ 2 * (flattenS e).length := by
  cases e with
  | atom s => simp [SExp.size, flattenS]
  | list xs =>
    have := sizeL_le_flatten xs
    simp [SExp.size, flattenS]; omega
theorem sizeL_le_flatten (xs : List SExp) : sizeL xs ≤ 2 * (flattenL xs).length + 1 := by
  cases xs with
  | nil => simp [sizeL, flattenL]
  | cons x xs =>
    have h1 := size_le_flatten x
    have h2 := sizeL_le_flatten xs
    simp [sizeL, flattenL]; omega
end

/-- **readS_flatten**: reading the tokens of any expression, followed by ANY further tokens, returns
    that expression and the untouched rest.  The fuel `readS` uses is always enough. -/
theorem readS_flatten (e : SExp) (r : List Tok) : readS (flattenS e ++ r) = some (e, r) := by
  unfold readS
  apply readSF_flatten
  have := size_le_flatten e
  simp [List.length_append]; omega

/-! ### lexE ∘ layoutE -/

/-- the atoms the theorem speaks about: a non-empty unquoted word, or a quoted string whose body has
    no double quote and no line break (C03's hypothesis on names and string values) -/
def cleanAtom (s : Str) : Prop :=
  (s ≠ [] ∧ ∀ c ∈ s, plainChar c = true) ∨
  (∃ body, s = '"' :: body ++ ['"'] ∧ ∀ c ∈ body, c ≠ '"' ∧ c ≠ '\n' ∧ c ≠ '\r')

mutual
def SExp.clean : SExp → Prop
  | .atom s => cleanAtom s
  | .list xs => cleanL xs
def cleanL : List SExp → Prop
  | [] => True
  | x :: xs => x.clean ∧ cleanL xs
end

/-- the rest of the text after an expression starts with a delimiter (or is empty) -/
def delimStart (cs : List Char) : Prop :=
  match cs with
  | [] => True
  | c :: _ => c = '(' ∨ c = ')' ∨ isWs c = true

theorem lexGo_plain (s buf : Str) (hs : ∀ c ∈ s, plainChar c = true) (rest : List Char) :
    lexGo false buf (s ++ rest) = lexGo false (s.reverse ++ buf) rest := by
  induction s generalizing buf with
  | nil => simp
  | cons c cs ih =>
    have hc := hs c (by simp)
    simp only [plainChar, Bool.not_eq_true', Bool.or_eq_false_iff, beq_eq_false_iff_ne] at hc
    obtain ⟨⟨⟨h1, h2⟩, h3⟩, h4⟩ := hc
    simp only [List.cons_append, lexGo]
    simp only [beq_iff_eq, h1, h2, h3, h4, if_false, Bool.false_eq_true]
    rw [ih (c :: buf) (fun d hd => hs d (by simp [hd]))]
    simp

theorem lexGo_quoted (body buf : Str) (hb : ∀ c ∈ body, c ≠ '"' ∧ c ≠ '\n' ∧ c ≠ '\r') (rest : List Char) :
    lexGo true buf (body ++ '"' :: rest) = Tok.atom ((buf.reverse ++ body) ++ ['"']) :: lexGo false [] rest := by
  induction body generalizing buf with
  | nil => simp [lexGo]
  | cons c cs ih =>
    obtain ⟨h1, h2, h3⟩ := hb c (by simp)
    have hnr : (c == '\n' || c == '\r') = false := by simp [h2, h3]
    have hq : (c == '"') = false := by simp [h1]
    simp only [List.cons_append, lexGo, hnr, hq, Bool.false_eq_true, if_false]
    rw [ih (c :: buf) (fun d hd => hb d (by simp [hd]))]
    simp

/-- after a finished token, a delimiter-started rest is lexed from a clean state -/
theorem lexGo_flush_delim (w : Str) (hw : w ≠ []) (rest : List Char) (hd : delimStart rest) :
    lexGo false w.reverse rest = Tok.atom w :: lexGo false [] rest := by
  have hne : w.reverse.isEmpty = false := by
    cases w with
    | nil => exact absurd rfl hw
    | cons a b => simp
  cases rest with
  | nil => simp [lexGo, flush, hne]
  | cons c cs =>
    simp only [delimStart] at hd
    rcases hd with h | h | h
    · subst h; simp [lexGo, flush, hne]
    · subst h; simp [lexGo, flush, hne]
    · have h1 : (c == '"') = false := by
        cases hq : c == '"' with
        | false => rfl
        | true => simp only [beq_iff_eq] at hq; subst hq; simp [isWs] at h
      have h2 : (c == '(') = false := by
        cases hq : c == '(' with
        | false => rfl
        | true => simp only [beq_iff_eq] at hq; subst hq; simp [isWs] at h
      have h3 : (c == ')') = false := by
        cases hq : c == ')' with
        | false => rfl
        | true => simp only [beq_iff_eq] at hq; subst hq; simp [isWs] at h
      simp [lexGo, flush, hne, h1, h2, h3, h]

theorem lex_atom (s : Str) (hs : cleanAtom s) (rest : List Char) (hd : delimStart rest) :
    lexGo false [] (s ++ rest) = Tok.atom s :: lexGo false [] rest := by
  rcases hs with ⟨hne, hp⟩ | ⟨body, rfl, hb⟩
  · rw [lexGo_plain s [] hp rest]
    simpa using lexGo_flush_delim s hne rest hd
  · simp only [List.cons_append, List.append_assoc, lexGo]
    simp only [beq_self_eq_true, if_true]
    have := lexGo_quoted body ['"'] hb rest
    simpa using this

mutual
theorem lex_layoutS (e : SExp) (he : e.clean) (rest : List Char) (hd : delimStart rest) :
    lexGo false [] (layoutS e ++ rest) = flattenS e ++ lexGo false [] rest := by
  cases e with
  | atom s =>
    simp only [layoutS, flattenS]
    rw [lex_atom s he rest hd]; rfl
  | list xs =>
    simp only [layoutS, flattenS, List.cons_append, List.append_assoc]
    simp only [lexGo]
    have : ('(' == '"') = false := by decide
    simp only [this, Bool.false_eq_true, if_false, beq_self_eq_true, if_true, flush, List.isEmpty_nil,
      List.nil_append]
    have h := lex_layoutL xs he (')' :: rest) (by simp [delimStart])
    rw [h]
    simp only [lexGo]
    have h2 : (')' == '"') = false := by decide
    have h3 : (')' == '(') = false := by decide
    simp [h2, h3, flush]
theorem lex_layoutL (xs : List SExp) (hx : cleanL xs) (rest : List Char) (hd : delimStart rest) :
    lexGo false [] (layoutL xs ++ rest) = flattenL xs ++ lexGo false [] rest := by
  cases xs with
  | nil => simp [layoutL, flattenL]
  | cons x r =>
    cases r with
    | nil =>
      simp only [layoutL, flattenL, List.append_nil]
      exact lex_layoutS x hx.1 rest hd
    | cons y r' =>
      simp only [layoutL, flattenL, List.append_assoc, List.cons_append]
      rw [lex_layoutS x hx.1 (' ' :: (layoutL (y :: r') ++ rest)) (by simp [delimStart, isWs])]
      have hsp : lexGo false [] (' ' :: (layoutL (y :: r') ++ rest)) = lexGo false [] (layoutL (y :: r') ++ rest) := by
        simp [lexGo, isWs, flush]
      rw [hsp, lex_layoutL (y :: r') hx.2 rest hd]
      simp [flattenL]
end

/-- **lex_layout**: the tokenizer applied to the writer's layout of an expression gives back exactly
    the expression's tokens, provided no string contains a double quote or a line break. -/
theorem lex_layout (e : SExp) (he : e.clean) : lexE (layoutE e) = flattenS e := by
  unfold lexE layoutE
  rw [lex_layoutS e he ['\n'] (by simp [delimStart, isWs])]
  simp [lexGo, isWs, flush]

/-- text → tokens → tree is the identity on laid-out clean expressions -/
theorem read_lex_layout (e : SExp) (he : e.clean) : readS (lexE (layoutE e)) = some (e, []) := by
  rw [lex_layout e he]
  simpa using readS_flatten e []

/-! ### the decidable form of the hypothesis -/

theorem cleanAtomB_sound (s : Str) (h : cleanAtomB s = true) : cleanAtom s := by
  unfold cleanAtomB at h
  rcases Bool.or_eq_true_iff.mp h with h1 | h2
  · left
    simp only [Bool.and_eq_true, Bool.not_eq_true', List.all_eq_true] at h1
    refine ⟨?_, h1.2⟩
    intro e; subst e; simp at h1
  · right
    split at h2
    · rename_i r
      split at h2
      · rename_i m hm
        refine ⟨m.reverse, ?_, ?_⟩
        · have : r = (('"' :: m).reverse) := by rw [← hm]; simp
          rw [this]; simp
        · intro c hc
          rw [List.all_eq_true] at h2
          have := h2 c (List.mem_reverse.mp hc)
          simp only [Bool.and_eq_true, bne_iff_ne, ne_eq] at this
          exact ⟨this.1.1, this.1.2, this.2⟩
      · cases h2
    · cases h2

mutual
theorem cleanB_sound (e : SExp) (h : e.cleanB = true) : e.clean := by
  cases e with
  | atom s => exact cleanAtomB_sound s h
  | list xs => exact cleanLB_sound xs h
theorem cleanLB_sound (xs : List SExp) (h : cleanLB xs = true) : cleanL xs := by
  cases xs with
  | nil => trivial
  | cons x r =>
    simp only [cleanLB, Bool.and_eq_true] at h
    exact ⟨cleanB_sound x h.1, cleanLB_sound r h.2⟩
end

/-- `lex_layout` with the decidable hypothesis -/
theorem lex_layout_B (e : SExp) (h : e.cleanB = true) : lexE (layoutE e) = flattenS e :=
  lex_layout e (cleanB_sound e h)

end Spydr.Edif
