/-
  Library level: the cells of a library one after the other, each read in the scope built so far.
-/
import Spydr.Edif.LemmasCell
namespace Spydr.Edif

/-- per-cell witnesses -/
structure DW where
  ident : Str
  name : Str
  iws : List IW

def DW.read (d : CDef) (w : DW) : CDef := readCell d w.ident w.name w.iws

theorem identOf_cellData (ident name : Str) : identOf (cellData ident name) = some ident := by
  have h1 : kIDENT ≠ kCELLTYPE := by decide
  have h2 : kIDENT ≠ kVIEWID := by decide
  have h3 : kIDENT ≠ kVIEWTYPE := by decide
  simp only [cellData, identOf, Data.getStr?, Data.get?_set_other _ _ _ _ h1, Data.get?_set_other _ _ _ _ h2,
    Data.get?_set_other _ _ _ _ h3]
  have := identOf_withName [] ident name
  simpa [identOf, Data.getStr?] using this

theorem nameOf_cellData (ident name : Str) : nameOf (cellData ident name) = some name := by
  have h1 : kNAME ≠ kCELLTYPE := by decide
  have h2 : kNAME ≠ kVIEWID := by decide
  have h3 : kNAME ≠ kVIEWTYPE := by decide
  simp only [cellData, nameOf, Data.getStr?, Data.get?_set_other _ _ _ _ h1, Data.get?_set_other _ _ _ _ h2,
    Data.get?_set_other _ _ _ _ h3]
  have := nameOf_withName [] ident name
  simpa [nameOf, Data.getStr?] using this

theorem viewIdentOf_cellData (ident name : Str) : viewIdentOf (cellData ident name) = some (S "netlist") := by
  have h3 : kVIEWID ≠ kVIEWTYPE := by decide
  simp [cellData, viewIdentOf, Data.getStr?, Data.get?_set_other _ _ _ _ h3, Data.get?_set_self,
    show S "EDIF.view.identifier" = kVIEWID from rfl]

/-- the cells of a library, one after the other; each is read in the scope made of the libraries read
    before (`rlibs`), the library's own dictionary and the cells read so far -/
def DefsOK (libs rlibs : List CLib) (ldata : Data) : List (Str × Str) → List CDef → List CDef → List DW → Prop
  | _, _, [], [] => True
  | prev, rdefs, d :: r, w :: ws =>
      CellOK libs { libs := rlibs, curLib := ldata, curDefs := rdefs } d w.ident w.name w.iws ∧
      FreshIn prev w.ident w.name ∧
      DefsOK libs rlibs ldata ((w.ident, w.name) :: prev) (rdefs ++ [DW.read d w]) r ws
  | _, _, _, _ => False

def readDefs : List CDef → List DW → List CDef
  | d :: r, w :: ws => DW.read d w :: readDefs r ws
  | _, _ => []

theorem defs_roundtrip (libs rlibs : List CLib) (ldata : Data) (ds : List CDef) (ws : List DW)
    (prev : List (Str × Str)) (st : LibSt)
    (hm : st.m = { data := ldata, pfx := [S "EDIF"] })
    (hok : DefsOK libs rlibs ldata prev st.defs ds ws) (hk : KnownBy prev (st.defs.map (·.data))) :
    ∃ yss : List (List SExp), ds.mapM (defSExp libs) = .ok (yss.map SExp.list) ∧
      yss.foldlM (libItem rlibs) st = .ok { st with defs := st.defs ++ readDefs ds ws } := by
  induction ds generalizing prev st ws with
  | nil =>
    cases ws with
    | nil => exact ⟨[], rfl, by simp [readDefs, pure, Except.pure]⟩
    | cons _ _ => exact absurd hok (by simp [DefsOK])
  | cons d r ih =>
    cases ws with
    | nil => exact absurd hok (by simp [DefsOK])
    | cons w ws =>
      obtain ⟨hc, hfresh, hrest⟩ := hok
      obtain ⟨t, hw1, hrd⟩ := cell_roundtrip libs _ d w.ident w.name w.iws hc
      have h1 : headIs (A "Cell" :: t) "status" = false := by rw [headIs_cons]; decide
      have h2 : headIs (A "Cell" :: t) "cell" = true := by rw [headIs_cons]; decide
      have hconf : conflicts (st.defs.map (·.data)) (DW.read d w).data = false :=
        conflicts_false_of_fresh _ _ _ _ (identOf_cellData _ _) (nameOf_cellData _ _)
          (findName_none_of_fresh prev _ _ _ hk hfresh) (findIdent_none_of_fresh prev _ _ _ hk hfresh)
      have hstep : libItem rlibs st (A "Cell" :: t) = .ok { st with defs := st.defs ++ [DW.read d w] } := by
        have hrd' : parseCell { libs := rlibs, curLib := st.m.data, curDefs := st.defs } (A "Cell" :: t) = .ok (DW.read d w) := by
          rw [hm]; exact hrd
        simp only [libItem, h1, h2, Bool.false_eq_true, if_false, if_true, hrd', addRetry_fresh _ _ hconf, bind,
          Except.bind, pure, Except.pure]
      have hk' : KnownBy ((w.ident, w.name) :: prev)
          (({ st with defs := st.defs ++ [DW.read d w] } : LibSt).defs.map (·.data)) := by
        simp only [List.map_append, List.map_cons, List.map_nil]
        exact KnownBy_append prev _ _ _ _ hk (identOf_cellData _ _) (nameOf_cellData _ _)
      obtain ⟨yss, hws, hfs⟩ := ih ws _ { st with defs := st.defs ++ [DW.read d w] } hm hrest hk'
      refine ⟨(A "Cell" :: t) :: yss, ?_, ?_⟩
      · simp [List.mapM_cons, hw1, hws, bind, Except.bind, pure, Except.pure]
      · simp only [List.foldlM_cons, hstep, bind, Except.bind]
        rw [hfs]
        simp [readDefs]


/-- per-library witnesses -/
structure LW where
  ident : Str
  name : Str
  dws : List DW

def LW.read (l : CLib) (w : LW) : CLib := { data := withName [] w.ident w.name, defs := readDefs l.defs w.dws }

structure LibOK (libs rlibs : List CLib) (l : CLib) (w : LW) : Prop where
  named : NamedOK l.data w.ident w.name
  defs : DefsOK libs rlibs (withName [] w.ident w.name) [] [] l.defs w.dws

theorem levelOf_zero (m : Meta) (kwA kw pfx : String) (h : isKw (A kwA) kw = true) :
    levelOf m [A kwA, A "0"] kw pfx = .ok m := by
  have h0 : intOfS (A "0") = .ok 0 := by
    show intOfS (.atom (natStr 0)) = _
    exact intOfS_natStr 0
  simp [levelOf, h, h0, bind, Except.bind, pure, Except.pure]

/-- **lib_roundtrip** -/
theorem lib_roundtrip (libs rlibs : List CLib) (l : CLib) (w : LW) (h : LibOK libs rlibs l w) :
    ∃ r, libSExp libs l = .ok (.list (A "Library" :: r)) ∧
      parseLibrary rlibs false (A "Library" :: r) = .ok (LW.read l w) := by
  obtain ⟨nm, hnm, _, hdef⟩ := nameDef_nameSExp l.data w.ident w.name h.named "library"
  obtain ⟨yss, hw, hf⟩ := defs_roundtrip libs rlibs (withName [] w.ident w.name) l.defs w.dws []
    { m := { data := withName [] w.ident w.name, pfx := [S "EDIF"] } } rfl h.defs KnownBy_nil
  refine ⟨nm :: .list [A "edifLevel", A "0"] :: .list [A "technology", .list [A "numberDefinition"]] :: yss.map SExp.list, ?_, ?_⟩
  · simp [libSExp, hnm, hw, bind, Except.bind, pure, Except.pure]
  · have hl : isKw (A "edifLevel") "ediflevel" = true := by decide
    have ht : isKw (A "technology") "technology" = true := by decide
    have hn : headIs [A "numberDefinition"] "numberdefinition" = true := by rw [headIs_cons]; decide
    simp only [parseLibrary, Bool.false_eq_true, if_false, List.tail_cons, Meta.new, hdef [] _ rfl,
      levelOf_zero _ "edifLevel" "ediflevel" "edifLevel" hl, ht, hn, Bool.not_true, loopC_lists_nil, hf, endC, bind,
      Except.bind, pure, Except.pure, LW.read, List.nil_append]

end Spydr.Edif
