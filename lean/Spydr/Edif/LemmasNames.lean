/-
  Names and references: the reader's separate_name_and_index inverts the writer's bit naming;
  decimal tokens; case-insensitive resolution.
-/
import Spydr.Edif.ModelWrite
namespace Spydr.Edif

/-! ### decimal numerals -/

theorem natStr_digits (n : Nat) : ∀ c ∈ natStr n, isAsciiDigit c = true := by
  intro c hc
  exact Nat.isDigit_of_mem_toDigits (by omega) (by omega) hc

theorem natStr_ne_nil (n : Nat) : natStr n ≠ [] := Nat.toDigits_ne_nil

theorem ofDigits_natStr (n : Nat) : ofDigits (natStr n) = n :=
  Nat.ofDigitChars_toDigits (by omega) (by omega)

theorem all_digits_natStr (n : Nat) : (natStr n).all isAsciiDigit = true := by
  rw [List.all_eq_true]; exact natStr_digits n

/-- a decimal numeral written by the writer is read back by `parse_integerToken` as that number -/
theorem intTok_natStr (n : Nat) : intTok (natStr n) = IntTok.ok (Int.ofNat n) := by
  have hne := natStr_ne_nil n
  have hd := natStr_digits n
  cases hs : natStr n with
  | nil => exact absurd hs hne
  | cons c cs =>
    have hc : isAsciiDigit c = true := hd c (by rw [hs]; simp)
    have hm : c ≠ '-' := by intro h; subst h; simp [isAsciiDigit, Char.isDigit] at hc
    have hp : c ≠ '+' := by intro h; subst h; simp [isAsciiDigit, Char.isDigit] at hc
    have hall : (c :: cs).all isAsciiDigit = true := by rw [← hs]; exact all_digits_natStr n
    have hv : ofDigits (c :: cs) = n := by rw [← hs]; exact ofDigits_natStr n
    have hb : intBody false (c :: cs) = IntTok.ok (Int.ofNat n) := by
      simp only [intBody, hc, Bool.not_true, Bool.false_eq_true, if_false, hall, if_true, hv]
    unfold intTok
    split
    · rename_i r heq; cases heq; exact absurd rfl hm
    · rename_i r heq; cases heq; exact absurd rfl hp
    · exact hb

/-! ### name[i] / id_i_ -/

theorem splitIdx_append (o c : Char) (s : Str) (i : Nat)
    (ho : isAsciiDigit o = false) :
    splitIdx o c (s ++ o :: natStr i ++ [c]) = some (i, s) := by
  unfold splitIdx
  have hrev : (s ++ o :: natStr i ++ [c]).reverse = c :: ((natStr i).reverse ++ o :: s.reverse) := by
    simp
  rw [hrev]
  have hdig : ∀ x ∈ (natStr i).reverse, isAsciiDigit x = true := by
    intro x hx; exact natStr_digits i x (List.mem_reverse.mp hx)
  have htw : ((natStr i).reverse ++ o :: s.reverse).takeWhile isAsciiDigit = (natStr i).reverse := by
    rw [List.takeWhile_append_of_pos hdig]
    simp [List.takeWhile_cons, ho]
  have hdw : ((natStr i).reverse ++ o :: s.reverse).dropWhile isAsciiDigit = o :: s.reverse := by
    rw [List.dropWhile_append_of_pos hdig]
    simp [List.dropWhile_cons, ho]
  simp only [if_true, htw, hdw]
  have hne : (natStr i).reverse ≠ [] := by
    intro h; exact natStr_ne_nil i (List.reverse_eq_nil_iff.mp h)
  simp [hne, ofDigits_natStr]

/-- **name_index_roundtrip**, identifier side: `separate_name_and_index(id_i_, "_")` gives back
    (i, id) for EVERY identifier `id` (no side condition after the repair). -/
theorem sepIdent_bitIdent (ident : Str) (i : Nat) : sepIdent (bitIdent ident i) = (some i, ident) := by
  unfold sepIdent bitIdent
  rw [splitIdx_append '_' '_' ident i (by decide)]

/-- **name_index_roundtrip**, name side: `separate_name_and_index(name[i], "[")` gives back
    (i, name) for every name that is not an escaped (backslash) name. -/
theorem sepName_bitName (name : Str) (i : Nat) (h : bracketAllowed (bitName name i) = true) :
    sepName (bitName name i) = (some i, name) := by
  unfold sepName
  rw [h]
  unfold bitName
  rw [splitIdx_append '[' ']' name i (by decide)]
  simp

theorem bracketAllowed_of_head (name : Str) (i : Nat) (c : Char) (r : Str) (hn : name = c :: r) (hc : c ≠ '\\') :
    bracketAllowed (bitName name i) = true := by
  subst hn
  simp [bracketAllowed, bitName, hc]

/-- a name the reader does not take for a bus bit: it is returned unchanged with no index
    (the sub-domain excluded from C03 by the pinned finding is exactly the complement) -/
theorem sepName_plain (name : Str) (h : splitIdx '[' ']' name = none) : sepName name = (none, name) := by
  unfold sepName
  split <;> simp [h]

/-! ### case-insensitive resolution -/

/-- identifiers (lower-cased) of a sibling list -/
def lowerIdents (sibs : List Data) : List (Option Str) := sibs.map fun s => (identOf s).map lower

/-- **resolve_ci** (total on declared names): if sibling `i` carries identifier `a` and no earlier
    sibling has the same identifier ignoring case, then every spelling of `a` (any letter case)
    resolves to `i`. -/
theorem findIdent_declared (sibs : List Data) (i : Nat) (a spelling : Str) (hi : i < sibs.length)
    (ha : identOf sibs[i] = some a) (hs : lower spelling = lower a)
    (hfirst : ∀ j, (hj : j < i) → ∀ b, identOf (sibs[j]'(by omega)) = some b → lower b ≠ lower a) :
    findIdent sibs spelling = some i := by
  unfold findIdent
  rw [List.findIdx?_eq_some_iff_getElem]
  refine ⟨hi, ?_, ?_⟩
  · simp [ha, hs]
  · intro j hj
    cases hb : identOf (sibs[j]'(by omega)) with
    | none => simp [hb]
    | some b =>
      have := hfirst j hj b hb
      simp [hb, hs, this]

/-- **resolve_ci** (error on undeclared): if no sibling carries the identifier (ignoring case),
    the lookup finds nothing — every caller turns that into a rejection (`Err.assert`). -/
theorem findIdent_undeclared (sibs : List Data) (spelling : Str)
    (h : ∀ s ∈ sibs, ∀ b, identOf s = some b → lower b ≠ lower spelling) :
    findIdent sibs spelling = none := by
  unfold findIdent
  rw [List.findIdx?_eq_none_iff]
  intro s hs
  cases hb : identOf s with
  | none => simp
  | some b => simpa using h s hs b hb

/-- lookups never invent a target: whatever is found carries that identifier, ignoring case -/
theorem findIdent_sound (sibs : List Data) (spelling : Str) (i : Nat) (h : findIdent sibs spelling = some i) :
    ∃ (hi : i < sibs.length) (b : Str), identOf sibs[i] = some b ∧ lower b = lower spelling := by
  unfold findIdent at h
  rw [List.findIdx?_eq_some_iff_getElem] at h
  obtain ⟨hi, hp, _⟩ := h
  refine ⟨hi, ?_⟩
  cases hb : identOf sibs[i] with
  | none => simp [hb] at hp
  | some b => exact ⟨b, rfl, by simpa [hb] using hp⟩

end Spydr.Edif
