/-
  File level: status block, the libraries one after the other, the design construct, the file.
-/
import Spydr.Edif.LemmasLib
namespace Spydr.Edif

/-! ### the status block -/

theorem ofDigits_zero_cons (ds : Str) : ofDigits ('0' :: ds) = ofDigits ds := by
  simp [ofDigits, Nat.ofDigitChars_cons]

theorem intTok_nosign (c : Char) (cs : Str) (hm : c ≠ '-') (hp : c ≠ '+') : intTok (c :: cs) = intBody false (c :: cs) := by
  unfold intTok
  split
  · rename_i r heq; cases heq; exact absurd rfl hm
  · rename_i r heq; cases heq; exact absurd rfl hp
  · rfl

theorem intOfS_pad2 (n : Nat) : intOfS (.atom (pad2 n)) = .ok (Int.ofNat n) := by
  unfold pad2
  split
  · have hall := all_digits_natStr n
    have hv := ofDigits_natStr n
    have h0 : isAsciiDigit '0' = true := by decide
    simp only [intOfS, intTok_nosign '0' _ (by decide) (by decide), intBody, h0, Bool.not_true, Bool.false_eq_true,
      if_false, List.all_cons, hall, Bool.and_self, if_true, ofDigits_zero_cons, hv, pure, Except.pure]
  · exact intOfS_natStr n

/-- the six time-stamp tokens are read back as the six numbers -/
theorem intsOf_ts (y mo d h mi s : Nat) :
    intsOf [SExp.atom (natStr y), .atom (pad2 mo), .atom (pad2 d), .atom (pad2 h), .atom (pad2 mi), .atom (pad2 s)] =
      .ok [Int.ofNat y, Int.ofNat mo, Int.ofNat d, Int.ofNat h, Int.ofNat mi, Int.ofNat s] := by
  simp [intsOf, List.mapM_cons, intOfS_natStr, intOfS_pad2, bind, Except.bind, pure, Except.pure]


def kTS : Str := S "EDIF.status.written.timeStamp"
def kPROG : Str := S "EDIF.status.written.program"
def kVER : Str := S "EDIF.status.written.program.version"
def kCOMM : Str := S "EDIF.status.written.comments"

def builtBy : Str := "Built by 'BYU spydrnet tool'".toList

/-- what reading the writer's status block adds to the netlist dictionary -/
def statusData (D : Data) (ts : List Int) (prog ver : Option Str) : Data :=
  let D1 := D.set kTS (.list (ts.map .int))
  let D2 := match prog, ver with
    | some p, some v => (D1.set kPROG (.str p)).set kVER (.str v)
    | some p, none => D1.set kPROG (.str p)
    | none, _ => D1
  match D2.get? kCOMM with
  | some (.list xs) => D2.set kCOMM (.list (xs ++ [.list [.str builtBy]]))
  | _ => D2.set kCOMM (.list [.list [.str builtBy]])

theorem statusData_keeps (D : Data) (ts : List Int) (prog ver : Option Str) (k : Str)
    (h1 : k ≠ kTS) (h2 : k ≠ kPROG) (h3 : k ≠ kVER) (h4 : k ≠ kCOMM) :
    (statusData D ts prog ver).get? k = D.get? k := by
  unfold statusData
  simp only
  split <;> rename_i hm <;>
    (cases prog <;> cases ver <;>
      simp [Data.get?_set_other _ _ _ _ h1, Data.get?_set_other _ _ _ _ h2, Data.get?_set_other _ _ _ _ h3,
        Data.get?_set_other _ _ _ _ h4])

theorem joinDot_ts : joinDot [S "EDIF", S "status", S "written", S "timeStamp"] = kTS := by decide
theorem joinDot_prog : joinDot [S "EDIF", S "status", S "written", S "program"] = kPROG := by decide
theorem joinDot_ver : joinDot [S "EDIF", S "status", S "written", S "program", S "version"] = kVER := by decide
theorem joinDot_comm : joinDot [S "EDIF", S "status", S "written", S "comments"] = kCOMM := by decide

theorem builtBy_ok : builtBy.all isStringChar = true := by decide

theorem parseComment_builtBy (D : Data) :
    parseComment { data := D, pfx := [S "EDIF", S "status", S "written"] } [A "comment", qtok builtBy] =
      .ok { data := (match D.get? kCOMM with
              | some (.list xs) => D.set kCOMM (.list (xs ++ [.list [.str builtBy]]))
              | _ => D.set kCOMM (.list [.list [.str builtBy]])),
            pfx := [S "EDIF", S "status", S "written"] } := by
  simp only [parseComment, push_mk, List.cons_append, List.nil_append, List.tail_cons, List.mapM_cons, List.mapM_nil,
    stringTok_qtok builtBy builtBy_ok, bind, Except.bind, pure, Except.pure, appendAttr, key_mk, joinDot_comm, List.map_cons,
    List.map_nil]
  split <;> simp_all [Meta.pop, List.dropLast]


/-- the writer's view of the program / version entries of the netlist dictionary -/
structure StatusOK (Dn : Data) (prog ver : Option Str) : Prop where
  hp : Dn.get? kPROG = prog.map Val.str
  hv : prog.isSome = true → Dn.get? kVER = ver.map Val.str
  hps : ∀ p, prog = some p → p.all isStringChar = true
  hvs : ∀ v, ver = some v → v.all isStringChar = true

theorem setAttr_key (D : Data) (p : List Str) (k : Str) (v : Val) (hk : joinDot p = k)
    (h1 : k ≠ S "EDIF.original_identifier") (h2 : k ≠ kIDENT) :
    setAttr { data := D, pfx := p } v = .ok { data := D.set k v, pfx := p } := by
  subst hk; exact setAttr_plain D p v h1 h2

def statusTail (y mo d h mi s : Nat) (prog : List SExp) : List SExp :=
  [.list ([A "written", .list [A "timeStamp", .atom (natStr y), .atom (pad2 mo), .atom (pad2 d), .atom (pad2 h),
    .atom (pad2 mi), .atom (pad2 s)]] ++ prog ++ [.list [A "comment", qtok builtBy]])]

/-- **status_roundtrip**: the `(status (written …))` block the writer emits is accepted and only adds
    status entries to the dictionary -/
theorem status_roundtrip (Dn : Data) (prog ver : Option Str) (y mo d h mi s : Nat) (hok : StatusOK Dn prog ver) :
    ∃ r, statusSExp [y, mo, d, h, mi, s] Dn = .ok (.list (A "status" :: r)) ∧
      ∀ D0 : Data, parseStatus { data := D0, pfx := [S "EDIF"] } (A "status" :: r) =
        .ok { data := statusData D0 [Int.ofNat y, Int.ofNat mo, Int.ofNat d, Int.ofNat h, Int.ofNat mi, Int.ofNat s] prog ver,
              pfx := [S "EDIF"] } := by
  have hw : ∀ xs, headIs (A "written" :: xs) "written" = true := by intro xs; rw [headIs_cons]; decide
  have hts : ∀ xs, headIs (A "timeStamp" :: xs) "timestamp" = true := by intro xs; rw [headIs_cons]; decide
  have hpa : ∀ xs, headIs (A "program" :: xs) "author" = false := by intro xs; rw [headIs_cons]; decide
  have hpp : ∀ xs, headIs (A "program" :: xs) "program" = true := by intro xs; rw [headIs_cons]; decide
  have hc1 : ∀ xs, headIs (A "comment" :: xs) "author" = false := by intro xs; rw [headIs_cons]; decide
  have hc2 : ∀ xs, headIs (A "comment" :: xs) "program" = false := by intro xs; rw [headIs_cons]; decide
  have hc3 : ∀ xs, headIs (A "comment" :: xs) "dataorigin" = false := by intro xs; rw [headIs_cons]; decide
  have hc4 : ∀ xs, headIs (A "comment" :: xs) "property" = false := by intro xs; rw [headIs_cons]; decide
  have hc5 : ∀ xs, headIs (A "comment" :: xs) "metax" = false := by intro xs; rw [headIs_cons]; decide
  have hc6 : ∀ xs, headIs (A "comment" :: xs) "comment" = true := by intro xs; rw [headIs_cons]; decide
  have hkv : isKw (A "version") "version" = true := by decide
  have nts1 : kTS ≠ S "EDIF.original_identifier" := by decide
  have nts2 : kTS ≠ kIDENT := by decide
  have np1 : kPROG ≠ S "EDIF.original_identifier" := by decide
  have np2 : kPROG ≠ kIDENT := by decide
  have nv1 : kVER ≠ S "EDIF.original_identifier" := by decide
  have nv2 : kVER ≠ kIDENT := by decide
  have hints := intsOf_ts y mo d h mi s
  have hkp : S "EDIF.status.written.program" = kPROG := rfl
  have hkver : S "EDIF.status.written.program.version" = kVER := rfl
  cases prog with
  | none =>
    have hp : Dn.get? kPROG = none := by simpa using hok.hp
    refine ⟨statusTail y mo d h mi s [], ?_, ?_⟩
    · simp only [statusSExp, hkp, hp, List.map_cons, List.map_nil, List.append_nil, List.nil_append, List.cons_append, bind,
        Except.bind, pure, Except.pure]
      rfl
    · intro D0
      simp only [statusTail, parseStatus, List.tail_cons, push_mk, List.cons_append, List.nil_append, loopC, statusItem, hw, if_true,
        parseWritten, hts, hints, List.length_cons, List.length_nil, setAttr_key _ _ kTS _ joinDot_ts nts1 nts2, pop_mk,
        List.dropLast, writtenItem, hc1, hc2, hc3, hc4, hc5, hc6, Bool.false_eq_true, if_false, parseComment_builtBy,
        endC, bind, Except.bind, pure, Except.pure, statusData, List.map_cons, List.map_nil]
      rfl
  | some p =>
    have hps := hok.hps p rfl
    have hp : Dn.get? kPROG = some (.str p) := by simpa using hok.hp
    cases ver with
    | none =>
      have hv : Dn.get? kVER = none := by simpa using hok.hv rfl
      refine ⟨statusTail y mo d h mi s [.list [A "program", qtok p]], ?_, ?_⟩
      · simp only [statusSExp, hkp, hkver, hp, hv, List.map_cons, List.map_nil, List.append_nil, List.nil_append,
          List.cons_append, bind, Except.bind, pure, Except.pure]
        rfl
      · intro D0
        simp only [statusTail, parseStatus, List.tail_cons, push_mk, List.cons_append, List.nil_append, loopC, statusItem, hw, if_true,
          parseWritten, hts, hints, List.length_cons, List.length_nil, setAttr_key _ _ kTS _ joinDot_ts nts1 nts2, pop_mk,
          List.dropLast, writtenItem, hpa, hpp, hc1, hc2, hc3, hc4, hc5, hc6, Bool.false_eq_true, if_false,
          stringTok_qtok p hps, setAttr_key _ _ kPROG _ joinDot_prog np1 np2, parseComment_builtBy,
          endC, bind, Except.bind, pure, Except.pure, statusData, List.map_cons, List.map_nil]
        rfl
    | some v =>
      have hvs := hok.hvs v rfl
      have hv : Dn.get? kVER = some (.str v) := by simpa using hok.hv rfl
      refine ⟨statusTail y mo d h mi s [.list [A "program", qtok p, .list [A "version", qtok v]]], ?_, ?_⟩
      · simp only [statusSExp, hkp, hkver, hp, hv, List.map_cons, List.map_nil, List.append_nil, List.nil_append,
          List.cons_append, bind, Except.bind, pure, Except.pure]
        rfl
      · intro D0
        simp only [statusTail, parseStatus, List.tail_cons, push_mk, List.cons_append, List.nil_append, loopC, statusItem, hw, if_true,
          parseWritten, hts, hints, List.length_cons, List.length_nil, setAttr_key _ _ kTS _ joinDot_ts nts1 nts2, pop_mk,
          List.dropLast, writtenItem, hpa, hpp, hkv, hc1, hc2, hc3, hc4, hc5, hc6, Bool.false_eq_true, if_false,
          stringTok_qtok p hps, stringTok_qtok v hvs, setAttr_key _ _ kPROG _ joinDot_prog np1 np2,
          setAttr_key _ _ kVER _ joinDot_ver nv1 nv2, parseComment_builtBy,
          endC, bind, Except.bind, pure, Except.pure, statusData, List.map_cons, List.map_nil]
        rfl


/-! ### the libraries of the file, the design, the file -/

theorem identOf_LWread (l : CLib) (w : LW) : identOf (LW.read l w).data = some w.ident := identOf_withName _ _ _
theorem nameOf_LWread (l : CLib) (w : LW) : nameOf (LW.read l w).data = some w.name := nameOf_withName _ _ _

/-- the libraries one after the other; each is read with the libraries read so far in scope -/
def LibsOK (libs : List CLib) : List (Str × Str) → List CLib → List CLib → List LW → Prop
  | _, _, [], [] => True
  | prev, rlibs, l :: r, w :: ws =>
      LibOK libs rlibs l w ∧ FreshIn prev w.ident w.name ∧
      LibsOK libs ((w.ident, w.name) :: prev) (rlibs ++ [LW.read l w]) r ws
  | _, _, _, _ => False

def readLibs : List CLib → List LW → List CLib
  | l :: r, w :: ws => LW.read l w :: readLibs r ws
  | _, _ => []

theorem libs_roundtrip (libs : List CLib) (ls : List CLib) (ws : List LW) (prev : List (Str × Str)) (st : BodySt)
    (hok : LibsOK libs prev st.libs ls ws) (hk : KnownBy prev (st.libs.map (·.data))) :
    ∃ yss : List (List SExp), ls.mapM (libSExp libs) = .ok (yss.map SExp.list) ∧
      yss.foldlM bodyItem st = .ok { st with libs := st.libs ++ readLibs ls ws } := by
  induction ls generalizing prev st ws with
  | nil =>
    cases ws with
    | nil => exact ⟨[], rfl, by simp [readLibs, pure, Except.pure]⟩
    | cons _ _ => exact absurd hok (by simp [LibsOK])
  | cons l r ih =>
    cases ws with
    | nil => exact absurd hok (by simp [LibsOK])
    | cons w ws =>
      obtain ⟨hl, hfresh, hrest⟩ := hok
      obtain ⟨t, hw1, hrd⟩ := lib_roundtrip libs st.libs l w hl
      have h1 : headIs (A "Library" :: t) "status" = false := by rw [headIs_cons]; decide
      have h2 : headIs (A "Library" :: t) "library" = true := by rw [headIs_cons]; decide
      have h3 : headIs (A "Library" :: t) "external" = false := by rw [headIs_cons]; decide
      have hconf : conflicts (st.libs.map (·.data)) (LW.read l w).data = false :=
        conflicts_false_of_fresh _ _ _ _ (identOf_LWread l w) (nameOf_LWread l w)
          (findName_none_of_fresh prev _ _ _ hk hfresh) (findIdent_none_of_fresh prev _ _ _ hk hfresh)
      have hstep : bodyItem st (A "Library" :: t) = .ok { st with libs := st.libs ++ [LW.read l w] } := by
        simp only [bodyItem, h1, h2, h3, Bool.false_eq_true, if_false, Bool.or_false, if_true, hrd, hconf, bind,
          Except.bind, pure, Except.pure]
      have hk' : KnownBy ((w.ident, w.name) :: prev)
          (({ st with libs := st.libs ++ [LW.read l w] } : BodySt).libs.map (·.data)) := by
        simp only [List.map_append, List.map_cons, List.map_nil]
        exact KnownBy_append prev _ _ _ _ hk (identOf_LWread l w) (nameOf_LWread l w)
      obtain ⟨yss, hws, hfs⟩ := ih ws _ { st with libs := st.libs ++ [LW.read l w] } hrest hk'
      refine ⟨(A "Library" :: t) :: yss, ?_, ?_⟩
      · simp [List.mapM_cons, hw1, hws, bind, Except.bind, pure, Except.pure]
      · simp only [List.foldlM_cons, hstep, bind, Except.bind]
        rw [hfs]
        simp [readLibs]

/-- the top instance the reader builds from the writer's `(design …)` -/
def readTop (ident name : Str) (li di : Nat) : CInst :=
  { data := (withName [] ident name).set (S "metadata_prefix") (.list []), ref := some (li, di) }

/-- **design_roundtrip** -/
theorem design_roundtrip (rlibs : List CLib) (tdata : Data) (ident name did lid : Str) (li di : Nat) (l' : CLib)
    (hn : NamedOK tdata ident name) (hvd : validIdentTok did = true) (hvl : validIdentTok lid = true)
    (hfl : findIdent (rlibs.map (·.data)) lid = some li) (hl : rlibs[li]? = some l')
    (hfd : findIdent (l'.defs.map (·.data)) did = some di) :
    ∃ nm, nameSExp tdata "top instance" = .ok nm ∧
      parseDesign rlibs [A "design", nm, .list [A "cellref", .atom did, .list [A "libraryref", .atom lid]]] =
        .ok (readTop ident name li di) := by
  obtain ⟨nm, hnm, hshape, hdef⟩ := nameDef_nameSExp tdata ident name hn "top instance"
  refine ⟨nm, hnm, ?_⟩
  have hv := validIdentTok_of_check ident hn.hc
  rcases hshape with hs | hs
  · subst hs
    have hd := hdef [] [] rfl
    simp only [nameDef, identOfS, hv, if_true, bind, Except.bind, pure, Except.pure, push_mk, List.cons_append,
      List.nil_append, setAttr_ident [] ident hn.hc rfl, pop_mk, List.dropLast, Except.ok.injEq, Prod.mk.injEq, Meta.mk.injEq,
      and_true] at hd
    show parseDesign rlibs [A "design", .atom ident,
      .list [.atom "cellref".toList, .atom did, .list [.atom "libraryref".toList, .atom lid]]] = _
    simp only [parseDesign, List.tail_cons, Meta.new, identOfS, hv, if_true, push_mk, List.cons_append, List.nil_append,
      setAttr_ident [] ident hn.hc rfl, pop_mk, List.dropLast, hd, hvd, hvl, Bool.and_self, Bool.not_true,
      Bool.false_eq_true, if_false, hfl, hl, hfd, readTop, bind, Except.bind, pure, Except.pure]
  · subst hs
    have hr := parseRename_ok [] ident name hn.hc hn.hs rfl
    show parseDesign rlibs [A "design", .list [A "rename", .atom ident, qtok name],
      .list [.atom "cellref".toList, .atom did, .list [.atom "libraryref".toList, .atom lid]]] = _
    simp only [parseDesign, List.tail_cons, Meta.new, hr, hvd, hvl, Bool.and_self, Bool.not_true, Bool.false_eq_true,
      if_false, hfl, hl, hfd, readTop, bind, Except.bind, pure, Except.pure]


def kVERSION : Str := S "EDIF.edifVersion"

/-- hypotheses at file level -/
structure NetOK (n : CNetlist) (nident nname : Str) (prog ver : Option Str) (lws : List LW) (t : CInst)
    (tident tname : Str) (li di : Nat) : Prop where
  named : NamedOK n.data nident nname
  status : StatusOK n.data prog ver
  libs : LibsOK n.libs [] [] n.libs lws
  top : n.top = some t
  tnamed : NamedOK t.data tident tname
  tref : t.ref = some (li, di)
  target : ∃ l d did lid l', n.libs[li]? = some l ∧ l.defs[di]? = some d ∧ identOf d.data = some did ∧
    identOf l.data = some lid ∧ validIdentTok did = true ∧ validIdentTok lid = true ∧
    findIdent ((readLibs n.libs lws).map (·.data)) lid = some li ∧ (readLibs n.libs lws)[li]? = some l' ∧
    findIdent (l'.defs.map (·.data)) did = some di

/-- the netlist the reader builds from the writer's file -/
def readNetlist (n : CNetlist) (nident nname : Str) (ts : List Int) (prog ver : Option Str) (lws : List LW)
    (tident tname : Str) (li di : Nat) : CNetlist :=
  { data := statusData ((withName [] nident nname).set kVERSION (.list [.int 2, .int 0, .int 0])) ts prog ver,
    libs := readLibs n.libs lws, top := some (readTop tident tname li di) }

theorem intsOf_200 : intsOf [A "2", A "0", A "0"] = .ok [2, 0, 0] := by
  show intsOf [.atom (natStr 2), .atom (natStr 0), .atom (natStr 0)] = _
  simp [intsOf, List.mapM_cons, intOfS_natStr, bind, Except.bind, pure, Except.pure]

theorem joinDot_version : joinDot [S "EDIF", S "edifVersion"] = kVERSION := by decide

/-- **netlist_roundtrip** (file level): the reader applied to the s-expression the writer emits for a
    whole netlist returns the netlist whose libraries are the re-read images `readLibs`, whose top
    instance has the same name and reference, and whose own name is the same -/
theorem netlist_roundtrip (n : CNetlist) (nident nname : Str) (prog ver : Option Str) (lws : List LW) (t : CInst)
    (tident tname : Str) (li di : Nat) (y mo d h mi s : Nat)
    (hok : NetOK n nident nname prog ver lws t tident tname li di) :
    ∃ e, toSExp [y, mo, d, h, mi, s] n = .ok e ∧
      ofSExp e = .ok (readNetlist n nident nname
        [Int.ofNat y, Int.ofNat mo, Int.ofNat d, Int.ofNat h, Int.ofNat mi, Int.ofNat s] prog ver lws tident tname li di) := by
  obtain ⟨nm, hnm, _, hdef⟩ := nameDef_nameSExp n.data nident nname hok.named "netlist"
  obtain ⟨sr, hst, hsread⟩ := status_roundtrip n.data prog ver y mo d h mi s hok.status
  obtain ⟨l, dd, did, lid, l', hl, hd, hdid, hlid, hvd, hvl, hfl, hl', hfd⟩ := hok.target
  obtain ⟨tn, htn, hdes⟩ := design_roundtrip (readLibs n.libs lws) t.data tident tname did lid li di l' hok.tnamed hvd hvl hfl hl' hfd
  have hlibs : ∀ st : BodySt, st.libs = [] → ∃ yss : List (List SExp), n.libs.mapM (libSExp n.libs) = .ok (yss.map SExp.list) ∧
      yss.foldlM bodyItem st = .ok { st with libs := readLibs n.libs lws } := by
    intro st hs
    obtain ⟨yss, h1, h2⟩ := libs_roundtrip n.libs n.libs lws [] st (by rw [hs]; exact hok.libs) (by rw [hs]; exact KnownBy_nil)
    exact ⟨yss, h1, by rw [h2, hs]; simp⟩
  obtain ⟨yss, hw, _⟩ := hlibs { m := Meta.new } rfl
  have hlf : ∀ st : BodySt, st.libs = [] → yss.foldlM bodyItem st = .ok { st with libs := readLibs n.libs lws } := by
    intro st hs
    obtain ⟨yss', h1, h2⟩ := hlibs st hs
    have : yss' = yss := map_list_inj (by have := h1.symm.trans hw; simpa using this)
    rw [← this]; exact h2
  refine ⟨.list ([A "edif", nm, .list [A "edifversion", A "2", A "0", A "0"], .list [A "edifLevel", A "0"],
    .list [A "keywordmap", .list [A "keywordlevel", A "0"]], .list (A "status" :: sr)] ++ yss.map SExp.list ++
    [.list [A "design", tn, .list [A "cellref", .atom did, .list [A "libraryref", .atom lid]]]]), ?_, ?_⟩
  · simp only [toSExp, hnm, hst, hw, hok.top, htn, hok.tref, hl, hd, needIdent, hdid, hlid, bind, Except.bind, pure,
      Except.pure]
  · have he : ∀ xs, headIs (A "edif" :: xs) "edif" = true := by intro xs; rw [headIs_cons]; decide
    have hv : ∀ xs, headIs (A "edifversion" :: xs) "edifversion" = true := by intro xs; rw [headIs_cons]; decide
    have hkm : isKw (A "keywordmap") "keywordmap" = true := by decide
    have hl1 : isKw (A "edifLevel") "ediflevel" = true := by decide
    have hl2 : isKw (A "keywordlevel") "keywordlevel" = true := by decide
    have hs1 : ∀ xs, headIs (A "status" :: xs) "status" = true := by intro xs; rw [headIs_cons]; decide
    have hd1 : ∀ xs, headIs (A "design" :: xs) "status" = false := by intro xs; rw [headIs_cons]; decide
    have hd2 : ∀ xs, headIs (A "design" :: xs) "library" = false := by intro xs; rw [headIs_cons]; decide
    have hd3 : ∀ xs, headIs (A "design" :: xs) "external" = false := by intro xs; rw [headIs_cons]; decide
    have hd4 : ∀ xs, headIs (A "design" :: xs) "design" = true := by intro xs; rw [headIs_cons]; decide
    have nv1 : kVERSION ≠ S "EDIF.original_identifier" := by decide
    have nv2 : kVERSION ≠ kIDENT := by decide
    have hbody := loopC_lists bodyItem
    simp only [ofSExp, List.cons_append, List.nil_append, he, Bool.not_true, Bool.false_eq_true, if_false, List.tail_cons,
      Meta.new, hdef [] _ rfl, hv, intsOf_200, List.length_cons, List.length_nil, push_mk, pop_mk, List.dropLast,
      setAttr_key _ _ kVERSION _ joinDot_version nv1 nv2, levelOf_zero _ "edifLevel" "ediflevel" "edifLevel" hl1, hkm,
      levelOf_zero _ "keywordlevel" "keywordlevel" "keywordLevel" hl2, loopC, bodyItem, hs1, if_true, hsread, bind,
      Except.bind, pure, Except.pure, List.map_cons, List.map_nil]
    have h3 : ¬ (0 + 1 + 1 + 1 ≠ 3) := by decide
    simp only [h3, if_false]
    rw [hbody, hlf _ rfl]
    simp only [bind, Except.bind, loopC, bodyItem, hd1, hd2, hd3, hd4, Bool.false_eq_true, if_false, Bool.or_self, if_true,
      hdes, endC, pure, Except.pure, readNetlist]

end Spydr.Edif
