/-
  The nets of a cell in any order: the reader's `multibit_add_cable` loop computes, for every bus,
  the fold of the merge step over that bus's bit nets (whatever is interleaved), hence
  `multibit_merge` applies to the reader's own function.
-/
import Spydr.Edif.LemmasCell
import Spydr.Edif.LemmasBits
namespace Spydr.Edif

/-- one `(net …)` of a cell as the text declares it: a scalar net (`idx = none`) called
    (ident, name), or bit `i` of the bus called (ident, name), written `(rename ident_j_ "name[i]")`: the index `j`
    in the identifier (`iidx`) need not be the index in the name — the reader takes the bit position from the
    name and only looks whether the identifier has an index at all -/
structure NetItem where
  ident : Str
  name : Str
  idx : Option Nat
  pins : List CPin
  iidx : Nat := 0

/-- the dictionary `parse_net` hands to `multibit_add_cable` -/
def NetItem.data (it : NetItem) : Data :=
  match it.idx with
  | none => withName [] it.ident it.name
  | some i => withName [] (bitIdent it.ident it.iidx) (bitName it.name i)

/-- what the text means, one net at a time: a scalar net is a new cable; the first bit of a bus is a
    new array cable based at that bit; a further bit goes into the bus's cable at its index -/
def netStep (cs : List CCable) (it : NetItem) : List CCable :=
  match it.idx with
  | none => cs ++ [scalarCable (withName [] it.ident it.name) it.pins]
  | some i =>
    match findName (cs.map (·.data)) it.name with
    | none => cs ++ [busCable it.ident it.name i [it.pins]]
    | some k =>
      match cs[k]? with
      | some ex => cs.set k (mergeInto ex i it.pins)
      | none => cs

/-- the (lower index, wires) of the cable called `name`, if there is one -/
def busOf (name : Str) (cs : List CCable) : Option (Bus CPin) :=
  match findName (cs.map (·.data)) name with
  | some k => (cs[k]?).map fun c => ⟨c.lower, c.wires⟩
  | none => none

/-- the bit nets of the bus called `name`, in the order they appear in the text -/
def bitsOf (name : Str) (items : List NetItem) : List (Nat × List CPin) :=
  items.filterMap fun it => match it.idx with
    | some i => if it.name = name then some (i, it.pins) else none
    | none => none

theorem findName_append_other (ds : List Data) (d : Data) (n : Str) (h : nameOf d ≠ some n) :
    findName (ds ++ [d]) n = findName ds n := by
  unfold findName
  rw [List.findIdx?_append]
  cases hf : List.findIdx? (fun s => match nameOf s with | some a => a == n | none => false) ds with
  | some k => simp
  | none =>
    cases hd : nameOf d with
    | none => simp [List.findIdx?_cons, hd]
    | some a =>
      have hne : a ≠ n := fun e => h (by rw [hd, e])
      simp [List.findIdx?_cons, hd, hne]

theorem findName_set_same (cs : List CCable) (k : Nat) (c' : CCable) (n : Str) (ex : CCable) (hk : cs[k]? = some ex)
    (hd : c'.data = ex.data) : findName ((cs.set k c').map (·.data)) n = findName (cs.map (·.data)) n := by
  have : (cs.set k c').map (·.data) = cs.map (·.data) := by
    apply List.ext_getElem?
    intro j
    simp only [List.getElem?_map, List.getElem?_set]
    by_cases hj : k = j
    · subst hj
      have hlt : k < cs.length := by
        rcases Nat.lt_or_ge k cs.length with h | h
        · exact h
        · rw [List.getElem?_eq_none h] at hk; cases hk
      have hex : cs[k] = ex := by
        have := List.getElem?_eq_getElem hlt
        rw [this] at hk; exact Option.some.inj hk
      simp [hlt, hd, hex]
    · simp [hj]
  rw [this]


theorem findName_sound (ds : List Data) (n : Str) (k : Nat) (h : findName ds n = some k) :
    ∃ hk : k < ds.length, nameOf ds[k] = some n := by
  unfold findName at h
  rw [List.findIdx?_eq_some_iff_getElem] at h
  obtain ⟨hk, hp, _⟩ := h
  refine ⟨hk, ?_⟩
  cases hn : nameOf ds[k] with
  | none => simp [hn] at hp
  | some a => simp [hn] at hp; rw [hp]

theorem nameOf_scalarCable (d : Data) (p : List CPin) : nameOf (scalarCable d p).data = nameOf d := rfl

theorem busOf_append_other (cs : List CCable) (c : CCable) (name : Str) (h : nameOf c.data ≠ some name) :
    busOf name (cs ++ [c]) = busOf name cs := by
  unfold busOf
  have hf : findName ((cs ++ [c]).map (·.data)) name = findName (cs.map (·.data)) name := by
    rw [List.map_append]; exact findName_append_other _ _ _ h
  rw [hf]
  cases hk : findName (cs.map (·.data)) name with
  | none => rfl
  | some k =>
    have hlt := findName_lt _ _ _ hk
    simp only [List.length_map] at hlt
    simp [List.getElem?_append_left hlt]

theorem busOf_append_new (cs : List CCable) (c : CCable) (name : Str) (h : nameOf c.data = some name)
    (hnone : findName (cs.map (·.data)) name = none) :
    busOf name (cs ++ [c]) = some ⟨c.lower, c.wires⟩ := by
  unfold busOf
  have hf : findName ((cs ++ [c]).map (·.data)) name = some cs.length := by
    rw [List.map_append]
    have := findName_append_fresh (cs.map (·.data)) c.data name hnone h
    simpa using this
  rw [hf]
  simp

/-- a net of another name leaves the bus `name` alone -/
theorem busOf_netStep_other (cs : List CCable) (it : NetItem) (name : Str) (h : it.name ≠ name) :
    busOf name (netStep cs it) = busOf name cs := by
  unfold netStep
  cases hi : it.idx with
  | none =>
    simp only
    apply busOf_append_other
    rw [nameOf_scalarCable, nameOf_withName]
    intro e; exact h (Option.some.inj e)
  | some i =>
    simp only
    cases hf : findName (cs.map (·.data)) it.name with
    | none =>
      simp only
      apply busOf_append_other
      rw [nameOf_busCable]
      intro e; exact h (Option.some.inj e)
    | some k =>
      simp only
      cases hk : cs[k]? with
      | none => rfl
      | some ex =>
        simp only
        have hdata : (mergeInto ex i it.pins).data = ex.data := (mergeInto_eq ex i it.pins).2.2.1
        unfold busOf
        rw [findName_set_same cs k _ name ex hk hdata]
        cases hn : findName (cs.map (·.data)) name with
        | none => rfl
        | some k' =>
          have hne : k ≠ k' := by
            intro e
            subst e
            obtain ⟨h1, h2⟩ := findName_sound _ _ _ hf
            obtain ⟨h3, h4⟩ := findName_sound _ _ _ hn
            rw [h2] at h4
            exact h (Option.some.inj h4)
          simp [List.getElem?_set, hne]

/-- a bit net of the bus goes into it by one `stepBit` -/
theorem busOf_netStep_bit (cs : List CCable) (it : NetItem) (i : Nat) (hidx : it.idx = some i) :
    busOf it.name (netStep cs it) = stepBit (busOf it.name cs) (i, it.pins) := by
  unfold netStep
  simp only [hidx]
  cases hf : findName (cs.map (·.data)) it.name with
  | none =>
    simp only
    rw [busOf_append_new cs _ it.name (nameOf_busCable _ _ _ _) hf]
    simp [busOf, hf, stepBit, busCable]
  | some k =>
    have hlt := findName_lt _ _ _ hf
    simp only [List.length_map] at hlt
    have hk : cs[k]? = some cs[k] := List.getElem?_eq_getElem hlt
    simp only [hk]
    have hm := mergeInto_eq cs[k] i it.pins
    unfold busOf
    rw [findName_set_same cs k _ it.name cs[k] hk hm.2.2.1, hf]
    simp only [hk, Option.map_some, stepBit]
    simp [hlt, hm.1, hm.2.1]

/-- **the nets of a cell, in any order**: after all the nets, the cable of a bus holds exactly the
    fold of `multibit_add_cable`'s merge step over that bus's bit nets in their order of appearance —
    whatever other nets (scalar nets, bits of other buses) are interleaved with them -/
theorem busOf_foldl (items : List NetItem) (cs : List CCable) (name : Str)
    (hbus : ∀ it ∈ items, it.name = name → it.idx.isSome = true) :
    busOf name (items.foldl netStep cs) = (bitsOf name items).foldl stepBit (busOf name cs) := by
  induction items generalizing cs with
  | nil => rfl
  | cons it r ih =>
    simp only [List.foldl_cons]
    rw [ih _ (fun x hx => hbus x (by simp [hx]))]
    by_cases hn : it.name = name
    · have hs := hbus it (by simp) hn
      cases hi : it.idx with
      | none => simp [hi] at hs
      | some i =>
        subst hn
        rw [busOf_netStep_bit cs it i hi]
        simp [bitsOf, hi]
    · rw [busOf_netStep_other cs it name hn]
      have : bitsOf name (it :: r) = bitsOf name r := by
        simp only [bitsOf, List.filterMap_cons]
        cases hi : it.idx with
        | none => rfl
        | some i => simp [hn]
      rw [this]


/-! ### the real `multibit_add_cable` follows `netStep` -/

/-- what the text must satisfy (C05's abstract designs do): every net named, identifiers legal; a
    scalar net is not named like a bus bit; nets with the same (cable) name are bits of one bus;
    different cables have identifiers that differ even ignoring case; scalar nets occur once -/
structure NetsWF (items : List NetItem) : Prop where
  each : ∀ it ∈ items, it.name ≠ [] ∧ checkEdifIdentifier it.ident = true ∧
    (match it.idx with
     | none => (sepName it.name).1 = none
     | some i => bracketAllowed (bitName it.name i) = true)
  same : ∀ a ∈ items, ∀ b ∈ items, a.name = b.name → a.ident = b.ident ∧ a.idx.isSome = b.idx.isSome
  diff : ∀ a ∈ items, ∀ b ∈ items, a.name ≠ b.name → lower a.ident ≠ lower b.ident
  scalar_once : ((items.filter (fun it => it.idx.isNone)).map (·.name)).Nodup

theorem withName_nil_setIdent (a b n x : Str) :
    (withName [] a n).set kIDENT (.str x) = (withName [] b n).set kIDENT (.str x) := by
  have h1 : ¬ (kNAME = kIDENT) := by decide
  have h2 : ¬ (kIDENT = kNAME) := by decide
  simp only [withName, Data.set, h1, h2, if_false, if_true]

/-- `multibitAdd_newBus` with any index `j` in the identifier: only the name's index counts -/
theorem multibitAdd_newBus2 (cs : List CCable) (ident name : Str) (i j : Nat) (pins : List CPin)
    (hba : bracketAllowed (bitName name i) = true)
    (hc : checkEdifIdentifier ident = true)
    (hfn : findName (cs.map (·.data)) name = none)
    (hfi : findIdent (cs.map (·.data)) ident = none)
    (hconf : conflicts (cs.map (·.data)) (busCable ident name i [pins]).data = false) :
    multibitAdd cs (withName [] (bitIdent ident j) (bitName name i)) pins =
      .ok (cs ++ [busCable ident name i [pins]]) := by
  unfold multibitAdd
  simp only [identOf_withName, nameOf_withName, bitName_ne_nil, if_false, sepIdent_bitIdent,
    sepName_bitName name i hba, Option.isNone_some, Bool.false_eq_true, hfn, hfi, hc, Bool.not_true]
  simp only [busCable] at hconf
  rw [withName_nil_setIdent (bitIdent ident j) (bitIdent ident i)]
  simp [hconf, busCable, pure, Except.pure]

/-- `multibitAdd_merge` with any index `j` in the identifier -/
theorem multibitAdd_merge2 (cs : List CCable) (ident name : Str) (i j k : Nat) (ex : CCable) (pins : List CPin)
    (hba : bracketAllowed (bitName name i) = true)
    (hfn : findName (cs.map (·.data)) name = some k) (hk : cs[k]? = some ex) (harr : ex.isArray = true) :
    multibitAdd cs (withName [] (bitIdent ident j) (bitName name i)) pins = .ok (cs.set k (mergeInto ex i pins)) := by
  unfold multibitAdd
  simp only [identOf_withName, nameOf_withName, bitName_ne_nil, if_false, sepIdent_bitIdent,
    sepName_bitName name i hba, Option.isNone_some, Bool.false_eq_true, hfn, hk, harr, Bool.not_true,
    pure, Except.pure]

/-- every cable built so far comes from a net already read -/
def FromItems (done : List NetItem) (cs : List CCable) : Prop :=
  ∀ c ∈ cs, ∃ it ∈ done, nameOf c.data = some it.name ∧ identOf c.data = some it.ident ∧
    (it.idx.isSome = true → c.scalarFlag = false)

theorem isArray_of_flag (c : CCable) (h : c.scalarFlag = false) : c.isArray = true := by
  simp [CCable.isArray, CCable.isScalar, h]

theorem FromItems_netStep (done : List NetItem) (cs : List CCable) (it : NetItem) (h : FromItems done cs) :
    FromItems (done ++ [it]) (netStep cs it) := by
  have hmono : ∀ c : CCable, (∃ x ∈ done, nameOf c.data = some x.name ∧ identOf c.data = some x.ident ∧ (x.idx.isSome = true → c.scalarFlag = false)) →
      ∃ x ∈ done ++ [it], nameOf c.data = some x.name ∧ identOf c.data = some x.ident ∧ (x.idx.isSome = true → c.scalarFlag = false) := by
    intro c ⟨x, hx, hr⟩
    exact ⟨x, by simp [hx], hr⟩
  unfold netStep
  cases hi : it.idx with
  | none =>
    simp only
    intro c hc
    rcases List.mem_append.mp hc with hc | hc
    · exact hmono c (h c hc)
    · simp only [List.mem_singleton] at hc
      subst hc
      exact ⟨it, by simp, by rw [nameOf_scalarCable, nameOf_withName], by simp [scalarCable, identOf_withName], by simp [hi]⟩
  | some i =>
    simp only
    cases hf : findName (cs.map (·.data)) it.name with
    | none =>
      simp only
      intro c hc
      rcases List.mem_append.mp hc with hc | hc
      · exact hmono c (h c hc)
      · simp only [List.mem_singleton] at hc
        subst hc
        exact ⟨it, by simp, nameOf_busCable _ _ _ _, identOf_busCable _ _ _ _, fun _ => rfl⟩
    | some k =>
      simp only
      cases hk : cs[k]? with
      | none => simp only; intro c hc; exact hmono c (h c hc)
      | some ex =>
        simp only
        intro c hc
        rcases List.mem_or_eq_of_mem_set hc with hc | hc
        · exact hmono c (h c hc)
        · subst hc
          have hm := mergeInto_eq ex i it.pins
          have hex : ex ∈ cs := List.mem_of_getElem? hk
          obtain ⟨x, hx, h1, h2, h3⟩ := h ex hex
          exact ⟨x, by simp [hx], by rw [hm.2.2.1]; exact h1, by rw [hm.2.2.1]; exact h2, by rw [hm.2.2.2]; exact h3⟩

theorem multibitAdd_netStep (items done : List NetItem) (it : NetItem) (rest : List NetItem) (cs : List CCable)
    (hwf : NetsWF items) (hsplit : items = done ++ it :: rest) (hfrom : FromItems done cs) :
    multibitAdd cs it.data it.pins = .ok (netStep cs it) := by
  have hit : it ∈ items := by rw [hsplit]; simp
  have hdone : ∀ x ∈ done, x ∈ items := by intro x hx; rw [hsplit]; simp [hx]
  obtain ⟨hne, hc, hkind⟩ := hwf.each it hit
  -- a cable with the identifier of `it` (ignoring case) has the name of `it`
  have hident_name : findName (cs.map (·.data)) it.name = none → findIdent (cs.map (·.data)) it.ident = none := by
    intro hfn
    apply findIdent_undeclared
    intro s hs b hb
    obtain ⟨c, hcmem, rfl⟩ := List.mem_map.mp hs
    obtain ⟨x, hx, h1, h2, _⟩ := hfrom c hcmem
    rw [h2] at hb
    have hbx : b = x.ident := (Option.some.inj hb).symm
    subst hbx
    by_cases hnm : x.name = it.name
    · exfalso
      unfold findName at hfn
      rw [List.findIdx?_eq_none_iff] at hfn
      have := hfn c.data (List.mem_map_of_mem hcmem)
      simp [h1, hnm] at this
    · exact hwf.diff x (hdone x hx) it hit hnm
  unfold netStep
  cases hi : it.idx with
  | none =>
    simp only [hi] at hkind
    have hfn : findName (cs.map (·.data)) it.name = none := by
      unfold findName
      rw [List.findIdx?_eq_none_iff]
      intro s hs
      obtain ⟨c, hcmem, rfl⟩ := List.mem_map.mp hs
      obtain ⟨x, hx, h1, _, _⟩ := hfrom c hcmem
      rw [h1]
      simp only [beq_eq_false_iff_ne, ne_eq]
      intro hxn
      -- x is a scalar net with the same name, earlier in the list: contradicts scalar_once
      have hsame := (hwf.same x (hdone x hx) it hit hxn).2
      rw [hi] at hsame
      have hxs : x.idx.isNone = true := by
        cases hxi : x.idx with
        | none => rfl
        | some _ => simp [hxi] at hsame
      have hnd := hwf.scalar_once
      rw [hsplit, List.filter_append, List.map_append] at hnd
      have hdisj := (List.nodup_append.mp hnd).2.2
      have h1' : x.name ∈ (done.filter (fun it => it.idx.isNone)).map (·.name) :=
        List.mem_map_of_mem (List.mem_filter.mpr ⟨hx, hxs⟩)
      have h2' : it.name ∈ ((it :: rest).filter (fun it => it.idx.isNone)).map (·.name) :=
        List.mem_map_of_mem (List.mem_filter.mpr ⟨by simp, by simp [hi]⟩)
      exact hdisj _ h1' _ h2' hxn
    have hconf := conflicts_false_of_fresh (cs.map (·.data)) (withName [] it.ident it.name) it.ident it.name
      (identOf_withName _ _ _) (nameOf_withName _ _ _) hfn (hident_name hfn)
    have hd : it.data = withName [] it.ident it.name := by simp [NetItem.data, hi]
    rw [hd]
    exact multibitAdd_scalar cs _ it.ident it.name it.pins (identOf_withName _ _ _) (nameOf_withName _ _ _) hne hkind hfn hconf
  | some i =>
    simp only [hi] at hkind
    have hd : it.data = withName [] (bitIdent it.ident it.iidx) (bitName it.name i) := by simp [NetItem.data, hi]
    rw [hd]
    cases hf : findName (cs.map (·.data)) it.name with
    | none =>
      simp only
      have hfi := hident_name hf
      have hconf := conflicts_false_of_fresh (cs.map (·.data)) (busCable it.ident it.name i [it.pins]).data it.ident it.name
        (identOf_busCable _ _ _ _) (nameOf_busCable _ _ _ _) hf hfi
      exact multibitAdd_newBus2 cs it.ident it.name i it.iidx it.pins hkind hc hf hfi hconf
    | some k =>
      have hlt := findName_lt _ _ _ hf
      simp only [List.length_map] at hlt
      have hk : cs[k]? = some cs[k] := List.getElem?_eq_getElem hlt
      simp only [hk]
      obtain ⟨_, hnk⟩ := findName_sound _ _ _ hf
      simp only [List.getElem_map] at hnk
      obtain ⟨x, hx, h1, _, h3⟩ := hfrom cs[k] (List.getElem_mem hlt)
      rw [hnk] at h1
      have hxn : x.name = it.name := (Option.some.inj h1).symm
      have hsame := (hwf.same x (hdone x hx) it hit hxn).2
      rw [hi] at hsame
      exact multibitAdd_merge2 cs it.ident it.name i it.iidx k cs[k] it.pins hkind hf hk (isArray_of_flag _ (h3 (by simpa using hsame)))

/-- the reader's net loop computes `netStep` on well-formed texts -/
theorem foldlM_multibitAdd (items : List NetItem) (hwf : NetsWF items) :
    ∀ (done rest : List NetItem) (cs : List CCable), items = done ++ rest → FromItems done cs →
      rest.foldlM (fun cs it => multibitAdd cs it.data it.pins) cs = .ok (rest.foldl netStep cs) := by
  intro done rest
  induction rest generalizing done with
  | nil => intro cs _ _; rfl
  | cons it r ih =>
    intro cs hsplit hfrom
    simp only [List.foldlM_cons, List.foldl_cons, multibitAdd_netStep items done it r cs hwf hsplit hfrom, bind, Except.bind]
    exact ih (done ++ [it]) (netStep cs it) (by simp [hsplit]) (FromItems_netStep done cs it hfrom)


theorem busOf_nil (name : Str) : busOf name [] = none := rfl

theorem bitsOf_ne_nil (name : Str) (items : List NetItem) (it : NetItem) (hit : it ∈ items) (hn : it.name = name)
    (i : Nat) (hi : it.idx = some i) : bitsOf name items ≠ [] := by
  intro h
  have : (i, it.pins) ∈ bitsOf name items := by
    unfold bitsOf
    rw [List.mem_filterMap]
    exact ⟨it, hit, by simp [hi, hn]⟩
  rw [h] at this
  cases this

/-- **nets_any_order** — C05's central sentence on the reader's own `multibit_add_cable`:
    for every well-formed list of nets of a cell (scalar nets and bit nets `name[i]` / `id_i_` of any
    number of buses, interleaved in ANY order, with ANY bits missing) the reader's net loop succeeds,
    and for every bus whose bit indices are pairwise distinct the result contains ONE cable of that
    name in which bit `k` holds exactly the pins the text gives for index `k` (nothing for a missing
    bit), based at the least index present and ending at the greatest. -/
theorem nets_any_order (items : List NetItem) (hwf : NetsWF items) :
    ∃ cs, items.foldlM (fun cs it => multibitAdd cs it.data it.pins) [] = .ok cs ∧
      ∀ it ∈ items, ∀ i, it.idx = some i → ((bitsOf it.name items).map (·.1)).Nodup →
        ∃ c, busOf it.name cs = some c ∧ c.ws ≠ [] ∧
          (∀ k, c.bit k = pinsAt (bitsOf it.name items) k) ∧
          (∀ j, j < c.ws.length → c.ws.getD j [] = pinsAt (bitsOf it.name items) (c.lo + j)) ∧
          c.lo ∈ (bitsOf it.name items).map (·.1) ∧
          (∀ x ∈ (bitsOf it.name items).map (·.1), c.lo ≤ x ∧ x < c.lo + c.ws.length) ∧
          (∃ x ∈ (bitsOf it.name items).map (·.1), c.lo + c.ws.length = x + 1) := by
  refine ⟨items.foldl netStep [], ?_, ?_⟩
  · exact foldlM_multibitAdd items hwf [] items [] rfl (by intro c hc; cases hc)
  · intro it hit i hi hnd
    have hbus : ∀ x ∈ items, x.name = it.name → x.idx.isSome = true := by
      intro x hx hxn
      have := (hwf.same x hx it hit hxn).2
      rw [hi] at this
      simpa using this
    rw [busOf_foldl items [] it.name hbus, busOf_nil]
    exact multibit_merge (bitsOf it.name items) (bitsOf_ne_nil it.name items it hit rfl i hi) hnd

/-- a scalar net whose name no cable carries yet becomes the cable of that name -/
theorem busOf_netStep_scalar (cs : List CCable) (it : NetItem) (hidx : it.idx = none)
    (hnone : findName (cs.map (·.data)) it.name = none) :
    busOf it.name (netStep cs it) = some ⟨0, [it.pins]⟩ := by
  unfold netStep
  simp only [hidx]
  rw [busOf_append_new cs _ it.name (by rw [nameOf_scalarCable, nameOf_withName]) hnone]
  rfl

theorem findName_none_of_fromItems (done : List NetItem) (cs : List CCable) (name : Str)
    (hfrom : FromItems done cs) (h : ∀ x ∈ done, x.name ≠ name) : findName (cs.map (·.data)) name = none := by
  unfold findName
  rw [List.findIdx?_eq_none_iff]
  intro s hs
  obtain ⟨c, hc, rfl⟩ := List.mem_map.mp hs
  obtain ⟨x, hx, h1, _, _⟩ := hfrom c hc
  rw [h1]
  simp only [beq_eq_false_iff_ne, ne_eq]
  exact h x hx

theorem fromItems_foldl (items done : List NetItem) (cs : List CCable) (h : FromItems done cs) :
    FromItems (done ++ items) (items.foldl netStep cs) := by
  induction items generalizing done cs with
  | nil => simpa using h
  | cons it r ih =>
    have := ih (done ++ [it]) (netStep cs it) (FromItems_netStep done cs it h)
    simpa using this

/-- **scalar nets survive**: in a well-formed net list every scalar net ends as the one-wire cable of
    its name carrying exactly its pins, wherever it stands among the bit nets -/
theorem scalar_survives (items : List NetItem) (hwf : NetsWF items) (it : NetItem) (hit : it ∈ items)
    (hidx : it.idx = none) : busOf it.name (items.foldl netStep []) = some ⟨0, [it.pins]⟩ := by
  obtain ⟨done, rest, hsplit⟩ := List.append_of_mem hit
  -- no other item carries this name
  have hnd := hwf.scalar_once
  have hother : ∀ x, x ∈ done ∨ x ∈ rest → x.name ≠ it.name := by
    intro x hx hxn
    have hxmem : x ∈ items := by rw [hsplit]; rcases hx with h | h <;> simp [h]
    have hsame := (hwf.same x hxmem it hit hxn).2
    rw [hidx] at hsame
    have hxs : x.idx.isNone = true := by
      cases hxi : x.idx with
      | none => rfl
      | some _ => simp [hxi] at hsame
    rw [hsplit, List.filter_append, List.map_append] at hnd
    have hnd2 := List.nodup_append.mp hnd
    have hitf : it.name ∈ ((it :: rest).filter (fun y => y.idx.isNone)).map (·.name) :=
      List.mem_map_of_mem (List.mem_filter.mpr ⟨by simp, by simp [hidx]⟩)
    rcases hx with h | h
    · have hx1 : x.name ∈ (done.filter (fun y => y.idx.isNone)).map (·.name) :=
        List.mem_map_of_mem (List.mem_filter.mpr ⟨h, hxs⟩)
      exact hnd2.2.2 _ hx1 _ hitf hxn
    · have hfil : (it :: rest).filter (fun y => y.idx.isNone) = it :: rest.filter (fun y => y.idx.isNone) := by
        simp [List.filter_cons, hidx]
      rw [hfil, List.map_cons] at hnd2
      have := (List.nodup_cons.mp hnd2.2.1).1
      apply this
      rw [← hxn]
      exact List.mem_map_of_mem (List.mem_filter.mpr ⟨h, hxs⟩)
  rw [hsplit, List.foldl_append, List.foldl_cons]
  have hfrom : FromItems done (done.foldl netStep []) := by
    have := fromItems_foldl done [] [] (by intro c hc; cases hc)
    simpa using this
  have hnone := findName_none_of_fromItems done _ it.name hfrom (fun x hx => hother x (Or.inl hx))
  have hstep := busOf_netStep_scalar (done.foldl netStep []) it hidx hnone
  -- the rest leaves it alone
  have hrest : ∀ (r : List NetItem) (cs : List CCable), (∀ x ∈ r, x.name ≠ it.name) →
      busOf it.name (r.foldl netStep cs) = busOf it.name cs := by
    intro r
    induction r with
    | nil => intro cs _; rfl
    | cons y r ih =>
      intro cs h
      rw [List.foldl_cons, ih _ (fun x hx => h x (by simp [hx])), busOf_netStep_other cs y it.name (h y (by simp))]
  rw [hrest rest _ (fun x hx => hother x (Or.inr hx)), hstep]


/-! ### exactly one cable per declared name -/

def cableNames (cs : List CCable) : List (Option Str) := cs.map fun c => nameOf c.data

theorem findName_none_iff (cs : List CCable) (n : Str) :
    findName (cs.map (·.data)) n = none ↔ some n ∉ cableNames cs := by
  unfold findName cableNames
  rw [List.findIdx?_eq_none_iff]
  constructor
  · intro h hm
    obtain ⟨c, hc, hn⟩ := List.mem_map.mp hm
    have := h c.data (List.mem_map_of_mem hc)
    simp [hn] at this
  · intro h s hs
    obtain ⟨c, hc, rfl⟩ := List.mem_map.mp hs
    cases hn : nameOf c.data with
    | none => rfl
    | some a =>
      simp only [beq_eq_false_iff_ne, ne_eq]
      intro e
      exact h (List.mem_map.mpr ⟨c, hc, by rw [hn, e]⟩)

theorem cableNames_set (cs : List CCable) (k : Nat) (c' ex : CCable) (hk : cs[k]? = some ex) (hd : c'.data = ex.data) :
    cableNames (cs.set k c') = cableNames cs := by
  unfold cableNames
  apply List.ext_getElem?
  intro j
  simp only [List.getElem?_map, List.getElem?_set]
  by_cases hj : k = j
  · subst hj
    have hlt : k < cs.length := by
      rcases Nat.lt_or_ge k cs.length with h | h
      · exact h
      · rw [List.getElem?_eq_none h] at hk; cases hk
    have hex : cs[k] = ex := by
      have := List.getElem?_eq_getElem hlt
      rw [this] at hk; exact Option.some.inj hk
    simp [hlt, hd, hex]
  · simp [hj]

/-- names of the cables = names the nets read so far declare, each once -/
structure NamesInv (done : List NetItem) (cs : List CCable) : Prop where
  nodup : (cableNames cs).Nodup
  complete : ∀ x ∈ done, some x.name ∈ cableNames cs
  sound : ∀ o ∈ cableNames cs, ∃ x ∈ done, o = some x.name

theorem namesInv_step (items done : List NetItem) (it : NetItem) (rest : List NetItem) (cs : List CCable)
    (hwf : NetsWF items) (hsplit : items = done ++ it :: rest) (hinv : NamesInv done cs) :
    NamesInv (done ++ [it]) (netStep cs it) := by
  have hit : it ∈ items := by rw [hsplit]; simp
  have happend : ∀ c : CCable, nameOf c.data = some it.name → some it.name ∉ cableNames cs →
      NamesInv (done ++ [it]) (cs ++ [c]) := by
    intro c hc hnot
    refine ⟨?_, ?_, ?_⟩
    · simp only [cableNames, List.map_append, List.map_cons, List.map_nil, hc]
      rw [List.nodup_append]
      refine ⟨hinv.nodup, by simp, ?_⟩
      intro a ha b hb
      simp only [List.mem_singleton] at hb
      subst hb
      intro e; subst e; exact hnot ha
    · intro x hx
      simp only [cableNames, List.map_append, List.map_cons, List.map_nil, hc, List.mem_append, List.mem_singleton]
      rcases List.mem_append.mp hx with h | h
      · left; exact hinv.complete x h
      · simp only [List.mem_singleton] at h; subst h; right; rfl
    · intro o ho
      simp only [cableNames, List.map_append, List.map_cons, List.map_nil, hc, List.mem_append, List.mem_singleton] at ho
      rcases ho with h | h
      · obtain ⟨x, hx, e⟩ := hinv.sound o h
        exact ⟨x, by simp [hx], e⟩
      · exact ⟨it, by simp, h⟩
  unfold netStep
  cases hi : it.idx with
  | none =>
    simp only
    apply happend _ (by rw [nameOf_scalarCable, nameOf_withName])
    intro hm
    obtain ⟨x, hx, e⟩ := hinv.sound _ hm
    have hxn : x.name = it.name := (Option.some.inj e).symm
    have hxmem : x ∈ items := by rw [hsplit]; simp [hx]
    have hsame := (hwf.same x hxmem it hit hxn).2
    rw [hi] at hsame
    have hxs : x.idx.isNone = true := by
      cases hxi : x.idx with
      | none => rfl
      | some _ => simp [hxi] at hsame
    have hnd := hwf.scalar_once
    rw [hsplit, List.filter_append, List.map_append] at hnd
    have hdisj := (List.nodup_append.mp hnd).2.2
    exact hdisj _ (List.mem_map_of_mem (List.mem_filter.mpr ⟨hx, hxs⟩)) _
      (List.mem_map_of_mem (List.mem_filter.mpr ⟨by simp, by simp [hi]⟩)) hxn
  | some i =>
    simp only
    cases hf : findName (cs.map (·.data)) it.name with
    | none =>
      simp only
      exact happend _ (nameOf_busCable _ _ _ _) ((findName_none_iff cs it.name).mp hf)
    | some k =>
      have hlt := findName_lt _ _ _ hf
      simp only [List.length_map] at hlt
      have hk : cs[k]? = some cs[k] := List.getElem?_eq_getElem hlt
      simp only [hk]
      have hnames := cableNames_set cs k (mergeInto cs[k] i it.pins) cs[k] hk (mergeInto_eq cs[k] i it.pins).2.2.1
      obtain ⟨_, hnk⟩ := findName_sound _ _ _ hf
      simp only [List.getElem_map] at hnk
      have hpresent : some it.name ∈ cableNames cs := by
        unfold cableNames
        exact List.mem_map.mpr ⟨cs[k], List.getElem_mem hlt, hnk⟩
      refine ⟨by rw [hnames]; exact hinv.nodup, ?_, ?_⟩
      · intro x hx
        rw [hnames]
        rcases List.mem_append.mp hx with h | h
        · exact hinv.complete x h
        · simp only [List.mem_singleton] at h; subst h; exact hpresent
      · intro o ho
        rw [hnames] at ho
        obtain ⟨x, hx, e⟩ := hinv.sound o ho
        exact ⟨x, by simp [hx], e⟩

theorem namesInv_foldl (items : List NetItem) (hwf : NetsWF items) :
    ∀ (done rest : List NetItem) (cs : List CCable), items = done ++ rest → NamesInv done cs →
      NamesInv (done ++ rest) (rest.foldl netStep cs) := by
  intro done rest
  induction rest generalizing done with
  | nil => intro cs _ h; simpa using h
  | cons it r ih =>
    intro cs hsplit hinv
    have := ih (done ++ [it]) (netStep cs it) (by simp [hsplit]) (namesInv_step items done it r cs hwf hsplit hinv)
    simpa using this

/-- **one cable per declared name**: after a well-formed net list the cables carry pairwise different
    names and these are exactly the (cable-level) names the nets declare — nothing is lost, nothing is
    invented, nothing is merged across names -/
theorem one_cable_per_name (items : List NetItem) (hwf : NetsWF items) :
    (cableNames (items.foldl netStep [])).Nodup ∧
    (∀ x ∈ items, some x.name ∈ cableNames (items.foldl netStep [])) ∧
    (∀ o ∈ cableNames (items.foldl netStep []), ∃ x ∈ items, o = some x.name) := by
  have := namesInv_foldl items hwf [] items [] rfl
    ⟨(by simp [cableNames]), (fun x hx => by cases hx), (fun o ho => by simp [cableNames] at ho)⟩
  exact ⟨this.nodup, by simpa using this.complete, by simpa using this.sound⟩

end Spydr.Edif
