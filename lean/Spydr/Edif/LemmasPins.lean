/-
  member_index: `(member p k)` is pin k of port p; a portRef written by the writer is read back as
  the very pin it was written for.
-/
import Spydr.Edif.LemmasNames
namespace Spydr.Edif

theorem pyIndex_nat (len k : Nat) (h : k < len) : pyIndex len (Int.ofNat k) = some k := by
  unfold pyIndex
  simp [h]

theorem intOfS_natStr (k : Nat) : intOfS (.atom (natStr k)) = .ok (Int.ofNat k) := by
  simp [intOfS, intTok_natStr, pure, Except.pure]

theorem identOfS_atom (s : Str) (h : validIdentTok s = true) : identOfS (.atom s) = .ok s := by
  simp [identOfS, h, pure, Except.pure]

/-- keyword tests on the writer's own keywords evaluate -/
theorem headIs_cons (s : String) (k : String) (xs : List SExp) :
    headIs (A s :: xs) k = (lower s.toList == k.toList) := by
  simp [headIs, isKw, A, S]

/-- **member_index** (port of the cell itself): `(portRef (member P k))`, `P` any spelling that
    resolves to port `pi` of width > k, is pin `k` of that port. -/
theorem member_index_port (cx : DefCtx) (P : Str) (k pi : Nat) (p : CPort)
    (hid : validIdentTok P = true)
    (hf : findIdent (cx.ports.map (·.data)) P = some pi) (hp : cx.ports[pi]? = some p) (hk : k < p.width) :
    parsePortRef cx [A "portref", .list [A "member", .atom P, .atom (natStr k)]] = .ok (.port pi k) := by
  have hm : headIs [A "member", SExp.atom P, SExp.atom (natStr k)] "member" = true := by
    rw [headIs_cons]; decide
  simp only [parsePortRef, List.tail_cons, parseMember, hm, Bool.not_true, Bool.false_eq_true, if_false,
    identOfS_atom P hid, intOfS_natStr, loopC, endC, bind, Except.bind, pure, Except.pure, hf, hp,
    pyIndex_nat p.width k hk]

/-- scalar form: `(portRef P)` is pin 0 -/
theorem scalar_index_port (cx : DefCtx) (P : Str) (pi : Nat) (p : CPort)
    (hid : validIdentTok P = true)
    (hf : findIdent (cx.ports.map (·.data)) P = some pi) (hp : cx.ports[pi]? = some p) (hk : 0 < p.width) :
    parsePortRef cx [A "portref", .atom P] = .ok (.port pi 0) := by
  have h0 : pyIndex p.width 0 = some 0 := pyIndex_nat p.width 0 hk
  simp only [parsePortRef, List.tail_cons, identOfS_atom P hid, loopC, endC, bind, Except.bind, pure,
    Except.pure, hf, hp, h0]

theorem instanceRefOf_atom (cx : DefCtx) (I : Str) (ii : Nat) (hid : validIdentTok I = true)
    (hf : findIdent (cx.insts.map (·.data)) I = some ii) :
    instanceRefOf cx [A "instanceref", .atom I] = .ok ii := by
  simp [instanceRefOf, identOfS_atom I hid, hf, bind, Except.bind, pure, Except.pure]

theorem portRefTail_instanceref (cx : DefCtx) (cur : Option Nat) (I : Str) (ii : Nat) (hid : validIdentTok I = true)
    (hf : findIdent (cx.insts.map (·.data)) I = some ii) :
    portRefTail cx cur [A "instanceref", .atom I] = .ok (some ii) := by
  have h1 : headIs [A "instanceref", SExp.atom I] "portref" = false := by rw [headIs_cons]; decide
  have h2 : headIs [A "instanceref", SExp.atom I] "instanceref" = true := by rw [headIs_cons]; decide
  simp [portRefTail, h1, h2, instanceRefOf_atom cx I ii hid hf, bind, Except.bind, pure, Except.pure]

/-- **member_index** (pin of an instance): `(portRef (member P k) (instanceRef I))` is pin `k` of
    port `P` of the cell that instance `I` references. -/
theorem member_index_inst (cx : DefCtx) (P I : Str) (k pi ii li di : Nat) (inst : CInst) (d : CDef) (p : CPort)
    (hP : validIdentTok P = true) (hI : validIdentTok I = true)
    (hfi : findIdent (cx.insts.map (·.data)) I = some ii) (hi : cx.insts[ii]? = some inst)
    (hr : inst.ref = some (li, di)) (hd : (defsOfLib cx.sc li)[di]? = some d)
    (hf : findIdent (d.ports.map (·.data)) P = some pi) (hp : d.ports[pi]? = some p) (hk : k < p.width) :
    parsePortRef cx [A "portref", .list [A "member", .atom P, .atom (natStr k)], .list [A "instanceref", .atom I]]
      = .ok (.inst ii pi k) := by
  have hm : headIs [A "member", SExp.atom P, SExp.atom (natStr k)] "member" = true := by
    rw [headIs_cons]; decide
  simp only [parsePortRef, List.tail_cons, parseMember, hm, Bool.not_true, Bool.false_eq_true, if_false,
    identOfS_atom P hP, intOfS_natStr, loopC, portRefTail_instanceref cx none I ii hI hfi, endC, bind,
    Except.bind, pure, Except.pure, hi, hr, hd, hf, hp, pyIndex_nat p.width k hk]

theorem scalar_index_inst (cx : DefCtx) (P I : Str) (pi ii li di : Nat) (inst : CInst) (d : CDef) (p : CPort)
    (hP : validIdentTok P = true) (hI : validIdentTok I = true)
    (hfi : findIdent (cx.insts.map (·.data)) I = some ii) (hi : cx.insts[ii]? = some inst)
    (hr : inst.ref = some (li, di)) (hd : (defsOfLib cx.sc li)[di]? = some d)
    (hf : findIdent (d.ports.map (·.data)) P = some pi) (hp : d.ports[pi]? = some p) (hk : 0 < p.width) :
    parsePortRef cx [A "portref", .atom P, .list [A "instanceref", .atom I]] = .ok (.inst ii pi 0) := by
  have h0 : pyIndex p.width 0 = some 0 := pyIndex_nat p.width 0 hk
  simp only [parsePortRef, List.tail_cons, identOfS_atom P hP, loopC,
    portRefTail_instanceref cx none I ii hI hfi, endC, bind, Except.bind, pure, Except.pure, hi, hr, hd, hf, hp, h0]

end Spydr.Edif
