/-
  Writer → reader, construct by construct: what the reader makes of the s-expressions the writer
  emits (names, ports, pins, nets, instances).
-/
import Spydr.Edif.LemmasPins
namespace Spydr.Edif

/-! ### dictionaries -/

theorem Data.get?_set_self (d : Data) (k : Str) (v : Val) : (d.set k v).get? k = some v := by
  induction d with
  | nil => simp [Data.set, Data.get?]
  | cons a r ih =>
    obtain ⟨k', v'⟩ := a
    by_cases h : k' = k
    · simp [Data.set, Data.get?, h]
    · simp [Data.set, Data.get?, h, ih]

theorem Data.get?_set_other (d : Data) (k k2 : Str) (v : Val) (h : k2 ≠ k) : (d.set k v).get? k2 = d.get? k2 := by
  induction d with
  | nil => simp [Data.set, Data.get?, Ne.symm h]
  | cons a r ih =>
    obtain ⟨k', v'⟩ := a
    by_cases h1 : k' = k
    · subst h1
      simp [Data.set, Data.get?, Ne.symm h]
    · by_cases h2 : k' = k2
      · subst h2
        simp [Data.set, Data.get?, h1]
      · simp [Data.set, Data.get?, h1, h2, ih]

theorem Data.set_of_get? (d : Data) (k : Str) (v : Val) (h : d.get? k = some v) : d.set k v = d := by
  induction d with
  | nil => simp [Data.get?] at h
  | cons a r ih =>
    obtain ⟨k', v'⟩ := a
    by_cases h1 : k' = k
    · subst h1
      simp only [Data.get?, if_true, Option.some.injEq] at h
      simp [Data.set, h]
    · simp only [Data.get?, h1, if_false] at h
      simp [Data.set, h1, ih h]

theorem kNAME_ne_kIDENT : kNAME ≠ kIDENT := by decide

/-- the dictionary the reader builds for `name` / `(rename ident "name")` on top of `d` -/
def withName (d : Data) (ident name : Str) : Data :=
  ((d.set kNAME (.str ident)).set kIDENT (.str ident)).set kNAME (.str name)

theorem nameOf_withName (d : Data) (i n : Str) : nameOf (withName d i n) = some n := by
  simp [nameOf, Data.getStr?, withName, Data.get?_set_self]

theorem identOf_withName (d : Data) (i n : Str) : identOf (withName d i n) = some i := by
  simp [identOf, Data.getStr?, withName, Data.get?_set_other _ _ _ _ kNAME_ne_kIDENT.symm, Data.get?_set_self]

theorem get?_withName_other (d : Data) (i n k : Str) (h1 : k ≠ kNAME) (h2 : k ≠ kIDENT) :
    (withName d i n).get? k = d.get? k := by
  simp [withName, Data.get?_set_other _ _ _ _ h1, Data.get?_set_other _ _ _ _ h2]

/-! ### tokens -/

theorem validIdentTok_of_check (s : Str) (h : checkEdifIdentifier s = true) : validIdentTok s = true := by
  unfold checkEdifIdentifier at h
  unfold validIdentTok
  split at h
  · cases h
  · rename_i r
    simp only [Bool.and_eq_true, decide_eq_true_eq] at h
    have := h.1.2
    simp only [Bool.and_eq_true, Bool.or_eq_true, beq_self_eq_true, or_true, true_and, decide_eq_true_eq]
    exact this
  · rename_i c r hne
    simp only [Bool.and_eq_true, decide_eq_true_eq] at h
    have h1 := h.1.1
    have h2 := h.1.2
    simp only [Bool.and_eq_true, Bool.or_eq_true, h2, true_or, true_and, decide_eq_true_eq]
    omega

theorem stringTok_qtok (s : Str) (h : s.all isStringChar = true) : stringOfS (qtok s) = .ok s := by
  unfold qtok stringOfS stringTok
  simp [h, pure, Except.pure]

/-! ### names -/

/-- what the writer needs of an element dictionary, and the C03 quantifier's "names free of double
    quotes / newlines" (here: printable ASCII, decision 8) -/
structure NamedOK (d : Data) (ident name : Str) : Prop where
  hi : identOf d = some ident
  hc : checkEdifIdentifier ident = true
  hn : d.get? kNAME = some (.str name)
  hs : name.all isStringChar = true

theorem key_push (m : Meta) (s : String) : (m.push s).key = joinDot (m.pfx ++ [S s]) := rfl
theorem key_mk (d : Data) (p : List Str) : ({ data := d, pfx := p } : Meta).key = joinDot p := rfl

theorem joinDot_ident : joinDot [S "EDIF", S "identifier"] = kIDENT := by decide
theorem joinDot_orig : joinDot [S "EDIF", S "original_identifier"] = S "EDIF.original_identifier" := by decide
theorem kIDENT_ne_orig : kIDENT ≠ S "EDIF.original_identifier" := by decide

/-- setting the identifier on a fresh element (explicit-structure form: `Meta.push/pop` unfolded) -/
theorem setAttr_ident (d0 : Data) (ident : Str) (hc : checkEdifIdentifier ident = true) (h0 : d0.has kNAME = false) :
    setAttr { data := d0, pfx := [S "EDIF", S "identifier"] } (.str ident) =
      .ok { data := (d0.set kNAME (.str ident)).set kIDENT (.str ident), pfx := [S "EDIF", S "identifier"] } := by
  simp only [setAttr, key_mk, joinDot_ident, kIDENT_ne_orig, if_false, if_true, hc, h0, Bool.false_eq_true,
    pure, Except.pure]

theorem setAttr_orig (d1 : Data) (name : Str) :
    setAttr { data := d1, pfx := [S "EDIF", S "original_identifier"] } (.str name) =
      .ok { data := d1.set kNAME (.str name), pfx := [S "EDIF", S "original_identifier"] } := by
  simp only [setAttr, key_mk, joinDot_orig, if_true, pure, Except.pure]

theorem push_mk (d : Data) (p : List Str) (s : String) :
    Meta.push { data := d, pfx := p } s = { data := d, pfx := p ++ [S s] } := rfl
theorem pop_mk (d : Data) (p : List Str) :
    Meta.pop { data := d, pfx := p } = { data := d, pfx := p.dropLast } := rfl

theorem parseRename_ok (d0 : Data) (ident name : Str) (hc : checkEdifIdentifier ident = true)
    (hs : name.all isStringChar = true) (hd0 : d0.has kNAME = false) :
    parseRename { data := d0, pfx := [S "EDIF"] } [A "rename", .atom ident, qtok name] =
      .ok { data := withName d0 ident name, pfx := [S "EDIF"] } := by
  have hv := validIdentTok_of_check ident hc
  have hr : isKw (A "rename") "rename" = true := by decide
  simp only [parseRename, hr, if_true, identOfS, hv, bind, Except.bind, pure, Except.pure, push_mk,
    pop_mk, List.cons_append, List.nil_append, setAttr_ident d0 ident hc hd0, stringTok_qtok name hs,
    List.dropLast, setAttr_orig, withName]

/-- `parse_nameDef` on the writer's `_output_name_of_object_` -/
theorem nameDef_nameSExp (d : Data) (ident name : Str) (h : NamedOK d ident name) (what : String) :
    ∃ e, nameSExp d what = .ok e ∧
      (e = .atom ident ∨ e = .list [A "rename", .atom ident, qtok name]) ∧
      ∀ (d0 : Data) (rest : List SExp), d0.has kNAME = false →
        nameDef { data := d0, pfx := [S "EDIF"] } (e :: rest) =
          .ok ({ data := withName d0 ident name, pfx := [S "EDIF"] }, rest) := by
  have hv := validIdentTok_of_check ident h.hc
  unfold nameSExp needIdent
  simp only [h.hi, h.hn, bind, Except.bind, pure, Except.pure]
  by_cases hcond : name = ident ∧ renameFlagOf d = false
  · simp only [hcond, and_self, if_true]
    refine ⟨_, rfl, Or.inl rfl, ?_⟩
    intro d0 rest hd0
    obtain ⟨hname, _⟩ := hcond
    subst hname
    have hself : ((d0.set kNAME (.str name)).set kIDENT (.str name)).set kNAME (.str name) = (d0.set kNAME (.str name)).set kIDENT (.str name) := by
      apply Data.set_of_get?
      rw [Data.get?_set_other _ _ _ _ kNAME_ne_kIDENT, Data.get?_set_self]
    simp only [nameDef, identOfS, hv, if_true, bind, Except.bind, pure, Except.pure, push_mk, pop_mk,
      List.cons_append, List.nil_append, setAttr_ident d0 name h.hc hd0, withName, hself]
    simp
  · simp only [hcond, if_false]
    refine ⟨_, rfl, Or.inr rfl, ?_⟩
    intro d0 rest hd0
    have hr : isKw (A "rename") "rename" = true := by decide
    simp only [nameDef, parseRename, hr, if_true, identOfS, hv, bind, Except.bind, pure, Except.pure, push_mk,
      pop_mk, List.cons_append, List.nil_append, setAttr_ident d0 ident h.hc hd0, stringTok_qtok name h.hs,
      List.dropLast, setAttr_orig, withName]



/-! ### ports -/

theorem toNat_ofNat' (n : Nat) : (Int.ofNat n).toNat = n := rfl

theorem has_nil (k : Str) : Data.has [] k = false := rfl

/-- the port the reader builds from what the writer emits for `p` -/
def readPort (p : CPort) (ident name : Str) : CPort :=
  { data := (withName [] ident name).set (S "metadata_prefix") (.list [.str (S "EDIF")]),
    dir := p.dir, width := p.width, scalarFlag := !p.isArray, lower := 0 }

theorem loopC_nil {σ : Type} (h : σ → List SExp → R σ) (s : σ) : loopC h s [] = .ok (s, []) := rfl

theorem portItem_direction (m : Meta) (a : SExp) (d : Dir)
    (hd : parseDirection [A "direction", a] = .ok d) :
    portItem { m := m } [A "direction", a] = .ok { m := m, dir := d, hasDir := true } := by
  have h1 : headIs [A "direction", a] "direction" = true := by rw [headIs_cons]; decide
  simp [portItem, h1, hd, bind, Except.bind, pure, Except.pure]

theorem parseDirection_dirAtom (d : Dir) (a : SExp) (h : dirAtom d = some a) :
    parseDirection [A "direction", a] = .ok d := by
  cases d with
  | undefined => simp [dirAtom] at h
  | inout =>
    simp only [dirAtom, Option.some.injEq] at h; subst h
    have h1 : isKw (A "INOUT") "inout" = true := by decide
    simp [parseDirection, h1, pure, Except.pure]
  | inp =>
    simp only [dirAtom, Option.some.injEq] at h; subst h
    have h0 : isKw (A "INPUT") "inout" = false := by decide
    have h1 : isKw (A "INPUT") "input" = true := by decide
    simp [parseDirection, h0, h1, pure, Except.pure]
  | out =>
    simp only [dirAtom, Option.some.injEq] at h; subst h
    have h0 : isKw (A "OUTPUT") "inout" = false := by decide
    have h1 : isKw (A "OUTPUT") "input" = false := by decide
    have h2 : isKw (A "OUTPUT") "output" = true := by decide
    simp [parseDirection, h0, h1, h2, pure, Except.pure]

/-- **port_roundtrip**: the reader applied to the writer's `(port …)` gives back a port with the
    same name, identifier, direction, width and array-ness (non-empty ports; `lower_index` is not
    carried by the format). -/
theorem port_roundtrip (p : CPort) (ident name : Str) (h : NamedOK p.data ident name)
    (hw : 1 ≤ p.width) (hsc : p.isArray = false → p.width = 1) :
    ∃ e ys, portSExp p = .ok e ∧ e = SExp.list ys ∧ parsePort ys = .ok (readPort p ident name) := by
  obtain ⟨nm, hnm, hshape, hdef⟩ := nameDef_nameSExp p.data ident name h "port"
  have hren : headIs [A "rename", SExp.atom ident, qtok name] "rename" = true := by rw [headIs_cons]; decide
  have harr0 : ∀ xs, headIs (A "array" :: xs) "rename" = false := by intro xs; rw [headIs_cons]; decide
  have harr1 : ∀ xs, headIs (A "array" :: xs) "array" = true := by intro xs; rw [headIs_cons]; decide
  unfold portSExp
  simp only [hnm, bind, Except.bind, pure, Except.pure]
  by_cases ha : p.isArray = true
  · -- (port (array nm w) dir?)
    simp only [ha, if_true]
    refine ⟨_, _, rfl, rfl, ?_⟩
    have hn := hdef [] [SExp.atom (natStr p.width)] rfl
    cases hdir : dirAtom p.dir with
    | none =>
      have hd : p.dir = .undefined := by cases hp : p.dir <;> simp [hp, dirAtom] at hdir ⊢
      simp only [parsePort, List.cons_append, List.nil_append, List.tail_cons, harr0, harr1, Bool.false_eq_true,
        if_false, if_true, Meta.new, hn, intOfS_natStr, bind, Except.bind, pure, Except.pure, loopC, endC,
        readPort, ha, hd, Bool.not_true, toNat_ofNat']
    | some a =>
      have hpd := parseDirection_dirAtom p.dir a hdir
      simp only [parsePort, List.cons_append, List.nil_append, List.tail_cons, harr0, harr1, Bool.false_eq_true,
        if_false, if_true, Meta.new, hn, intOfS_natStr, bind, Except.bind, pure, Except.pure, loopC,
        portItem_direction _ a p.dir hpd, endC, readPort, ha, Bool.not_true, toNat_ofNat']
  · -- (port nm dir?)
    have ha' : p.isArray = false := by simpa using ha
    have hw1 := hsc ha'
    simp only [ha', Bool.false_eq_true, if_false]
    refine ⟨_, _, rfl, rfl, ?_⟩
    rcases hshape with hs | hs
    · -- plain identifier
      subst hs
      cases hdir : dirAtom p.dir with
      | none =>
        have hd : p.dir = .undefined := by cases hp : p.dir <;> simp [hp, dirAtom] at hdir ⊢
        have hn := hdef [] [] rfl
        simp only [parsePort, List.cons_append, List.nil_append, List.tail_cons, Meta.new, hn, bind, Except.bind,
          pure, Except.pure, loopC, endC, hd, Bool.not_false, readPort, ha', hw1]
      | some a =>
        have hpd := parseDirection_dirAtom p.dir a hdir
        have hn := hdef [] [SExp.list [A "direction", a]] rfl
        simp only [parsePort, List.cons_append, List.nil_append, List.tail_cons, Meta.new, hn, bind, Except.bind,
          pure, Except.pure, loopC, portItem_direction _ a p.dir hpd, endC, Bool.not_false, readPort, ha', hw1]
    · -- (rename ident "name")
      subst hs
      cases hdir : dirAtom p.dir with
      | none =>
        have hd : p.dir = .undefined := by cases hp : p.dir <;> simp [hp, dirAtom] at hdir ⊢
        have hn := parseRename_ok [] ident name h.hc h.hs rfl
        simp only [parsePort, List.cons_append, List.nil_append, List.tail_cons, Meta.new, hren, if_true, hn, bind,
          Except.bind, pure, Except.pure, loopC, endC, hd, Bool.not_false, readPort, ha', hw1]
      | some a =>
        have hpd := parseDirection_dirAtom p.dir a hdir
        have hn := parseRename_ok [] ident name h.hc h.hs rfl
        simp only [parsePort, List.cons_append, List.nil_append, List.tail_cons, Meta.new, hren, if_true, hn, bind,
          Except.bind, pure, Except.pure, loopC, portItem_direction _ a p.dir hpd, endC, Bool.not_false, readPort,
          ha', hw1]



/-! ### pins and nets -/

/-- the writer-side and reader-side views of the cell a net belongs to agree on what a pin
    reference needs: identifiers resolve to the same positions and widths are the same -/
structure PinOK (libs : List CLib) (d : CDef) (cx : DefCtx) (pin : CPin) : Prop where
  ok : match pin with
    | .port pi bi =>
      ∃ p p' pid, d.ports[pi]? = some p ∧ identOf p.data = some pid ∧ validIdentTok pid = true ∧
        (p.isArray = false → bi = 0) ∧
        findIdent (cx.ports.map (·.data)) pid = some pi ∧ cx.ports[pi]? = some p' ∧ bi < p'.width
    | .inst ii pi bi =>
      ∃ inst li di rd p p' pid iid inst' d',
        d.insts[ii]? = some inst ∧ inst.ref = some (li, di) ∧
        (libs[li]?).bind (fun l => l.defs[di]?) = some rd ∧ rd.ports[pi]? = some p ∧
        identOf p.data = some pid ∧ validIdentTok pid = true ∧
        identOf inst.data = some iid ∧ validIdentTok iid = true ∧
        (p.isArray = false → bi = 0) ∧
        findIdent (cx.insts.map (·.data)) iid = some ii ∧ cx.insts[ii]? = some inst' ∧
        inst'.ref = some (li, di) ∧ (defsOfLib cx.sc li)[di]? = some d' ∧
        findIdent (d'.ports.map (·.data)) pid = some pi ∧ d'.ports[pi]? = some p' ∧ bi < p'.width

/-- **pin_roundtrip**: a joined pin written by the writer is read back as the same pin -/
theorem pin_roundtrip (libs : List CLib) (d : CDef) (cx : DefCtx) (pin : CPin) (h : PinOK libs d cx pin) :
    ∃ r, pinSExp libs d pin = .ok (.list (A "portref" :: r)) ∧ parsePortRef cx (A "portref" :: r) = .ok pin := by
  cases pin with
  | port pi bi =>
    obtain ⟨p, p', pid, hp, hid, hv, hsc, hf, hp', hb⟩ := h.ok
    by_cases ha : p.isArray = true
    · refine ⟨_, ?_, member_index_port cx pid bi pi p' hv hf hp' hb⟩
      simp [pinSExp, hp, needIdent, hid, ha, bind, Except.bind, pure, Except.pure]
    · have ha' : p.isArray = false := by simpa using ha
      have hb0 := hsc ha'
      subst hb0
      refine ⟨_, ?_, scalar_index_port cx pid pi p' hv hf hp' hb⟩
      simp [pinSExp, hp, needIdent, hid, ha', bind, Except.bind, pure, Except.pure]
  | inst ii pi bi =>
    obtain ⟨inst, li, di, rd, p, p', pid, iid, inst', d', hi, hr, hrd, hp, hid, hv, hiid, hiv, hsc, hfi, hi', hr', hd', hf, hp', hb⟩ := h.ok
    by_cases ha : p.isArray = true
    · refine ⟨_, ?_, member_index_inst cx pid iid bi pi ii li di inst' d' p' hv hiv hfi hi' hr' hd' hf hp' hb⟩
      simp [pinSExp, hi, hr, hrd, hp, needIdent, hid, hiid, ha, bind, Except.bind, pure, Except.pure]
    · have ha' : p.isArray = false := by simpa using ha
      have hb0 := hsc ha'
      subst hb0
      refine ⟨_, ?_, scalar_index_inst cx pid iid pi ii li di inst' d' p' hv hiv hfi hi' hr' hd' hf hp' hb⟩
      simp [pinSExp, hi, hr, hrd, hp, needIdent, hid, hiid, ha', bind, Except.bind, pure, Except.pure]

/-- all the pins of one wire -/
theorem pins_roundtrip (libs : List CLib) (d : CDef) (cx : DefCtx) (pins acc : List CPin)
    (h : ∀ pin ∈ pins, PinOK libs d cx pin) :
    ∃ es, pins.mapM (pinSExp libs d) = .ok es ∧
      loopC (joinedItem cx) acc es = .ok (acc ++ pins, []) := by
  induction pins generalizing acc with
  | nil => exact ⟨[], rfl, by simp [loopC, pure, Except.pure]⟩
  | cons pin rest ih =>
    obtain ⟨r, hw, hr⟩ := pin_roundtrip libs d cx pin (h pin (by simp))
    obtain ⟨es, hes, hl⟩ := ih (acc ++ [pin]) (fun q hq => h q (by simp [hq]))
    refine ⟨.list (A "portref" :: r) :: es, ?_, ?_⟩
    · simp [List.mapM_cons, hw, hes, bind, Except.bind, pure, Except.pure]
    · have hh : headIs (A "portref" :: r) "portref" = true := by rw [headIs_cons]; decide
      simp only [loopC, joinedItem, hh, if_true, hr, bind, Except.bind, pure, Except.pure]
      simpa using hl

end Spydr.Edif
