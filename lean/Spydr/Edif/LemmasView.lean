/-
  The C03 view of the re-read netlist equals the view of the written one: `edif_roundtrip_view`.
-/
import Spydr.Edif.LemmasWF
import Spydr.Edif.Spec
namespace Spydr.Edif

theorem specName_of_named (d : Data) (i n : Str) (h : NamedOK d i n) : specName d = some n := by
  simp [specName, Data.getStr?, h.hn]

theorem specName_eq_nameOf (d : Data) : specName d = nameOf d := rfl

theorem view03Port_read (p : CPort) (h : PortWF p) : view03Port (readPort1 p) = view03Port p := by
  have h1 : specName (readPort1 p).data = specName p.data := by
    rw [specName_eq_nameOf, readPort1, nameOf_readPort, specName_of_named _ _ _ h.named]
  have h2 : (readPort1 p).isArray = p.isArray := by
    simp only [readPort1, readPort, CPort.isArray, CPort.isScalar]
    by_cases hw : p.width > 1 <;> simp [hw]
  simp only [view03Port, h1, h2]
  rfl

theorem specProps_withProps (D : Data) (ps : List PropT) (h : D.get? kPROPS = none) :
    specProps (withProps D ps) = ps.map PropT.obj := by
  cases ps with
  | nil => simp [withProps, specProps, show "EDIF.properties".toList = kPROPS from rfl, h]
  | cons a r => simp [withProps, specProps, show "EDIF.properties".toList = kPROPS from rfl, Data.get?_set_self]

theorem view03Inst_read (libs : List CLib) (L D : Nat) (i : CInst) (h : InstWF libs L D i) :
    view03Inst (iwOf i).read = view03Inst i := by
  obtain ⟨li, di, _, _, href, _, _, _⟩ := h.ref
  have h1 : specName (iwOf i).read.data = specName i.data := by
    rw [specName_eq_nameOf, nameOf_readInst, specName_of_named _ _ _ h.named]; rfl
  have h2 : (iwOf i).read.ref = i.ref := by simp [IW.read, readInst, iwOf, href]
  have hk : (withName [] (iwOf i).ident (iwOf i).name).get? kPROPS = none := by
    rw [get?_withName_other [] _ _ kPROPS (by decide) (by decide)]; rfl
  have h3 : specProps (iwOf i).read.data = specProps i.data := by
    show specProps (withProps (withName [] (iwOf i).ident (iwOf i).name) (iwOf i).ps) = _
    rw [specProps_withProps _ _ hk]
    rcases h.props with hp | ⟨ps, hp, hall⟩
    · simp [iwOf, decodeProps, specProps, show "EDIF.properties".toList = kPROPS from rfl, hp]
    · have := (filterMap_decode ps hall).1
      simp [iwOf, decodeProps, specProps, show "EDIF.properties".toList = kPROPS from rfl, hp, this]
  simp only [view03Inst, h1, h2, h3]

theorem view03Net_read (libs : List CLib) (d : CDef) (c : CCable) (h : CableWF libs d c)
    (h0 : c.wires.length = 1 → c.isArray = false → c.lower = 0) : view03Net (readCable1 c) = view03Net c := by
  have h1 : specName (readCable1 c).data = specName c.data := by
    rw [specName_eq_nameOf, readCable1, nameOf_readCable, specName_of_named _ _ _ h.named]
  have h2 : (readCable1 c).wires = c.wires := readCable_wires _ _ _
  have h3 : (readCable1 c).lower = c.lower := by
    simp only [readCable1, readCable]
    split
    · rename_i hs
      simp [scalarCable, h0 hs.1 hs.2]
    · rfl
  simp only [view03Net, h1, h2, h3]

theorem map_congr_mem {α β : Type} (f g : α → β) (xs : List α) (h : ∀ x ∈ xs, f x = g x) : xs.map f = xs.map g :=
  List.map_congr_left h


/-- scalar cables start at index 0 (part of C03's quantifier) -/
def ScalarLower0 (n : CNetlist) : Prop :=
  ∀ l ∈ n.libs, ∀ d ∈ l.defs, ∀ c ∈ d.cables, c.wires.length = 1 → c.isArray = false → c.lower = 0

theorem view03Cell_img (libs : List CLib) (hn : NetNames libs) (L D : Nat) (l : CLib) (hl : libs[L]? = some l)
    (d : CDef) (hd : l.defs[D]? = some d) (h : CellWF libs L D d)
    (h0 : ∀ c ∈ d.cables, c.wires.length = 1 → c.isArray = false → c.lower = 0) :
    view03Cell (imgDef d) = view03Cell d := by
  have hlmem : l ∈ libs := List.mem_of_getElem? hl
  have hdmem : d ∈ l.defs := List.mem_of_getElem? hd
  have h1 : specName (imgDef d).data = specName d.data := by
    rw [specName_eq_nameOf, imgDef, DW.read, readCell, nameOf_cellData, specName_of_named _ _ _ (hn.defNamed l hlmem d hdmem)]
    rfl
  have h2 : (imgDef d).ports.map view03Port = d.ports.map view03Port := by
    rw [imgDef_ports, List.map_map]
    exact List.map_congr_left (fun p hp => view03Port_read p (hn.portWF l hlmem d hdmem p hp))
  have h3 : (imgDef d).insts.map view03Inst = d.insts.map view03Inst := by
    show ((d.insts.map iwOf).map IW.read).map view03Inst = _
    rw [List.map_map, List.map_map]
    exact List.map_congr_left (fun i hi => view03Inst_read libs L D i (h.insts i hi))
  have h4 : (imgDef d).cables.map view03Net = d.cables.map view03Net := by
    show (d.cables.map readCable1).map view03Net = _
    rw [List.map_map]
    exact List.map_congr_left (fun c hc => view03Net_read libs d c (h.cables c hc) (h0 c hc))
  simp only [view03Cell, h1, h2, h3, h4]

theorem view03Lib_img (libs : List CLib) (hn : NetNames libs) (L : Nat) (l : CLib) (hl : libs[L]? = some l)
    (hcells : ∀ D d, l.defs[D]? = some d → CellWF libs L D d)
    (h0 : ∀ d ∈ l.defs, ∀ c ∈ d.cables, c.wires.length = 1 → c.isArray = false → c.lower = 0) :
    view03Lib (imgLib l) = view03Lib l := by
  have hlmem : l ∈ libs := List.mem_of_getElem? hl
  have h1 : specName (imgLib l).data = specName l.data := by
    rw [specName_eq_nameOf, imgLib, LW.read, nameOf_withName, specName_of_named _ _ _ (hn.libNamed l hlmem)]
    rfl
  have h2 : (imgLib l).defs.map view03Cell = l.defs.map view03Cell := by
    rw [imgLib_defs, List.map_map]
    apply List.ext_getElem?
    intro k
    simp only [List.getElem?_map]
    cases hk : l.defs[k]? with
    | none => rfl
    | some d =>
      simp only [Option.map_some, Function.comp]
      rw [view03Cell_img libs hn L k l hl d hk (hcells k d hk) (h0 d (List.mem_of_getElem? hk))]
  simp only [view03Lib, h1, h2]

theorem specName_status (D : Data) (ts : List Int) (p v : Option Str) : specName (statusData D ts p v) = specName D := by
  simp only [specName, Data.getStr?]
  rw [statusData_keeps D ts p v kNAME (by decide) (by decide) (by decide) (by decide)]

/-- **edif_roundtrip** — the full statement of C03 on the model: for every (edifified) netlist inside
    the property's quantifier (`WFNet`, `ScalarLower0`), whatever the time stamp, the s-expression the
    writer emits is accepted by the reader and the netlist read back has the same C03 view: the same
    libraries, cells, ports (order, direction, width, array-ness), instances (name, referenced cell
    and library, properties), nets (name, width, base index, each wire's port bits and instance pin
    bits in order), the same top design and the same original names. -/
theorem edif_roundtrip_view (n : CNetlist) (prog ver : Option Str) (t : CInst) (li di : Nat) (y mo d h mi s : Nat)
    (hwf : WFNet n prog ver t li di) (h0 : ScalarLower0 n) :
    ∃ e n', toSExp [y, mo, d, h, mi, s] n = .ok e ∧ ofSExp e = .ok n' ∧ view03 n' = view03 n := by
  obtain ⟨e, hw, hr⟩ := edif_roundtrip_wf n prog ver t li di y mo d h mi s hwf
  refine ⟨e, _, hw, hr, ?_⟩
  have h1 : specName (readNetlist n (idOf n.data) (nmOf n.data)
      [Int.ofNat y, Int.ofNat mo, Int.ofNat d, Int.ofNat h, Int.ofNat mi, Int.ofNat s] prog ver (n.libs.map lwOf)
      (idOf t.data) (nmOf t.data) li di).data = specName n.data := by
    simp only [readNetlist, specName_status]
    have hne : kNAME ≠ kVERSION := by decide
    rw [specName, Data.getStr?, Data.get?_set_other _ _ _ _ hne]
    have := nameOf_withName [] (idOf n.data) (nmOf n.data)
    rw [specName_of_named _ _ _ hwf.named]
    simpa [nameOf, Data.getStr?] using this
  have h2 : (readNetlist n (idOf n.data) (nmOf n.data)
      [Int.ofNat y, Int.ofNat mo, Int.ofNat d, Int.ofNat h, Int.ofNat mi, Int.ofNat s] prog ver (n.libs.map lwOf)
      (idOf t.data) (nmOf t.data) li di).libs.map view03Lib = n.libs.map view03Lib := by
    rw [readNetlist_libs, List.map_map]
    apply List.ext_getElem?
    intro k
    simp only [List.getElem?_map]
    cases hk : n.libs[k]? with
    | none => rfl
    | some l =>
      simp only [Option.map_some, Function.comp]
      rw [view03Lib_img n.libs hwf.names k l hk (hwf.cells k l hk) (h0 l (List.mem_of_getElem? hk))]
  have h3 : specName (readTop (idOf t.data) (nmOf t.data) li di).data = specName t.data := by
    have hne : kNAME ≠ S "metadata_prefix" := by decide
    rw [specName, Data.getStr?, readTop, Data.get?_set_other _ _ _ _ hne, specName_of_named _ _ _ hwf.tnamed]
    have := nameOf_withName [] (idOf t.data) (nmOf t.data)
    simpa [nameOf, Data.getStr?] using this
  simp only [view03, h1, h2, hwf.top, Option.map_some]
  simp only [readNetlist, Option.map_some, readTop, hwf.tref]
  simp only [readTop] at h3
  rw [h3]

end Spydr.Edif
