/-
  From hypotheses on the ORIGINAL netlist (C03's quantifier as the predicate `WFNet`) to the chain of
  resolution hypotheses the file-level theorem uses: canonical witnesses, sibling distinctness, the
  reader's scope at every cell, and `edif_roundtrip_wf`.
-/
import Spydr.Edif.LemmasNet
namespace Spydr.Edif

/-! ### canonical witnesses: everything the file-level theorem needs is a function of the netlist -/

/-- decode a canonical property dictionary -/
def decodeProp : Val → Option PropT
  | .obj [(k1, .str i), (k2, v)] => if k1 = S "identifier" ∧ k2 = S "value" then some (i, none, v) else none
  | .obj [(k1, .str i), (k2, .str o), (k3, v)] =>
      if k1 = S "identifier" ∧ k2 = S "original_identifier" ∧ k3 = S "value" then some (i, some o, v) else none
  | _ => none

theorem decodeProp_obj (v : Val) (t : PropT) (h : decodeProp v = some t) : t.obj = v := by
  unfold decodeProp at h
  split at h
  · rename_i k1 i k2 v'
    split at h
    · rename_i hc
      obtain ⟨rfl, rfl⟩ := hc
      cases h
      rfl
    · cases h
  · rename_i k1 i k2 o k3 v'
    split at h
    · rename_i hc
      obtain ⟨rfl, rfl, rfl⟩ := hc
      cases h
      rfl
    · cases h
  · cases h

def decodeProps (d : Data) : List PropT :=
  match d.get? kPROPS with
  | some (.list ps) => ps.filterMap decodeProp
  | _ => []

def iwOf (i : CInst) : IW :=
  ⟨idOf i.data, nmOf i.data, decodeProps i.data, (i.ref.getD (0, 0)).1, (i.ref.getD (0, 0)).2⟩
def dwOf (d : CDef) : DW := ⟨idOf d.data, nmOf d.data, d.insts.map iwOf⟩
def lwOf (l : CLib) : LW := ⟨idOf l.data, nmOf l.data, l.defs.map dwOf⟩

def imgDef (d : CDef) : CDef := DW.read d (dwOf d)
def imgLib (l : CLib) : CLib := LW.read l (lwOf l)

theorem readDefs_map (ds : List CDef) : readDefs ds (ds.map dwOf) = ds.map imgDef := by
  induction ds with
  | nil => rfl
  | cons d r ih => simp [readDefs, imgDef, ih]

theorem readLibs_map (ls : List CLib) : readLibs ls (ls.map lwOf) = ls.map imgLib := by
  induction ls with
  | nil => rfl
  | cons l r ih => simp [readLibs, imgLib, ih]

theorem imgLib_defs (l : CLib) : (imgLib l).defs = l.defs.map imgDef := by
  simp [imgLib, LW.read, lwOf, readDefs_map]

theorem imgDef_ports (d : CDef) : (imgDef d).ports = d.ports.map readPort1 := rfl
theorem imgDef_ident (d : CDef) : identOf (imgDef d).data = some (idOf d.data) := identOf_cellData _ _
theorem imgLib_ident (l : CLib) : identOf (imgLib l).data = some (idOf l.data) := identOf_withName _ _ _
theorem imgDef_view (d : CDef) : viewIdentOf (imgDef d).data = some (S "netlist") := viewIdentOf_cellData _ _

/-! ### sibling distinctness -/

/-- names pairwise different, identifiers pairwise different ignoring case -/
def Distinct (ds : List Data) : Prop :=
  ds.Pairwise fun a b => nmOf a ≠ nmOf b ∧ lower (idOf a) ≠ lower (idOf b)

/-- the (ident, name) pairs of already processed siblings, most recent first -/
def pairsOf (ds : List Data) : List (Str × Str) := (ds.map fun d => (idOf d, nmOf d)).reverse

theorem freshIn_of_distinct (done : List Data) (d : Data) (rest : List Data) (h : Distinct (done ++ d :: rest)) :
    FreshIn (pairsOf done) (idOf d) (nmOf d) := by
  intro p hp
  simp only [pairsOf, List.mem_reverse, List.mem_map] at hp
  obtain ⟨a, ha, rfl⟩ := hp
  have := (List.pairwise_append.mp h).2.2 a ha d (by simp)
  exact this

theorem pairsOf_snoc (done : List Data) (d : Data) : pairsOf (done ++ [d]) = (idOf d, nmOf d) :: pairsOf done := by
  simp [pairsOf]

/-- with distinct identifiers, every spelling of sibling `k`'s identifier resolves to `k` -/
theorem findIdent_of_distinct (ds : List Data) (k : Nat) (hk : k < ds.length) (h : Distinct ds)
    (hid : ∀ d ∈ ds, identOf d = some (idOf d)) (spelling : Str) (hs : lower spelling = lower (idOf ds[k])) :
    findIdent ds spelling = some k := by
  apply findIdent_declared ds k (idOf ds[k]) spelling hk (hid _ (List.getElem_mem hk)) hs
  intro j hj b hb
  have hjl : j < ds.length := by omega
  rw [hid _ (List.getElem_mem hjl)] at hb
  cases hb
  have := List.pairwise_iff_getElem.mp h j k hjl hk hj
  exact this.2


/-! ### ports -/

structure PortWF (p : CPort) : Prop where
  named : NamedOK p.data (idOf p.data) (nmOf p.data)
  width : 1 ≤ p.width
  scalar : p.isArray = false → p.width = 1

theorem portsOK_of_wf (done rest : List CPort) (hwf : ∀ p ∈ rest, PortWF p)
    (hd : Distinct ((done ++ rest).map (·.data))) : PortsOK (pairsOf (done.map (·.data))) rest := by
  induction rest generalizing done with
  | nil => trivial
  | cons p r ih =>
    have hp := hwf p (by simp)
    refine ⟨hp.named, hp.width, hp.scalar, ?_, ?_⟩
    · have : Distinct (done.map (·.data) ++ p.data :: r.map (·.data)) := by simpa using hd
      exact freshIn_of_distinct _ _ _ this
    · have := ih (done ++ [p]) (fun q hq => hwf q (by simp [hq])) (by simpa using hd)
      simpa [pairsOf_snoc] using this


/-! ### images keep identifiers and names -/

theorem idOf_of_identOf (d : Data) (i : Str) (h : identOf d = some i) : idOf d = i := by simp [idOf, h]
theorem nmOf_of_nameOf (d : Data) (n : Str) (h : nameOf d = some n) : nmOf d = n := by simp [nmOf, h]

theorem idOf_imgLib (l : CLib) : idOf (imgLib l).data = idOf l.data := idOf_of_identOf _ _ (imgLib_ident l)
theorem nmOf_imgLib (l : CLib) : nmOf (imgLib l).data = nmOf l.data := nmOf_of_nameOf _ _ (nameOf_withName _ _ _)
theorem idOf_imgDef (d : CDef) : idOf (imgDef d).data = idOf d.data := idOf_of_identOf _ _ (imgDef_ident d)
theorem nmOf_imgDef (d : CDef) : nmOf (imgDef d).data = nmOf d.data := nmOf_of_nameOf _ _ (nameOf_cellData _ _)
theorem idOf_readPort1 (p : CPort) : idOf (readPort1 p).data = idOf p.data := idOf_of_identOf _ _ (identOf_readPort _ _ _)
theorem nmOf_readPort1 (p : CPort) : nmOf (readPort1 p).data = nmOf p.data := nmOf_of_nameOf _ _ (nameOf_readPort _ _ _)
theorem idOf_iwRead (i : CInst) : idOf (iwOf i).read.data = idOf i.data := idOf_of_identOf _ _ (identOf_readInst _)
theorem nmOf_iwRead (i : CInst) : nmOf (iwOf i).read.data = nmOf i.data := nmOf_of_nameOf _ _ (nameOf_readInst _)

theorem distinct_congr {α : Type} (f g : α → Data) (xs : List α)
    (hi : ∀ x, idOf (f x) = idOf (g x)) (hn : ∀ x, nmOf (f x) = nmOf (g x)) :
    Distinct (xs.map f) ↔ Distinct (xs.map g) := by
  unfold Distinct
  rw [List.pairwise_map, List.pairwise_map]
  simp only [hi, hn]

theorem distinct_take {α : Type} (f : α → Data) (xs : List α) (k : Nat) (h : Distinct (xs.map f)) :
    Distinct ((xs.take k).map f) := by
  unfold Distinct at *
  rw [List.pairwise_map] at *
  exact h.sublist (List.take_sublist k xs)

/-- every spelling of the identifier of element `k` finds `k` among the images -/
theorem findIdent_img {α : Type} (f : α → Data) (xs : List α) (k : Nat) (x : α) (hk : xs[k]? = some x)
    (hd : Distinct (xs.map f)) (hid : ∀ y ∈ xs, identOf (f y) = some (idOf (f y))) :
    findIdent (xs.map f) (idOf (f x)) = some k := by
  have hlt : k < xs.length := by
    rcases Nat.lt_or_ge k xs.length with h | h
    · exact h
    · rw [List.getElem?_eq_none h] at hk; cases hk
  have hx : xs[k] = x := by
    have := List.getElem?_eq_getElem hlt
    rw [this] at hk; exact Option.some.inj hk
  have := findIdent_of_distinct (xs.map f) k (by simpa using hlt) hd
    (by intro d hdm; obtain ⟨y, hy, rfl⟩ := List.mem_map.mp hdm; exact hid y hy) (idOf (f x))
    (by simp [hx])
  exact this


/-! ### the reader's scope when it reaches cell (L, D), and what references resolve to in it -/

/-- position (li, di) precedes the cell at (L, D) in the file (the writer's topological order) -/
def Before (L D li di : Nat) : Prop := li < L ∨ (li = L ∧ di < D)

def scopeAt (libs : List CLib) (L D : Nat) (l : CLib) : Scope :=
  { libs := (libs.take L).map imgLib, curLib := withName [] (idOf l.data) (nmOf l.data),
    curDefs := (l.defs.take D).map imgDef }

/-- naming facts about the whole netlist: everything named with a legal identifier, siblings distinct -/
structure NetNames (libs : List CLib) : Prop where
  libNamed : ∀ l ∈ libs, NamedOK l.data (idOf l.data) (nmOf l.data)
  libDistinct : Distinct (libs.map (·.data))
  defNamed : ∀ l ∈ libs, ∀ d ∈ l.defs, NamedOK d.data (idOf d.data) (nmOf d.data)
  defDistinct : ∀ l ∈ libs, Distinct (l.defs.map (·.data))
  portWF : ∀ l ∈ libs, ∀ d ∈ l.defs, ∀ p ∈ d.ports, PortWF p
  portDistinct : ∀ l ∈ libs, ∀ d ∈ l.defs, Distinct (d.ports.map (·.data))

theorem getElem?_lt {α : Type} (xs : List α) (k : Nat) (x : α) (h : xs[k]? = some x) : k < xs.length := by
  rcases Nat.lt_or_ge k xs.length with h' | h'
  · exact h'
  · rw [List.getElem?_eq_none h'] at h; cases h

theorem scope_lookup (libs : List CLib) (hn : NetNames libs) (L D : Nat) (l : CLib) (hl : libs[L]? = some l)
    (li di : Nat) (hb : Before L D li di) (l2 : CLib) (h2 : libs[li]? = some l2) (rd : CDef)
    (hrd : l2.defs[di]? = some rd) :
    LibResolves (scopeAt libs L D l) (idOf l2.data) li ∧
    findIdent ((defsOfLib (scopeAt libs L D l) li).map (·.data)) (idOf rd.data) = some di ∧
    (defsOfLib (scopeAt libs L D l) li)[di]? = some (imgDef rd) := by
  have hL := getElem?_lt _ _ _ hl
  have hlen : (scopeAt libs L D l).libs.length = L := by simp [scopeAt]; omega
  have hl2mem : l2 ∈ libs := List.mem_of_getElem? h2
  have hdist2 : Distinct (l2.defs.map (fun d => (imgDef d).data)) :=
    (distinct_congr (fun d => (imgDef d).data) (·.data) l2.defs idOf_imgDef nmOf_imgDef).mpr (hn.defDistinct l2 hl2mem)
  have hid2 : ∀ y ∈ l2.defs, identOf (imgDef y).data = some (idOf (imgDef y).data) := by
    intro y _; rw [idOf_imgDef]; exact imgDef_ident y
  rcases hb with hlt | ⟨heq, hdi⟩
  · -- an earlier library
    have hne : li ≠ (scopeAt libs L D l).libs.length := by rw [hlen]; omega
    have htake : (libs.take L)[li]? = some l2 := by rw [List.getElem?_take]; simp [hlt, h2]
    have hdefs : defsOfLib (scopeAt libs L D l) li = l2.defs.map imgDef := by
      unfold defsOfLib
      rw [if_neg hne]
      have : (scopeAt libs L D l).libs[li]? = some (imgLib l2) := by
        show ((libs.take L).map imgLib)[li]? = _
        rw [List.getElem?_map, htake]; rfl
      rw [this]
      exact imgLib_defs l2
    refine ⟨?_, ?_, ?_⟩
    · refine ⟨idOf l.data, identOf_withName _ _ _, ?_⟩
      have hpw := List.pairwise_iff_getElem.mp hn.libDistinct li L (by simpa using getElem?_lt _ _ _ h2) (by simpa using hL) hlt
      have e1 : libs[li]'(getElem?_lt _ _ _ h2) = l2 := by
        have := List.getElem?_eq_getElem (getElem?_lt _ _ _ h2); rw [this] at h2; exact Option.some.inj h2
      have e2 : libs[L]'hL = l := by
        have := List.getElem?_eq_getElem hL; rw [this] at hl; exact Option.some.inj hl
      simp only [List.getElem_map, e1, e2] at hpw
      have hc : (lower (idOf l.data) == lower (idOf l2.data)) = false := by
        simp only [beq_eq_false_iff_ne, ne_eq]; exact fun e => hpw.2 e.symm
      rw [if_neg (by simp [hc])]
      have hd : Distinct ((libs.take L).map (fun l => (imgLib l).data)) :=
        (distinct_congr (fun l => (imgLib l).data) (·.data) _ idOf_imgLib nmOf_imgLib).mpr
          (distinct_take (·.data) libs L hn.libDistinct)
      have := findIdent_img (fun l => (imgLib l).data) (libs.take L) li l2 htake hd
        (by intro y _; rw [idOf_imgLib]; exact imgLib_ident y)
      simp only [idOf_imgLib] at this
      show findIdent (((libs.take L).map imgLib).map (·.data)) (idOf l2.data) = some li
      rw [List.map_map]
      exact this
    · rw [hdefs, List.map_map]
      have := findIdent_img (fun d => (imgDef d).data) l2.defs di rd hrd hdist2 hid2
      simp only [idOf_imgDef] at this
      exact this
    · rw [hdefs, List.getElem?_map, hrd]; rfl
  · -- the library being read
    subst heq
    have hl2 : l2 = l := by rw [hl] at h2; exact (Option.some.inj h2).symm
    subst hl2
    have hdefs : defsOfLib (scopeAt libs li D l2) li = (l2.defs.take D).map imgDef := by
      unfold defsOfLib
      rw [if_pos hlen.symm]
      rfl
    have htake : (l2.defs.take D)[di]? = some rd := by rw [List.getElem?_take]; simp [hdi, hrd]
    refine ⟨?_, ?_, ?_⟩
    · refine ⟨idOf l2.data, identOf_withName _ _ _, ?_⟩
      simp [hlen]
    · rw [hdefs, List.map_map]
      have hd : Distinct ((l2.defs.take D).map (fun d => (imgDef d).data)) :=
        (distinct_congr (fun d => (imgDef d).data) (·.data) _ idOf_imgDef nmOf_imgDef).mpr
          (distinct_take (·.data) l2.defs D (hn.defDistinct l2 hl2mem))
      have := findIdent_img (fun d => (imgDef d).data) (l2.defs.take D) di rd htake hd
        (by intro y _; rw [idOf_imgDef]; exact imgDef_ident y)
      simp only [idOf_imgDef] at this
      exact this
    · rw [hdefs, List.getElem?_map, htake]; rfl


/-! ### instances -/

structure InstWF (libs : List CLib) (L D : Nat) (i : CInst) : Prop where
  named : NamedOK i.data (idOf i.data) (nmOf i.data)
  ref : ∃ li di l2 rd, i.ref = some (li, di) ∧ libs[li]? = some l2 ∧ l2.defs[di]? = some rd ∧ Before L D li di
  props : i.data.get? kPROPS = none ∨
    ∃ ps, i.data.get? kPROPS = some (.list ps) ∧ ∀ v ∈ ps, ∃ t, decodeProp v = some t ∧ PropOK t.1 t.2.1 t.2.2

theorem filterMap_decode (ps : List Val) (h : ∀ v ∈ ps, ∃ t, decodeProp v = some t ∧ PropOK t.1 t.2.1 t.2.2) :
    (ps.filterMap decodeProp).map PropT.obj = ps ∧ ∀ t ∈ ps.filterMap decodeProp, PropOK t.1 t.2.1 t.2.2 := by
  induction ps with
  | nil => exact ⟨rfl, by intro t ht; cases ht⟩
  | cons v r ih =>
    obtain ⟨t, ht, hok⟩ := h v (by simp)
    obtain ⟨h1, h2⟩ := ih (fun w hw => h w (by simp [hw]))
    refine ⟨?_, ?_⟩
    · simp [List.filterMap_cons, ht, decodeProp_obj v t ht, h1]
    · intro t' ht'
      simp only [List.filterMap_cons, ht, List.mem_cons] at ht'
      rcases ht' with rfl | ht'
      · exact hok
      · exact h2 t' ht'

theorem instOK_of_wf (libs : List CLib) (hn : NetNames libs) (L D : Nat) (l : CLib) (hl : libs[L]? = some l)
    (i : CInst) (h : InstWF libs L D i) :
    InstOK libs (scopeAt libs L D l) i (iwOf i).ident (iwOf i).name (iwOf i).ps (iwOf i).li (iwOf i).di := by
  obtain ⟨li, di, l2, rd, href, h2, hrd, hb⟩ := h.ref
  obtain ⟨hres, hf, hget⟩ := scope_lookup libs hn L D l hl li di hb l2 h2 rd hrd
  have hl2mem : l2 ∈ libs := List.mem_of_getElem? h2
  have hrdmem : rd ∈ l2.defs := List.mem_of_getElem? hrd
  have hli : (iwOf i).li = li := by simp [iwOf, href]
  have hdi : (iwOf i).di = di := by simp [iwOf, href]
  refine ⟨h.named, by rw [hli, hdi]; exact href, ?_, ?_⟩
  · rw [hli, hdi]
    exact ⟨l2, rd, idOf rd.data, idOf l2.data, imgDef rd, S "netlist", h2, hrd, (hn.defNamed l2 hl2mem rd hrdmem).hi,
      (hn.libNamed l2 hl2mem).hi, validIdentTok_of_check _ (hn.defNamed l2 hl2mem rd hrdmem).hc,
      validIdentTok_of_check _ (hn.libNamed l2 hl2mem).hc, hres, hf, hget, imgDef_view rd, by decide⟩
  · rcases h.props with hp | ⟨ps, hp, hall⟩
    · have : (iwOf i).ps = [] := by simp [iwOf, decodeProps, hp]
      rw [this]
      exact ⟨Or.inr ⟨hp, rfl⟩, by intro t ht; cases ht⟩
    · obtain ⟨h1, h2'⟩ := filterMap_decode ps hall
      have : (iwOf i).ps = ps.filterMap decodeProp := by simp [iwOf, decodeProps, hp]
      rw [this]
      exact ⟨Or.inl (by rw [h1]; exact hp), h2'⟩

theorem instsOK_of_wf (libs : List CLib) (hn : NetNames libs) (L D : Nat) (l : CLib) (hl : libs[L]? = some l)
    (done rest : List CInst) (hwf : ∀ i ∈ rest, InstWF libs L D i)
    (hd : Distinct ((done ++ rest).map (·.data))) :
    InstsOK libs (scopeAt libs L D l) (pairsOf (done.map (·.data))) rest (rest.map iwOf) := by
  induction rest generalizing done with
  | nil => trivial
  | cons i r ih =>
    refine ⟨instOK_of_wf libs hn L D l hl i (hwf i (by simp)), ?_, ?_⟩
    · have : Distinct (done.map (·.data) ++ i.data :: r.map (·.data)) := by simpa using hd
      exact freshIn_of_distinct _ _ _ this
    · have := ih (done ++ [i]) (fun q hq => hwf q (by simp [hq])) (by simpa using hd)
      simpa [pairsOf_snoc, iwOf] using this


/-! ### pins and cables -/

/-- a pin of the original cell is in range (and bit 0 for a scalar port) -/
def PinWF (libs : List CLib) (d : CDef) : CPin → Prop
  | .port pi bi => ∃ p, d.ports[pi]? = some p ∧ bi < p.width ∧ (p.isArray = false → bi = 0)
  | .inst ii pi bi => ∃ inst li di l2 rd p, d.insts[ii]? = some inst ∧ inst.ref = some (li, di) ∧
      libs[li]? = some l2 ∧ l2.defs[di]? = some rd ∧ rd.ports[pi]? = some p ∧ bi < p.width ∧
      (p.isArray = false → bi = 0)

/-- the reader's view of cell `d` at (L, D) while it reads the nets -/
def ctxAt (libs : List CLib) (L D : Nat) (l : CLib) (d : CDef) : DefCtx :=
  { sc := scopeAt libs L D l, ports := d.ports.map readPort1, insts := (d.insts.map iwOf).map IW.read }

theorem pinOK_of_wf (libs : List CLib) (hn : NetNames libs) (L D : Nat) (l : CLib) (hl : libs[L]? = some l)
    (d : CDef) (hd : l.defs[D]? = some d)
    (hinsts : ∀ i ∈ d.insts, InstWF libs L D i) (hidist : Distinct (d.insts.map (·.data)))
    (pin : CPin) (h : PinWF libs d pin) : PinOK libs d (ctxAt libs L D l d) pin := by
  have hlmem : l ∈ libs := List.mem_of_getElem? hl
  have hdmem : d ∈ l.defs := List.mem_of_getElem? hd
  cases pin with
  | port pi bi =>
    obtain ⟨p, hp, hb, hsc⟩ := h
    have hpm : p ∈ d.ports := List.mem_of_getElem? hp
    have hpw := hn.portWF l hlmem d hdmem p hpm
    have hdist : Distinct (d.ports.map (fun p => (readPort1 p).data)) :=
      (distinct_congr (fun p => (readPort1 p).data) (·.data) _ idOf_readPort1 nmOf_readPort1).mpr
        (hn.portDistinct l hlmem d hdmem)
    have hf := findIdent_img (fun p => (readPort1 p).data) d.ports pi p hp hdist
      (by intro y _; rw [idOf_readPort1]; exact identOf_readPort _ _ _)
    simp only [idOf_readPort1] at hf
    refine ⟨p, readPort1 p, idOf p.data, hp, hpw.named.hi, validIdentTok_of_check _ hpw.named.hc, hsc, ?_, ?_, hb⟩
    · show findIdent ((d.ports.map readPort1).map (·.data)) (idOf p.data) = some pi
      rw [List.map_map]; exact hf
    · show (d.ports.map readPort1)[pi]? = _
      rw [List.getElem?_map, hp]; rfl
  | inst ii pi bi =>
    obtain ⟨inst, li, di, l2, rd, p, hi, href, h2, hrd, hp, hb, hsc⟩ := h
    have him : inst ∈ d.insts := List.mem_of_getElem? hi
    have hiw := hinsts inst him
    obtain ⟨li', di', l2', rd', href', _, _, hbefore⟩ := hiw.ref
    rw [href] at href'
    obtain ⟨rfl, rfl⟩ : li = li' ∧ di = di' := by
      have := Option.some.inj href'; exact ⟨congrArg Prod.fst this, congrArg Prod.snd this⟩
    obtain ⟨_, _, hget⟩ := scope_lookup libs hn L D l hl li di hbefore l2 h2 rd hrd
    have hl2mem : l2 ∈ libs := List.mem_of_getElem? h2
    have hrdmem : rd ∈ l2.defs := List.mem_of_getElem? hrd
    have hpm : p ∈ rd.ports := List.mem_of_getElem? hp
    have hpw := hn.portWF l2 hl2mem rd hrdmem p hpm
    have hpdist : Distinct (rd.ports.map (fun p => (readPort1 p).data)) :=
      (distinct_congr (fun p => (readPort1 p).data) (·.data) _ idOf_readPort1 nmOf_readPort1).mpr
        (hn.portDistinct l2 hl2mem rd hrdmem)
    have hfp := findIdent_img (fun p => (readPort1 p).data) rd.ports pi p hp hpdist
      (by intro y _; rw [idOf_readPort1]; exact identOf_readPort _ _ _)
    simp only [idOf_readPort1] at hfp
    have hidist' : Distinct (d.insts.map (fun i => (iwOf i).read.data)) :=
      (distinct_congr (fun i => (iwOf i).read.data) (·.data) _ idOf_iwRead nmOf_iwRead).mpr hidist
    have hfi := findIdent_img (fun i => (iwOf i).read.data) d.insts ii inst hi hidist'
      (by intro y _; rw [idOf_iwRead]; exact identOf_readInst _)
    simp only [idOf_iwRead] at hfi
    refine ⟨inst, li, di, rd, p, readPort1 p, idOf p.data, idOf inst.data, (iwOf inst).read, imgDef rd,
      hi, href, by simp [h2, hrd], hp, hpw.named.hi, validIdentTok_of_check _ hpw.named.hc, hiw.named.hi,
      validIdentTok_of_check _ hiw.named.hc, hsc, ?_, ?_, ?_, hget, ?_, ?_, hb⟩
    · show findIdent (((d.insts.map iwOf).map IW.read).map (·.data)) (idOf inst.data) = some ii
      rw [List.map_map, List.map_map]; exact hfi
    · show ((d.insts.map iwOf).map IW.read)[ii]? = _
      rw [List.getElem?_map, List.getElem?_map, hi]; rfl
    · simp [IW.read, readInst, iwOf, href]
    · show findIdent ((rd.ports.map readPort1).map (·.data)) (idOf p.data) = some pi
      rw [List.map_map]; exact hfp
    · show (rd.ports.map readPort1)[pi]? = _
      rw [List.getElem?_map, hp]; rfl


structure CableWF (libs : List CLib) (d : CDef) (c : CCable) : Prop where
  named : NamedOK c.data (idOf c.data) (nmOf c.data)
  wires_ne : c.wires ≠ []
  pins : ∀ w ∈ c.wires, ∀ pin ∈ w, PinWF libs d pin
  scalar_plain : c.wires.length = 1 → c.isArray = false → (sepName (nmOf c.data)).1 = none ∧ nmOf c.data ≠ []
  bus_ok : ¬ (c.wires.length = 1 ∧ c.isArray = false) → ∀ k, k < c.wires.length →
    bracketAllowed (bitName (nmOf c.data) (k + c.lower)) = true ∧
    checkEdifIdentifier (bitIdent (idOf c.data) (k + c.lower)) = true ∧
    (bitName (nmOf c.data) (k + c.lower)).all isStringChar = true

/-- what C03's quantifier says about one cell at position (L, D): everything named, siblings distinct,
    ports and cables non-empty, references to earlier cells, pins in range and used once -/
structure CellWF (libs : List CLib) (L D : Nat) (d : CDef) : Prop where
  insts : ∀ i ∈ d.insts, InstWF libs L D i
  instDistinct : Distinct (d.insts.map (·.data))
  cables : ∀ c ∈ d.cables, CableWF libs d c
  cableDistinct : Distinct (d.cables.map (·.data))
  nodup : (d.cables.flatMap (fun c => c.wires.flatten)).Nodup

theorem cablesOK_of_wf (libs : List CLib) (d : CDef) (cx : DefCtx)
    (hpin : ∀ pin, PinWF libs d pin → PinOK libs d cx pin)
    (done rest : List CCable) (hwf : ∀ c ∈ rest, CableWF libs d c)
    (hd : Distinct ((done ++ rest).map (·.data))) :
    CablesOK libs d cx (pairsOf (done.map (·.data))) rest := by
  induction rest generalizing done with
  | nil => trivial
  | cons c r ih =>
    have hc := hwf c (by simp)
    refine ⟨⟨hc.named, hc.wires_ne, fun w hw pin hp => hpin pin (hc.pins w hw pin hp), hc.scalar_plain, hc.bus_ok⟩, ?_, ?_⟩
    · have : Distinct (done.map (·.data) ++ c.data :: r.map (·.data)) := by simpa using hd
      exact freshIn_of_distinct _ _ _ this
    · have := ih (done ++ [c]) (fun q hq => hwf q (by simp [hq])) (by simpa using hd)
      simpa [pairsOf_snoc] using this

theorem cellOK_of_wf (libs : List CLib) (hn : NetNames libs) (L D : Nat) (l : CLib) (hl : libs[L]? = some l)
    (d : CDef) (hd : l.defs[D]? = some d) (h : CellWF libs L D d) :
    CellOK libs (scopeAt libs L D l) d (idOf d.data) (nmOf d.data) (d.insts.map iwOf) := by
  have hlmem : l ∈ libs := List.mem_of_getElem? hl
  have hdmem : d ∈ l.defs := List.mem_of_getElem? hd
  refine ⟨hn.defNamed l hlmem d hdmem, ?_, ?_, ?_, h.nodup⟩
  · have := portsOK_of_wf [] d.ports (hn.portWF l hlmem d hdmem) (by simpa using hn.portDistinct l hlmem d hdmem)
    simpa [pairsOf] using this
  · have := instsOK_of_wf libs hn L D l hl [] d.insts h.insts (by simpa using h.instDistinct)
    simpa [pairsOf] using this
  · have := cablesOK_of_wf libs d (ctxAt libs L D l d)
      (pinOK_of_wf libs hn L D l hl d hd h.insts h.instDistinct) [] d.cables h.cables (by simpa using h.cableDistinct)
    simpa [pairsOf, ctxAt] using this


/-! ### libraries and the file -/

theorem defsOK_of_wf (libs : List CLib) (hn : NetNames libs) (L : Nat) (l : CLib) (hl : libs[L]? = some l)
    (hcells : ∀ D d, l.defs[D]? = some d → CellWF libs L D d)
    (done rest : List CDef) (hsplit : l.defs = done ++ rest) :
    DefsOK libs ((libs.take L).map imgLib) (withName [] (idOf l.data) (nmOf l.data))
      (pairsOf (done.map (·.data))) (done.map imgDef) rest (rest.map dwOf) := by
  have hlmem : l ∈ libs := List.mem_of_getElem? hl
  induction rest generalizing done with
  | nil => trivial
  | cons d r ih =>
    have hget : l.defs[done.length]? = some d := by rw [hsplit]; simp
    have hsc : scopeAt libs L done.length l =
        { libs := (libs.take L).map imgLib, curLib := withName [] (idOf l.data) (nmOf l.data), curDefs := done.map imgDef } := by
      simp [scopeAt, hsplit]
    have hcell := cellOK_of_wf libs hn L done.length l hl d hget (hcells _ _ hget)
    rw [hsc] at hcell
    refine ⟨hcell, ?_, ?_⟩
    · have hdist := hn.defDistinct l hlmem
      rw [hsplit] at hdist
      have : Distinct (done.map (·.data) ++ d.data :: r.map (·.data)) := by simpa using hdist
      exact freshIn_of_distinct _ _ _ this
    · have := ih (done ++ [d]) (by simp [hsplit])
      simpa [pairsOf_snoc, DW.read, imgDef, dwOf] using this

theorem libsOK_of_wf (libs : List CLib) (hn : NetNames libs)
    (hcells : ∀ L l, libs[L]? = some l → ∀ D d, l.defs[D]? = some d → CellWF libs L D d)
    (done rest : List CLib) (hsplit : libs = done ++ rest) :
    LibsOK libs (pairsOf (done.map (·.data))) (done.map imgLib) rest (rest.map lwOf) := by
  induction rest generalizing done with
  | nil => trivial
  | cons l r ih =>
    have hget : libs[done.length]? = some l := by rw [hsplit]; simp
    have hlmem : l ∈ libs := List.mem_of_getElem? hget
    have htake : (libs.take done.length).map imgLib = done.map imgLib := by simp [hsplit]
    have hdefs := defsOK_of_wf libs hn done.length l hget (hcells _ _ hget) [] l.defs (by simp)
    rw [htake] at hdefs
    refine ⟨⟨hn.libNamed l hlmem, by simpa [pairsOf, lwOf] using hdefs⟩, ?_, ?_⟩
    · have hdist := hn.libDistinct
      rw [hsplit] at hdist
      have : Distinct (done.map (·.data) ++ l.data :: r.map (·.data)) := by simpa using hdist
      exact freshIn_of_distinct _ _ _ this
    · have := ih (done ++ [l]) (by simp [hsplit])
      simpa [pairsOf_snoc, LW.read, imgLib, lwOf] using this

/-- **C03's quantifier as a predicate on the (edifified) netlist**: every element named with a legal
    identifier and a printable name, siblings distinct (identifiers ignoring case), ports and cables
    non-empty, scalar cables not named like a bus bit, references to cells that precede (acyclic
    dependencies in the writer's order), pins in range and on at most one wire, canonical property
    dictionaries, status strings printable, a named top instance referencing a cell of the netlist -/
structure WFNet (n : CNetlist) (prog ver : Option Str) (t : CInst) (li di : Nat) : Prop where
  names : NetNames n.libs
  cells : ∀ L l, n.libs[L]? = some l → ∀ D d, l.defs[D]? = some d → CellWF n.libs L D d
  named : NamedOK n.data (idOf n.data) (nmOf n.data)
  status : StatusOK n.data prog ver
  top : n.top = some t
  tnamed : NamedOK t.data (idOf t.data) (nmOf t.data)
  tref : t.ref = some (li, di)
  ttarget : ∃ l d, n.libs[li]? = some l ∧ l.defs[di]? = some d

theorem netOK_of_wf (n : CNetlist) (prog ver : Option Str) (t : CInst) (li di : Nat) (h : WFNet n prog ver t li di) :
    NetOK n (idOf n.data) (nmOf n.data) prog ver (n.libs.map lwOf) t (idOf t.data) (nmOf t.data) li di := by
  obtain ⟨l, d, hl, hd⟩ := h.ttarget
  have hlmem : l ∈ n.libs := List.mem_of_getElem? hl
  have hdmem : d ∈ l.defs := List.mem_of_getElem? hd
  have hlibs := libsOK_of_wf n.libs h.names h.cells [] n.libs (by simp)
  refine ⟨h.named, h.status, by simpa [pairsOf] using hlibs, h.top, h.tnamed, h.tref, ?_⟩
  refine ⟨l, d, idOf d.data, idOf l.data, imgLib l, hl, hd, (h.names.defNamed l hlmem d hdmem).hi,
    (h.names.libNamed l hlmem).hi, validIdentTok_of_check _ (h.names.defNamed l hlmem d hdmem).hc,
    validIdentTok_of_check _ (h.names.libNamed l hlmem).hc, ?_, ?_, ?_⟩
  · rw [readLibs_map, List.map_map]
    have hdist : Distinct (n.libs.map (fun l => (imgLib l).data)) :=
      (distinct_congr (fun l => (imgLib l).data) (·.data) _ idOf_imgLib nmOf_imgLib).mpr h.names.libDistinct
    have := findIdent_img (fun l => (imgLib l).data) n.libs li l hl hdist
      (by intro y _; rw [idOf_imgLib]; exact imgLib_ident y)
    simp only [idOf_imgLib] at this
    exact this
  · rw [readLibs_map, List.getElem?_map, hl]; rfl
  · rw [imgLib_defs, List.map_map]
    have hdist : Distinct (l.defs.map (fun d => (imgDef d).data)) :=
      (distinct_congr (fun d => (imgDef d).data) (·.data) _ idOf_imgDef nmOf_imgDef).mpr (h.names.defDistinct l hlmem)
    have := findIdent_img (fun d => (imgDef d).data) l.defs di d hd hdist
      (by intro y _; rw [idOf_imgDef]; exact imgDef_ident y)
    simp only [idOf_imgDef] at this
    exact this

/-- **edif_roundtrip** (file level, hypotheses on the ORIGINAL netlist only): for every netlist inside
    C03's quantifier, the text the model writer lays out is accepted by the model reader, which
    returns the netlist `readNetlist` — the same libraries (`imgLib`), cells (`imgDef` = `readCell`),
    ports, instances, cables, top instance and names. -/
theorem edif_roundtrip_wf (n : CNetlist) (prog ver : Option Str) (t : CInst) (li di : Nat) (y mo d h mi s : Nat)
    (hwf : WFNet n prog ver t li di) :
    ∃ e, toSExp [y, mo, d, h, mi, s] n = .ok e ∧
      ofSExp e = .ok (readNetlist n (idOf n.data) (nmOf n.data)
        [Int.ofNat y, Int.ofNat mo, Int.ofNat d, Int.ofNat h, Int.ofNat mi, Int.ofNat s] prog ver (n.libs.map lwOf)
        (idOf t.data) (nmOf t.data) li di) :=
  netlist_roundtrip n _ _ prog ver _ t _ _ li di y mo d h mi s (netOK_of_wf n prog ver t li di hwf)

theorem readNetlist_libs (n : CNetlist) (ni nn : Str) (ts : List Int) (p v : Option Str) (ti tn : Str) (li di : Nat) :
    (readNetlist n ni nn ts p v (n.libs.map lwOf) ti tn li di).libs = n.libs.map imgLib := by
  simp [readNetlist, readLibs_map]

end Spydr.Edif
