/-
  EDIF, from characters up: the tokenizer state machine of
  spydrnet/parsers/edif/tokenizer.py (`EdifTokenizer.generate_tokens`), s-expressions, and the
  token-level reader.  No Mathlib (linked into drv_edif).
-/
namespace Spydr.Edif

abbrev Str := List Char

/-- A token as the Python generator yields it: "(" , ")" or any other string (a quoted string keeps
    its quotes; `abc"d e"` is ONE token, as in the implementation). -/
inductive Tok where
  | lp | rp
  | atom (s : Str)
  deriving DecidableEq, Repr, Inhabited

def isWs (c : Char) : Bool := c == '\r' || c == '\n' || c == '\t' || c == ' '

/-- emit the pending buffer (kept reversed) -/
def flush (buf : Str) : List Tok := if buf.isEmpty then [] else [Tok.atom buf.reverse]

/-- `generate_tokens`: `inQ` = inside a quoted string, `buf` = token_buffer (reversed). Chunk
    boundaries of the 32 kB reads are irrelevant (state is carried across them). -/
def lexGo : Bool → Str → List Char → List Tok
  | _, buf, [] => flush buf
  | true, buf, c :: cs =>
      if c == '\n' || c == '\r' then lexGo true buf cs
      else if c == '"' then Tok.atom (c :: buf).reverse :: lexGo false [] cs
      else lexGo true (c :: buf) cs
  | false, buf, c :: cs =>
      if c == '"' then lexGo true (c :: buf) cs
      else if c == '(' then flush buf ++ Tok.lp :: lexGo false [] cs
      else if c == ')' then flush buf ++ Tok.rp :: lexGo false [] cs
      else if isWs c then flush buf ++ lexGo false [] cs
      else lexGo false (c :: buf) cs

def lexE (cs : List Char) : List Tok := lexGo false [] cs

/-- s-expressions -/
inductive SExp where
  | atom (s : Str)
  | list (xs : List SExp)
  deriving Repr, Inhabited

mutual
/-- structural equality test (used by examples) -/
def SExp.beq : SExp → SExp → Bool
  | .atom a, .atom b => a == b
  | .list xs, .list ys => SExp.beqL xs ys
  | _, _ => false
def SExp.beqL : List SExp → List SExp → Bool
  | [], [] => true
  | x :: xs, y :: ys => SExp.beq x y && SExp.beqL xs ys
  | _, _ => false
end

mutual
def flattenS : SExp → List Tok
  | .atom s => [Tok.atom s]
  | .list xs => Tok.lp :: (flattenL xs ++ [Tok.rp])
def flattenL : List SExp → List Tok
  | [] => []
  | x :: xs => flattenS x ++ flattenL xs
end

mutual
def SExp.size : SExp → Nat
  | .atom _ => 1
  | .list xs => 2 + sizeL xs
def sizeL : List SExp → Nat
  | [] => 1
  | x :: xs => 1 + x.size + sizeL xs
end

mutual
/-- read one expression; the fuel bounds the recursion (see `readS_flatten`, `readTop`) -/
def readSF : Nat → List Tok → Option (SExp × List Tok)
  | 0, _ => none
  | _+1, [] => none
  | _+1, Tok.rp :: _ => none
  | _+1, Tok.atom s :: r => some (.atom s, r)
  | f+1, Tok.lp :: r =>
    match readLF f r with
    | some (xs, r') => some (.list xs, r')
    | none => none
/-- read expressions up to the matching `)` (consumed) -/
def readLF : Nat → List Tok → Option (List SExp × List Tok)
  | 0, _ => none
  | _+1, [] => none
  | _+1, Tok.rp :: r => some ([], r)
  | f+1, t :: ts =>
    match readSF f (t :: ts) with
    | some (x, r) =>
      match readLF f r with
      | some (xs, r') => some (x :: xs, r')
      | none => none
    | none => none
end

/-- The reader's entry: one expression from the front of the token stream; what follows it is never
    looked at (the Python parser never reads past the closing parenthesis of `(edif …)`).
    Fuel `2 * length + 2` always suffices (`readS_fuel_ok` in Lemmas). -/
def readS (ts : List Tok) : Option (SExp × List Tok) := readSF (2 * ts.length + 2) ts

end Spydr.Edif
