/-
  Value-level canonical netlist (the positional CNetlist of harness/common/canon.py) and the
  JSON-like element dictionaries.  No Mathlib.
-/
import Spydr.Edif.ModelLex
namespace Spydr.Edif

/-- JSON-like data values (tuples are lists, as canon.jval renders them) -/
inductive Val where
  | null
  | bool (b : Bool)
  | int (i : Int)
  | str (s : Str)
  | list (xs : List Val)
  | obj (kv : List (Str × Val))
  deriving Repr, Inhabited

abbrev Data := List (Str × Val)

def Data.get? (d : Data) (k : Str) : Option Val :=
  match d with
  | [] => none
  | (k', v) :: r => if k' = k then some v else Data.get? r k

def Data.has (d : Data) (k : Str) : Bool := (d.get? k).isSome

def Data.erase (d : Data) (k : Str) : Data := d.filter (fun kv => kv.1 ≠ k)

/-- dict assignment: replaces in place or appends (key order is canonicalised away by sorting) -/
def Data.set (d : Data) (k : Str) (v : Val) : Data :=
  match d with
  | [] => [(k, v)]
  | (k', v') :: r => if k' = k then (k, v) :: r else (k', v') :: Data.set r k v

def Data.getStr? (d : Data) (k : Str) : Option Str :=
  match d.get? k with
  | some (.str s) => some s
  | _ => none

def kNAME : Str := ".NAME".toList
def kIDENT : Str := "EDIF.identifier".toList

inductive Dir where
  | undefined | inout | inp | out
  deriving DecidableEq, Repr, Inhabited

/-- a pin as canon numbers it inside one definition:
    port bit `(port index, bit index)` or instance pin `(child index, port index of the
    referenced definition, bit index)` -/
inductive CPin where
  | port (pi bi : Nat)
  | inst (ii pi bi : Nat)
  deriving DecidableEq, Repr, Inhabited

structure CPort where
  data : Data
  dir : Dir := .undefined
  width : Nat := 0
  scalarFlag : Bool := true      -- Bundle._is_scalar
  lower : Nat := 0
  deriving Repr, Inhabited

/-- `Bundle.is_scalar` -/
def CPort.isScalar (p : CPort) : Bool := if p.width > 1 then false else p.scalarFlag
def CPort.isArray (p : CPort) : Bool := !p.isScalar

structure CCable where
  data : Data
  scalarFlag : Bool := true
  lower : Nat := 0
  wires : List (List CPin) := []
  deriving Repr, Inhabited

def CCable.isScalar (c : CCable) : Bool := if c.wires.length > 1 then false else c.scalarFlag
def CCable.isArray (c : CCable) : Bool := !c.isScalar

structure CInst where
  data : Data
  ref : Option (Nat × Nat) := none     -- (library index, definition index)
  deriving Repr, Inhabited

structure CDef where
  data : Data
  ports : List CPort := []
  cables : List CCable := []
  insts : List CInst := []
  deriving Repr, Inhabited

structure CLib where
  data : Data
  defs : List CDef := []
  deriving Repr, Inhabited

structure CNetlist where
  data : Data
  libs : List CLib := []
  top : Option CInst := none
  deriving Repr, Inhabited

def nameOf (d : Data) : Option Str := d.getStr? kNAME
def identOf (d : Data) : Option Str := d.getStr? kIDENT

end Spydr.Edif
